(* Proofs/RapidProgEqb.v — the decidable equality of Model/RapidProg.v is sound: a translated declaration that [rdecl_eqb] accepts
   IS the canonical one (what the driver's `RAPIDPROG <name> eqb` line relies on). *)
From Coq Require Import Lia.
From CP Require Import RapidGen RapidGenProofs RapidProg GoFun AnyProgProofs.

Lemma rkind_eqb_eq a b : rkind_eqb a b = true -> a = b.
Proof. destruct a, b; cbn [rkind_eqb]; try discriminate; try reflexivity. intros H. apply kind_eqb_eq in H. congruence. Qed.
Lemma rbin_code_inj a b : Nat.eqb (rbin_code a) (rbin_code b) = true -> a = b.
Proof. destruct a, b; cbn; try discriminate; reflexivity. Qed.
Lemma rofield_code_inj a b : Nat.eqb (rofield_code a) (rofield_code b) = true -> a = b.
Proof. destruct a, b; cbn; try discriminate; reflexivity. Qed.
Lemma rmeth_code_inj a b : Nat.eqb (rmeth_code a) (rmeth_code b) = true -> a = b.
Proof. destruct a; destruct b; cbn; try discriminate; reflexivity. Qed.
Lemma rfn_code_inj a b : Nat.eqb (rfn_code a) (rfn_code b) = true -> a = b.
Proof. destruct a; destruct b; cbn; try discriminate; reflexivity. Qed.

Lemma rp_names_eqb_eq : forall a b, rp_names_eqb a b = true -> a = b.
Proof.
  induction a as [|x a IH]; intros [|y b] H; cbn [rp_names_eqb] in H; try discriminate; [reflexivity|].
  apply andb_prop in H. destruct H as [H1 H2]. apply str_eq_eq in H1. apply IH in H2. congruence.
Qed.

Lemma rp_list_eqb_eq_of {A} (eqb : A -> A -> bool) : forall l, Forall (fun a => forall b, eqb a b = true -> a = b) l ->
  forall l', rp_list_eqb eqb l l' = true -> l = l'.
Proof.
  induction l as [|x t IH]; intros HF [|y t'] H; cbn [rp_list_eqb] in H; try discriminate; [reflexivity|].
  apply andb_prop in H. destruct H as [H1 H2]. inversion HF as [|? ? Hx Ht]; subst.
  apply Hx in H1. apply (IH Ht) in H2. congruence.
Qed.
Lemma rp_list_eqb_eq {A} (eqb : A -> A -> bool) : (forall a b, eqb a b = true -> a = b) -> forall l l', rp_list_eqb eqb l l' = true -> l = l'.
Proof. intros H l. apply rp_list_eqb_eq_of. apply Forall_forall. intros a _. apply H. Qed.

Definition optP (P : rexpr -> Prop) (r : option rexpr) : Prop := match r with Some x => P x | None => True end.

(* induction over expressions with the nested argument lists *)
Section RexprInd.
  Variable P : rexpr -> Prop.
  Hypothesis HNil : P RxNil.
  Hypothesis HBool : forall b, P (RxBool b).
  Hypothesis HInt : forall z, P (RxInt z).
  Hypothesis HStr : forall s, P (RxStr s).
  Hypothesis HVar : forall x, P (RxVar x).
  Hypothesis HSel : forall e f, P e -> P (RxSel e f).
  Hypothesis HKind : forall k, P (RxKind k).
  Hypothesis HMax : P RxMaxInt64.
  Hypothesis HAcc : P RxAcceptsInterface.
  Hypothesis HNoV : P RxNoValue.
  Hypothesis HNot : forall e, P e -> P (RxNot e).
  Hypothesis HBin : forall op a b, P a -> P b -> P (RxBin op a b).
  Hypothesis HFn : forall f l, Forall P l -> P (RxFn f l).
  Hypothesis HMeth : forall m r l, P r -> Forall P l -> P (RxMeth m r l).
  Hypothesis HCall : forall f r l, optP P r -> Forall P l -> P (RxCall f r l).
  Hypothesis HIdx : forall m k, P m -> P k -> P (RxIndexOk m k).
  Hypothesis HAssert : forall e t, P e -> P (RxAssertType e t).

  Fixpoint rexpr_ind' (e : rexpr) : P e :=
    let all := fix all (l : list rexpr) : Forall P l :=
        match l with
        | [] => Forall_nil P
        | x :: t => Forall_cons x (rexpr_ind' x) (all t)
        end in
    match e with
    | RxNil => HNil
    | RxBool b => HBool b
    | RxInt z => HInt z
    | RxStr s => HStr s
    | RxVar x => HVar x
    | RxSel a f => HSel a f (rexpr_ind' a)
    | RxKind k => HKind k
    | RxMaxInt64 => HMax
    | RxAcceptsInterface => HAcc
    | RxNoValue => HNoV
    | RxNot a => HNot a (rexpr_ind' a)
    | RxBin op a b => HBin op a b (rexpr_ind' a) (rexpr_ind' b)
    | RxFn f l => HFn f l (all l)
    | RxMeth m r l => HMeth m r l (rexpr_ind' r) (all l)
    | RxCall f r l =>
      HCall f r l (match r as r0 return optP P r0 with Some x => rexpr_ind' x | None => I end) (all l)
    | RxIndexOk m k => HIdx m k (rexpr_ind' m) (rexpr_ind' k)
    | RxAssertType a t => HAssert a t (rexpr_ind' a)
    end.
End RexprInd.

Lemma rexpr_eqb_eq : forall a b, rexpr_eqb a b = true -> a = b.
Proof.
  induction a using rexpr_ind'; intros b' HE; destruct b'; try discriminate HE; try reflexivity; cbn [rexpr_eqb] in HE;
    repeat match goal with
           | H : (_ && _) = true |- _ => apply andb_prop in H; destruct H
           end;
    repeat match goal with
           | H : str_eq _ _ = true |- _ => apply str_eq_eq in H
           | H : Bool.eqb _ _ = true |- _ => apply Bool.eqb_prop in H
           | H : Z.eqb _ _ = true |- _ => apply Z.eqb_eq in H
           | H : rkind_eqb _ _ = true |- _ => apply rkind_eqb_eq in H
           | H : Nat.eqb (rbin_code _) (rbin_code _) = true |- _ => apply rbin_code_inj in H
           | H : Nat.eqb (rofield_code _) (rofield_code _) = true |- _ => apply rofield_code_inj in H
           | H : Nat.eqb (rmeth_code _) (rmeth_code _) = true |- _ => apply rmeth_code_inj in H
           | H : Nat.eqb (rfn_code _) (rfn_code _) = true |- _ => apply rfn_code_inj in H
           | IH : forall b, rexpr_eqb ?a b = true -> ?a = b, H : rexpr_eqb ?a _ = true |- _ => apply IH in H
           | HF : Forall _ ?l, H : rp_list_eqb rexpr_eqb ?l _ = true |- _ => apply (rp_list_eqb_eq_of rexpr_eqb l HF) in H
           end;
    try congruence.
  (* RxCall: the optional receiver *)
  match goal with H : match ?r1 with Some _ => match ?r2 with Some _ => _ | None => _ end | None => _ end = true |- _ =>
    destruct r1 as [x|], r2 as [y|]; try discriminate; [|congruence] end. cbn [optP] in *.
  match goal with IH : forall b, rexpr_eqb x b = true -> x = b, H : rexpr_eqb x y = true |- _ => apply IH in H end. congruence.
Qed.

(* induction over statements with the nested blocks and switch clauses *)
Section RstmtInd.
  Variable P : rstmt -> Prop.
  Hypothesis HDefine : forall xs e, P (RsDefine xs e).
  Hypothesis HAssign : forall xs e, P (RsAssign xs e).
  Hypothesis HVar : forall x t, P (RsVar x t).
  Hypothesis HExpr : forall e, P (RsExpr e).
  Hypothesis HIf : forall i c a b, Forall P i -> Forall P a -> Forall P b -> P (RsIf i c a b).
  Hypothesis HSwitch : forall t cs d, Forall (fun c => Forall P (snd c)) cs -> Forall P d -> P (RsSwitch t cs d).
  Hypothesis HFor : forall i n b, Forall P b -> P (RsFor i n b).
  Hypothesis HRange : forall x e b, Forall P b -> P (RsRange x e b).
  Hypothesis HReturn : forall es, P (RsReturn es).
  Hypothesis HCont : P RsContinue.
  Hypothesis HCustom : forall t a r b, Forall P b -> P (RsReturnCustom t a r b).

  Fixpoint rstmt_ind' (s : rstmt) : P s :=
    let all := fix all (l : list rstmt) : Forall P l :=
        match l with
        | [] => Forall_nil P
        | x :: t => Forall_cons x (rstmt_ind' x) (all t)
        end in
    match s with
    | RsDefine xs e => HDefine xs e
    | RsAssign xs e => HAssign xs e
    | RsVar x t => HVar x t
    | RsExpr e => HExpr e
    | RsIf i c a b => HIf i c a b (all i) (all a) (all b)
    | RsSwitch t cs d =>
      HSwitch t cs d
        ((fix allc (l : list (list rexpr * list rstmt)) : Forall (fun c => Forall P (snd c)) l :=
            match l with
            | [] => Forall_nil _
            | (es, body) :: r => Forall_cons (es, body) (all body) (allc r)
            end) cs)
        (all d)
    | RsFor i n b => HFor i n b (all b)
    | RsRange x e b => HRange x e b (all b)
    | RsReturn es => HReturn es
    | RsContinue => HCont
    | RsReturnCustom t a r b => HCustom t a r b (all b)
    end.
End RstmtInd.

Lemma rp_opt_expr_eqb_eq a b : rp_opt_expr_eqb a b = true -> a = b.
Proof. destruct a, b; cbn; try discriminate; [|reflexivity]. intros H. apply rexpr_eqb_eq in H. congruence. Qed.

Lemma rstmt_eqb_switch t cs d t' cs' d' :
  rstmt_eqb (RsSwitch t cs d) (RsSwitch t' cs' d') =
    rp_opt_expr_eqb t t'
    && rp_list_eqb (fun c c' => rp_list_eqb rexpr_eqb (fst c) (fst c') && rp_list_eqb rstmt_eqb (snd c) (snd c')) cs cs'
    && rp_list_eqb rstmt_eqb d d'.
Proof.
  cbn [rstmt_eqb]. f_equal. f_equal. revert cs'. induction cs as [|[es body] r IH]; intros [|[es' body'] r']; cbn [rp_list_eqb fst snd]; try reflexivity.
  rewrite IH. reflexivity.
Qed.

Lemma rstmt_eqb_eq : forall a b, rstmt_eqb a b = true -> a = b.
Proof.
  induction a using rstmt_ind'; intros b' HE; destruct b'; try discriminate HE; try reflexivity;
    first [rewrite rstmt_eqb_switch in HE | cbn [rstmt_eqb] in HE];
    repeat match goal with
           | H : (_ && _) = true |- _ => apply andb_prop in H; destruct H
           end;
    repeat match goal with
           | H : str_eq _ _ = true |- _ => apply str_eq_eq in H
           | H : rp_names_eqb _ _ = true |- _ => apply rp_names_eqb_eq in H
           | H : rexpr_eqb _ _ = true |- _ => apply rexpr_eqb_eq in H
           | H : rp_opt_expr_eqb _ _ = true |- _ => apply rp_opt_expr_eqb_eq in H
           | H : rp_list_eqb rexpr_eqb _ _ = true |- _ => apply (rp_list_eqb_eq rexpr_eqb rexpr_eqb_eq) in H
           | HF : Forall _ ?l, H : rp_list_eqb rstmt_eqb ?l _ = true |- _ => apply (rp_list_eqb_eq_of rstmt_eqb l HF) in H
           end;
    try congruence.
  (* the switch clauses *)
  match goal with H : rp_list_eqb _ cs _ = true |- _ => eapply rp_list_eqb_eq_of in H end; [congruence|].
  match goal with HF : Forall _ cs |- _ => revert HF end. apply Forall_impl. intros [es body] Hb [es' body'] HE. cbn [fst snd] in *.
  apply andb_prop in HE. destruct HE as [Hq1 Hq2]. apply (rp_list_eqb_eq rexpr_eqb rexpr_eqb_eq) in Hq1.
  apply (rp_list_eqb_eq_of rstmt_eqb body Hb) in Hq2. congruence.
Qed.

Lemma rp_pair_eqb_eq a b : rp_pair_eqb a b = true -> a = b.
Proof.
  destruct a, b. unfold rp_pair_eqb. cbn [fst snd]. intros H. apply andb_prop in H. destruct H as [H1 H2].
  apply str_eq_eq in H1. apply str_eq_eq in H2. congruence.
Qed.

Theorem rdecl_eqb_sound : rdecl_eqb_sound_stmt.
Proof.
  intros [x e|f|k n t] [y e'|g|k' n' t'] H; cbn [rdecl_eqb] in H; try discriminate.
  - apply andb_prop in H. destruct H as [H1 H2]. apply str_eq_eq in H1. apply rexpr_eqb_eq in H2. congruence.
  - destruct f as [n1 tp1 r1 p1 rs1 b1], g as [n2 tp2 r2 p2 rs2 b2]. unfold rfun_eqb in H. cbn [rf_name rf_tparams rf_recv rf_params rf_results rf_body] in H.
    repeat match goal with H : (_ && _) = true |- _ => apply andb_prop in H; destruct H end.
    repeat match goal with
           | H : str_eq _ _ = true |- _ => apply str_eq_eq in H
           | H : rp_names_eqb _ _ = true |- _ => apply rp_names_eqb_eq in H
           | H : rp_list_eqb rp_pair_eqb _ _ = true |- _ => apply (rp_list_eqb_eq rp_pair_eqb rp_pair_eqb_eq) in H
           | H : rp_list_eqb rstmt_eqb _ _ = true |- _ => apply (rp_list_eqb_eq rstmt_eqb rstmt_eqb_eq) in H
           end.
    assert (r1 = r2).
    { destruct r1 as [a|], r2 as [b|]; try discriminate; [|reflexivity].
      match goal with H : rp_pair_eqb a b = true |- _ => apply rp_pair_eqb_eq in H end. congruence. }
    congruence.
  - repeat match goal with H : (_ && _) = true |- _ => apply andb_prop in H; destruct H end.
    repeat match goal with H : str_eq _ _ = true |- _ => apply str_eq_eq in H end. congruence.
Qed.

Print Assumptions rdecl_eqb_sound.
