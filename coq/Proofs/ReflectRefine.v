(* Proofs/ReflectRefine.v — the generated reflection code (Model/Reflect.v) refines the reference semantics of
   protoreflect (Model/RefReflect.v) under the abstraction of Model/ReflectAbs.v: for every schema, every tidy heap
   and every well-scoped operation, the reference model run on the abstraction of the heap returns the abstraction
   of the result and of the new heap; tidiness is preserved; hence the same for every finite history. *)
From CP Require Import Reflect RefReflect ReflectAbs ReflectLaws.
From Coq Require Import Lia.
Local Open Scope nat_scope.

(* ---- lists ------------------------------------------------------------------------------------------------- *)
Lemma list_ext {A} (l1 l2 : list A) : length l1 = length l2 -> (forall i, i < length l1 -> nth_error l1 i = nth_error l2 i) -> l1 = l2.
Proof.
  revert l2; induction l1 as [|a l1 IH]; intros [|b l2] L H; cbn in L; try discriminate; [reflexivity|].
  pose proof (H 0 ltac:(cbn; lia)) as H0. cbn in H0. inversion H0; subst. f_equal. apply IH; [lia|].
  intros i Hi. apply (H (S i)). cbn; lia.
Qed.

Lemma mapi_from_length {A B} (f : nat -> A -> B) i l : length (mapi_from f i l) = length l.
Proof. revert i; induction l; intros; cbn; auto. Qed.

Lemma mapi_from_nth {A B} (f : nat -> A -> B) : forall l i k,
  nth_error (mapi_from f i l) k = option_map (f (i + k)) (nth_error l k).
Proof.
  induction l as [|x l IH]; intros i [|k]; cbn [mapi_from nth_error option_map]; auto.
  - rewrite Nat.add_0_r. reflexivity.
  - rewrite IH. rewrite Nat.add_succ_r. reflexivity.
Qed.

Lemma set_nth_map' {A B} (g : A -> B) l i x : map g (set_nth l i x) = set_nth (map g l) i (g x).
Proof. revert i; induction l as [|a l IH]; intros [|i]; cbn [set_nth map]; auto. rewrite IH. reflexivity. Qed.

Lemma nth_error_set_nth_ge {A} (l : list A) i x : length l <= i -> set_nth l i x = l.
Proof. revert i; induction l as [|a l IH]; intros [|i] H; cbn [set_nth length] in *; auto; try lia. f_equal. apply IH. lia. Qed.

Lemma nth_error_set_nth {A} (l : list A) i j x :
  nth_error (set_nth l i x) j = if Nat.eqb i j then (if j <? length l then Some x else None) else nth_error l j.
Proof.
  destruct (Nat.eqb i j) eqn:E.
  - apply Nat.eqb_eq in E. subst j. destruct (i <? length l) eqn:L.
    + apply Nat.ltb_lt in L. apply nth_error_set_nth_eq; exact L.
    + apply Nat.ltb_ge in L. rewrite nth_error_set_nth_ge by exact L. apply nth_error_None. exact L.
  - apply Nat.eqb_neq in E. apply nth_error_set_nth_neq. exact E.
Qed.

(* ---- scalars ------------------------------------------------------------------------------------------------ *)
Lemma populated_present k v : wt_scalar k v = true -> ref_populated k (nscalar v) = present k v.
Proof.
  destruct k; destruct v; cbn; try discriminate; intros _; try reflexivity;
    try (destruct l; reflexivity); try (destruct b; reflexivity).
Qed.

Lemma unpopulated_zero k v : wt_scalar k v = true -> ref_populated k (nscalar v) = false -> nscalar v = ref_zero k.
Proof.
  destruct k; destruct v; cbn; try discriminate; intros _ H;
    try (apply Bool.negb_false_iff in H);
    try (apply Z.eqb_eq in H; subst; reflexivity);
    try (apply N.eqb_eq in H; subst; reflexivity);
    try (destruct b; [discriminate|reflexivity]);
    try (destruct l; [reflexivity|discriminate]); try reflexivity.
Qed.

Lemma nscalar_zero k : nscalar (zero_scalar k) = ref_zero k.
Proof. destruct k; reflexivity. Qed.

Lemma nscalar_idem v : nscalar (nscalar v) = nscalar v.
Proof. destruct v; reflexivity. Qed.

Section Refine.
  Variable sch : schema.

  Lemma afields_eq mid : afields_of sch mid = fields_of sch mid.
  Proof. reflexivity. Qed.
  Lemma afield_of_eq mid f : afield_of sch mid f = field_of sch mid f.
  Proof. unfold afield_of, afields_of, field_of. destruct (get_msg sch mid); [reflexivity|destruct f; reflexivity]. Qed.

  (* ---- what tidiness gives ------------------------------------------------------------------------------ *)
  Lemma tidy_obj h id o : tidyb sch h = true -> get_obj h id = Some o -> obj_tidyb sch o = true.
  Proof.
    unfold tidyb, get_obj, hget. intros T G. destruct (nth_error h id) as [[o'| |]|] eqn:E; try discriminate.
    inversion G; subst. rewrite forallb_forall in T. exact (T _ (nth_error_In _ _ E)).
  Qed.

  Lemma cells_nth : forall fs cs i fd, cells_tidyb fs cs = true -> nth_error fs i = Some fd ->
    exists c, nth_error cs i = Some c /\ cell_tidyb fd c = true.
  Proof.
    induction fs as [|f0 fs IH]; intros [|c0 cs] i fd T N; cbn [cells_tidyb] in T; try discriminate.
    - destruct i; discriminate.
    - apply andb_prop in T. destruct T as [T1 T2]. destruct i as [|i]; cbn [nth_error] in *.
      + inversion N; subst. eauto.
      + eapply IH; eauto.
  Qed.
  Lemma cells_len : forall fs cs, cells_tidyb fs cs = true -> length cs = length fs.
  Proof.
    induction fs as [|f0 fs IH]; intros [|c0 cs] T; cbn [cells_tidyb] in T; try discriminate; [reflexivity|].
    apply andb_prop in T. destruct T as [_ T]. cbn. f_equal. auto.
  Qed.
  Lemma slots_nth fs : forall ss j0 k s, slots_tidyb fs j0 ss = true -> nth k ss None = Some s ->
    slot_tidyb fs (j0 + k) (Some s) = true.
  Proof.
    induction ss as [|s0 ss IH]; intros j0 k s T N; [destruct k; discriminate|].
    cbn [slots_tidyb] in T. apply andb_prop in T. destruct T as [T1 T2]. destruct k as [|k]; cbn [nth] in N.
    - subst s0. rewrite Nat.add_0_r. exact T1.
    - rewrite Nat.add_succ_r. apply (IH (S j0) k s T2 N).
  Qed.

  Lemma tidy_field o f fd : obj_tidyb sch o = true -> field_of sch (o_mid o) f = Some fd ->
    exists c, nth_error (o_cells o) f = Some c /\ cell_tidyb fd c = true.
  Proof.
    unfold obj_tidyb, field_of. destruct (get_msg sch (o_mid o)) as [md|]; [|discriminate].
    intros T F. apply andb_prop in T. destruct T as [T _]. apply andb_prop in T. destruct T as [T _].
    eapply cells_nth; eauto.
  Qed.
  Lemma tidy_cells_len o : obj_tidyb sch o = true -> length (o_cells o) = length (fields_of sch (o_mid o)).
  Proof.
    unfold obj_tidyb, fields_of. destruct (get_msg sch (o_mid o)) as [md|].
    - intros T. apply andb_prop in T. destruct T as [T _]. apply andb_prop in T. destruct T as [T _]. apply cells_len; exact T.
    - destruct (o_cells o); [reflexivity|discriminate].
  Qed.
  Lemma tidy_slot o j f' e : obj_tidyb sch o = true -> nth j (o_oneofs o) None = Some (f', e) ->
    exists fd', field_of sch (o_mid o) f' = Some fd' /\ f_shape fd' = Member j /\ elem_fitsb (f_ty fd') e = true.
  Proof.
    unfold obj_tidyb, field_of. destruct (get_msg sch (o_mid o)) as [md|].
    - intros T N. apply andb_prop in T. destruct T as [_ T]. pose proof (slots_nth _ _ 0 j _ T N) as S.
      cbn [Nat.add slot_tidyb] in S. destruct (nth_error (m_fields md) f') as [fd'|]; [|discriminate].
      apply andb_prop in S. destruct S as [S1 S2]. exists fd'. split; [reflexivity|]. split; [|exact S2].
      unfold is_member in S1. destruct (f_shape fd'); try discriminate. apply Nat.eqb_eq in S1. subst. reflexivity.
    - destruct (o_cells o); [|discriminate]. destruct (o_oneofs o); [|discriminate]. destruct j; discriminate.
  Qed.
  Lemma tidy_oneofs_len o md : obj_tidyb sch o = true -> get_msg sch (o_mid o) = Some md -> length (o_oneofs o) = m_oneofs md.
  Proof.
    unfold obj_tidyb. intros T M. rewrite M in T. apply andb_prop in T. destruct T as [T _]. apply andb_prop in T.
    destruct T as [_ T]. apply Nat.eqb_eq. exact T.
  Qed.

  (* ---- abs on heaps --------------------------------------------------------------------------------------- *)
  Lemma abs_length h : length (abs sch h) = length h.
  Proof. apply map_length. Qed.
  Lemma abs_app h e : abs sch (h ++ [e]) = abs sch h ++ [abs_ent sch e].
  Proof. unfold abs. rewrite map_app. reflexivity. Qed.
  Lemma abs_hset h id e : abs sch (hset h id e) = set_nth (abs sch h) id (abs_ent sch e).
  Proof. apply set_nth_map'. Qed.
  Lemma abs_nth h id : nth_error (abs sch h) id = option_map (abs_ent sch) (nth_error h id).
  Proof. apply nth_error_map. Qed.
  Lemma aget_abs h id : aget_obj (abs sch h) id = option_map (abs_obj sch) (get_obj h id).
  Proof. unfold aget_obj, get_obj, hget. rewrite abs_nth. destruct (nth_error h id) as [[| |]|]; reflexivity. Qed.

  Lemma afield_abs o f : afield (abs_obj sch o) f =
    match field_of sch (o_mid o) f with Some fd => abs_field o f fd | None => None end.
  Proof.
    unfold afield, abs_obj. cbn [a_fields]. rewrite mapi_from_nth. cbn [Nat.add]. rewrite afields_eq.
    unfold field_of, fields_of. destruct (get_msg sch (o_mid o)) as [md|].
    - destruct (nth_error (m_fields md) f); reflexivity.
    - destruct f; reflexivity.
  Qed.

  Lemma abs_obj_fields_len o : length (a_fields (abs_obj sch o)) = length (fields_of sch (o_mid o)).
  Proof. unfold abs_obj. cbn [a_fields]. rewrite mapi_from_length. reflexivity. Qed.

  Lemma abs_field_new mid i fd : field_of sch mid i = Some fd -> abs_field (new_obj sch mid) i fd = None.
  Proof.
    unfold field_of, new_obj. destruct (get_msg sch mid) as [md|]; [|discriminate]. intro F.
    unfold abs_field. cbn [o_cells o_oneofs]. rewrite nth_error_map, F. cbn [option_map]. unfold new_cell.
    destruct (f_shape fd) eqn:S; destruct (f_ty fd) as [k|m]; cbn; try reflexivity.
    - destruct k; reflexivity.
    - rewrite nth_repeat_None. reflexivity.
    - rewrite nth_repeat_None. reflexivity.
  Qed.

  Lemma abs_new mid : abs_obj sch (new_obj sch mid) = aempty sch mid.
  Proof.
    unfold abs_obj, aempty. rewrite new_obj_mid, unk_new. cbn [olist]. f_equal.
    apply list_ext.
    - rewrite mapi_from_length, repeat_length. reflexivity.
    - intros i Hi. rewrite mapi_from_length in Hi. rewrite mapi_from_nth. cbn [Nat.add].
      destruct (nth_error (afields_of sch mid) i) as [fd|] eqn:E; [|apply nth_error_None in E; lia].
      cbn [option_map]. rewrite abs_field_new.
      + symmetry. apply nth_error_repeat. exact Hi.
      + rewrite <- afield_of_eq. exact E.
  Qed.

  Lemma arecv_abs h mid id : arecv sch (abs sch h) mid (Some id) = option_map (abs_obj sch) (recv_obj sch h mid (Some id)).
  Proof.
    unfold arecv, recv_obj. rewrite aget_abs. destruct (get_obj h id) as [o|]; [|reflexivity]. cbn [option_map abs_obj a_mid].
    destruct (Nat.eqb (o_mid o) mid); reflexivity.
  Qed.
  Lemma arecv_nil a mid : arecv sch a mid None = Some (abs_obj sch (new_obj sch mid)).
  Proof. rewrite abs_new. reflexivity. Qed.
  (* ---- reads of one object ------------------------------------------------------------------------------------ *)
  Lemma elem_out_abs t e : elem_fitsb t e = true -> abs_out (elem_to_pval t e) = aelem_out t (abs_elem e).
  Proof. destruct t as [k|m]; destruct e as [v|[q|]]; cbn; try discriminate; reflexivity. Qed.

  Lemma aval_out_scalar v : aval_of_elem (abs_elem (EScalar v)) = AScalar (nscalar v).
  Proof. reflexivity. Qed.

  Lemma has_abs o f fd : obj_tidyb sch o = true -> field_of sch (o_mid o) f = Some fd ->
    isSome (abs_field o f fd) = has_field o f fd.
  Proof.
    intros T F. destruct (tidy_field o f fd T F) as [c [C Ct]].
    unfold abs_field, has_field. rewrite C. unfold cell_tidyb in Ct.
    destruct (f_shape fd) eqn:S.
    - destruct c as [v|p|l|m|]; try discriminate; destruct (f_ty fd) as [k|m'] eqn:Ty; try discriminate.
      + rewrite (populated_present _ _ Ct). destruct (present k v); reflexivity.
      + destruct p; reflexivity.
    - destruct c as [v|p|l|m|]; try discriminate. destruct l as [[|e l]|]; reflexivity.
    - destruct (nth oneof (o_oneofs o) None) as [[f' e]|]; [|reflexivity]. destruct (Nat.eqb f' f); reflexivity.
    - destruct c as [v|p|l|m|]; try discriminate. destruct m as [[|e m]|]; reflexivity.
  Qed.

  Lemma get_abs o id f fd : obj_tidyb sch o = true -> field_of sch (o_mid o) f = Some fd ->
    abs_out (get_field o (Some id) f fd) = ref_get (abs_obj sch o) (Some id) f fd.
  Proof.
    intros T F. destruct (tidy_field o f fd T F) as [c [C Ct]].
    unfold ref_get. rewrite afield_abs, F. unfold abs_field, get_field, ref_default. rewrite C. unfold cell_tidyb in Ct.
    destruct (f_shape fd) eqn:S.
    - destruct c as [v|p|l|m|]; try discriminate; destruct (f_ty fd) as [k|m'] eqn:Ty; try discriminate.
      + cbn [abs_out]. destruct (ref_populated k (nscalar v)) eqn:P; [reflexivity|].
        rewrite (unpopulated_zero _ _ Ct P). reflexivity.
      + destruct p; reflexivity.
    - destruct c as [v|p|l|m|]; try discriminate. destruct l as [[|e l]|]; reflexivity.
    - destruct (nth oneof (o_oneofs o) None) as [[f' e]|] eqn:N.
      + destruct (Nat.eqb f' f) eqn:E.
        * apply Nat.eqb_eq in E. subst f'. destruct (tidy_slot o oneof f e T N) as [fd' [F' [_ Fit]]].
          rewrite F in F'. inversion F'; subst fd'. rewrite (elem_out_abs _ _ Fit).
          destruct (f_ty fd) as [k|m']; destruct e as [v|[q|]]; cbn in *; try discriminate; reflexivity.
        * unfold zero_elem. destruct (f_ty fd); cbn [abs_out]; [rewrite nscalar_zero|]; reflexivity.
      + unfold zero_elem. destruct (f_ty fd); cbn [abs_out]; [rewrite nscalar_zero|]; reflexivity.
    - destruct c as [v|p|l|m|]; try discriminate. destruct m as [[|e m]|]; reflexivity.
  Qed.

  (* the read-only message: Get gives the defaults *)
  Lemma get_nil mid f fd : field_of sch mid f = Some fd ->
    abs_out (get_field (new_obj sch mid) None f fd) = ref_get (aempty sch mid) None f fd.
  Proof.
    intro F. unfold ref_get. rewrite <- abs_new, afield_abs, new_obj_mid, F, (abs_field_new _ _ _ F).
    unfold field_of, new_obj in *. destruct (get_msg sch mid) as [md|]; [|discriminate].
    unfold get_field, ref_default. cbn [o_cells o_oneofs]. rewrite nth_error_map, F. cbn [option_map]. unfold new_cell.
    destruct (f_shape fd) eqn:S; destruct (f_ty fd) as [k|m]; cbn; try reflexivity; try (rewrite nscalar_zero; reflexivity);
      rewrite nth_repeat_None; cbn; try rewrite nscalar_zero; reflexivity.
  Qed.
  Lemma has_nil mid f fd : field_of sch mid f = Some fd -> isSome (afield (aempty sch mid) f) = has_field (new_obj sch mid) f fd.
  Proof.
    intro F. rewrite <- abs_new, afield_abs, new_obj_mid, F, (abs_field_new _ _ _ F), (has_field_new _ _ _ _ F). reflexivity.
  Qed.

  (* WhichOneof *)
  Lemma awhich_none j (g : nat -> field -> option aval) : forall l i,
    (forall k fd, nth_error l k = Some fd -> is_member fd j && isSome (g (i + k) fd) = false) ->
    awhich l j (mapi_from g i l) i = None.
  Proof.
    induction l as [|fd l IH]; intros i H; cbn [mapi_from awhich]; [reflexivity|].
    pose proof (H 0 fd eq_refl) as H0. rewrite Nat.add_0_r in H0. rewrite H0. apply IH.
    intros k fd' N. specialize (H (S k) fd' N). rewrite Nat.add_succ_r in H. exact H.
  Qed.
  Lemma awhich_some j (g : nat -> field -> option aval) : forall l i k0 fd0,
    nth_error l k0 = Some fd0 -> is_member fd0 j && isSome (g (i + k0) fd0) = true ->
    (forall k fd, k < k0 -> nth_error l k = Some fd -> is_member fd j && isSome (g (i + k) fd) = false) ->
    awhich l j (mapi_from g i l) i = Some (i + k0).
  Proof.
    induction l as [|fd l IH]; intros i k0 fd0 N Y H; [destruct k0; discriminate|].
    cbn [mapi_from awhich]. destruct k0 as [|k0].
    - cbn [nth_error] in N. inversion N; subst fd0. rewrite Nat.add_0_r in *. rewrite Y. reflexivity.
    - pose proof (H 0 fd ltac:(lia) eq_refl) as H0. rewrite Nat.add_0_r in H0. rewrite H0.
      rewrite (IH (S i) k0 fd0 N).
      + f_equal. lia.
      + rewrite Nat.add_succ_l, <- Nat.add_succ_r. exact Y.
      + intros k fd' Lk N'. specialize (H (S k) fd' ltac:(lia) N'). rewrite Nat.add_succ_r in H. exact H.
  Qed.

  Lemma which_abs o j md : obj_tidyb sch o = true -> get_msg sch (o_mid o) = Some md ->
    awhich (m_fields md) j (a_fields (abs_obj sch o)) 0 =
    match nth j (o_oneofs o) None with Some (f, _) => Some f | None => None end.
  Proof.
    intros T M. unfold abs_obj. cbn [a_fields]. unfold afields_of. rewrite M.
    destruct (nth j (o_oneofs o) None) as [[f' e]|] eqn:N.
    - destruct (tidy_slot o j f' e T N) as [fd' [F' [S' _]]]. unfold field_of in F'. rewrite M in F'.
      change (Some f') with (Some (0 + f')). apply awhich_some with fd'; [exact F'| |].
      + cbn [Nat.add]. unfold is_member, abs_field. rewrite S', Nat.eqb_refl, N, Nat.eqb_refl. reflexivity.
      + intros k fd Lk Nk. cbn [Nat.add]. unfold is_member, abs_field. destruct (f_shape fd) eqn:S; try reflexivity.
        destruct (Nat.eqb oneof j) eqn:E; [|reflexivity]. apply Nat.eqb_eq in E. subst oneof. rewrite N.
        assert (X : Nat.eqb f' k = false) by (apply Nat.eqb_neq; lia). rewrite X. reflexivity.
    - apply awhich_none. intros k fd Nk. cbn [Nat.add]. unfold is_member, abs_field. destruct (f_shape fd) eqn:S; try reflexivity.
      destruct (Nat.eqb oneof j) eqn:E; [|reflexivity]. apply Nat.eqb_eq in E. subst oneof. rewrite N. reflexivity.
  Qed.

  (* Range *)
  Lemma range_abs o id : obj_tidyb sch o = true -> forall fs i,
    (forall k fd, nth_error fs k = Some fd -> field_of sch (o_mid o) (i + k) = Some fd) ->
    map (fun iv => (fst iv, abs_out (snd iv))) (range_from o (Some id) i fs) = arange (abs_obj sch o) (Some id) i fs.
  Proof.
    intros T. induction fs as [|fd fs IH]; intros i H; cbn [range_from arange map]; [reflexivity|].
    pose proof (H 0 fd eq_refl) as F. rewrite Nat.add_0_r in F.
    rewrite map_app, IH.
    2:{ intros k fd' N. specialize (H (S k) fd' N). rewrite Nat.add_succ_r in H. exact H. }
    f_equal. rewrite afield_abs, F, (has_abs _ _ _ T F).
    destruct (has_field o i fd) eqn:Hh; [|reflexivity]. cbn [map fst snd].
    rewrite range_field_get by exact Hh. rewrite (get_abs _ _ _ _ T F). reflexivity.
  Qed.
  Lemma range_nil mid : arange (aempty sch mid) None 0 (afields_of sch mid) = [].
  Proof.
    assert (G : forall fs i, (forall k fd, nth_error fs k = Some fd -> field_of sch mid (i + k) = Some fd) ->
                arange (aempty sch mid) None i fs = []).
    { induction fs as [|fd fs IH]; intros i H; cbn [arange]; [reflexivity|].
      pose proof (H 0 fd eq_refl) as F. rewrite Nat.add_0_r in F.
      rewrite (has_nil _ _ _ F), (has_field_new _ _ _ _ F). cbn [app]. apply IH.
      intros k fd' N. specialize (H (S k) fd' N). rewrite Nat.add_succ_r in H. exact H. }
    apply G. intros k fd N. cbn [Nat.add]. rewrite <- afield_of_eq. exact N.
  Qed.
  (* ---- writes to one object --------------------------------------------------------------------------------------- *)
  Lemma abs_field_other_cell o f c i fd : f_shape fd <> Member 0 \/ True -> i <> f ->
    abs_field (set_cell o f c) i fd = abs_field o i fd.
  Proof.
    intros _ N. unfold abs_field, set_cell. cbn [o_cells o_oneofs]. rewrite nth_error_set_nth_neq by congruence. reflexivity.
  Qed.

  (* a non-member field's cell is replaced: only that entry changes *)
  Lemma abs_set_cell o f fd c : field_of sch (o_mid o) f = Some fd ->
    abs_obj sch (set_cell o f c) = aset (abs_obj sch o) f (abs_field (set_cell o f c) f fd).
  Proof.
    intro F. unfold abs_obj, aset. cbn [set_cell o_mid o_unk a_mid a_fields a_unk]. f_equal.
    apply list_ext.
    - rewrite set_nth_length, !mapi_from_length. reflexivity.
    - intros i Hi. rewrite mapi_from_length in Hi. rewrite nth_error_set_nth, !mapi_from_nth, mapi_from_length. cbn [Nat.add].
      destruct (nth_error (afields_of sch (o_mid o)) i) as [fdi|] eqn:E; [|apply nth_error_None in E; lia].
      cbn [option_map]. destruct (Nat.eqb f i) eqn:Q.
      + apply Nat.eqb_eq in Q. subst i. apply Nat.ltb_lt in Hi. rewrite Hi.
        rewrite <- afield_of_eq in F. unfold afield_of in F. rewrite E in F. inversion F; subst. reflexivity.
      + apply Nat.eqb_neq in Q. f_equal. apply abs_field_other_cell; [right; exact I|congruence].
  Qed.

  Lemma aclear_nth fs j : forall vals i, length vals = length fs ->
    nth_error (aclear_oneof fs j vals) i =
    match nth_error fs i with Some fd => if is_member fd j then Some None else nth_error vals i | None => None end.
  Proof.
    induction fs as [|fd fs IH]; intros [|x vals] i L; cbn in L; try discriminate.
    - destruct i; reflexivity.
    - cbn [aclear_oneof]. destruct i as [|i]; cbn [nth_error].
      + destruct (is_member fd j); reflexivity.
      + apply IH. lia.
  Qed.
  Lemma aclear_length fs j : forall vals, length (aclear_oneof fs j vals) = length vals.
  Proof. induction fs as [|fd fs IH]; intros [|x vals]; cbn [aclear_oneof length]; auto. Qed.

  (* the oneof slot is overwritten with member f: the other members of the oneof disappear *)
  Lemma abs_set_oneof_some o j f fd e : field_of sch (o_mid o) f = Some fd -> f_shape fd = Member j ->
    j < length (o_oneofs o) ->
    abs_obj sch (set_oneof o j (Some (f, e))) =
    mkAObj (o_mid o) (set_nth (aclear_oneof (afields_of sch (o_mid o)) j (a_fields (abs_obj sch o))) f (Some (aval_of_elem (abs_elem e))))
           (olist (o_unk o)).
  Proof.
    intros F S L. unfold abs_obj. cbn [set_oneof o_mid o_unk a_fields]. f_equal.
    apply list_ext.
    - rewrite set_nth_length, aclear_length, !mapi_from_length. reflexivity.
    - intros i Hi. rewrite mapi_from_length in Hi.
      rewrite nth_error_set_nth, aclear_length, aclear_nth, !mapi_from_nth, mapi_from_length by (rewrite mapi_from_length; reflexivity).
      cbn [Nat.add]. destruct (nth_error (afields_of sch (o_mid o)) i) as [fdi|] eqn:E; [|apply nth_error_None in E; lia].
      cbn [option_map]. destruct (Nat.eqb f i) eqn:Q.
      + apply Nat.eqb_eq in Q. subst i. apply Nat.ltb_lt in Hi. rewrite Hi.
        rewrite <- afield_of_eq in F. unfold afield_of in F. rewrite E in F. inversion F; subst fdi.
        unfold abs_field, set_oneof. rewrite S. cbn [o_oneofs]. rewrite nth_set_nth_eq by exact L. rewrite Nat.eqb_refl. reflexivity.
      + apply Nat.eqb_neq in Q. unfold abs_field, is_member, set_oneof. cbn [o_oneofs o_cells]. destruct (f_shape fdi) eqn:Si; try reflexivity.
        destruct (Nat.eqb oneof j) eqn:Ej.
        * apply Nat.eqb_eq in Ej. subst oneof. rewrite nth_set_nth_eq by exact L.
          assert (X : Nat.eqb f i = false) by (apply Nat.eqb_neq; exact Q). rewrite X. reflexivity.
        * apply Nat.eqb_neq in Ej. rewrite nth_set_nth_neq by congruence. reflexivity.
  Qed.

  (* the slot holding member f is emptied *)
  Lemma abs_set_oneof_none o j f e : obj_tidyb sch o = true -> nth j (o_oneofs o) None = Some (f, e) ->
    abs_obj sch (set_oneof o j None) = aset (abs_obj sch o) f None.
  Proof.
    intros T N. pose proof (nth_Some_lt _ _ _ N) as L. unfold abs_obj, aset. cbn [set_oneof o_mid o_unk a_mid a_fields a_unk]. f_equal.
    apply list_ext.
    - rewrite set_nth_length, !mapi_from_length. reflexivity.
    - intros i Hi. rewrite mapi_from_length in Hi. rewrite nth_error_set_nth, !mapi_from_nth, mapi_from_length. cbn [Nat.add].
      destruct (nth_error (afields_of sch (o_mid o)) i) as [fdi|] eqn:E; [|apply nth_error_None in E; lia].
      cbn [option_map]. unfold abs_field, set_oneof. cbn [o_oneofs o_cells].
      destruct (tidy_slot o j f e T N) as [fd' [F' [S' _]]].
      destruct (Nat.eqb f i) eqn:Q.
      + apply Nat.eqb_eq in Q. subst i. apply Nat.ltb_lt in Hi. rewrite Hi.
        rewrite <- afield_of_eq in F'. unfold afield_of in F'. rewrite E in F'. inversion F'; subst fdi.
        rewrite S'. rewrite nth_set_nth_eq by exact L. reflexivity.
      + apply Nat.eqb_neq in Q. destruct (f_shape fdi) eqn:Si; try reflexivity. f_equal.
        destruct (Nat.eq_dec oneof j) as [->|Nj].
        * rewrite nth_set_nth_eq by exact L. rewrite N.
          assert (X : Nat.eqb f i = false) by (apply Nat.eqb_neq; exact Q). rewrite X. reflexivity.
        * rewrite nth_set_nth_neq by congruence. reflexivity.
  Qed.

  Lemma abs_set_unk o u : abs_obj sch (set_unk o (Some u)) = mkAObj (o_mid o) (a_fields (abs_obj sch o)) u.
  Proof. reflexivity. Qed.

  Lemma abs_hset_obj h id o : abs sch (hset h id (HObj o)) = aput (abs sch h) id (abs_obj sch o).
  Proof. apply abs_hset. Qed.
  (* ---- views ------------------------------------------------------------------------------------------------------- *)
  Definition absl (l : option (list elem)) : list aelem := map abs_elem (olist l).
  Definition absm (m : option (list (val * elem))) : list (val * aelem) := map (fun kv => (fst kv, abs_elem (snd kv))) (olist m).

  Lemma norm_list_absl l : norm_list (absl l) = match l with Some (x :: t) => Some (AList (map abs_elem (x :: t))) | _ => None end.
  Proof. destruct l as [[|x t]|]; reflexivity. Qed.

  Lemma aread_list_abs h r : tidyb sch h = true -> aread_list sch (abs sch h) r = option_map absl (read_list h r).
  Proof.
    intro T. destruct r as [o f|v|]; cbn [aread_list read_list]; [| |reflexivity].
    - rewrite aget_abs. destruct (get_obj h o) as [ob|] eqn:G; [|reflexivity]. cbn [option_map abs_obj a_mid].
      pose proof (tidy_obj _ _ _ T G) as To. rewrite afield_of_eq.
      destruct (field_of sch (o_mid ob) f) as [fd|] eqn:F.
      + destruct (tidy_field ob f fd To F) as [c [C Ct]]. rewrite C. unfold cell_tidyb in Ct.
        change (mkAObj (o_mid ob) (mapi_from (abs_field ob) 0 (afields_of sch (o_mid ob))) (olist (o_unk ob))) with (abs_obj sch ob).
        rewrite afield_abs, F. unfold abs_field. rewrite C.
        destruct (f_shape fd); destruct c as [v|p|l|m|]; try discriminate; try reflexivity;
          try (destruct (f_ty fd); discriminate).
        destruct l as [[|x t]|]; reflexivity.
      + assert (N : nth_error (o_cells ob) f = None).
        { apply nth_error_None. rewrite (tidy_cells_len _ To). unfold field_of, fields_of in *.
          destruct (get_msg sch (o_mid ob)); [apply nth_error_None; exact F|cbn; lia]. }
        rewrite N. reflexivity.
    - unfold hget. rewrite abs_nth. destruct (nth_error h v) as [[| |]|]; reflexivity.
  Qed.

  Lemma aread_map_abs h r : tidyb sch h = true -> aread_map sch (abs sch h) r = option_map absm (read_map h r).
  Proof.
    intro T. destruct r as [o f|v|]; cbn [aread_map read_map]; [| |reflexivity].
    - rewrite aget_abs. destruct (get_obj h o) as [ob|] eqn:G; [|reflexivity]. cbn [option_map abs_obj a_mid].
      pose proof (tidy_obj _ _ _ T G) as To. rewrite afield_of_eq.
      destruct (field_of sch (o_mid ob) f) as [fd|] eqn:F.
      + destruct (tidy_field ob f fd To F) as [c [C Ct]]. rewrite C. unfold cell_tidyb in Ct.
        change (mkAObj (o_mid ob) (mapi_from (abs_field ob) 0 (afields_of sch (o_mid ob))) (olist (o_unk ob))) with (abs_obj sch ob).
        rewrite afield_abs, F. unfold abs_field. rewrite C.
        destruct (f_shape fd); destruct c as [v|p|l|m|]; try discriminate; try reflexivity;
          try (destruct (f_ty fd); discriminate).
        destruct m as [[|x t]|]; reflexivity.
      + assert (N : nth_error (o_cells ob) f = None).
        { apply nth_error_None. rewrite (tidy_cells_len _ To). unfold field_of, fields_of in *.
          destruct (get_msg sch (o_mid ob)); [apply nth_error_None; exact F|cbn; lia]. }
        rewrite N. reflexivity.
    - unfold hget. rewrite abs_nth. destruct (nth_error h v) as [[| |]|]; reflexivity.
  Qed.

  (* a successful read through a field view: the object, its list field, the cell *)
  Lemma read_list_inv h o f l : tidyb sch h = true -> read_list h (RField o f) = Some l ->
    exists ob fd p, get_obj h o = Some ob /\ field_of sch (o_mid ob) f = Some fd /\ f_shape fd = Rep p /\
                    nth_error (o_cells ob) f = Some (CList l) /\ obj_tidyb sch ob = true.
  Proof.
    intros T R. destruct (read_list_field _ _ _ _ R) as [ob [G C]]. pose proof (tidy_obj _ _ _ T G) as To.
    destruct (field_of sch (o_mid ob) f) as [fd|] eqn:F.
    - destruct (tidy_field ob f fd To F) as [c [C' Ct]]. rewrite C in C'. inversion C'; subst c.
      unfold cell_tidyb in Ct. destruct (f_shape fd) eqn:S; try discriminate. exists ob, fd, packed. auto.
    - exfalso. apply nth_error_Some_lt in C. rewrite (tidy_cells_len _ To) in C. unfold field_of, fields_of in *.
      destruct (get_msg sch (o_mid ob)); [apply nth_error_None in F; lia|cbn in C; lia].
  Qed.
  Lemma read_map_inv h o f m : tidyb sch h = true -> read_map h (RField o f) = Some m ->
    exists ob fd kk, get_obj h o = Some ob /\ field_of sch (o_mid ob) f = Some fd /\ f_shape fd = MapOf kk /\
                     nth_error (o_cells ob) f = Some (CMap m) /\ obj_tidyb sch ob = true.
  Proof.
    intros T R. destruct (read_map_field _ _ _ _ R) as [ob [G C]]. pose proof (tidy_obj _ _ _ T G) as To.
    destruct (field_of sch (o_mid ob) f) as [fd|] eqn:F.
    - destruct (tidy_field ob f fd To F) as [c [C' Ct]]. rewrite C in C'. inversion C'; subst c.
      unfold cell_tidyb in Ct. destruct (f_shape fd) eqn:S; try discriminate. exists ob, fd, key. auto.
    - exfalso. apply nth_error_Some_lt in C. rewrite (tidy_cells_len _ To) in C. unfold field_of, fields_of in *.
      destruct (get_msg sch (o_mid ob)); [apply nth_error_None in F; lia|cbn in C; lia].
  Qed.

  Lemma abs_field_list o f fd p l : f_shape fd = Rep p -> f < length (o_cells o) ->
    abs_field (set_cell o f (CList l)) f fd = norm_list (absl l).
  Proof.
    intros S L. unfold abs_field, set_cell. rewrite S. cbn [o_cells]. rewrite nth_error_set_nth_eq by exact L.
    destruct l as [[|x t]|]; reflexivity.
  Qed.
  Lemma abs_field_map o f fd kk m : f_shape fd = MapOf kk -> f < length (o_cells o) ->
    abs_field (set_cell o f (CMap m)) f fd = norm_map (absm m).
  Proof.
    intros S L. unfold abs_field, set_cell. rewrite S. cbn [o_cells]. rewrite nth_error_set_nth_eq by exact L.
    destruct m as [[|x t]|]; reflexivity.
  Qed.

  Lemma awrite_list_abs h r l0 l : tidyb sch h = true -> read_list h r = Some l0 ->
    abs sch (write_list h r l) = awrite_list (abs sch h) r (absl l).
  Proof.
    intros T R. destruct r as [o f|v|]; cbn [write_list awrite_list]; [| |reflexivity].
    - destruct (read_list_inv _ _ _ _ T R) as [ob [fd [p [G [F [S [C To]]]]]]]. rewrite aget_abs, G. cbn [option_map].
      rewrite abs_hset_obj, (abs_set_cell _ _ _ _ F), (abs_field_list _ _ _ _ _ S (nth_error_Some_lt _ _ _ C)). reflexivity.
    - rewrite abs_hset. reflexivity.
  Qed.
  Lemma awrite_map_abs h r m0 m : tidyb sch h = true -> read_map h r = Some m0 ->
    abs sch (write_map h r m) = awrite_map (abs sch h) r (absm m).
  Proof.
    intros T R. destruct r as [o f|v|]; cbn [write_map awrite_map]; [| |reflexivity].
    - destruct (read_map_inv _ _ _ _ T R) as [ob [fd [kk [G [F [S [C To]]]]]]]. rewrite aget_abs, G. cbn [option_map].
      rewrite abs_hset_obj, (abs_set_cell _ _ _ _ F), (abs_field_map _ _ _ _ _ S (nth_error_Some_lt _ _ _ C)). reflexivity.
    - rewrite abs_hset. reflexivity.
  Qed.

  (* ---- values going in ------------------------------------------------------------------------------------------- *)
  Lemma elem_in_abs t v : is_nil_msg v = false ->
    aelem_in t v = option_map abs_elem (pval_to_elem t v).
  Proof.
    intro N. unfold aelem_in, pval_to_elem. destruct t as [k|m]; destruct v; try reflexivity.
    - destruct (wt_scalar k v); reflexivity.
    - destruct p as [q|]; [|discriminate]. destruct (Nat.eqb m mid); reflexivity.
  Qed.
  Lemma elem_in_fits t v e : is_nil_msg v = false -> pval_to_elem t v = Some e -> elem_fitsb t e = true.
  Proof.
    intro N. unfold pval_to_elem. destruct t as [k|m]; destruct v; try discriminate.
    - destruct (wt_scalar k v); [|discriminate]. intro H; inversion H; reflexivity.
    - destruct p as [q|]; [|discriminate]. destruct (Nat.eqb m mid); [|discriminate]. intro H; inversion H; reflexivity.
  Qed.
  (* ---- one step ------------------------------------------------------------------------------------------------------ *)
  Definition refines (h : heap) (o : op) : Prop :=
    ref_step sch (abs sch h) o = (abs sch (fst (step sch h o)), abs_out (snd (step sch h o))).

  Lemma recv_tidy h mid id ob : tidyb sch h = true -> recv_obj sch h mid (Some id) = Some ob ->
    get_obj h id = Some ob /\ o_mid ob = mid /\ obj_tidyb sch ob = true.
  Proof. intros T R. destruct (recv_obj_inv _ _ _ _ _ R) as [G M]. repeat split; auto. eapply tidy_obj; eauto. Qed.

  Lemma new_alloc h m : abs sch (h ++ [HObj (new_obj sch m)]) = abs sch h ++ [AObj (aempty sch m)].
  Proof. rewrite abs_app. cbn [abs_ent]. rewrite abs_new. reflexivity. Qed.

  Lemma ref_has h mid p f : tidyb sch h = true -> refines h (OHas (PMsg mid p) f).
  Proof.
    intro T. unfold refines. cbn [step ref_step]. rewrite afield_of_eq. destruct (field_of sch mid f) as [fd|] eqn:F.
    - destruct p as [id|].
      + rewrite arecv_abs. destruct (recv_obj sch h mid (Some id)) as [ob|] eqn:R; [|reflexivity]. cbn [option_map fst snd abs_out].
        destruct (recv_tidy _ _ _ _ T R) as [G [M To]]. subst mid. rewrite afield_abs, F, (has_abs _ _ _ To F). reflexivity.
      + cbn [arecv recv_obj fst snd abs_out]. rewrite (has_nil _ _ _ F). reflexivity.
    - destruct (arecv sch (abs sch h) mid p); reflexivity.
  Qed.

  Lemma ref_get_op h mid p f : tidyb sch h = true -> refines h (OGet (PMsg mid p) f).
  Proof.
    intro T. unfold refines. cbn [step ref_step]. rewrite afield_of_eq. destruct (field_of sch mid f) as [fd|] eqn:F.
    - destruct p as [id|].
      + rewrite arecv_abs. destruct (recv_obj sch h mid (Some id)) as [ob|] eqn:R; [|reflexivity]. cbn [option_map fst snd].
        destruct (recv_tidy _ _ _ _ T R) as [G [M To]]. subst mid. rewrite (get_abs _ _ _ _ To F). reflexivity.
      + cbn [arecv recv_obj fst snd]. rewrite (get_nil _ _ _ F). reflexivity.
    - destruct (arecv sch (abs sch h) mid p); reflexivity.
  Qed.

  Lemma ref_which h mid p j : tidyb sch h = true -> refines h (OWhichOneof (PMsg mid p) j).
  Proof.
    intro T. unfold refines. cbn [step ref_step]. destruct (get_msg sch mid) as [md|] eqn:M.
    - destruct p as [id|].
      + rewrite arecv_abs. destruct (recv_obj sch h mid (Some id)) as [ob|] eqn:R; [|reflexivity]. cbn [option_map].
        destruct (recv_tidy _ _ _ _ T R) as [G [Mi To]]. subst mid. destruct (j <? m_oneofs md); [|reflexivity].
        cbn [fst snd abs_out]. rewrite (which_abs _ _ _ To M). reflexivity.
      + cbn [arecv recv_obj]. destruct (j <? m_oneofs md); [|reflexivity]. cbn [fst snd abs_out].
        rewrite <- abs_new. pose proof (new_obj_ok sch mid) as _.
        assert (To : obj_tidyb sch (new_obj sch mid) = true).
        { unfold obj_tidyb. rewrite new_obj_mid, M. unfold new_obj. rewrite M. cbn [o_cells o_oneofs].
          rewrite repeat_length, Nat.eqb_refl.
          assert (C : forall fs, cells_tidyb fs (map new_cell fs) = true).
          { induction fs as [|fd fs IH]; [reflexivity|]. cbn [map cells_tidyb]. rewrite IH, Bool.andb_true_r.
            unfold cell_tidyb, new_cell. destruct (f_shape fd); destruct (f_ty fd) as [k|m']; try reflexivity. destruct k; reflexivity. }
          rewrite C. cbn [andb].
          assert (S : forall n j0, slots_tidyb (m_fields md) j0 (repeat None n) = true).
          { induction n; intros; cbn [repeat slots_tidyb]; [reflexivity|]. rewrite IHn. reflexivity. }
          apply S. }
        assert (Mn : get_msg sch (o_mid (new_obj sch mid)) = Some md) by (rewrite new_obj_mid; exact M).
        rewrite (which_abs _ _ _ To Mn), oneofs_new. reflexivity.
    - destruct (arecv sch (abs sch h) mid p); reflexivity.
  Qed.

  Lemma ref_range h mid p : tidyb sch h = true -> refines h (ORange (PMsg mid p)).
  Proof.
    intro T. unfold refines. cbn [step ref_step]. destruct p as [id|].
    - rewrite arecv_abs. destruct (recv_obj sch h mid (Some id)) as [ob|] eqn:R; [|reflexivity]. cbn [option_map fst snd abs_out].
      destruct (recv_tidy _ _ _ _ T R) as [G [M To]]. subst mid. rewrite afields_eq. rewrite (range_abs _ id To); [reflexivity|].
      intros k fd N. cbn [Nat.add]. unfold field_of, fields_of in *. destruct (get_msg sch (o_mid ob)); [exact N|destruct k; discriminate].
    - cbn [arecv recv_obj fst snd abs_out]. rewrite range_nil, range_from_new. reflexivity.
  Qed.

  Lemma ref_getunk h mid p : refines h (OGetUnknown (PMsg mid p)).
  Proof.
    unfold refines. cbn [step ref_step]. destruct p as [id|].
    - rewrite arecv_abs. destruct (recv_obj sch h mid (Some id)) as [ob|]; reflexivity.
    - cbn [arecv recv_obj fst snd abs_out]. rewrite unk_new. reflexivity.
  Qed.

  Lemma ref_newfield h mid p f : refines h (ONewField (PMsg mid p) f).
  Proof.
    unfold refines. cbn [step ref_step]. rewrite afield_of_eq. destruct (field_of sch mid f) as [fd|]; [|reflexivity].
    unfold halloc. rewrite abs_length.
    destruct (f_shape fd); destruct (f_ty fd) as [k|m]; cbn [fst snd abs_out]; rewrite ?new_alloc, ?abs_app, ?nscalar_zero; reflexivity.
  Qed.
  Lemma new_obj_tidy mid : obj_tidyb sch (new_obj sch mid) = true.
  Proof.
    unfold obj_tidyb. rewrite new_obj_mid. unfold new_obj. destruct (get_msg sch mid) as [md|]; [|reflexivity].
    cbn [o_cells o_oneofs]. rewrite repeat_length, Nat.eqb_refl.
    assert (C : forall fs, cells_tidyb fs (map new_cell fs) = true).
    { induction fs as [|fd fs IH]; [reflexivity|]. cbn [map cells_tidyb]. rewrite IH, Bool.andb_true_r.
      unfold cell_tidyb, new_cell. destruct (f_shape fd); destruct (f_ty fd) as [k|m']; try reflexivity. destruct k; reflexivity. }
    rewrite C. cbn [andb].
    assert (S : forall n j0, slots_tidyb (m_fields md) j0 (repeat None n) = true).
    { induction n; intros; cbn [repeat slots_tidyb]; [reflexivity|]. rewrite IHn. reflexivity. }
    apply S.
  Qed.

  Lemma ref_setunk h mid p u : refines h (OSetUnknown (PMsg mid p) u).
  Proof.
    unfold refines. destruct p as [id|]; [|reflexivity]. cbn [step ref_step]. rewrite arecv_abs.
    destruct (recv_obj sch h mid (Some id)) as [ob|]; [|reflexivity]. cbn [option_map fst snd abs_out].
    rewrite abs_hset_obj. reflexivity.
  Qed.

  Lemma ref_clear h mid p f : tidyb sch h = true -> refines h (OClear (PMsg mid p) f).
  Proof.
    intro T. unfold refines. destruct p as [id|]; [|reflexivity]. cbn [step ref_step]. rewrite afield_of_eq.
    destruct (field_of sch mid f) as [fd|] eqn:F.
    2:{ destruct (arecv sch (abs sch h) mid (Some id)); reflexivity. }
    rewrite arecv_abs. destruct (recv_obj sch h mid (Some id)) as [ob|] eqn:R; [|reflexivity]. cbn [option_map fst snd abs_out].
    destruct (recv_tidy _ _ _ _ T R) as [G [M To]]. subst mid. rewrite abs_hset_obj. f_equal. f_equal.
    destruct (tidy_field ob f fd To F) as [c [C Ct]]. pose proof (nth_error_Some_lt _ _ _ C) as L.
    destruct (f_shape fd) eqn:S.
    - destruct (f_ty fd) as [k|m] eqn:Ty.
      + rewrite (abs_set_cell _ _ _ _ F). f_equal. unfold abs_field, set_cell. rewrite S, Ty. cbn [o_cells].
        rewrite nth_error_set_nth_eq by exact L. destruct k; reflexivity.
      + rewrite (abs_set_cell _ _ _ _ F). f_equal. unfold abs_field, set_cell. rewrite S. cbn [o_cells].
        rewrite nth_error_set_nth_eq by exact L. reflexivity.
    - assert (X : forall t : ftype, match t with TScalar _ | TMsg _ => set_cell ob f (CList None) end = set_cell ob f (CList None)) by (intros []; reflexivity).
      rewrite ?X. rewrite (abs_set_cell _ _ _ _ F), (abs_field_list _ _ _ _ _ S L). reflexivity.
    - assert (E : forall (t : ftype) (x : obj), match t with TScalar _ | TMsg _ => x end = x) by (intros []; reflexivity).
      rewrite ?E. destruct (nth oneof (o_oneofs ob) None) as [[f' e]|] eqn:N.
      + destruct (Nat.eqb f' f) eqn:Q.
        * apply Nat.eqb_eq in Q. subst f'. symmetry. apply (abs_set_oneof_none _ _ _ _ To N).
        * (* another member is set: nothing changes, and this member is absent already *)
          unfold aset. destruct (abs_obj sch ob) as [am af au] eqn:A. cbn [a_mid a_fields a_unk]. f_equal.
          apply set_nth_same.
          assert (AF : afield (abs_obj sch ob) f = None).
          { rewrite afield_abs, F. unfold abs_field. rewrite S, N, Q. reflexivity. }
          unfold afield in AF. rewrite A in AF. cbn [a_fields] in AF.
          destruct (nth_error af f) as [x|] eqn:X; [subst x; reflexivity|].
          exfalso. apply nth_error_None in X. pose proof (abs_obj_fields_len ob) as Le. rewrite A in Le. cbn [a_fields] in Le.
          unfold field_of, fields_of in *. destruct (get_msg sch (o_mid ob)); [|discriminate]. apply nth_error_Some_lt in F. lia.
      + unfold aset. destruct (abs_obj sch ob) as [am af au] eqn:A. cbn [a_mid a_fields a_unk]. f_equal.
        apply set_nth_same.
        assert (AF : afield (abs_obj sch ob) f = None).
        { rewrite afield_abs, F. unfold abs_field. rewrite S, N. reflexivity. }
        unfold afield in AF. rewrite A in AF. cbn [a_fields] in AF.
        destruct (nth_error af f) as [x|] eqn:X; [subst x; reflexivity|].
        exfalso. apply nth_error_None in X. pose proof (abs_obj_fields_len ob) as Le. rewrite A in Le. cbn [a_fields] in Le.
        unfold field_of, fields_of in *. destruct (get_msg sch (o_mid ob)); [|discriminate]. apply nth_error_Some_lt in F. lia.
    - assert (X : forall t : ftype, match t with TScalar _ | TMsg _ => set_cell ob f (CMap None) end = set_cell ob f (CMap None)) by (intros []; reflexivity).
      rewrite ?X. rewrite (abs_set_cell _ _ _ _ F), (abs_field_map _ _ _ _ _ S L). reflexivity.
  Qed.
  Hypothesis Hwf : wf sch = true.

  Lemma member_slot_lt ob f fd j : obj_tidyb sch ob = true -> field_of sch (o_mid ob) f = Some fd -> f_shape fd = Member j ->
    j < length (o_oneofs ob).
  Proof.
    intros To F S. unfold field_of in F. destruct (get_msg sch (o_mid ob)) as [md|] eqn:M; [|discriminate].
    rewrite (tidy_oneofs_len _ _ To M).
    unfold wf in Hwf. rewrite forallb_forall in Hwf. unfold get_msg in M. specialize (Hwf md (nth_error_In _ _ M)).
    unfold msg_wf in Hwf. apply andb_prop in Hwf. destruct Hwf as [W _]. rewrite forallb_forall in W.
    specialize (W fd (nth_error_In _ _ F)). unfold field_wf in W. rewrite S in W.
    apply andb_prop in W. destruct W as [_ W]. apply Nat.ltb_lt. exact W.
  Qed.

  Lemma ref_set h mid p f v : tidyb sch h = true -> well_scopedb sch h (OSet (PMsg mid p) f v) = true ->
    refines h (OSet (PMsg mid p) f v).
  Proof.
    intros T W. unfold refines. destruct p as [id|]; [|reflexivity]. cbn [step ref_step well_scopedb] in *.
    rewrite afield_of_eq in *. destruct (field_of sch mid f) as [fd|] eqn:F.
    2:{ destruct (arecv sch (abs sch h) mid (Some id)); reflexivity. }
    rewrite arecv_abs. destruct (recv_obj sch h mid (Some id)) as [ob|] eqn:R; [|reflexivity]. cbn [option_map].
    destruct (recv_tidy _ _ _ _ T R) as [G [M To]]. subst mid.
    destruct (tidy_field ob f fd To F) as [c [C Ct]]. pose proof (nth_error_Some_lt _ _ _ C) as L.
    destruct (f_shape fd) eqn:S.
    - (* singular *)
      destruct (f_ty fd) as [k|m] eqn:Ty; destruct v; cbn [pval_to_elem aelem_in]; try reflexivity.
      + destruct (wt_scalar k v) eqn:Wt; [|reflexivity]. cbn [fst snd abs_out]. rewrite abs_hset_obj, (abs_set_cell _ _ _ _ F).
        unfold abs_field at 1, set_cell. rewrite S, Ty. cbn [o_cells]. rewrite nth_error_set_nth_eq by exact L. reflexivity.
      + destruct (Nat.eqb m mid) eqn:Em; [|destruct p; reflexivity]. destruct p as [q|]; [|reflexivity].
        cbn [fst snd abs_out]. rewrite abs_hset_obj, (abs_set_cell _ _ _ _ F).
        unfold abs_field at 1, set_cell. rewrite S. cbn [o_cells]. rewrite nth_error_set_nth_eq by exact L. reflexivity.
    - (* repeated *)
      destruct v; try reflexivity. apply andb_prop in W. destruct W as [_ W].
      rewrite (aread_list_abs _ _ T). destruct (read_list h r) as [l|] eqn:Rd; [|reflexivity]. cbn [option_map fst snd abs_out].
      rewrite abs_hset_obj, (abs_set_cell _ _ _ _ F), (abs_field_list _ _ _ _ _ S L). reflexivity.
    - (* member of a oneof *)
      apply Bool.negb_true_iff in W. rewrite (elem_in_abs _ _ W).
      destruct (pval_to_elem (f_ty fd) v) as [e|]; [|reflexivity]. cbn [option_map fst snd abs_out].
      rewrite abs_hset_obj, (abs_set_oneof_some _ _ _ _ _ F S (member_slot_lt _ _ _ _ To F S)). reflexivity.
    - (* map *)
      destruct v; try reflexivity. apply andb_prop in W. destruct W as [_ W].
      rewrite (aread_map_abs _ _ T). destruct (read_map h r) as [m|] eqn:Rd; [|reflexivity]. cbn [option_map fst snd abs_out].
      rewrite abs_hset_obj, (abs_set_cell _ _ _ _ F), (abs_field_map _ _ _ _ _ S L). reflexivity.
  Qed.
  Lemma aset_same o f x : afield o f = x -> f < length (a_fields o) -> aset o f x = o.
  Proof.
    unfold afield, aset. destruct o as [am af au]. cbn [a_mid a_fields a_unk]. intros A L. f_equal.
    apply set_nth_same. destruct (nth_error af f) as [y|] eqn:E; [congruence|]. apply nth_error_None in E. lia.
  Qed.
  Lemma aput_same h id ob : get_obj h id = Some ob -> aput (abs sch h) id (abs_obj sch ob) = abs sch h.
  Proof.
    intro G. unfold aput. apply set_nth_same. rewrite abs_nth. unfold get_obj, hget in G.
    destruct (nth_error h id) as [[| |]|]; try discriminate. inversion G; subst. reflexivity.
  Qed.
  Lemma field_lt_abs ob f fd : field_of sch (o_mid ob) f = Some fd -> f < length (a_fields (abs_obj sch ob)).
  Proof.
    intro F. rewrite abs_obj_fields_len. unfold field_of, fields_of in *. destruct (get_msg sch (o_mid ob)); [|discriminate].
    eapply nth_error_Some_lt; eauto.
  Qed.

  Lemma ref_mutable h mid p f : tidyb sch h = true -> refines h (OMutable (PMsg mid p) f).
  Proof.
    intros T. unfold refines. destruct p as [id|]; [|reflexivity]. cbn [step ref_step].
    rewrite afield_of_eq. destruct (field_of sch mid f) as [fd|] eqn:F.
    2:{ destruct (arecv sch (abs sch h) mid (Some id)); reflexivity. }
    rewrite arecv_abs. destruct (recv_obj sch h mid (Some id)) as [ob|] eqn:R; [|reflexivity]. cbn [option_map].
    destruct (recv_tidy _ _ _ _ T R) as [G [M To]]. subst mid.
    destruct (tidy_field ob f fd To F) as [c [C Ct]]. pose proof (nth_error_Some_lt _ _ _ C) as L.
    unfold halloc. rewrite abs_length. unfold cell_tidyb in Ct.
    destruct (f_shape fd) eqn:S.
    - (* singular *)
      destruct (f_ty fd) as [k|m] eqn:Ty; [reflexivity|]. rewrite afield_abs, F. unfold abs_field at 1. rewrite S, C.
      destruct c as [v|q|l|mm|]; try discriminate. destruct q as [q|]; [reflexivity|].
      cbn [fst snd abs_out]. rewrite abs_hset_obj, new_alloc, (abs_set_cell _ _ _ _ F).
      unfold abs_field at 1, set_cell. rewrite S. cbn [o_cells]. rewrite nth_error_set_nth_eq by exact L. reflexivity.
    - (* repeated *)
      destruct c as [v|q|l|mm|]; try discriminate.
      assert (E : forall t : ftype, (match t with TScalar _ | TMsg _ => (abs sch h, AOList (f_ty fd) (RField id f)) end) = (abs sch h, AOList (f_ty fd) (RField id f))) by (intros []; reflexivity).
      destruct l as [l|].
      + destruct (f_ty fd); rewrite C; reflexivity.
      + assert (X : abs sch (hset h id (HObj (set_cell ob f (CList (Some []))))) = abs sch h).
        { rewrite abs_hset_obj, (abs_set_cell _ _ _ _ F), (abs_field_list _ _ _ _ _ S L). cbn [absl olist map norm_list].
          rewrite aset_same; [apply aput_same; exact G| |eapply field_lt_abs; eauto].
          rewrite afield_abs, F. unfold abs_field. rewrite S, C. reflexivity. }
        destruct (f_ty fd); rewrite C; cbn [fst snd abs_out]; rewrite X; reflexivity.
    - (* member of a oneof *)
      destruct (f_ty fd) as [k|m] eqn:Ty; [reflexivity|]. rewrite afield_abs, F. unfold abs_field at 1. rewrite S.
      pose proof (member_slot_lt _ _ _ _ To F S) as Lj.
      assert (Alloc : abs sch (hset (h ++ [HObj (new_obj sch m)]) id (HObj (set_oneof ob oneof (Some (f, EPtr (Some (length h))))))) =
                      aput (abs sch h ++ [AObj (aempty sch m)]) id
                           (mkAObj (a_mid (abs_obj sch ob)) (set_nth (aclear_oneof (afields_of sch (o_mid ob)) oneof (a_fields (abs_obj sch ob))) f (Some (AMsg (length h)))) (a_unk (abs_obj sch ob)))).
      { rewrite abs_hset_obj, new_alloc, (abs_set_oneof_some _ _ _ _ _ F S Lj). reflexivity. }
      destruct (nth oneof (o_oneofs ob) None) as [[f' e]|] eqn:N.
      + destruct (tidy_slot ob oneof f' e To N) as [fd' [F' [S' Fit]]].
        destruct (Nat.eqb f' f) eqn:Q.
        * apply Nat.eqb_eq in Q. subst f'. rewrite F in F'. inversion F'; subst fd'. rewrite Ty in Fit.
          destruct e as [v|[q|]]; try discriminate. reflexivity.
        * destruct e as [v|q]; cbn [fst snd abs_out]; rewrite Alloc; reflexivity.
      + cbn [fst snd abs_out]. rewrite Alloc. reflexivity.
    - (* map *)
      destruct c as [v|q|l|mm|]; try discriminate.
      destruct mm as [mm|].
      + destruct (f_ty fd); rewrite C; reflexivity.
      + assert (X : abs sch (hset h id (HObj (set_cell ob f (CMap (Some []))))) = abs sch h).
        { rewrite abs_hset_obj, (abs_set_cell _ _ _ _ F), (abs_field_map _ _ _ _ _ S L). cbn [absm olist map norm_map].
          rewrite aset_same; [apply aput_same; exact G| |eapply field_lt_abs; eauto].
          rewrite afield_abs, F. unfold abs_field. rewrite S, C. reflexivity. }
        destruct (f_ty fd); rewrite C; cbn [fst snd abs_out]; rewrite X; reflexivity.
  Qed.
  (* ---- List ------------------------------------------------------------------------------------------------------- *)
  Lemma absl_len l : length (absl l) = olen l.
  Proof. unfold absl. rewrite map_length. destruct l; reflexivity. Qed.

  Lemma tidy_app_new h m : tidyb sch h = true -> tidyb sch (h ++ [HObj (new_obj sch m)]) = true.
  Proof. unfold tidyb. intro T. rewrite forallb_app, T. cbn. rewrite new_obj_tidy. reflexivity. Qed.

  Lemma ref_llen h t r : tidyb sch h = true -> refines h (OLLen (PList t r)).
  Proof.
    intro T. unfold refines. cbn [step ref_step fst snd abs_out nscalar]. rewrite (aread_list_abs _ _ T).
    destruct (read_list h r) as [l|]; cbn [option_map]; [rewrite absl_len|]; reflexivity.
  Qed.

  Lemma lview_fits h t r l : lview_okb sch h t r = true -> read_list h r = Some l -> forallb (elem_fitsb t) (olist l) = true.
  Proof. unfold lview_okb. intros W R. rewrite R in W. apply andb_prop in W. tauto. Qed.

  Lemma ref_lget h t r i : tidyb sch h = true -> lview_okb sch h t r = true -> refines h (OLGet (PList t r) i).
  Proof.
    intros T W. unfold refines. cbn [step ref_step]. rewrite (aread_list_abs _ _ T).
    destruct (read_list h r) as [l|] eqn:R; cbn [option_map]; [|reflexivity]. rewrite absl_len.
    destruct (in_bounds i (olen l)) eqn:B; [|reflexivity]. cbn [fst snd]. f_equal.
    unfold absl. change (AEMsg 0) with (abs_elem (EPtr None)). rewrite map_nth. symmetry. apply elem_out_abs.
    pose proof (lview_fits _ _ _ _ W R) as Fit. rewrite forallb_forall in Fit. apply Fit. apply nth_In.
    apply in_bounds_spec in B. replace (length (olist l)) with (olen l) by (destruct l; reflexivity). lia.
  Qed.

  Lemma ref_lset h t r i v : tidyb sch h = true -> is_nil_msg v = false -> refines h (OLSet (PList t r) i v).
  Proof.
    intros T N. unfold refines. cbn [step ref_step]. rewrite (aread_list_abs _ _ T), (elem_in_abs _ _ N).
    destruct (read_list h r) as [l|] eqn:R; cbn [option_map]; [|reflexivity].
    destruct (pval_to_elem t v) as [e|]; cbn [option_map]; [|reflexivity]. rewrite absl_len.
    destruct (in_bounds i (olen l)); [|reflexivity]. cbn [fst snd abs_out].
    rewrite (awrite_list_abs _ _ _ _ T R). unfold absl. cbn [olist]. rewrite set_nth_map'. reflexivity.
  Qed.

  Lemma ref_lappend h t r v : tidyb sch h = true -> is_nil_msg v = false -> refines h (OLAppend (PList t r) v).
  Proof.
    intros T N. unfold refines. cbn [step ref_step]. rewrite (aread_list_abs _ _ T), (elem_in_abs _ _ N).
    destruct (read_list h r) as [l|] eqn:R; cbn [option_map]; [|reflexivity].
    destruct (pval_to_elem t v) as [e|]; cbn [option_map]; [|reflexivity]. cbn [fst snd abs_out].
    rewrite (awrite_list_abs _ _ _ _ T R). unfold absl. cbn [olist]. rewrite map_app. reflexivity.
  Qed.

  Lemma ref_lappendmut h t r : tidyb sch h = true -> refines h (OLAppendMutable (PList t r)).
  Proof.
    intros T. unfold refines. cbn [step ref_step]. rewrite (aread_list_abs _ _ T). destruct t as [k|m]; [reflexivity|].
    destruct (read_list h r) as [l|] eqn:R; cbn [option_map]; [|reflexivity]. unfold halloc. cbn [fst snd abs_out].
    rewrite abs_length. rewrite (awrite_list_abs _ _ l _ (tidy_app_new _ m T) (read_list_app _ _ _ _ R)), new_alloc.
    unfold absl. cbn [olist]. rewrite map_app. reflexivity.
  Qed.

  Lemma ref_ltrunc h t r n : tidyb sch h = true -> refines h (OLTruncate (PList t r) n).
  Proof.
    intros T. unfold refines. cbn [step ref_step]. rewrite (aread_list_abs _ _ T).
    destruct (read_list h r) as [l|] eqn:R; cbn [option_map]; [|reflexivity]. rewrite absl_len.
    destruct ((0 <=? n)%Z && (n <=? Z.of_nat (olen l))%Z); [|reflexivity]. cbn [fst snd abs_out].
    rewrite (awrite_list_abs _ _ _ _ T R). f_equal. f_equal. unfold absl. destruct l as [x|]; cbn [olist].
    - apply firstn_map.
    - cbn [map]. rewrite firstn_nil. reflexivity.
  Qed.

  Lemma ref_lnew h t r : refines h (OLNewElement (PList t r)).
  Proof.
    unfold refines. cbn [step ref_step]. destruct t as [k|m]; cbn [fst snd abs_out].
    - rewrite nscalar_zero. reflexivity.
    - unfold halloc. cbn [fst snd abs_out]. rewrite new_alloc, abs_length. reflexivity.
  Qed.
  (* ---- Map -------------------------------------------------------------------------------------------------------- *)
  Definition absmm (m : list (val * elem)) : list (val * aelem) := map (fun kv => (fst kv, abs_elem (snd kv))) m.
  Lemma absm_some m : absm (Some m) = absmm m.
  Proof. reflexivity. Qed.
  Lemma absm_len m : length (absm m) = olen m.
  Proof. unfold absm. rewrite map_length. destruct m; reflexivity. Qed.

  Lemma amassoc_abs m k : amassoc (absmm m) k = option_map abs_elem (massoc m k).
  Proof.
    induction m as [|[k' e] m IH]; cbn [absmm map amassoc massoc fst snd]; [reflexivity|].
    destruct (val_key_eqb k' k); [reflexivity|exact IH].
  Qed.
  Lemma amput_abs m k e : amput (absmm m) k (abs_elem e) = absmm (mput m k e).
  Proof.
    induction m as [|[k' e'] m IH]; cbn [absmm map amput mput fst snd]; [reflexivity|].
    destruct (val_key_eqb k' k); cbn [map fst snd]; [reflexivity|]. f_equal. exact IH.
  Qed.
  Lemma amdel_abs m k : amdel (absmm m) k = absmm (mdel m k).
  Proof.
    induction m as [|[k' e'] m IH]; cbn [absmm map amdel mdel fst snd]; [reflexivity|].
    destruct (val_key_eqb k' k); cbn [map fst snd]; [reflexivity|]. f_equal. exact IH.
  Qed.
  Lemma massoc_in m k e : massoc m k = Some e -> exists k', In (k', e) m.
  Proof.
    induction m as [|[k' e'] m IH]; cbn [massoc]; [discriminate|]. destruct (val_key_eqb k' k).
    - intro H; inversion H; subst. exists k'. left; reflexivity.
    - intro H. destruct (IH H) as [k2 I]. exists k2. right; exact I.
  Qed.

  Lemma mview_fits h t r m : mview_okb sch h t r = true -> read_map h r = Some m ->
    forallb (fun kv => elem_fitsb t (snd kv)) (olist m) = true.
  Proof. unfold mview_okb. intros W R. rewrite R in W. apply andb_prop in W. tauto. Qed.

  Lemma write_map_same h r m : read_map h r = Some m -> write_map h r m = h.
  Proof.
    destruct r as [o f|v|]; cbn [read_map write_map]; [| |reflexivity].
    - destruct (get_obj h o) as [ob|] eqn:G; [|discriminate].
      destruct (nth_error (o_cells ob) f) as [[| | |m'|]|] eqn:C; try discriminate. intro H; inversion H; subst.
      unfold set_cell. rewrite (set_nth_same _ _ _ C). destruct ob; cbn. apply hset_same. exact G.
    - unfold hget, hset. destruct (nth_error h v) as [[| |m']|] eqn:E; try discriminate. intro H; inversion H; subst.
      apply set_nth_same. exact E.
  Qed.

  Lemma ref_mlen h kk t r : tidyb sch h = true -> refines h (OMLen (PMap kk t r)).
  Proof.
    intro T. unfold refines. cbn [step ref_step fst snd abs_out nscalar]. rewrite (aread_map_abs _ _ T).
    destruct (read_map h r) as [m|]; cbn [option_map]; [rewrite absm_len|]; reflexivity.
  Qed.

  Lemma ref_mhas h kk t r k : tidyb sch h = true -> wt_scalar kk k = true -> refines h (OMHas (PMap kk t r) k).
  Proof.
    intros T Wk. unfold refines. cbn [step ref_step]. rewrite Wk, (aread_map_abs _ _ T).
    destruct r as [o f|v|]; [| |reflexivity]; cbn [fst snd abs_out];
      (destruct (read_map h _) as [m|]; cbn [option_map]; [|reflexivity]);
      unfold absm; fold (absmm (olist m)); rewrite amassoc_abs; destruct (massoc (olist m) k); reflexivity.
  Qed.

  Lemma ref_mget h kk t r k : tidyb sch h = true -> wt_scalar kk k = true -> mview_okb sch h t r = true ->
    refines h (OMGet (PMap kk t r) k).
  Proof.
    intros T Wk W. unfold refines. cbn [step ref_step]. rewrite Wk, (aread_map_abs _ _ T).
    assert (Main : (abs sch h,
                    match option_map absm (read_map h r) with
                    | Some m => match amassoc m k with Some e => aelem_out t e | None => AOInvalid end
                    | None => AOInvalid
                    end) =
                   (abs sch h, abs_out (match read_map h r with
                                         | Some m => match massoc (olist m) k with Some e => elem_to_pval t e | None => PInvalid end
                                         | None => PInvalid
                                         end))).
    { f_equal. destruct (read_map h r) as [m|] eqn:R; cbn [option_map]; [|reflexivity].
      unfold absm; fold (absmm (olist m)). rewrite amassoc_abs. destruct (massoc (olist m) k) as [e|] eqn:A; [|reflexivity].
      cbn [option_map]. symmetry. apply elem_out_abs. pose proof (mview_fits _ _ _ _ W R) as Fit.
      rewrite forallb_forall in Fit. destruct (massoc_in _ _ _ A) as [k' I]. apply (Fit _ I). }
    destruct r as [o f|v|]; [exact Main|exact Main|reflexivity].
  Qed.

  Lemma ref_mset h kk t r k v : tidyb sch h = true -> wt_scalar kk k = true -> is_nil_msg v = false -> map_liveb h r = true ->
    refines h (OMSet (PMap kk t r) k v).
  Proof.
    intros T Wk N Lv. unfold refines. cbn [step ref_step]. rewrite Wk, (aread_map_abs _ _ T), (elem_in_abs _ _ N).
    unfold map_liveb in Lv. destruct (read_map h r) as [[m|]|] eqn:R; cbn [option_map]; try discriminate.
    - destruct (pval_to_elem t v) as [e|]; cbn [option_map]; [|reflexivity]. cbn [fst snd abs_out].
      rewrite (awrite_map_abs _ _ _ _ T R), !absm_some, amput_abs. reflexivity.
    - reflexivity.
  Qed.

  Lemma ref_mclear h kk t r k : tidyb sch h = true -> wt_scalar kk k = true -> refines h (OMClear (PMap kk t r) k).
  Proof.
    intros T Wk. unfold refines. cbn [step ref_step]. rewrite Wk, (aread_map_abs _ _ T).
    assert (Main : match option_map absm (read_map h r) with
                   | Some m => (awrite_map (abs sch h) r (amdel m k), AOUnit)
                   | None => (abs sch h, AOUnit)
                   end =
                   (abs sch (fst match read_map h r with
                                 | Some (Some m) => (write_map h r (Some (mdel m k)), PUnit)
                                 | _ => (h, PUnit)
                                 end),
                    abs_out (snd match read_map h r with
                                 | Some (Some m) => (write_map h r (Some (mdel m k)), PUnit)
                                 | _ => (h, PUnit)
                                 end))).
    { destruct (read_map h r) as [[m|]|] eqn:R; cbn [option_map fst snd abs_out]; [| |reflexivity].
      - rewrite (awrite_map_abs _ _ _ _ T R), !absm_some, amdel_abs. reflexivity.
      - cbn [absm olist map amdel]. rewrite <- (write_map_same _ _ _ R) at 2.
        rewrite (awrite_map_abs _ _ _ _ T R). reflexivity. }
    destruct r as [o f|v|]; [exact Main|exact Main|reflexivity].
  Qed.

  Lemma ref_mmutable h kk t r k : tidyb sch h = true -> wt_scalar kk k = true -> mview_okb sch h t r = true ->
    map_liveb h r = true -> refines h (OMMutable (PMap kk t r) k).
  Proof.
    intros T Wk W Lv. unfold refines. cbn [step ref_step]. rewrite (aread_map_abs _ _ T). destruct t as [k0|mm]; [reflexivity|].
    unfold map_liveb in Lv. destruct (read_map h r) as [[m|]|] eqn:R; cbn [option_map]; try discriminate; [|reflexivity].
    rewrite Wk, absm_some, amassoc_abs. destruct (massoc m k) as [e|] eqn:A; cbn [option_map].
    - cbn [fst snd]. f_equal. symmetry. apply elem_out_abs. pose proof (mview_fits _ _ _ _ W R) as Fit.
      rewrite forallb_forall in Fit. destruct (massoc_in _ _ _ A) as [k' I]. apply (Fit _ I).
    - unfold halloc. cbn [fst snd abs_out]. rewrite abs_length.
      rewrite (awrite_map_abs _ _ (Some m) _ (tidy_app_new _ mm T) (read_map_app _ _ _ _ R)), new_alloc, absm_some.
      change (AEMsg (length h)) with (abs_elem (EPtr (Some (length h)))). rewrite amput_abs. reflexivity.
  Qed.

  Lemma ref_mnew h kk t r : refines h (OMNewValue (PMap kk t r)).
  Proof.
    unfold refines. cbn [step ref_step]. destruct t as [k|m]; cbn [fst snd abs_out].
    - rewrite nscalar_zero. reflexivity.
    - unfold halloc. cbn [fst snd abs_out]. rewrite new_alloc, abs_length. reflexivity.
  Qed.

  Lemma ref_mrange h kk t r : tidyb sch h = true -> mview_okb sch h t r = true -> refines h (OMRange (PMap kk t r)).
  Proof.
    intros T W. unfold refines. cbn [step ref_step fst snd abs_out]. rewrite (aread_map_abs _ _ T). f_equal. f_equal.
    destruct (read_map h r) as [m|] eqn:R; cbn [option_map]; [|reflexivity].
    unfold absm. rewrite !map_map. cbn [fst snd]. apply map_ext_in. intros [k e] I. cbn [fst snd]. f_equal.
    symmetry. apply elem_out_abs. pose proof (mview_fits _ _ _ _ W R) as Fit. rewrite forallb_forall in Fit. apply (Fit _ I).
  Qed.
  (* ================= the refinement, one step ======================================================================== *)
  Theorem step_refines_eq h o : tidyb sch h = true -> well_scopedb sch h o = true -> refines h o.
  Proof.
    intros T W. destruct o.
    - destruct r; try reflexivity. apply ref_has; exact T.
    - destruct r; try reflexivity. apply ref_get_op; exact T.
    - destruct r; try reflexivity. apply ref_set; assumption.
    - destruct r; try reflexivity. apply ref_clear; exact T.
    - destruct r; try reflexivity. apply ref_mutable; exact T.
    - destruct r; try reflexivity. apply ref_newfield.
    - destruct r; try reflexivity. apply ref_which; exact T.
    - destruct r; try reflexivity. apply ref_range; exact T.
    - destruct r; try reflexivity. apply ref_getunk.
    - destruct r; try reflexivity. apply ref_setunk.
    - destruct r; try reflexivity; try (destruct p; reflexivity); destruct r; reflexivity.
    - unfold refines. cbn [step ref_step]. unfold halloc. cbn [fst snd abs_out]. rewrite new_alloc, abs_length. reflexivity.
    - reflexivity.
    - destruct r; try reflexivity. apply ref_llen; exact T.
    - destruct r; try reflexivity. apply ref_lget; assumption.
    - destruct r; try reflexivity. cbn [well_scopedb] in W. apply andb_prop in W. destruct W as [_ W].
      apply Bool.negb_true_iff in W. apply ref_lset; assumption.
    - destruct r; try reflexivity. cbn [well_scopedb] in W. apply andb_prop in W. destruct W as [_ W].
      apply Bool.negb_true_iff in W. apply ref_lappend; assumption.
    - destruct r; try reflexivity. apply ref_lappendmut; exact T.
    - destruct r; try reflexivity. apply ref_ltrunc; exact T.
    - destruct r; try reflexivity. apply ref_lnew.
    - destruct r; try reflexivity. apply ref_mlen; exact T.
    - destruct r; try reflexivity. cbn [well_scopedb] in W. apply andb_prop in W. destruct W as [W1 W2]. apply ref_mhas; assumption.
    - destruct r; try reflexivity. cbn [well_scopedb] in W. apply andb_prop in W. destruct W as [W1 W2]. apply ref_mget; assumption.
    - destruct r; try reflexivity. cbn [well_scopedb] in W. apply andb_prop in W. destruct W as [W W4].
      apply andb_prop in W. destruct W as [W W3]. apply andb_prop in W. destruct W as [W1 W2].
      apply Bool.negb_true_iff in W3. apply ref_mset; assumption.
    - destruct r; try reflexivity. cbn [well_scopedb] in W. apply andb_prop in W. destruct W as [W1 W2]. apply ref_mclear; assumption.
    - destruct r; try reflexivity. cbn [well_scopedb] in W. apply andb_prop in W. destruct W as [W W3].
      apply andb_prop in W. destruct W as [W1 W2]. apply ref_mmutable; assumption.
    - destruct r; try reflexivity. apply ref_mnew.
    - destruct r; try reflexivity. apply ref_mrange; assumption.
  Qed.
  (* ================= tidiness is preserved by well-scoped operations ============================================ *)
  Lemma forallb_set_nth {A} (p : A -> bool) l i x : forallb p l = true -> p x = true -> forallb p (set_nth l i x) = true.
  Proof.
    revert i; induction l as [|a l IH]; intros [|i] H X; cbn [set_nth forallb] in *; auto;
      apply andb_prop in H; destruct H as [H1 H2]; apply andb_true_intro; split; auto.
  Qed.

  Lemma tidy_hset h id e : tidyb sch h = true -> (forall o, e = HObj o -> obj_tidyb sch o = true) -> tidyb sch (hset h id e) = true.
  Proof.
    intros T E. unfold tidyb, hset. apply forallb_set_nth; [exact T|]. destruct e; auto.
  Qed.
  Lemma tidy_hset_obj h id o : tidyb sch h = true -> obj_tidyb sch o = true -> tidyb sch (hset h id (HObj o)) = true.
  Proof. intros T O. apply tidy_hset; [exact T|]. intros o' E; inversion E; subst; exact O. Qed.
  Lemma tidy_app_var h e : tidyb sch h = true -> (forall o, e <> HObj o) -> tidyb sch (h ++ [e]) = true.
  Proof. unfold tidyb. intros T N. rewrite forallb_app, T. cbn. destruct e; auto. exfalso. eapply N; reflexivity. Qed.

  Lemma cells_set fs : forall cs f fd c, cells_tidyb fs cs = true -> nth_error fs f = Some fd -> cell_tidyb fd c = true ->
    cells_tidyb fs (set_nth cs f c) = true.
  Proof.
    induction fs as [|f0 fs IH]; intros [|c0 cs] f fd c T N C; cbn [cells_tidyb] in T; try discriminate.
    - destruct f; discriminate.
    - apply andb_prop in T. destruct T as [T1 T2]. destruct f as [|f]; cbn [nth_error set_nth cells_tidyb] in *.
      + inversion N; subst. rewrite C, T2. reflexivity.
      + rewrite T1. cbn [andb]. eapply IH; eauto.
  Qed.
  Lemma slots_set fs : forall ss j0 k x, slots_tidyb fs j0 ss = true -> slot_tidyb fs (j0 + k) x = true ->
    slots_tidyb fs j0 (set_nth ss k x) = true.
  Proof.
    induction ss as [|s0 ss IH]; intros j0 k x T X; [reflexivity|].
    cbn [slots_tidyb] in T. apply andb_prop in T. destruct T as [T1 T2]. destruct k as [|k]; cbn [set_nth slots_tidyb].
    - rewrite Nat.add_0_r in X. rewrite X, T2. reflexivity.
    - rewrite T1. cbn [andb]. apply IH; [exact T2|]. rewrite Nat.add_succ_l, <- Nat.add_succ_r. exact X.
  Qed.

  Lemma obj_tidy_set_cell o f fd c : obj_tidyb sch o = true -> field_of sch (o_mid o) f = Some fd -> cell_tidyb fd c = true ->
    obj_tidyb sch (set_cell o f c) = true.
  Proof.
    unfold obj_tidyb, field_of, set_cell. cbn [o_mid o_cells o_oneofs]. destruct (get_msg sch (o_mid o)) as [md|]; [|discriminate].
    intros T F C. apply andb_prop in T. destruct T as [T T3]. apply andb_prop in T. destruct T as [T1 T2].
    rewrite (cells_set _ _ _ _ _ T1 F C), T2, T3. reflexivity.
  Qed.
  Lemma obj_tidy_set_oneof o j x : obj_tidyb sch o = true ->
    slot_tidyb (fields_of sch (o_mid o)) j x = true -> obj_tidyb sch (set_oneof o j x) = true.
  Proof.
    unfold obj_tidyb, fields_of, set_oneof. cbn [o_mid o_cells o_oneofs]. destruct (get_msg sch (o_mid o)) as [md|].
    - intros T X. apply andb_prop in T. destruct T as [T T3]. apply andb_prop in T. destruct T as [T1 T2].
      rewrite T1, set_nth_length, T2. cbn [andb]. apply slots_set; [exact T3|exact X].
    - destruct (o_cells o); [|discriminate]. destruct (o_oneofs o); [|discriminate]. intros _ _. destruct j; reflexivity.
  Qed.
  Lemma obj_tidy_set_unk o u : obj_tidyb sch o = true -> obj_tidyb sch (set_unk o u) = true.
  Proof. unfold obj_tidyb, set_unk. cbn [o_mid o_cells o_oneofs]. auto. Qed.

  Lemma ftype_eqb_eq a b : ftype_eqb a b = true -> a = b.
  Proof.
    destruct a as [k|m]; destruct b as [k'|m']; cbn; try discriminate.
    - destruct k; destruct k'; try discriminate; reflexivity.
    - intro H. apply Nat.eqb_eq in H. subst. reflexivity.
  Qed.

  (* a view is used at the type of the container it points to *)
  Definition view_typed (h : heap) (t : ftype) (r : cref) : Prop :=
    forall id f ob fd, r = RField id f -> get_obj h id = Some ob -> field_of sch (o_mid ob) f = Some fd -> f_ty fd = t.

  Lemma lview_typed h t r l : lview_okb sch h t r = true -> read_list h r = Some l -> view_typed h t r.
  Proof.
    unfold lview_okb. intros W R. rewrite R in W. apply andb_prop in W. destruct W as [_ W].
    intros id f ob fd -> G F. unfold field_view_okb in W. rewrite G, afield_of_eq, F in W. apply ftype_eqb_eq. exact W.
  Qed.
  Lemma mview_typed h t r m : mview_okb sch h t r = true -> read_map h r = Some m -> view_typed h t r.
  Proof.
    unfold mview_okb. intros W R. rewrite R in W. apply andb_prop in W. destruct W as [_ W].
    intros id f ob fd -> G F. unfold field_view_okb in W. rewrite G, afield_of_eq, F in W. apply ftype_eqb_eq. exact W.
  Qed.
  Lemma view_typed_app h x t r : view_typed h t r -> (forall id f, r = RField id f -> id < length h) -> view_typed (h ++ [x]) t r.
  Proof.
    intros V L id f ob fd E G F. specialize (L id f E). unfold get_obj, hget in G. rewrite nth_error_app1 in G by exact L.
    eapply V; eauto.
  Qed.

  Lemma tidy_write_list h r l0 l t : tidyb sch h = true -> read_list h r = Some l0 -> view_typed h t r ->
    forallb (elem_fitsb t) (olist l) = true -> tidyb sch (write_list h r l) = true.
  Proof.
    intros T R V Fit. destruct r as [o f|v|]; cbn [write_list]; [| |exact T].
    - destruct (read_list_inv _ _ _ _ T R) as [ob [fd [p [G [F [S [C To]]]]]]]. rewrite G. apply tidy_hset_obj; [exact T|].
      apply obj_tidy_set_cell with fd; [exact To|exact F|]. unfold cell_tidyb. rewrite S. rewrite (V o f ob fd eq_refl G F). exact Fit.
    - apply tidy_hset; [exact T|]. intros o E; discriminate.
  Qed.
  Lemma tidy_write_map h r m0 m t : tidyb sch h = true -> read_map h r = Some m0 -> view_typed h t r ->
    forallb (fun kv => elem_fitsb t (snd kv)) (olist m) = true -> tidyb sch (write_map h r m) = true.
  Proof.
    intros T R V Fit. destruct r as [o f|v|]; cbn [write_map]; [| |exact T].
    - destruct (read_map_inv _ _ _ _ T R) as [ob [fd [kk [G [F [S [C To]]]]]]]. rewrite G. apply tidy_hset_obj; [exact T|].
      apply obj_tidy_set_cell with fd; [exact To|exact F|]. unfold cell_tidyb. rewrite S. rewrite (V o f ob fd eq_refl G F). exact Fit.
    - apply tidy_hset; [exact T|]. intros o E; discriminate.
  Qed.
  Lemma pte_scalar_wt t v s : pval_to_elem t v = Some (EScalar s) -> exists k, t = TScalar k /\ wt_scalar k s = true.
  Proof.
    unfold pval_to_elem. destruct t as [k|m]; destruct v; try discriminate.
    - destruct (wt_scalar k v) eqn:W; [|discriminate]. intro H; inversion H; subst. eauto.
    - destruct (Nat.eqb m mid); discriminate.
  Qed.

  Lemma forallb_firstn {A} (p : A -> bool) n l : forallb p l = true -> forallb p (firstn n l) = true.
  Proof.
    revert n; induction l as [|a l IH]; intros [|n] H; cbn [firstn forallb] in *; auto.
    apply andb_prop in H. destruct H as [H1 H2]. rewrite H1. cbn. auto.
  Qed.
  Lemma fits_mput t m k e : forallb (fun kv => elem_fitsb t (snd kv)) m = true -> elem_fitsb t e = true ->
    forallb (fun kv : val * elem => elem_fitsb t (snd kv)) (mput m k e) = true.
  Proof.
    induction m as [|[k' e'] m IH]; intros H E; cbn [mput forallb snd] in *; [rewrite E; reflexivity|].
    apply andb_prop in H. destruct H as [H1 H2]. destruct (val_key_eqb k' k); cbn [forallb snd].
    - rewrite E, H2. reflexivity.
    - rewrite H1. cbn. auto.
  Qed.
  Lemma fits_mdel t m k : forallb (fun kv : val * elem => elem_fitsb t (snd kv)) m = true ->
    forallb (fun kv : val * elem => elem_fitsb t (snd kv)) (mdel m k) = true.
  Proof.
    induction m as [|[k' e'] m IH]; intros H; cbn [mdel forallb snd] in *; [reflexivity|].
    apply andb_prop in H. destruct H as [H1 H2]. destruct (val_key_eqb k' k); cbn [forallb snd]; [exact H2|].
    rewrite H1. cbn. auto.
  Qed.

  Lemma read_list_lt h id f l : read_list h (RField id f) = Some l -> id < length h.
  Proof. intro R. destruct (read_list_field _ _ _ _ R) as [ob [G _]]. eapply get_obj_lt; eauto. Qed.
  Lemma read_map_lt h id f m : read_map h (RField id f) = Some m -> id < length h.
  Proof. intro R. destruct (read_map_field _ _ _ _ R) as [ob [G _]]. eapply get_obj_lt; eauto. Qed.

  Lemma field_of_nth mid f : field_of sch mid f = nth_error (fields_of sch mid) f.
  Proof. unfold field_of, fields_of. destruct (get_msg sch mid); [reflexivity|destruct f; reflexivity]. Qed.

  Definition tidy_after (h : heap) (o : op) : Prop := tidyb sch (fst (step sch h o)) = true.

  Lemma tp_set h mid p f v : tidyb sch h = true -> well_scopedb sch h (OSet (PMsg mid p) f v) = true -> tidy_after h (OSet (PMsg mid p) f v).
  Proof.
    intros T W. unfold tidy_after. destruct p as [id|]; [|exact T]. cbn [step well_scopedb] in *. rewrite afield_of_eq in W.
    destruct (field_of sch mid f) as [fd|] eqn:F; [|exact T].
    destruct (recv_obj sch h mid (Some id)) as [ob|] eqn:R; [|exact T].
    destruct (recv_tidy _ _ _ _ T R) as [G [M To]]. subst mid.
    destruct (f_shape fd) eqn:S.
    - destruct (pval_to_elem (f_ty fd) v) as [[s|[q|]]|] eqn:P; cbn [fst]; try exact T.
      + destruct (pte_scalar_wt _ _ _ P) as [k [Ty Wt]]. apply tidy_hset_obj; [exact T|]. apply obj_tidy_set_cell with fd; auto.
        unfold cell_tidyb. rewrite S, Ty. exact Wt.
      + destruct (pte_ptr _ _ _ P) as [m Ty]. apply tidy_hset_obj; [exact T|]. apply obj_tidy_set_cell with fd; auto.
        unfold cell_tidyb. rewrite S, Ty. reflexivity.
    - destruct v; try exact T. apply andb_prop in W. destruct W as [W1 W2]. apply ftype_eqb_eq in W1. subst t.
      destruct (read_list h r) as [l|] eqn:Rd; [|exact T]. cbn [fst]. apply tidy_hset_obj; [exact T|]. apply obj_tidy_set_cell with fd; auto.
      unfold cell_tidyb. rewrite S. apply (lview_fits _ _ _ _ W2 Rd).
    - apply Bool.negb_true_iff in W. destruct (pval_to_elem (f_ty fd) v) as [e|] eqn:P; [|exact T]. cbn [fst].
      apply tidy_hset_obj; [exact T|]. apply obj_tidy_set_oneof; [exact To|]. unfold slot_tidyb.
      rewrite <- field_of_nth, F. unfold is_member. rewrite S, Nat.eqb_refl. cbn [andb]. apply (elem_in_fits _ _ _ W P).
    - destruct v; try exact T. apply andb_prop in W. destruct W as [W1 W2]. apply ftype_eqb_eq in W1. subst t.
      destruct (read_map h r) as [m|] eqn:Rd; [|exact T]. cbn [fst]. apply tidy_hset_obj; [exact T|]. apply obj_tidy_set_cell with fd; auto.
      unfold cell_tidyb. rewrite S. apply (mview_fits _ _ _ _ W2 Rd).
  Qed.

  Lemma wt_zero k : wt_scalar k (match k with KBytes => VNil | _ => zero_scalar k end) = true.
  Proof. destruct k; reflexivity. Qed.

  Lemma tp_clear h mid p f : tidyb sch h = true -> tidy_after h (OClear (PMsg mid p) f).
  Proof.
    intros T. unfold tidy_after. destruct p as [id|]; [|exact T]. cbn [step].
    destruct (field_of sch mid f) as [fd|] eqn:F; [|exact T].
    destruct (recv_obj sch h mid (Some id)) as [ob|] eqn:R; [|exact T].
    destruct (recv_tidy _ _ _ _ T R) as [G [M To]]. subst mid. cbn [fst]. apply tidy_hset_obj; [exact T|].
    destruct (f_shape fd) eqn:S.
    - destruct (f_ty fd) as [k|m] eqn:Ty; apply obj_tidy_set_cell with fd; auto; unfold cell_tidyb; rewrite S, Ty; [apply wt_zero|reflexivity].
    - assert (X : obj_tidyb sch (set_cell ob f (CList None)) = true).
      { apply obj_tidy_set_cell with fd; auto. unfold cell_tidyb. rewrite S. reflexivity. }
      destruct (f_ty fd); exact X.
    - assert (X : obj_tidyb sch (match nth oneof (o_oneofs ob) None with
                                   | Some (f', _) => if Nat.eqb f' f then set_oneof ob oneof None else ob
                                   | None => ob end) = true).
      { destruct (nth oneof (o_oneofs ob) None) as [[f' e]|]; [|exact To]. destruct (Nat.eqb f' f); [|exact To].
        apply obj_tidy_set_oneof; [exact To|reflexivity]. }
      destruct (f_ty fd); exact X.
    - assert (X : obj_tidyb sch (set_cell ob f (CMap None)) = true).
      { apply obj_tidy_set_cell with fd; auto. unfold cell_tidyb. rewrite S. reflexivity. }
      destruct (f_ty fd); exact X.
  Qed.

  Lemma tp_mutable h mid p f : tidyb sch h = true -> tidy_after h (OMutable (PMsg mid p) f).
  Proof.
    intros T. unfold tidy_after. destruct p as [id|]; [|exact T]. cbn [step].
    destruct (field_of sch mid f) as [fd|] eqn:F; [|exact T].
    destruct (recv_obj sch h mid (Some id)) as [ob|] eqn:R; [|exact T].
    destruct (recv_tidy _ _ _ _ T R) as [G [M To]]. subst mid. unfold halloc.
    destruct (f_shape fd) eqn:S.
    - destruct (f_ty fd) as [k|m] eqn:Ty; [exact T|].
      assert (X : tidyb sch (hset (h ++ [HObj (new_obj sch m)]) id (HObj (set_cell ob f (CMsg (Some (length h)))))) = true).
      { apply tidy_hset_obj; [apply tidy_app_new; exact T|]. apply obj_tidy_set_cell with fd; auto. unfold cell_tidyb. rewrite S, Ty. reflexivity. }
      destruct (nth_error (o_cells ob) f) as [[v|[q|]|l|mm|]|]; cbn [fst]; try exact X; exact T.
    - assert (X : tidyb sch (hset h id (HObj (set_cell ob f (CList (Some []))))) = true).
      { apply tidy_hset_obj; [exact T|]. apply obj_tidy_set_cell with fd; auto. unfold cell_tidyb. rewrite S. reflexivity. }
      destruct (f_ty fd); destruct (nth_error (o_cells ob) f) as [[v|q|[l|]|mm|]|]; cbn [fst]; try exact X; exact T.
    - destruct (f_ty fd) as [k|m] eqn:Ty; [exact T|].
      assert (X : tidyb sch (hset (h ++ [HObj (new_obj sch m)]) id (HObj (set_oneof ob oneof (Some (f, EPtr (Some (length h))))))) = true).
      { apply tidy_hset_obj; [apply tidy_app_new; exact T|]. apply obj_tidy_set_oneof; [exact To|]. unfold slot_tidyb.
        rewrite <- field_of_nth, F. unfold is_member. rewrite S, Nat.eqb_refl, Ty. reflexivity. }
      destruct (nth oneof (o_oneofs ob) None) as [[f' [v|[q|]]]|]; try (destruct (Nat.eqb f' f)); cbn [fst]; try exact X; exact T.
    - assert (X : tidyb sch (hset h id (HObj (set_cell ob f (CMap (Some []))))) = true).
      { apply tidy_hset_obj; [exact T|]. apply obj_tidy_set_cell with fd; auto. unfold cell_tidyb. rewrite S. reflexivity. }
      destruct (f_ty fd); destruct (nth_error (o_cells ob) f) as [[v|q|l|[mm|]|]|]; cbn [fst]; try exact X; exact T.
  Qed.

  Lemma tp_setunk h mid p u : tidyb sch h = true -> tidy_after h (OSetUnknown (PMsg mid p) u).
  Proof.
    intros T. unfold tidy_after. destruct p as [id|]; [|exact T]. cbn [step].
    destruct (recv_obj sch h mid (Some id)) as [ob|] eqn:R; [|exact T].
    destruct (recv_tidy _ _ _ _ T R) as [G [M To]]. cbn [fst]. apply tidy_hset_obj; [exact T|]. apply obj_tidy_set_unk. exact To.
  Qed.

  Lemma tp_newfield h mid p f : tidyb sch h = true -> tidy_after h (ONewField (PMsg mid p) f).
  Proof.
    intros T. unfold tidy_after. cbn [step]. destruct (field_of sch mid f) as [fd|]; [|exact T]. unfold halloc.
    destruct (f_shape fd); destruct (f_ty fd); cbn [fst]; try exact T; try (apply tidy_app_new; exact T);
      apply tidy_app_var; try exact T; intros o E; discriminate.
  Qed.
  Lemma tp_lset h t r i v : tidyb sch h = true -> lview_okb sch h t r = true -> is_nil_msg v = false -> tidy_after h (OLSet (PList t r) i v).
  Proof.
    intros T W N. unfold tidy_after. cbn [step]. destruct (read_list h r) as [l|] eqn:R; [|exact T].
    destruct (pval_to_elem t v) as [e|] eqn:P; [|exact T]. destruct (in_bounds i (olen l)); [|exact T]. cbn [fst].
    apply (tidy_write_list _ _ _ _ t T R (lview_typed _ _ _ _ W R)). cbn [olist].
    apply forallb_set_nth; [apply (lview_fits _ _ _ _ W R)|apply (elem_in_fits _ _ _ N P)].
  Qed.
  Lemma tp_lappend h t r v : tidyb sch h = true -> lview_okb sch h t r = true -> is_nil_msg v = false -> tidy_after h (OLAppend (PList t r) v).
  Proof.
    intros T W N. unfold tidy_after. cbn [step]. destruct (read_list h r) as [l|] eqn:R; [|exact T].
    destruct (pval_to_elem t v) as [e|] eqn:P; [|exact T]. cbn [fst].
    apply (tidy_write_list _ _ _ _ t T R (lview_typed _ _ _ _ W R)). cbn [olist].
    rewrite forallb_app, (lview_fits _ _ _ _ W R). cbn. rewrite (elem_in_fits _ _ _ N P). reflexivity.
  Qed.
  Lemma tp_lappendmut h t r : tidyb sch h = true -> lview_okb sch h t r = true -> tidy_after h (OLAppendMutable (PList t r)).
  Proof.
    intros T W. unfold tidy_after. cbn [step]. destruct t as [k|m]; [exact T|].
    destruct (read_list h r) as [l|] eqn:R; [|exact T]. unfold halloc. cbn [fst].
    apply (tidy_write_list _ _ l _ (TMsg m) (tidy_app_new _ m T) (read_list_app _ _ _ _ R)).
    - apply view_typed_app; [apply (lview_typed _ _ _ _ W R)|]. intros id f ->. eapply read_list_lt; eauto.
    - cbn [olist]. rewrite forallb_app, (lview_fits _ _ _ _ W R). reflexivity.
  Qed.
  Lemma tp_ltrunc h t r n : tidyb sch h = true -> lview_okb sch h t r = true -> tidy_after h (OLTruncate (PList t r) n).
  Proof.
    intros T W. unfold tidy_after. cbn [step]. destruct (read_list h r) as [l|] eqn:R; [|exact T].
    destruct ((0 <=? n)%Z && (n <=? Z.of_nat (olen l))%Z); [|exact T]. cbn [fst].
    apply (tidy_write_list _ _ _ _ t T R (lview_typed _ _ _ _ W R)). pose proof (lview_fits _ _ _ _ W R) as Fit.
    destruct l as [x|]; cbn [olist] in *; [apply forallb_firstn; exact Fit|reflexivity].
  Qed.
  Lemma tp_lnew h t r : tidyb sch h = true -> tidy_after h (OLNewElement (PList t r)).
  Proof. intros T. unfold tidy_after. cbn [step]. destruct t; [exact T|]. unfold halloc. cbn [fst]. apply tidy_app_new; exact T. Qed.

  Lemma tp_mset h kk t r k v : tidyb sch h = true -> mview_okb sch h t r = true -> is_nil_msg v = false -> tidy_after h (OMSet (PMap kk t r) k v).
  Proof.
    intros T W N. unfold tidy_after. cbn [step]. destruct (read_map h r) as [[m|]|] eqn:R; try exact T.
    destruct (pval_to_elem t v) as [e|] eqn:P; [|exact T]. destruct (wt_scalar kk k); [|exact T]. cbn [fst].
    apply (tidy_write_map _ _ _ _ t T R (mview_typed _ _ _ _ W R)). cbn [olist].
    apply fits_mput; [apply (mview_fits _ _ _ _ W R)|apply (elem_in_fits _ _ _ N P)].
  Qed.
  Lemma tp_mclear h kk t r k : tidyb sch h = true -> mview_okb sch h t r = true -> tidy_after h (OMClear (PMap kk t r) k).
  Proof.
    intros T W. unfold tidy_after. cbn [step].
    assert (Main : tidyb sch (fst (if wt_scalar kk k
                                   then match read_map h r with
                                        | Some (Some m) => (write_map h r (Some (mdel m k)), PUnit)
                                        | _ => (h, PUnit)
                                        end
                                   else (h, PPanic))) = true).
    { destruct (wt_scalar kk k); [|exact T]. destruct (read_map h r) as [[m|]|] eqn:R; try exact T. cbn [fst].
      apply (tidy_write_map _ _ _ _ t T R (mview_typed _ _ _ _ W R)). cbn [olist]. apply fits_mdel. apply (mview_fits _ _ _ _ W R). }
    destruct r; [exact Main|exact Main|exact T].
  Qed.
  Lemma tp_mmutable h kk t r k : tidyb sch h = true -> mview_okb sch h t r = true -> tidy_after h (OMMutable (PMap kk t r) k).
  Proof.
    intros T W. unfold tidy_after. cbn [step]. destruct t as [k0|mm]; [exact T|].
    destruct (read_map h r) as [[m|]|] eqn:R; try exact T. destruct (wt_scalar kk k); [|exact T].
    destruct (massoc m k); [exact T|]. unfold halloc. cbn [fst].
    apply (tidy_write_map _ _ (Some m) _ (TMsg mm) (tidy_app_new _ mm T) (read_map_app _ _ _ _ R)).
    - apply view_typed_app; [apply (mview_typed _ _ _ _ W R)|]. intros id f ->. eapply read_map_lt; eauto.
    - cbn [olist]. apply fits_mput; [apply (mview_fits _ _ _ _ W R)|reflexivity].
  Qed.
  Lemma tp_mnew h kk t r : tidyb sch h = true -> tidy_after h (OMNewValue (PMap kk t r)).
  Proof. intros T. unfold tidy_after. cbn [step]. destruct t; [exact T|]. unfold halloc. cbn [fst]. apply tidy_app_new; exact T. Qed.

  Theorem tidy_preserved h o : tidyb sch h = true -> well_scopedb sch h o = true -> tidyb sch (fst (step sch h o)) = true.
  Proof.
    intros T W. destruct (is_read o) eqn:Rd; [rewrite (reads_frame sch h o Rd); exact T|].
    destruct o; try discriminate Rd; change (tidy_after h ?o) in |- * || idtac.
    - destruct r; try exact T. apply tp_set; assumption.
    - destruct r; try exact T. apply tp_clear; assumption.
    - destruct r; try exact T. apply tp_mutable; assumption.
    - destruct r; try exact T. apply tp_newfield; assumption.
    - destruct r; try exact T. apply tp_setunk; assumption.
    - cbn [step]. unfold halloc. cbn [fst]. apply tidy_app_new; exact T.
    - destruct r; try exact T. cbn [well_scopedb] in W. apply andb_prop in W. destruct W as [W1 W2].
      apply Bool.negb_true_iff in W2. apply tp_lset; assumption.
    - destruct r; try exact T. cbn [well_scopedb] in W. apply andb_prop in W. destruct W as [W1 W2].
      apply Bool.negb_true_iff in W2. apply tp_lappend; assumption.
    - destruct r; try exact T. apply tp_lappendmut; assumption.
    - destruct r; try exact T. apply tp_ltrunc; assumption.
    - destruct r; try exact T. apply tp_lnew; assumption.
    - destruct r; try exact T. cbn [well_scopedb] in W. apply andb_prop in W. destruct W as [W W4].
      apply andb_prop in W. destruct W as [W W3]. apply andb_prop in W. destruct W as [W1 W2].
      apply Bool.negb_true_iff in W3. apply tp_mset; assumption.
    - destruct r; try exact T. cbn [well_scopedb] in W. apply andb_prop in W. destruct W as [W1 W2]. apply tp_mclear; assumption.
    - destruct r; try exact T. cbn [well_scopedb] in W. apply andb_prop in W. destruct W as [W W3].
      apply andb_prop in W. destruct W as [W1 W2]. apply tp_mmutable; assumption.
    - destruct r; try exact T. apply tp_mnew; assumption.
  Qed.

  (* ================= histories ======================================================================================== *)
  Definition cstep (st : heap * list pval) (o : op) : heap * list pval :=
    let (h, outs) := st in let (h', r) := step sch h o in (h', outs ++ [r]).
  Definition astep (st : aheap * list aout) (o : op) : aheap * list aout :=
    let (a, outs) := st in let (a', r) := ref_step sch a o in (a', outs ++ [r]).

  Lemma exec_gen : forall os h outs, tidyb sch h = true -> scoped_from sch h os = true ->
    fst (fold_left astep os (abs sch h, map abs_out outs)) = abs sch (fst (fold_left cstep os (h, outs))) /\
    snd (fold_left astep os (abs sch h, map abs_out outs)) = map abs_out (snd (fold_left cstep os (h, outs))) /\
    tidyb sch (fst (fold_left cstep os (h, outs))) = true.
  Proof.
    induction os as [|o os IH]; intros h outs T S; cbn [fold_left].
    - auto.
    - cbn [scoped_from] in S. apply andb_prop in S. destruct S as [W S].
      pose proof (step_refines_eq h o T W) as Rf. unfold refines in Rf.
      pose proof (tidy_preserved h o T W) as P.
      unfold astep at 2 4, cstep at 2 4 6. rewrite Rf. destruct (step sch h o) as [h1 r] eqn:E. cbn [fst snd] in *.
      replace (map abs_out outs ++ [abs_out r]) with (map abs_out (outs ++ [r])) by (rewrite map_app; reflexivity).
      apply IH; assumption.
  Qed.

  Theorem history_refines_eq : forall os, scoped_from sch [] os = true ->
    fst (ref_exec sch os) = abs sch (fst (exec sch os)) /\
    snd (ref_exec sch os) = map abs_out (snd (exec sch os)) /\
    tidyb sch (fst (exec sch os)) = true.
  Proof. intros os S. exact (exec_gen os [] [] eq_refl S). Qed.
  (* Reflect.run (operands drawn from earlier results by arbitrary functions) is exec on the operations it executes *)
  Lemma run_gen : forall ops h outs os0,
    let st := fold_left (trace_step sch) ops (h, outs, os0) in
    fold_left (fun (st : heap * list pval) (mk : list pval -> op) =>
                 let (h, outs) := st in let (h', r) := step sch h (mk outs) in (h', outs ++ [r])) ops (h, outs) = fst st /\
    exists os1, snd st = os0 ++ os1 /\ fold_left cstep os1 (h, outs) = fst st.
  Proof.
    induction ops as [|mk ops IH]; intros h outs os0; cbn [fold_left].
    - split; [reflexivity|]. exists []. rewrite app_nil_r. split; reflexivity.
    - unfold trace_step at 2 4 6. destruct (step sch h (mk outs)) as [h1 r] eqn:E.
      destruct (IH h1 (outs ++ [r]) (os0 ++ [mk outs])) as [A [os1 [B C]]]. split; [exact A|].
      exists (mk outs :: os1). rewrite B, <- app_assoc. split; [reflexivity|]. cbn [fold_left]. unfold cstep at 2. rewrite E. exact C.
  Qed.

  Lemma run_is_exec ops : run sch ops = exec sch (trace sch ops).
  Proof.
    destruct (run_gen ops [] [] []) as [A [os1 [B C]]]. cbv zeta in *. unfold run, trace, exec.
    cbn [app] in B.
    transitivity (fst (fold_left (trace_step sch) ops ([], [], []))); [exact A|].
    transitivity (fold_left cstep os1 ([], [])); [symmetry; exact C|].
    apply (f_equal (fun l => fold_left cstep l (@nil hent, @nil pval))). symmetry. exact B.
  Qed.

  Theorem run_refines_eq : forall ops, scoped_from sch [] (trace sch ops) = true ->
    fst (ref_exec sch (trace sch ops)) = abs sch (fst (run sch ops)) /\
    snd (ref_exec sch (trace sch ops)) = map abs_out (snd (run sch ops)) /\
    tidyb sch (fst (run sch ops)) = true.
  Proof. intros ops S. rewrite run_is_exec. apply history_refines_eq. exact S. Qed.

  Theorem step_refines_pair h o : tidyb sch h = true -> well_scopedb sch h o = true ->
    abs_out (snd (step sch h o)) = snd (ref_step sch (abs sch h) o) /\
    abs sch (fst (step sch h o)) = fst (ref_step sch (abs sch h) o).
  Proof. intros T W. pose proof (step_refines_eq h o T W) as R. unfold refines in R. rewrite R. split; reflexivity. Qed.
End Refine.
