(* Proofs/CodecSize.v — C04: the size template computes exactly the length of what the marshal
   template emits; MarshalAppend keeps the prefix. *)
From CP Require Import Extra BytesLemmas RuntimeProofs ValInd.
From Coq Require Import Lia ZifyN ZifyNat ZifyBool Permutation.
Local Open Scope N_scope.

(* ------------------------------------------------------------------ keys *)
Lemma key_aux_size_length fuel x :
  gen_key_size_aux fuel x = N.of_nat (length (gen_key_bytes_aux fuel x)).
Proof.
  revert x. induction fuel as [|f IH]; intro x; cbn [gen_key_size_aux gen_key_bytes_aux].
  - reflexivity.
  - destruct (127 <? x).
    + cbn [length]. rewrite IH. lia.
    + reflexivity.
Qed.

Lemma key_size_length num wt : key_size num wt = N.of_nat (length (key_bytes num wt)).
Proof. unfold key_size, key_bytes. apply key_aux_size_length. Qed.

(* ------------------------------------------------------------------ scalars *)
Lemma z2u64_lt z : z2u64 z < two64.
Proof.
  unfold z2u64.
  assert (H : (0 <= z mod Z.of_N two64 < Z.of_N two64)%Z) by (apply Z.mod_pos_bound; reflexivity).
  lia.
Qed.

Lemma z2u32_lt z : z2u32 z < two32.
Proof.
  unfold z2u32.
  assert (H : (0 <= z mod Z.of_N two32 < Z.of_N two32)%Z) by (apply Z.mod_pos_bound; reflexivity).
  lia.
Qed.

Lemma log2_lt_pow2' a n : 0 < n -> a < 2 ^ n -> N.log2 a < n.
Proof.
  intros Hn Ha. destruct (N.eq_dec a 0) as [->|Hne].
  - exact Hn.
  - apply N.log2_lt_pow2; [lia|exact Ha].
Qed.

Lemma lxor_lt_pow2 a b n : a < 2 ^ n -> b < 2 ^ n -> N.lxor a b < 2 ^ n.
Proof.
  intros Ha Hb.
  destruct (N.eq_dec n 0) as [->|Hn].
  - change (2 ^ 0) with 1 in *. assert (a = 0) by lia. assert (b = 0) by lia. subst. reflexivity.
  - destruct (N.eq_dec (N.lxor a b) 0) as [E|E].
    + rewrite E. lia.
    + apply N.log2_lt_pow2; [lia|].
      pose proof (N.log2_lxor a b) as Hl.
      pose proof (log2_lt_pow2' a n ltac:(lia) Ha).
      pose proof (log2_lt_pow2' b n ltac:(lia) Hb).
      lia.
Qed.

Lemma zigzag64_lt x : zigzag64 x < two64.
Proof.
  unfold zigzag64. apply (lxor_lt_pow2 _ _ 64).
  - unfold u64. change (2 ^ 64) with two64. apply N.mod_upper_bound. discriminate.
  - destruct (u64 x <? two63); reflexivity.
Qed.

Lemma zigzag32_sext z : zigzag64 (z2u64 (wrap32 z)) = zigzag32 (z2u32 z).
Proof.
  pose proof (z2u32_lt z) as Hx. unfold wrap32. set (x := z2u32 z) in *. clearbody x.
  unfold s32. rewrite (N.mod_small x two32) by exact Hx.
  unfold zigzag32, u32. rewrite (N.mod_small x two32) by exact Hx.
  rewrite N.shiftl_mul_pow2. change (2 ^ 1) with 2.
  destruct (N.ltb_spec x two31) as [Hl|Hg].
  - rewrite zigzag64_spec by (unfold two31, two32, two63 in *; lia).
    destruct (Z.ltb_spec (Z.of_N x) 0) as [Hn|_]; [lia|].
    rewrite N.lxor_0_r. rewrite N.mod_small by (unfold two31, two32 in *; lia). lia.
  - rewrite zigzag64_spec by (unfold two31, two32, two63 in *; lia).
    destruct (Z.ltb_spec (Z.of_N x - Z.of_N two32) 0) as [_|Hp]; [|unfold two31, two32 in *; lia].
    assert (Em : (x * 2) mod two32 = x * 2 - two32).
    { symmetry. apply N.mod_unique with (q := 1); unfold two31, two32 in *; lia. }
    rewrite Em. change (two32 - 1) with (N.ones 32).
    rewrite lxor_ones_low by (change (2 ^ 32) with two32; unfold two31, two32 in *; lia).
    change (N.ones 32) with (two32 - 1). unfold two31, two32 in *. lia.
Qed.

Definition bytes_kind (k : kind) : bool := match k with KString | KBytes => true | _ => false end.

Lemma scalar_size_length_gen k v :
  (bytes_kind k = true -> blen v < two64) ->
  scalar_size k v = N.of_nat (length (scalar_payload k v)).
Proof.
  intro Hb.
  destruct k; cbn [scalar_size scalar_payload];
    try (symmetry; apply enc_varint_length; apply z2u64_lt);
    try reflexivity.
  - (* KSint32 *)
    unfold Soz, as_i32_u64, as_u32. rewrite zigzag32_sext.
    symmetry. apply enc_varint_length. rewrite <- zigzag32_sext. apply zigzag64_lt.
  - (* KSint64 *)
    unfold Soz. symmetry. apply enc_varint_length. apply zigzag64_lt.
  - rewrite app_length, Nat2N.inj_add, enc_varint_length by (apply Hb; reflexivity).
    unfold blen. lia.
  - rewrite app_length, Nat2N.inj_add, enc_varint_length by (apply Hb; reflexivity).
    unfold blen. lia.
Qed.

Lemma scalar_size_length k v : N.of_nat (length (as_bytes v)) < two64 -> scalar_size k v = N.of_nat (length (scalar_payload k v)).
Proof. intro H. apply scalar_size_length_gen. intros _. exact H. Qed.

(* ------------------------------------------------------------------ lengths, sums *)
Definition len (l : list byte) : N := N.of_nat (length l).

Lemma len_app a b : len (a ++ b) = len a + len b.
Proof. unfold len. rewrite app_length. lia. Qed.

Lemma len_nil : len [] = 0.
Proof. reflexivity. Qed.

Lemma nsum_app a b : nsum (a ++ b) = nsum a + nsum b.
Proof. induction a as [|x a IH]; cbn [nsum fold_right app] in *; [reflexivity|]. fold (nsum (a ++ b)). fold (nsum a). lia. Qed.

Lemma nsum_cons x l : nsum (x :: l) = x + nsum l.
Proof. reflexivity. Qed.

Lemma len_concat (l : list (list byte)) : len (concat l) = nsum (map len l).
Proof.
  induction l as [|x l IH]; [reflexivity|].
  cbn [concat map]. rewrite len_app, nsum_cons, IH. reflexivity.
Qed.

Lemma nsum_perm a b : Permutation a b -> nsum a = nsum b.
Proof.
  intro H. induction H as [|x a b _ IH|x y a|a b c _ IH1 _ IH2].
  - reflexivity.
  - rewrite !nsum_cons, IH. reflexivity.
  - rewrite !nsum_cons. lia.
  - congruence.
Qed.

Lemma insert_sorted_perm {A} (ltb : A -> A -> bool) x l : Permutation (insert_sorted ltb x l) (x :: l).
Proof.
  induction l as [|y t IH]; cbn [insert_sorted].
  - apply Permutation_refl.
  - destruct (ltb y x).
    + eapply perm_trans; [apply perm_skip; exact IH|apply perm_swap].
    + apply Permutation_refl.
Qed.

Lemma isort_perm {A} (ltb : A -> A -> bool) l : Permutation (isort ltb l) l.
Proof.
  induction l as [|x t IH]; cbn [isort fold_right].
  - apply perm_nil.
  - fold (isort ltb t). eapply perm_trans; [apply insert_sorted_perm|apply perm_skip; exact IH].
Qed.

(* total payload length of a list of tagged chunks *)
Definition tot {A} (l : list (A * list byte)) : N := nsum (map (fun p => len (snd p)) l).

Lemma tot_cons {A} (p : A * list byte) l : tot (p :: l) = len (snd p) + tot l.
Proof. reflexivity. Qed.

Lemma len_concat_snd {A} (l : list (A * list byte)) : len (concat (map snd l)) = tot l.
Proof. rewrite len_concat. unfold tot. rewrite map_map. reflexivity. Qed.

Lemma tot_perm {A} (a b : list (A * list byte)) : Permutation a b -> tot a = tot b.
Proof. intro H. unfold tot. apply nsum_perm. apply Permutation_map. exact H. Qed.

Lemma tot_isort {A} (ltb : A * list byte -> A * list byte -> bool) l : tot (isort ltb l) = tot l.
Proof. apply tot_perm. apply isort_perm. Qed.

(* generic: sizes agree with lengths element-wise => sums agree *)
Lemma nsum_len_concat {A} (B : N) (h : A -> N) (g : A -> list byte) (l : list A) :
  Forall (fun x => len (g x) < B -> h x = len (g x)) l ->
  len (concat (map g l)) < B ->
  nsum (map h l) = len (concat (map g l)).
Proof.
  induction l as [|x l IH]; intros HF Hlt; [reflexivity|].
  inversion HF as [|? ? Hx Hl]; subst.
  cbn [map concat] in *. rewrite len_app in *. rewrite nsum_cons.
  rewrite Hx by lia. rewrite IH; [reflexivity|exact Hl|lia].
Qed.

(* ------------------------------------------------------------------ assemble *)
Lemma sum_indicator (j : nat) (c : N) (n a : nat) :
  nsum (map (fun i => if Nat.eqb i j then c else 0) (seq a n)) =
  if ((a <=? j)%nat && (j <? a + n)%nat)%bool then c else 0.
Proof.
  revert a. induction n as [|n IH]; intro a; cbn [seq map].
  - cbn [nsum fold_right]. destruct (Nat.leb_spec a j), (Nat.ltb_spec j (a + 0)); cbn [andb]; try reflexivity; lia.
  - rewrite nsum_cons, IH.
    destruct (Nat.eqb_spec a j), (Nat.leb_spec a j), (Nat.leb_spec (S a) j),
      (Nat.ltb_spec j (S a + n)), (Nat.ltb_spec j (a + S n)); cbn [andb]; try lia.
Qed.

Definition member_bound (n : nat) (f : field) : Prop :=
  match f_shape f with Member j => (j < n)%nat | _ => True end.

Lemma tot_members (n : nat) (per : list (field * list byte)) :
  Forall (fun p => member_bound n (fst p)) per ->
  tot (filter (fun p => negb (is_member (fst p))) per) +
  nsum (map (fun i => tot (filter (fun p => member_of i (fst p)) per)) (seq 0 n)) = tot per.
Proof.
  induction per as [|p per IH]; intro HF.
  - cbn [filter].
    assert (E : forall L : list nat, nsum (map (fun _ => @tot field []) L) = 0).
    { induction L as [|i L IHL]; [reflexivity|]. cbn [map]. rewrite nsum_cons, IHL. reflexivity. }
    rewrite E. reflexivity.
  - inversion HF as [|? ? Hp Hper]; subst. specialize (IH Hper).
    rewrite tot_cons. rewrite <- IH. clear IH.
    cbn [filter]. unfold member_bound in Hp. unfold is_member, member_of.
    destruct (f_shape (fst p)) as [| |j|] eqn:Es; cbn [negb].
    1,2,4: rewrite tot_cons; lia.
    assert (E : forall L, nsum (map (fun i => tot (if Nat.eqb i j then p :: filter (fun p0 => match f_shape (fst p0) with Member j0 => Nat.eqb i j0 | _ => false end) per else filter (fun p0 => match f_shape (fst p0) with Member j0 => Nat.eqb i j0 | _ => false end) per)) L) =
      nsum (map (fun i => if Nat.eqb i j then len (snd p) else 0) L) +
      nsum (map (fun i => tot (filter (fun p0 => match f_shape (fst p0) with Member j0 => Nat.eqb i j0 | _ => false end) per)) L)).
    { induction L as [|i L IHL]; [reflexivity|]. cbn [map]. rewrite !nsum_cons, IHL.
      destruct (Nat.eqb i j); [rewrite tot_cons|]; lia. }
    rewrite E. rewrite sum_indicator.
    destruct (Nat.leb_spec 0 j), (Nat.ltb_spec j (0 + n)); cbn [andb]; lia.
Qed.

Lemma len_assemble md per :
  Forall (fun p => member_bound (m_oneofs md) (fst p)) per ->
  len (assemble md per) = tot per.
Proof.
  intro HF. unfold assemble. rewrite len_app, len_concat_snd, tot_isort.
  rewrite len_concat, map_map.
  rewrite <- (tot_members (m_oneofs md) per HF). f_equal.
  f_equal. apply map_ext. intro i. apply len_concat_snd.
Qed.

(* ------------------------------------------------------------------ len-form helpers *)
Lemma key_size_len num wt : key_size num wt = len (key_bytes num wt).
Proof. apply key_size_length. Qed.

Lemma len_lenpfx_le bs : len bs <= len (lenpfx bs).
Proof. unfold lenpfx. rewrite len_app. lia. Qed.

Lemma len_lenpfx bs : len bs < two64 -> len (lenpfx bs) = Sov (len bs) + len bs.
Proof.
  intro H. unfold lenpfx. rewrite len_app. f_equal.
  unfold len in *. apply enc_varint_length. exact H.
Qed.

Lemma scalar_size_len k v :
  len (scalar_payload k v) < two64 -> scalar_size k v = len (scalar_payload k v).
Proof.
  intro H. apply scalar_size_length_gen. intro Hk.
  destruct k; try discriminate Hk; cbn [scalar_payload] in H; rewrite len_app in H;
    unfold blen; change (N.of_nat (length (as_bytes v))) with (len (as_bytes v)); lia.
Qed.

(* ------------------------------------------------------------------ zip and unfolding *)
Fixpoint zipf {B} (g : field -> val -> B) (fs : list field) (ss : list val) : list B :=
  match ss, fs with s :: ss', f :: fs' => g f s :: zipf g fs' ss' | _, _ => [] end.

Lemma emit_unfold sch det mid slots unk :
  emit sch det mid (VMsg slots unk) =
  match get_msg sch mid with
  | None => []
  | Some md =>
    assemble md (zipf (fun f s => (f, emit_field det (emit sch det) f s)) (m_fields md) slots) ++ unk
  end.
Proof.
  cbn [emit]. destruct (get_msg sch mid) as [md|]; [|reflexivity].
  f_equal. f_equal. generalize (m_fields md) as fs.
  induction slots as [|s ss IH]; intro fs; destruct fs as [|f fs]; cbn [zipf]; try reflexivity.
  rewrite IH. reflexivity.
Qed.

Lemma msg_size_unfold sch mid slots unk :
  msg_size sch mid (VMsg slots unk) =
  match get_msg sch mid with
  | None => 0
  | Some md => nsum (zipf (fun f s => size_field (msg_size sch) f s) (m_fields md) slots) + len unk
  end.
Proof.
  cbn [msg_size]. destruct (get_msg sch mid) as [md|]; [|reflexivity].
  f_equal. generalize (m_fields md) as fs.
  induction slots as [|s ss IH]; intro fs; destruct fs as [|f fs]; cbn [zipf]; try reflexivity.
  rewrite nsum_cons, IH. reflexivity.
Qed.

(* ------------------------------------------------------------------ one field *)
Section Field.
  Variable det : bool.
  Variable re : nat -> val -> list byte.
  Variable rs : nat -> val -> N.

  Definition good (v : val) : Prop := forall m, len (re m v) < two64 -> rs m v = len (re m v).
  Definition sub_good (v : val) : Prop :=
    good v /\
    match v with
    | VList l => Forall good l
    | VSome p => good p
    | VMap kvs => Forall (fun kv => good (snd kv)) kvs
    | _ => True
    end.

  Lemma elem_size_len t v :
    good v -> len (emit_elem re t v) < two64 -> size_elem rs t v = len (emit_elem re t v).
  Proof.
    intros Hg Hlt. destruct t as [k|m]; cbn [emit_elem size_elem] in *.
    - apply scalar_size_len. exact Hlt.
    - pose proof (len_lenpfx_le (re m v)) as Hle.
      rewrite len_lenpfx by lia. rewrite Hg by lia. lia.
  Qed.

  Lemma entry_size_len num kk t (kv : val * val) :
    good (snd kv) -> len (emit_entry re num kk t kv) < two64 ->
    key_size 1 (kind_wt kk) + scalar_size kk (fst kv) + (key_size 2 (ftype_wt t) + size_elem rs t (snd kv))
      + key_size num WT_BYTES
      + Sov (key_size 1 (kind_wt kk) + scalar_size kk (fst kv) + (key_size 2 (ftype_wt t) + size_elem rs t (snd kv)))
    = len (emit_entry re num kk t kv).
  Proof.
    intros Hg Hlt. unfold emit_entry in *.
    set (inner := key_bytes 1 (kind_wt kk) ++ scalar_payload kk (fst kv) ++ key_bytes 2 (ftype_wt t) ++ emit_elem re t (snd kv)) in *.
    rewrite len_app in *. pose proof (len_lenpfx_le inner) as Hle.
    assert (Hin : len inner < two64) by lia.
    rewrite len_lenpfx in * by exact Hin.
    assert (E : key_size 1 (kind_wt kk) + scalar_size kk (fst kv) + (key_size 2 (ftype_wt t) + size_elem rs t (snd kv)) = len inner).
    { unfold inner in *. rewrite !len_app in *.
      rewrite !key_size_len, scalar_size_len, elem_size_len by (assumption || lia). lia. }
    rewrite E. rewrite key_size_len. lia.
  Qed.

  Lemma field_size_len f s :
    sub_good s -> len (emit_field det re f s) < two64 ->
    size_field rs f s = len (emit_field det re f s).
  Proof.
    intros [Hg Hs] Hlt. unfold emit_field, size_field in *.
    destruct (f_shape f) as [|packed|j|kk].
    - destruct (f_ty f) as [k|m].
      + destruct (present k s); [|reflexivity].
        rewrite len_app in *. rewrite key_size_len, scalar_size_len by lia. reflexivity.
      + assert (H : len (key_bytes (f_num f) WT_BYTES ++ lenpfx (re m s)) < two64 ->
                    key_size (f_num f) WT_BYTES + size_elem rs (TMsg m) s =
                    len (key_bytes (f_num f) WT_BYTES ++ lenpfx (re m s))).
        { intro H. rewrite len_app in *. rewrite key_size_len.
          rewrite (elem_size_len (TMsg m) s Hg) by (cbn [emit_elem]; lia). reflexivity. }
        destruct s; try reflexivity; apply H; exact Hlt.
    - destruct s as [| | | | | |? ?|l|]; try reflexivity.
      destruct l as [|e l]; [reflexivity|].
      destruct packed.
      + cbv zeta. rewrite len_app in *.
        pose proof (len_lenpfx_le (concat (map (emit_elem re (f_ty f)) (e :: l)))) as Hle.
        rewrite len_lenpfx by lia.
        rewrite (nsum_len_concat two64 (size_elem rs (f_ty f)) (emit_elem re (f_ty f)) (e :: l)).
        * rewrite key_size_len. lia.
        * eapply Forall_impl; [|exact Hs]. intros x Hx Hl. apply elem_size_len; assumption.
        * lia.
      + apply (nsum_len_concat two64); [|exact Hlt].
        eapply Forall_impl; [|exact Hs]. cbv beta. intros x Hx Hl.
        rewrite len_app in *. rewrite key_size_len, elem_size_len by (assumption || lia). reflexivity.
    - destruct s; try reflexivity.
      rewrite len_app in *. rewrite key_size_len, elem_size_len by (assumption || lia). reflexivity.
    - destruct s as [| | | | | |? ?| |kvs]; try reflexivity.
      cbv zeta in *.
      assert (E : len (concat (map snd
                   (if det
                    then isort (fun a b : val * list byte => key_ltb kk (fst a) (fst b))
                           (map (fun kv => (fst kv, emit_entry re (f_num f) kk (f_ty f) kv)) kvs)
                    else map (fun kv => (fst kv, emit_entry re (f_num f) kk (f_ty f) kv)) kvs)))
                = len (concat (map (emit_entry re (f_num f) kk (f_ty f)) kvs))).
      { rewrite len_concat_snd.
        assert (E0 : tot (map (fun kv => (fst kv, emit_entry re (f_num f) kk (f_ty f) kv)) kvs)
                     = len (concat (map (emit_entry re (f_num f) kk (f_ty f)) kvs))).
        { rewrite <- len_concat_snd, map_map. reflexivity. }
        destruct det; [rewrite tot_isort|]; exact E0. }
      rewrite E in *.
      apply (nsum_len_concat two64); [|exact Hlt].
      eapply Forall_impl; [|exact Hs]. cbv beta. intros kv Hkv Hl.
      apply entry_size_len; assumption.
  Qed.
End Field.

(* ------------------------------------------------------------------ whole messages *)
Lemma zipf_member_bound {B} n (g : field -> val -> B) fs ss :
  Forall (member_bound n) fs ->
  Forall (fun p => member_bound n (fst p)) (zipf (fun f s => (f, g f s)) fs ss).
Proof.
  revert fs. induction ss as [|s ss IH]; intros fs HF; destruct fs as [|f fs]; cbn [zipf]; try constructor.
  - inversion HF; subst. assumption.
  - apply IH. inversion HF; subst. assumption.
Qed.

Lemma wf_member_bound sch mid md :
  wf sch = true -> get_msg sch mid = Some md -> Forall (member_bound (m_oneofs md)) (m_fields md).
Proof.
  intros Hwf Hg. unfold wf in Hwf. rewrite forallb_forall in Hwf.
  unfold get_msg in Hg. apply nth_error_In in Hg. apply Hwf in Hg.
  unfold msg_wf in Hg. apply andb_true_iff in Hg. destruct Hg as [Hf _].
  rewrite forallb_forall in Hf. apply Forall_forall. intros f Hin. apply Hf in Hin.
  unfold field_wf in Hin. unfold member_bound.
  destruct (f_shape f); try exact I.
  apply andb_true_iff in Hin. destruct Hin as [_ Hj]. apply Nat.ltb_lt. exact Hj.
Qed.

Lemma zip_size_len det re rs slots :
  Forall (sub_good re rs) slots -> forall fs,
  tot (zipf (fun f s => (f, emit_field det re f s)) fs slots) < two64 ->
  nsum (zipf (fun f s => size_field rs f s) fs slots) =
  tot (zipf (fun f s => (f, emit_field det re f s)) fs slots).
Proof.
  intro HF. induction HF as [|s ss Hs Hss IH]; intros fs Hlt; destruct fs as [|f fs]; cbn [zipf] in *; try reflexivity.
  rewrite tot_cons in *. cbn [snd] in *. rewrite nsum_cons.
  rewrite (field_size_len det re rs f s Hs) by lia. rewrite IH by lia. reflexivity.
Qed.

Lemma all_sub_good sch det : wf sch = true -> forall v, sub_good (emit sch det) (msg_size sch) v.
Proof.
  intro Hwf. apply val_ind'.
  - intro z. split; [intros m _; reflexivity|exact I].
  - intro b. split; [intros m _; reflexivity|exact I].
  - intro n. split; [intros m _; reflexivity|exact I].
  - intro l. split; [intros m _; reflexivity|exact I].
  - split; [intros m _; reflexivity|exact I].
  - intros v IH. split; [intros m _; reflexivity|exact (proj1 IH)].
  - intros slots unk IH. split; [|exact I].
    intros mid Hlt. rewrite emit_unfold in *. rewrite msg_size_unfold.
    destruct (get_msg sch mid) as [md|] eqn:Eg; [|reflexivity].
    rewrite len_app in *.
    rewrite len_assemble in * by (apply zipf_member_bound; eapply wf_member_bound; eassumption).
    f_equal. apply zip_size_len; [exact IH|lia].
  - intros l IH. split; [intros m _; reflexivity|].
    eapply Forall_impl; [|exact IH]. intros a Ha. exact (proj1 Ha).
  - intros kvs IH. split; [intros m _; reflexivity|].
    eapply Forall_impl; [|exact IH]. intros a Ha. exact (proj1 (proj2 Ha)).
Qed.

Lemma size_eq_len sch det : wf sch = true -> forall v mid, N.of_nat (length (emit sch det mid v)) < two64 -> msg_size sch mid v = N.of_nat (length (emit sch det mid v)).
Proof.
  intros Hwf v mid Hlt. exact (proj1 (all_sub_good sch det Hwf v) mid Hlt).
Qed.

Lemma marshal_ok sch det mid v : wf sch = true -> N.of_nat (length (emit sch det mid v)) < two64 -> pulsar_marshal sch det mid v = Ok (emit sch det mid v).
Proof.
  intros Hwf Hlt. unfold pulsar_marshal. rewrite (size_eq_len sch det Hwf v mid Hlt).
  rewrite N.eqb_refl. reflexivity.
Qed.

Lemma marshal_never_panics sch det mid v : wf sch = true -> N.of_nat (length (emit sch det mid v)) < two64 -> pulsar_marshal sch det mid v <> Panic.
Proof. intros Hwf Hlt. rewrite marshal_ok by assumption. discriminate. Qed.

Lemma marshal_append_prefix sch det mid pre v : wf sch = true -> N.of_nat (length (emit sch det mid v)) < two64 ->
  pulsar_marshal_append sch det mid pre v = Ok (pre ++ emit sch det mid v).
Proof.
  intros Hwf Hlt. unfold pulsar_marshal_append. rewrite marshal_ok by assumption. reflexivity.
Qed.

(* ------------------------------------------------------------------ deterministic vs. not *)
Definition chunk_rel (p q : field * list byte) : Prop :=
  fst p = fst q /\ length (snd p) = length (snd q).

Lemma concat_rel l l' :
  Forall2 chunk_rel l l' -> length (concat (map snd l)) = length (concat (map snd l')).
Proof.
  intro H. induction H as [|p q l l' [_ Hpq] _ IH]; [reflexivity|].
  cbn [map concat]. rewrite !app_length, Hpq, IH. reflexivity.
Qed.

Lemma filter_rel (P : field -> bool) l l' :
  Forall2 chunk_rel l l' ->
  Forall2 chunk_rel (filter (fun p => P (fst p)) l) (filter (fun p => P (fst p)) l').
Proof.
  intro H. induction H as [|p q l l' Hpq _ IH]; [constructor|].
  cbn [filter]. destruct Hpq as [Hf Hl]. rewrite Hf.
  destruct (P (fst q)); [constructor; [split; assumption|exact IH]|exact IH].
Qed.

Lemma insert_rel (lt : field -> field -> bool) x x' l l' :
  chunk_rel x x' -> Forall2 chunk_rel l l' ->
  Forall2 chunk_rel (insert_sorted (fun a b => lt (fst a) (fst b)) x l)
                    (insert_sorted (fun a b => lt (fst a) (fst b)) x' l').
Proof.
  intros Hx H. induction H as [|p q l l' Hpq Hll IH]; cbn [insert_sorted].
  - constructor; [exact Hx|constructor].
  - destruct Hx as [Hxf Hxl]. destruct Hpq as [Hpf Hpl]. rewrite Hxf, Hpf.
    destruct (lt (fst q) (fst x')).
    + constructor; [split; assumption|]. apply IH.
    + constructor; [split; assumption|]. constructor; [split; assumption|exact Hll].
Qed.

Lemma isort_rel (lt : field -> field -> bool) l l' :
  Forall2 chunk_rel l l' ->
  Forall2 chunk_rel (isort (fun a b => lt (fst a) (fst b)) l) (isort (fun a b => lt (fst a) (fst b)) l').
Proof.
  intro H. induction H as [|p q l l' Hpq _ IH]; cbn [isort fold_right]; [constructor|].
  apply insert_rel; assumption.
Qed.

Lemma assemble_rel md per per' :
  Forall2 chunk_rel per per' -> length (assemble md per) = length (assemble md per').
Proof.
  intro H. unfold assemble. rewrite !app_length. f_equal.
  - apply concat_rel.
    apply (isort_rel (fun a b => f_num a <? f_num b)).
    apply (filter_rel (fun f => negb (is_member f))). exact H.
  - induction (seq 0 (m_oneofs md)) as [|i L IH]; [reflexivity|].
    cbn [map concat]. rewrite !app_length, IH. f_equal.
    apply concat_rel. apply (filter_rel (member_of i)). exact H.
Qed.

Lemma length_concat_isort {A} (ltb : A * list byte -> A * list byte -> bool) l :
  length (concat (map snd (isort ltb l))) = length (concat (map snd l)).
Proof.
  apply Nat2N.inj.
  change (len (concat (map snd (isort ltb l))) = len (concat (map snd l))).
  rewrite !len_concat_snd. apply tot_isort.
Qed.

Lemma concat_map_len {A} (g g' : A -> list byte) l :
  Forall (fun x => length (g x) = length (g' x)) l ->
  length (concat (map g l)) = length (concat (map g' l)).
Proof.
  intro H. induction H as [|x l Hx _ IH]; [reflexivity|].
  cbn [map concat]. rewrite !app_length, Hx, IH. reflexivity.
Qed.

Lemma lenpfx_len a b : length a = length b -> length (lenpfx a) = length (lenpfx b).
Proof. intro H. unfold lenpfx. rewrite !app_length, H. reflexivity. Qed.

Section Field2.
  Variable re re' : nat -> val -> list byte.

  Definition good2 (v : val) : Prop := forall m, length (re m v) = length (re' m v).
  Definition sub_good2 (v : val) : Prop :=
    good2 v /\
    match v with
    | VList l => Forall good2 l
    | VSome p => good2 p
    | VMap kvs => Forall (fun kv => good2 (snd kv)) kvs
    | _ => True
    end.

  Lemma elem_len2 t v : good2 v -> length (emit_elem re t v) = length (emit_elem re' t v).
  Proof.
    intro Hg. destruct t as [k|m]; cbn [emit_elem]; [reflexivity|]. apply lenpfx_len. apply Hg.
  Qed.

  Lemma entry_len2 num kk t kv :
    good2 (snd kv) -> length (emit_entry re num kk t kv) = length (emit_entry re' num kk t kv).
  Proof.
    intro Hg. unfold emit_entry. rewrite !app_length. f_equal. apply lenpfx_len.
    rewrite !app_length. rewrite (elem_len2 t (snd kv) Hg). reflexivity.
  Qed.

  Lemma field_len2 f s :
    sub_good2 s -> length (emit_field true re f s) = length (emit_field false re' f s).
  Proof.
    intros [Hg Hs]. unfold emit_field.
    destruct (f_shape f) as [|packed|j|kk].
    - destruct (f_ty f) as [k|m]; [reflexivity|].
      destruct s; try reflexivity; rewrite !app_length; f_equal; apply lenpfx_len; apply Hg.
    - destruct s as [| | | | | |? ?|l|]; try reflexivity.
      destruct l as [|e l]; [reflexivity|].
      destruct packed.
      + rewrite !app_length. f_equal. apply lenpfx_len. apply concat_map_len.
        eapply Forall_impl; [|exact Hs]. intros x Hx. apply elem_len2. exact Hx.
      + apply concat_map_len. eapply Forall_impl; [|exact Hs]. cbv beta. intros x Hx.
        rewrite !app_length. f_equal. apply elem_len2. exact Hx.
    - destruct s; try reflexivity. rewrite !app_length. f_equal. apply elem_len2. exact Hs.
    - destruct s as [| | | | | |? ?| |kvs]; try reflexivity.
      cbv zeta. rewrite length_concat_isort. rewrite !map_map. cbn [snd].
      apply concat_map_len. eapply Forall_impl; [|exact Hs]. cbv beta. intros kv Hkv.
      apply entry_len2. exact Hkv.
  Qed.

  Lemma zip_rel slots :
    Forall sub_good2 slots -> forall fs,
    Forall2 chunk_rel (zipf (fun f s => (f, emit_field true re f s)) fs slots)
                      (zipf (fun f s => (f, emit_field false re' f s)) fs slots).
  Proof.
    intro HF. induction HF as [|s ss Hs _ IH]; intro fs; destruct fs as [|f fs]; cbn [zipf]; try constructor.
    - split; [reflexivity|]. cbn [snd]. apply field_len2. exact Hs.
    - apply IH.
  Qed.
End Field2.

Lemma all_sub_good2 sch : forall v, sub_good2 (emit sch true) (emit sch false) v.
Proof.
  apply val_ind'.
  - intro z. split; [intro m; reflexivity|exact I].
  - intro b. split; [intro m; reflexivity|exact I].
  - intro n. split; [intro m; reflexivity|exact I].
  - intro l. split; [intro m; reflexivity|exact I].
  - split; [intro m; reflexivity|exact I].
  - intros v IH. split; [intro m; reflexivity|exact (proj1 IH)].
  - intros slots unk IH. split; [|exact I].
    intro mid. rewrite !emit_unfold.
    destruct (get_msg sch mid) as [md|]; [|reflexivity].
    rewrite !app_length. f_equal. apply assemble_rel. apply zip_rel. exact IH.
  - intros l IH. split; [intro m; reflexivity|].
    eapply Forall_impl; [|exact IH]. intros a Ha. exact (proj1 Ha).
  - intros kvs IH. split; [intro m; reflexivity|].
    eapply Forall_impl; [|exact IH]. intros a Ha. exact (proj1 (proj2 Ha)).
Qed.

Lemma emit_len_mode sch : forall v mid, length (emit sch true mid v) = length (emit sch false mid v).
Proof. intros v mid. exact (proj1 (all_sub_good2 sch v) mid). Qed.
