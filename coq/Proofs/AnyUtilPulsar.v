(* Proofs/AnyUtilPulsar.v — C16 end to end: the parametric anyutil model (Model/AnyUtil.v) instantiated
   with the faithful pulsar codec model (Codec.pulsar_marshal, Decode.pulsar_unmarshal) on schemas and
   values, the codec premises of Proofs/AnyUtilProofs.v discharged by the proved codec theorems:
     C04 marshal_exact (CodecSize.marshal_ok), C01 roundtrip_*_unknown (RoundTripUnk), C06 decode_never_panics /
     decode_terminates (DecodeTotal), C03 decode_eq_ref (RefDecodeEq).
   Part 1 restates the parametric laws POINTWISE (the premise about the codec is needed only at the
   message / at the registered descriptors in question), because the codec theorems hold for well-typed
   bounded values and for message indexes of the schema, not for every inhabitant of the carrier types.
   Part 2 is the instance.  A message is (index in the schema, value); a descriptor is the index; options
   are the Deterministic flag; [names] gives each message type its full name.  The decoder behind a
   dynamicpb message (files route) is a section variable [dynu]; the closed statements take it to be
   the pulsar decoder itself or the reference decoder RefDecode.ref_unmarshal (protobuf-go's generic path). *)
From Coq Require Import Lia.
From CP Require Import Extra UnkOk RoundTrip RoundTripUnk CodecSize DecodeTotal RefDecode RefDecodeEq.
From CP Require Import AnyUtil AnyUtilProofs.
Local Open Scope N_scope.

(* tag a decoder outcome with the implementation flag *)
Definition wrap_out {A} (flag : bool) (o : outcome A) : outcome (bool * A) :=
  match o with Ok m => Ok (flag, m) | Err => Err | Panic => Panic | OutOfFuel => OutOfFuel end.

(* ---- Part 1: pointwise forms of the parametric laws ------------------------------------------- *)
Section LawsAt.
  Variable msg desc : Type.
  Variable dname : desc -> str.
  Variable unmarshal : bool -> desc -> list byte -> outcome msg.

  Notation unpack := (unpack msg desc dname unmarshal).
  Notation resolve := (resolve desc).

  (* Unpack of an Any whose URL is "/name" or "name": through the type registry it is the registry
     type's decoder on the value, whatever the value *)
  Lemma Unpack_named_types gt gf fr tr n d u b :
    valid_name n -> dname d = n -> u = n \/ u = slash :: n ->
    lookup desc (resolve tr gt) n = Some (EMessage d) ->
    unpack gt gf (Some {| type_url := u; value := b |}) fr tr = wrap_out false (unmarshal false d b).
  Proof.
    intros Hv Hd Hu Hl. unfold AnyUtil.unpack, unpack_gen, find_message_by_url. cbv zeta. cbn [type_url].
    assert (Ha : after_last_slash u = n) by (destruct Hu as [-> | ->]; [apply after_last_slash_valid | apply after_last_slash_packed]; exact Hv).
    rewrite Ha, Hl. unfold unmarshal_to. cbn [type_url value]. rewrite Hd.
    assert (Hm : message_is u n = true) by (destruct Hu as [-> | ->]; [apply message_is_self | apply message_is_packed]).
    rewrite Hm. destruct (unmarshal false d b); reflexivity.
  Qed.

  (* ... and through the file registry, when the type registry lacks the name, the dynamic decoder *)
  Lemma Unpack_named_files gt gf fr tr n d u b :
    valid_name n -> dname d = n -> u = n \/ u = slash :: n ->
    lookup desc (resolve tr gt) n = None ->
    lookup desc (resolve fr gf) n = Some (EMessage d) ->
    unpack gt gf (Some {| type_url := u; value := b |}) fr tr = wrap_out true (unmarshal true d b).
  Proof.
    intros Hv Hd Hu Ht Hf. unfold AnyUtil.unpack, unpack_gen, find_message_by_url. cbv zeta. cbn [type_url].
    assert (Ha : after_last_slash u = n) by (destruct Hu as [-> | ->]; [apply after_last_slash_valid | apply after_last_slash_packed]; exact Hv).
    assert (Hp : trim_prefix_slash u = n) by (destruct Hu as [-> | ->]; [apply trim_prefix_slash_valid; exact Hv | reflexivity]).
    rewrite Ha, Ht, Hp, Hf. unfold unmarshal_to. cbn [type_url value]. rewrite Hd.
    assert (Hm : message_is u n = true) by (destruct Hu as [-> | ->]; [apply message_is_self | apply message_is_packed]).
    rewrite Hm. destruct (unmarshal true d b); reflexivity.
  Qed.

  (* Unpack yields an outcome that the decoders of the REGISTERED descriptors yield on the Any's value,
     or Ok-free Err: so any class of outcomes those decoders avoid (Panic, OutOfFuel), Unpack avoids *)
  Lemma Unpack_avoids (bad : forall A, outcome A -> Prop) gt gf a fr tr :
    (forall A B (f : A -> B) o, bad B (match o with Ok m => Ok (f m) | Err => Err | Panic => Panic | OutOfFuel => OutOfFuel end) -> bad A o) ->
    ~ bad (bool * msg)%type Err ->
    (forall a' n d, a = Some a' -> lookup desc (resolve tr gt) n = Some (EMessage d) -> ~ bad msg (unmarshal false d (value a'))) ->
    (forall a' n d, a = Some a' -> lookup desc (resolve fr gf) n = Some (EMessage d) -> ~ bad msg (unmarshal true d (value a'))) ->
    ~ bad (bool * msg)%type (unpack gt gf a fr tr).
  Proof.
    intros Hmap Herr Ht Hf. unfold AnyUtil.unpack, unpack_gen. destruct a as [a|]; [|exact Herr].
    unfold find_message_by_url. cbv zeta.
    destruct (lookup desc (resolve tr gt) _) as [[d| | |]|] eqn:E1; try exact Herr.
    - unfold unmarshal_to. destruct (message_is _ _); [|exact Herr].
      intro Hb. apply (Ht a _ d eq_refl E1). apply (Hmap _ _ (pair false)). exact Hb.
    - destruct (lookup desc (resolve fr gf) _) as [[d| | |]|] eqn:E2; try exact Herr.
      unfold unmarshal_to. destruct (message_is _ _); [|exact Herr].
      intro Hb. apply (Hf a _ d eq_refl E2). apply (Hmap _ _ (pair true)). exact Hb.
  Qed.

  Lemma Unpack_total_on gt gf a fr tr :
    (forall n d b, lookup desc (resolve tr gt) n = Some (EMessage d) -> unmarshal false d b <> Panic) ->
    (forall n d b, lookup desc (resolve fr gf) n = Some (EMessage d) -> unmarshal true d b <> Panic) ->
    unpack gt gf a fr tr <> Panic.
  Proof.
    intros Ht Hf. apply (Unpack_avoids (fun A o => o = Panic)).
    - intros A B f o. destruct o; intro H; try discriminate H; reflexivity.
    - discriminate.
    - intros a' n d _ Hl. exact (Ht n d _ Hl).
    - intros a' n d _ Hl. exact (Hf n d _ Hl).
  Qed.

  Lemma Unpack_fuel_on gt gf a fr tr :
    (forall a' n d, a = Some a' -> lookup desc (resolve tr gt) n = Some (EMessage d) -> unmarshal false d (value a') <> OutOfFuel) ->
    (forall a' n d, a = Some a' -> lookup desc (resolve fr gf) n = Some (EMessage d) -> unmarshal true d (value a') <> OutOfFuel) ->
    unpack gt gf a fr tr <> OutOfFuel.
  Proof.
    intros Ht Hf. apply (Unpack_avoids (fun A o => o = OutOfFuel)).
    - intros A B f o. destruct o; intro H; try discriminate H; reflexivity.
    - discriminate.
    - exact Ht.
    - exact Hf.
  Qed.
End LawsAt.

(* ---- Part 2: the pulsar instance ----------------------------------------------------------- *)
Definition pmsg : Type := (nat * val)%type.                  (* message index in the schema, value *)

Definition tag_out (d : nat) (o : outcome val) : outcome pmsg :=
  match o with Ok v => Ok (d, v) | Err => Err | Panic => Panic | OutOfFuel => OutOfFuel end.

(* opts.Marshal on a generated message *)
Definition p_marshal (sch : schema) (det : bool) (m : pmsg) : outcome (list byte) :=
  pulsar_marshal sch det (fst m) (snd m).
(* proto.Unmarshal into typ.New(): the generated type decodes with the pulsar loop, a dynamicpb message with [dynu] *)
Definition p_unmarshal (sch : schema) (dynu : nat -> list byte -> outcome val) (dyn : bool) (d : nat) (b : list byte) : outcome pmsg :=
  tag_out d (if dyn then dynu d b else pulsar_unmarshal sch false d VNil b).

Definition p_pack (sch : schema) (names : nat -> str) : bool -> pmsg -> outcome any :=
  pack pmsg nat bool names fst (p_marshal sch).
Definition p_marshal_from (sch : schema) (names : nat -> str) : option any -> option pmsg -> bool -> outcome unit * option any :=
  marshal_from pmsg nat bool names fst (p_marshal sch).
Definition p_unpack (sch : schema) (names : nat -> str) (dynu : nat -> list byte -> outcome val)
  : registry nat -> registry nat -> option any -> option (registry nat) -> option (registry nat) -> outcome (bool * pmsg) :=
  unpack pmsg nat names (p_unmarshal sch dynu).

(* the two closed choices for the decoder behind dynamicpb *)
Definition dyn_pulsar (sch : schema) : nat -> list byte -> outcome val := fun d b => pulsar_unmarshal sch false d VNil b.
Definition dyn_ref (sch : schema) : nat -> list byte -> outcome val := fun d b => ref_unmarshal sch false false d VNil b.

(* every message entry of a registry is a message type of the schema *)
Definition reg_in_schema (sch : schema) (r : registry nat) : Prop :=
  forall n d, lookup nat r n = Some (EMessage d) -> (d < length sch)%nat.

(* what C01 says of the decoded value: exactly norm v after a non-deterministic marshal, norm v up to
   map order after a deterministic one *)
Definition rt_result (sch : schema) (det : bool) (mid : nat) (v r : val) : Prop :=
  if det then canon r = canon (norm sch mid v) else r = norm sch mid v.

Section Pulsar.
  Variable sch : schema.
  Variable names : nat -> str.
  Hypothesis Hwf : wf sch = true.

  (* the premises of C01 for one value *)
  Definition rt_ok (det : bool) (mid : nat) (v : val) : Prop :=
    wt_msg sch mid v = true /\ unknowns_okb sch mid v = true /\
    N.of_nat (val_depth v) < 9999 /\ N.of_nat (length (emit sch det mid v)) < two63.

  Lemma two63_lt_two64 n : n < two63 -> n < two64.
  Proof. unfold two63, two64. lia. Qed.

  (* C04: packing succeeds on EVERY value (well-typed or not) whose encoding fits in memory *)
  Lemma P_pack det mid v : N.of_nat (length (emit sch det mid v)) < two64 ->
    p_pack sch names det (mid, v) = Ok {| type_url := slash :: names mid; value := emit sch det mid v |}.
  Proof.
    intro Hl. apply (Pack_spec pmsg nat bool names fst (p_marshal sch)). exists (emit sch det mid v). split; [|reflexivity].
    unfold p_marshal. cbn [fst snd]. apply marshal_ok; assumption.
  Qed.

  Lemma P_pack_inv det mid v a : N.of_nat (length (emit sch det mid v)) < two64 ->
    p_pack sch names det (mid, v) = Ok a -> a = {| type_url := slash :: names mid; value := emit sch det mid v |}.
  Proof. intros Hl Hp. rewrite (P_pack det mid v Hl) in Hp. inversion Hp. reflexivity. Qed.

  (* C04 again: MarshalFrom never fails on such a value, so the "failed pack" clause is about nil sources only *)
  Lemma P_marshal_from_ok a0 det mid v : N.of_nat (length (emit sch det mid v)) < two64 ->
    p_marshal_from sch names (Some a0) (Some (mid, v)) det =
    (Ok tt, Some {| type_url := slash :: names mid; value := emit sch det mid v |}).
  Proof.
    intro Hl. unfold p_marshal_from. rewrite Marshal_from_pack.
    pose proof (P_pack det mid v Hl) as E. unfold p_pack, pmsg in E. rewrite E. reflexivity.
  Qed.

  (* C01 in one statement for both modes *)
  Lemma P_codec_rt det mid v : rt_ok det mid v ->
    exists r, pulsar_unmarshal sch false mid VNil (emit sch det mid v) = Ok r /\ rt_result sch det mid v r.
  Proof.
    intros (Hwt & Hunk & Hd & Hl). destruct det.
    - exact (roundtrip_det_unk sch Hwf v mid Hwt Hunk Hd Hl).
    - exists (norm sch mid v). split; [|reflexivity]. exact (roundtrip_nondet_unk sch Hwf v mid Hwt Hunk Hd Hl).
  Qed.

  (* through the type registry: the generated type, holding norm v *)
  Lemma P_unpack_pack_types dynu gt gf fr tr det mid v a :
    rt_ok det mid v -> valid_name (names mid) ->
    p_pack sch names det (mid, v) = Ok a ->
    lookup nat (resolve nat tr gt) (names mid) = Some (EMessage mid) ->
    exists r, p_unpack sch names dynu gt gf (Some a) fr tr = Ok (false, (mid, r)) /\ rt_result sch det mid v r.
  Proof.
    intros Hok Hv Hp Hl. pose proof Hok as (_ & _ & _ & Hlen).
    rewrite (P_pack_inv det mid v a (two63_lt_two64 _ Hlen) Hp).
    destruct (P_codec_rt det mid v Hok) as [r [Hu Hr]]. exists r. split; [|exact Hr].
    unfold p_unpack. rewrite (Unpack_named_types pmsg nat names _ gt gf fr tr (names mid) mid); auto.
    unfold p_unmarshal. rewrite Hu. reflexivity.
  Qed.

  (* through the file registry, the dynamic message being decoded by the pulsar loop *)
  Lemma P_unpack_pack_files gt gf fr tr det mid v a :
    rt_ok det mid v -> valid_name (names mid) ->
    p_pack sch names det (mid, v) = Ok a ->
    lookup nat (resolve nat tr gt) (names mid) = None ->
    lookup nat (resolve nat fr gf) (names mid) = Some (EMessage mid) ->
    exists r, p_unpack sch names (dyn_pulsar sch) gt gf (Some a) fr tr = Ok (true, (mid, r)) /\ rt_result sch det mid v r.
  Proof.
    intros Hok Hv Hp Ht Hf. pose proof Hok as (_ & _ & _ & Hlen).
    rewrite (P_pack_inv det mid v a (two63_lt_two64 _ Hlen) Hp).
    destruct (P_codec_rt det mid v Hok) as [r [Hu Hr]]. exists r. split; [|exact Hr].
    unfold p_unpack. rewrite (Unpack_named_files pmsg nat names _ gt gf fr tr (names mid) mid); auto.
    unfold p_unmarshal, dyn_pulsar. rewrite Hu. reflexivity.
  Qed.

  (* through the file registry, the dynamic message being decoded by the REFERENCE decoder: whenever the
     reference accepts the packed bytes as a well-typed stream, it returns the same value (C03 + C01) *)
  Lemma P_unpack_pack_files_ref gt gf fr tr det mid v a r0 :
    rt_ok det mid v -> valid_name (names mid) ->
    p_pack sch names det (mid, v) = Ok a ->
    lookup nat (resolve nat tr gt) (names mid) = None ->
    lookup nat (resolve nat fr gf) (names mid) = Some (EMessage mid) ->
    ref_unmarshal sch false true mid VNil (emit sch det mid v) = Ok r0 ->
    p_unpack sch names (dyn_ref sch) gt gf (Some a) fr tr = Ok (true, (mid, r0)) /\ rt_result sch det mid v r0.
  Proof.
    intros Hok Hv Hp Ht Hf Href. pose proof Hok as (_ & _ & _ & Hlen).
    rewrite (P_pack_inv det mid v a (two63_lt_two64 _ Hlen) Hp).
    destruct (P_codec_rt det mid v Hok) as [r [Hu Hr]].
    assert (HlenZ : (Z.of_nat (length (emit sch det mid v)) < Z.of_N two63)%Z) by lia.
    pose proof (decode_eq_ref sch false Hwf mid VNil _ r0 HlenZ Href) as Hpu.
    rewrite Hu in Hpu. inversion Hpu; subst r0. split; [|exact Hr].
    unfold p_unpack. rewrite (Unpack_named_files pmsg nat names _ gt gf fr tr (names mid) mid); auto.
    unfold p_unmarshal, dyn_ref. rewrite (strict_implies_lax _ _ _ _ _ _ Href). reflexivity.
  Qed.

  (* both routes on what was packed *)
  Lemma P_paths_agree gt gf fr tr tr' det mid v a :
    rt_ok det mid v -> valid_name (names mid) ->
    p_pack sch names det (mid, v) = Ok a ->
    lookup nat (resolve nat tr gt) (names mid) = Some (EMessage mid) ->
    lookup nat (resolve nat tr' gt) (names mid) = None ->
    lookup nat (resolve nat fr gf) (names mid) = Some (EMessage mid) ->
    exists r, p_unpack sch names (dyn_pulsar sch) gt gf (Some a) fr tr = Ok (false, (mid, r)) /\
              p_unpack sch names (dyn_pulsar sch) gt gf (Some a) fr tr' = Ok (true, (mid, r)) /\ rt_result sch det mid v r.
  Proof.
    intros Hok Hv Hp H1 H2 H3.
    destruct (P_unpack_pack_types (dyn_pulsar sch) gt gf fr tr det mid v a Hok Hv Hp H1) as [r [E1 R1]].
    destruct (P_unpack_pack_files gt gf fr tr' det mid v a Hok Hv Hp H2 H3) as [r' [E2 R2]].
    exists r. split; [exact E1|]. split; [|exact R1].
    (* the same decoder on the same bytes *)
    pose proof Hok as (_ & _ & _ & Hlen).
    rewrite (P_pack_inv det mid v a (two63_lt_two64 _ Hlen) Hp) in *.
    unfold p_unpack in *.
    rewrite (Unpack_named_types pmsg nat names _ gt gf fr tr (names mid) mid) in E1; auto.
    rewrite (Unpack_named_files pmsg nat names _ gt gf fr tr' (names mid) mid) in E2; auto.
    rewrite (Unpack_named_files pmsg nat names _ gt gf fr tr' (names mid) mid); auto.
    unfold p_unmarshal, dyn_pulsar in *.
    destruct (pulsar_unmarshal sch false mid VNil (emit sch det mid v)); cbn in *; try discriminate.
    inversion E1; subst. reflexivity.
  Qed.

  (* both routes on ANY value bytes that the reference accepts as a well-typed stream for the named
     message (C03): the generated type (pulsar loop) and the dynamic message (reference decoder) hold
     the same value, under "name" and "/name" *)
  Lemma P_paths_agree_any gt gf fr tr tr' mid u b r :
    valid_name (names mid) -> u = names mid \/ u = slash :: names mid ->
    (Z.of_nat (length b) < Z.of_N two63)%Z ->
    ref_unmarshal sch false true mid VNil b = Ok r ->
    lookup nat (resolve nat tr gt) (names mid) = Some (EMessage mid) ->
    lookup nat (resolve nat tr' gt) (names mid) = None ->
    lookup nat (resolve nat fr gf) (names mid) = Some (EMessage mid) ->
    p_unpack sch names (dyn_ref sch) gt gf (Some {| type_url := u; value := b |}) fr tr = Ok (false, (mid, r)) /\
    p_unpack sch names (dyn_ref sch) gt gf (Some {| type_url := u; value := b |}) fr tr' = Ok (true, (mid, r)).
  Proof.
    intros Hv Hu Hl Href H1 H2 H3. unfold p_unpack. split.
    - rewrite (Unpack_named_types pmsg nat names _ gt gf fr tr (names mid) mid); auto.
      unfold p_unmarshal. rewrite (decode_eq_ref sch false Hwf mid VNil b r Hl Href). reflexivity.
    - rewrite (Unpack_named_files pmsg nat names _ gt gf fr tr' (names mid) mid); auto.
      unfold p_unmarshal, dyn_ref. rewrite (strict_implies_lax _ _ _ _ _ _ Href). reflexivity.
  Qed.

  (* C06: no Any, no URL, no value bytes, no resolver configuration makes Unpack panic, provided the
     registries name message types of the schema and the dynamic decoder does not panic on those *)
  Lemma P_unpack_total dynu gt gf a fr tr :
    reg_in_schema sch (resolve nat tr gt) -> reg_in_schema sch (resolve nat fr gf) ->
    (forall d b, (d < length sch)%nat -> dynu d b <> Panic) ->
    p_unpack sch names dynu gt gf a fr tr <> Panic.
  Proof.
    intros Rt Rf Hd. unfold p_unpack. apply Unpack_total_on.
    - intros n d b Hl. unfold p_unmarshal.
      pose proof (unmarshal_no_panic sch false Hwf d VNil b (Rt n d Hl)) as Hn.
      destruct (pulsar_unmarshal sch false d VNil b); cbn; try discriminate. congruence.
    - intros n d b Hl. unfold p_unmarshal. pose proof (Hd d b (Rf n d Hl)) as Hn.
      destruct (dynu d b); cbn; try discriminate. congruence.
  Qed.

  Lemma P_unpack_total_pulsar gt gf a fr tr :
    reg_in_schema sch (resolve nat tr gt) -> reg_in_schema sch (resolve nat fr gf) ->
    p_unpack sch names (dyn_pulsar sch) gt gf a fr tr <> Panic.
  Proof.
    intros Rt Rf. apply P_unpack_total; auto. intros d b Hd. exact (unmarshal_no_panic sch false Hwf d VNil b Hd).
  Qed.

  (* with C06 decode_terminates: on a value shorter than 2^63 bytes the model's fuel never runs out either,
     so Unpack returns a message or an error *)
  Lemma P_unpack_returns gt gf a fr tr :
    reg_in_schema sch (resolve nat tr gt) -> reg_in_schema sch (resolve nat fr gf) ->
    (forall a', a = Some a' -> (Z.of_nat (length (value a')) < Z.of_N two63)%Z) ->
    (exists im, p_unpack sch names (dyn_pulsar sch) gt gf a fr tr = Ok im) \/
    p_unpack sch names (dyn_pulsar sch) gt gf a fr tr = Err.
  Proof.
    intros Rt Rf Hl.
    pose proof (P_unpack_total_pulsar gt gf a fr tr Rt Rf) as Hp.
    assert (Hf : p_unpack sch names (dyn_pulsar sch) gt gf a fr tr <> OutOfFuel).
    { unfold p_unpack. apply Unpack_fuel_on.
      - intros a' n d Ha _. unfold p_unmarshal.
        pose proof (unmarshal_fuel_enough sch false d VNil (value a') (Hl a' Ha)) as Hn.
        destruct (pulsar_unmarshal sch false d VNil (value a')); cbn; try discriminate. congruence.
      - intros a' n d Ha _. unfold p_unmarshal, dyn_pulsar.
        pose proof (unmarshal_fuel_enough sch false d VNil (value a') (Hl a' Ha)) as Hn.
        destruct (pulsar_unmarshal sch false d VNil (value a')); cbn; try discriminate. congruence. }
    destruct (p_unpack sch names (dyn_pulsar sch) gt gf a fr tr) as [im| | |]; [left; eauto|right; reflexivity|congruence|congruence].
  Qed.
End Pulsar.

(* ---- the same statements with the premises of C01 written out (as cited by Properties/C16.v) ---- *)
Lemma Pulsar_unpack_pack_types sch names : wf sch = true ->
  forall dynu gt gf fr tr det mid v a,
  wt_msg sch mid v = true -> unknowns_okb sch mid v = true ->
  N.of_nat (val_depth v) < 9999 -> N.of_nat (length (emit sch det mid v)) < two63 ->
  valid_name (names mid) ->
  p_pack sch names det (mid, v) = Ok a ->
  lookup nat (resolve nat tr gt) (names mid) = Some (EMessage mid) ->
  exists r, p_unpack sch names dynu gt gf (Some a) fr tr = Ok (false, (mid, r)) /\ rt_result sch det mid v r.
Proof. intros Hwf dynu gt gf fr tr det mid v a H1 H2 H3 H4. apply P_unpack_pack_types; [exact Hwf|]. repeat split; assumption. Qed.

Lemma Pulsar_unpack_pack_files sch names : wf sch = true ->
  forall gt gf fr tr det mid v a,
  wt_msg sch mid v = true -> unknowns_okb sch mid v = true ->
  N.of_nat (val_depth v) < 9999 -> N.of_nat (length (emit sch det mid v)) < two63 ->
  valid_name (names mid) ->
  p_pack sch names det (mid, v) = Ok a ->
  lookup nat (resolve nat tr gt) (names mid) = None ->
  lookup nat (resolve nat fr gf) (names mid) = Some (EMessage mid) ->
  exists r, p_unpack sch names (dyn_pulsar sch) gt gf (Some a) fr tr = Ok (true, (mid, r)) /\ rt_result sch det mid v r.
Proof. intros Hwf gt gf fr tr det mid v a H1 H2 H3 H4. apply P_unpack_pack_files; [exact Hwf|]. repeat split; assumption. Qed.

Lemma Pulsar_unpack_pack_files_ref sch names : wf sch = true ->
  forall gt gf fr tr det mid v a r0,
  wt_msg sch mid v = true -> unknowns_okb sch mid v = true ->
  N.of_nat (val_depth v) < 9999 -> N.of_nat (length (emit sch det mid v)) < two63 ->
  valid_name (names mid) ->
  p_pack sch names det (mid, v) = Ok a ->
  lookup nat (resolve nat tr gt) (names mid) = None ->
  lookup nat (resolve nat fr gf) (names mid) = Some (EMessage mid) ->
  ref_unmarshal sch false true mid VNil (emit sch det mid v) = Ok r0 ->
  p_unpack sch names (dyn_ref sch) gt gf (Some a) fr tr = Ok (true, (mid, r0)) /\ rt_result sch det mid v r0.
Proof. intros Hwf gt gf fr tr det mid v a r0 H1 H2 H3 H4. apply P_unpack_pack_files_ref; [exact Hwf|]. repeat split; assumption. Qed.

Lemma Pulsar_paths_agree sch names : wf sch = true ->
  forall gt gf fr tr tr' det mid v a,
  wt_msg sch mid v = true -> unknowns_okb sch mid v = true ->
  N.of_nat (val_depth v) < 9999 -> N.of_nat (length (emit sch det mid v)) < two63 ->
  valid_name (names mid) ->
  p_pack sch names det (mid, v) = Ok a ->
  lookup nat (resolve nat tr gt) (names mid) = Some (EMessage mid) ->
  lookup nat (resolve nat tr' gt) (names mid) = None ->
  lookup nat (resolve nat fr gf) (names mid) = Some (EMessage mid) ->
  exists r, p_unpack sch names (dyn_pulsar sch) gt gf (Some a) fr tr = Ok (false, (mid, r)) /\
            p_unpack sch names (dyn_pulsar sch) gt gf (Some a) fr tr' = Ok (true, (mid, r)) /\ rt_result sch det mid v r.
Proof. intros Hwf gt gf fr tr tr' det mid v a H1 H2 H3 H4. apply P_paths_agree; [exact Hwf|]. repeat split; assumption. Qed.
