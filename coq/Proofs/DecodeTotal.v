(* Proofs/DecodeTotal.v — C06: the decoder model is total: never Panic, fuel always suffices, the
   recursion budget is enforced, accepted messages are well typed. *)
From CP Require Import Extra BytesLemmas RuntimeProofs ValInd.
From Coq Require Import Lia ZifyN ZifyNat ZifyBool Permutation.
Local Open Scope N_scope.

(* ------------------------------------------------------------------ progress of the primitives *)
Lemma dec_varint_shorter bs w m rest :
  dec_varint bs = Some (w, m, rest) -> (length rest < length bs)%nat.
Proof.
  intro H. apply dec_varint_consumes in H. destruct H as (pre & -> & _ & Hl).
  rewrite app_length. lia.
Qed.

Lemma take_fixed_shorter n rest v r :
  (0 < n)%nat -> take_fixed n rest = Some (v, r) -> (length r < length rest)%nat.
Proof.
  intros Hn. unfold take_fixed. destruct (Nat.ltb_spec (length rest) n) as [|Hge]; [discriminate|].
  intro E. injection E as _ <-. rewrite skipn_length. lia.
Qed.

Lemma take_len_shorter rest p r :
  take_len rest = Some (p, r) -> (length p + length r < length rest)%nat.
Proof.
  unfold take_len. destruct (dec_varint rest) as [[[raw n] rest1]|] eqn:Ed; [|discriminate].
  apply dec_varint_shorter in Ed.
  destruct (s64 raw <? 0)%Z; [discriminate|].
  destruct (Z.of_nat (length rest1) <? s64 raw)%Z; [discriminate|].
  intro E. injection E as <- <-.
  rewrite <- app_length, firstn_skipn. exact Ed.
Qed.

Lemma dec_scalar_shorter k rest v r :
  dec_scalar k rest = Some (v, r) -> (length r < length rest)%nat.
Proof.
  unfold dec_scalar.
  destruct k;
    try (destruct (take_fixed 8 rest) as [[n0 r0]|] eqn:E; [|discriminate];
         intro H; injection H as _ <-; eapply take_fixed_shorter; [|exact E]; lia);
    try (destruct (take_fixed 4 rest) as [[n0 r0]|] eqn:E; [|discriminate];
         intro H; injection H as _ <-; eapply take_fixed_shorter; [|exact E]; lia);
    try (destruct (dec_varint rest) as [[[raw n0] r0]|] eqn:E; [|discriminate];
         intro H; injection H as _ <-; eapply dec_varint_shorter; exact E);
    try (destruct (take_len rest) as [[p0 r0]|] eqn:E; [|discriminate];
         intro H; injection H as _ <-; apply take_len_shorter in E; lia).
Qed.

Lemma zskipn_shorter {A} k (l : list A) :
  (1 <= k)%Z -> l <> [] -> (length (zskipn k l) < length l)%nat.
Proof.
  intros Hk Hne. unfold zskipn.
  destruct (Z.leb_spec k 0); [lia|].
  destruct (Z.leb_spec (Z.of_nat (length l)) k).
  - destruct l; [congruence|]. cbn. lia.
  - rewrite skipn_length. lia.
Qed.

Lemma Skip_progress bs n :
  (Z.of_nat (length bs) < Z.of_N two63)%Z -> Skip bs = Ok n -> (1 <= n)%Z.
Proof.
  intros Hl H. unfold Skip in H.
  apply skip_loop_progress in H; [|apply Z.le_refl|intros _; exact Hl]. lia.
Qed.

(* ------------------------------------------------------------------ where bad outcomes come from *)
Definition bado {A} (b : bool) : outcome A := if b then Panic else OutOfFuel.

Ltac nobad := let H := fresh in intro H; match type of H with _ = bado ?b => destruct b; discriminate H end.

Lemma dec_item_bad child t tg rest b :
  dec_item child t tg rest = bado b ->
  exists m p, t = TMsg m /\ (length p < length rest)%nat /\ child m tg p = bado b.
Proof.
  unfold dec_item. destruct t as [k|m].
  - destruct (dec_scalar k rest) as [[v r]|]; nobad.
  - destruct (take_len rest) as [[p r]|] eqn:E; [|nobad].
    apply take_len_shorter in E.
    destruct (child m tg p) eqn:Ec; try nobad; intro H; exists m, p;
      (split; [reflexivity|split; [lia|]]); rewrite Ec; destruct b; try discriminate H; reflexivity.
Qed.

Lemma packed_loop_bad fuel kd k acc rest b :
  packed_loop fuel kd k acc rest = bado b -> b = false /\ ~ (length rest < fuel)%nat.
Proof.
  revert k acc rest. induction fuel as [|f IH]; intros k acc rest; cbn [packed_loop].
  - intro H. destruct b; [discriminate H|]. split; [reflexivity|lia].
  - destruct (k <=? 0)%Z; [nobad|].
    destruct (dec_scalar kd rest) as [[v r]|] eqn:E; [|nobad].
    apply dec_scalar_shorter in E. intro H. apply IH in H. destruct H as [-> Hn].
    split; [reflexivity|]. lia.
Qed.

Definition roomy (fuel : nat) (rest : list byte) : Prop :=
  (length rest < fuel)%nat /\ (Z.of_nat (length rest) < Z.of_N two63)%Z.

Lemma entry_loop_bad child fuel kk t k key value rest b :
  entry_loop child fuel kk t k key value rest = bado b ->
  (b = false /\ ~ roomy fuel rest) \/
  exists m tg p, t = TMsg m /\ (length p < length rest)%nat /\ child m tg p = bado b.
Proof.
  revert k key value rest. induction fuel as [|f IH]; intros k key value rest; cbn [entry_loop].
  - intro H. destruct b; [discriminate H|]. left. split; [reflexivity|]. unfold roomy. lia.
  - destruct (k <=? 0)%Z; [nobad|].
    destruct (dec_varint rest) as [[[raw n] rest1]|] eqn:Ed; [|nobad].
    assert (Hne : rest <> []) by (intro; subst rest; discriminate Ed).
    apply dec_varint_shorter in Ed.
    destruct (s32 (u64 raw / 8) =? 1)%Z.
    { destruct (dec_scalar kk rest1) as [[v r]|] eqn:Es; [|nobad].
      apply dec_scalar_shorter in Es.
      destruct (k - (Z.of_nat (length rest) - Z.of_nat (length r)) <? 0)%Z; [nobad|].
      intro H. apply IH in H.
      destruct H as [[-> Hn]|(m & tg & p & -> & Hl & Hc)].
      - left. split; [reflexivity|]. unfold roomy in *. lia.
      - right. exists m, tg, p. split; [reflexivity|]. split; [lia|exact Hc]. }
    destruct (s32 (u64 raw / 8) =? 2)%Z.
    { destruct t as [kd|m0].
      - destruct (dec_scalar kd rest1) as [[v r]|] eqn:Es; [|nobad].
        apply dec_scalar_shorter in Es.
        destruct (k - (Z.of_nat (length rest) - Z.of_nat (length r)) <? 0)%Z; [nobad|].
        intro H. apply IH in H.
        destruct H as [[-> Hn]|(m & tg & p & Ht & Hl & Hc)]; [|discriminate Ht].
        left. split; [reflexivity|]. unfold roomy in *. lia.
      - destruct (take_len rest1) as [[p0 r]|] eqn:Et; [|nobad].
        apply take_len_shorter in Et.
        destruct (k - (Z.of_nat (length rest) - Z.of_nat (length r)) <? 0)%Z; [nobad|].
        destruct (child m0 value p0) as [v| | |] eqn:Ec; try nobad; intro H.
        + apply IH in H.
          destruct H as [[-> Hn]|(m & tg & p & Ht & Hl & Hc)].
          * left. split; [reflexivity|]. unfold roomy in *. lia.
          * right. exists m, tg, p. split; [exact Ht|]. split; [lia|exact Hc].
        + assert (Hb : b = true) by (destruct b; [reflexivity|discriminate H]). subst b.
          right. exists m0, value, p0. split; [reflexivity|]. split; [lia|exact Ec].
        + assert (Hb : b = false) by (destruct b; [discriminate H|reflexivity]). subst b.
          right. exists m0, value, p0. split; [reflexivity|]. split; [lia|exact Ec]. }
    destruct (Skip rest) as [skippy| | |] eqn:Esk; try nobad.
    destruct (k <? skippy)%Z; [nobad|].
    intro H. apply IH in H.
    destruct H as [[-> Hn]|(m & tg & p & -> & Hl & Hc)].
    + left. split; [reflexivity|]. intros [Hf Hb]. apply Hn.
      pose proof (Skip_progress _ _ Hb Esk) as Hp.
      pose proof (zskipn_shorter skippy rest Hp Hne). unfold roomy. lia.
    + right. exists m, tg, p. split; [reflexivity|]. split; [|exact Hc].
      pose proof (zskipn_length skippy rest). lia.
Qed.

Lemma field_item_bad sch child md idx f wt msg rest1 b :
  field_item sch child md idx f wt msg rest1 = bado b ->
  (b = false /\ ~ (Z.of_nat (length rest1) < Z.of_N two63)%Z) \/
  exists m tg p, f_ty f = TMsg m /\ (length p < length rest1)%nat /\ child m tg p = bado b.
Proof.
  unfold field_item.
  set (slots := slots_of msg). set (unk := unk_of msg). set (s := nth idx slots VNil).
  destruct (f_shape f) as [|pk|oi|kk].
  - (* Singular *)
    destruct (wt =? ftype_wt (f_ty f)); [|nobad].
    destruct (dec_item child (f_ty f) s rest1) as [[v r]| | |] eqn:Ei; try nobad; intro H.
    + assert (Hb : b = true) by (destruct b; [reflexivity|discriminate H]). subst b.
      apply (dec_item_bad _ _ _ _ true) in Ei. destruct Ei as (m & p & Et & Hl & Hc).
      right. exists m, s, p. auto.
    + assert (Hb : b = false) by (destruct b; [discriminate H|reflexivity]). subst b.
      apply (dec_item_bad _ _ _ _ false) in Ei. destruct Ei as (m & p & Et & Hl & Hc).
      right. exists m, s, p. auto.
  - (* Rep *)
    destruct (f_ty f) as [kd|m0] eqn:Ety.
    + destruct (negb (kind_wt kd =? WT_BYTES)).
      * destruct (wt =? kind_wt kd).
        { destruct (dec_scalar kd rest1) as [[v r]|]; nobad. }
        destruct (wt =? WT_BYTES); [|nobad].
        destruct (dec_varint rest1) as [[[raw n] rest2]|] eqn:Ed; [|nobad].
        destruct (s64 raw <? 0)%Z; [nobad|].
        destruct (Z.of_nat (length rest2) <? s64 raw)%Z; [nobad|].
        destruct (packed_loop (S (length rest2)) kd (s64 raw) s rest2) as [[s' r]| | |] eqn:Ep; try nobad; intro H.
        { apply (packed_loop_bad _ _ _ _ _ true) in Ep. destruct Ep as [Ep _]. discriminate Ep. }
        { apply (packed_loop_bad _ _ _ _ _ false) in Ep. destruct Ep as [_ Ep]. exfalso. apply Ep. lia. }
      * destruct (wt =? WT_BYTES); [|nobad].
        destruct (dec_scalar kd rest1) as [[v r]|]; nobad.
    + destruct (wt =? WT_BYTES); [|nobad].
      destruct (dec_item child (TMsg m0) VNil rest1) as [[v r]| | |] eqn:Ei; try nobad; intro H.
      * assert (Hb : b = true) by (destruct b; [reflexivity|discriminate H]). subst b.
        apply (dec_item_bad _ _ _ _ true) in Ei. destruct Ei as (m & p & Et & Hl & Hc).
        right. exists m, VNil, p. auto.
      * assert (Hb : b = false) by (destruct b; [discriminate H|reflexivity]). subst b.
        apply (dec_item_bad _ _ _ _ false) in Ei. destruct Ei as (m & p & Et & Hl & Hc).
        right. exists m, VNil, p. auto.
  - (* Member *)
    destruct (wt =? ftype_wt (f_ty f)); [|nobad].
    set (tg := match s with VSome p => p | _ => VNil end).
    destruct (dec_item child (f_ty f) tg rest1) as [[v r]| | |] eqn:Ei; try nobad; intro H.
    + assert (Hb : b = true) by (destruct b; [reflexivity|discriminate H]). subst b.
      apply (dec_item_bad _ _ _ _ true) in Ei. destruct Ei as (m & p & Et & Hl & Hc).
      right. exists m, tg, p. auto.
    + assert (Hb : b = false) by (destruct b; [discriminate H|reflexivity]). subst b.
      apply (dec_item_bad _ _ _ _ false) in Ei. destruct Ei as (m & p & Et & Hl & Hc).
      right. exists m, tg, p. auto.
  - (* MapOf *)
    destruct (wt =? WT_BYTES); [|nobad].
    destruct (dec_varint rest1) as [[[raw n] rest2]|] eqn:Ed; [|nobad].
    apply dec_varint_shorter in Ed.
    destruct (s64 raw <? 0)%Z; [nobad|].
    destruct (Z.of_nat (length rest2) <? s64 raw)%Z; [nobad|].
    match goal with |- context [entry_loop ?c ?fu ?a1 ?a2 ?a3 ?a4 ?a5 ?a6] =>
      destruct (entry_loop c fu a1 a2 a3 a4 a5 a6) as [[k0 v0]| | |] eqn:Ee end; try nobad; intro H.
    + assert (Hb : b = true) by (destruct b; [reflexivity|discriminate H]). subst b.
      apply (entry_loop_bad _ _ _ _ _ _ _ _ true) in Ee.
      destruct Ee as [[Ee _]|(m & tg & p & Et & Hl & Hc)]; [discriminate Ee|].
      right. exists m, tg, p. split; [exact Et|]. split; [lia|exact Hc].
    + assert (Hb : b = false) by (destruct b; [discriminate H|reflexivity]). subst b.
      apply (entry_loop_bad _ _ _ _ _ _ _ _ false) in Ee.
      destruct Ee as [[_ Ee]|(m & tg & p & Et & Hl & Hc)].
      * left. split; [reflexivity|]. intro Hb. apply Ee. unfold roomy. lia.
      * right. exists m, tg, p. split; [exact Et|]. split; [lia|exact Hc].
Qed.

Lemma field_item_shorter sch child md idx f wt msg rest1 msg' rest' :
  field_item sch child md idx f wt msg rest1 = Ok (msg', rest') -> (length rest' <= length rest1)%nat.
Proof.
  unfold field_item.
  set (slots := slots_of msg). set (unk := unk_of msg). set (s := nth idx slots VNil).
  assert (Hitem : forall t tg v r, dec_item child t tg rest1 = Ok (v, r) -> (length r <= length rest1)%nat).
  { intros t tg v r Ei. unfold dec_item in Ei. destruct t as [k0|m0].
    - destruct (dec_scalar k0 rest1) as [[v0 r0]|] eqn:Es; [|discriminate].
      apply dec_scalar_shorter in Es. injection Ei as _ <-. lia.
    - destruct (take_len rest1) as [[p0 r0]|] eqn:Et; [|discriminate].
      apply take_len_shorter in Et. destruct (child m0 tg p0); try discriminate.
      injection Ei as _ <-. lia. }
  assert (Hpk : forall fuel kd k acc rest v r, packed_loop fuel kd k acc rest = Ok (v, r) -> (length r <= length rest)%nat).
  { induction fuel as [|fu IH]; intros kd k acc rest v r; cbn [packed_loop]; [discriminate|].
    destruct (k <=? 0)%Z; [intro E; injection E as _ <-; lia|].
    destruct (dec_scalar kd rest) as [[v0 r0]|] eqn:Es; [|discriminate].
    apply dec_scalar_shorter in Es. intro E. apply IH in E. lia. }
  destruct (f_shape f) as [|pk|oi|kk].
  - destruct (wt =? ftype_wt (f_ty f)); [|discriminate].
    destruct (dec_item child (f_ty f) s rest1) as [[v r]| | |] eqn:Ei; try discriminate.
    intro E. injection E as _ <-. eapply Hitem; exact Ei.
  - destruct (f_ty f) as [kd|m0] eqn:Ety.
    + destruct (negb (kind_wt kd =? WT_BYTES)).
      * destruct (wt =? kind_wt kd).
        { destruct (dec_scalar kd rest1) as [[v r]|] eqn:Es; [|discriminate].
          apply dec_scalar_shorter in Es. intro E. injection E as _ <-. lia. }
        destruct (wt =? WT_BYTES); [|discriminate].
        destruct (dec_varint rest1) as [[[raw n] rest2]|] eqn:Ed; [|discriminate].
        apply dec_varint_shorter in Ed.
        destruct (s64 raw <? 0)%Z; [discriminate|].
        destruct (Z.of_nat (length rest2) <? s64 raw)%Z; [discriminate|].
        destruct (packed_loop (S (length rest2)) kd (s64 raw) s rest2) as [[s' r]| | |] eqn:Ep; try discriminate.
        apply Hpk in Ep. intro E. injection E as _ <-. lia.
      * destruct (wt =? WT_BYTES); [|discriminate].
        destruct (dec_scalar kd rest1) as [[v r]|] eqn:Es; [|discriminate].
        apply dec_scalar_shorter in Es. intro E. injection E as _ <-. lia.
    + destruct (wt =? WT_BYTES); [|discriminate].
      destruct (dec_item child (TMsg m0) VNil rest1) as [[v r]| | |] eqn:Ei; try discriminate.
      intro E. injection E as _ <-. eapply Hitem; exact Ei.
  - destruct (wt =? ftype_wt (f_ty f)); [|discriminate].
    set (tg := match s with VSome p => p | _ => VNil end).
    destruct (dec_item child (f_ty f) tg rest1) as [[v r]| | |] eqn:Ei; try discriminate.
    intro E. injection E as _ <-. eapply Hitem; exact Ei.
  - destruct (wt =? WT_BYTES); [|discriminate].
    destruct (dec_varint rest1) as [[[raw n] rest2]|] eqn:Ed; [|discriminate].
    apply dec_varint_shorter in Ed.
    destruct (s64 raw <? 0)%Z; [discriminate|].
    destruct (Z.of_nat (length rest2) <? s64 raw)%Z; [discriminate|].
    match goal with |- context [entry_loop ?c ?fu ?a1 ?a2 ?a3 ?a4 ?a5 ?a6] =>
      destruct (entry_loop c fu a1 a2 a3 a4 a5 a6) as [[k0 v0]| | |] end; try discriminate.
    intro E. injection E as _ <-. pose proof (zskipn_length (s64 raw) rest2). lia.
Qed.

Lemma find_field_in fs i num idx f :
  find_field fs i num = Some (idx, f) -> (i <= idx)%nat /\ nth_error fs (idx - i) = Some f.
Proof.
  revert i. induction fs as [|g t IH]; intros i; cbn [find_field]; [discriminate|].
  destruct (Z.of_N (f_num g) =? num)%Z.
  - intro E. injection E as <- <-. rewrite Nat.sub_diag. split; [lia|reflexivity].
  - intro E. apply IH in E. destruct E as [Hle Hn]. split; [lia|].
    replace (idx - i)%nat with (S (idx - S i)) by lia. exact Hn.
Qed.

Lemma msg_loop_bad sch discard child md fuel msg rest b :
  msg_loop sch discard child md fuel msg rest = bado b ->
  (b = false /\ ~ roomy fuel rest) \/
  exists f m tg p, In f (m_fields md) /\ f_ty f = TMsg m /\ (length p < length rest)%nat /\ child m tg p = bado b.
Proof.
  revert msg rest. induction fuel as [|fu IH]; intros msg rest; cbn [msg_loop].
  - intro H. destruct b; [discriminate H|]. left. split; [reflexivity|]. unfold roomy. lia.
  - destruct rest as [|b0 t0] eqn:Er; [nobad|]. rewrite <- Er.
    assert (Hne : rest <> []) by (rewrite Er; discriminate). clear Er.
    destruct (dec_varint rest) as [[[raw n] rest1]|] eqn:Ed; [|nobad].
    apply dec_varint_shorter in Ed.
    destruct (u64 raw mod 8 =? 4); [nobad|].
    destruct (s32 (u64 raw / 8) <=? 0)%Z; [nobad|].
    destruct (find_field (m_fields md) 0 (s32 (u64 raw / 8))) as [[idx f]|] eqn:Ef.
    + apply find_field_in in Ef. destruct Ef as [_ Ef]. apply nth_error_In in Ef.
      destruct (field_item sch child md idx f (u64 raw mod 8) msg rest1) as [[msg' rest']| | |] eqn:Ei; try nobad; intro H.
      * apply field_item_shorter in Ei. apply IH in H.
        destruct H as [[-> Hn]|(f' & m & tg & p & Hin & Et & Hl & Hc)].
        -- left. split; [reflexivity|]. unfold roomy in *. lia.
        -- right. exists f', m, tg, p. repeat split; try assumption. lia.
      * assert (Hb : b = true) by (destruct b; [reflexivity|discriminate H]). subst b.
        apply (field_item_bad _ _ _ _ _ _ _ _ true) in Ei.
        destruct Ei as [[Ei _]|(m & tg & p & Et & Hl & Hc)]; [discriminate Ei|].
        right. exists f, m, tg, p. repeat split; try assumption. lia.
      * assert (Hb : b = false) by (destruct b; [discriminate H|reflexivity]). subst b.
        apply (field_item_bad _ _ _ _ _ _ _ _ false) in Ei.
        destruct Ei as [[_ Ei]|(m & tg & p & Et & Hl & Hc)].
        -- left. split; [reflexivity|]. unfold roomy. lia.
        -- right. exists f, m, tg, p. repeat split; try assumption. lia.
    + destruct (Skip rest) as [skippy| | |] eqn:Esk; try nobad.
      destruct (Z.of_nat (length rest) <? skippy)%Z; [nobad|].
      intro H. apply IH in H.
      destruct H as [[-> Hn]|(f' & m & tg & p & Hin & Et & Hl & Hc)].
      * left. split; [reflexivity|]. intros [Hf Hb]. apply Hn.
        pose proof (Skip_progress _ _ Hb Esk) as Hp.
        pose proof (zskipn_shorter skippy rest Hp Hne). unfold roomy. lia.
      * right. exists f', m, tg, p. repeat split; try assumption.
        pose proof (zskipn_length skippy rest). lia.
Qed.

(* ------------------------------------------------------------------ targets: fuel, panic, depth *)
Lemma unmarshal_at_fuel sch discard fuel : forall depth mid tg bs,
  (length bs < fuel)%nat -> (Z.of_nat (length bs) < Z.of_N two63)%Z ->
  unmarshal_at sch discard fuel depth mid tg bs <> OutOfFuel.
Proof.
  induction fuel as [|f IH]; intros depth mid tg bs Hf Hb; [lia|].
  cbn [unmarshal_at]. destruct (depth <=? 0)%Z; [discriminate|].
  destruct (get_msg sch mid) as [md|]; [|discriminate].
  intro H. apply (msg_loop_bad _ _ _ _ _ _ _ false) in H.
  destruct H as [[_ Hn]|(f0 & m & tg' & p & _ & _ & Hl & Hc)].
  - apply Hn. unfold roomy. lia.
  - revert Hc. apply IH; lia.
Qed.

Lemma unmarshal_fuel_enough sch discard mid init bs : (Z.of_nat (length bs) < Z.of_N two63)%Z ->
  pulsar_unmarshal sch discard mid init bs <> OutOfFuel.
Proof. intro Hb. unfold pulsar_unmarshal. apply unmarshal_at_fuel; [lia|exact Hb]. Qed.

Lemma wf_field_msg sch mid md f m :
  wf sch = true -> get_msg sch mid = Some md -> In f (m_fields md) -> f_ty f = TMsg m -> (m < length sch)%nat.
Proof.
  intros Hwf Hg Hin Hty. unfold wf in Hwf. rewrite forallb_forall in Hwf.
  unfold get_msg in Hg. apply nth_error_In in Hg. specialize (Hwf _ Hg).
  unfold msg_wf in Hwf. apply andb_prop in Hwf. destruct Hwf as [Hwf _].
  rewrite forallb_forall in Hwf. specialize (Hwf _ Hin). unfold field_wf in Hwf.
  apply andb_prop in Hwf. destruct Hwf as [Hwf _]. apply andb_prop in Hwf. destruct Hwf as [_ Hwf].
  rewrite Hty in Hwf. apply Nat.ltb_lt in Hwf. exact Hwf.
Qed.

Lemma unmarshal_at_no_panic sch discard : wf sch = true -> forall fuel depth mid tg bs,
  (mid < length sch)%nat -> unmarshal_at sch discard fuel depth mid tg bs <> Panic.
Proof.
  intros Hwf. induction fuel as [|f IH]; intros depth mid tg bs Hmid; [discriminate|].
  cbn [unmarshal_at]. destruct (depth <=? 0)%Z; [discriminate|].
  destruct (get_msg sch mid) as [md|] eqn:Hg.
  - intro H. apply (msg_loop_bad _ _ _ _ _ _ _ true) in H.
    destruct H as [[Hn _]|(f0 & m & tg' & p & Hin & Hty & Hl & Hc)]; [discriminate Hn|].
    revert Hc. apply IH. eapply wf_field_msg; eassumption.
  - unfold get_msg in Hg. apply nth_error_None in Hg. lia.
Qed.

Lemma unmarshal_no_panic sch discard : wf sch = true -> forall mid init bs, (mid < length sch)%nat ->
  pulsar_unmarshal sch discard mid init bs <> Panic.
Proof. intros Hwf mid init bs Hmid. unfold pulsar_unmarshal. apply unmarshal_at_no_panic; assumption. Qed.

Lemma depth_exhausted sch discard fuel depth mid t bs : (depth <= 0)%Z -> unmarshal_at sch discard (S fuel) depth mid t bs = Err.
Proof. intro H. cbn [unmarshal_at]. destruct (Z.leb_spec depth 0); [reflexivity|lia]. Qed.

(* ------------------------------------------------------------------ recursion budget on the self-recursive schema *)
Definition f_rec : field := {| f_num := 1; f_ty := TMsg 0; f_shape := Singular |}.
Definition md_rec : msgdesc := {| m_fields := [f_rec]; m_oneofs := 0; m_impl := Pulsar |}.

Lemma nest_S k : nest (S k) = x0a :: enc_varint (N.of_nat (length (nest k))) ++ nest k.
Proof. reflexivity. Qed.

Lemma nest_len n : N.of_nat (length (nest n)) <= 11 * N.of_nat n.
Proof.
  induction n as [|k IH]; [cbn; lia|].
  rewrite nest_S. cbn [length]. rewrite app_length.
  pose proof (enc_varint_len_bounds (N.of_nat (length (nest k)))). lia.
Qed.

Lemma nest_len_S k : (length (nest k) < length (nest (S k)))%nat.
Proof. rewrite nest_S. cbn [length]. rewrite app_length. lia. Qed.

Lemma dec_0a rest : dec_varint (x0a :: rest) = Some (10, 1%nat, rest).
Proof. reflexivity. Qed.

Lemma tag0a_wt : u64 10 mod 8 = 2. Proof. vm_compute. reflexivity. Qed.
Lemma tag0a_num : s32 (u64 10 / 8) = 1%Z. Proof. vm_compute. reflexivity. Qed.

Lemma field_item_rec child msg rest1 :
  field_item rec_schema child md_rec 0 f_rec 2 msg rest1 =
  match dec_item child (TMsg 0) (nth 0 (slots_of msg) VNil) rest1 with
  | Ok (v, r) => Ok (VMsg (set_nth (slots_of msg) 0 v) (unk_of msg), r)
  | Err => Err | Panic => Panic | OutOfFuel => OutOfFuel
  end.
Proof. reflexivity. Qed.

Lemma s64_nonneg_id L : L < two64 -> (0 <= s64 L)%Z -> s64 L = Z.of_N L.
Proof.
  intros HL. unfold s64. rewrite N.mod_small by exact HL.
  destruct (N.ltb_spec L two63); [reflexivity|]. unfold two64, two63 in *. lia.
Qed.

Lemma dec_item_nest child tg inner :
  N.of_nat (length inner) < two64 ->
  dec_item child (TMsg 0) tg (enc_varint (N.of_nat (length inner)) ++ inner) =
  if (s64 (N.of_nat (length inner)) <? 0)%Z then Err else
  match child 0%nat tg inner with
  | Ok v => Ok (v, []) | Err => Err | Panic => Panic | OutOfFuel => OutOfFuel end.
Proof.
  intro HL. unfold dec_item, take_len. rewrite dec_enc_varint by exact HL.
  destruct (Z.ltb_spec (s64 (N.of_nat (length inner))) 0) as [|Hnn]; [reflexivity|].
  rewrite (s64_nonneg_id _ HL Hnn). rewrite nat_N_Z.
  destruct (Z.ltb_spec (Z.of_nat (length inner)) (Z.of_nat (length inner))) as [|_]; [lia|].
  rewrite Nat2Z.id, firstn_all, skipn_all. reflexivity.
Qed.

Lemma rec_step f d tg k : (0 < d)%Z -> N.of_nat (length (nest k)) < two64 ->
  unmarshal_at rec_schema false (S f) d 0 tg (nest (S k)) =
  let init := match tg with VMsg _ _ => tg | _ => empty_msg md_rec end in
  if (s64 (N.of_nat (length (nest k))) <? 0)%Z then Err else
  match unmarshal_at rec_schema false f (d - 1) 0 (nth 0 (slots_of init) VNil) (nest k) with
  | Ok v => Ok (VMsg (set_nth (slots_of init) 0 v) (unk_of init))
  | Err => Err | Panic => Panic | OutOfFuel => OutOfFuel end.
Proof.
  intros Hd HL. cbn [unmarshal_at]. destruct (Z.leb_spec d 0) as [|_]; [lia|].
  change (get_msg rec_schema 0) with (Some md_rec). cbv zeta.
  set (init := match tg with VMsg _ _ => tg | _ => empty_msg md_rec end).
  rewrite nest_S. cbn [length msg_loop]. rewrite dec_0a. cbv zeta.
  rewrite tag0a_wt, tag0a_num.
  change (2 =? 4) with false. change (1 <=? 0)%Z with false. cbv iota.
  change (find_field (m_fields md_rec) 0 1) with (Some (0%nat, f_rec)). cbv iota.
  rewrite field_item_rec, dec_item_nest by exact HL.
  destruct (s64 (N.of_nat (length (nest k))) <? 0)%Z; [reflexivity|].
  subst init.
  match goal with |- context [unmarshal_at ?a ?b ?c ?d ?e ?g ?h] => destruct (unmarshal_at a b c d e g h) end; reflexivity.
Qed.

Lemma deep_gen : forall n f d tg, (d <= Z.of_nat n)%Z -> N.of_nat (length (nest n)) < two64 ->
  (length (nest n) < f)%nat -> unmarshal_at rec_schema false f d 0 tg (nest n) = Err.
Proof.
  induction n as [|k IH]; intros f d tg Hd HL Hf; (destruct f as [|f']; [lia|]).
  - apply depth_exhausted. lia.
  - destruct (Z.leb_spec d 0) as [Hd0|Hd0]; [apply depth_exhausted; exact Hd0|].
    pose proof (nest_len_S k) as HS.
    rewrite rec_step by lia. cbv zeta.
    destruct (s64 (N.of_nat (length (nest k))) <? 0)%Z; [reflexivity|].
    rewrite IH; [reflexivity|lia|lia|lia].
Qed.

Lemma deep_nesting_rejected n : 10000 <= N.of_nat n -> N.of_nat n < 1152921504606846976 -> pulsar_unmarshal rec_schema false 0 VNil (nest n) = Err.
Proof.
  intros Hlo Hhi. unfold pulsar_unmarshal. apply deep_gen.
  - unfold recursion_limit. lia.
  - pose proof (nest_len n). unfold two64. lia.
  - lia.
Qed.

Lemma shallow_gen : forall n f d tg, (Z.of_nat n < d)%Z -> N.of_nat (length (nest n)) < two63 ->
  (length (nest n) < f)%nat -> is_ok (unmarshal_at rec_schema false f d 0 tg (nest n)) = true.
Proof.
  induction n as [|k IH]; intros f d tg Hd HL Hf; (destruct f as [|f']; [lia|]).
  - cbn [unmarshal_at]. destruct (Z.leb_spec d 0) as [|_]; [lia|].
    change (get_msg rec_schema 0) with (Some md_rec). reflexivity.
  - pose proof (nest_len_S k) as HS.
    assert (HL' : N.of_nat (length (nest k)) < two63) by lia.
    rewrite rec_step; [|lia|unfold two63, two64 in *; lia]. cbv zeta.
    rewrite s64_small by exact HL'.
    destruct (Z.ltb_spec (Z.of_N (N.of_nat (length (nest k)))) 0) as [|_]; [lia|].
    match goal with |- context [unmarshal_at ?x1 ?x2 ?x3 ?x4 ?x5 ?x6 ?x7] =>
      pose proof (IH x3 x4 x6 ltac:(lia) ltac:(lia) ltac:(lia)) as Hok;
      destruct (unmarshal_at x1 x2 x3 x4 x5 x6 x7) end; try discriminate Hok. reflexivity.
Qed.

Lemma shallow_nesting_accepted n : N.of_nat n < 10000 -> is_ok (pulsar_unmarshal rec_schema false 0 VNil (nest n)) = true.
Proof.
  intros Hn. unfold pulsar_unmarshal. apply shallow_gen.
  - unfold recursion_limit. lia.
  - pose proof (nest_len n). unfold two63. lia.
  - lia.
Qed.

(* ------------------------------------------------------------------ accepted messages are well typed *)
Fixpoint wt_slots (sch : schema) (fs : list field) (ss : list val) : bool :=
  match ss, fs with
  | s :: ss', f :: fs' => wt_slot (wt_msg sch) f s && wt_slots sch fs' ss'
  | [], [] => true
  | _, _ => false
  end.

Definition oo_ok (md : msgdesc) (ss : list val) : bool :=
  forallb (fun oi => (oneof_count (m_fields md) ss oi <=? 1)%nat) (seq 0 (m_oneofs md)).

Lemma wt_msg_unfold sch mid slots unk :
  wt_msg sch mid (VMsg slots unk) =
  match get_msg sch mid with
  | None => false
  | Some md => wt_slots sch (m_fields md) slots && oo_ok md slots
  end.
Proof.
  cbn [wt_msg]. destruct (get_msg sch mid) as [md|]; [|reflexivity].
  unfold oo_ok. f_equal. generalize (m_fields md). induction slots as [|s ss IH]; intros [|f fs]; cbn [wt_slots]; try reflexivity.
  rewrite IH. reflexivity.
Qed.

(* ---- ranges of decoded scalars *)
Lemma s32_range x : (-2147483648 <= s32 x < 2147483648)%Z.
Proof.
  unfold s32. pose proof (N.mod_upper_bound x two32 ltac:(discriminate)).
  destruct (N.ltb_spec (x mod two32) two31); unfold two31, two32 in *; lia.
Qed.
Lemma s64_range x : (-9223372036854775808 <= s64 x < 9223372036854775808)%Z.
Proof.
  unfold s64. pose proof (N.mod_upper_bound x two64 ltac:(discriminate)).
  destruct (N.ltb_spec (x mod two64) two63); unfold two63, two64 in *; lia.
Qed.
Lemma u32_rangeZ x : (0 <= Z.of_N (u32 x) < 4294967296)%Z.
Proof. unfold u32. pose proof (N.mod_upper_bound x two32 ltac:(discriminate)). unfold two32 in *. lia. Qed.
Lemma u64_rangeZ x : (0 <= Z.of_N (u64 x) < 18446744073709551616)%Z.
Proof. unfold u64. pose proof (N.mod_upper_bound x two64 ltac:(discriminate)). unfold two64 in *. lia. Qed.

Lemma in_range_z_intro lo hi z : (lo <= z < hi)%Z -> in_range_z lo hi z = true.
Proof. unfold in_range_z. intros H. apply andb_true_intro. split; [apply Z.leb_le|apply Z.ltb_lt]; lia. Qed.

Lemma dec_le_bound l : dec_le l < 256 ^ N.of_nat (length l).
Proof.
  induction l as [|a l IH]; [cbn; lia|].
  unfold dec_le in *. cbn [fold_right length]. rewrite Nat2N.inj_succ, N.pow_succ_r'.
  pose proof (b2n_lt a).
  set (P := 256 ^ N.of_nat (length l)) in *. set (d := fold_right (fun b acc => b2n b + 256 * acc) 0 l) in *. lia.
Qed.

Lemma pow256_4 : 256 ^ N.of_nat 4 = two32. Proof. vm_compute. reflexivity. Qed.
Lemma pow256_8 : 256 ^ N.of_nat 8 = two64. Proof. vm_compute. reflexivity. Qed.

Lemma take_fixed_val n rest v r : take_fixed n rest = Some (v, r) -> v < 256 ^ N.of_nat n.
Proof.
  unfold take_fixed. destruct (Nat.ltb_spec (length rest) n) as [|Hge]; [discriminate|].
  intro E. injection E as <- _. pose proof (dec_le_bound (firstn n rest)) as H.
  rewrite firstn_length_le in H by exact Hge. exact H.
Qed.

Lemma dec_scalar_wt k rest v r : dec_scalar k rest = Some (v, r) -> wt_scalar k v = true.
Proof.
  unfold dec_scalar.
  destruct k;
    try (destruct (take_fixed 8 rest) as [[n0 r0]|] eqn:E; [|discriminate];
         apply take_fixed_val in E; rewrite pow256_8 in E; intro H; injection H as <- _);
    try (destruct (take_fixed 4 rest) as [[n0 r0]|] eqn:E; [|discriminate];
         apply take_fixed_val in E; rewrite pow256_4 in E; intro H; injection H as <- _);
    try (destruct (dec_varint rest) as [[[raw n0] r0]|] eqn:E; [|discriminate];
         intro H; injection H as <- _);
    try (destruct (take_len rest) as [[p0 r0]|] eqn:E; [|discriminate];
         intro H; injection H as <- _);
    cbn [fixed_val varint_val wt_scalar];
    first [ reflexivity
          | apply N.ltb_lt; exact E
          | apply in_range_z_intro;
            first [ apply s32_range | apply s64_range | apply u32_rangeZ | apply u64_rangeZ
                  | unfold two32, two64 in E; lia ] ].
Qed.

Lemma zero_scalar_wt k : wt_scalar k (zero_scalar k) = true.
Proof. destruct k; vm_compute; reflexivity. Qed.

(* ---- slot lists *)
Lemma wt_slots_nth sch fs : forall ss idx f,
  wt_slots sch fs ss = true -> nth_error fs idx = Some f -> wt_slot (wt_msg sch) f (nth idx ss VNil) = true.
Proof.
  induction fs as [|g fs IH]; intros ss idx f H Hn; destruct idx as [|i]; cbn [nth_error] in Hn; try discriminate;
    destruct ss as [|s ss]; cbn [wt_slots] in H; try discriminate; apply andb_prop in H; destruct H as [H1 H2].
  - injection Hn as <-. exact H1.
  - cbn [nth]. eapply IH; eassumption.
Qed.

Lemma wt_slots_set sch fs : forall ss idx f v,
  wt_slots sch fs ss = true -> nth_error fs idx = Some f -> wt_slot (wt_msg sch) f v = true ->
  wt_slots sch fs (set_nth ss idx v) = true.
Proof.
  induction fs as [|g fs IH]; intros ss idx f v H Hn Hv; destruct idx as [|i]; cbn [nth_error] in Hn; try discriminate;
    destruct ss as [|s ss]; cbn [wt_slots] in H; try discriminate; apply andb_prop in H; destruct H as [H1 H2];
    cbn [set_nth wt_slots]; apply andb_true_intro.
  - injection Hn as <-. split; assumption.
  - split; [assumption|]. eapply IH; eassumption.
Qed.

Lemma wt_slots_clear sch fs : forall ss oi,
  wt_slots sch fs ss = true -> wt_slots sch fs (clear_oneof fs ss oi) = true.
Proof.
  induction fs as [|g fs IH]; intros ss oi H; destruct ss as [|s ss]; cbn [clear_oneof]; try exact H.
  cbn [wt_slots] in *. apply andb_prop in H. destruct H as [H1 H2]. apply andb_true_intro. split; [|apply IH; exact H2].
  destruct (f_shape g) as [| |j|] eqn:Es; try exact H1.
  destruct (Nat.eqb j oi); [|exact H1]. unfold wt_slot. rewrite Es. reflexivity.
Qed.

Definition oo_term (f : field) (v : val) (oi : nat) : nat :=
  match f_shape f, v with Member j, VSome _ => if Nat.eqb j oi then 1 else 0 | _, _ => 0 end%nat.

Lemma count_set_le fs : forall ss idx f v oi,
  nth_error fs idx = Some f ->
  (oneof_count fs (set_nth ss idx v) oi <= oneof_count fs ss oi + oo_term f v oi)%nat.
Proof.
  induction fs as [|g fs IH]; intros ss idx f v oi Hn; destruct idx as [|i]; cbn [nth_error] in Hn; try discriminate;
    destruct ss as [|s ss]; cbn [set_nth oneof_count]; try lia.
  - injection Hn as <-. fold (oo_term g v oi). fold (oo_term g s oi). lia.
  - specialize (IH ss i f v oi Hn). lia.
Qed.

Lemma count_clear_le fs : forall ss oi0 oi, (oneof_count fs (clear_oneof fs ss oi0) oi <= oneof_count fs ss oi)%nat.
Proof.
  induction fs as [|g fs IH]; intros ss oi0 oi; destruct ss as [|s ss]; cbn [clear_oneof oneof_count]; try lia.
  specialize (IH ss oi0 oi).
  destruct (f_shape g) as [| |j|]; try lia.
  destruct (Nat.eqb j oi0); [|lia]. destruct s; destruct (Nat.eqb j oi); lia.
Qed.

Lemma count_clear_same fs : forall ss oi, oneof_count fs (clear_oneof fs ss oi) oi = 0%nat.
Proof.
  induction fs as [|g fs IH]; intros ss oi; destruct ss as [|s ss]; cbn [clear_oneof oneof_count]; try reflexivity.
  rewrite IH. destruct (f_shape g) as [| |j|]; try reflexivity.
  destruct (Nat.eqb j oi) eqn:E; [reflexivity|]. destruct s; reflexivity.
Qed.

Lemma oo_mono md ss ss' :
  (forall oi, (oneof_count (m_fields md) ss oi <= 1)%nat -> (oneof_count (m_fields md) ss' oi <= 1)%nat) ->
  oo_ok md ss = true -> oo_ok md ss' = true.
Proof.
  intros H. unfold oo_ok. rewrite !forallb_forall. intros Ho oi Hin.
  apply Nat.leb_le. apply H. apply Nat.leb_le. apply Ho. exact Hin.
Qed.

Lemma put_wt sch mid md slots unk idx f v :
  get_msg sch mid = Some md -> wt_slots sch (m_fields md) slots = true -> oo_ok md slots = true ->
  nth_error (m_fields md) idx = Some f -> wt_slot (wt_msg sch) f v = true ->
  (forall oi, oo_term f v oi = 0%nat) ->
  wt_msg sch mid (VMsg (set_nth slots idx v) unk) = true.
Proof.
  intros Hg Hs Ho Hn Hv Hz. rewrite wt_msg_unfold, Hg. apply andb_true_intro. split.
  - eapply wt_slots_set; eassumption.
  - eapply oo_mono; [|exact Ho]. intros oi Hle.
    pose proof (count_set_le (m_fields md) slots idx f v oi Hn). rewrite Hz in *. lia.
Qed.

Lemma put_member_wt sch mid md slots unk idx f v oi :
  get_msg sch mid = Some md -> wt_slots sch (m_fields md) slots = true -> oo_ok md slots = true ->
  nth_error (m_fields md) idx = Some f -> f_shape f = Member oi ->
  wt_elem (wt_msg sch) (f_ty f) v = true ->
  wt_msg sch mid (VMsg (set_nth (clear_oneof (m_fields md) slots oi) idx (VSome v)) unk) = true.
Proof.
  intros Hg Hs Ho Hn Hsh Hv. rewrite wt_msg_unfold, Hg. apply andb_true_intro. split.
  - eapply wt_slots_set; [apply wt_slots_clear; exact Hs|exact Hn|]. unfold wt_slot. rewrite Hsh. exact Hv.
  - eapply oo_mono; [|exact Ho]. intros oi' Hle.
    pose proof (count_set_le (m_fields md) (clear_oneof (m_fields md) slots oi) idx f (VSome v) oi' Hn) as H1.
    unfold oo_term in H1. rewrite Hsh in H1.
    destruct (Nat.eqb oi oi') eqn:E.
    + apply Nat.eqb_eq in E. subst oi'. rewrite count_clear_same in H1. lia.
    + pose proof (count_clear_le (m_fields md) slots oi oi'). lia.
Qed.

(* ---- zero / empty values *)
Lemma default_slot_wt sch f : wt_slot (wt_msg sch) f (default_slot f) = true.
Proof.
  unfold wt_slot, default_slot. destruct (f_shape f); destruct (f_ty f); cbn [wt_elem]; try reflexivity.
  apply zero_scalar_wt.
Qed.

Lemma empty_msg_wt sch mid md : get_msg sch mid = Some md -> wt_msg sch mid (empty_msg md) = true.
Proof.
  intro Hg. unfold empty_msg. rewrite wt_msg_unfold, Hg. apply andb_true_intro. split.
  - generalize (m_fields md). induction l as [|f fs IH]; [reflexivity|].
    cbn [map wt_slots]. rewrite default_slot_wt, IH. reflexivity.
  - unfold oo_ok. apply forallb_forall. intros oi _. apply Nat.leb_le.
    generalize (m_fields md). induction l as [|f fs IH]; [cbn; lia|].
    cbn [map oneof_count]. unfold default_slot at 1. destruct (f_shape f); destruct (f_ty f); lia.
Qed.

(* ---- the typing invariant through the decoder *)
Definition tg_ok (sch : schema) (m : nat) (tg : val) : Prop :=
  match tg with VMsg _ _ => wt_msg sch m tg = true | _ => True end.
Definition tg_ok_t (sch : schema) (t : ftype) (tg : val) : Prop :=
  match t with TMsg m => tg_ok sch m tg | TScalar _ => True end.
Definition child_wt (sch : schema) (child : child_t) : Prop :=
  forall m tg p v, tg_ok sch m tg -> child m tg p = Ok v -> wt_msg sch m v = true.

Lemma wt_elem_tg_ok sch t v : wt_elem (wt_msg sch) t v = true -> tg_ok_t sch t v.
Proof. unfold tg_ok_t, tg_ok, wt_elem. destruct t; [trivial|]. destruct v; trivial. Qed.

Lemma wt_msg_elem sch m v : wt_msg sch m v = true -> wt_elem (wt_msg sch) (TMsg m) v = true.
Proof. unfold wt_elem. destruct v; trivial. Qed.

Lemma dec_item_wt sch child t tg rest v r : child_wt sch child -> tg_ok_t sch t tg ->
  dec_item child t tg rest = Ok (v, r) -> wt_elem (wt_msg sch) t v = true.
Proof.
  intros Hc Ht. unfold dec_item. destruct t as [k|m].
  - destruct (dec_scalar k rest) as [[v0 r0]|] eqn:E; [|discriminate].
    intro H. injection H as <- _. cbn [wt_elem]. eapply dec_scalar_wt. exact E.
  - destruct (take_len rest) as [[p r0]|]; [|discriminate].
    destruct (child m tg p) eqn:Ec; try discriminate.
    intro H. injection H as <- _. apply wt_msg_elem. eapply Hc; [exact Ht|exact Ec].
Qed.

Definition wt_rep (sch : schema) (t : ftype) (s : val) : bool :=
  match s with VNil => true | VList l => forallb (wt_elem (wt_msg sch) t) l | _ => false end.

Lemma list_append_wt sch t s v :
  wt_rep sch t s = true -> wt_elem (wt_msg sch) t v = true -> wt_rep sch t (list_append s v) = true.
Proof.
  unfold wt_rep, list_append. destruct s; try discriminate; intros Hs Hv.
  - cbn [forallb]. rewrite Hv. reflexivity.
  - rewrite forallb_app, Hs. cbn [forallb]. rewrite Hv. reflexivity.
Qed.

Lemma packed_loop_wt sch fuel kd : forall k acc rest v r,
  wt_rep sch (TScalar kd) acc = true -> packed_loop fuel kd k acc rest = Ok (v, r) ->
  wt_rep sch (TScalar kd) v = true.
Proof.
  induction fuel as [|f IH]; intros k acc rest v r Ha; cbn [packed_loop]; [discriminate|].
  destruct (k <=? 0)%Z; [intro E; injection E as <- _; exact Ha|].
  destruct (dec_scalar kd rest) as [[v0 r0]|] eqn:Es; [|discriminate].
  apply IH. apply list_append_wt; [exact Ha|]. cbn [wt_elem]. eapply dec_scalar_wt. exact Es.
Qed.

Lemma entry_loop_wt sch child fuel kk t : child_wt sch child -> forall k key value rest k' v',
  wt_scalar kk key = true -> wt_elem (wt_msg sch) t value = true ->
  entry_loop child fuel kk t k key value rest = Ok (k', v') ->
  wt_scalar kk k' = true /\ wt_elem (wt_msg sch) t v' = true.
Proof.
  intro Hc. induction fuel as [|f IH]; intros k key value rest k' v' Hk Hv; cbn [entry_loop]; [discriminate|].
  destruct (k <=? 0)%Z; [intro E; injection E as <- <-; split; assumption|].
  destruct (dec_varint rest) as [[[raw n] rest1]|]; [|discriminate].
  destruct (s32 (u64 raw / 8) =? 1)%Z.
  { destruct (dec_scalar kk rest1) as [[v0 r0]|] eqn:Es; [|discriminate].
    destruct (k - (Z.of_nat (length rest) - Z.of_nat (length r0)) <? 0)%Z; [discriminate|].
    apply IH; [|exact Hv]. eapply dec_scalar_wt. exact Es. }
  destruct (s32 (u64 raw / 8) =? 2)%Z.
  { destruct t as [kd|m0].
    - destruct (dec_scalar kd rest1) as [[v0 r0]|] eqn:Es; [|discriminate].
      destruct (k - (Z.of_nat (length rest) - Z.of_nat (length r0)) <? 0)%Z; [discriminate|].
      apply IH; [exact Hk|]. cbn [wt_elem]. eapply dec_scalar_wt. exact Es.
    - destruct (take_len rest1) as [[p0 r0]|]; [|discriminate].
      destruct (k - (Z.of_nat (length rest) - Z.of_nat (length r0)) <? 0)%Z; [discriminate|].
      destruct (child m0 value p0) as [v0| | |] eqn:Ec; try discriminate.
      apply IH; [exact Hk|]. apply wt_msg_elem. eapply Hc; [|exact Ec].
      apply (wt_elem_tg_ok sch (TMsg m0)). exact Hv. }
  destruct (Skip rest) as [skippy| | |]; try discriminate.
  destruct (k <? skippy)%Z; [discriminate|].
  apply IH; assumption.
Qed.

Lemma map_value_init_wt sch t : wt_elem (wt_msg sch) t (map_value_init (get_msg sch) t) = true.
Proof.
  unfold map_value_init. destruct t as [k|m]; [cbn [wt_elem]; apply zero_scalar_wt|].
  destruct (get_msg sch m) as [md|] eqn:E; [|reflexivity].
  apply wt_msg_elem. apply empty_msg_wt. exact E.
Qed.

Lemma val_key_eqb_eq a b : val_key_eqb a b = true -> a = b.
Proof.
  destruct a, b; cbn [val_key_eqb]; try discriminate; intro H.
  - apply Z.eqb_eq in H. congruence.
  - apply Bool.eqb_prop in H. congruence.
  - destruct (list_eq_dec Byte.byte_eq_dec l l0); [congruence|discriminate].
Qed.

Lemma map_set_forall (P : val * val -> bool) kvs k v :
  forallb P kvs = true -> P (k, v) = true -> forallb P (map_set kvs k v) = true.
Proof.
  intros H Hp. induction kvs as [|[k0 v0] t IH]; cbn [map_set forallb].
  - rewrite Hp. reflexivity.
  - cbn [forallb] in H. apply andb_prop in H. destruct H as [H1 H2].
    destruct (val_key_eqb k0 k); cbn [forallb].
    + rewrite Hp, H2. reflexivity.
    + rewrite H1, IH by exact H2. reflexivity.
Qed.

Lemma existsb_map_set (Q : val -> bool) kvs k v :
  existsb Q (map fst (map_set kvs k v)) = true -> existsb Q (map fst kvs) = true \/ Q k = true.
Proof.
  induction kvs as [|[k0 v0] t IH]; cbn [map_set map fst existsb].
  - rewrite orb_false_r. auto.
  - destruct (val_key_eqb k0 k); cbn [map fst existsb]; intro H; apply orb_prop in H.
    + destruct H as [H|H]; [right; exact H|left; rewrite H; apply orb_true_r].
    + destruct H as [H|H]; [left; rewrite H; reflexivity|].
      apply IH in H. destruct H as [H|H]; [left; rewrite H; apply orb_true_r|right; exact H].
Qed.

Lemma map_set_nodup kvs k v :
  nodup_keys (map fst kvs) = true -> nodup_keys (map fst (map_set kvs k v)) = true.
Proof.
  induction kvs as [|[k0 v0] t IH]; intro H; cbn [map_set]; [reflexivity|].
  destruct (val_key_eqb k0 k) eqn:E.
  - apply val_key_eqb_eq in E. subst k0. exact H.
  - cbn [map fst nodup_keys] in *. apply andb_prop in H. destruct H as [H1 H2].
    apply andb_true_intro. split; [|apply IH; exact H2].
    destruct (existsb (val_key_eqb k0) (map fst (map_set t k v))) eqn:Ex; [|reflexivity].
    apply existsb_map_set in Ex. destruct Ex as [Ex|Ex].
    + rewrite Ex in H1. discriminate H1.
    + rewrite Ex in E. discriminate E.
Qed.

Lemma field_item_wt sch child md mid idx f wt msg rest1 msg' r :
  child_wt sch child -> get_msg sch mid = Some md -> nth_error (m_fields md) idx = Some f ->
  wt_msg sch mid msg = true -> field_item sch child md idx f wt msg rest1 = Ok (msg', r) ->
  wt_msg sch mid msg' = true.
Proof.
  intros Hc Hg Hn Hm.
  destruct msg as [| | | | | |slots unk| |]; try discriminate Hm.
  rewrite wt_msg_unfold, Hg in Hm. apply andb_prop in Hm. destruct Hm as [Hs Ho].
  unfold field_item. cbn [slots_of unk_of].
  pose proof (wt_slots_nth _ _ _ _ _ Hs Hn) as Hsl.
  set (s := nth idx slots VNil) in *. unfold wt_slot in Hsl.
  destruct (f_shape f) as [|pk|oi|kk] eqn:Esh.
  - (* Singular *)
    destruct (wt =? ftype_wt (f_ty f)); [|discriminate].
    destruct (dec_item child (f_ty f) s rest1) as [[v r0]| | |] eqn:Ei; try discriminate.
    intro H. injection H as <- _.
    eapply put_wt; try eassumption.
    + unfold wt_slot. rewrite Esh. eapply dec_item_wt; [exact Hc| |exact Ei]. apply wt_elem_tg_ok. exact Hsl.
    + intro oi. unfold oo_term. rewrite Esh. reflexivity.
  - (* Rep *)
    change (wt_rep sch (f_ty f) s = true) in Hsl.
    assert (Hput : forall s', wt_rep sch (f_ty f) s' = true ->
                              wt_msg sch mid (VMsg (set_nth slots idx s') unk) = true).
    { intros s' Hs'. eapply put_wt; try eassumption.
      - unfold wt_slot. rewrite Esh. exact Hs'.
      - intro oi. unfold oo_term. rewrite Esh. reflexivity. }
    destruct (f_ty f) as [kd|m0] eqn:Ety.
    + destruct (negb (kind_wt kd =? WT_BYTES)).
      * destruct (wt =? kind_wt kd).
        { destruct (dec_scalar kd rest1) as [[v r0]|] eqn:Es; [|discriminate].
          intro H. injection H as <- _. apply Hput. apply list_append_wt; [exact Hsl|].
          cbn [wt_elem]. eapply dec_scalar_wt. exact Es. }
        destruct (wt =? WT_BYTES); [|discriminate].
        destruct (dec_varint rest1) as [[[raw n] rest2]|]; [|discriminate].
        destruct (s64 raw <? 0)%Z; [discriminate|].
        destruct (Z.of_nat (length rest2) <? s64 raw)%Z; [discriminate|].
        destruct (packed_loop (S (length rest2)) kd (s64 raw) s rest2) as [[s' r0]| | |] eqn:Ep; try discriminate.
        intro H. injection H as <- _. apply Hput. eapply packed_loop_wt; [exact Hsl|exact Ep].
      * destruct (wt =? WT_BYTES); [|discriminate].
        destruct (dec_scalar kd rest1) as [[v r0]|] eqn:Es; [|discriminate].
        intro H. injection H as <- _. apply Hput. apply list_append_wt; [exact Hsl|].
        cbn [wt_elem]. eapply dec_scalar_wt. exact Es.
    + destruct (wt =? WT_BYTES); [|discriminate].
      destruct (dec_item child (TMsg m0) VNil rest1) as [[v r0]| | |] eqn:Ei; try discriminate.
      intro H. injection H as <- _. apply Hput. apply list_append_wt; [exact Hsl|].
      eapply dec_item_wt; [exact Hc| |exact Ei]. exact I.
  - (* Member *)
    destruct (wt =? ftype_wt (f_ty f)); [|discriminate].
    set (tg := match s with VSome p => p | _ => VNil end).
    assert (Htg : tg_ok_t sch (f_ty f) tg).
    { subst tg. destruct s; try discriminate Hsl; try (destruct (f_ty f); exact I).
      apply wt_elem_tg_ok. exact Hsl. }
    destruct (dec_item child (f_ty f) tg rest1) as [[v r0]| | |] eqn:Ei; try discriminate.
    intro H. injection H as <- _.
    eapply put_member_wt; try eassumption.
    eapply dec_item_wt; [exact Hc|exact Htg|exact Ei].
  - (* MapOf *)
    destruct (wt =? WT_BYTES); [|discriminate].
    destruct (dec_varint rest1) as [[[raw n] rest2]|]; [|discriminate].
    destruct (s64 raw <? 0)%Z; [discriminate|].
    destruct (Z.of_nat (length rest2) <? s64 raw)%Z; [discriminate|].
    set (kvs := match s with VMap kvs => kvs | _ => [] end).
    assert (Hkvs : forallb (fun kv => wt_scalar kk (fst kv) && wt_elem (wt_msg sch) (f_ty f) (snd kv)) kvs
                   && nodup_keys (map fst kvs) = true).
    { subst kvs. destruct s; try discriminate Hsl; [reflexivity|exact Hsl]. }
    apply andb_prop in Hkvs. destruct Hkvs as [Hk1 Hk2].
    match goal with |- context [entry_loop ?c ?fu ?a1 ?a2 ?a3 ?a4 ?a5 ?a6] =>
      destruct (entry_loop c fu a1 a2 a3 a4 a5 a6) as [[k0 v0]| | |] eqn:Ee end; try discriminate.
    apply (entry_loop_wt sch) in Ee; [|exact Hc|apply zero_scalar_wt|apply map_value_init_wt].
    destruct Ee as [Hk0 Hv0].
    intro H. injection H as <- _.
    eapply put_wt; try eassumption.
    + unfold wt_slot. rewrite Esh. apply andb_true_intro. split.
      * apply map_set_forall; [exact Hk1|]. cbn [fst snd]. rewrite Hk0, Hv0. reflexivity.
      * apply map_set_nodup. exact Hk2.
    + intro oi. unfold oo_term. rewrite Esh. reflexivity.
Qed.

Lemma msg_loop_wt sch discard child md mid : child_wt sch child -> get_msg sch mid = Some md ->
  forall fuel msg rest m, wt_msg sch mid msg = true ->
  msg_loop sch discard child md fuel msg rest = Ok m -> wt_msg sch mid m = true.
Proof.
  intros Hc Hg. induction fuel as [|fu IH]; intros msg rest m Hm; cbn [msg_loop]; [discriminate|].
  destruct rest as [|b0 t0] eqn:Er; [intro E; injection E as <-; exact Hm|]. rewrite <- Er. clear Er.
  destruct (dec_varint rest) as [[[raw n] rest1]|]; [|discriminate].
  destruct (u64 raw mod 8 =? 4); [discriminate|].
  destruct (s32 (u64 raw / 8) <=? 0)%Z; [discriminate|].
  destruct (find_field (m_fields md) 0 (s32 (u64 raw / 8))) as [[idx f]|] eqn:Ef.
  - apply find_field_in in Ef. destruct Ef as [_ Ef]. rewrite Nat.sub_0_r in Ef.
    destruct (field_item sch child md idx f (u64 raw mod 8) msg rest1) as [[msg' rest']| | |] eqn:Ei; try discriminate.
    apply IH. eapply field_item_wt; eassumption.
  - destruct (Skip rest) as [skippy| | |]; try discriminate.
    destruct (Z.of_nat (length rest) <? skippy)%Z; [discriminate|].
    apply IH. destruct discard; [exact Hm|].
    destruct msg as [| | | | | |slots unk| |]; try discriminate Hm.
    cbn [slots_of unk_of]. rewrite wt_msg_unfold in *. exact Hm.
Qed.

Lemma unmarshal_at_wt sch discard : forall fuel depth mid tg bs m,
  tg_ok sch mid tg -> unmarshal_at sch discard fuel depth mid tg bs = Ok m -> wt_msg sch mid m = true.
Proof.
  induction fuel as [|f IH]; intros depth mid tg bs m Htg; cbn [unmarshal_at]; [discriminate|].
  destruct (depth <=? 0)%Z; [discriminate|].
  destruct (get_msg sch mid) as [md|] eqn:Hg; [|discriminate].
  apply (msg_loop_wt sch discard _ md mid); [|exact Hg|].
  - intros m0 tg0 p v Ht0 Hc. eapply IH; eassumption.
  - destruct tg; try (apply empty_msg_wt; exact Hg). exact Htg.
Qed.

Lemma accepted_wt sch discard : wf sch = true -> forall mid init bs m, (mid < length sch)%nat ->
  (init = VNil \/ wt_msg sch mid init = true) -> pulsar_unmarshal sch discard mid init bs = Ok m -> wt_msg sch mid m = true.
Proof.
  intros _ mid init bs m _ Hinit. unfold pulsar_unmarshal. apply unmarshal_at_wt.
  destruct Hinit as [->|Hi]; [exact I|]. unfold tg_ok. destruct init; trivial.
Qed.
