(* Proofs/BytesLemmas.v — arithmetic characterisations of the byte / varint primitives. *)
From Coq Require Import Lia ZifyN ZifyNat ZifyBool PreOmega.
Ltac Zify.zify_post_hook ::= Z.div_mod_to_equations.
From CP Require Import Bytes.
Local Open Scope N_scope.

Lemma b2n_lt b : b2n b < 256.
Proof. unfold b2n. pose proof (Byte.to_N_bounded b). lia. Qed.

Lemma b2n_n2b n : b2n (n2b n) = n mod 256.
Proof.
  unfold b2n, n2b. destruct (Byte.of_N (n mod 256)) eqn:E.
  - apply Byte.to_of_N in E. exact E.
  - rewrite Byte.of_N_None_iff in E. pose proof (N.mod_upper_bound n 256). lia.
Qed.

Lemma n2b_b2n b : n2b (b2n b) = b.
Proof.
  unfold n2b, b2n. rewrite N.mod_small by (pose proof (Byte.to_N_bounded b); lia).
  rewrite Byte.of_to_N. reflexivity.
Qed.

Lemma b2n_n2b_small n : n < 256 -> b2n (n2b n) = n.
Proof. intro H. rewrite b2n_n2b. apply N.mod_small. exact H. Qed.

(* finite sweep helper: a boolean predicate checked on 0..n-1 holds below n *)
Lemma sweep (P : N -> bool) (n : nat) :
  forallb P (map N.of_nat (seq 0 n)) = true -> forall x, x < N.of_nat n -> P x = true.
Proof.
  intros H x Hx. rewrite forallb_forall in H. apply H.
  apply in_map_iff. exists (N.to_nat x). split; [apply N2Nat.id|].
  apply in_seq. lia.
Qed.

Lemma lor_128_small x : x < 128 -> N.lor x 128 = x + 128.
Proof.
  intro H. apply N.eqb_eq.
  apply (sweep (fun x => N.lor x 128 =? x + 128) 128); [vm_compute; reflexivity | exact H].
Qed.

Lemma lor_land_128 v : N.lor (N.land v 127) 128 = v mod 128 + 128.
Proof.
  change 127 with (N.ones 7). rewrite N.land_ones. change (2^7) with 128.
  apply lor_128_small. apply N.mod_upper_bound. discriminate.
Qed.

Lemma land_127_of_cont v : N.land (v mod 128 + 128) 127 = v mod 128.
Proof.
  change 127 with (N.ones 7). rewrite N.land_ones. change (2^7) with 128.
  replace (v mod 128 + 128) with (v mod 128 + 1 * 128) by lia.
  rewrite N.mod_add by discriminate. apply N.mod_mod. discriminate.
Qed.

Lemma land_127_small v : v < 128 -> N.land v 127 = v.
Proof.
  intro H. change 127 with (N.ones 7). rewrite N.land_ones. apply N.mod_small. exact H.
Qed.

(* splitting a shifted value into its low 7 bits and the rest *)
Lemma shiftl_split7 v s :
  N.lor (N.shiftl (v mod 128) s) (N.shiftl (v / 128) (s + 7)) = N.shiftl v s.
Proof.
  apply N.bits_inj. intro i.
  rewrite N.lor_spec.
  destruct (N.ltb_spec i s) as [Hlt|Hge].
  - rewrite !N.shiftl_spec_low by lia. reflexivity.
  - rewrite (N.shiftl_spec_high' _ s i) by lia.
    rewrite (N.shiftl_spec_high' v s i) by lia.
    change 128 with (2^7). rewrite <- N.land_ones, N.land_spec.
    destruct (N.ltb_spec (i - s) 7) as [Hl|Hh].
    + rewrite N.ones_spec_low by lia. rewrite N.shiftl_spec_low by lia.
      rewrite andb_true_r, orb_false_r. reflexivity.
    + rewrite N.ones_spec_high by lia. rewrite andb_false_r, orb_false_l.
      rewrite N.shiftl_spec_high' by lia.
      rewrite <- N.shiftr_div_pow2, N.shiftr_spec'. f_equal. lia.
Qed.

(* ---- len64 / log2 facts ------------------------------------------------------------- *)
Lemma lor_1_bounds x : x <= N.lor x 1 <= x + 1.
Proof.
  destruct (N.even x) eqn:E.
  - assert (N.lor x 1 = x + 1).
    { apply N.even_spec in E. destruct E as [k ->].
      destruct k; [reflexivity|]. cbn. reflexivity. }
    lia.
  - assert (N.lor x 1 = x).
    { rewrite <- N.negb_odd in E. apply negb_false_iff in E. apply N.odd_spec in E. destruct E as [k ->].
      destruct k; [reflexivity|]. cbn. reflexivity. }
    lia.
Qed.

Lemma log2_lor_1 x : 0 < x -> N.log2 (N.lor x 1) = N.log2 x.
Proof.
  intro Hx. pose proof (lor_1_bounds x) as Hb.
  destruct (N.even x) eqn:Ev.
  - apply N.log2_unique; [lia|].
    pose proof (N.log2_spec x Hx) as [H1 H2].
    split; [lia|].
    apply N.even_spec in Ev. destruct Ev as [k Hk].
    rewrite N.pow_succ_r' in *. lia.
  - assert (N.lor x 1 = x).
    { rewrite <- N.negb_odd in Ev. apply negb_false_iff in Ev. apply N.odd_spec in Ev. destruct Ev as [k ->].
      destruct k; [reflexivity|]. cbn. reflexivity. }
    congruence.
Qed.

(* ---- enc_varint: length and shape ---------------------------------------------------- *)
Lemma enc_varint_aux_nonempty f v : (0 < f)%nat -> enc_varint_aux f v <> [].
Proof. destruct f; [lia|]. intros _. cbn [enc_varint_aux]. destruct (v <? 128); discriminate. Qed.

Lemma enc_varint_aux_len_le f v : (length (enc_varint_aux f v) <= f)%nat.
Proof.
  revert v. induction f as [|f IH]; intro v; cbn [enc_varint_aux length]; [lia|].
  destruct (v <? 128); cbn [length]; [lia|]. specialize (IH (N.shiftr v 7)). lia.
Qed.

Lemma enc_varint_len_bounds v : (1 <= length (enc_varint v) <= 10)%nat.
Proof.
  unfold enc_varint. split.
  - pose proof (enc_varint_aux_nonempty 10 v ltac:(lia)). destruct (enc_varint_aux 10 v); [congruence|cbn;lia].
  - apply enc_varint_aux_len_le.
Qed.

(* ---- dec_varint ∘ enc_varint --------------------------------------------------------- *)
Lemma dec_enc_varint_aux f v shift acc n rest :
  (0 < f)%nat -> v < 2 ^ (7 * N.of_nat f) ->
  dec_varint_aux f shift acc n (enc_varint_aux f v ++ rest)
  = Some (N.lor acc (N.shiftl v shift), (n + length (enc_varint_aux f v))%nat, rest).
Proof.
  revert v shift acc n. induction f as [|f IH]; intros v shift acc n Hf Hv; [lia|].
  cbn [enc_varint_aux]. destruct (N.ltb_spec v 128) as [Hs|Hb].
  - cbn [app dec_varint_aux length]. rewrite b2n_n2b_small by lia.
    destruct (N.ltb_spec v 128) as [_|?]; [|lia].
    rewrite land_127_small by exact Hs. f_equal. f_equal. f_equal. lia.
  - cbn [app dec_varint_aux length].
    rewrite lor_land_128.
    assert (Hm : v mod 128 < 128) by (apply N.mod_upper_bound; discriminate).
    rewrite b2n_n2b_small by lia.
    destruct (N.ltb_spec (v mod 128 + 128) 128) as [?|_]; [lia|].
    rewrite land_127_of_cont.
    destruct f as [|f'].
    { exfalso. cbn in Hv. lia. }
    rewrite IH; [| lia |].
    + rewrite N.shiftr_div_pow2. change (2^7) with 128.
      rewrite <- N.lor_assoc, shiftl_split7. f_equal. f_equal. f_equal. lia.
    + rewrite N.shiftr_div_pow2. change (2^7) with 128.
      apply N.div_lt_upper_bound; [discriminate|].
      replace (7 * N.of_nat (S (S f'))) with (7 + 7 * N.of_nat (S f')) in Hv by lia.
      rewrite N.pow_add_r in Hv. exact Hv.
Qed.

Lemma dec_enc_varint v rest :
  v < two64 ->
  dec_varint (enc_varint v ++ rest) = Some (v, length (enc_varint v), rest).
Proof.
  intro H. unfold dec_varint, enc_varint.
  rewrite dec_enc_varint_aux; [|lia|].
  - rewrite N.lor_0_l, N.shiftl_0_r. reflexivity.
  - eapply N.lt_trans; [exact H|]. reflexivity.
Qed.

(* dec_varint consumes between 1 and 10 bytes and returns the matching suffix *)
Lemma dec_varint_aux_consumes f shift acc n bs w m rest :
  dec_varint_aux f shift acc n bs = Some (w, m, rest) ->
  exists pre, bs = pre ++ rest /\ (m = n + length pre)%nat /\ (1 <= length pre <= f)%nat.
Proof.
  revert shift acc n bs. induction f as [|f IH]; intros shift acc n bs H; [discriminate|].
  cbn in H. destruct bs as [|b t]; [discriminate|].
  destruct (b2n b <? 128).
  - injection H as <- <- <-. exists [b]. cbn. split; [reflexivity|]. lia.
  - apply IH in H. destruct H as (pre & -> & -> & Hl).
    exists (b :: pre). cbn. split; [reflexivity|]. lia.
Qed.

Lemma dec_varint_consumes bs w m rest :
  dec_varint bs = Some (w, m, rest) ->
  exists pre, bs = pre ++ rest /\ m = length pre /\ (1 <= length pre <= 10)%nat.
Proof.
  intro H. apply dec_varint_aux_consumes in H. destruct H as (pre & ? & ? & ?).
  exists pre. repeat split; try assumption; lia.
Qed.

(* ---- machine integer wraps ----------------------------------------------------------- *)
Lemma s64_small x : x < two63 -> s64 x = Z.of_N x.
Proof.
  intro H. unfold s64. rewrite N.mod_small by (unfold two64, two63 in *; lia).
  destruct (N.ltb_spec x two63); [reflexivity|lia].
Qed.

Lemma z2u64_nonneg z : (0 <= z < Z.of_N two64)%Z -> z2u64 z = Z.to_N z.
Proof. intro H. unfold z2u64. rewrite Z.mod_small by exact H. reflexivity. Qed.

Lemma wrap64_small z : (0 <= z < Z.of_N two63)%Z -> wrap64 z = z.
Proof.
  intro H. unfold wrap64. rewrite z2u64_nonneg by (unfold two63, two64 in *; lia).
  rewrite s64_small by (unfold two63 in *; lia). lia.
Qed.

Lemma wrap64_big_neg z : (Z.of_N two63 <= z < Z.of_N two64)%Z -> (wrap64 z < 0)%Z.
Proof.
  intro H. unfold wrap64. rewrite z2u64_nonneg by (unfold two63, two64 in *; lia).
  unfold s64. rewrite N.mod_small by (unfold two63, two64 in *; lia).
  destruct (N.ltb_spec (Z.to_N z) two63); unfold two63, two64 in *; lia.
Qed.

(* zskipn never grows a list *)
Lemma zskipn_length {A} k (l : list A) : (length (zskipn k l) <= length l)%nat.
Proof.
  unfold zskipn. destruct (k <=? 0)%Z; [lia|].
  destruct (Z.of_nat (length l) <=? k)%Z; [cbn; lia|].
  rewrite skipn_length. lia.
Qed.

Lemma zskipn_app_exact {A} (a b : list A) : zskipn (Z.of_nat (length a)) (a ++ b) = b.
Proof.
  unfold zskipn. destruct a as [|x a'].
  - reflexivity.
  - destruct (Z.leb_spec (Z.of_nat (length (x :: a'))) 0) as [H|_]; [cbn in H; lia|].
    rewrite app_length.
    destruct (Z.leb_spec (Z.of_nat (length (x :: a') + length b)) (Z.of_nat (length (x :: a')))) as [H|H].
    + assert (length b = 0)%nat by lia. destruct b; [|discriminate]. reflexivity.
    + rewrite Nat2Z.id. rewrite skipn_app, skipn_all, Nat.sub_diag. reflexivity.
Qed.

Lemma skipn_skipn' {A} (a b : nat) (l : list A) : skipn a (skipn b l) = skipn (b + a) l.
Proof.
  revert l. induction b as [|b IH]; intro l; [reflexivity|].
  destruct l as [|x t]; [cbn; destruct a; reflexivity|]. cbn. apply IH.
Qed.
