From CP Require Import Extra BytesLemmas RuntimeProofs ValInd.
From Coq Require Import Lia ZifyN ZifyNat ZifyBool Permutation PreOmega.
Ltac Zify.zify_post_hook ::= Z.div_mod_to_equations.
Local Open Scope N_scope.

Ltac unf := unfold two64, two63, two32, two31 in *.

Lemma z2u64_lt z : z2u64 z < two64.
Proof. unfold z2u64. unf. lia. Qed.
Lemma z2u32_lt z : z2u32 z < two32.
Proof. unfold z2u32. unf. lia. Qed.

Lemma z2u64_cases z : (-9223372036854775808 <= z < 18446744073709551616)%Z ->
  Z.of_N (z2u64 z) = (if (z <? 0)%Z then z + 18446744073709551616 else z)%Z.
Proof. intro H. unfold z2u64. unf. destruct (Z.ltb_spec z 0); lia. Qed.
Lemma z2u32_cases z : (-2147483648 <= z < 4294967296)%Z ->
  Z.of_N (z2u32 z) = (if (z <? 0)%Z then z + 4294967296 else z)%Z.
Proof. intro H. unfold z2u32. unf. destruct (Z.ltb_spec z 0); lia. Qed.

Lemma s64_z2u64 z : (-9223372036854775808 <= z < 9223372036854775808)%Z -> s64 (z2u64 z) = z.
Proof. intro H. pose proof (z2u64_cases z ltac:(lia)) as E. unfold s64. set (x := z2u64 z) in *. 
  destruct (Z.ltb_spec z 0); unf; destruct (N.ltb_spec (x mod 18446744073709551616) 9223372036854775808); lia. Qed.

Lemma s32_z2u64 z : (-2147483648 <= z < 2147483648)%Z -> s32 (z2u64 z) = z.
Proof. intro H. pose proof (z2u64_cases z ltac:(lia)) as E. unfold s32. set (x := z2u64 z) in *. 
  destruct (Z.ltb_spec z 0); unf; destruct (N.ltb_spec (x mod 4294967296) 2147483648); lia. Qed.

Lemma s32_z2u32 z : (-2147483648 <= z < 2147483648)%Z -> s32 (z2u32 z) = z.
Proof. intro H. pose proof (z2u32_cases z ltac:(lia)) as E. unfold s32. set (x := z2u32 z) in *. 
  destruct (Z.ltb_spec z 0); unf; destruct (N.ltb_spec (x mod 4294967296) 2147483648); lia. Qed.

Lemma u32_z2u64 z : (0 <= z < 4294967296)%Z -> Z.of_N (u32 (z2u64 z)) = z.
Proof. intro H. pose proof (z2u64_cases z ltac:(lia)) as E. unfold u32. set (x := z2u64 z) in *. 
  destruct (Z.ltb_spec z 0); unf; lia. Qed.
Lemma u64_z2u64 z : (0 <= z < 18446744073709551616)%Z -> Z.of_N (u64 (z2u64 z)) = z.
Proof. intro H. pose proof (z2u64_cases z ltac:(lia)) as E. unfold u64. set (x := z2u64 z) in *. 
  destruct (Z.ltb_spec z 0); unf; lia. Qed.
Lemma zigzag32_spec z :
  (- Z.of_N two31 <= z < Z.of_N two31)%Z ->
  zigzag32 (z2u32 z) = Z.to_N (if (z <? 0)%Z then (-2 * z - 1)%Z else (2 * z)%Z).
Proof.
  intro H. unfold zigzag32, z2u32, u32.
  destruct (Z.ltb_spec z 0) as [Hn|Hp].
  - assert (E : (z mod Z.of_N two32 = z + Z.of_N two32)%Z).
    { symmetry. apply Z.mod_unique with (q := (-1)%Z); unf; lia. }
    rewrite E. rewrite N.shiftl_mul_pow2. change (2^1) with 2.
    set (x := Z.to_N (z + Z.of_N two32)).
    assert (Hx : Z.of_N x = (z + Z.of_N two32)%Z) by (unfold x; unf; lia).
    rewrite (N.mod_small x) by (unf; lia).
    destruct (N.ltb_spec x two31) as [Hl|_]; [unf; lia|].
    assert (Em : (x * 2) mod two32 = Z.to_N (2 * z + Z.of_N two32)).
    { symmetry. apply N.mod_unique with (q := 1); unf; lia. }
    rewrite Em. change (two32 - 1) with (N.ones 32).
    rewrite lxor_ones_low by (change (2^32) with two32; unf; lia).
    change (N.ones 32) with (two32 - 1). unf. lia.
  - rewrite Z.mod_small by (unf; lia).
    rewrite N.shiftl_mul_pow2. change (2^1) with 2.
    rewrite (N.mod_small (Z.to_N z)) by (unf; lia).
    destruct (N.ltb_spec (Z.to_N z) two31) as [_|Hl]; [|unf; lia].
    rewrite N.lxor_0_r. rewrite N.mod_small by (unf; lia). lia.
Qed.

Lemma land_1 v : N.land v 1 = v mod 2.
Proof. change 1 with (N.ones 1). rewrite N.land_ones. reflexivity. Qed.

Lemma unzigzag64_spec v : v < two64 ->
  unzigzag64 v = if v mod 2 =? 0 then v / 2 else two64 - 1 - v / 2.
Proof.
  intro H. unfold unzigzag64. rewrite land_1, N.shiftr_div_pow2. change (2^1) with 2.
  destruct (v mod 2 =? 0); [apply N.lxor_0_r|].
  change (two64 - 1) with (N.ones 64). apply lxor_ones_low. change (2^64) with two64. unf. lia.
Qed.

Lemma unzigzag32_spec v : v < two32 ->
  unzigzag32 v = if v mod 2 =? 0 then v / 2 else two32 - 1 - v / 2.
Proof.
  intro H. unfold unzigzag32, u32. rewrite (N.mod_small v) by exact H. rewrite land_1, N.shiftr_div_pow2. change (2^1) with 2.
  destruct (v mod 2 =? 0); [apply N.lxor_0_r|].
  change (two32 - 1) with (N.ones 32). apply lxor_ones_low. change (2^32) with two32. unf. lia.
Qed.

Lemma sint64_rt z : (-9223372036854775808 <= z < 9223372036854775808)%Z ->
  zigzag64 (z2u64 z) < two64 /\ s64 (unzigzag64 (u64 (zigzag64 (z2u64 z)))) = z.
Proof.
  intro H. rewrite zigzag64_spec by (unf; lia).
  set (n := Z.to_N (if (z <? 0)%Z then (-2 * z - 1)%Z else (2 * z)%Z)).
  assert (Hn : Z.of_N n = (if (z <? 0)%Z then (-2 * z - 1)%Z else (2 * z)%Z)) by (unfold n; destruct (Z.ltb_spec z 0); lia).
  assert (Hlt : n < two64) by (destruct (Z.ltb_spec z 0); unf; lia).
  split; [exact Hlt|].
  unfold u64. rewrite (N.mod_small n) by exact Hlt. rewrite unzigzag64_spec by exact Hlt.
  unfold s64.
  destruct (Z.ltb_spec z 0); destruct (N.eqb_spec (n mod 2) 0);
  match goal with |- context [?a <? two63] => destruct (N.ltb_spec a two63) end; unf; lia.
Qed.

Lemma sint32_rt z : (-2147483648 <= z < 2147483648)%Z ->
  zigzag32 (z2u32 z) < two32 /\ s32 (unzigzag32 (u32 (zigzag32 (z2u32 z)))) = z.
Proof.
  intro H. rewrite zigzag32_spec by (unf; lia).
  set (n := Z.to_N (if (z <? 0)%Z then (-2 * z - 1)%Z else (2 * z)%Z)).
  assert (Hn : Z.of_N n = (if (z <? 0)%Z then (-2 * z - 1)%Z else (2 * z)%Z)) by (unfold n; destruct (Z.ltb_spec z 0); lia).
  assert (Hlt : n < two32) by (destruct (Z.ltb_spec z 0); unf; lia).
  split; [exact Hlt|].
  unfold u32. rewrite (N.mod_small n) by exact Hlt. rewrite unzigzag32_spec by exact Hlt.
  unfold s32.
  destruct (Z.ltb_spec z 0); destruct (N.eqb_spec (n mod 2) 0);
  match goal with |- context [?a <? two31] => destruct (N.ltb_spec a two31) end; unf; lia.
Qed.
Lemma dec_le_fixed32 n : dec_le (enc_fixed32 n) = n mod two32.
Proof.
  unfold enc_fixed32, dec_le. cbn [fold_right]. rewrite !b2n_n2b, !N.shiftr_div_pow2.
  change (2^8) with 256. change (2^16) with 65536. change (2^24) with 16777216. unf. lia.
Qed.

Lemma dec_le_app a b : dec_le (a ++ b) = dec_le a + 256 ^ N.of_nat (length a) * dec_le b.
Proof.
  induction a as [|x a IH]; cbn [app length dec_le fold_right].
  - change (256 ^ N.of_nat 0) with 1. unfold dec_le. lia.
  - fold (dec_le (a ++ b)). fold (dec_le a). rewrite IH. rewrite Nat2N.inj_succ, N.pow_succ_r'. lia.
Qed.

Lemma dec_le_fixed64 n : n < two64 -> dec_le (enc_fixed64 n) = n.
Proof.
  intro H. unfold enc_fixed64. rewrite dec_le_app, !dec_le_fixed32.
  change (256 ^ N.of_nat (length (enc_fixed32 n))) with 4294967296.
  rewrite N.shiftr_div_pow2. change (2^32) with 4294967296. unf. lia.
Qed.

Lemma take_fixed_app p rest : take_fixed (length p) (p ++ rest) = Some (dec_le p, rest).
Proof.
  unfold take_fixed. rewrite app_length.
  destruct (Nat.ltb_spec (length p + length rest) (length p)); [lia|].
  rewrite firstn_app, Nat.sub_diag, firstn_all. cbn [firstn]. rewrite app_nil_r.
  rewrite skipn_app, Nat.sub_diag, skipn_all. reflexivity.
Qed.

Lemma take_fixed32 n rest : n < two32 -> take_fixed 4 (enc_fixed32 n ++ rest) = Some (n, rest).
Proof.
  intro H. change 4%nat with (length (enc_fixed32 n)). rewrite take_fixed_app, dec_le_fixed32.
  rewrite N.mod_small by exact H. reflexivity.
Qed.
Lemma take_fixed64 n rest : n < two64 -> take_fixed 8 (enc_fixed64 n ++ rest) = Some (n, rest).
Proof.
  intro H. change 8%nat with (length (enc_fixed64 n)). rewrite take_fixed_app, dec_le_fixed64 by exact H.
  reflexivity.
Qed.

Lemma take_len_lenpfx p rest : N.of_nat (length p) < two63 ->
  take_len (enc_varint (N.of_nat (length p)) ++ p ++ rest) = Some (p, rest).
Proof.
  intro H. unfold take_len. rewrite dec_enc_varint by (unf; lia).
  rewrite s64_small by exact H.
  destruct (Z.ltb_spec (Z.of_N (N.of_nat (length p))) 0); [lia|].
  rewrite app_length.
  destruct (Z.ltb_spec (Z.of_nat (length p + length rest)) (Z.of_N (N.of_nat (length p)))); [lia|].
  replace (Z.to_nat (Z.of_N (N.of_nat (length p)))) with (length p) by lia.
  rewrite firstn_app, Nat.sub_diag, firstn_all. cbn [firstn]. rewrite app_nil_r.
  rewrite skipn_app, Nat.sub_diag, skipn_all. reflexivity.
Qed.

Lemma in_range_z_spec lo hi z : in_range_z lo hi z = true -> (lo <= z < hi)%Z.
Proof. unfold in_range_z. intro H. apply andb_prop in H. destruct H as [H1 H2]. apply Z.leb_le in H1. apply Z.ltb_lt in H2. lia. Qed.

Lemma scalar_roundtrip k v rest : wt_scalar k v = true -> N.of_nat (length (as_bytes v)) < two63 ->
  dec_scalar k (scalar_payload k v ++ rest) = Some (norm_scalar k v, rest).
Proof.
  intros Hwt Hlen.
  destruct k; destruct v as [z|b|n|l| |p|sl un|l|kvs]; try discriminate Hwt;
    cbn [wt_scalar] in Hwt; try apply in_range_z_spec in Hwt;
    unfold dec_scalar, scalar_payload, norm_scalar, as_u64, as_u32, as_bits, as_z, as_bool, blen, as_bytes in *.
  - (* double *) apply N.ltb_lt in Hwt. rewrite take_fixed64 by exact Hwt. reflexivity.
  - (* float *) apply N.ltb_lt in Hwt. rewrite take_fixed32 by exact Hwt. reflexivity.
  - (* int32 *) rewrite dec_enc_varint by apply z2u64_lt. cbn [varint_val]. rewrite s32_z2u64 by lia. reflexivity.
  - (* int64 *) rewrite dec_enc_varint by apply z2u64_lt. cbn [varint_val]. rewrite s64_z2u64 by lia. reflexivity.
  - (* uint32 *) rewrite dec_enc_varint by apply z2u64_lt. cbn [varint_val]. rewrite u32_z2u64 by lia. reflexivity.
  - (* uint64 *) rewrite dec_enc_varint by apply z2u64_lt. cbn [varint_val]. rewrite u64_z2u64 by lia. reflexivity.
  - (* sint32 *) destruct (sint32_rt z ltac:(lia)) as [H1 H2].
    rewrite dec_enc_varint by (unf; lia). cbn [varint_val].
    rewrite H2. reflexivity.
  - (* sint64 *) destruct (sint64_rt z ltac:(lia)) as [H1 H2].
    rewrite dec_enc_varint by exact H1. cbn [varint_val]. rewrite H2. reflexivity.
  - (* fixed32 *) rewrite take_fixed32 by apply z2u32_lt. cbn [fixed_val]. rewrite z2u32_cases by lia.
    destruct (Z.ltb_spec z 0); [lia|reflexivity].
  - (* fixed64 *) rewrite take_fixed64 by apply z2u64_lt. cbn [fixed_val]. rewrite z2u64_cases by lia.
    destruct (Z.ltb_spec z 0); [lia|reflexivity].
  - (* sfixed32 *) rewrite take_fixed32 by apply z2u32_lt. cbn [fixed_val]. rewrite s32_z2u32 by lia. reflexivity.
  - (* sfixed64 *) rewrite take_fixed64 by apply z2u64_lt. cbn [fixed_val]. rewrite s64_z2u64 by lia. reflexivity.
  - (* bool *) destruct b; reflexivity.
  - (* string *) rewrite <- app_assoc. rewrite take_len_lenpfx by exact Hlen. reflexivity.
  - (* bytes *) rewrite <- app_assoc. rewrite take_len_lenpfx by exact Hlen. reflexivity.
  - (* bytes nil *) rewrite <- app_assoc. rewrite (take_len_lenpfx []) by exact Hlen. reflexivity.
  - (* enum *) rewrite dec_enc_varint by apply z2u64_lt. cbn [varint_val]. rewrite s32_z2u64 by lia. reflexivity.
Qed.

(* ================================================================ keys *)
Lemma gen_key_word_eq num wt : num < 536870912 -> wt < 8 -> gen_key_word num wt = num * 8 + wt.
Proof.
  intros Hn Hw. unfold gen_key_word, u32. rewrite N.shiftl_mul_pow2. change (2^3) with 8.
  rewrite N.mod_small by (unf; lia).
  assert (C : wt = 0 \/ wt = 1 \/ wt = 2 \/ wt = 3 \/ wt = 4 \/ wt = 5 \/ wt = 6 \/ wt = 7) by lia.
  destruct num as [|p]; [destruct C as [->|[->|[->|[->|[->|[->|[->| ->]]]]]]]; reflexivity|].
  replace (N.pos p * 8) with (N.pos p~0~0~0) by lia.
  destruct C as [->|[->|[->|[->|[->|[->|[->| ->]]]]]]]; cbn; lia.
Qed.

Lemma gen_key_bytes_enc f : forall g x, x < 2 ^ (7 * (N.of_nat f + 1)) -> (f < g)%nat ->
  gen_key_bytes_aux (S f) x = enc_varint_aux g x.
Proof.
  induction f as [|f IH]; intros g x Hx Hg; (destruct g as [|g]; [lia|]); cbn [gen_key_bytes_aux enc_varint_aux].
  - change (2 ^ (7 * (N.of_nat 0 + 1))) with 128 in Hx.
    destruct (N.ltb_spec 127 x); [lia|]. destruct (N.ltb_spec x 128); [reflexivity|lia].
  - destruct (N.ltb_spec 127 x); destruct (N.ltb_spec x 128); try lia; [|reflexivity].
    rewrite (N.lor_comm 128). f_equal. apply IH; [|lia].
    rewrite N.shiftr_div_pow2. change (2^7) with 128.
    apply N.div_lt_upper_bound; [discriminate|].
    replace (7 * (N.of_nat (S f) + 1)) with (7 + 7 * (N.of_nat f + 1)) in Hx by lia.
    rewrite N.pow_add_r in Hx. exact Hx.
Qed.

Lemma key_bytes_tag num wt : num < 536870912 -> wt < 8 -> key_bytes num wt = enc_varint (num * 8 + wt).
Proof.
  intros Hn Hw. unfold key_bytes, enc_varint. rewrite gen_key_word_eq by assumption.
  apply gen_key_bytes_enc; [|lia]. change (2 ^ (7 * (N.of_nat 4 + 1))) with 34359738368. lia.
Qed.

Lemma key_bytes_nonempty num wt : key_bytes num wt <> [].
Proof.
  unfold key_bytes. cbn [gen_key_bytes_aux]. destruct (127 <? gen_key_word num wt); discriminate.
Qed.

Lemma key_bytes_len num wt : (1 <= length (key_bytes num wt))%nat.
Proof. pose proof (key_bytes_nonempty num wt). destruct (key_bytes num wt); [congruence|cbn; lia]. Qed.

Lemma dec_key num wt rest : num < 536870912 -> wt < 8 ->
  dec_varint (key_bytes num wt ++ rest) = Some (num * 8 + wt, length (key_bytes num wt), rest).
Proof.
  intros Hn Hw. rewrite key_bytes_tag by assumption. apply dec_enc_varint. unf. lia.
Qed.

Lemma key_fieldnum num wt : num < 536870912 -> wt < 8 -> s32 (u64 (num * 8 + wt) / 8) = Z.of_N num.
Proof.
  intros Hn Hw. unfold u64. rewrite N.mod_small by (unf; lia).
  replace ((num * 8 + wt) / 8) with num by lia.
  unfold s32. rewrite N.mod_small by (unf; lia). destruct (N.ltb_spec num two31); [reflexivity|unf; lia].
Qed.

Lemma key_wt num wt : num < 536870912 -> wt < 8 -> u64 (num * 8 + wt) mod 8 = wt.
Proof. intros Hn Hw. unfold u64. rewrite (N.mod_small (num * 8 + wt) two64) by (unf; lia). lia. Qed.

Lemma num_ok29_spec n : num_ok29 n = true -> 1 <= n < 536870912.
Proof. unfold num_ok29. intro H. apply andb_prop in H. destruct H as [H1 H2]. apply N.leb_le in H1. apply N.ltb_lt in H2. lia. Qed.

(* ================================================================ find_field *)
Lemma existsb_eqb_in x l : existsb (N.eqb x) l = false -> ~ In x l.
Proof.
  intros H Hin. assert (existsb (N.eqb x) l = true); [|congruence].
  apply existsb_exists. exists x. split; [exact Hin|apply N.eqb_refl].
Qed.

Lemma find_field_nth fs : forall i0 idx f, nth_error fs idx = Some f -> nodupb (map f_num fs) = true ->
  find_field fs i0 (Z.of_N (f_num f)) = Some ((i0 + idx)%nat, f).
Proof.
  induction fs as [|h t IH]; intros i0 idx f Hn Hd; [destruct idx; discriminate|].
  cbn [map nodupb] in Hd. apply andb_prop in Hd. destruct Hd as [Hh Ht].
  cbn [find_field]. destruct idx as [|j]; cbn [nth_error] in Hn.
  - injection Hn as ->. rewrite Z.eqb_refl. f_equal. f_equal. lia.
  - apply negb_true_iff in Hh. apply existsb_eqb_in in Hh.
    destruct (Z.eqb_spec (Z.of_N (f_num h)) (Z.of_N (f_num f))) as [E|E].
    + exfalso. apply Hh. apply N2Z.inj in E. rewrite E. apply in_map. eapply nth_error_In. exact Hn.
    + rewrite (IH (S i0) j f Hn Ht). f_equal. f_equal. lia.
Qed.

(* ================================================================ zip views of the inline fixes *)
Fixpoint zipf {B} (g : field -> val -> B) (fs : list field) (ss : list val) : list B :=
  match ss, fs with s :: ss', f :: fs' => g f s :: zipf g fs' ss' | _, _ => [] end.

Fixpoint zipall (g : field -> val -> bool) (fs : list field) (ss : list val) : bool :=
  match ss, fs with
  | s :: ss', f :: fs' => g f s && zipall g fs' ss'
  | [], [] => true
  | _, _ => false
  end.

Lemma emit_unfold sch det mid slots unk :
  emit sch det mid (VMsg slots unk) =
  match get_msg sch mid with
  | None => []
  | Some md => assemble md (zipf (fun f s => (f, emit_field det (emit sch det) f s)) (m_fields md) slots) ++ unk
  end.
Proof.
  cbn [emit]. destruct (get_msg sch mid) as [md|]; [|reflexivity]. f_equal. f_equal.
  generalize (m_fields md). induction slots as [|s ss IH]; intros [|f fs]; cbn [zipf]; try reflexivity.
  f_equal. apply IH.
Qed.

Lemma norm_unfold sch mid slots unk :
  norm sch mid (VMsg slots unk) =
  match get_msg sch mid with
  | None => VMsg slots unk
  | Some md => VMsg (zipf (norm_slot sch (norm sch)) (m_fields md) slots) unk
  end.
Proof.
  cbn [norm]. destruct (get_msg sch mid) as [md|]; [|reflexivity]. f_equal.
  generalize (m_fields md). induction slots as [|s ss IH]; intros [|f fs]; cbn [zipf]; try reflexivity.
  f_equal. apply IH.
Qed.

Lemma wt_msg_unfold sch mid slots unk :
  wt_msg sch mid (VMsg slots unk) =
  match get_msg sch mid with
  | None => false
  | Some md => zipall (wt_slot (wt_msg sch)) (m_fields md) slots
               && forallb (fun oi => (oneof_count (m_fields md) slots oi <=? 1)%nat) (seq 0 (m_oneofs md))
  end.
Proof.
  cbn [wt_msg]. destruct (get_msg sch mid) as [md|]; [|reflexivity]. f_equal.
  generalize (m_fields md). induction slots as [|s ss IH]; intros [|f fs]; cbn [zipall]; try reflexivity.
  f_equal. apply IH.
Qed.

Lemma zipall_spec g fs : forall ss, zipall g fs ss = true ->
  length ss = length fs /\
  forall i f s, nth_error fs i = Some f -> nth_error ss i = Some s -> g f s = true.
Proof.
  induction fs as [|f fs IH]; intros [|s ss] H; cbn [zipall] in H; try discriminate.
  - split; [reflexivity|]. intros [|i]; discriminate.
  - apply andb_prop in H. destruct H as [H1 H2]. destruct (IH ss H2) as [IL IN].
    split; [cbn; lia|]. intros [|i] f' s' Hf Hs; cbn [nth_error] in *.
    + congruence.
    + eapply IN; eassumption.
Qed.

Lemma zipf_length {B} (g : field -> val -> B) fs : forall ss, length ss = length fs -> length (zipf g fs ss) = length fs.
Proof. induction fs as [|f fs IH]; intros [|s ss] H; cbn in *; try lia. rewrite IH; lia. Qed.

Lemma zipf_nth_error {B} (g : field -> val -> B) fs : forall ss i f s,
  nth_error fs i = Some f -> nth_error ss i = Some s -> nth_error (zipf g fs ss) i = Some (g f s).
Proof.
  induction fs as [|f0 fs IH]; intros [|s0 ss] [|i] f s Hf Hs; cbn [nth_error zipf] in *; try discriminate.
  - congruence.
  - eapply IH; eassumption.
Qed.

Lemma zipf_in {B} (g : field -> val -> B) fs : forall ss b, In b (zipf g fs ss) ->
  exists i f s, nth_error fs i = Some f /\ nth_error ss i = Some s /\ b = g f s.
Proof.
  induction fs as [|f0 fs IH]; intros [|s0 ss] b H; cbn [zipf] in H; try contradiction.
  destruct H as [<-|H].
  - exists 0%nat, f0, s0. repeat split.
  - destruct (IH ss b H) as (i & f & s & H1 & H2 & H3). exists (S i), f, s. repeat split; assumption.
Qed.

(* ================================================================ set_nth / nth *)
Lemma set_nth_length {A} (l : list A) : forall i x, length (set_nth l i x) = length l.
Proof. induction l as [|h t IH]; intros [|i] x; cbn; try reflexivity. rewrite IH. reflexivity. Qed.

Lemma nth_set_nth_same {A} (l : list A) : forall i x d, (i < length l)%nat -> nth i (set_nth l i x) d = x.
Proof. induction l as [|h t IH]; intros [|i] x d H; cbn in *; try lia; [reflexivity|]. apply IH. lia. Qed.

Lemma set_nth_twice {A} (l : list A) : forall i x y, set_nth (set_nth l i x) i y = set_nth l i y.
Proof. induction l as [|h t IH]; intros [|i] x y; cbn; try reflexivity. rewrite IH. reflexivity. Qed.

Lemma set_nth_same {A} (l : list A) : forall i d, set_nth l i (nth i l d) = l.
Proof. induction l as [|h t IH]; intros [|i] d; cbn; try reflexivity. rewrite IH. reflexivity. Qed.

Lemma nth_error_nth' {A} (l : list A) i x d : nth_error l i = Some x -> nth i l d = x.
Proof. revert i. induction l as [|h t IH]; intros [|i] H; cbn in *; try discriminate; [congruence|]. apply IH. exact H. Qed.

(* ================================================================ small facts on kinds *)
Lemma kind_wt_cases k : kind_wt k = 0 \/ kind_wt k = 1 \/ kind_wt k = 2 \/ kind_wt k = 5.
Proof. destruct k; cbn; auto. Qed.
Lemma ftype_wt_cases t : ftype_wt t = 0 \/ ftype_wt t = 1 \/ ftype_wt t = 2 \/ ftype_wt t = 5.
Proof. destruct t; [apply kind_wt_cases|cbn; auto]. Qed.

Lemma as_bytes_le_payload k v : wt_scalar k v = true -> (length (as_bytes v) <= length (scalar_payload k v))%nat.
Proof.
  intro H. destruct k; destruct v; try discriminate H; cbn [as_bytes length]; try lia;
    unfold scalar_payload, as_bytes; rewrite app_length; lia.
Qed.

Lemma scalar_payload_nonempty k v : (1 <= length (scalar_payload k v))%nat.
Proof.
  destruct k; unfold scalar_payload; try apply enc_varint_len_bounds;
    try (cbn [enc_fixed64 enc_fixed32 app length]; lia);
    rewrite app_length; pose proof (enc_varint_len_bounds (blen v)); lia.
Qed.

Lemma packable_no_bytes kd v : packable kd = true -> wt_scalar kd v = true -> as_bytes v = [].
Proof. intros Hp H. destruct kd; destruct v; try discriminate; reflexivity. Qed.

Lemma packable_wt kd : packable kd = true -> kind_wt kd <> 2.
Proof. destruct kd; cbn; intro H; try discriminate H; discriminate. Qed.

Lemma norm_scalar_nb k v : k <> KBytes -> norm_scalar k v = v.
Proof. intro H. destruct k; try reflexivity. congruence. Qed.

Lemma legal_key_nb kk : legal_key kk = true -> kk <> KBytes.
Proof. destruct kk; cbn; intro H; try discriminate H; discriminate. Qed.

Lemma concat_len_ge {A} (g : A -> list byte) l : (forall x, 1 <= length (g x))%nat ->
  (length l <= length (concat (map g l)))%nat.
Proof.
  intro H. induction l as [|x l IH]; cbn [map concat length]; [lia|].
  rewrite app_length. specialize (H x). lia.
Qed.

Definition lst (s : val) : list val := match s with VList l => l | _ => [] end.
Definition mp (s : val) : list (val * val) := match s with VMap kvs => kvs | _ => [] end.

Lemma list_append_lst s v : list_append s v = VList (lst s ++ [v]).
Proof. destruct s; reflexivity. Qed.

Lemma fold_list_append ys : forall s, ys <> [] -> fold_left list_append ys s = VList (lst s ++ ys).
Proof.
  induction ys as [|y ys IH]; intros s H; [congruence|]. cbn [fold_left].
  destruct ys as [|y' ys'].
  - cbn. apply list_append_lst.
  - rewrite IH by discriminate. rewrite list_append_lst. cbn [lst]. rewrite <- app_assoc. reflexivity.
Qed.

Lemma msg_loop_S sch discard child md fu msg rest :
  msg_loop sch discard child md (S fu) msg rest =
  match rest with
  | [] => Ok msg
  | _ =>
    match dec_varint rest with
    | None => Err
    | Some (raw, _, rest1) =>
      let wire := u64 raw in
      let fieldNum := s32 (wire / 8) in
      let wt := wire mod 8 in
      if wt =? 4 then Err
      else if (fieldNum <=? 0)%Z then Err
      else
        match find_field (m_fields md) 0 fieldNum with
        | Some (idx, f) =>
          match field_item sch child md idx f wt msg rest1 with
          | Ok (msg', rest') => msg_loop sch discard child md fu msg' rest'
          | Err => Err | Panic => Panic | OutOfFuel => OutOfFuel
          end
        | None =>
          match Skip rest with
          | Ok skippy =>
            if (Z.of_nat (length rest) <? skippy)%Z then Err
            else
              let rec_bytes := zfirstn skippy rest in
              let msg' := if discard then msg else VMsg (slots_of msg) (unk_of msg ++ rec_bytes) in
              msg_loop sch discard child md fu msg' (zskipn skippy rest)
          | _ => Err
          end
        end
    end
  end.
Proof. reflexivity. Qed.

Section RT.
Variable sch : schema.
Variable discard : bool.

Definition tgt_ok (m : nat) (tgt : val) : Prop :=
  tgt = VNil \/ exists md, get_msg sch m = Some md /\ tgt = empty_msg md.

Definition child_good (child : child_t) (m : nat) (x : val) : Prop :=
  forall tgt, tgt_ok m tgt -> child m tgt (emit sch false m x) = Ok (norm_elem sch (norm sch) (TMsg m) x).

Notation EE := (emit_elem (emit sch false)).
Notation NE := (norm_elem sch (norm sch)).

Lemma dec_item_rt child t tgt x rest :
  wt_elem (wt_msg sch) t x = true ->
  (forall m, t = TMsg m -> child_good child m x /\ tgt_ok m tgt) ->
  N.of_nat (length (EE t x)) < two63 ->
  dec_item child t tgt (EE t x ++ rest) = Ok (NE t x, rest).
Proof.
  intros Hwt Hc Hb. destruct t as [k|m].
  - cbn [dec_item emit_elem norm_elem wt_elem] in *.
    rewrite scalar_roundtrip; [reflexivity|exact Hwt|]. pose proof (as_bytes_le_payload k x Hwt). lia.
  - destruct (Hc m eq_refl) as [Hg Ht]. cbn [dec_item emit_elem] in *. unfold lenpfx in *. rewrite <- app_assoc.
    rewrite take_len_lenpfx by (rewrite app_length in Hb; lia).
    rewrite (Hg tgt Ht). reflexivity.
Qed.

(* ---------------------------------------------------------------- one record of each shape *)
Lemma fi_singular child md idx f t cur unk s rest :
  f_shape f = Singular -> f_ty f = t ->
  wt_elem (wt_msg sch) t s = true ->
  (forall m, t = TMsg m -> child_good child m s /\ tgt_ok m (nth idx cur VNil)) ->
  N.of_nat (length (EE t s)) < two63 ->
  field_item sch child md idx f (ftype_wt t) (VMsg cur unk) (EE t s ++ rest)
  = Ok (VMsg (set_nth cur idx (NE t s)) unk, rest).
Proof.
  intros Hs Ht Hwt Hc Hb. unfold field_item. rewrite Hs, Ht. cbv zeta. cbn [slots_of unk_of].
  rewrite N.eqb_refl. rewrite dec_item_rt by assumption. reflexivity.
Qed.

Lemma fi_rep child md idx f t p cur unk x rest :
  f_shape f = Rep p -> f_ty f = t ->
  wt_elem (wt_msg sch) t x = true ->
  (forall m, t = TMsg m -> child_good child m x) ->
  N.of_nat (length (EE t x)) < two63 ->
  field_item sch child md idx f (ftype_wt t) (VMsg cur unk) (EE t x ++ rest)
  = Ok (VMsg (set_nth cur idx (list_append (nth idx cur VNil) (NE t x))) unk, rest).
Proof.
  intros Hs Ht Hwt Hc Hb. unfold field_item. rewrite Hs, Ht. cbv zeta. cbn [slots_of unk_of].
  destruct t as [kd|m]; cbn [ftype_wt].
  - assert (Hd : dec_scalar kd (EE (TScalar kd) x ++ rest) = Some (NE (TScalar kd) x, rest)).
    { cbn [emit_elem norm_elem wt_elem] in *. apply scalar_roundtrip; [exact Hwt|].
      pose proof (as_bytes_le_payload kd x Hwt). lia. }
    destruct (kind_wt kd =? WT_BYTES) eqn:E; cbn [negb].
    + rewrite Hd. reflexivity.
    + rewrite N.eqb_refl. rewrite Hd. reflexivity.
  - rewrite N.eqb_refl. rewrite dec_item_rt; [reflexivity|exact Hwt| |exact Hb].
    intros m' Hm. injection Hm as <-. split; [apply Hc; reflexivity|left; reflexivity].
Qed.

Lemma packed_loop_rt kd rest : packable kd = true -> forall l fuel acc, (length l < fuel)%nat ->
  Forall (fun x => wt_scalar kd x = true) l ->
  packed_loop fuel kd (Z.of_nat (length (concat (map (scalar_payload kd) l)))) acc
              (concat (map (scalar_payload kd) l) ++ rest)
  = Ok (fold_left list_append (map (norm_scalar kd) l) acc, rest).
Proof.
  intros Hp. induction l as [|x l IH]; intros fuel acc Hf Hall; (destruct fuel as [|fu]; [cbn in Hf; lia|]).
  - reflexivity.
  - cbn [map concat fold_left]. cbn [packed_loop].
    pose proof (scalar_payload_nonempty kd x) as Hne.
    destruct (Z.leb_spec (Z.of_nat (length (scalar_payload kd x ++ concat (map (scalar_payload kd) l)))) 0) as [H0|_].
    { rewrite app_length in H0. lia. }
    inversion Hall as [|? ? Hx Hl]; subst.
    rewrite <- app_assoc. rewrite scalar_roundtrip; [|exact Hx|rewrite (packable_no_bytes kd x Hp Hx); reflexivity].
    match goal with |- packed_loop fu kd ?k _ _ = _ =>
      replace k with (Z.of_nat (length (concat (map (scalar_payload kd) l)))) by (rewrite !app_length; lia) end.
    apply IH; [cbn in Hf; lia|exact Hl].
Qed.

Lemma fi_packed child md idx f kd cur unk l rest :
  f_shape f = Rep true -> f_ty f = TScalar kd -> packable kd = true ->
  Forall (fun x => wt_scalar kd x = true) l ->
  N.of_nat (length (concat (map (scalar_payload kd) l))) < two63 ->
  field_item sch child md idx f WT_BYTES (VMsg cur unk) (lenpfx (concat (map (scalar_payload kd) l)) ++ rest)
  = Ok (VMsg (set_nth cur idx (fold_left list_append (map (norm_scalar kd) l) (nth idx cur VNil))) unk, rest).
Proof.
  intros Hs Ht Hp Hall Hb. unfold field_item. rewrite Hs, Ht. cbv zeta. cbn [slots_of unk_of].
  pose proof (packable_wt kd Hp) as Hw.
  destruct (N.eqb_spec (kind_wt kd) WT_BYTES) as [E|_]; [exfalso; apply Hw; exact E|]. cbn [negb].
  destruct (N.eqb_spec WT_BYTES (kind_wt kd)) as [E|_]; [exfalso; apply Hw; symmetry; exact E|].
  rewrite N.eqb_refl. unfold lenpfx. rewrite <- app_assoc.
  rewrite dec_enc_varint by (unf; lia). rewrite s64_small by exact Hb.
  set (C := concat (map (scalar_payload kd) l)) in *.
  destruct (Z.ltb_spec (Z.of_N (N.of_nat (length C))) 0); [lia|].
  destruct (Z.ltb_spec (Z.of_nat (length (C ++ rest))) (Z.of_N (N.of_nat (length C)))) as [H1|_].
  { rewrite app_length in H1. lia. }
  replace (Z.of_N (N.of_nat (length C))) with (Z.of_nat (length C)) by lia.
  unfold C. rewrite packed_loop_rt; [reflexivity|exact Hp| |exact Hall].
  fold C. rewrite app_length. pose proof (concat_len_ge (scalar_payload kd) l (scalar_payload_nonempty kd)). fold C in H0. lia.
Qed.

Lemma fi_member child md idx f t oi cur unk p rest :
  f_shape f = Member oi -> f_ty f = t ->
  wt_elem (wt_msg sch) t p = true ->
  (forall m, t = TMsg m -> child_good child m p) ->
  nth idx cur VNil = VNil ->
  clear_oneof (m_fields md) cur oi = cur ->
  N.of_nat (length (EE t p)) < two63 ->
  field_item sch child md idx f (ftype_wt t) (VMsg cur unk) (EE t p ++ rest)
  = Ok (VMsg (set_nth cur idx (VSome (NE t p))) unk, rest).
Proof.
  intros Hs Ht Hwt Hc Hn Hcl Hb. unfold field_item. rewrite Hs, Ht. cbv zeta. cbn [slots_of unk_of].
  rewrite N.eqb_refl. rewrite Hn, Hcl.
  rewrite dec_item_rt; [reflexivity|exact Hwt| |exact Hb].
  intros m' Hm. split; [apply Hc; exact Hm|left; reflexivity].
Qed.

(* ---------------------------------------------------------------- map entries *)
Lemma kind_wt_lt8 k : kind_wt k < 8.
Proof. destruct (kind_wt_cases k) as [E|[E|[E|E]]]; rewrite E; lia. Qed.
Lemma ftype_wt_lt8 t : ftype_wt t < 8.
Proof. destruct (ftype_wt_cases t) as [E|[E|[E|E]]]; rewrite E; lia. Qed.

Lemma entry_step1 child fu kk t k key value x R :
  (Z.of_nat (length (key_bytes 1 (kind_wt kk)) + length (scalar_payload kk x)) <= k)%Z ->
  wt_scalar kk x = true -> N.of_nat (length (as_bytes x)) < two63 ->
  entry_loop child (S fu) kk t k key value (key_bytes 1 (kind_wt kk) ++ scalar_payload kk x ++ R)
  = entry_loop child fu kk t (k - Z.of_nat (length (key_bytes 1 (kind_wt kk)) + length (scalar_payload kk x)))
               (norm_scalar kk x) value R.
Proof.
  intros Hk Hwt Hb. cbn [entry_loop].
  pose proof (key_bytes_len 1 (kind_wt kk)) as Hkl.
  destruct (Z.leb_spec k 0); [lia|].
  pose proof (kind_wt_lt8 kk) as Hw.
  rewrite dec_key by (lia || exact Hw). cbv zeta. rewrite key_fieldnum by (lia || exact Hw).
  change (Z.of_N 1 =? 1)%Z with true. cbv iota.
  rewrite scalar_roundtrip by assumption.
  replace (k - (Z.of_nat (length (key_bytes 1 (kind_wt kk) ++ scalar_payload kk x ++ R)) - Z.of_nat (length R)))%Z
    with (k - Z.of_nat (length (key_bytes 1 (kind_wt kk)) + length (scalar_payload kk x)))%Z
    by (rewrite !app_length; lia).
  destruct (Z.ltb_spec (k - Z.of_nat (length (key_bytes 1 (kind_wt kk)) + length (scalar_payload kk x))) 0); [lia|].
  reflexivity.
Qed.

Lemma entry_step2 child fu kk t k key value v R :
  (Z.of_nat (length (key_bytes 2 (ftype_wt t)) + length (EE t v)) <= k)%Z ->
  wt_elem (wt_msg sch) t v = true ->
  (forall m, t = TMsg m -> child_good child m v /\ tgt_ok m value) ->
  N.of_nat (length (EE t v)) < two63 ->
  entry_loop child (S fu) kk t k key value (key_bytes 2 (ftype_wt t) ++ EE t v ++ R)
  = entry_loop child fu kk t (k - Z.of_nat (length (key_bytes 2 (ftype_wt t)) + length (EE t v))) key (NE t v) R.
Proof.
  intros Hk Hwt Hc Hb. cbn [entry_loop].
  pose proof (key_bytes_len 2 (ftype_wt t)) as Hkl.
  destruct (Z.leb_spec k 0); [lia|].
  pose proof (ftype_wt_lt8 t) as Hw.
  rewrite dec_key by (lia || exact Hw). cbv zeta. rewrite key_fieldnum by (lia || exact Hw).
  change (Z.of_N 2 =? 1)%Z with false. change (Z.of_N 2 =? 2)%Z with true. cbv iota.
  assert (Ek : (k - (Z.of_nat (length (key_bytes 2 (ftype_wt t) ++ EE t v ++ R)) - Z.of_nat (length R))
                = k - Z.of_nat (length (key_bytes 2 (ftype_wt t)) + length (EE t v)))%Z)
    by (rewrite !app_length; lia).
  destruct t as [kd|m].
  - cbn [emit_elem norm_elem wt_elem ftype_wt] in *.
    rewrite scalar_roundtrip; [|exact Hwt|pose proof (as_bytes_le_payload kd v Hwt); lia].
    rewrite Ek.
    destruct (Z.ltb_spec (k - Z.of_nat (length (key_bytes 2 (kind_wt kd)) + length (scalar_payload kd v))) 0); [lia|].
    reflexivity.
  - destruct (Hc m eq_refl) as [Hg Ht]. cbn [emit_elem ftype_wt] in *. unfold lenpfx in *.
    rewrite <- app_assoc.
    rewrite take_len_lenpfx by (rewrite app_length in Hb; lia).
    match goal with |- context [(?e <? 0)%Z] => destruct (Z.ltb_spec e 0) as [Hneg|_] end.
    { rewrite !app_length in Hneg. rewrite !app_length in Hk. lia. }
    rewrite (Hg value Ht). f_equal. rewrite !app_length. lia.
Qed.

Definition entry_body (kk : kind) (t : ftype) (k v : val) : list byte :=
  key_bytes 1 (kind_wt kk) ++ scalar_payload kk k ++ key_bytes 2 (ftype_wt t) ++ EE t v.

Lemma entry_loop_rt child fuel kk t key0 val0 k v rest :
  (3 <= fuel)%nat -> legal_key kk = true -> wt_scalar kk k = true -> wt_elem (wt_msg sch) t v = true ->
  (forall m, t = TMsg m -> child_good child m v /\ tgt_ok m val0) ->
  N.of_nat (length (entry_body kk t k v)) < two63 ->
  entry_loop child fuel kk t (Z.of_nat (length (entry_body kk t k v))) key0 val0 (entry_body kk t k v ++ rest)
  = Ok (k, NE t v).
Proof.
  intros Hf Hlk Hk Hv Hc Hb. destruct fuel as [|[|[|fu]]]; try lia.
  unfold entry_body in *. rewrite !app_length in Hb.
  pose proof (key_bytes_len 1 (kind_wt kk)). pose proof (key_bytes_len 2 (ftype_wt t)).
  pose proof (as_bytes_le_payload kk k Hk).
  rewrite <- !app_assoc.
  rewrite entry_step1; [|rewrite !app_length; lia|exact Hk|lia].
  rewrite entry_step2; [|rewrite !app_length; lia|exact Hv|exact Hc|lia].
  rewrite norm_scalar_nb by (apply legal_key_nb; exact Hlk).
  cbn [entry_loop].
  match goal with |- (if (?k <=? 0)%Z then _ else _) = _ => destruct (Z.leb_spec k 0) as [_|H2] end; [reflexivity|].
  rewrite !app_length in H2. lia.
Qed.

Lemma tgt_ok_init t m : t = TMsg m -> tgt_ok m (map_value_init (get_msg sch) t).
Proof.
  intros ->. cbn [map_value_init]. destruct (get_msg sch m) as [md|] eqn:E.
  - right. exists md. split; [exact E|reflexivity].
  - left. reflexivity.
Qed.

Lemma fi_map child md idx f t kk cur unk k v rest :
  f_shape f = MapOf kk -> f_ty f = t -> legal_key kk = true ->
  wt_scalar kk k = true -> wt_elem (wt_msg sch) t v = true ->
  (forall m, t = TMsg m -> child_good child m v) ->
  N.of_nat (length (entry_body kk t k v)) < two63 ->
  field_item sch child md idx f WT_BYTES (VMsg cur unk) (lenpfx (entry_body kk t k v) ++ rest)
  = Ok (VMsg (set_nth cur idx (VMap (map_set (mp (nth idx cur VNil)) k (NE t v)))) unk, rest).
Proof.
  intros Hs Ht Hlk Hk Hv Hc Hb. unfold field_item. rewrite Hs, Ht. cbv zeta. cbn [slots_of unk_of].
  rewrite N.eqb_refl. unfold lenpfx. rewrite <- app_assoc.
  set (B := entry_body kk t k v) in *.
  rewrite dec_enc_varint by (unf; lia). rewrite s64_small by exact Hb.
  destruct (Z.ltb_spec (Z.of_N (N.of_nat (length B))) 0); [lia|].
  destruct (Z.ltb_spec (Z.of_nat (length (B ++ rest))) (Z.of_N (N.of_nat (length B)))) as [H1|_].
  { rewrite app_length in H1. lia. }
  replace (Z.of_N (N.of_nat (length B))) with (Z.of_nat (length B)) by lia.
  unfold B. rewrite entry_loop_rt; try assumption.
  - fold B. rewrite zskipn_app_exact. reflexivity.
  - fold B. rewrite app_length. unfold B, entry_body. rewrite !app_length.
    pose proof (key_bytes_len 1 (kind_wt kk)). pose proof (key_bytes_len 2 (ftype_wt t)).
    pose proof (scalar_payload_nonempty kk k). lia.
  - intros m Hm. split; [apply Hc; exact Hm|apply tgt_ok_init; exact Hm].
Qed.

(* ---------------------------------------------------------------- msg_loop steps *)
Definition steps_to (child : child_t) (md : msgdesc) (msg : val) (bs : list byte) (msg' : val) (rest : list byte) : Prop :=
  forall fuel, (length bs < fuel)%nat -> exists fuel', (length rest < fuel')%nat /\
    msg_loop sch discard child md fuel msg bs = msg_loop sch discard child md fuel' msg' rest.

Lemma steps_refl child md msg bs : steps_to child md msg bs msg bs.
Proof. intros fuel H. exists fuel. split; [exact H|reflexivity]. Qed.

Lemma steps_trans child md a bs b bs' c bs'' :
  steps_to child md a bs b bs' -> steps_to child md b bs' c bs'' -> steps_to child md a bs c bs''.
Proof.
  intros H1 H2 fuel Hf. destruct (H1 fuel Hf) as (f1 & Hf1 & E1). destruct (H2 f1 Hf1) as (f2 & Hf2 & E2).
  exists f2. split; [exact Hf2|]. rewrite E1. exact E2.
Qed.

Lemma msg_wf_field md idx f : msg_wf (length sch) md = true -> nth_error (m_fields md) idx = Some f ->
  field_wf (length sch) (m_oneofs md) f = true /\ nodupb (map f_num (m_fields md)) = true.
Proof.
  unfold msg_wf. intros H Hn. apply andb_prop in H. destruct H as [H1 H2]. split; [|exact H2].
  rewrite forallb_forall in H1. apply H1. eapply nth_error_In. exact Hn.
Qed.

Lemma field_wf_num nm no f : field_wf nm no f = true -> 1 <= f_num f < 536870912.
Proof.
  unfold field_wf. intro H. apply andb_prop in H. destruct H as [H _]. apply andb_prop in H. destruct H as [H _].
  apply num_ok29_spec. exact H.
Qed.

Lemma steps_record child md msg f idx wt rest1 msg' rest' :
  msg_wf (length sch) md = true -> nth_error (m_fields md) idx = Some f ->
  (wt = 0 \/ wt = 1 \/ wt = 2 \/ wt = 5) ->
  field_item sch child md idx f wt msg rest1 = Ok (msg', rest') ->
  (length rest' <= length rest1)%nat ->
  steps_to child md msg (key_bytes (f_num f) wt ++ rest1) msg' rest'.
Proof.
  intros Hmd Hn Hwt Hfi Hle fuel Hf.
  destruct (msg_wf_field md idx f Hmd Hn) as [Hfw Hnd]. pose proof (field_wf_num _ _ _ Hfw) as Hnum.
  pose proof (key_bytes_len (f_num f) wt) as Hkl.
  destruct fuel as [|fu]; [lia|]. exists fu. split; [rewrite app_length in Hf; lia|].
  rewrite msg_loop_S.
  destruct (key_bytes (f_num f) wt ++ rest1) as [|b0 bs0] eqn:E.
  { apply app_eq_nil in E. destruct E as [E _]. exfalso. exact (key_bytes_nonempty _ _ E). }
  rewrite <- E. assert (Hw8 : wt < 8) by lia.
  rewrite dec_key by (lia || exact Hw8). cbv zeta.
  rewrite key_fieldnum by (lia || exact Hw8). rewrite key_wt by (lia || exact Hw8).
  assert (E4 : (wt =? 4) = false) by (apply N.eqb_neq; lia). rewrite E4.
  destruct (Z.leb_spec (Z.of_N (f_num f)) 0) as [H0|_]; [lia|].
  rewrite (find_field_nth _ 0%nat idx f Hn Hnd). cbn [Nat.add].
  rewrite Hfi. reflexivity.
Qed.

(* what a slot contributes as nested message values *)
Definition elems_of (f : field) (s : val) : list val :=
  match f_shape f with
  | Singular => match s with VNil => [] | _ => [s] end
  | Rep _ => lst s
  | Member _ => match s with VSome p => [p] | _ => [] end
  | MapOf _ => map snd (mp s)
  end.

Lemma norm_slot_singular_scalar f k s :
  f_shape f = Singular -> f_ty f = TScalar k -> wt_scalar k s = true ->
  norm_slot sch (norm sch) f s = if present k s then norm_scalar k s else zero_scalar k.
Proof.
  intros Hs Ht Hwt. unfold norm_slot. rewrite Hs, Ht.
  destruct k; destruct s as [z|b|n|l| |p|sl un|l|kvs]; try discriminate Hwt;
    unfold present, norm_scalar, zero_scalar, as_bool, as_z, as_bits, blen, as_bytes;
    try (destruct b; reflexivity);
    try (destruct (Z.eqb_spec z 0); subst; reflexivity);
    try (destruct (N.eqb_spec n 0); subst; reflexivity);
    try (destruct l; reflexivity); reflexivity.
Qed.

Lemma field_wf_shape nm no f : field_wf nm no f = true ->
  match f_shape f with
  | Singular => True
  | Rep p => match f_ty f with TScalar k => p = true -> packable k = true | TMsg _ => p = false end
  | Member j => (j < no)%nat
  | MapOf kk => legal_key kk = true
  end.
Proof.
  unfold field_wf. intro H. apply andb_prop in H. destruct H as [_ H].
  destruct (f_shape f) as [|p|j|kk]; [exact I| | |exact H].
  - destruct (f_ty f) as [k|m].
    + intros ->. exact H.
    + destruct p; [discriminate H|reflexivity].
  - apply Nat.ltb_lt. exact H.
Qed.

Lemma field_wf_ty nm no f m : field_wf nm no f = true -> f_ty f = TMsg m -> (m < nm)%nat.
Proof.
  unfold field_wf. intros H Ht. apply andb_prop in H. destruct H as [H _]. apply andb_prop in H. destruct H as [_ H].
  rewrite Ht in H. apply Nat.ltb_lt. exact H.
Qed.

Lemma nodup_keys_app_fresh a k b : nodup_keys (a ++ k :: b) = true ->
  forall k', In k' a -> val_key_eqb k' k = false.
Proof.
  induction a as [|x a IH]; intros H k' Hin; [contradiction|].
  cbn [app nodup_keys] in H. apply andb_prop in H. destruct H as [H1 H2].
  destruct Hin as [<-|Hin]; [|apply IH; assumption].
  apply negb_true_iff in H1. destruct (val_key_eqb x k) eqn:E; [|reflexivity].
  assert (existsb (val_key_eqb x) (a ++ k :: b) = true); [|congruence].
  apply existsb_exists. exists k. split; [apply in_or_app; right; left; reflexivity|exact E].
Qed.

Lemma map_set_fresh pre k v : (forall k', In k' (map fst pre) -> val_key_eqb k' k = false) ->
  map_set pre k v = pre ++ [(k, v)].
Proof.
  induction pre as [|[k0 v0] pre IH]; intro H; [reflexivity|].
  cbn [map_set app]. rewrite (H k0) by (left; reflexivity). f_equal. apply IH.
  intros k' Hin. apply H. right. exact Hin.
Qed.

Lemma fold_map_set (g : val -> val) : forall kvs s, kvs <> [] ->
  nodup_keys (map fst (mp s) ++ map fst kvs) = true ->
  fold_left (fun s kv => VMap (map_set (mp s) (fst kv) (g (snd kv)))) kvs s
  = VMap (mp s ++ map (fun kv => (fst kv, g (snd kv))) kvs).
Proof.
  induction kvs as [|kv kvs IH]; intros s Hne Hnd; [congruence|].
  cbn [fold_left map].
  assert (E : map_set (mp s) (fst kv) (g (snd kv)) = mp s ++ [(fst kv, g (snd kv))]).
  { apply map_set_fresh. cbn [map] in Hnd. apply (nodup_keys_app_fresh _ _ _ Hnd). }
  rewrite E. destruct kvs as [|kv' kvs'].
  - reflexivity.
  - rewrite IH; [|discriminate|].
    + cbn [mp]. rewrite <- app_assoc. reflexivity.
    + cbn [mp]. rewrite map_app. cbn [map fst]. rewrite <- app_assoc. exact Hnd.
Qed.

Section Chunks.
Variable child : child_t.
Variable md : msgdesc.
Hypothesis Hmd : msg_wf (length sch) md = true.
Variable idx : nat.
Variable f : field.
Hypothesis Hn : nth_error (m_fields md) idx = Some f.
Variable unk : list byte.
Variable rest : list byte.

Lemma chunk_singular_scalar k s cur :
  f_shape f = Singular -> f_ty f = TScalar k ->
  (idx < length cur)%nat -> nth idx cur VNil = default_slot f ->
  wt_scalar k s = true ->
  N.of_nat (length (emit_field false (emit sch false) f s)) < two63 ->
  steps_to child md (VMsg cur unk) (emit_field false (emit sch false) f s ++ rest)
           (VMsg (set_nth cur idx (norm_slot sch (norm sch) f s)) unk) rest.
Proof.
  intros Hs Ht Hidx Hdef Hwt Hb.
  rewrite (norm_slot_singular_scalar f k s Hs Ht Hwt).
  unfold emit_field, default_slot in *. rewrite Hs, Ht in *.
  destruct (present k s).
  - rewrite <- app_assoc. eapply steps_record; [exact Hmd|exact Hn|apply kind_wt_cases| |rewrite app_length; lia].
    change (kind_wt k) with (ftype_wt (TScalar k)).
    change (scalar_payload k s) with (EE (TScalar k) s).
    change (norm_scalar k s) with (NE (TScalar k) s).
    apply fi_singular; try assumption.
    + intros m Hm. discriminate Hm.
    + cbn [emit_elem]. rewrite app_length in Hb. lia.
  - rewrite <- Hdef. rewrite set_nth_same. apply steps_refl.
Qed.

Lemma chunk_singular_msg m s cur :
  f_shape f = Singular -> f_ty f = TMsg m ->
  (idx < length cur)%nat -> nth idx cur VNil = default_slot f ->
  wt_elem (wt_msg sch) (TMsg m) s = true ->
  Forall (child_good child m) (elems_of f s) ->
  N.of_nat (length (emit_field false (emit sch false) f s)) < two63 ->
  steps_to child md (VMsg cur unk) (emit_field false (emit sch false) f s ++ rest)
           (VMsg (set_nth cur idx (norm_slot sch (norm sch) f s)) unk) rest.
Proof.
  intros Hs Ht Hidx Hdef Hwt Hcg Hb.
  unfold emit_field, default_slot, norm_slot, elems_of in *. rewrite Hs, Ht in *.
  assert (Hnil : steps_to child md (VMsg cur unk) ([] ++ rest) (VMsg (set_nth cur idx VNil) unk) rest).
  { rewrite <- Hdef. rewrite set_nth_same. apply steps_refl. }
  destruct s as [z|b|n|l| |p|sl un|l|kvs]; try discriminate Hwt; [exact Hnil|].
  rewrite <- app_assoc. eapply steps_record; [exact Hmd|exact Hn|right; right; left; reflexivity| |rewrite app_length; lia].
  change WT_BYTES with (ftype_wt (TMsg m)).
  change (lenpfx (emit sch false m (VMsg sl un))) with (EE (TMsg m) (VMsg sl un)).
  change (norm sch m (VMsg sl un)) with (NE (TMsg m) (VMsg sl un)).
  apply fi_singular; try assumption.
  - intros m' Hm. injection Hm as <-. split; [inversion Hcg; assumption|]. rewrite Hdef. left. reflexivity.
  - rewrite app_length in Hb. cbn [emit_elem]. lia.
Qed.

Lemma absent_steps cur : nth idx cur VNil = VNil ->
  steps_to child md (VMsg cur unk) ([] ++ rest) (VMsg (set_nth cur idx VNil) unk) rest.
Proof. intro Hdef. rewrite <- Hdef. rewrite set_nth_same. apply steps_refl. Qed.

Lemma rep_steps t p : f_shape f = Rep p -> f_ty f = t ->
  forall xs cur, (idx < length cur)%nat ->
  Forall (fun x => wt_elem (wt_msg sch) t x = true) xs ->
  Forall (fun x => forall m, t = TMsg m -> child_good child m x) xs ->
  N.of_nat (length (concat (map (fun x => key_bytes (f_num f) (ftype_wt t) ++ EE t x) xs))) < two63 ->
  steps_to child md (VMsg cur unk) (concat (map (fun x => key_bytes (f_num f) (ftype_wt t) ++ EE t x) xs) ++ rest)
     (VMsg (set_nth cur idx (fold_left list_append (map (NE t) xs) (nth idx cur VNil))) unk) rest.
Proof.
  intros Hs Ht. induction xs as [|x xs IH]; intros cur Hidx Hwt Hcg Hb.
  - cbn [map concat fold_left app]. rewrite set_nth_same. apply steps_refl.
  - cbn [map concat fold_left] in *. rewrite app_length in Hb.
    inversion Hwt as [|? ? Hwx Hwxs]; subst. inversion Hcg as [|? ? Hcx Hcxs]; subst.
    rewrite <- !app_assoc. eapply steps_trans.
    + eapply steps_record; [exact Hmd|exact Hn|apply ftype_wt_cases
        |eapply fi_rep; [exact Hs|reflexivity|exact Hwx|exact Hcx|rewrite app_length in Hb; lia]
        |rewrite !app_length; lia].
    + set (cur' := set_nth cur idx (list_append (nth idx cur VNil) (NE (f_ty f) x))).
      assert (E1 : nth idx cur' VNil = list_append (nth idx cur VNil) (NE (f_ty f) x))
        by (unfold cur'; apply nth_set_nth_same; exact Hidx).
      assert (E2 : forall y, set_nth cur' idx y = set_nth cur idx y) by (intro y; unfold cur'; apply set_nth_twice).
      specialize (IH cur'). rewrite E1, E2 in IH.
      apply IH; [unfold cur'; rewrite set_nth_length; exact Hidx|exact Hwxs|exact Hcxs|lia].
Qed.

Lemma chunk_rep p s cur :
  f_shape f = Rep p ->
  (idx < length cur)%nat -> nth idx cur VNil = default_slot f ->
  wt_slot (wt_msg sch) f s = true ->
  (forall m, f_ty f = TMsg m -> Forall (child_good child m) (elems_of f s)) ->
  N.of_nat (length (emit_field false (emit sch false) f s)) < two63 ->
  steps_to child md (VMsg cur unk) (emit_field false (emit sch false) f s ++ rest)
           (VMsg (set_nth cur idx (norm_slot sch (norm sch) f s)) unk) rest.
Proof.
  intros Hs Hidx Hdef Hwt Hcg Hb.
  destruct (msg_wf_field md idx f Hmd Hn) as [Hfw _]. apply field_wf_shape in Hfw.
  unfold emit_field, default_slot, norm_slot, wt_slot, elems_of in *. rewrite Hs in *.
  destruct s as [z|b|n|l| |q|sl un|l|kvs]; try discriminate Hwt; [apply absent_steps; exact Hdef|].
  destruct l as [|e l]; [apply absent_steps; exact Hdef|].
  rewrite forallb_forall in Hwt. cbn [lst] in Hcg.
  destruct p.
  - destruct (f_ty f) as [k|m] eqn:Ht; [|discriminate Hfw]. specialize (Hfw eq_refl).
    rewrite <- app_assoc. eapply steps_record; [exact Hmd|exact Hn|right; right; left; reflexivity| |rewrite !app_length; lia].
    change (emit_elem (emit sch false) (TScalar k)) with (scalar_payload k) in *.
    rewrite fi_packed; [|exact Hs|exact Ht|exact Hfw| |rewrite app_length in Hb; unfold lenpfx in Hb; rewrite app_length in Hb; lia].
    + rewrite Hdef. rewrite fold_list_append by discriminate. reflexivity.
    + apply Forall_forall. intros x Hx. apply (Hwt x Hx).
  - pose proof (rep_steps (f_ty f) false Hs eq_refl (e :: l) cur Hidx) as H.
    rewrite Hdef in H. rewrite fold_list_append in H by discriminate. cbn [lst app] in H.
    apply H; [apply Forall_forall; exact Hwt| |exact Hb].
    apply Forall_forall. intros x Hx m Hm. specialize (Hcg m Hm). rewrite Forall_forall in Hcg. apply Hcg. exact Hx.
Qed.

Lemma chunk_member oi s cur :
  f_shape f = Member oi ->
  (idx < length cur)%nat -> nth idx cur VNil = default_slot f ->
  wt_slot (wt_msg sch) f s = true ->
  (forall m, f_ty f = TMsg m -> Forall (child_good child m) (elems_of f s)) ->
  (forall p, s = VSome p -> clear_oneof (m_fields md) cur oi = cur) ->
  N.of_nat (length (emit_field false (emit sch false) f s)) < two63 ->
  steps_to child md (VMsg cur unk) (emit_field false (emit sch false) f s ++ rest)
           (VMsg (set_nth cur idx (norm_slot sch (norm sch) f s)) unk) rest.
Proof.
  intros Hs Hidx Hdef Hwt Hcg Hcl Hb.
  unfold emit_field, default_slot, norm_slot, wt_slot, elems_of in *. rewrite Hs in *.
  destruct s as [z|b|n|l| |q|sl un|l|kvs]; try discriminate Hwt; [apply absent_steps; exact Hdef|].
  rewrite <- app_assoc. eapply steps_record; [exact Hmd|exact Hn|apply ftype_wt_cases| |rewrite !app_length; lia].
  eapply fi_member; [exact Hs|reflexivity|exact Hwt| |exact Hdef|eapply Hcl; reflexivity|rewrite app_length in Hb; lia].
  intros m Hm. specialize (Hcg m Hm). inversion Hcg; assumption.
Qed.

Lemma map_steps kk t : f_shape f = MapOf kk -> f_ty f = t -> legal_key kk = true ->
  forall kvs cur, (idx < length cur)%nat ->
  Forall (fun kv => wt_scalar kk (fst kv) = true /\ wt_elem (wt_msg sch) t (snd kv) = true /\
                    (forall m, t = TMsg m -> child_good child m (snd kv))) kvs ->
  N.of_nat (length (concat (map (emit_entry (emit sch false) (f_num f) kk t) kvs))) < two63 ->
  steps_to child md (VMsg cur unk) (concat (map (emit_entry (emit sch false) (f_num f) kk t) kvs) ++ rest)
    (VMsg (set_nth cur idx (fold_left (fun s kv => VMap (map_set (mp s) (fst kv) (NE t (snd kv)))) kvs (nth idx cur VNil))) unk) rest.
Proof.
  intros Hs Ht Hlk. induction kvs as [|kv kvs IH]; intros cur Hidx Hall Hb.
  - cbn [map concat fold_left app]. rewrite set_nth_same. apply steps_refl.
  - cbn [map concat fold_left] in *. rewrite app_length in Hb.
    inversion Hall as [|? ? (Hk & Hv & Hc) Hall']; subst.
    unfold emit_entry at 1. unfold emit_entry at 1 in Hb. rewrite app_length in Hb.
    rewrite <- !app_assoc. eapply steps_trans.
    + eapply steps_record; [exact Hmd|exact Hn|right; right; left; reflexivity
        |apply (fi_map child md idx f (f_ty f) kk cur unk (fst kv) (snd kv)); try assumption; try reflexivity;
         unfold lenpfx in Hb; rewrite app_length in Hb; unfold entry_body; lia
        |rewrite !app_length; lia].
    + set (cur' := set_nth cur idx (VMap (map_set (mp (nth idx cur VNil)) (fst kv) (NE (f_ty f) (snd kv))))).
      assert (E1 : nth idx cur' VNil = VMap (map_set (mp (nth idx cur VNil)) (fst kv) (NE (f_ty f) (snd kv))))
        by (unfold cur'; apply nth_set_nth_same; exact Hidx).
      assert (E2 : forall y, set_nth cur' idx y = set_nth cur idx y) by (intro y; unfold cur'; apply set_nth_twice).
      specialize (IH cur'). rewrite E1, E2 in IH.
      apply IH; [unfold cur'; rewrite set_nth_length; exact Hidx|exact Hall'|lia].
Qed.

Lemma chunk_map kk s cur :
  f_shape f = MapOf kk ->
  (idx < length cur)%nat -> nth idx cur VNil = default_slot f ->
  wt_slot (wt_msg sch) f s = true ->
  (forall m, f_ty f = TMsg m -> Forall (child_good child m) (elems_of f s)) ->
  N.of_nat (length (emit_field false (emit sch false) f s)) < two63 ->
  steps_to child md (VMsg cur unk) (emit_field false (emit sch false) f s ++ rest)
           (VMsg (set_nth cur idx (norm_slot sch (norm sch) f s)) unk) rest.
Proof.
  intros Hs Hidx Hdef Hwt Hcg Hb.
  destruct (msg_wf_field md idx f Hmd Hn) as [Hfw _]. apply field_wf_shape in Hfw.
  unfold emit_field, default_slot, norm_slot, wt_slot, elems_of in *. rewrite Hs in *.
  destruct s as [z|b|n|l| |q|sl un|l|kvs]; try discriminate Hwt; [apply absent_steps; exact Hdef|].
  destruct kvs as [|e l]; [apply absent_steps; exact Hdef|].
  apply andb_prop in Hwt. destruct Hwt as [Hwt Hnd]. rewrite forallb_forall in Hwt. cbn [mp] in Hcg.
  rewrite map_map in *. cbn [snd] in *.
  pose proof (map_steps kk (f_ty f) Hs eq_refl Hfw (e :: l) cur Hidx) as H.
  rewrite Hdef in H. rewrite fold_map_set in H; [|discriminate|cbn [mp app]; exact Hnd]. cbn [mp app] in H.
  apply H; [|exact Hb].
  apply Forall_forall. intros kv Hkv. specialize (Hwt kv Hkv). apply andb_prop in Hwt. destruct Hwt as [H1 H2].
  split; [exact H1|split; [exact H2|]]. intros m Hm. specialize (Hcg m Hm). rewrite Forall_forall in Hcg.
  apply Hcg. apply in_map. exact Hkv.
Qed.

Lemma chunk_steps s cur :
  (idx < length cur)%nat -> nth idx cur VNil = default_slot f ->
  wt_slot (wt_msg sch) f s = true ->
  (forall m, f_ty f = TMsg m -> Forall (child_good child m) (elems_of f s)) ->
  (forall oi p, f_shape f = Member oi -> s = VSome p -> clear_oneof (m_fields md) cur oi = cur) ->
  N.of_nat (length (emit_field false (emit sch false) f s)) < two63 ->
  steps_to child md (VMsg cur unk) (emit_field false (emit sch false) f s ++ rest)
           (VMsg (set_nth cur idx (norm_slot sch (norm sch) f s)) unk) rest.
Proof.
  intros Hidx Hdef Hwt Hcg Hcl Hb.
  destruct (f_shape f) as [|p|oi|kk] eqn:Hs.
  - destruct (f_ty f) as [k|m] eqn:Ht.
    + apply (chunk_singular_scalar k s cur Hs Ht Hidx Hdef); [|exact Hb].
      unfold wt_slot in Hwt. rewrite Hs, Ht in Hwt. exact Hwt.
    + apply (chunk_singular_msg m s cur Hs Ht Hidx Hdef); [|apply Hcg; reflexivity|exact Hb].
      unfold wt_slot in Hwt. rewrite Hs, Ht in Hwt. exact Hwt.
  - apply (chunk_rep p s cur Hs Hidx Hdef Hwt Hcg Hb).
  - apply (chunk_member oi s cur Hs Hidx Hdef Hwt Hcg); [|exact Hb]. intros p Hp. apply (Hcl oi p eq_refl Hp).
  - apply (chunk_map kk s cur Hs Hidx Hdef Hwt Hcg Hb).
Qed.
End Chunks.

(* ---------------------------------------------------------------- oneofs *)
Lemma oneof_count_pos oi : forall fs ss i fi p,
  nth_error fs i = Some fi -> nth_error ss i = Some (VSome p) -> f_shape fi = Member oi ->
  (1 <= oneof_count fs ss oi)%nat.
Proof.
  induction fs as [|f0 fs IH]; intros [|s0 ss] [|i] fi p Hf Hs Hm; cbn [nth_error] in *; try discriminate.
  - injection Hf as ->. injection Hs as ->. cbn [oneof_count]. rewrite Hm. rewrite Nat.eqb_refl. lia.
  - cbn [oneof_count]. specialize (IH ss i fi p Hf Hs Hm). lia.
Qed.

Lemma oneof_unique oi : forall fs ss i j fi fj p q,
  (oneof_count fs ss oi <= 1)%nat ->
  nth_error fs i = Some fi -> nth_error ss i = Some (VSome p) -> f_shape fi = Member oi ->
  nth_error fs j = Some fj -> nth_error ss j = Some (VSome q) -> f_shape fj = Member oi -> i = j.
Proof.
  induction fs as [|f0 fs IH]; intros [|s0 ss] [|i] [|j] fi fj p q Hc Hfi Hsi Hmi Hfj Hsj Hmj;
    cbn [nth_error] in *; try discriminate; try reflexivity.
  - injection Hfi as ->. injection Hsi as ->. cbn [oneof_count] in Hc. rewrite Hmi, Nat.eqb_refl in Hc.
    pose proof (oneof_count_pos oi fs ss j fj q Hfj Hsj Hmj). lia.
  - injection Hfj as ->. injection Hsj as ->. cbn [oneof_count] in Hc. rewrite Hmj, Nat.eqb_refl in Hc.
    pose proof (oneof_count_pos oi fs ss i fi p Hfi Hsi Hmi). lia.
  - f_equal. cbn [oneof_count] in Hc. eapply IH; try eassumption. lia.
Qed.

Lemma clear_zipf (g : field -> val -> val) oi : forall fs ss,
  (forall j fj sj, nth_error fs j = Some fj -> nth_error ss j = Some sj -> f_shape fj = Member oi -> g fj sj = VNil) ->
  clear_oneof fs (zipf g fs ss) oi = zipf g fs ss.
Proof.
  induction fs as [|f0 fs IH]; intros [|s0 ss] H; cbn [zipf clear_oneof]; try reflexivity.
  f_equal.
  - destruct (f_shape f0) as [|p|j|kk] eqn:E; try reflexivity.
    destruct (Nat.eqb_spec j oi) as [->|]; [|reflexivity].
    symmetry. apply (H 0%nat f0 s0); [reflexivity|reflexivity|exact E].
  - apply IH. intros j fj sj Hf Hs Hm. apply (H (S j) fj sj); assumption.
Qed.

Lemma zipf_ext_in {B} (g g' : field -> val -> B) fs : forall ss,
  (forall f, In f fs -> forall s, g f s = g' f s) -> zipf g fs ss = zipf g' fs ss.
Proof.
  induction fs as [|f0 fs IH]; intros [|s0 ss] H; cbn [zipf]; try reflexivity.
  f_equal; [apply H; left; reflexivity|apply IH; intros f Hf s; apply H; right; exact Hf].
Qed.

Lemma nodupb_head x l : nodupb (x :: l) = true -> ~ In x l /\ nodupb l = true.
Proof.
  cbn [nodupb]. intro H. apply andb_prop in H. destruct H as [H1 H2]. split; [|exact H2].
  apply existsb_eqb_in. apply negb_true_iff. exact H1.
Qed.

Section Msg.
Variable child : child_t.
Variable md : msgdesc.
Hypothesis Hmd : msg_wf (length sch) md = true.
Variable slots : list val.
Hypothesis Hlen : length slots = length (m_fields md).
Hypothesis Hwt : forall i f s, nth_error (m_fields md) i = Some f -> nth_error slots i = Some s ->
  wt_slot (wt_msg sch) f s = true.
Hypothesis Hcg : forall i f s m, nth_error (m_fields md) i = Some f -> nth_error slots i = Some s ->
  f_ty f = TMsg m -> Forall (child_good child m) (elems_of f s).
Hypothesis Hone : forall oi, (oi < m_oneofs md)%nat -> (oneof_count (m_fields md) slots oi <= 1)%nat.

Definition slotG (done : list N) (f : field) (s : val) : val :=
  if existsb (N.eqb (f_num f)) done then norm_slot sch (norm sch) f s else default_slot f.
Definition state_of (done : list N) : list val := zipf (slotG done) (m_fields md) slots.

Lemma state_set_gen done f s : forall fs ss idx,
  nodupb (map f_num fs) = true -> nth_error fs idx = Some f -> nth_error ss idx = Some s ->
  set_nth (zipf (slotG done) fs ss) idx (norm_slot sch (norm sch) f s) = zipf (slotG (f_num f :: done)) fs ss.
Proof.
  induction fs as [|f0 fs IH]; intros [|s0 ss] [|idx] Hnd Hf Hs; cbn [nth_error] in *; try discriminate.
  - injection Hf as ->. injection Hs as ->. cbn [zipf set_nth map] in *.
    destruct (nodupb_head _ _ Hnd) as [Hni _].
    f_equal.
    + unfold slotG. cbn [existsb]. rewrite N.eqb_refl. reflexivity.
    + apply zipf_ext_in. intros f' Hf' s'. unfold slotG. cbn [existsb].
      destruct (N.eqb_spec (f_num f') (f_num f)) as [E|_]; [|reflexivity].
      exfalso. apply Hni. rewrite <- E. apply in_map. exact Hf'.
  - cbn [zipf set_nth map] in *. destruct (nodupb_head _ _ Hnd) as [Hni Hnd'].
    f_equal.
    + unfold slotG. cbn [existsb].
      destruct (N.eqb_spec (f_num f0) (f_num f)) as [E|_]; [|reflexivity].
      exfalso. apply Hni. rewrite E. apply in_map. eapply nth_error_In. exact Hf.
    + apply IH; assumption.
Qed.

Lemma nodup_fields : nodupb (map f_num (m_fields md)) = true.
Proof. unfold msg_wf in Hmd. apply andb_prop in Hmd. tauto. Qed.

Lemma state_set done idx f s :
  nth_error (m_fields md) idx = Some f -> nth_error slots idx = Some s ->
  set_nth (state_of done) idx (norm_slot sch (norm sch) f s) = state_of (f_num f :: done).
Proof. intros Hf Hs. apply state_set_gen; [apply nodup_fields|exact Hf|exact Hs]. Qed.

Lemma state_nth done idx f s :
  nth_error (m_fields md) idx = Some f -> nth_error slots idx = Some s ->
  nth idx (state_of done) VNil = slotG done f s.
Proof. intros Hf Hs. apply nth_error_nth'. apply zipf_nth_error; assumption. Qed.

Lemma state_length done : length (state_of done) = length (m_fields md).
Proof. apply zipf_length. exact Hlen. Qed.

Lemma not_in_existsb x l : ~ In x l -> existsb (N.eqb x) l = false.
Proof.
  intro H. destruct (existsb (N.eqb x) l) eqn:E; [|reflexivity].
  apply existsb_exists in E. destruct E as (y & Hy & Exy). apply N.eqb_eq in Exy. subst. contradiction.
Qed.

Lemma fields_inj i j fi fj : nth_error (m_fields md) i = Some fi -> nth_error (m_fields md) j = Some fj ->
  f_num fi = f_num fj -> i = j.
Proof.
  intros Hi Hj E. pose proof (find_field_nth _ 0%nat i fi Hi nodup_fields) as F1.
  pose proof (find_field_nth _ 0%nat j fj Hj nodup_fields) as F2. rewrite E in F1. rewrite F1 in F2.
  injection F2 as F2 _. exact F2.
Qed.

Lemma state_clear done idx f p oi :
  nth_error (m_fields md) idx = Some f -> nth_error slots idx = Some (VSome p) -> f_shape f = Member oi ->
  ~ In (f_num f) done ->
  clear_oneof (m_fields md) (state_of done) oi = state_of done.
Proof.
  intros Hf Hs Hm Hnd. apply clear_zipf. intros j fj sj Hfj Hsj Hmj.
  unfold slotG. destruct (existsb (N.eqb (f_num fj)) done) eqn:E.
  - unfold norm_slot. rewrite Hmj. destruct sj as [z|b|n|l| |q|sl un|l|kvs]; try reflexivity.
    exfalso.
    destruct (msg_wf_field md idx f Hmd Hf) as [Hfw _]. apply field_wf_shape in Hfw. rewrite Hm in Hfw.
    assert (idx = j) by (eapply (oneof_unique oi); [apply Hone; exact Hfw|exact Hf|exact Hs|exact Hm|exact Hfj|exact Hsj|exact Hmj]).
    subst j. rewrite Hf in Hfj. injection Hfj as <-.
    rewrite (not_in_existsb _ _ Hnd) in E. discriminate.
  - unfold default_slot. rewrite Hmj. reflexivity.
Qed.

Definition entry_ok (e : field * list byte) : Prop :=
  exists idx s, nth_error (m_fields md) idx = Some (fst e) /\ nth_error slots idx = Some s /\
                snd e = emit_field false (emit sch false) (fst e) s.

Lemma loop_steps unk rest : forall L done,
  (forall e, In e L -> entry_ok e) ->
  NoDup (map (fun e => f_num (fst e)) L) ->
  (forall e, In e L -> ~ In (f_num (fst e)) done) ->
  N.of_nat (length (concat (map snd L))) < two63 ->
  steps_to child md (VMsg (state_of done) unk) (concat (map snd L) ++ rest)
           (VMsg (state_of (rev (map (fun e => f_num (fst e)) L) ++ done)) unk) rest.
Proof.
  induction L as [|e L IH]; intros done Hok Hnd Hfresh Hb.
  - cbn. apply steps_refl.
  - cbn [map concat rev] in *. rewrite <- !app_assoc. cbn [app].
    destruct (Hok e (or_introl eq_refl)) as (idx & s & Hf & Hs & He).
    inversion Hnd as [|? ? Hni Hnd']; subst. rewrite app_length in Hb.
    eapply steps_trans.
    + rewrite He. apply (chunk_steps child md Hmd idx (fst e) Hf unk _ s (state_of done)).
      * rewrite state_length. apply nth_error_Some. rewrite Hf. discriminate.
      * rewrite (state_nth done idx (fst e) s Hf Hs). unfold slotG.
        rewrite (not_in_existsb _ _ (Hfresh e (or_introl eq_refl))). reflexivity.
      * apply (Hwt idx _ _ Hf Hs).
      * intros m Hm. apply (Hcg idx _ _ m Hf Hs Hm).
      * intros oi p Hm Hp. subst s. apply (state_clear done idx (fst e) p oi Hf Hs Hm).
        apply Hfresh. left. reflexivity.
      * rewrite <- He. lia.
    + rewrite (state_set done idx (fst e) s Hf Hs).
      apply IH.
      * intros e' He'. apply Hok. right. exact He'.
      * exact Hnd'.
      * intros e' He' [E|Hin].
        -- apply Hni. rewrite E. apply (in_map (fun e => f_num (fst e))). exact He'.
        -- apply (Hfresh e' (or_intror He')). exact Hin.
      * lia.
Qed.
End Msg.

(* ---------------------------------------------------------------- assemble is a permutation of the per-field chunks *)
Lemma insert_sorted_perm {A} (ltb : A -> A -> bool) x l : Permutation (insert_sorted ltb x l) (x :: l).
Proof.
  induction l as [|y t IH]; cbn [insert_sorted]; [apply Permutation_refl|].
  destruct (ltb y x); [|apply Permutation_refl].
  eapply Permutation_trans; [apply perm_skip; exact IH|apply perm_swap].
Qed.

Lemma isort_perm {A} (ltb : A -> A -> bool) l : Permutation (isort ltb l) l.
Proof.
  induction l as [|x l IH]; cbn [isort fold_right]; [apply Permutation_refl|].
  eapply Permutation_trans; [apply insert_sorted_perm|apply perm_skip; exact IH].
Qed.

Lemma filter_union_disjoint {A} (g1 g2 : A -> bool) l : (forall x, In x l -> g1 x && g2 x = false) ->
  Permutation (filter g1 l ++ filter g2 l) (filter (fun x => g1 x || g2 x) l).
Proof.
  induction l as [|x l IH]; intro H; cbn [filter app]; [apply Permutation_refl|].
  assert (IH' : Permutation (filter g1 l ++ filter g2 l) (filter (fun x => g1 x || g2 x) l)).
  { apply IH. intros y Hy. apply H. right. exact Hy. }
  specialize (H x (or_introl eq_refl)).
  destruct (g1 x) eqn:E1; destruct (g2 x) eqn:E2; cbn [orb andb] in *; try discriminate H.
  - cbn [app]. apply perm_skip. exact IH'.
  - eapply Permutation_trans; [apply Permutation_sym; apply Permutation_middle|]. apply perm_skip. exact IH'.
  - exact IH'.
Qed.

Lemma filter_none {A} (g : A -> bool) l : (forall x, In x l -> g x = false) -> filter g l = [].
Proof.
  induction l as [|x l IH]; intro H; cbn [filter]; [reflexivity|].
  rewrite (H x (or_introl eq_refl)). apply IH. intros y Hy. apply H. right. exact Hy.
Qed.

Lemma filter_all {A} (g : A -> bool) l : (forall x, In x l -> g x = true) -> filter g l = l.
Proof.
  induction l as [|x l IH]; intro H; cbn [filter]; [reflexivity|].
  rewrite (H x (or_introl eq_refl)). f_equal. apply IH. intros y Hy. apply H. right. exact Hy.
Qed.

Definition in_oneof_range (lo n : nat) (p : field * list byte) : bool :=
  match f_shape (fst p) with Member j => (lo <=? j)%nat && (j <? lo + n)%nat | _ => false end.

Lemma members_range (per : list (field * list byte)) : forall n lo,
  Permutation (flat_map (fun i => filter (fun p => member_of i (fst p)) per) (seq lo n))
              (filter (in_oneof_range lo n) per).
Proof.
  induction n as [|n IH]; intro lo.
  - cbn [seq flat_map]. rewrite filter_none; [apply Permutation_refl|].
    intros p _. unfold in_oneof_range. destruct (f_shape (fst p)); try reflexivity.
    destruct (Nat.leb_spec lo oneof); destruct (Nat.ltb_spec oneof (lo + 0)); try reflexivity; lia.
  - cbn [seq flat_map].
    eapply Permutation_trans; [apply Permutation_app_head; apply IH|].
    eapply Permutation_trans; [apply filter_union_disjoint|].
    + intros p _. unfold member_of, in_oneof_range. destruct (f_shape (fst p)); try reflexivity.
      destruct (Nat.eqb_spec lo oneof); destruct (Nat.leb_spec (S lo) oneof); cbn [andb]; try reflexivity; lia.
    + erewrite filter_ext; [apply Permutation_refl|].
      intro p. unfold member_of, in_oneof_range. destruct (f_shape (fst p)); try reflexivity.
      destruct (Nat.eqb_spec lo oneof); destruct (Nat.leb_spec (S lo) oneof); destruct (Nat.leb_spec lo oneof);
        destruct (Nat.ltb_spec oneof (S lo + n)); destruct (Nat.ltb_spec oneof (lo + S n)); cbn [andb orb]; try reflexivity; lia.
Qed.

Definition assemble_list (md : msgdesc) (per : list (field * list byte)) : list (field * list byte) :=
  isort (fun a b => f_num (fst a) <? f_num (fst b)) (filter (fun p => negb (is_member (fst p))) per) ++
  flat_map (fun i => filter (fun p => member_of i (fst p)) per) (seq 0 (m_oneofs md)).

Lemma concat_snd_flat_map {I} (F : I -> list (field * list byte)) l :
  concat (map snd (flat_map F l)) = concat (map (fun i => concat (map snd (F i))) l).
Proof.
  induction l as [|i l IH]; cbn [flat_map map concat]; [reflexivity|].
  rewrite map_app, concat_app, IH. reflexivity.
Qed.

Lemma assemble_concat md per : assemble md per = concat (map snd (assemble_list md per)).
Proof.
  unfold assemble, assemble_list. rewrite map_app, concat_app. f_equal.
  symmetry. apply concat_snd_flat_map.
Qed.

Lemma assemble_perm md per :
  (forall p j, In p per -> f_shape (fst p) = Member j -> (j < m_oneofs md)%nat) ->
  Permutation (assemble_list md per) per.
Proof.
  intro H. unfold assemble_list.
  eapply Permutation_trans; [apply Permutation_app; [apply isort_perm|apply members_range]|].
  eapply Permutation_trans; [apply filter_union_disjoint|].
  - intros p _. unfold is_member, in_oneof_range. destruct (f_shape (fst p)); reflexivity.
  - rewrite filter_all; [apply Permutation_refl|].
    intros p Hp. unfold is_member, in_oneof_range. destruct (f_shape (fst p)) eqn:E; try reflexivity.
    specialize (H p oneof Hp E). cbn [negb orb].
    destruct (Nat.leb_spec 0 oneof); destruct (Nat.ltb_spec oneof (0 + m_oneofs md)); try reflexivity; lia.
Qed.

Lemma nodupb_NoDup l : nodupb l = true -> NoDup l.
Proof.
  induction l as [|x l IH]; intro H; [constructor|].
  destruct (nodupb_head _ _ H) as [H1 H2]. constructor; [exact H1|apply IH; exact H2].
Qed.

Lemma zipf_map_fst {B} (h : field -> val -> B) (k : field -> N) fs : forall ss, length ss = length fs ->
  map (fun e => k (fst e)) (zipf (fun f s => (f, h f s)) fs ss) = map k fs.
Proof.
  induction fs as [|f fs IH]; intros [|s ss] H; cbn in *; try lia; [reflexivity|].
  f_equal. apply IH. lia.
Qed.

Lemma zipf_const {B} (h : field -> B) fs : forall ss, length ss = length fs ->
  zipf (fun f _ => h f) fs ss = map h fs.
Proof.
  induction fs as [|f fs IH]; intros [|s ss] H; cbn in *; try lia; [reflexivity|].
  f_equal. apply IH. lia.
Qed.

Lemma msg_level child md slots :
  msg_wf (length sch) md = true ->
  length slots = length (m_fields md) ->
  (forall i f s, nth_error (m_fields md) i = Some f -> nth_error slots i = Some s ->
     wt_slot (wt_msg sch) f s = true) ->
  (forall i f s m, nth_error (m_fields md) i = Some f -> nth_error slots i = Some s ->
     f_ty f = TMsg m -> Forall (child_good child m) (elems_of f s)) ->
  (forall oi, (oi < m_oneofs md)%nat -> (oneof_count (m_fields md) slots oi <= 1)%nat) ->
  let per := zipf (fun f s => (f, emit_field false (emit sch false) f s)) (m_fields md) slots in
  N.of_nat (length (assemble md per)) < two63 ->
  forall fuel, (length (assemble md per ++ []) < fuel)%nat ->
  msg_loop sch discard child md fuel (empty_msg md) (assemble md per ++ [])
  = Ok (VMsg (zipf (norm_slot sch (norm sch)) (m_fields md) slots) []).
Proof.
  intros Hmd Hlen Hwt Hcg Hone per Hb fuel Hfuel.
  assert (Hperm : Permutation (assemble_list md per) per).
  { apply assemble_perm. intros p j Hp Hj. unfold per in Hp. apply zipf_in in Hp.
    destruct Hp as (i & f & s & Hf & Hs & ->). cbn [fst] in Hj.
    destruct (msg_wf_field md i f Hmd Hf) as [Hfw _]. apply field_wf_shape in Hfw. rewrite Hj in Hfw. exact Hfw. }
  set (L := assemble_list md per) in *.
  assert (Hkeys : Permutation (map (fun e => f_num (fst e)) L) (map f_num (m_fields md))).
  { eapply Permutation_trans; [apply Permutation_map; exact Hperm|].
    unfold per. rewrite (zipf_map_fst _ f_num) by exact Hlen. apply Permutation_refl. }
  pose proof (loop_steps child md Hmd slots Hlen Hwt Hcg Hone [] [] L []) as Hsteps.
  assert (Hst : steps_to child md (VMsg (state_of md slots []) []) (concat (map snd L) ++ [])
                  (VMsg (state_of md slots (rev (map (fun e => f_num (fst e)) L) ++ [])) []) []).
  { apply Hsteps.
    - intros e He. apply (Permutation_in _ Hperm) in He. unfold per in He. apply zipf_in in He.
      destruct He as (i & f & s & Hf & Hs & ->). exists i, s. cbn [fst snd]. repeat split; assumption.
    - apply (Permutation_NoDup (Permutation_sym Hkeys)). apply nodupb_NoDup. apply (nodup_fields md Hmd).
    - intros e _ [].
    - unfold L. rewrite <- assemble_concat. exact Hb. }
  rewrite assemble_concat. fold L. rewrite assemble_concat in Hfuel. fold L in Hfuel.
  assert (E0 : empty_msg md = VMsg (state_of md slots []) []).
  { unfold empty_msg. f_equal. unfold state_of, slotG. cbn [existsb]. symmetry.
    apply (zipf_const default_slot). exact Hlen. }
  rewrite E0.
  destruct (Hst fuel Hfuel) as (fuel' & Hf' & E). rewrite E.
  destruct fuel' as [|fu]; [cbn in Hf'; lia|]. cbn [msg_loop].
  f_equal. f_equal. unfold state_of. apply zipf_ext_in. intros f Hf s. unfold slotG.
  assert (Hin : In (f_num f) (rev (map (fun e => f_num (fst e)) L) ++ [])).
  { rewrite app_nil_r. apply in_rev. rewrite rev_involutive.
    apply (Permutation_in _ (Permutation_sym Hkeys)). apply in_map. exact Hf. }
  destruct (existsb (N.eqb (f_num f)) (rev (map (fun e => f_num (fst e)) L) ++ [])) eqn:Ex; [reflexivity|].
  exfalso. apply (existsb_eqb_in _ _ Ex). exact Hin.
Qed.

(* ---------------------------------------------------------------- nested values *)
Lemma in_concat_le {A} (g : A -> list byte) l x : In x l -> (length (g x) <= length (concat (map g l)))%nat.
Proof.
  induction l as [|y l IH]; intro H; [contradiction|]. cbn [map concat]. rewrite app_length.
  destruct H as [->|H]; [lia|]. specialize (IH H). lia.
Qed.

Lemma fold_max_ge {A} (h : A -> nat) l x : In x l ->
  (h x <= fold_right (fun s acc => Nat.max (h s) acc) 0%nat l)%nat.
Proof.
  induction l as [|y l IH]; intro H; [contradiction|]. cbn [fold_right].
  destruct H as [->|H]; [lia|]. specialize (IH H). lia.
Qed.

Lemma map_id_in {A} (g : A -> A) l x : map g l = l -> In x l -> g x = x.
Proof.
  induction l as [|y l IH]; intros H Hin; [contradiction|]. cbn [map] in H. injection H as H1 H2.
  destruct Hin as [->|Hin]; [exact H1|apply IH; assumption].
Qed.

Lemma lenpfx_len bs : (length bs + 1 <= length (lenpfx bs))%nat.
Proof. unfold lenpfx. rewrite app_length. pose proof (enc_varint_len_bounds (N.of_nat (length bs))). lia. Qed.

Lemma elems_facts nm no f s m :
  field_wf nm no f = true -> f_ty f = TMsg m ->
  wt_slot (wt_msg sch) f s = true -> strip_unknown s = s ->
  Forall (fun x => wt_elem (wt_msg sch) (TMsg m) x = true /\ strip_unknown x = x /\
                   (length (emit sch false m x) + 2 <= length (emit_field false (emit sch false) f s))%nat /\
                   (val_depth x <= val_depth s)%nat) (elems_of f s).
Proof.
  intros Hfw Ht Hwt Hst. apply field_wf_shape in Hfw.
  unfold wt_slot, elems_of, emit_field in *. rewrite Ht in *.
  pose proof (key_bytes_len (f_num f) WT_BYTES) as Hk.
  destruct (f_shape f) as [|p|oi|kk] eqn:Hs.
  - (* singular *)
    destruct s as [z|b|n|l| |q|sl un|l|kvs]; try discriminate Hwt; [constructor|].
    constructor; [|constructor]. split; [exact Hwt|]. split; [exact Hst|]. split; [|lia].
    rewrite app_length. pose proof (lenpfx_len (emit sch false m (VMsg sl un))). lia.
  - (* repeated *)
    subst p.
    destruct s as [z|b|n|l| |q|sl un|l|kvs]; try discriminate Hwt; cbn [lst]; [constructor|].
    apply Forall_forall. intros x Hx. rewrite forallb_forall in Hwt.
    cbn [strip_unknown] in Hst. injection Hst as Hst.
    split; [apply Hwt; exact Hx|]. split; [apply (map_id_in _ _ _ Hst Hx)|]. split.
    + destruct l as [|e l]; [contradiction|].
      pose proof (in_concat_le (fun x => key_bytes (f_num f) (ftype_wt (TMsg m)) ++ emit_elem (emit sch false) (TMsg m) x) (e :: l) x Hx) as H.
      cbv beta in H. rewrite app_length in H. cbn [emit_elem ftype_wt] in H.
      pose proof (lenpfx_len (emit sch false m x)). cbn [emit_elem ftype_wt]. lia.
    + cbn [val_depth]. apply (fold_max_ge val_depth). exact Hx.
  - (* member *)
    destruct s as [z|b|n|l| |q|sl un|l|kvs]; try discriminate Hwt; [constructor|].
    constructor; [|constructor]. split; [exact Hwt|]. cbn [strip_unknown] in Hst. injection Hst as Hst.
    split; [exact Hst|]. split; [|cbn [val_depth]; lia].
    rewrite app_length. cbn [emit_elem ftype_wt]. pose proof (lenpfx_len (emit sch false m q)). lia.
  - (* map *)
    destruct s as [z|b|n|l| |q|sl un|l|kvs]; try discriminate Hwt; cbn [mp map]; [constructor|].
    apply andb_prop in Hwt. destruct Hwt as [Hwt _]. rewrite forallb_forall in Hwt.
    cbn [strip_unknown] in Hst. injection Hst as Hst.
    apply Forall_forall. intros x Hx. apply in_map_iff in Hx. destruct Hx as (kv & <- & Hkv).
    specialize (Hwt kv Hkv). apply andb_prop in Hwt. destruct Hwt as [_ Hwv].
    split; [exact Hwv|]. split.
    { pose proof (map_id_in _ _ _ Hst Hkv) as E. destruct kv as [a b]. cbn [fst snd] in *. congruence. }
    split.
    + rewrite map_map. cbn [snd].
      match goal with |- (_ <= length (concat (map ?g kvs)))%nat => pose proof (in_concat_le g kvs kv Hkv) as H end.
      cbv beta in H. unfold emit_entry at 1 in H. rewrite app_length in H. cbn [emit_elem] in H.
      pose proof (lenpfx_len (key_bytes 1 (kind_wt kk) ++ scalar_payload kk (fst kv) ++
                  key_bytes 2 (ftype_wt (TMsg m)) ++ emit_elem (emit sch false) (TMsg m) (snd kv))) as H2.
      rewrite !app_length in H2. cbn [emit_elem] in H2.
      pose proof (lenpfx_len (emit sch false m (snd kv))). lia.
    + cbn [val_depth]. apply (fold_max_ge (fun kv => val_depth (snd kv))). exact Hkv.
Qed.

Lemma wf_get_msg mid md : wf sch = true -> get_msg sch mid = Some md -> msg_wf (length sch) md = true.
Proof.
  unfold wf, get_msg. intros H Hn. rewrite forallb_forall in H. apply H. eapply nth_error_In. exact Hn.
Qed.

Lemma in_assemble_le md per e :
  (forall p j, In p per -> f_shape (fst p) = Member j -> (j < m_oneofs md)%nat) ->
  In e per -> (length (snd e) <= length (assemble md per))%nat.
Proof.
  intros H Hin. rewrite assemble_concat.
  apply (Permutation_in _ (Permutation_sym (assemble_perm md per H))) in Hin.
  apply (in_concat_le snd). exact Hin.
Qed.

Lemma unmarshal_nil fuel depth m md tgt :
  (0 < fuel)%nat -> (0 < depth)%Z -> get_msg sch m = Some md -> tgt_ok m tgt ->
  unmarshal_at sch discard fuel depth m tgt [] = Ok (empty_msg md).
Proof.
  intros Hf Hd Hg Ht. destruct fuel as [|fu]; [lia|]. cbn [unmarshal_at].
  destruct (Z.leb_spec depth 0); [lia|]. rewrite Hg.
  destruct Ht as [->|(md' & Hg' & ->)]; [reflexivity|].
  rewrite Hg in Hg'. injection Hg' as <-. reflexivity.
Qed.

Lemma unmarshal_rt : wf sch = true -> forall fuel v mid depth tgt,
  wt_msg sch mid v = true -> strip_unknown v = v ->
  (length (emit sch false mid v) < fuel)%nat ->
  (Z.of_nat (val_depth v) < depth)%Z ->
  N.of_nat (length (emit sch false mid v)) < two63 ->
  tgt_ok mid tgt ->
  unmarshal_at sch discard fuel depth mid tgt (emit sch false mid v) = Ok (norm sch mid v).
Proof.
  intro Hwf. induction fuel as [|fu IH]; intros v mid depth tgt Hwt Hst Hfuel Hdepth Hb Htgt; [lia|].
  destruct v as [z|b|n|l| |q|slots unk|l|kvs]; try discriminate Hwt.
  cbn [strip_unknown] in Hst. injection Hst as Hst Hunk. subst unk.
  rewrite wt_msg_unfold in Hwt. rewrite emit_unfold in *. rewrite norm_unfold.
  destruct (get_msg sch mid) as [md|] eqn:Hg; [|discriminate Hwt].
  apply andb_prop in Hwt. destruct Hwt as [Hza Hone].
  destruct (zipall_spec _ _ _ Hza) as [Hlen Hslot].
  pose proof (wf_get_msg mid md Hwf Hg) as Hmd.
  cbn [unmarshal_at]. cbn [val_depth] in Hdepth.
  destruct (Z.leb_spec depth 0); [lia|]. rewrite Hg.
  assert (Einit : match tgt with VMsg _ _ => tgt | _ => empty_msg md end = empty_msg md).
  { destruct Htgt as [->|(md' & Hg' & ->)]; [reflexivity|]. rewrite Hg in Hg'. injection Hg' as <-. reflexivity. }
  rewrite Einit.
  set (per := zipf (fun f s => (f, emit_field false (emit sch false) f s)) (m_fields md) slots) in *.
  assert (Hmem : forall p j, In p per -> f_shape (fst p) = Member j -> (j < m_oneofs md)%nat).
  { intros p j Hp Hj. unfold per in Hp. apply zipf_in in Hp.
    destruct Hp as (i & f & s & Hf & Hs & ->). cbn [fst] in Hj.
    destruct (msg_wf_field md i f Hmd Hf) as [Hfw _]. apply field_wf_shape in Hfw. rewrite Hj in Hfw. exact Hfw. }
  apply msg_level; try assumption.
  - (* children *)
    intros i f s m Hf Hs Hm.
    destruct (msg_wf_field md i f Hmd Hf) as [Hfw _].
    assert (Hss : strip_unknown s = s).
    { apply (map_id_in _ _ _ Hst). eapply nth_error_In. exact Hs. }
    pose proof (elems_facts _ _ f s m Hfw Hm (Hslot i f s Hf Hs) Hss) as Hfacts.
    assert (Hchunk : (length (emit_field false (emit sch false) f s) <= length (assemble md per))%nat).
    { apply (in_assemble_le md per (f, emit_field false (emit sch false) f s) Hmem).
      unfold per. apply nth_error_In with (n := i).
      apply (zipf_nth_error (fun f s => (f, emit_field false (emit sch false) f s))); assumption. }
    assert (Hds : (val_depth s <= fold_right (fun s acc => Nat.max (val_depth s) acc) 0%nat slots)%nat).
    { apply (fold_max_ge val_depth). eapply nth_error_In. exact Hs. }
    rewrite app_nil_r in Hfuel, Hb.
    eapply Forall_impl; [|exact Hfacts]. cbv beta. intros x (Hx1 & Hx2 & Hx3 & Hx4) tgt' Htgt'.
    pose proof (field_wf_ty _ _ f m Hfw Hm) as Hmlt.
    destruct (nth_error sch m) as [md'|] eqn:Hg'; [|apply nth_error_None in Hg'; lia].
    destruct x as [z|b|n|l| |q|sl un|l|kvs]; try discriminate Hx1.
    + (* nil element *)
      cbn [emit norm_elem]. unfold get_msg. rewrite Hg'.
      apply unmarshal_nil; [lia|lia|exact Hg'|exact Htgt'].
    + cbn [norm_elem]. apply IH; try assumption; try lia.
  - (* oneof counts *)
    intros oi Hoi. rewrite forallb_forall in Hone. apply Nat.leb_le. apply Hone. apply in_seq. lia.
  - rewrite app_nil_r in Hb. exact Hb.
  - fold per. lia.
Qed.
End RT.

Lemma roundtrip_nondet sch : wf sch = true -> forall v mid, wt_msg sch mid v = true -> strip_unknown v = v ->
  N.of_nat (val_depth v) < 9999 -> N.of_nat (length (emit sch false mid v)) < two63 ->
  pulsar_unmarshal sch false mid VNil (emit sch false mid v) = Ok (norm sch mid v).
Proof.
  intros Hwf v mid Hwt Hst Hd Hb. unfold pulsar_unmarshal, recursion_limit.
  apply unmarshal_rt; try assumption; try lia. left. reflexivity.
Qed.

(* ================================================================ deterministic mode: sort the maps first *)
Lemma insert_sorted_map {A B} (F : A -> B) (la : A -> A -> bool) (lb : B -> B -> bool) x l :
  (forall a b, lb (F a) (F b) = la a b) ->
  insert_sorted lb (F x) (map F l) = map F (insert_sorted la x l).
Proof.
  intro H. induction l as [|y t IH]; cbn [map insert_sorted]; [reflexivity|].
  rewrite H. destruct (la y x); cbn [map]; [rewrite IH|]; reflexivity.
Qed.

Lemma isort_map {A B} (F : A -> B) (la : A -> A -> bool) (lb : B -> B -> bool) l :
  (forall a b, lb (F a) (F b) = la a b) ->
  isort lb (map F l) = map F (isort la l).
Proof.
  intro H. induction l as [|x l IH]; cbn [map isort fold_right]; [reflexivity|].
  fold (isort lb (map F l)). fold (isort la l). rewrite IH. apply insert_sorted_map. exact H.
Qed.

Lemma insert_sorted_ext_in {A} (l1 l2 : A -> A -> bool) x t :
  (forall y, In y t -> l1 y x = l2 y x) -> insert_sorted l1 x t = insert_sorted l2 x t.
Proof.
  induction t as [|y t IH]; intro H; cbn [insert_sorted]; [reflexivity|].
  rewrite (H y (or_introl eq_refl)). destruct (l2 y x); [|reflexivity].
  f_equal. apply IH. intros z Hz. apply H. right. exact Hz.
Qed.

Lemma isort_ext_in {A} (l1 l2 : A -> A -> bool) l :
  (forall a b, In a l -> In b l -> l1 a b = l2 a b) -> isort l1 l = isort l2 l.
Proof.
  induction l as [|x l IH]; intro H; cbn [isort fold_right]; [reflexivity|].
  fold (isort l1 l). fold (isort l2 l).
  rewrite IH by (intros a b Ha Hb; apply H; right; assumption).
  apply insert_sorted_ext_in. intros y Hy. apply H; [right|left; reflexivity].
  apply (Permutation_in _ (isort_perm l2 l)). exact Hy.
Qed.

Fixpoint asorted {A} (ltb : A -> A -> bool) (l : list A) : Prop :=
  match l with
  | [] => True
  | x :: t => match t with [] => True | y :: _ => ltb y x = false end /\ asorted ltb t
  end.

Lemma insert_asorted {A} (ltb : A -> A -> bool) x t :
  (forall a b, ltb a b = true -> ltb b a = false) -> asorted ltb t -> asorted ltb (insert_sorted ltb x t).
Proof.
  intro Has. induction t as [|y t IH]; intro H; cbn [insert_sorted].
  - cbn. auto.
  - destruct (ltb y x) eqn:E.
    + destruct H as [H1 H2]. specialize (IH H2). cbn [asorted]. split; [|exact IH].
      destruct t as [|z t']; cbn [insert_sorted].
      * apply Has. exact E.
      * destruct (ltb z x); [exact H1|apply Has; exact E].
    + cbn [asorted]. split; [exact E|exact H].
Qed.

Lemma isort_asorted {A} (ltb : A -> A -> bool) l :
  (forall a b, ltb a b = true -> ltb b a = false) -> asorted ltb (isort ltb l).
Proof.
  intro Has. induction l as [|x l IH]; cbn [isort fold_right]; [exact I|].
  apply insert_asorted; assumption.
Qed.

Lemma isort_of_asorted {A} (ltb : A -> A -> bool) l : asorted ltb l -> isort ltb l = l.
Proof.
  induction l as [|x l IH]; intro H; cbn [isort fold_right]; [reflexivity|].
  destruct H as [H1 H2]. fold (isort ltb l). rewrite (IH H2).
  destruct l as [|y t]; cbn [insert_sorted]; [reflexivity|]. rewrite H1. reflexivity.
Qed.

Lemma isort_idem {A} (ltb : A -> A -> bool) l :
  (forall a b, ltb a b = true -> ltb b a = false) -> isort ltb (isort ltb l) = isort ltb l.
Proof. intro H. apply isort_of_asorted. apply isort_asorted. exact H. Qed.

Lemma depth_ind (P : nat -> val -> Prop) :
  (forall mid v, (forall m x, (val_depth x < val_depth v)%nat -> P m x) -> P mid v) ->
  forall mid v, P mid v.
Proof.
  intro H. assert (G : forall n mid v, (val_depth v < n)%nat -> P mid v).
  { induction n as [|n IH]; intros mid v Hn; [lia|]. apply H. intros m x Hx. apply IH. lia. }
  intros mid v. apply (G (S (val_depth v))). lia.
Qed.

Lemma zipf_zipf {B} (g : field -> val -> B) (h : field -> val -> val) fs : forall ss,
  zipf g fs (zipf h fs ss) = zipf (fun f s => g f (h f s)) fs ss.
Proof. induction fs as [|f fs IH]; intros [|s ss]; cbn [zipf]; try reflexivity. f_equal. apply IH. Qed.

Lemma map_zipf {B C} (c : B -> C) (g : field -> val -> B) fs : forall ss,
  map c (zipf g fs ss) = zipf (fun f s => c (g f s)) fs ss.
Proof. induction fs as [|f fs IH]; intros [|s ss]; cbn [zipf map]; try reflexivity. f_equal. apply IH. Qed.

Lemma zipf_ext_nth {B} (g g' : field -> val -> B) fs : forall ss,
  (forall i f s, nth_error fs i = Some f -> nth_error ss i = Some s -> g f s = g' f s) ->
  zipf g fs ss = zipf g' fs ss.
Proof.
  induction fs as [|f fs IH]; intros [|s ss] H; cbn [zipf]; try reflexivity.
  f_equal; [apply (H 0%nat); reflexivity|]. apply IH. intros i f' s' Hf Hs. apply (H (S i)); assumption.
Qed.

Section Sortm.
Variable sch : schema.

Definition sort_elem (rec : nat -> val -> val) (t : ftype) (v : val) : val :=
  match t with TScalar _ => v | TMsg m => rec m v end.

Definition sort_slot (rec : nat -> val -> val) (f : field) (s : val) : val :=
  match f_shape f with
  | Singular => sort_elem rec (f_ty f) s
  | Rep _ => match s with VList l => VList (map (sort_elem rec (f_ty f)) l) | _ => s end
  | Member _ => match s with VSome p => VSome (sort_elem rec (f_ty f) p) | _ => s end
  | MapOf kk =>
    match s with
    | VMap kvs => VMap (isort (fun a b => key_ltb kk (fst a) (fst b))
                              (map (fun kv => (fst kv, sort_elem rec (f_ty f) (snd kv))) kvs))
    | _ => s
    end
  end.

Fixpoint sortm (mid : nat) (v : val) {struct v} : val :=
  match v with
  | VMsg slots unk =>
    match get_msg sch mid with
    | None => v
    | Some md =>
      VMsg ((fix go (fs : list field) (ss : list val) {struct ss} : list val :=
               match ss, fs with
               | s :: ss', f :: fs' => sort_slot sortm f s :: go fs' ss'
               | _, _ => []
               end) (m_fields md) slots) unk
    end
  | _ => v
  end.

Lemma sortm_unfold mid slots unk :
  sortm mid (VMsg slots unk) =
  match get_msg sch mid with
  | None => VMsg slots unk
  | Some md => VMsg (zipf (sort_slot sortm) (m_fields md) slots) unk
  end.
Proof.
  cbn [sortm]. destruct (get_msg sch mid) as [md|]; [|reflexivity]. f_equal.
  generalize (m_fields md). induction slots as [|s ss IH]; intros [|f fs]; cbn [zipf]; try reflexivity.
  f_equal. apply IH.
Qed.

Definition is_nil (v : val) : bool := match v with VNil => true | _ => false end.

Lemma sortm_is_nil m x : is_nil (sortm m x) = is_nil x.
Proof. destruct x; try reflexivity. rewrite sortm_unfold. destruct (get_msg sch m); reflexivity. Qed.

Lemma slot_depth_lt slots unk s : In s slots -> (val_depth s < val_depth (VMsg slots unk))%nat.
Proof. intro H. cbn [val_depth]. pose proof (fold_max_ge val_depth slots s H). lia. Qed.

(* ---- D1: emit in deterministic mode = emit in plain mode of the sorted value *)
Lemma d1_elem t x :
  (forall m, t = TMsg m -> emit sch true m x = emit sch false m (sortm m x)) ->
  emit_elem (emit sch true) t x = emit_elem (emit sch false) t (sort_elem sortm t x).
Proof.
  intro H. destruct t as [k|m]; cbn [emit_elem sort_elem]; [reflexivity|]. rewrite (H m eq_refl). reflexivity.
Qed.

Lemma d1_slot f s :
  (forall m x, (val_depth x <= val_depth s)%nat -> emit sch true m x = emit sch false m (sortm m x)) ->
  emit_field true (emit sch true) f s = emit_field false (emit sch false) f (sort_slot sortm f s).
Proof.
  intro IH. unfold emit_field, sort_slot. destruct (f_shape f) as [|p|oi|kk].
  - destruct (f_ty f) as [k|m]; cbn [sort_elem]; [reflexivity|].
    assert (E : forall (rec : val -> list byte) (key : list byte) (y : val),
              match y with VNil => [] | _ => key ++ lenpfx (rec y) end = if is_nil y then [] else key ++ lenpfx (rec y)).
    { intros rec key y. destruct y; reflexivity. }
    rewrite (E (emit sch true m)), (E (emit sch false m)). rewrite sortm_is_nil.
    rewrite (IH m s) by lia. reflexivity.
  - destruct s as [z|b|n|l| |q|sl un|l|kvs]; try reflexivity.
    destruct l as [|e l]; [reflexivity|].
    assert (E : forall x, In x (e :: l) ->
              emit_elem (emit sch true) (f_ty f) x = emit_elem (emit sch false) (f_ty f) (sort_elem sortm (f_ty f) x)).
    { intros x Hx. apply d1_elem. intros m _. apply IH. cbn [val_depth]. apply (fold_max_ge val_depth). exact Hx. }
    change (map (sort_elem sortm (f_ty f)) (e :: l)) with (sort_elem sortm (f_ty f) e :: map (sort_elem sortm (f_ty f)) l).
    cbv iota.
    change (sort_elem sortm (f_ty f) e :: map (sort_elem sortm (f_ty f)) l) with (map (sort_elem sortm (f_ty f)) (e :: l)).
    destruct p.
    + f_equal. f_equal. f_equal. rewrite map_map. apply map_ext_in. exact E.
    + f_equal. rewrite map_map. apply map_ext_in. intros x Hx. rewrite (E x Hx). reflexivity.
  - destruct s as [z|b|n|l| |q|sl un|l|kvs]; try reflexivity.
    f_equal. apply d1_elem. intros m _. apply IH. cbn [val_depth]. lia.
  - destruct s as [z|b|n|l| |q|sl un|l|kvs]; try reflexivity.
    f_equal. f_equal.
    set (g := fun kv : val * val => (fst kv, sort_elem sortm (f_ty f) (snd kv))).
    set (H2 := fun kv : val * val => (fst kv, emit_entry (emit sch false) (f_num f) kk (f_ty f) kv)).
    rewrite <- (isort_map H2 (fun a b => key_ltb kk (fst a) (fst b)) (fun a b => key_ltb kk (fst a) (fst b)))
      by (intros a b; reflexivity).
    f_equal. rewrite map_map. apply map_ext_in. intros kv Hkv. unfold H2, g. cbn [fst]. f_equal.
    unfold emit_entry. cbn [fst snd]. f_equal. f_equal. f_equal. f_equal. f_equal.
    apply d1_elem. intros m _. apply IH. cbn [val_depth].
    apply (fold_max_ge (fun kv => val_depth (snd kv))). exact Hkv.
Qed.

Lemma d1 : forall mid v, emit sch true mid v = emit sch false mid (sortm mid v).
Proof.
  apply (depth_ind (fun mid v => emit sch true mid v = emit sch false mid (sortm mid v))).
  intros mid v IH. destruct v as [z|b|n|l| |q|slots unk|l|kvs]; try reflexivity.
  rewrite sortm_unfold. rewrite emit_unfold. destruct (get_msg sch mid) as [md|] eqn:Hg.
  - rewrite emit_unfold, Hg. f_equal. f_equal. rewrite zipf_zipf. apply zipf_ext_nth.
    intros i f s Hf Hs. f_equal. apply d1_slot. intros m x Hx. apply IH.
    pose proof (slot_depth_lt slots unk s (nth_error_In _ _ Hs)). lia.
  - rewrite emit_unfold, Hg. reflexivity.
Qed.

(* ---- generic list facts for D2..D5 *)
Lemma val_key_eqb_sym a b : val_key_eqb a b = val_key_eqb b a.
Proof.
  destruct a; destruct b; try reflexivity; cbn [val_key_eqb].
  - apply Z.eqb_sym.
  - destruct b0; destruct b; reflexivity.
  - destruct (list_eq_dec byte_eq_dec l l0); destruct (list_eq_dec byte_eq_dec l0 l); congruence.
Qed.

Lemma existsb_perm {A} (g : A -> bool) l l' : Permutation l l' -> existsb g l = existsb g l'.
Proof.
  intro H. induction H; cbn [existsb]; try congruence.
  - destruct (g y); destruct (g x); reflexivity.
Qed.

Lemma nodup_keys_perm l l' : Permutation l l' -> nodup_keys l = nodup_keys l'.
Proof.
  intro H. induction H; cbn [nodup_keys]; try congruence.
  - rewrite IHPermutation. rewrite (existsb_perm _ _ _ H). reflexivity.
  - cbn [existsb]. rewrite (val_key_eqb_sym y x).
    destruct (val_key_eqb x y); destruct (existsb (val_key_eqb y) l); destruct (existsb (val_key_eqb x) l); reflexivity.
Qed.

Lemma forallb_perm {A} (g : A -> bool) l l' : Permutation l l' -> forallb g l = forallb g l'.
Proof.
  intro H. induction H; cbn [forallb]; try congruence.
  destruct (g y); destruct (g x); reflexivity.
Qed.

Lemma fold_max_le_gen {A B} (h : A -> nat) (h' : B -> nat) l l' :
  (forall x, In x l' -> exists y, In y l /\ (h' x <= h y)%nat) ->
  (fold_right (fun s acc => Nat.max (h' s) acc) 0%nat l' <= fold_right (fun s acc => Nat.max (h s) acc) 0%nat l)%nat.
Proof.
  induction l' as [|x l' IH]; intro H; cbn [fold_right]; [lia|].
  destruct (H x (or_introl eq_refl)) as (y & Hy & Hle).
  pose proof (fold_max_ge h l y Hy).
  assert (IH' := IH (fun z Hz => H z (or_intror Hz))). lia.
Qed.

Lemma map_id_ext {A} (g : A -> A) l : (forall x, In x l -> g x = x) -> map g l = l.
Proof.
  induction l as [|x l IH]; intro H; cbn [map]; [reflexivity|].
  rewrite (H x (or_introl eq_refl)). f_equal. apply IH. intros y Hy. apply H. right. exact Hy.
Qed.

Lemma forallb_ext' {A} (g g' : A -> bool) l : (forall x, g x = g' x) -> forallb g l = forallb g' l.
Proof. intro H. induction l as [|x l IH]; cbn [forallb]; [reflexivity|]. rewrite H, IH. reflexivity. Qed.

Lemma zipall_zipf (g : field -> val -> bool) (h : field -> val -> val) fs : forall ss,
  zipall g fs ss = true ->
  (forall i f s, nth_error fs i = Some f -> nth_error ss i = Some s -> g f s = true -> g f (h f s) = true) ->
  zipall g fs (zipf h fs ss) = true.
Proof.
  induction fs as [|f fs IH]; intros [|s ss] Hz H; cbn [zipall zipf] in *; try discriminate; try reflexivity.
  apply andb_prop in Hz. destruct Hz as [H1 H2]. apply andb_true_intro. split.
  - apply (H 0%nat f s eq_refl eq_refl H1).
  - apply IH; [exact H2|]. intros i f' s' Hf Hs. apply (H (S i)); assumption.
Qed.

Lemma insert_sorted_nonempty {A} (ltb : A -> A -> bool) x l : insert_sorted ltb x l <> [].
Proof. destruct l as [|y t]; cbn [insert_sorted]; [discriminate|]. destruct (ltb y x); discriminate. Qed.

Lemma canon_vmap M :
  canon (VMap M) =
  match isort (fun a b => gen_key_ltb (fst a) (fst b)) (map (fun kv => (fst kv, canon (snd kv))) M) with
  | [] => VNil
  | L => VMap L
  end.
Proof.
  destruct M as [|e M]; [reflexivity|]. cbn [canon].
  set (L := isort _ _). assert (L <> []) by (unfold L; cbn [map isort fold_right]; apply insert_sorted_nonempty).
  destruct L; [congruence|reflexivity].
Qed.

Lemma bytes_ltb_asym a : forall b, bytes_ltb a b = true -> bytes_ltb b a = false.
Proof.
  induction a as [|x a IH]; intros [|y b] H; cbn [bytes_ltb] in *; try discriminate; try reflexivity.
  destruct (N.ltb_spec (b2n x) (b2n y)); destruct (N.ltb_spec (b2n y) (b2n x)); try lia; try discriminate; try reflexivity.
  apply IH. exact H.
Qed.

Lemma gen_key_ltb_asym a b : gen_key_ltb a b = true -> gen_key_ltb b a = false.
Proof.
  destruct a; destruct b; cbn [gen_key_ltb]; try discriminate; intro H.
  - apply Z.ltb_lt in H. apply Z.ltb_ge. lia.
  - destruct b0; destruct b; try discriminate; reflexivity.
  - apply bytes_ltb_asym. exact H.
Qed.

Lemma key_gen_agree kk a b : legal_key kk = true -> wt_scalar kk a = true -> wt_scalar kk b = true ->
  key_ltb kk a b = gen_key_ltb a b.
Proof.
  intros Hl Ha Hb. destruct kk; try discriminate Hl; destruct a; try discriminate Ha; destruct b; try discriminate Hb; reflexivity.
Qed.

Lemma wt_msg_elem m y : wt_msg sch m y = true -> wt_elem (wt_msg sch) (TMsg m) y = true.
Proof. intro H. destruct y; try exact H. reflexivity. Qed.

Lemma wt_elem_msg m x : is_nil x = false -> wt_elem (wt_msg sch) (TMsg m) x = wt_msg sch m x.
Proof. destruct x; try reflexivity. discriminate. Qed.

(* ---- D2: typing is preserved *)
Lemma d2_elem t x : wt_elem (wt_msg sch) t x = true ->
  (forall m, wt_msg sch m x = true -> wt_msg sch m (sortm m x) = true) ->
  wt_elem (wt_msg sch) t (sort_elem sortm t x) = true.
Proof.
  intros Hwt IH. destruct t as [k|m]; cbn [sort_elem]; [exact Hwt|].
  destruct (is_nil x) eqn:E.
  - destruct x; try discriminate E. reflexivity.
  - apply wt_msg_elem. apply IH. rewrite <- (wt_elem_msg m x E). exact Hwt.
Qed.

Lemma d2_slot f s : wt_slot (wt_msg sch) f s = true ->
  (forall m x, (val_depth x <= val_depth s)%nat -> wt_msg sch m x = true -> wt_msg sch m (sortm m x) = true) ->
  wt_slot (wt_msg sch) f (sort_slot sortm f s) = true.
Proof.
  intros Hwt IH. unfold wt_slot, sort_slot in *. destruct (f_shape f) as [|p|oi|kk].
  - apply d2_elem; [exact Hwt|]. intros m. apply IH. lia.
  - destruct s as [z|b|n|l| |q|sl un|l|kvs]; try discriminate Hwt; [reflexivity|].
    rewrite forallb_forall in *. intros y Hy. apply in_map_iff in Hy. destruct Hy as (x & <- & Hx).
    apply d2_elem; [apply Hwt; exact Hx|]. intros m. apply IH. cbn [val_depth]. apply (fold_max_ge val_depth). exact Hx.
  - destruct s as [z|b|n|l| |q|sl un|l|kvs]; try discriminate Hwt; [reflexivity|].
    apply d2_elem; [exact Hwt|]. intros m. apply IH. cbn [val_depth]. lia.
  - destruct s as [z|b|n|l| |q|sl un|l|kvs]; try discriminate Hwt; [reflexivity|].
    apply andb_prop in Hwt. destruct Hwt as [Hall Hnd].
    set (g := fun kv : val * val => (fst kv, sort_elem sortm (f_ty f) (snd kv))).
    pose proof (isort_perm (fun a b => key_ltb kk (fst a) (fst b)) (map g kvs)) as Hp.
    apply andb_true_intro. split.
    + rewrite (forallb_perm _ _ _ Hp). rewrite forallb_forall in *. intros y Hy.
      apply in_map_iff in Hy. destruct Hy as (kv & <- & Hkv). specialize (Hall kv Hkv).
      apply andb_prop in Hall. destruct Hall as [H1 H2]. unfold g. cbn [fst snd].
      apply andb_true_intro. split; [exact H1|].
      apply d2_elem; [exact H2|]. intros m. apply IH. cbn [val_depth].
      apply (fold_max_ge (fun kv => val_depth (snd kv))). exact Hkv.
    + rewrite (nodup_keys_perm _ _ (Permutation_map fst Hp)). rewrite map_map. unfold g. cbn [fst]. exact Hnd.
Qed.

Lemma oneof_count_sort oi fs : forall ss,
  oneof_count fs (zipf (sort_slot sortm) fs ss) oi = oneof_count fs ss oi.
Proof.
  induction fs as [|f fs IH]; intros [|s ss]; cbn [zipf oneof_count]; try reflexivity.
  rewrite IH. f_equal. unfold sort_slot. destruct (f_shape f) as [|p|j|kk]; try reflexivity.
  destruct s; reflexivity.
Qed.

Lemma d2 : forall mid v, wt_msg sch mid v = true -> wt_msg sch mid (sortm mid v) = true.
Proof.
  apply (depth_ind (fun mid v => wt_msg sch mid v = true -> wt_msg sch mid (sortm mid v) = true)).
  intros mid v IH Hwt. destruct v as [z|b|n|l| |q|slots unk|l|kvs]; try discriminate Hwt.
  rewrite sortm_unfold. rewrite wt_msg_unfold in Hwt. destruct (get_msg sch mid) as [md|] eqn:Hg; [|discriminate Hwt].
  rewrite wt_msg_unfold, Hg. apply andb_prop in Hwt. destruct Hwt as [Hz Ho].
  apply andb_true_intro. split.
  - apply zipall_zipf; [exact Hz|]. intros i f s Hf Hs Hw. apply d2_slot; [exact Hw|].
    intros m x Hx. apply IH. pose proof (slot_depth_lt slots unk s (nth_error_In _ _ Hs)). lia.
  - rewrite <- Ho. apply forallb_ext'. intro oi. rewrite oneof_count_sort. reflexivity.
Qed.

(* ---- D3: no unknown bytes anywhere *)
Lemma d3_elem t x : strip_unknown x = x ->
  (forall m, strip_unknown x = x -> strip_unknown (sortm m x) = sortm m x) ->
  strip_unknown (sort_elem sortm t x) = sort_elem sortm t x.
Proof. intros H IH. destruct t as [k|m]; cbn [sort_elem]; [exact H|apply IH; exact H]. Qed.

Lemma d3_slot f s : strip_unknown s = s ->
  (forall m x, (val_depth x <= val_depth s)%nat -> strip_unknown x = x -> strip_unknown (sortm m x) = sortm m x) ->
  strip_unknown (sort_slot sortm f s) = sort_slot sortm f s.
Proof.
  intros Hst IH. unfold sort_slot. destruct (f_shape f) as [|p|oi|kk].
  - apply d3_elem; [exact Hst|]. intros m. apply IH. lia.
  - destruct s as [z|b|n|l| |q|sl un|l|kvs]; try exact Hst.
    cbn [strip_unknown] in *. injection Hst as Hst. f_equal. apply map_id_ext.
    intros y Hy. apply in_map_iff in Hy. destruct Hy as (x & <- & Hx).
    apply d3_elem; [apply (map_id_in _ _ _ Hst Hx)|]. intros m. apply IH. cbn [val_depth].
    apply (fold_max_ge val_depth). exact Hx.
  - destruct s as [z|b|n|l| |q|sl un|l|kvs]; try exact Hst.
    cbn [strip_unknown] in *. injection Hst as Hst. f_equal.
    apply d3_elem; [exact Hst|]. intros m. apply IH. cbn [val_depth]. lia.
  - destruct s as [z|b|n|l| |q|sl un|l|kvs]; try exact Hst.
    cbn [strip_unknown] in *. injection Hst as Hst. f_equal. apply map_id_ext.
    intros y Hy.
    apply (Permutation_in _ (isort_perm _ _)) in Hy.
    apply in_map_iff in Hy. destruct Hy as (kv & <- & Hkv). cbn [fst snd]. f_equal.
    pose proof (map_id_in _ _ _ Hst Hkv) as E.
    apply d3_elem; [destruct kv as [a b]; cbn [fst snd] in *; congruence|].
    intros m. apply IH. cbn [val_depth]. apply (fold_max_ge (fun kv => val_depth (snd kv))). exact Hkv.
Qed.

Lemma d3 : forall mid v, strip_unknown v = v -> strip_unknown (sortm mid v) = sortm mid v.
Proof.
  apply (depth_ind (fun mid v => strip_unknown v = v -> strip_unknown (sortm mid v) = sortm mid v)).
  intros mid v IH Hst. destruct v as [z|b|n|l| |q|slots unk|l|kvs]; try exact Hst.
  rewrite sortm_unfold. destruct (get_msg sch mid) as [md|] eqn:Hg; [|exact Hst].
  cbn [strip_unknown] in *. injection Hst as Hst Hunk. subst unk. f_equal.
  rewrite map_zipf. apply zipf_ext_nth. intros i f s Hf Hs.
  apply d3_slot; [apply (map_id_in _ _ _ Hst (nth_error_In _ _ Hs))|].
  intros m x Hx. apply IH. pose proof (slot_depth_lt slots [] s (nth_error_In _ _ Hs)). lia.
Qed.

(* ---- D4: nesting depth does not grow *)
Lemma d4_elem t x :
  (forall m, (val_depth (sortm m x) <= val_depth x)%nat) ->
  (val_depth (sort_elem sortm t x) <= val_depth x)%nat.
Proof. intro IH. destruct t as [k|m]; cbn [sort_elem]; [lia|apply IH]. Qed.

Lemma d4_slot f s :
  (forall m x, (val_depth x <= val_depth s)%nat -> (val_depth (sortm m x) <= val_depth x)%nat) ->
  (val_depth (sort_slot sortm f s) <= val_depth s)%nat.
Proof.
  intro IH. unfold sort_slot. destruct (f_shape f) as [|p|oi|kk].
  - apply d4_elem. intro m. apply IH. lia.
  - destruct s as [z|b|n|l| |q|sl un|l|kvs]; try lia. cbn [val_depth].
    apply fold_max_le_gen. intros y Hy. apply in_map_iff in Hy. destruct Hy as (x & <- & Hx).
    exists x. split; [exact Hx|]. apply d4_elem. intro m. apply IH. cbn [val_depth].
    apply (fold_max_ge val_depth). exact Hx.
  - destruct s as [z|b|n|l| |q|sl un|l|kvs]; try lia. cbn [val_depth].
    apply d4_elem. intro m. apply IH. cbn [val_depth]. lia.
  - destruct s as [z|b|n|l| |q|sl un|l|kvs]; try lia. cbn [val_depth].
    apply (fold_max_le_gen (fun kv => val_depth (snd kv)) (fun kv => val_depth (snd kv))).
    intros y Hy. apply (Permutation_in _ (isort_perm _ _)) in Hy.
    apply in_map_iff in Hy. destruct Hy as (kv & <- & Hkv). exists kv. split; [exact Hkv|]. cbn [snd].
    apply d4_elem. intro m. apply IH. cbn [val_depth].
    apply (fold_max_ge (fun kv => val_depth (snd kv))). exact Hkv.
Qed.

Lemma d4 : forall mid v, (val_depth (sortm mid v) <= val_depth v)%nat.
Proof.
  apply (depth_ind (fun mid v => (val_depth (sortm mid v) <= val_depth v)%nat)).
  intros mid v IH. destruct v as [z|b|n|l| |q|slots unk|l|kvs]; try (cbn [sortm]; lia).
  rewrite sortm_unfold. destruct (get_msg sch mid) as [md|] eqn:Hg; [|lia].
  cbn [val_depth]. apply le_n_S. apply fold_max_le_gen. intros y Hy. apply zipf_in in Hy.
  destruct Hy as (i & f & s & Hf & Hs & ->). exists s. split; [apply (nth_error_In _ _ Hs)|].
  apply d4_slot. intros m x Hx. apply IH. pose proof (slot_depth_lt slots unk s (nth_error_In _ _ Hs)). lia.
Qed.

(* ---- D5: the sorted value denotes the same message *)
Lemma ne_msg m y : is_nil y = false -> norm_elem sch (norm sch) (TMsg m) y = norm sch m y.
Proof. destruct y; try reflexivity. discriminate. Qed.

Lemma d5_elem t x : wt_elem (wt_msg sch) t x = true ->
  (forall m, wt_msg sch m x = true -> canon (norm sch m (sortm m x)) = canon (norm sch m x)) ->
  canon (norm_elem sch (norm sch) t (sort_elem sortm t x)) = canon (norm_elem sch (norm sch) t x).
Proof.
  intros Hwt IH. destruct t as [k|m]; cbn [sort_elem]; [reflexivity|].
  destruct (is_nil x) eqn:E.
  - destruct x; try discriminate E. reflexivity.
  - rewrite (ne_msg m x E). rewrite ne_msg by (rewrite sortm_is_nil; exact E).
    apply IH. rewrite <- (wt_elem_msg m x E). exact Hwt.
Qed.

Lemma norm_slot_map f kk L : f_shape f = MapOf kk ->
  canon (norm_slot sch (norm sch) f (VMap L))
  = canon (VMap (map (fun kv => (fst kv, norm_elem sch (norm sch) (f_ty f) (snd kv))) L)).
Proof. intro Hs. unfold norm_slot. rewrite Hs. destruct L; reflexivity. Qed.

Lemma canon_norm_rep f p l : f_shape f = Rep p ->
  canon (norm_slot sch (norm sch) f (VList l))
  = match l with [] => VNil | _ => VList (map canon (map (norm_elem sch (norm sch) (f_ty f)) l)) end.
Proof. intro Hs. unfold norm_slot. rewrite Hs. destruct l; reflexivity. Qed.

Lemma d5_slot nm no f s : field_wf nm no f = true -> wt_slot (wt_msg sch) f s = true ->
  (forall m x, (val_depth x <= val_depth s)%nat -> wt_msg sch m x = true ->
               canon (norm sch m (sortm m x)) = canon (norm sch m x)) ->
  canon (norm_slot sch (norm sch) f (sort_slot sortm f s)) = canon (norm_slot sch (norm sch) f s).
Proof.
  intros Hfw Hwt IH. apply field_wf_shape in Hfw.
  destruct (f_shape f) as [|p|oi|kk] eqn:Hs.
  - unfold norm_slot, sort_slot, wt_slot in *. rewrite Hs in *.
    destruct (f_ty f) as [k|m]; cbn [sort_elem]; [reflexivity|].
    assert (E : forall y, match y with VNil => VNil | _ => norm sch m y end = if is_nil y then VNil else norm sch m y).
    { intro y. destruct y; reflexivity. }
    rewrite !E. rewrite sortm_is_nil. destruct (is_nil s) eqn:En; [reflexivity|].
    apply IH; [lia|]. rewrite <- (wt_elem_msg m s En). exact Hwt.
  - unfold sort_slot, wt_slot in *. rewrite Hs in *.
    destruct s as [z|b|n|l| |q|sl un|l|kvs]; try reflexivity.
    rewrite !(canon_norm_rep f p _ Hs). rewrite forallb_forall in Hwt.
    assert (Ex : forall x, In x l -> canon (norm_elem sch (norm sch) (f_ty f) (sort_elem sortm (f_ty f) x))
                                    = canon (norm_elem sch (norm sch) (f_ty f) x)).
    { intros x Hx. apply d5_elem; [apply Hwt; exact Hx|]. intros m. apply IH. cbn [val_depth].
      apply (fold_max_ge val_depth). exact Hx. }
    destruct l as [|e l]; [reflexivity|]. cbn [map]. f_equal. f_equal.
    + apply Ex. left. reflexivity.
    + rewrite !map_map. apply map_ext_in. intros x Hx. apply Ex. right. exact Hx.
  - unfold norm_slot, sort_slot, wt_slot in *. rewrite Hs in *.
    destruct s as [z|b|n|l| |q|sl un|l|kvs]; try reflexivity.
    cbn [canon]. f_equal. apply d5_elem; [exact Hwt|]. intros m. apply IH. cbn [val_depth]. lia.
  - unfold sort_slot. rewrite Hs.
    destruct s as [z|b|n|l| |q|sl un|l|kvs]; try reflexivity.
    unfold wt_slot in Hwt. rewrite Hs in Hwt. apply andb_prop in Hwt. destruct Hwt as [Hall _].
    rewrite forallb_forall in Hall.
    rewrite !(norm_slot_map f kk _ Hs). rewrite !canon_vmap.
    set (KK := fun a b : val * val => key_ltb kk (fst a) (fst b)).
    set (GG := fun a b : val * val => gen_key_ltb (fst a) (fst b)).
    set (g := fun kv : val * val => (fst kv, sort_elem sortm (f_ty f) (snd kv))).
    set (nv := fun kv : val * val => (fst kv, norm_elem sch (norm sch) (f_ty f) (snd kv))).
    set (cv := fun kv : val * val => (fst kv, canon (snd kv))).
    assert (E : isort GG (map cv (map nv (isort KK (map g kvs)))) = isort GG (map cv (map nv kvs))).
    { rewrite <- (isort_map nv KK KK) by (intros a b; reflexivity).
      rewrite <- (isort_map cv KK KK) by (intros a b; reflexivity).
      assert (EM : map cv (map nv (map g kvs)) = map cv (map nv kvs)).
      { rewrite !map_map. apply map_ext_in. intros kv Hkv. unfold cv, nv, g. cbn [fst snd]. f_equal.
        specialize (Hall kv Hkv). apply andb_prop in Hall. destruct Hall as [_ H2].
        apply d5_elem; [exact H2|]. intros m. apply IH. cbn [val_depth].
        apply (fold_max_ge (fun kv => val_depth (snd kv))). exact Hkv. }
      rewrite EM.
      rewrite (isort_ext_in KK GG).
      - apply isort_idem. intros a b. unfold GG. apply gen_key_ltb_asym.
      - intros a b Ha Hb. unfold KK, GG.
        rewrite map_map in Ha, Hb. apply in_map_iff in Ha. apply in_map_iff in Hb.
        destruct Ha as (ka & <- & Hka). destruct Hb as (kb & <- & Hkb). cbn [fst].
        pose proof (Hall ka Hka) as H1. pose proof (Hall kb Hkb) as H2.
        apply andb_prop in H1. apply andb_prop in H2.
        apply key_gen_agree; [exact Hfw|tauto|tauto]. }
    rewrite E. reflexivity.
Qed.

Lemma d5 : wf sch = true -> forall mid v, wt_msg sch mid v = true ->
  canon (norm sch mid (sortm mid v)) = canon (norm sch mid v).
Proof.
  intro Hwf.
  apply (depth_ind (fun mid v => wt_msg sch mid v = true -> canon (norm sch mid (sortm mid v)) = canon (norm sch mid v))).
  intros mid v IH Hwt. destruct v as [z|b|n|l| |q|slots unk|l|kvs]; try discriminate Hwt.
  rewrite sortm_unfold. rewrite wt_msg_unfold in Hwt. destruct (get_msg sch mid) as [md|] eqn:Hg; [|discriminate Hwt].
  rewrite !norm_unfold, Hg. cbn [canon]. f_equal.
  apply andb_prop in Hwt. destruct Hwt as [Hz _]. destruct (zipall_spec _ _ _ Hz) as [_ Hslot].
  pose proof (wf_get_msg sch mid md Hwf Hg) as Hmd.
  rewrite zipf_zipf, !map_zipf. apply zipf_ext_nth. intros i f s Hf Hs.
  destruct (msg_wf_field sch md i f Hmd Hf) as [Hfw _].
  apply (d5_slot _ _ f s Hfw (Hslot i f s Hf Hs)).
  intros m x Hx. apply IH. pose proof (slot_depth_lt slots unk s (nth_error_In _ _ Hs)). lia.
Qed.
End Sortm.

Lemma roundtrip_det sch : wf sch = true -> forall v mid, wt_msg sch mid v = true -> strip_unknown v = v ->
  N.of_nat (val_depth v) < 9999 -> N.of_nat (length (emit sch true mid v)) < two63 ->
  exists r, pulsar_unmarshal sch false mid VNil (emit sch true mid v) = Ok r /\ canon r = canon (norm sch mid v).
Proof.
  intros Hwf v mid Hwt Hst Hd Hb. exists (norm sch mid (sortm sch mid v)). split.
  - rewrite d1 in *. apply roundtrip_nondet.
    + exact Hwf.
    + apply d2. exact Hwt.
    + apply d3. exact Hst.
    + pose proof (d4 sch mid v). lia.
    + exact Hb.
  - apply d5; assumption.
Qed.
