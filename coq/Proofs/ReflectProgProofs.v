(* Proofs/ReflectProgProofs.v — the canonical fast-reflection methods (Model/ReflectProg.v: canon_has … canon_range,
   the bodies the templates has.go … range.go print for a message type) run by the interpreters run_has … run_range
   are Reflect.step, for all well-formed schemas, all heaps satisfying the invariant rp_heap_okb and all operands
   (task T8); the invariant is kept by every step. *)
From Coq Require Import List Arith NArith ZArith Bool Lia ZifyN ZifyNat ZifyBool.
From CP Require Import Reflect ReflectProg ReflectLaws.
Import ListNotations.
Local Open Scope nat_scope.

(* ------------------------------------------------------------------ small facts *)
Lemma rzero_eqb_refl z : rzero_eqb z z = true.
Proof. destruct z; reflexivity. Qed.
Lemma rctor_eqb_refl c : rctor_eqb c c = true.
Proof. destruct c; reflexivity. Qed.
Lemma rconv_eqb_refl c : rconv_eqb c c = true.
Proof. destruct c; try reflexivity. apply Nat.eqb_refl. Qed.
Lemma zero_ok_lit k : zero_ok k (zero_lit k) = true.
Proof. apply rzero_eqb_refl. Qed.
Lemma ctor_zero_ok_lit k : ctor_zero_ok (ctor_of k) (zero_lit k) = true.
Proof. destruct k; reflexivity. Qed.
Lemma zero_lit_val_scalar k : zero_lit_val (zero_lit k) = zero_scalar k.
Proof. destruct k; reflexivity. Qed.

Lemma field_of_nth sch mid f : field_of sch mid f = nth_error (fields_of sch mid) f.
Proof. unfold field_of, fields_of. destruct (get_msg sch mid); [reflexivity|]. destruct f; reflexivity. Qed.

(* ------------------------------------------------------------------ the switch: looking a case up *)
Lemma rp_assoc_indexed {B} (body : nat -> field -> B) (fs : list field) : forall i n,
  rp_assoc (map (fun jf => (fst jf, body (fst jf) (snd jf))) (rp_indexed i fs)) n =
  if n <? i then None else option_map (body n) (nth_error fs (n - i)).
Proof.
  induction fs as [|a fs IH]; intros i n; cbn [rp_indexed map rp_assoc fst snd].
  - destruct (n <? i); [reflexivity|]. destruct (n - i); reflexivity.
  - destruct (Nat.eqb i n) eqn:E.
    + apply Nat.eqb_eq in E. subst n. rewrite Nat.ltb_irrefl, Nat.sub_diag. reflexivity.
    + apply Nat.eqb_neq in E. rewrite IH. destruct (n <? i) eqn:L.
      * apply Nat.ltb_lt in L. assert (L' : (n <? S i) = true) by (apply Nat.ltb_lt; lia). rewrite L'. reflexivity.
      * apply Nat.ltb_ge in L. assert (L' : (n <? S i) = false) by (apply Nat.ltb_ge; lia). rewrite L'.
        replace (n - i) with (S (n - S i)) by lia. reflexivity.
Qed.

Lemma rp_assoc_canon {B} (body : nat -> field -> B) fs n :
  rp_assoc (canon_cases body fs) n = option_map (body n) (nth_error fs n).
Proof. unfold canon_cases. rewrite rp_assoc_indexed. cbn [Nat.ltb Nat.leb]. rewrite Nat.sub_0_r. reflexivity. Qed.

Lemma rp_assoc_filter {B} (body : nat -> field -> B) (P : nat * field -> bool) (fs : list field) : forall i n,
  rp_assoc (map (fun jf => (fst jf, body (fst jf) (snd jf))) (filter P (rp_indexed i fs))) n =
  if n <? i then None
  else match nth_error fs (n - i) with
       | Some fd => if P (n, fd) then Some (body n fd) else None
       | None => None
       end.
Proof.
  induction fs as [|a fs IH]; intros i n; cbn [rp_indexed filter map rp_assoc fst snd].
  - destruct (n <? i); [reflexivity|]. destruct (n - i); reflexivity.
  - destruct (Nat.eqb i n) eqn:E.
    + apply Nat.eqb_eq in E. subst n. rewrite Nat.ltb_irrefl, Nat.sub_diag. cbn [nth_error].
      destruct (P (i, a)) eqn:Pa; cbn [map rp_assoc fst snd].
      * rewrite Nat.eqb_refl. reflexivity.
      * rewrite IH. assert (L' : (i <? S i) = true) by (apply Nat.ltb_lt; lia). rewrite L'. reflexivity.
    + apply Nat.eqb_neq in E.
      assert (X : rp_assoc (map (fun jf => (fst jf, body (fst jf) (snd jf))) (if P (i, a) then (i, a) :: filter P (rp_indexed (S i) fs) else filter P (rp_indexed (S i) fs))) n
                  = rp_assoc (map (fun jf => (fst jf, body (fst jf) (snd jf))) (filter P (rp_indexed (S i) fs))) n).
      { destruct (P (i, a)); [|reflexivity]. cbn [map rp_assoc fst snd]. apply Nat.eqb_neq in E. rewrite E. reflexivity. }
      rewrite X, IH. destruct (n <? i) eqn:L.
      * apply Nat.ltb_lt in L. assert (L' : (n <? S i) = true) by (apply Nat.ltb_lt; lia). rewrite L'. reflexivity.
      * apply Nat.ltb_ge in L. assert (L' : (n <? S i) = false) by (apply Nat.ltb_ge; lia). rewrite L'.
        replace (n - i) with (S (n - S i)) by lia. reflexivity.
Qed.

Lemma rp_assoc_app {B} (a b : list (nat * B)) n :
  rp_assoc (a ++ b) n = match rp_assoc a n with Some x => Some x | None => rp_assoc b n end.
Proof.
  induction a as [|[k x] a IH]; cbn [app rp_assoc]; [reflexivity|]. destruct (Nat.eqb k n); [reflexivity|exact IH].
Qed.

(* ------------------------------------------------------------------ what the invariant gives *)
Lemma cells_fitb_nth : forall fs cs i fd, cells_fitb fs cs = true -> nth_error fs i = Some fd ->
  exists c, nth_error cs i = Some c /\ cell_fitsb fd c = true.
Proof.
  induction fs as [|a fs IH]; intros cs i fd H F; [destruct i; discriminate|].
  destruct cs as [|c cs]; cbn [cells_fitb] in H; [discriminate|]. apply andb_prop in H. destruct H as [H1 H2].
  destruct i as [|i]; cbn [nth_error] in *.
  - inversion F; subst. eauto.
  - eapply IH; eauto.
Qed.

Lemma slots_fitb_nth : forall ss fs o0 o s, slots_fitb fs o0 ss = true -> nth o ss None = Some s ->
  slot_fitsb fs (o0 + o) (Some s) = true.
Proof.
  induction ss as [|a ss IH]; intros fs o0 o s H N; [destruct o; discriminate|].
  cbn [slots_fitb] in H. apply andb_prop in H. destruct H as [H1 H2].
  destruct o as [|o]; cbn [nth] in N.
  - subst a. rewrite Nat.add_0_r. exact H1.
  - rewrite Nat.add_succ_r. apply (IH fs (S o0) o s H2 N).
Qed.

Lemma new_cells_fitb fs : cells_fitb fs (map new_cell fs) = true.
Proof.
  induction fs as [|a fs IH]; [reflexivity|]. cbn [map cells_fitb]. rewrite IH, andb_true_r.
  unfold cell_fitsb, new_cell. destruct (f_shape a); destruct (f_ty a); reflexivity.
Qed.
Lemma none_slots_fitb fs n : forall o, slots_fitb fs o (repeat None n) = true.
Proof. induction n as [|n IH]; intro o; [reflexivity|]. cbn [repeat slots_fitb slot_fitsb]. apply IH. Qed.

Lemma new_obj_okb sch mid : rp_obj_okb sch (new_obj sch mid) = true.
Proof.
  unfold rp_obj_okb. rewrite new_obj_mid. unfold new_obj. destruct (get_msg sch mid) as [md|]; [|reflexivity].
  cbn [o_cells o_oneofs]. rewrite new_cells_fitb, repeat_length, Nat.eqb_refl, none_slots_fitb. reflexivity.
Qed.

Lemma heap_okb_get sch h id ob : rp_heap_okb sch h = true -> get_obj h id = Some ob -> rp_obj_okb sch ob = true.
Proof.
  unfold rp_heap_okb, get_obj, hget. intros H G. destruct (nth_error h id) as [e|] eqn:E; [|discriminate].
  destruct e as [o| |]; try discriminate. inversion G; subst o.
  rewrite forallb_forall in H. apply (H (HObj ob)). eapply nth_error_In; eauto.
Qed.

(* the receiver of a method, when it is an object: its shape *)
Record recv_ok (md : msgdesc) (ob : obj) : Prop := mkRecvOk {
  ro_cells : cells_fitb (m_fields md) (o_cells ob) = true;
  ro_len : length (o_oneofs ob) = m_oneofs md;
  ro_slots : slots_fitb (m_fields md) 0 (o_oneofs ob) = true }.

Lemma recv_ok_of sch h mid p ob md : rp_heap_okb sch h = true -> recv_obj sch h mid p = Some ob ->
  get_msg sch mid = Some md -> recv_ok md ob.
Proof.
  intros H R G. assert (X : rp_obj_okb sch ob = true /\ o_mid ob = mid).
  { destruct p as [id|].
    - apply recv_obj_inv in R. destruct R as [R1 R2]. split; [eapply heap_okb_get; eauto|exact R2].
    - cbn [recv_obj] in R. inversion R; subst ob. split; [apply new_obj_okb|apply new_obj_mid]. }
  destruct X as [X M]. unfold rp_obj_okb in X. rewrite M, G in X.
  apply andb_prop in X. destruct X as [X X3]. apply andb_prop in X. destruct X as [X1 X2].
  apply Nat.eqb_eq in X2. constructor; assumption.
Qed.

Lemma recv_cell md ob f fd : recv_ok md ob -> nth_error (m_fields md) f = Some fd ->
  exists c, nth_error (o_cells ob) f = Some c /\ cell_fitsb fd c = true.
Proof. intros [H _ _] F. eapply cells_fitb_nth; eauto. Qed.

Lemma recv_slot md ob o f' e : recv_ok md ob -> slot_at ob o = Some (f', e) ->
  exists fd', nth_error (m_fields md) f' = Some fd' /\ rp_member_of o fd' = true /\
              match f_ty fd', e with TScalar _, EScalar _ | TMsg _, EPtr _ => true | _, _ => false end = true.
Proof.
  intros [_ _ H] S. unfold slot_at in S. pose proof (slots_fitb_nth _ _ 0 o _ H S) as X. cbn [Nat.add slot_fitsb] in X.
  destruct (nth_error (m_fields md) f') as [fd'|]; [|discriminate]. apply andb_prop in X. destruct X as [X1 X2]. eauto.
Qed.

Lemma fields_of_md sch mid md : get_msg sch mid = Some md -> fields_of sch mid = m_fields md.
Proof. unfold fields_of. intros ->. reflexivity. Qed.
Lemma fields_of_none sch mid : get_msg sch mid = None -> fields_of sch mid = [].
Proof. unfold fields_of. intros ->. reflexivity. Qed.

Lemma member_in_self fs f fd o : nth_error fs f = Some fd -> f_shape fd = Member o -> member_in fs f o = Some fd.
Proof. intros F S. unfold member_in. rewrite F, S, Nat.eqb_refl. reflexivity. Qed.

(* ================================================================== Has *)
Lemma has_body md h own ob f fd : recv_ok md ob -> nth_error (m_fields md) f = Some fd ->
  eval_has (m_fields md) h (XObj own ob) (canon_has_body f fd) = Some (h, PBool (has_field ob f fd)).
Proof.
  intros R F. destruct (recv_cell _ _ _ _ R F) as [c [C Fit]].
  unfold canon_has_body, has_field, cell_fitsb in *. cbn [eval_has].
  destruct (f_shape fd) as [|pk|o|kk] eqn:S.
  - destruct (f_ty fd) as [k|m] eqn:T; destruct c; try discriminate.
    + destruct k; cbn [eval_bexpr option_map zero_lit]; rewrite F, C, S, T; reflexivity.
    + cbn [eval_bexpr option_map]. rewrite F, C, S, T. reflexivity.
  - destruct (f_ty fd) eqn:T; destruct c; try discriminate; cbn [eval_bexpr option_map]; rewrite F, C, S; reflexivity.
  - rewrite (member_in_self _ _ _ _ F S). reflexivity.
  - destruct (f_ty fd) eqn:T; destruct c; try discriminate; cbn [eval_bexpr option_map]; rewrite F, C, S; reflexivity.
Qed.

Lemma has_prog_correct : has_prog_stmt.
Proof.
  intros sch h r f Hwf Hok. destruct r as [|mid p| | | | | | | | | |]; try exact I.
  unfold run_has, run_meth, canon_has, rp_fields. cbn [rm_guard rm_cases step].
  rewrite rp_assoc_canon, field_of_nth.
  destruct (get_msg sch mid) as [md|] eqn:G.
  2:{ rewrite (fields_of_none _ _ G). destruct f; destruct p; reflexivity. }
  rewrite (fields_of_md _ _ _ G).
  destruct (nth_error (m_fields md) f) as [fd|] eqn:F; cbn [option_map].
  2:{ destruct p; reflexivity. }
  destruct p as [id|]; cbn [xst_of].
  - destruct (recv_obj sch h mid (Some id)) as [ob|] eqn:R; [|reflexivity].
    apply has_body; [exact (recv_ok_of _ _ _ _ _ _ Hok R G)|exact F].
  - cbn [recv_obj]. apply has_body; [exact (recv_ok_of sch h mid None _ md Hok eq_refl G)|exact F].
Qed.

(* ================================================================== Clear *)
Lemma clear_prog_correct : clear_prog_stmt.
Proof.
  intros sch h r f Hwf Hok. destruct r as [|mid p| | | | | | | | | |]; try exact I.
  unfold run_clear, run_meth, canon_clear, rp_fields. cbn [rm_guard rm_cases].
  rewrite rp_assoc_canon.
  destruct p as [id|]; cbn [step xst_of].
  2:{ destruct (nth_error (fields_of sch mid) f); reflexivity. }
  rewrite field_of_nth.
  destruct (get_msg sch mid) as [md|] eqn:G.
  2:{ rewrite (fields_of_none _ _ G). destruct f; reflexivity. }
  rewrite (fields_of_md _ _ _ G).
  destruct (nth_error (m_fields md) f) as [fd|] eqn:F; cbn [option_map]; [|reflexivity].
  destruct (recv_obj sch h mid (Some id)) as [ob|] eqn:R; [|reflexivity].
  pose proof (recv_ok_of _ _ _ _ _ _ Hok R G) as RO.
  unfold canon_clear_body. cbn [eval_clear].
  destruct (f_shape fd) as [|pk|o|kk] eqn:S.
  - destruct (f_ty fd) as [k|m] eqn:T.
    + cbn [eval_clear]. rewrite F, S, T, zero_ok_lit. cbn [put_obj]. destruct k; reflexivity.
    + cbn [eval_clear]. rewrite F, S, T. reflexivity.
  - cbn [eval_clear]. rewrite F, S. destruct (f_ty fd); reflexivity.
  - cbn [eval_clear]. rewrite (member_in_self _ _ _ _ F S). unfold slot_at. cbn [put_obj]. destruct (f_ty fd); reflexivity.
  - cbn [eval_clear]. rewrite F, S. destruct (f_ty fd); reflexivity.
Qed.

(* ================================================================== WhichOneof *)
Lemma rp_assoc_seq {B} (g : nat -> B) : forall n i j,
  rp_assoc (map (fun o => (o, g o)) (seq i n)) j = if (i <=? j) && (j <? i + n) then Some (g j) else None.
Proof.
  induction n as [|n IH]; intros i j; cbn [seq map rp_assoc].
  - destruct (i <=? j) eqn:A; [|reflexivity]. cbn [andb]. apply Nat.leb_le in A.
    assert (L : (j <? i + 0) = false) by (apply Nat.ltb_ge; lia). rewrite L. reflexivity.
  - destruct (Nat.eqb i j) eqn:E.
    + apply Nat.eqb_eq in E. subst j. rewrite Nat.leb_refl. assert (L : (i <? i + S n) = true) by (apply Nat.ltb_lt; lia).
      rewrite L. reflexivity.
    + apply Nat.eqb_neq in E. rewrite IH.
      destruct (i <=? j) eqn:A; destruct (S i <=? j) eqn:A'; cbn [andb];
        try (apply Nat.leb_le in A); try (apply Nat.leb_gt in A); try (apply Nat.leb_le in A'); try (apply Nat.leb_gt in A'); try lia;
        try reflexivity.
      replace (S i + n) with (i + S n) by lia. reflexivity.
Qed.

Lemma in_indexed {A} (l : list A) : forall i j x, In (j, x) (rp_indexed i l) -> i <= j /\ nth_error l (j - i) = Some x.
Proof.
  induction l as [|a l IH]; intros i j x H; cbn [rp_indexed In] in H; [destruct H|].
  destruct H as [H|H].
  - inversion H; subst. rewrite Nat.sub_diag. split; [lia|reflexivity].
  - apply IH in H. destruct H as [H1 H2]. split; [lia|]. replace (j - i) with (S (j - S i)) by lia. exact H2.
Qed.

Lemma member_in_of fs j fd o : nth_error fs j = Some fd -> rp_member_of o fd = true -> member_in fs j o = Some fd.
Proof.
  unfold rp_member_of, member_in. intros -> H. destruct (f_shape fd); try discriminate. rewrite H. reflexivity.
Qed.

Lemma members_forallb {C} (g : nat * field -> C) fs o :
  forallb (fun c : nat * C => match member_in fs (fst c) o with Some _ => true | None => false end)
          (map (fun jf => (fst jf, g jf)) (filter (fun jf => rp_member_of o (snd jf)) (rp_indexed 0 fs))) = true.
Proof.
  apply forallb_forall. intros [j c] H. apply in_map_iff in H. destruct H as [[j' fd] [E H]]. cbn [fst snd] in E.
  inversion E; subst j' c. apply filter_In in H. destruct H as [H M]. cbn [snd] in M.
  apply in_indexed in H. destruct H as [_ H]. rewrite Nat.sub_0_r in H. cbn [fst]. rewrite (member_in_of _ _ _ _ H M). reflexivity.
Qed.

Lemma members_assoc {C} (body : nat -> field -> C) fs o f' fd' :
  nth_error fs f' = Some fd' -> rp_member_of o fd' = true ->
  rp_assoc (map (fun jf => (fst jf, body (fst jf) (snd jf))) (filter (fun jf => rp_member_of o (snd jf)) (rp_indexed 0 fs))) f' = Some (body f' fd').
Proof.
  intros F M. rewrite rp_assoc_filter. cbn [Nat.ltb Nat.leb]. rewrite Nat.sub_0_r, F. cbn [snd]. rewrite M. reflexivity.
Qed.

Lemma whichoneof_prog_correct : whichoneof_prog_stmt.
Proof.
  intros sch h r j Hwf Hok. destruct r as [|mid p| | | | | | | | | |]; try exact I.
  unfold run_which, run_meth, canon_which, rp_fields, rp_noneofs. cbn [rm_guard rm_cases step].
  destruct (get_msg sch mid) as [md|] eqn:G.
  2:{ cbn [seq map rp_assoc]. destruct p; reflexivity. }
  rewrite (fields_of_md _ _ _ G).
  rewrite (rp_assoc_seq (fun o => WBOneof o (map (fun jf => (fst jf, fst jf)) (filter (fun jf => rp_member_of o (snd jf)) (rp_indexed 0 (m_fields md)))))).
  cbn [Nat.leb andb Nat.add].
  destruct (j <? m_oneofs md) eqn:L.
  2:{ destruct p as [id|]; cbn [xst_of recv_obj]; [destruct (get_obj h id) as [o|]; [destruct (Nat.eqb (o_mid o) mid)|]|]; reflexivity. }
  assert (X : forall own ob, recv_ok md ob ->
      eval_which (m_fields md) h (XObj own ob)
             (WBOneof j (map (fun jf => (fst jf, fst jf)) (filter (fun jf => rp_member_of j (snd jf)) (rp_indexed 0 (m_fields md))))) =
     Some (h, PField match nth j (o_oneofs ob) None with Some (f0, _) => Some f0 | None => None end)).
  { intros own ob RO. cbn [eval_which].
    rewrite (members_forallb (fun jf => fst jf)).
    destruct (slot_at ob j) as [[f' e]|] eqn:SL; unfold slot_at in SL; rewrite SL; [|reflexivity].
    destruct (recv_slot _ _ _ _ _ RO SL) as [fd' [F' [M' _]]].
    rewrite (members_assoc (fun n _ => n) _ _ _ _ F' M'). reflexivity. }
  destruct p as [id|]; cbn [xst_of].
  - destruct (recv_obj sch h mid (Some id)) as [ob|] eqn:R; [|reflexivity].
    apply X. exact (recv_ok_of _ _ _ _ _ _ Hok R G).
  - cbn [recv_obj]. apply X. exact (recv_ok_of sch h mid None _ md Hok eq_refl G).
Qed.

(* ================================================================== NewField *)
Lemma newfield_prog_correct : newfield_prog_stmt.
Proof.
  intros sch h r f Hwf Hok. destruct r as [|mid p| | | | | | | | | |]; try exact I.
  unfold run_newf, run_meth, canon_newf, rp_fields. cbn [rm_guard rm_cases step].
  rewrite rp_assoc_canon, field_of_nth.
  assert (X : match option_map (canon_newf_body f) (nth_error (fields_of sch mid) f) with
              | Some b => eval_newf sch (fields_of sch mid) h b
              | None => Some (h, PPanic)
              end =
              Some match nth_error (fields_of sch mid) f with
                   | Some fd =>
                     match f_shape fd, f_ty fd with
                     | Rep _, t => let (h', id) := halloc h (HListVar (Some [])) in (h', PList t (RVar id))
                     | MapOf kk, t => let (h', id) := halloc h (HMapVar (Some [])) in (h', PMap kk t (RVar id))
                     | _, TScalar k => (h, PScalar (zero_scalar k))
                     | _, TMsg m => let (h', id) := halloc h (HObj (new_obj sch m)) in (h', PMsg m (Some id))
                     end
                   | None => (h, PPanic)
                   end).
  { destruct (nth_error (fields_of sch mid) f) as [fd|] eqn:F; cbn [option_map]; [|reflexivity].
    unfold canon_newf_body, halloc.
    destruct (f_shape fd) as [|pk|o|kk] eqn:S; destruct (f_ty fd) as [k|m] eqn:T; cbn [eval_newf]; unfold halloc;
      rewrite ?F, ?S, ?T, ?ctor_zero_ok_lit, ?zero_lit_val_scalar; reflexivity. }
  destruct p as [id|]; cbn [xst_of]; exact X.
Qed.

(* ================================================================== Get *)
Lemma get_body md h own ob f fd : recv_ok md ob -> nth_error (m_fields md) f = Some fd ->
  eval_get (m_fields md) h (XObj own ob) (canon_get_body f fd) = Some (h, get_field ob own f fd).
Proof.
  intros R F. destruct (recv_cell _ _ _ _ R F) as [c [C Fit]].
  unfold canon_get_body, get_field, cell_fitsb in *.
  destruct (f_shape fd) as [|pk|o|kk] eqn:S.
  - destruct (f_ty fd) as [k|m] eqn:T; destruct c; try discriminate.
    + destruct k; cbn [is_enum eval_get]; rewrite F, C, S, T; reflexivity.
    + cbn [eval_get]. rewrite F, C, S, T. reflexivity.
  - destruct (f_ty fd) eqn:T; destruct c; try discriminate; cbn [eval_get]; rewrite F, C, S, ?T; reflexivity.
  - destruct (f_ty fd) as [k|m] eqn:T.
    + cbn [eval_get]. rewrite (member_in_self _ _ _ _ F S). unfold slot_at.
      destruct (nth o (o_oneofs ob) None) as [[f' e]|]; [destruct (Nat.eqb f' f)|];
        destruct k; cbn [is_enum eval_oneval option_map ctor_of zero_lit]; rewrite ?T; reflexivity.
    + cbn [eval_get]. rewrite (member_in_self _ _ _ _ F S). unfold slot_at.
      destruct (nth o (o_oneofs ob) None) as [[f' e]|]; [destruct (Nat.eqb f' f)|];
        cbn [eval_oneval option_map]; rewrite ?T; reflexivity.
  - destruct (f_ty fd) eqn:T; destruct c; try discriminate; cbn [eval_get]; rewrite F, C, S, ?T; reflexivity.
Qed.

Lemma get_prog_correct : get_prog_stmt.
Proof.
  intros sch h r f Hwf Hok. destruct r as [|mid p| | | | | | | | | |]; try exact I.
  unfold run_get, run_meth, canon_get, rp_fields. cbn [rm_guard rm_cases step].
  rewrite rp_assoc_canon, field_of_nth.
  destruct (get_msg sch mid) as [md|] eqn:G.
  2:{ rewrite (fields_of_none _ _ G). destruct f; destruct p; reflexivity. }
  rewrite (fields_of_md _ _ _ G).
  destruct (nth_error (m_fields md) f) as [fd|] eqn:F; cbn [option_map].
  2:{ destruct p; reflexivity. }
  destruct p as [id|]; cbn [xst_of].
  - destruct (recv_obj sch h mid (Some id)) as [ob|] eqn:R; [|reflexivity].
    apply get_body; [exact (recv_ok_of _ _ _ _ _ _ Hok R G)|exact F].
  - cbn [recv_obj]. apply get_body; [exact (recv_ok_of sch h mid None _ md Hok eq_refl G)|exact F].
Qed.

(* ================================================================== Mutable *)
Lemma rp_assoc_canon_mut sch mid f :
  rp_assoc (rm_cases (canon_mut sch mid)) f = option_map (canon_mut_body f) (nth_error (fields_of sch mid) f).
Proof.
  unfold canon_mut, rp_fields. cbn [rm_cases]. rewrite map_app, rp_assoc_app, !rp_assoc_filter.
  cbn [Nat.ltb Nat.leb]. rewrite Nat.sub_0_r. destruct (nth_error (fields_of sch mid) f) as [fd|]; [|reflexivity].
  cbn [snd option_map]. destruct (rp_mutable fd); reflexivity.
Qed.

Lemma eval_mut_noobj sch fs h x b : (x = XNil \/ x = XBad) -> eval_mut sch fs h x b = Some (h, PPanic).
Proof. intros [-> | ->]; destruct b; reflexivity. Qed.

Lemma mut_body sch md h id ob f fd : recv_ok md ob -> nth_error (m_fields md) f = Some fd ->
  eval_mut sch (m_fields md) h (XObj (Some id) ob) (canon_mut_body f fd) =
  Some match f_shape fd, f_ty fd with
        | Singular, TMsg m =>
          match nth_error (o_cells ob) f with
          | Some (CMsg (Some q)) => (h, PMsg m (Some q))
          | _ => let (h1, q) := halloc h (HObj (new_obj sch m)) in
                 (hset h1 id (HObj (set_cell ob f (CMsg (Some q)))), PMsg m (Some q))
          end
        | Rep _, t =>
          match nth_error (o_cells ob) f with
          | Some (CList None) => (hset h id (HObj (set_cell ob f (CList (Some [])))), PList t (RField id f))
          | _ => (h, PList t (RField id f))
          end
        | MapOf kk, t =>
          match nth_error (o_cells ob) f with
          | Some (CMap None) => (hset h id (HObj (set_cell ob f (CMap (Some [])))), PMap kk t (RField id f))
          | _ => (h, PMap kk t (RField id f))
          end
        | Member j, TMsg m =>
          match nth j (o_oneofs ob) None with
          | Some (f', EPtr q) =>
            if Nat.eqb f' f then
              match q with
              | Some _ => (h, PMsg m q)
              | None =>
                let (h1, q') := halloc h (HObj (new_obj sch m)) in
                (hset h1 id (HObj (set_oneof ob j (Some (f, EPtr (Some q'))))), PMsg m (Some q'))
              end
            else let (h1, q') := halloc h (HObj (new_obj sch m)) in
                 (hset h1 id (HObj (set_oneof ob j (Some (f, EPtr (Some q'))))), PMsg m (Some q'))
          | _ => let (h1, q') := halloc h (HObj (new_obj sch m)) in
                 (hset h1 id (HObj (set_oneof ob j (Some (f, EPtr (Some q'))))), PMsg m (Some q'))
          end
        | _, _ => (h, PPanic)
        end.
Proof.
  intros R F. destruct (recv_cell _ _ _ _ R F) as [c [C Fit]].
  unfold canon_mut_body, cell_fitsb in *.
  destruct (f_shape fd) as [|pk|o|kk] eqn:S; destruct (f_ty fd) as [k|m] eqn:T; destruct c; try discriminate;
    cbn [eval_mut]; rewrite ?F, ?C, ?S, ?T, ?Nat.eqb_refl; unfold halloc; cbn [put_obj view_ref].
  - reflexivity.
  - destruct p; reflexivity.
  - destruct l; reflexivity.
  - destruct l; reflexivity.
  - reflexivity.
  - rewrite (member_in_self _ _ _ _ F S), T, Nat.eqb_refl. unfold slot_at.
    destruct (nth o (o_oneofs ob) None) as [[f' [v|[q|]]]|]; [destruct (Nat.eqb f' f)..|]; reflexivity.
  - destruct m; reflexivity.
  - destruct m0; reflexivity.
Qed.

Lemma mutable_prog_correct : mutable_prog_stmt.
Proof.
  intros sch h r f Hwf Hok. destruct r as [|mid p| | | | | | | | | |]; try exact I.
  unfold run_mut, run_meth. rewrite rp_assoc_canon_mut. cbn [canon_mut rm_guard].
  destruct p as [id|]; cbn [step xst_of].
  2:{ destruct (nth_error (fields_of sch mid) f); cbn [option_map]; [apply eval_mut_noobj; auto|reflexivity]. }
  rewrite field_of_nth.
  destruct (get_msg sch mid) as [md|] eqn:G.
  2:{ rewrite (fields_of_none _ _ G). destruct f; reflexivity. }
  rewrite (fields_of_md _ _ _ G).
  destruct (nth_error (m_fields md) f) as [fd|] eqn:F; cbn [option_map]; [|reflexivity].
  destruct (recv_obj sch h mid (Some id)) as [ob|] eqn:R; [|apply eval_mut_noobj; auto].
  apply mut_body; [exact (recv_ok_of _ _ _ _ _ _ Hok R G)|exact F].
Qed.

(* ================================================================== Set *)
Lemma set_prog_correct : set_prog_stmt.
Proof.
  intros sch h r f v Hwf Hok Harg. destruct r as [|mid p| | | | | | | | | |]; try exact I.
  unfold run_set, run_meth, canon_set, rp_fields. cbn [rm_guard rm_cases].
  rewrite rp_assoc_canon.
  destruct p as [id|]; cbn [step xst_of].
  2:{ destruct (nth_error (fields_of sch mid) f); reflexivity. }
  rewrite field_of_nth. cbn [set_arg_okb] in Harg. unfold rp_fields in Harg.
  destruct (get_msg sch mid) as [md|] eqn:G.
  2:{ rewrite (fields_of_none _ _ G). destruct f; reflexivity. }
  rewrite (fields_of_md _ _ _ G) in *.
  destruct (nth_error (m_fields md) f) as [fd|] eqn:F; cbn [option_map]; [|reflexivity].
  destruct (recv_obj sch h mid (Some id)) as [ob|] eqn:R; [|reflexivity].
  unfold canon_set_body.
  destruct (f_shape fd) as [|pk|o|kk] eqn:S.
  - destruct (f_ty fd) as [k|m] eqn:T.
    + cbn [eval_set]. rewrite F, S. unfold eval_conv. rewrite T, rconv_eqb_refl.
      destruct v; cbn [pval_to_elem]; try reflexivity. destruct (wt_scalar k v); reflexivity.
    + cbn [eval_set]. rewrite F, S, T, Nat.eqb_refl.
      destruct v as [|m' q| | | | | | | | | |]; cbn [pval_to_elem]; try reflexivity.
      rewrite (Nat.eqb_sym m' m). destruct q; destruct (Nat.eqb m m'); reflexivity.
  - cbn [eval_set]. rewrite F, S. destruct v; try reflexivity. rewrite Harg. destruct (read_list h r); reflexivity.
  - cbn [eval_set]. rewrite (member_in_self _ _ _ _ F S). unfold eval_conv. rewrite rconv_eqb_refl.
    destruct (pval_to_elem (f_ty fd) v); reflexivity.
  - cbn [eval_set]. rewrite F, S. destruct v; try reflexivity. rewrite Harg. destruct (read_map h r); reflexivity.
Qed.
