(* Proofs/ReflectProgProofs.v — the canonical fast-reflection methods (Model/ReflectProg.v: canon_has … canon_range,
   the bodies the templates has.go … range.go print for a message type) run by the interpreters run_has … run_range
   are Reflect.step, for all well-formed schemas, all heaps satisfying the invariant rp_heap_okb and all operands
   (task T8); the invariant is kept by every step. *)
From Coq Require Import List Arith NArith ZArith Bool Lia ZifyN ZifyNat ZifyBool.
From CP Require Import Reflect ReflectProg ReflectLaws.
Import ListNotations.
Local Open Scope nat_scope.

(* ------------------------------------------------------------------ small facts *)
Lemma rzero_eqb_refl z : rzero_eqb z z = true.
Proof. destruct z; reflexivity. Qed.
Lemma rctor_eqb_refl c : rctor_eqb c c = true.
Proof. destruct c; reflexivity. Qed.
Lemma rconv_eqb_refl c : rconv_eqb c c = true.
Proof. destruct c; try reflexivity. apply Nat.eqb_refl. Qed.
Lemma zero_ok_lit k : zero_ok k (zero_lit k) = true.
Proof. apply rzero_eqb_refl. Qed.
Lemma ctor_zero_ok_lit k : ctor_zero_ok (ctor_of k) (zero_lit k) = true.
Proof. destruct k; reflexivity. Qed.
Lemma zero_lit_val_scalar k : zero_lit_val (zero_lit k) = zero_scalar k.
Proof. destruct k; reflexivity. Qed.

Lemma field_of_nth sch mid f : field_of sch mid f = nth_error (fields_of sch mid) f.
Proof. unfold field_of, fields_of. destruct (get_msg sch mid); [reflexivity|]. destruct f; reflexivity. Qed.

(* ------------------------------------------------------------------ the switch: looking a case up *)
Lemma rp_assoc_indexed {B} (body : nat -> field -> B) (fs : list field) : forall i n,
  rp_assoc (map (fun jf => (fst jf, body (fst jf) (snd jf))) (rp_indexed i fs)) n =
  if n <? i then None else option_map (body n) (nth_error fs (n - i)).
Proof.
  induction fs as [|a fs IH]; intros i n; cbn [rp_indexed map rp_assoc fst snd].
  - destruct (n <? i); [reflexivity|]. destruct (n - i); reflexivity.
  - destruct (Nat.eqb i n) eqn:E.
    + apply Nat.eqb_eq in E. subst n. rewrite Nat.ltb_irrefl, Nat.sub_diag. reflexivity.
    + apply Nat.eqb_neq in E. rewrite IH. destruct (n <? i) eqn:L.
      * apply Nat.ltb_lt in L. assert (L' : (n <? S i) = true) by (apply Nat.ltb_lt; lia). rewrite L'. reflexivity.
      * apply Nat.ltb_ge in L. assert (L' : (n <? S i) = false) by (apply Nat.ltb_ge; lia). rewrite L'.
        replace (n - i) with (S (n - S i)) by lia. reflexivity.
Qed.

Lemma rp_assoc_canon {B} (body : nat -> field -> B) fs n :
  rp_assoc (canon_cases body fs) n = option_map (body n) (nth_error fs n).
Proof. unfold canon_cases. rewrite rp_assoc_indexed. cbn [Nat.ltb Nat.leb]. rewrite Nat.sub_0_r. reflexivity. Qed.

Lemma rp_assoc_filter {B} (body : nat -> field -> B) (P : nat * field -> bool) (fs : list field) : forall i n,
  rp_assoc (map (fun jf => (fst jf, body (fst jf) (snd jf))) (filter P (rp_indexed i fs))) n =
  if n <? i then None
  else match nth_error fs (n - i) with
       | Some fd => if P (n, fd) then Some (body n fd) else None
       | None => None
       end.
Proof.
  induction fs as [|a fs IH]; intros i n; cbn [rp_indexed filter map rp_assoc fst snd].
  - destruct (n <? i); [reflexivity|]. destruct (n - i); reflexivity.
  - destruct (Nat.eqb i n) eqn:E.
    + apply Nat.eqb_eq in E. subst n. rewrite Nat.ltb_irrefl, Nat.sub_diag. cbn [nth_error].
      destruct (P (i, a)) eqn:Pa; cbn [map rp_assoc fst snd].
      * rewrite Nat.eqb_refl. reflexivity.
      * rewrite IH. assert (L' : (i <? S i) = true) by (apply Nat.ltb_lt; lia). rewrite L'. reflexivity.
    + apply Nat.eqb_neq in E.
      assert (X : rp_assoc (map (fun jf => (fst jf, body (fst jf) (snd jf))) (if P (i, a) then (i, a) :: filter P (rp_indexed (S i) fs) else filter P (rp_indexed (S i) fs))) n
                  = rp_assoc (map (fun jf => (fst jf, body (fst jf) (snd jf))) (filter P (rp_indexed (S i) fs))) n).
      { destruct (P (i, a)); [|reflexivity]. cbn [map rp_assoc fst snd]. apply Nat.eqb_neq in E. rewrite E. reflexivity. }
      rewrite X, IH. destruct (n <? i) eqn:L.
      * apply Nat.ltb_lt in L. assert (L' : (n <? S i) = true) by (apply Nat.ltb_lt; lia). rewrite L'. reflexivity.
      * apply Nat.ltb_ge in L. assert (L' : (n <? S i) = false) by (apply Nat.ltb_ge; lia). rewrite L'.
        replace (n - i) with (S (n - S i)) by lia. reflexivity.
Qed.

Lemma rp_assoc_app {B} (a b : list (nat * B)) n :
  rp_assoc (a ++ b) n = match rp_assoc a n with Some x => Some x | None => rp_assoc b n end.
Proof.
  induction a as [|[k x] a IH]; cbn [app rp_assoc]; [reflexivity|]. destruct (Nat.eqb k n); [reflexivity|exact IH].
Qed.

(* ------------------------------------------------------------------ what the invariant gives *)
Lemma cells_fitb_nth : forall fs cs i fd, cells_fitb fs cs = true -> nth_error fs i = Some fd ->
  exists c, nth_error cs i = Some c /\ cell_fitsb fd c = true.
Proof.
  induction fs as [|a fs IH]; intros cs i fd H F; [destruct i; discriminate|].
  destruct cs as [|c cs]; cbn [cells_fitb] in H; [discriminate|]. apply andb_prop in H. destruct H as [H1 H2].
  destruct i as [|i]; cbn [nth_error] in *.
  - inversion F; subst. eauto.
  - eapply IH; eauto.
Qed.

Lemma slots_fitb_nth : forall ss fs o0 o s, slots_fitb fs o0 ss = true -> nth o ss None = Some s ->
  slot_fitsb fs (o0 + o) (Some s) = true.
Proof.
  induction ss as [|a ss IH]; intros fs o0 o s H N; [destruct o; discriminate|].
  cbn [slots_fitb] in H. apply andb_prop in H. destruct H as [H1 H2].
  destruct o as [|o]; cbn [nth] in N.
  - subst a. rewrite Nat.add_0_r. exact H1.
  - rewrite Nat.add_succ_r. apply (IH fs (S o0) o s H2 N).
Qed.

Lemma new_cells_fitb fs : cells_fitb fs (map new_cell fs) = true.
Proof.
  induction fs as [|a fs IH]; [reflexivity|]. cbn [map cells_fitb]. rewrite IH, andb_true_r.
  unfold cell_fitsb, new_cell. destruct (f_shape a); destruct (f_ty a); reflexivity.
Qed.
Lemma none_slots_fitb fs n : forall o, slots_fitb fs o (repeat None n) = true.
Proof. induction n as [|n IH]; intro o; [reflexivity|]. cbn [repeat slots_fitb slot_fitsb]. apply IH. Qed.

Lemma new_obj_okb sch mid : rp_obj_okb sch (new_obj sch mid) = true.
Proof.
  unfold rp_obj_okb. rewrite new_obj_mid. unfold new_obj. destruct (get_msg sch mid) as [md|]; [|reflexivity].
  cbn [o_cells o_oneofs]. rewrite new_cells_fitb, repeat_length, Nat.eqb_refl, none_slots_fitb. reflexivity.
Qed.

Lemma heap_okb_get sch h id ob : rp_heap_okb sch h = true -> get_obj h id = Some ob -> rp_obj_okb sch ob = true.
Proof.
  unfold rp_heap_okb, get_obj, hget. intros H G. destruct (nth_error h id) as [e|] eqn:E; [|discriminate].
  destruct e as [o| |]; try discriminate. inversion G; subst o.
  rewrite forallb_forall in H. apply (H (HObj ob)). eapply nth_error_In; eauto.
Qed.

(* the receiver of a method, when it is an object: its shape *)
Record recv_ok (md : msgdesc) (ob : obj) : Prop := mkRecvOk {
  ro_cells : cells_fitb (m_fields md) (o_cells ob) = true;
  ro_len : length (o_oneofs ob) = m_oneofs md;
  ro_slots : slots_fitb (m_fields md) 0 (o_oneofs ob) = true }.

Lemma recv_ok_of sch h mid p ob md : rp_heap_okb sch h = true -> recv_obj sch h mid p = Some ob ->
  get_msg sch mid = Some md -> recv_ok md ob.
Proof.
  intros H R G. assert (X : rp_obj_okb sch ob = true /\ o_mid ob = mid).
  { destruct p as [id|].
    - apply recv_obj_inv in R. destruct R as [R1 R2]. split; [eapply heap_okb_get; eauto|exact R2].
    - cbn [recv_obj] in R. inversion R; subst ob. split; [apply new_obj_okb|apply new_obj_mid]. }
  destruct X as [X M]. unfold rp_obj_okb in X. rewrite M, G in X.
  apply andb_prop in X. destruct X as [X X3]. apply andb_prop in X. destruct X as [X1 X2].
  apply Nat.eqb_eq in X2. constructor; assumption.
Qed.

Lemma recv_cell md ob f fd : recv_ok md ob -> nth_error (m_fields md) f = Some fd ->
  exists c, nth_error (o_cells ob) f = Some c /\ cell_fitsb fd c = true.
Proof. intros [H _ _] F. eapply cells_fitb_nth; eauto. Qed.

Lemma recv_slot md ob o f' e : recv_ok md ob -> slot_at ob o = Some (f', e) ->
  exists fd', nth_error (m_fields md) f' = Some fd' /\ rp_member_of o fd' = true /\
              match f_ty fd', e with TScalar _, EScalar _ | TMsg _, EPtr _ => true | _, _ => false end = true.
Proof.
  intros [_ _ H] S. unfold slot_at in S. pose proof (slots_fitb_nth _ _ 0 o _ H S) as X. cbn [Nat.add slot_fitsb] in X.
  destruct (nth_error (m_fields md) f') as [fd'|]; [|discriminate]. apply andb_prop in X. destruct X as [X1 X2]. eauto.
Qed.

Lemma fields_of_md sch mid md : get_msg sch mid = Some md -> fields_of sch mid = m_fields md.
Proof. unfold fields_of. intros ->. reflexivity. Qed.
Lemma fields_of_none sch mid : get_msg sch mid = None -> fields_of sch mid = [].
Proof. unfold fields_of. intros ->. reflexivity. Qed.

Lemma member_in_self fs f fd o : nth_error fs f = Some fd -> f_shape fd = Member o -> member_in fs f o = Some fd.
Proof. intros F S. unfold member_in. rewrite F, S, Nat.eqb_refl. reflexivity. Qed.

(* ================================================================== Has *)
Lemma has_body md h own ob f fd : recv_ok md ob -> nth_error (m_fields md) f = Some fd ->
  eval_has (m_fields md) h (XObj own ob) (canon_has_body f fd) = Some (h, PBool (has_field ob f fd)).
Proof.
  intros R F. destruct (recv_cell _ _ _ _ R F) as [c [C Fit]].
  unfold canon_has_body, has_field, cell_fitsb in *. cbn [eval_has].
  destruct (f_shape fd) as [|pk|o|kk] eqn:S.
  - destruct (f_ty fd) as [k|m] eqn:T; destruct c; try discriminate.
    + destruct k; cbn [eval_bexpr option_map zero_lit]; rewrite F, C, S, T; reflexivity.
    + cbn [eval_bexpr option_map]. rewrite F, C, S, T. reflexivity.
  - destruct (f_ty fd) eqn:T; destruct c; try discriminate; cbn [eval_bexpr option_map]; rewrite F, C, S; reflexivity.
  - rewrite (member_in_self _ _ _ _ F S). reflexivity.
  - destruct (f_ty fd) eqn:T; destruct c; try discriminate; cbn [eval_bexpr option_map]; rewrite F, C, S; reflexivity.
Qed.

Lemma has_prog_correct : has_prog_stmt.
Proof.
  intros sch h r f Hwf Hok. destruct r as [|mid p| | | | | | | | | |]; try exact I.
  unfold run_has, run_meth, canon_has, rp_fields. cbn [rm_guard rm_cases step].
  rewrite rp_assoc_canon, field_of_nth.
  destruct (get_msg sch mid) as [md|] eqn:G.
  2:{ rewrite (fields_of_none _ _ G). destruct f; destruct p; reflexivity. }
  rewrite (fields_of_md _ _ _ G).
  destruct (nth_error (m_fields md) f) as [fd|] eqn:F; cbn [option_map].
  2:{ destruct p; reflexivity. }
  destruct p as [id|]; cbn [xst_of].
  - destruct (recv_obj sch h mid (Some id)) as [ob|] eqn:R; [|reflexivity].
    apply has_body; [exact (recv_ok_of _ _ _ _ _ _ Hok R G)|exact F].
  - cbn [recv_obj]. apply has_body; [exact (recv_ok_of sch h mid None _ md Hok eq_refl G)|exact F].
Qed.

(* ================================================================== Clear *)
Lemma clear_prog_correct : clear_prog_stmt.
Proof.
  intros sch h r f Hwf Hok. destruct r as [|mid p| | | | | | | | | |]; try exact I.
  unfold run_clear, run_meth, canon_clear, rp_fields. cbn [rm_guard rm_cases].
  rewrite rp_assoc_canon.
  destruct p as [id|]; cbn [step xst_of].
  2:{ destruct (nth_error (fields_of sch mid) f); reflexivity. }
  rewrite field_of_nth.
  destruct (get_msg sch mid) as [md|] eqn:G.
  2:{ rewrite (fields_of_none _ _ G). destruct f; reflexivity. }
  rewrite (fields_of_md _ _ _ G).
  destruct (nth_error (m_fields md) f) as [fd|] eqn:F; cbn [option_map]; [|reflexivity].
  destruct (recv_obj sch h mid (Some id)) as [ob|] eqn:R; [|reflexivity].
  pose proof (recv_ok_of _ _ _ _ _ _ Hok R G) as RO.
  unfold canon_clear_body. cbn [eval_clear].
  destruct (f_shape fd) as [|pk|o|kk] eqn:S.
  - destruct (f_ty fd) as [k|m] eqn:T.
    + cbn [eval_clear]. rewrite F, S, T, zero_ok_lit. cbn [put_obj]. destruct k; reflexivity.
    + cbn [eval_clear]. rewrite F, S, T. reflexivity.
  - cbn [eval_clear]. rewrite F, S. destruct (f_ty fd); reflexivity.
  - cbn [eval_clear]. rewrite (member_in_self _ _ _ _ F S). unfold slot_at. cbn [put_obj]. destruct (f_ty fd); reflexivity.
  - cbn [eval_clear]. rewrite F, S. destruct (f_ty fd); reflexivity.
Qed.

(* ================================================================== WhichOneof *)
Lemma rp_assoc_seq {B} (g : nat -> B) : forall n i j,
  rp_assoc (map (fun o => (o, g o)) (seq i n)) j = if (i <=? j) && (j <? i + n) then Some (g j) else None.
Proof.
  induction n as [|n IH]; intros i j; cbn [seq map rp_assoc].
  - destruct (i <=? j) eqn:A; [|reflexivity]. cbn [andb]. apply Nat.leb_le in A.
    assert (L : (j <? i + 0) = false) by (apply Nat.ltb_ge; lia). rewrite L. reflexivity.
  - destruct (Nat.eqb i j) eqn:E.
    + apply Nat.eqb_eq in E. subst j. rewrite Nat.leb_refl. assert (L : (i <? i + S n) = true) by (apply Nat.ltb_lt; lia).
      rewrite L. reflexivity.
    + apply Nat.eqb_neq in E. rewrite IH.
      destruct (i <=? j) eqn:A; destruct (S i <=? j) eqn:A'; cbn [andb];
        try (apply Nat.leb_le in A); try (apply Nat.leb_gt in A); try (apply Nat.leb_le in A'); try (apply Nat.leb_gt in A'); try lia;
        try reflexivity.
      replace (S i + n) with (i + S n) by lia. reflexivity.
Qed.

Lemma in_indexed {A} (l : list A) : forall i j x, In (j, x) (rp_indexed i l) -> i <= j /\ nth_error l (j - i) = Some x.
Proof.
  induction l as [|a l IH]; intros i j x H; cbn [rp_indexed In] in H; [destruct H|].
  destruct H as [H|H].
  - inversion H; subst. rewrite Nat.sub_diag. split; [lia|reflexivity].
  - apply IH in H. destruct H as [H1 H2]. split; [lia|]. replace (j - i) with (S (j - S i)) by lia. exact H2.
Qed.

Lemma member_in_of fs j fd o : nth_error fs j = Some fd -> rp_member_of o fd = true -> member_in fs j o = Some fd.
Proof.
  unfold rp_member_of, member_in. intros -> H. destruct (f_shape fd); try discriminate. rewrite H. reflexivity.
Qed.

Lemma members_forallb {C} (g : nat * field -> C) fs o :
  forallb (fun c : nat * C => match member_in fs (fst c) o with Some _ => true | None => false end)
          (map (fun jf => (fst jf, g jf)) (filter (fun jf => rp_member_of o (snd jf)) (rp_indexed 0 fs))) = true.
Proof.
  apply forallb_forall. intros [j c] H. apply in_map_iff in H. destruct H as [[j' fd] [E H]]. cbn [fst snd] in E.
  inversion E; subst j' c. apply filter_In in H. destruct H as [H M]. cbn [snd] in M.
  apply in_indexed in H. destruct H as [_ H]. rewrite Nat.sub_0_r in H. cbn [fst]. rewrite (member_in_of _ _ _ _ H M). reflexivity.
Qed.

Lemma members_assoc {C} (body : nat -> field -> C) fs o f' fd' :
  nth_error fs f' = Some fd' -> rp_member_of o fd' = true ->
  rp_assoc (map (fun jf => (fst jf, body (fst jf) (snd jf))) (filter (fun jf => rp_member_of o (snd jf)) (rp_indexed 0 fs))) f' = Some (body f' fd').
Proof.
  intros F M. rewrite rp_assoc_filter. cbn [Nat.ltb Nat.leb]. rewrite Nat.sub_0_r, F. cbn [snd]. rewrite M. reflexivity.
Qed.

Lemma whichoneof_prog_correct : whichoneof_prog_stmt.
Proof.
  intros sch h r j Hwf Hok. destruct r as [|mid p| | | | | | | | | |]; try exact I.
  unfold run_which, run_meth, canon_which, rp_fields, rp_noneofs. cbn [rm_guard rm_cases step].
  destruct (get_msg sch mid) as [md|] eqn:G.
  2:{ cbn [seq map rp_assoc]. destruct p; reflexivity. }
  rewrite (fields_of_md _ _ _ G).
  rewrite (rp_assoc_seq (fun o => WBOneof o (map (fun jf => (fst jf, fst jf)) (filter (fun jf => rp_member_of o (snd jf)) (rp_indexed 0 (m_fields md)))))).
  cbn [Nat.leb andb Nat.add].
  destruct (j <? m_oneofs md) eqn:L.
  2:{ destruct p as [id|]; cbn [xst_of recv_obj]; [destruct (get_obj h id) as [o|]; [destruct (Nat.eqb (o_mid o) mid)|]|]; reflexivity. }
  assert (X : forall own ob, recv_ok md ob ->
      eval_which (m_fields md) h (XObj own ob)
             (WBOneof j (map (fun jf => (fst jf, fst jf)) (filter (fun jf => rp_member_of j (snd jf)) (rp_indexed 0 (m_fields md))))) =
     Some (h, PField match nth j (o_oneofs ob) None with Some (f0, _) => Some f0 | None => None end)).
  { intros own ob RO. cbn [eval_which].
    rewrite (members_forallb (fun jf => fst jf)).
    destruct (slot_at ob j) as [[f' e]|] eqn:SL; unfold slot_at in SL; rewrite SL; [|reflexivity].
    destruct (recv_slot _ _ _ _ _ RO SL) as [fd' [F' [M' _]]].
    rewrite (members_assoc (fun n _ => n) _ _ _ _ F' M'). reflexivity. }
  destruct p as [id|]; cbn [xst_of].
  - destruct (recv_obj sch h mid (Some id)) as [ob|] eqn:R; [|reflexivity].
    apply X. exact (recv_ok_of _ _ _ _ _ _ Hok R G).
  - cbn [recv_obj]. apply X. exact (recv_ok_of sch h mid None _ md Hok eq_refl G).
Qed.

(* ================================================================== NewField *)
Lemma newfield_prog_correct : newfield_prog_stmt.
Proof.
  intros sch h r f Hwf Hok. destruct r as [|mid p| | | | | | | | | |]; try exact I.
  unfold run_newf, run_meth, canon_newf, rp_fields. cbn [rm_guard rm_cases step].
  rewrite rp_assoc_canon, field_of_nth.
  assert (X : match option_map (canon_newf_body f) (nth_error (fields_of sch mid) f) with
              | Some b => eval_newf sch (fields_of sch mid) h b
              | None => Some (h, PPanic)
              end =
              Some match nth_error (fields_of sch mid) f with
                   | Some fd =>
                     match f_shape fd, f_ty fd with
                     | Rep _, t => let (h', id) := halloc h (HListVar (Some [])) in (h', PList t (RVar id))
                     | MapOf kk, t => let (h', id) := halloc h (HMapVar (Some [])) in (h', PMap kk t (RVar id))
                     | _, TScalar k => (h, PScalar (zero_scalar k))
                     | _, TMsg m => let (h', id) := halloc h (HObj (new_obj sch m)) in (h', PMsg m (Some id))
                     end
                   | None => (h, PPanic)
                   end).
  { destruct (nth_error (fields_of sch mid) f) as [fd|] eqn:F; cbn [option_map]; [|reflexivity].
    unfold canon_newf_body, halloc.
    destruct (f_shape fd) as [|pk|o|kk] eqn:S; destruct (f_ty fd) as [k|m] eqn:T; cbn [eval_newf]; unfold halloc;
      rewrite ?F, ?S, ?T, ?ctor_zero_ok_lit, ?zero_lit_val_scalar; reflexivity. }
  destruct p as [id|]; cbn [xst_of]; exact X.
Qed.

(* ================================================================== Get *)
Lemma get_body md h own ob f fd : recv_ok md ob -> nth_error (m_fields md) f = Some fd ->
  eval_get (m_fields md) h (XObj own ob) (canon_get_body f fd) = Some (h, get_field ob own f fd).
Proof.
  intros R F. destruct (recv_cell _ _ _ _ R F) as [c [C Fit]].
  unfold canon_get_body, get_field, cell_fitsb in *.
  destruct (f_shape fd) as [|pk|o|kk] eqn:S.
  - destruct (f_ty fd) as [k|m] eqn:T; destruct c; try discriminate.
    + destruct k; cbn [is_enum eval_get]; rewrite F, C, S, T; reflexivity.
    + cbn [eval_get]. rewrite F, C, S, T. reflexivity.
  - destruct (f_ty fd) eqn:T; destruct c; try discriminate; cbn [eval_get]; rewrite F, C, S, ?T; reflexivity.
  - destruct (f_ty fd) as [k|m] eqn:T.
    + cbn [eval_get]. rewrite (member_in_self _ _ _ _ F S). unfold slot_at.
      destruct (nth o (o_oneofs ob) None) as [[f' e]|]; [destruct (Nat.eqb f' f)|];
        destruct k; cbn [is_enum eval_oneval option_map ctor_of zero_lit]; rewrite ?T; reflexivity.
    + cbn [eval_get]. rewrite (member_in_self _ _ _ _ F S). unfold slot_at.
      destruct (nth o (o_oneofs ob) None) as [[f' e]|]; [destruct (Nat.eqb f' f)|];
        cbn [eval_oneval option_map]; rewrite ?T; reflexivity.
  - destruct (f_ty fd) eqn:T; destruct c; try discriminate; cbn [eval_get]; rewrite F, C, S, ?T; reflexivity.
Qed.

Lemma get_prog_correct : get_prog_stmt.
Proof.
  intros sch h r f Hwf Hok. destruct r as [|mid p| | | | | | | | | |]; try exact I.
  unfold run_get, run_meth, canon_get, rp_fields. cbn [rm_guard rm_cases step].
  rewrite rp_assoc_canon, field_of_nth.
  destruct (get_msg sch mid) as [md|] eqn:G.
  2:{ rewrite (fields_of_none _ _ G). destruct f; destruct p; reflexivity. }
  rewrite (fields_of_md _ _ _ G).
  destruct (nth_error (m_fields md) f) as [fd|] eqn:F; cbn [option_map].
  2:{ destruct p; reflexivity. }
  destruct p as [id|]; cbn [xst_of].
  - destruct (recv_obj sch h mid (Some id)) as [ob|] eqn:R; [|reflexivity].
    apply get_body; [exact (recv_ok_of _ _ _ _ _ _ Hok R G)|exact F].
  - cbn [recv_obj]. apply get_body; [exact (recv_ok_of sch h mid None _ md Hok eq_refl G)|exact F].
Qed.

(* ================================================================== Mutable *)
Lemma rp_assoc_canon_mut sch mid f :
  rp_assoc (rm_cases (canon_mut sch mid)) f = option_map (canon_mut_body f) (nth_error (fields_of sch mid) f).
Proof.
  unfold canon_mut, rp_fields. cbn [rm_cases]. rewrite map_app, rp_assoc_app, !rp_assoc_filter.
  cbn [Nat.ltb Nat.leb]. rewrite Nat.sub_0_r. destruct (nth_error (fields_of sch mid) f) as [fd|]; [|reflexivity].
  cbn [snd option_map]. destruct (rp_mutable fd); reflexivity.
Qed.

Lemma eval_mut_noobj sch fs h x b : (x = XNil \/ x = XBad) -> eval_mut sch fs h x b = Some (h, PPanic).
Proof. intros [-> | ->]; destruct b; reflexivity. Qed.

Lemma mut_body sch md h id ob f fd : recv_ok md ob -> nth_error (m_fields md) f = Some fd ->
  eval_mut sch (m_fields md) h (XObj (Some id) ob) (canon_mut_body f fd) =
  Some match f_shape fd, f_ty fd with
        | Singular, TMsg m =>
          match nth_error (o_cells ob) f with
          | Some (CMsg (Some q)) => (h, PMsg m (Some q))
          | _ => let (h1, q) := halloc h (HObj (new_obj sch m)) in
                 (hset h1 id (HObj (set_cell ob f (CMsg (Some q)))), PMsg m (Some q))
          end
        | Rep _, t =>
          match nth_error (o_cells ob) f with
          | Some (CList None) => (hset h id (HObj (set_cell ob f (CList (Some [])))), PList t (RField id f))
          | _ => (h, PList t (RField id f))
          end
        | MapOf kk, t =>
          match nth_error (o_cells ob) f with
          | Some (CMap None) => (hset h id (HObj (set_cell ob f (CMap (Some [])))), PMap kk t (RField id f))
          | _ => (h, PMap kk t (RField id f))
          end
        | Member j, TMsg m =>
          match nth j (o_oneofs ob) None with
          | Some (f', EPtr q) =>
            if Nat.eqb f' f then
              match q with
              | Some _ => (h, PMsg m q)
              | None =>
                let (h1, q') := halloc h (HObj (new_obj sch m)) in
                (hset h1 id (HObj (set_oneof ob j (Some (f, EPtr (Some q'))))), PMsg m (Some q'))
              end
            else let (h1, q') := halloc h (HObj (new_obj sch m)) in
                 (hset h1 id (HObj (set_oneof ob j (Some (f, EPtr (Some q'))))), PMsg m (Some q'))
          | _ => let (h1, q') := halloc h (HObj (new_obj sch m)) in
                 (hset h1 id (HObj (set_oneof ob j (Some (f, EPtr (Some q'))))), PMsg m (Some q'))
          end
        | _, _ => (h, PPanic)
        end.
Proof.
  intros R F. destruct (recv_cell _ _ _ _ R F) as [c [C Fit]].
  unfold canon_mut_body, cell_fitsb in *.
  destruct (f_shape fd) as [|pk|o|kk] eqn:S; destruct (f_ty fd) as [k|m] eqn:T; destruct c; try discriminate;
    cbn [eval_mut]; rewrite ?F, ?C, ?S, ?T, ?Nat.eqb_refl; unfold halloc; cbn [put_obj view_ref].
  - reflexivity.
  - destruct p; reflexivity.
  - destruct l; reflexivity.
  - destruct l; reflexivity.
  - reflexivity.
  - rewrite (member_in_self _ _ _ _ F S), T, Nat.eqb_refl. unfold slot_at.
    destruct (nth o (o_oneofs ob) None) as [[f' [v|[q|]]]|]; [destruct (Nat.eqb f' f)..|]; reflexivity.
  - destruct m; reflexivity.
  - destruct m0; reflexivity.
Qed.

Lemma mutable_prog_correct : mutable_prog_stmt.
Proof.
  intros sch h r f Hwf Hok. destruct r as [|mid p| | | | | | | | | |]; try exact I.
  unfold run_mut, run_meth. rewrite rp_assoc_canon_mut. cbn [canon_mut rm_guard].
  destruct p as [id|]; cbn [step xst_of].
  2:{ destruct (nth_error (fields_of sch mid) f); cbn [option_map]; [apply eval_mut_noobj; auto|reflexivity]. }
  rewrite field_of_nth.
  destruct (get_msg sch mid) as [md|] eqn:G.
  2:{ rewrite (fields_of_none _ _ G). destruct f; reflexivity. }
  rewrite (fields_of_md _ _ _ G).
  destruct (nth_error (m_fields md) f) as [fd|] eqn:F; cbn [option_map]; [|reflexivity].
  destruct (recv_obj sch h mid (Some id)) as [ob|] eqn:R; [|apply eval_mut_noobj; auto].
  apply mut_body; [exact (recv_ok_of _ _ _ _ _ _ Hok R G)|exact F].
Qed.

(* ================================================================== Set *)
Lemma set_prog_correct : set_prog_stmt.
Proof.
  intros sch h r f v Hwf Hok Harg. destruct r as [|mid p| | | | | | | | | |]; try exact I.
  unfold run_set, run_meth, canon_set, rp_fields. cbn [rm_guard rm_cases].
  rewrite rp_assoc_canon.
  destruct p as [id|]; cbn [step xst_of].
  2:{ destruct (nth_error (fields_of sch mid) f); reflexivity. }
  rewrite field_of_nth. cbn [set_arg_okb] in Harg. unfold rp_fields in Harg.
  destruct (get_msg sch mid) as [md|] eqn:G.
  2:{ rewrite (fields_of_none _ _ G). destruct f; reflexivity. }
  rewrite (fields_of_md _ _ _ G) in *.
  destruct (nth_error (m_fields md) f) as [fd|] eqn:F; cbn [option_map]; [|reflexivity].
  destruct (recv_obj sch h mid (Some id)) as [ob|] eqn:R; [|reflexivity].
  unfold canon_set_body.
  destruct (f_shape fd) as [|pk|o|kk] eqn:S.
  - destruct (f_ty fd) as [k|m] eqn:T.
    + cbn [eval_set]. rewrite F, S. unfold eval_conv. rewrite T, rconv_eqb_refl.
      destruct v; cbn [pval_to_elem]; try reflexivity. destruct (wt_scalar k v); reflexivity.
    + cbn [eval_set]. rewrite F, S, T, Nat.eqb_refl.
      destruct v as [|m' q| | | | | | | | | |]; cbn [pval_to_elem]; try reflexivity.
      rewrite (Nat.eqb_sym m' m). destruct q; destruct (Nat.eqb m m'); reflexivity.
  - cbn [eval_set]. rewrite F, S. destruct v; try reflexivity. rewrite Harg. destruct (read_list h r); reflexivity.
  - cbn [eval_set]. rewrite (member_in_self _ _ _ _ F S). unfold eval_conv. rewrite rconv_eqb_refl.
    destruct (pval_to_elem (f_ty fd) v); reflexivity.
  - cbn [eval_set]. rewrite F, S. destruct v; try reflexivity. rewrite Harg. destruct (read_map h r); reflexivity.
Qed.

(* ================================================================== Range *)
(* the call a statement makes (at most one), when it is not stuck *)
Definition stmt_calls (fs : list field) (own : option nat) (ob : obj) (s : rrange) : option (list (nat * pval)) :=
  match s with
  | RGField g v fdi =>
    match eval_bexpr fs ob g with
    | Some true => match eval_rrval fs own ob v with Some pv => Some [(fdi, pv)] | None => None end
    | Some false => Some []
    | None => None
    end
  | RGOneof o cases =>
    if forallb (fun c => match member_in fs (fst c) o with Some _ => true | None => false end) cases then
      match slot_at ob o with
      | None => Some []
      | Some (f', el) =>
        match rp_assoc cases f', nth_error fs f' with
        | Some (form, fdi), Some fd => match eval_rrcase fd el form with Some pv => Some [(fdi, pv)] | None => None end
        | _, _ => Some []
        end
      end
    else None
  end.

Lemma cut_calls_all l : cut_calls (fun _ _ => true) l = l.
Proof. induction l as [|c l IH]; cbn [cut_calls]; [reflexivity|]. rewrite IH. reflexivity. Qed.

Lemma eval_range_calls f fs own ob : forall L cs acc,
  Forall2 (fun s c => stmt_calls fs own ob s = Some c) L cs ->
  eval_range f fs own ob L acc = Some (acc ++ cut_calls f (concat cs)).
Proof.
  induction L as [|s L IH]; intros cs acc H; inversion H as [|s' c L' cs' Hs HL]; subst; cbn [eval_range concat cut_calls].
  - rewrite app_nil_r. reflexivity.
  - assert (K : forall i pv, c = [(i, pv)] ->
                (if f i pv then eval_range f fs own ob L (acc ++ [(i, pv)]) else Some (acc ++ [(i, pv)])) =
                Some (acc ++ cut_calls f (c ++ concat cs'))).
    { intros i pv ->. cbn [app cut_calls fst snd]. destruct (f i pv); [|reflexivity].
      rewrite (IH cs' _ HL), <- app_assoc. reflexivity. }
    assert (K0 : c = [] -> eval_range f fs own ob L acc = Some (acc ++ cut_calls f (c ++ concat cs'))).
    { intros ->. cbn [app]. apply (IH cs' _ HL). }
    destruct s as [g v fdi|o cases]; cbn [stmt_calls] in Hs.
    + destruct (eval_bexpr fs ob g) as [[|]|]; try discriminate.
      * destruct (eval_rrval fs own ob v) as [pv|]; [|discriminate]. injection Hs as Hc. apply K. symmetry; exact Hc.
      * injection Hs as Hc. apply K0. symmetry; exact Hc.
    + destruct (forallb _ cases); [|discriminate].
      destruct (slot_at ob o) as [[f' el]|]; [|injection Hs as Hc; apply K0; symmetry; exact Hc].
      destruct (rp_assoc cases f') as [[form fdi]|]; [|injection Hs as Hc; apply K0; symmetry; exact Hc].
      destruct (nth_error fs f') as [fd|]; [|injection Hs as Hc; apply K0; symmetry; exact Hc].
      destruct (eval_rrcase fd el form) as [pv|]; [|discriminate]. injection Hs as Hc. apply K. symmetry; exact Hc.
Qed.

(* -- contiguity: once a oneof has been left, none of its members follows -- *)
Lemma contig_no_member : forall l prev seen o, contig_from prev seen l = true -> existsb (Nat.eqb o) seen = true ->
  prev <> Some o -> forall k fd, nth_error l k = Some fd -> rp_member_of o fd = false.
Proof.
  induction l as [|a l IH]; intros prev seen o H E P k fd N; [destruct k; discriminate|].
  cbn [contig_from] in H. unfold rp_member_of.
  destruct (f_shape a) as [|pk|o1|kk] eqn:Sh.
  1,2,4: destruct k as [|k]; cbn [nth_error] in N;
    [inversion N; subst; rewrite Sh; reflexivity|apply (IH None seen o H E (fun X => ltac:(discriminate)) k fd N)].
  assert (D : o1 <> o /\ exists seen', contig_from (Some o1) seen' l = true /\ existsb (Nat.eqb o) seen' = true).
  { destruct (match prev with Some o' => Nat.eqb o' o1 | None => false end) eqn:T1.
    - split; [|eauto]. intros ->. destruct prev as [o'|]; [|discriminate]. apply Nat.eqb_eq in T1. subst. apply P. reflexivity.
    - destruct (existsb (Nat.eqb o1) seen) eqn:T2; [discriminate|]. split; [intros ->; congruence|].
      exists (o1 :: seen). split; [exact H|]. cbn [existsb]. rewrite E. apply orb_true_r. }
  destruct D as [D [seen' [H' E']]].
  destruct k as [|k]; cbn [nth_error] in N.
  - inversion N; subst. rewrite Sh. apply Nat.eqb_neq. exact D.
  - apply (IH (Some o1) seen' o H' E' (fun X => ltac:(inversion X; congruence)) k fd N).
Qed.

Lemma contig_tail_no_member fd t prev seen o : contig_from prev seen (fd :: t) = true -> existsb (Nat.eqb o) seen = true ->
  rp_member_of o fd = false -> forall k fd', nth_error t k = Some fd' -> rp_member_of o fd' = false.
Proof.
  intros H E M. cbn [contig_from] in H. unfold rp_member_of in M.
  destruct (f_shape fd) as [|pk|o1|kk] eqn:Sh.
  1,2,4: apply (contig_no_member t None seen o H E); discriminate.
  apply Nat.eqb_neq in M.
  destruct (match prev with Some o' => Nat.eqb o' o1 | None => false end).
  - apply (contig_no_member t (Some o1) seen o H E). intro X; inversion X; congruence.
  - destruct (existsb (Nat.eqb o1) seen); [discriminate|].
    apply (contig_no_member t (Some o1) (o1 :: seen) o H).
    + cbn [existsb]. rewrite E. apply orb_true_r.
    + intro X; inversion X; congruence.
Qed.

Lemma nth_error_firstn_lt {A} : forall (l : list A) i k, k < i -> nth_error (firstn i l) k = nth_error l k.
Proof.
  induction l as [|a l IH]; intros i k L; [rewrite firstn_nil; reflexivity|].
  destruct i as [|i]; [lia|]. destruct k as [|k]; cbn [firstn nth_error]; [reflexivity|]. apply IH. lia.
Qed.
Lemma firstn_S_nth {A} : forall (l : list A) i x, nth_error l i = Some x -> firstn (S i) l = firstn i l ++ [x].
Proof.
  induction l as [|a l IH]; intros i x N; [destruct i; discriminate|].
  destruct i as [|i]; cbn [nth_error] in N.
  - inversion N; subst. reflexivity.
  - change (firstn (S (S i)) (a :: l)) with (a :: firstn (S i) l). rewrite (IH i x N). reflexivity.
Qed.

Section RangeObj.
  Variables (md : msgdesc) (id : nat) (ob : obj).
  Hypothesis RO : recv_ok md ob.
  Let fs := m_fields md.
  Let own := Some id.

  (* the call for the oneof o, when the member set stands at position i or later *)
  Definition pendc (o i : nat) : list (nat * pval) :=
    match slot_at ob o with
    | Some (f', el) =>
      if i <=? f' then match nth_error fs f' with Some fd' => [(f', elem_to_pval (f_ty fd') el)] | None => [] end else []
    | None => []
    end.

  Lemma pend_step o i fd : nth_error fs i = Some fd -> f_shape fd = Member o ->
    pendc o i = (if has_field ob i fd then [(i, range_field ob own i fd)] else []) ++ pendc o (S i).
  Proof.
    intros F Sh. unfold pendc, has_field, range_field, get_field, slot_at. rewrite Sh.
    destruct (nth o (o_oneofs ob) None) as [[f' el]|]; [|reflexivity].
    destruct (Nat.eqb f' i) eqn:E.
    - apply Nat.eqb_eq in E. subst f'. rewrite Nat.leb_refl, F.
      assert (L : (S i <=? i) = false) by (apply Nat.leb_gt; lia). rewrite L. reflexivity.
    - apply Nat.eqb_neq in E. cbn [app]. destruct (i <=? f') eqn:L.
      + apply Nat.leb_le in L. assert (L' : (S i <=? f') = true) by (apply Nat.leb_le; lia). rewrite L'. reflexivity.
      + apply Nat.leb_gt in L. assert (L' : (S i <=? f') = false) by (apply Nat.leb_gt; lia). rewrite L'. reflexivity.
  Qed.

  Lemma pend_nil fd t prev seen o i : (forall k, nth_error (fd :: t) k = nth_error fs (i + k)) ->
    contig_from prev seen (fd :: t) = true -> existsb (Nat.eqb o) seen = true -> rp_member_of o fd = false ->
    pendc o i = [].
  Proof.
    intros Ix H E M. unfold pendc. destruct (slot_at ob o) as [[f' el]|] eqn:SL; [|reflexivity].
    destruct (i <=? f') eqn:L; [|reflexivity]. apply Nat.leb_le in L.
    destruct (recv_slot _ _ _ _ _ RO SL) as [fd' [F' [M' _]]]. exfalso.
    specialize (Ix (f' - i)). replace (i + (f' - i)) with f' in Ix by lia. fold fs in F'. rewrite F' in Ix.
    destruct (f' - i) as [|k]; cbn [nth_error] in Ix.
    - inversion Ix; subst. congruence.
    - pose proof (contig_tail_no_member _ _ _ _ _ H E M k fd' Ix). congruence.
  Qed.

  (* the statement of a field that is not a member of a oneof *)
  Lemma field_stmt i fd : nth_error fs i = Some fd -> (forall o, f_shape fd <> Member o) ->
    exists s, canon_range_field fs i fd = [s] /\
              stmt_calls fs own ob s = Some (if has_field ob i fd then [(i, range_field ob own i fd)] else []).
  Proof.
    intros F NM. destruct (recv_cell _ _ _ _ RO F) as [c [C Fit]]. fold fs in F.
    unfold canon_range_field, has_field, range_field, get_field, cell_fitsb in *.
    destruct (f_shape fd) as [|pk|o|kk] eqn:Sh.
    - destruct (f_ty fd) as [k|m] eqn:T; destruct c; try discriminate.
      + destruct k; eexists; (split; [reflexivity|]); cbn [stmt_calls eval_bexpr eval_rrval is_enum zero_lit];
          rewrite F, C, Sh, T; cbn [zero_ok rzero_eqb zero_lit];
          match goal with |- context [present ?k ?v] => destruct (present k v) end; cbn [negb andb ctor_of rctor_eqb is_enum]; reflexivity.
      + eexists; (split; [reflexivity|]). cbn [stmt_calls eval_bexpr eval_rrval]. rewrite F, C, Sh, T. destruct p; reflexivity.
    - destruct (f_ty fd) eqn:T; destruct c as [?|?|l|?|]; try discriminate; eexists; (split; [reflexivity|]);
        cbn [stmt_calls eval_bexpr eval_rrval]; rewrite F, C, Sh; subst own; cbn iota;
        destruct (negb (Nat.eqb (olen l) 0)); rewrite ?Sh, ?T; reflexivity.
    - destruct (NM o eq_refl).
    - destruct (f_ty fd) eqn:T; destruct c as [?|?|?|mp|]; try discriminate; eexists; (split; [reflexivity|]);
        cbn [stmt_calls eval_bexpr eval_rrval]; rewrite F, C, Sh; subst own; cbn iota;
        destruct (negb (Nat.eqb (olen mp) 0)); rewrite ?Sh, ?T; reflexivity.
  Qed.

  (* the statement of a oneof *)
  Definition rcform (fd : field) : rrcase :=
    match f_ty fd with TMsg _ => RGCMsg | TScalar k => if is_enum k then RGCEnum else RGCOf (ctor_of k) end.

  Lemma eval_rrcase_form fd el : eval_rrcase fd el (rcform fd) = Some (elem_to_pval (f_ty fd) el).
  Proof. unfold eval_rrcase, rcform. destruct (f_ty fd) as [k|m]; [destruct k|]; reflexivity. Qed.

  Lemma oneof_stmt o :
    stmt_calls fs own ob (RGOneof o (map (fun jf => canon_range_case (fst jf) (snd jf))
                                          (filter (fun jf => rp_member_of o (snd jf)) (rp_indexed 0 fs)))) = Some (pendc o 0).
  Proof.
    assert (E : map (fun jf => canon_range_case (fst jf) (snd jf)) (filter (fun jf => rp_member_of o (snd jf)) (rp_indexed 0 fs))
              = map (fun x : nat * field => (fst x, (fun n fd => (rcform fd, n)) (fst x) (snd x)))
                    (filter (fun x => rp_member_of o (snd x)) (rp_indexed 0 fs))) by reflexivity.
    rewrite E. clear E.
    cbn [stmt_calls]. rewrite (members_forallb (fun jf => (rcform (snd jf), fst jf))).
    unfold pendc. destruct (slot_at ob o) as [[f' el]|] eqn:SL; [|reflexivity]. cbn [Nat.leb].
    destruct (recv_slot _ _ _ _ _ RO SL) as [fd' [F' [M' _]]]. fold fs in F'.
    rewrite (members_assoc (fun n fd => (rcform fd, n)) _ _ _ _ F' M'), F', eval_rrcase_form. reflexivity.
  Qed.

  Lemma pendc_first o i : existsb (rp_member_of o) (firstn i fs) = false -> pendc o 0 = pendc o i.
  Proof.
    intro E. unfold pendc. destruct (slot_at ob o) as [[f' el]|] eqn:SL; [|reflexivity]. cbn [Nat.leb].
    destruct (recv_slot _ _ _ _ _ RO SL) as [fd' [F' [M' _]]]. fold fs in F'.
    destruct (i <=? f') eqn:L; [reflexivity|]. apply Nat.leb_gt in L. exfalso.
    assert (X : existsb (rp_member_of o) (firstn i fs) = true).
    { apply existsb_exists. exists fd'. split; [|exact M']. apply (nth_error_In _ f'). rewrite nth_error_firstn_lt by exact L. exact F'. }
    congruence.
  Qed.

  Lemma range_main : forall suf i prev seen,
    (forall k, nth_error suf k = nth_error fs (i + k)) ->
    contig_from prev seen suf = true ->
    (forall o, existsb (Nat.eqb o) seen = existsb (rp_member_of o) (firstn i fs)) ->
    (forall o, prev = Some o -> existsb (Nat.eqb o) seen = true) ->
    exists cs,
      Forall2 (fun s c => stmt_calls fs own ob s = Some c)
              (concat (map (fun jf => canon_range_field fs (fst jf) (snd jf)) (rp_indexed i suf))) cs /\
      range_from ob own i suf = (match prev with Some o => pendc o i | None => [] end) ++ concat cs.
  Proof.
    induction suf as [|fd t IH]; intros i prev seen Ix H Seen Prev.
    - exists []. split; [constructor|]. cbn [range_from concat]. rewrite app_nil_r.
      destruct prev as [o|]; [|reflexivity]. unfold pendc.
      destruct (slot_at ob o) as [[f' el]|] eqn:SL; [|reflexivity].
      destruct (i <=? f') eqn:L; [|reflexivity]. apply Nat.leb_le in L.
      destruct (recv_slot _ _ _ _ _ RO SL) as [fd' [F' _]]. fold fs in F'.
      specialize (Ix (f' - i)). replace (i + (f' - i)) with f' in Ix by lia. rewrite F' in Ix. destruct (f' - i); discriminate.
    - pose proof (Ix 0) as F. rewrite Nat.add_0_r in F. cbn [nth_error] in F. symmetry in F.
      assert (Ix' : forall k, nth_error t k = nth_error fs (S i + k)).
      { intro k. specialize (Ix (S k)). cbn [nth_error] in Ix. rewrite Ix. f_equal. lia. }
      assert (FS : forall o, existsb (rp_member_of o) (firstn (S i) fs) = existsb (rp_member_of o) (firstn i fs) || rp_member_of o fd).
      { intro o. rewrite (firstn_S_nth _ _ _ F), existsb_app. cbn [existsb]. rewrite orb_false_r. reflexivity. }
      cbn [rp_indexed map concat range_from fst snd].
      destruct (f_shape fd) as [|pk|o|kk] eqn:Sh.
      1,2,4:
        (assert (NM : forall o, f_shape fd <> Member o) by (intros o X; congruence);
         assert (MF : forall o, rp_member_of o fd = false) by (intro o; unfold rp_member_of; rewrite Sh; reflexivity);
         destruct (field_stmt i fd F NM) as [s [Es Cs]];
         assert (H' : contig_from None seen t = true) by (cbn [contig_from] in H; rewrite Sh in H; exact H);
         destruct (IH (S i) None seen Ix' H') as [cs [A B]];
           [intro o; rewrite FS, MF, orb_false_r; apply Seen|discriminate|];
         exists ((if has_field ob i fd then [(i, range_field ob own i fd)] else []) :: cs); split;
           [rewrite Es; cbn [app]; constructor; [exact Cs|exact A]|];
         rewrite B; cbn [app concat];
         assert (P0 : match prev with Some o => pendc o i | None => [] end = []) by
           (destruct prev as [o|]; [|reflexivity]; apply (pend_nil fd t (Some o) seen o i Ix H (Prev o eq_refl) (MF o)));
         rewrite P0; reflexivity).
      (* a member of oneof o *)
      assert (MO : forall o', rp_member_of o' fd = Nat.eqb o o') by (intro o'; unfold rp_member_of; rewrite Sh; reflexivity).
      cbn [contig_from] in H. rewrite Sh in H.
      destruct (match prev with Some o' => Nat.eqb o' o | None => false end) eqn:T1.
      + (* inside the group *)
        destruct prev as [o'|]; [|discriminate]. apply Nat.eqb_eq in T1. subst o'.
        pose proof (Prev o eq_refl) as So.
        destruct (IH (S i) (Some o) seen Ix' H) as [cs [A B]].
        { intro o'. rewrite FS, MO, <- Seen. destruct (Nat.eqb o o') eqn:E; [|rewrite orb_false_r; reflexivity].
          apply Nat.eqb_eq in E. subst o'. rewrite So. reflexivity. }
        { intros o' X. inversion X; subst. exact So. }
        exists cs. split.
        * unfold canon_range_field at 1. rewrite Sh, <- Seen, So. cbn [app]. exact A.
        * rewrite B, (pend_step o i fd F Sh), <- app_assoc. reflexivity.
      + (* the first member of the group *)
        destruct (existsb (Nat.eqb o) seen) eqn:T2; [discriminate|].
        destruct (IH (S i) (Some o) (o :: seen) Ix' H) as [cs [A B]].
        { intro o'. rewrite FS, MO, <- Seen. cbn [existsb]. rewrite orb_comm, (Nat.eqb_sym o' o). reflexivity. }
        { intros o' X. inversion X; subst. cbn [existsb]. rewrite Nat.eqb_refl. reflexivity. }
        exists (pendc o 0 :: cs). split.
        * unfold canon_range_field at 1. rewrite Sh, <- Seen, T2. cbn [app]. constructor; [apply oneof_stmt|exact A].
        * rewrite B. cbn [concat]. rewrite (pendc_first o i) by (rewrite <- Seen; exact T2).
          rewrite (pend_step o i fd F Sh), <- app_assoc.
          assert (P0 : match prev with Some o' => pendc o' i | None => [] end = []).
          { destruct prev as [o'|]; [|reflexivity].
            assert (N : rp_member_of o' fd = false).
            { rewrite MO. apply Nat.eqb_neq. intros ->. rewrite Nat.eqb_refl in T1. discriminate. }
            apply (pend_nil fd t (Some o') seen o' i Ix); [|exact (Prev o' eq_refl)|exact N].
            cbn [contig_from]. rewrite Sh, T1, T2. exact H. }
          rewrite P0. reflexivity.
  Qed.
End RangeObj.

Lemma contig_of_schema sch mid md : rp_contigb sch = true -> get_msg sch mid = Some md -> contig_from None [] (m_fields md) = true.
Proof.
  unfold rp_contigb, get_msg. intros H G. rewrite forallb_forall in H. apply H. eapply nth_error_In; eauto.
Qed.

Lemma range_stop_prog_correct : range_stop_prog_stmt.
Proof.
  intros sch h mid p f Hwf Hok Hc. unfold run_range, canon_range, rp_fields. cbn [rr_guard rr_body step].
  destruct p as [id|]; cbn [xst_of].
  2:{ cbn [recv_obj]. rewrite range_from_new. reflexivity. }
  destruct (recv_obj sch h mid (Some id)) as [ob|] eqn:R; [|reflexivity].
  destruct (get_msg sch mid) as [md|] eqn:G.
  2:{ rewrite (fields_of_none _ _ G). reflexivity. }
  rewrite (fields_of_md _ _ _ G).
  pose proof (recv_ok_of _ _ _ _ _ _ Hok R G) as RO.
  destruct (range_main md id ob RO (m_fields md) 0 None []) as [cs [A B]].
  - intro k. reflexivity.
  - eapply contig_of_schema; eauto.
  - intro o. reflexivity.
  - discriminate.
  - cbv zeta in A, B. cbn [app] in B. rewrite B, (eval_range_calls f _ _ _ _ cs [] A). reflexivity.
Qed.

Lemma range_prog_correct : range_prog_stmt.
Proof.
  intros sch h r Hwf Hok Hc. destruct r as [|mid p| | | | | | | | | |]; try exact I.
  rewrite (range_stop_prog_correct sch h mid p (fun _ _ => true) Hwf Hok Hc). f_equal.
  destruct (step sch h (ORange (PMsg mid p))) as [h' v]. destruct v; try reflexivity. rewrite cut_calls_all. reflexivity.
Qed.

(* ================================================================== all eight at once *)
Lemma reflect_prog_correct : reflect_prog_correct_stmt.
Proof.
  intros sch h o Hwf Hok Hc Harg.
  destruct o; try reflexivity; unfold rp_step;
    (destruct r as [|mid p| | | | | | | | | |]; try reflexivity);
    cbn [canon_progs p_has p_clear p_get p_set p_mut p_newf p_which p_range].
  - exact (has_prog_correct sch h (PMsg mid p) f Hwf Hok).
  - exact (get_prog_correct sch h (PMsg mid p) f Hwf Hok).
  - exact (set_prog_correct sch h (PMsg mid p) f v Hwf Hok Harg).
  - exact (clear_prog_correct sch h (PMsg mid p) f Hwf Hok).
  - exact (mutable_prog_correct sch h (PMsg mid p) f Hwf Hok).
  - exact (newfield_prog_correct sch h (PMsg mid p) f Hwf Hok).
  - exact (whichoneof_prog_correct sch h (PMsg mid p) j Hwf Hok).
  - exact (range_prog_correct sch h (PMsg mid p) Hwf Hok Hc).
Qed.

(* ================================================================== the invariant is kept by every step *)
Lemma cells_fitb_set_nth : forall fs cs i c, cells_fitb fs cs = true ->
  (forall fd, nth_error fs i = Some fd -> cell_fitsb fd c = true) -> cells_fitb fs (set_nth cs i c) = true.
Proof.
  induction fs as [|a fs IH]; intros cs i c H K; destruct cs as [|x cs]; cbn [cells_fitb set_nth] in *; try discriminate; [reflexivity|].
  apply andb_prop in H. destruct H as [H1 H2]. destruct i as [|i]; cbn [cells_fitb].
  - rewrite (K a eq_refl), H2. reflexivity.
  - rewrite H1, (IH cs i c H2); [reflexivity|]. intros fd N. apply K. exact N.
Qed.

Lemma cells_fitb_nth_r : forall fs cs i c, cells_fitb fs cs = true -> nth_error cs i = Some c ->
  exists fd, nth_error fs i = Some fd /\ cell_fitsb fd c = true.
Proof.
  induction fs as [|a fs IH]; intros cs i c H N; destruct cs as [|x cs]; cbn [cells_fitb] in H; try discriminate.
  - destruct i; discriminate.
  - apply andb_prop in H. destruct H as [H1 H2]. destruct i as [|i]; cbn [nth_error] in *.
    + inversion N; subst. eauto.
    + eapply IH; eauto.
Qed.

Lemma slots_fitb_set_nth : forall ss fs o0 j x, slots_fitb fs o0 ss = true -> slot_fitsb fs (o0 + j) x = true ->
  slots_fitb fs o0 (set_nth ss j x) = true.
Proof.
  induction ss as [|a ss IH]; intros fs o0 j x H K; cbn [set_nth]; [reflexivity|].
  cbn [slots_fitb] in H. apply andb_prop in H. destruct H as [H1 H2]. destruct j as [|j]; cbn [slots_fitb].
  - rewrite Nat.add_0_r in K. rewrite K, H2. reflexivity.
  - rewrite H1, (IH fs (S o0) j x H2); [reflexivity|]. rewrite Nat.add_succ_r in K. exact K.
Qed.

Lemma pte_fits t v e : pval_to_elem t v = Some e ->
  match t, e with TScalar _, EScalar _ | TMsg _, EPtr _ => true | _, _ => false end = true.
Proof.
  unfold pval_to_elem. destruct t as [k|m]; destruct v; try discriminate.
  - destruct (wt_scalar k v); [|discriminate]. intro H; inversion H; reflexivity.
  - destruct (Nat.eqb m mid); [|discriminate]. intro H; inversion H; reflexivity.
Qed.

Section Kept.
  Variable sch : schema.

  Definition hokP (h : heap) : Prop := forall id o, get_obj h id = Some o -> rp_obj_okb sch o = true.

  Lemma hokP_of h : rp_heap_okb sch h = true -> hokP h.
  Proof. intros H id o G. eapply heap_okb_get; eauto. Qed.
  Lemma hokP_to h : hokP h -> rp_heap_okb sch h = true.
  Proof.
    intro H. unfold rp_heap_okb. apply forallb_forall. intros e I. destruct e as [o| |]; try reflexivity.
    apply In_nth_error in I. destruct I as [id I]. apply (H id). unfold get_obj, hget. rewrite I. reflexivity.
  Qed.

  Lemma okb_set_cell o f c : rp_obj_okb sch o = true ->
    (forall fd, field_of sch (o_mid o) f = Some fd -> cell_fitsb fd c = true) -> rp_obj_okb sch (set_cell o f c) = true.
  Proof.
    unfold rp_obj_okb, field_of. cbn [set_cell o_mid o_cells o_oneofs]. destruct (get_msg sch (o_mid o)) as [md|]; [|reflexivity].
    intros H K. apply andb_prop in H. destruct H as [H H3]. apply andb_prop in H. destruct H as [H1 H2].
    rewrite H2, H3, (cells_fitb_set_nth _ _ _ _ H1 K). reflexivity.
  Qed.

  Lemma okb_cell_update o f c c' : rp_obj_okb sch o = true -> nth_error (o_cells o) f = Some c ->
    (forall fd, cell_fitsb fd c = true -> cell_fitsb fd c' = true) -> rp_obj_okb sch (set_cell o f c') = true.
  Proof.
    intros H N K. apply okb_set_cell; [exact H|]. intros fd F. apply K.
    unfold rp_obj_okb in H. unfold field_of in F. destruct (get_msg sch (o_mid o)) as [md|]; [|discriminate].
    apply andb_prop in H. destruct H as [H _]. apply andb_prop in H. destruct H as [H1 _].
    destruct (cells_fitb_nth_r _ _ _ _ H1 N) as [fd' [F' C']]. congruence.
  Qed.

  Lemma okb_set_oneof o j x : rp_obj_okb sch o = true ->
    (forall md, get_msg sch (o_mid o) = Some md -> slot_fitsb (m_fields md) j x = true) -> rp_obj_okb sch (set_oneof o j x) = true.
  Proof.
    unfold rp_obj_okb. cbn [set_oneof o_mid o_cells o_oneofs]. destruct (get_msg sch (o_mid o)) as [md|]; [|reflexivity].
    intros H K. apply andb_prop in H. destruct H as [H H3]. apply andb_prop in H. destruct H as [H1 H2].
    rewrite H1, set_nth_length, H2, (slots_fitb_set_nth _ _ 0 j x H3 (K md eq_refl)). reflexivity.
  Qed.

  Lemma okb_set_unk o u : rp_obj_okb sch o = true -> rp_obj_okb sch (set_unk o u) = true.
  Proof. unfold rp_obj_okb. cbn [set_unk o_mid o_cells o_oneofs]. auto. Qed.

  Lemma hokP_hset h id e : hokP h -> (forall o, e = HObj o -> rp_obj_okb sch o = true) -> hokP (hset h id e).
  Proof.
    intros H He id' o. unfold get_obj, hget, hset. destruct (nth_error (set_nth h id e) id') as [x|] eqn:E; [|discriminate].
    apply nth_error_set_nth_cases in E. destruct E as [->|E].
    - destruct e; try discriminate. intro X; inversion X; subst. apply He; reflexivity.
    - intro X. apply (H id' o). unfold get_obj, hget. rewrite E. exact X.
  Qed.

  Lemma hokP_app h e : hokP h -> (forall o, e = HObj o -> rp_obj_okb sch o = true) -> hokP (h ++ [e]).
  Proof.
    intros H He id o. unfold get_obj, hget. destruct (Nat.lt_ge_cases id (length h)) as [L|L].
    - rewrite nth_error_app1 by exact L. apply (H id o).
    - rewrite nth_error_app2 by exact L. destruct (id - length h) as [|n]; cbn [nth_error].
      + destruct e; try discriminate. intro X; inversion X; subst. apply He; reflexivity.
      + destruct n; discriminate.
  Qed.

  Lemma hokP_new h mid : hokP h -> hokP (h ++ [HObj (new_obj sch mid)]).
  Proof. intro H. apply hokP_app; [exact H|]. intros o E; inversion E; apply new_obj_okb. Qed.
  Lemma hokP_var h e : hokP h -> (forall o, e <> HObj o) -> hokP (h ++ [e]).
  Proof. intros H N. apply hokP_app; [exact H|]. intros o E. destruct (N o E). Qed.

  Lemma hokP_set_cell h h0 mid id ob f fd c :
    hokP h -> hokP h0 -> recv_obj sch h0 mid (Some id) = Some ob -> field_of sch mid f = Some fd -> cell_fitsb fd c = true ->
    hokP (hset h id (HObj (set_cell ob f c))).
  Proof.
    intros H H0 R F C. apply recv_obj_inv in R. destruct R as [G M]. apply hokP_hset; [exact H|].
    intros o E; inversion E; subst. apply okb_set_cell; [apply (H0 _ _ G)|]. intros fd' F'. congruence.
  Qed.

  Lemma hokP_set_oneof h h0 mid id ob j x :
    hokP h -> hokP h0 -> recv_obj sch h0 mid (Some id) = Some ob ->
    (forall md, get_msg sch mid = Some md -> slot_fitsb (m_fields md) j x = true) ->
    hokP (hset h id (HObj (set_oneof ob j x))).
  Proof.
    intros H H0 R K. apply recv_obj_inv in R. destruct R as [G M]. apply hokP_hset; [exact H|].
    intros o E; inversion E; subst. apply okb_set_oneof; [apply (H0 _ _ G)|exact K].
  Qed.

  Lemma hokP_set_unk h mid id ob u :
    hokP h -> recv_obj sch h mid (Some id) = Some ob -> hokP (hset h id (HObj (set_unk ob u))).
  Proof.
    intros H R. apply recv_obj_inv in R. destruct R as [G M]. apply hokP_hset; [exact H|].
    intros o E; inversion E; subst. apply okb_set_unk, (H _ _ G).
  Qed.

  Lemma hokP_same h mid id ob : hokP h -> recv_obj sch h mid (Some id) = Some ob -> hokP (hset h id (HObj ob)).
  Proof. intros H R. apply recv_obj_inv in R. destruct R as [G M]. rewrite (hset_same _ _ _ G). exact H. Qed.

  Lemma fitsb_list_any fd l l' : cell_fitsb fd (CList l) = true -> cell_fitsb fd (CList l') = true.
  Proof. unfold cell_fitsb. destruct (f_shape fd); destruct (f_ty fd); auto. Qed.
  Lemma fitsb_map_any fd m m' : cell_fitsb fd (CMap m) = true -> cell_fitsb fd (CMap m') = true.
  Proof. unfold cell_fitsb. destruct (f_shape fd); destruct (f_ty fd); auto. Qed.

  Lemma hokP_write_list h r l0 l : hokP h -> read_list h r = Some l0 -> hokP (write_list h r l).
  Proof.
    intros H R. destruct r as [o f|v|]; cbn [write_list]; [| |exact H].
    - destruct (read_list_field _ _ _ _ R) as [ob [G C]]. rewrite G. apply hokP_hset; [exact H|].
      intros o' E; inversion E; subst. eapply okb_cell_update; [apply (H _ _ G)|exact C|]. intros fd. apply fitsb_list_any.
    - apply hokP_hset; [exact H|]. intros o E; discriminate.
  Qed.
  Lemma hokP_write_map h r m0 m : hokP h -> read_map h r = Some m0 -> hokP (write_map h r m).
  Proof.
    intros H R. destruct r as [o f|v|]; cbn [write_map]; [| |exact H].
    - destruct (read_map_field _ _ _ _ R) as [ob [G C]]. rewrite G. apply hokP_hset; [exact H|].
      intros o' E; inversion E; subst. eapply okb_cell_update; [apply (H _ _ G)|exact C|]. intros fd. apply fitsb_map_any.
    - apply hokP_hset; [exact H|]. intros o E; discriminate.
  Qed.

  (* the wrapper stored by Set / Mutable of a member fits the slot of its oneof *)
  Lemma slot_fits_member mid f fd j e : field_of sch mid f = Some fd -> f_shape fd = Member j ->
    match f_ty fd, e with TScalar _, EScalar _ | TMsg _, EPtr _ => true | _, _ => false end = true ->
    forall md, get_msg sch mid = Some md -> slot_fitsb (m_fields md) j (Some (f, e)) = true.
  Proof.
    intros F Sh T md G. unfold field_of in F. rewrite G in F. cbn [slot_fitsb]. rewrite F. unfold rp_member_of.
    rewrite Sh, Nat.eqb_refl, T. reflexivity.
  Qed.

  Ltac kdm :=
    match goal with
    | |- context [match ?x with _ => _ end] => destruct x eqn:?
    | |- context [if ?x then _ else _] => destruct x eqn:?
    end.

  Ltac kfits :=
    unfold cell_fitsb;
    repeat match goal with
           | H : pval_to_elem (f_ty _) _ = Some (EScalar _) |- _ => destruct (pte_scalar _ _ _ H) as [? ?]; clear H
           | H : pval_to_elem (f_ty _) _ = Some (EPtr _) |- _ => destruct (pte_ptr _ _ _ H) as [? ?]; clear H
           end;
    repeat match goal with
           | H : f_shape _ = _ |- _ => rewrite H
           | H : f_ty _ = _ |- _ => rewrite H
           end;
    try reflexivity.

  Ltac kslot :=
    first
      [ intros; reflexivity
      | eapply slot_fits_member; [eassumption | eassumption | eapply pte_fits; eassumption]
      | eapply slot_fits_member; [eassumption | eassumption |
                                  match goal with H : f_ty _ = _ |- _ => rewrite H end; reflexivity] ].

  Ltac kbase H := first [exact H | apply hokP_new; exact H].

  Ltac kleaf H :=
    cbn [fst];
    first
      [ exact H
      | apply hokP_new; exact H
      | apply hokP_var; [exact H | intros ? ?; discriminate]
      | eapply hokP_same; [exact H | eassumption]
      | eapply hokP_set_unk; [exact H | eassumption]
      | eapply hokP_set_oneof; [kbase H | exact H | eassumption | kslot]
      | eapply hokP_set_cell; [kbase H | exact H | eassumption | eassumption | kfits]
      | eapply hokP_write_list; [kbase H | first [eassumption | apply read_list_app; eassumption]]
      | eapply hokP_write_map; [kbase H | first [eassumption | apply read_map_app; eassumption]] ].

  Lemma step_keeps_hokP : forall h o, hokP h -> hokP (fst (step sch h o)).
  Proof.
    intros h o H. destruct o; cbn [step]; unfold halloc; repeat kdm; kleaf H.
  Qed.
End Kept.

Lemma rp_heap_ok_kept : rp_heap_ok_kept_stmt.
Proof.
  intros sch h o Hwf Hok. apply hokP_to. apply step_keeps_hokP. apply hokP_of. exact Hok.
Qed.
