(* Proofs/RefDecodeEq.v — property C03: whenever the reference decoder (Model/RefDecode.v, strict mode) accepts a
   stream, the generated decoder (Model/Decode.v) accepts it with the same value; strict acceptance implies
   protobuf-go (lax) acceptance; decoding a concatenation is merging; bridge lemmas protowire <-> generated loops. *)
From CP Require Import Extra RefDecode BytesLemmas RuntimeProofs ValInd.
From Coq Require Import Lia ZifyN ZifyNat ZifyBool.
Local Open Scope N_scope.

(* ================================================================== part 1: varints *)
Lemma testbit_small a i : a < 2 ^ i -> N.testbit a i = false.
Proof.
  intro H. destruct (N.eq_dec a 0) as [->|Hne]; [apply N.bits_0|].
  apply N.bits_above_log2. apply N.log2_lt_pow2; lia.
Qed.

Lemma lor_add_disjoint acc x shift : acc < 2 ^ shift -> N.lor acc (N.shiftl x shift) = acc + x * 2 ^ shift.
Proof.
  intro H. rewrite <- N.shiftl_mul_pow2.
  assert (Hl : N.land acc (N.shiftl x shift) = 0).
  { apply N.bits_inj. intro i. rewrite N.land_spec, N.bits_0.
    destruct (N.ltb_spec i shift) as [Hlt|Hge].
    - rewrite N.shiftl_spec_low by exact Hlt. apply andb_false_r.
    - rewrite testbit_small; [reflexivity|].
      eapply N.lt_le_trans; [exact H|]. apply N.pow_le_mono_r; lia. }
  rewrite <- N.lxor_lor by exact Hl. rewrite N.add_nocarry_lxor by exact Hl. reflexivity.
Qed.

Lemma land_127_cont v : 128 <= v -> v < 256 -> N.land v 127 = v - 128.
Proof.
  intros H1 H2. change 127 with (N.ones 7). rewrite N.land_ones. change (2 ^ 7) with 128.
  symmetry. apply (N.mod_unique v 128 1); lia.
Qed.

Lemma pow2_split a b : 2 ^ (a + b) = 2 ^ a * 2 ^ b.
Proof. apply N.pow_add_r. Qed.

(* the generic bridge: same bytes, same value, works on any extension of the buffer *)
Lemma pw_dec_aux f : forall shift acc bs x r,
  acc < 2 ^ shift -> pw_varint_aux f shift acc bs = Some (x, r) ->
  (exists pre, bs = pre ++ r /\ (1 <= length pre <= f)%nat) /\
  x < 2 ^ (shift + 7 * N.of_nat f - 6) /\
  forall n tail, dec_varint_aux f shift acc n (bs ++ tail) = Some (x, (n + (length bs - length r))%nat, r ++ tail).
Proof.
  induction f as [|f IH]; intros shift acc bs x r Hacc H; [discriminate|].
  cbn [pw_varint_aux] in H. destruct bs as [|b t]; [discriminate|].
  pose proof (b2n_lt b) as Hb.
  cbv zeta in H. destruct (N.ltb_spec (b2n b) 128) as [Hs|Hc].
  - destruct (Nat.eqb f 0 && (1 <? b2n b))%bool eqn:Elast; [discriminate|].
    injection H as <- <-. split; [|split].
    + exists [b]. cbn. split; [reflexivity|lia].
    + destruct f as [|f'].
      * cbn [Nat.eqb andb] in Elast. apply N.ltb_ge in Elast.
        replace (shift + 7 * N.of_nat 1 - 6) with (shift + 1) by lia.
        rewrite pow2_split. change (2 ^ 1) with 2. nia.
      * replace (shift + 7 * N.of_nat (S (S f')) - 6) with (shift + (8 + 7 * N.of_nat f')) by lia.
        rewrite pow2_split. assert (2 ^ 8 <= 2 ^ (8 + 7 * N.of_nat f')) by (apply N.pow_le_mono_r; lia).
        change (2 ^ 8) with 256 in *. nia.
    + intros n tail. cbn [app dec_varint_aux length].
      destruct (N.ltb_spec (b2n b) 128) as [_|?]; [|lia].
      rewrite land_127_small by exact Hs. rewrite lor_add_disjoint by exact Hacc.
      f_equal. f_equal. f_equal. lia.
  - assert (Hacc' : acc + (b2n b - 128) * 2 ^ shift < 2 ^ (shift + 7)).
    { rewrite pow2_split. change (2 ^ 7) with 128. nia. }
    apply IH in H; [|exact Hacc']. destruct H as ((pre & Hpre & Hlen) & Hx & Hdec). split; [|split].
    + exists (b :: pre). cbn. rewrite Hpre. split; [reflexivity|lia].
    + replace (shift + 7 * N.of_nat (S f) - 6) with (shift + 7 + 7 * N.of_nat f - 6) by lia. exact Hx.
    + intros n tail. cbn [app dec_varint_aux length].
      destruct (N.ltb_spec (b2n b) 128) as [?|_]; [lia|].
      rewrite land_127_cont by lia. rewrite lor_add_disjoint by exact Hacc.
      rewrite Hdec. f_equal. f_equal. f_equal.
      assert (length r <= length t)%nat by (rewrite Hpre, app_length; lia). lia.
Qed.

Lemma pw_varint_spec bs x r : pw_varint bs = Some (x, r) ->
  (exists pre, bs = pre ++ r /\ (1 <= length pre <= 10)%nat) /\ x < two64 /\
  forall tail, dec_varint (bs ++ tail) = Some (x, (length bs - length r)%nat, r ++ tail).
Proof.
  intro H. unfold pw_varint in H. apply pw_dec_aux in H; [|cbn; lia].
  destruct H as (Hpre & Hx & Hdec). split; [exact Hpre|]. split; [exact Hx|].
  intro tail. unfold dec_varint. rewrite Hdec. reflexivity.
Qed.

Lemma pw_varint_dec_varint bs x r : pw_varint bs = Some (x, r) -> exists n, dec_varint bs = Some (x, n, r) /\ x < two64 /\ length bs = (n + length r)%nat.
Proof.
  intro H. apply pw_varint_spec in H. destruct H as ((pre & Hpre & Hlen) & Hx & Hdec).
  exists (length bs - length r)%nat. specialize (Hdec []). rewrite !app_nil_r in Hdec.
  split; [exact Hdec|]. split; [exact Hx|]. rewrite Hpre, app_length. lia.
Qed.

(* pw_varint on an extension *)
Lemma pw_varint_aux_ext f : forall shift acc bs x r tail,
  pw_varint_aux f shift acc bs = Some (x, r) -> pw_varint_aux f shift acc (bs ++ tail) = Some (x, r ++ tail).
Proof.
  induction f as [|f IH]; intros shift acc bs x r tail H; [discriminate|].
  cbn [pw_varint_aux] in *. destruct bs as [|b t]; [discriminate|]. cbn [app]. cbv zeta in *.
  destruct (b2n b <? 128).
  - destruct (Nat.eqb f 0 && (1 <? b2n b))%bool; [discriminate|]. injection H as <- <-. reflexivity.
  - apply IH. exact H.
Qed.
Lemma pw_varint_ext bs x r tail : pw_varint bs = Some (x, r) -> pw_varint (bs ++ tail) = Some (x, r ++ tail).
Proof. apply pw_varint_aux_ext. Qed.

(* Skip's varint scanner on a pw-accepted varint *)
Lemma pw_skipv_aux f : forall shift acc bs x r n tail,
  pw_varint_aux f shift acc bs = Some (x, r) ->
  skip_varint_aux f n (bs ++ tail) = Some ((n + (length bs - length r))%nat, r ++ tail) /\ (length r < length bs)%nat.
Proof.
  induction f as [|f IH]; intros shift acc bs x r n tail H; [discriminate|].
  cbn [pw_varint_aux] in H. destruct bs as [|b t]; [discriminate|]. cbn [app skip_varint_aux length]. cbv zeta in H.
  destruct (b2n b <? 128).
  - destruct (Nat.eqb f 0 && (1 <? b2n b))%bool; [discriminate|]. injection H as <- <-.
    split; [f_equal; f_equal; lia|lia].
  - eapply IH in H. destruct H as [H Hl]. rewrite H. split; [f_equal; f_equal; lia|lia].
Qed.
Lemma pw_skip_varint bs x r tail : pw_varint bs = Some (x, r) ->
  skip_varint (bs ++ tail) = Some ((length bs - length r)%nat, r ++ tail).
Proof. intro H. unfold skip_varint. eapply pw_skipv_aux in H. destruct H as [H _]. rewrite H. reflexivity. Qed.

Lemma pw_varint_suffix bs x r : pw_varint bs = Some (x, r) -> exists pre, bs = pre ++ r /\ (1 <= length pre <= 10)%nat.
Proof. intro H. apply pw_varint_spec in H. tauto. Qed.

(* ================================================================== part 2: take / bytes / scalars *)
Lemma firstn_app_le {A} n (l t : list A) : (n <= length l)%nat -> firstn n (l ++ t) = firstn n l.
Proof. intro H. rewrite firstn_app. replace (n - length l)%nat with 0%nat by lia. cbn. apply app_nil_r. Qed.
Lemma skipn_app_le {A} n (l t : list A) : (n <= length l)%nat -> skipn n (l ++ t) = skipn n l ++ t.
Proof. intro H. rewrite skipn_app. replace (n - length l)%nat with 0%nat by lia. reflexivity. Qed.

Lemma pw_take_inv n bs p r : pw_take n bs = Some (p, r) -> bs = p ++ r /\ length p = n.
Proof.
  unfold pw_take. destruct (Nat.ltb_spec (length bs) n) as [|Hle]; [discriminate|].
  intro H. injection H as <- <-. split; [symmetry; apply firstn_skipn|]. apply firstn_length_le. exact Hle.
Qed.
Lemma pw_take_app p r : pw_take (length p) (p ++ r) = Some (p, r).
Proof.
  unfold pw_take. rewrite app_length. destruct (Nat.ltb_spec (length p + length r) (length p)); [lia|].
  rewrite firstn_app, Nat.sub_diag, firstn_all. cbn. rewrite app_nil_r.
  rewrite skipn_app, Nat.sub_diag, skipn_all. reflexivity.
Qed.
Lemma take_fixed_app p r : take_fixed (length p) (p ++ r) = Some (dec_le p, r).
Proof.
  unfold take_fixed. rewrite app_length. destruct (Nat.ltb_spec (length p + length r) (length p)); [lia|].
  rewrite firstn_app, Nat.sub_diag, firstn_all. cbn. rewrite app_nil_r.
  rewrite skipn_app, Nat.sub_diag, skipn_all. reflexivity.
Qed.

Lemma pw_bytes_inv bs p r : pw_bytes bs = Some (p, r) ->
  pw_varint bs = Some (N.of_nat (length p), p ++ r).
Proof.
  unfold pw_bytes. destruct (pw_varint bs) as [[len rest]|]; [|discriminate].
  destruct (N.ltb_spec (N.of_nat (length rest)) len) as [|Hle]; [discriminate|].
  intro H. apply pw_take_inv in H. destruct H as [-> Hl]. rewrite Hl. f_equal. f_equal. lia.
Qed.
Lemma pw_bytes_of_varint bs p r : pw_varint bs = Some (N.of_nat (length p), p ++ r) -> pw_bytes bs = Some (p, r).
Proof.
  intro H. unfold pw_bytes. rewrite H. rewrite app_length.
  destruct (N.ltb_spec (N.of_nat (length p + length r)) (N.of_nat (length p))); [lia|].
  rewrite Nat2N.id. apply pw_take_app.
Qed.
Lemma pw_bytes_ext bs p r tail : pw_bytes bs = Some (p, r) -> pw_bytes (bs ++ tail) = Some (p, r ++ tail).
Proof.
  intro H. apply pw_bytes_inv in H. apply pw_bytes_of_varint. rewrite app_assoc. apply pw_varint_ext. exact H.
Qed.
Lemma pw_bytes_suffix bs p r : pw_bytes bs = Some (p, r) -> exists hdr, bs = hdr ++ p ++ r /\ (1 <= length hdr <= 10)%nat.
Proof. intro H. apply pw_bytes_inv in H. apply pw_varint_suffix in H. exact H. Qed.

Lemma zfirstn_app_exact {A} (a b : list A) : zfirstn (Z.of_nat (length a)) (a ++ b) = a.
Proof.
  unfold zfirstn. destruct a as [|x a']; [reflexivity|].
  destruct (Z.leb_spec (Z.of_nat (length (x :: a'))) 0) as [H|_]; [cbn in H; lia|].
  rewrite app_length.
  destruct (Z.leb_spec (Z.of_nat (length (x :: a') + length b)) (Z.of_nat (length (x :: a')))) as [H|H].
  - assert (length b = 0)%nat by lia. destruct b; [|discriminate]. apply app_nil_r.
  - rewrite Nat2Z.id. rewrite firstn_app, Nat.sub_diag, firstn_all, firstn_O. apply app_nil_r.
Qed.

Lemma take_len_app bs p r tail : pw_varint bs = Some (N.of_nat (length p), p ++ r) ->
  (Z.of_nat (length (bs ++ tail)) < Z.of_N two63)%Z ->
  take_len (bs ++ tail) = Some (p, r ++ tail).
Proof.
  intros H Hsmall. pose proof (pw_varint_suffix _ _ _ H) as (hdr & Hb & Hl).
  apply pw_varint_spec in H. destruct H as (_ & _ & Hdec).
  unfold take_len. rewrite Hdec. subst bs. rewrite !app_length in Hsmall.
  rewrite s64_small by (unfold two63 in *; lia).
  destruct (Z.ltb_spec (Z.of_N (N.of_nat (length p))) 0); [lia|].
  rewrite <- app_assoc, !app_length.
  destruct (Z.ltb_spec (Z.of_nat (length p + (length r + length tail))) (Z.of_N (N.of_nat (length p)))); [lia|].
  rewrite nat_N_Z, Nat2Z.id.
  rewrite firstn_app, Nat.sub_diag, firstn_all. cbn. rewrite app_nil_r.
  rewrite skipn_app, Nat.sub_diag, skipn_all. reflexivity.
Qed.
Lemma pw_bytes_take_len bs p r tail : pw_bytes bs = Some (p, r) ->
  (Z.of_nat (length (bs ++ tail)) < Z.of_N two63)%Z -> take_len (bs ++ tail) = Some (p, r ++ tail).
Proof. intros H. apply take_len_app. apply pw_bytes_inv. exact H. Qed.

(* scalars *)
Lemma kind_wt_cases k : kind_wt k = 0 \/ kind_wt k = 1 \/ kind_wt k = 2 \/ kind_wt k = 5.
Proof. destruct k; cbn; tauto. Qed.

Lemma ref_scalar_ok k wt bs v r : ref_scalar k wt bs = SOk v r ->
  wt = kind_wt k /\ (exists pre, bs = pre ++ r /\ (1 <= length pre)%nat) /\
  forall tail, (Z.of_nat (length (bs ++ tail)) < Z.of_N two63)%Z ->
     dec_scalar k (bs ++ tail) = Some (v, r ++ tail) /\ ref_scalar k wt (bs ++ tail) = SOk v (r ++ tail).
Proof.
  unfold ref_scalar. destruct (N.eqb_spec wt (kind_wt k)) as [->|]; [|discriminate]. cbn [negb].
  intro H. split; [reflexivity|].
  assert (Hfix : forall n, pw_take n bs <> None -> (1 <= n)%nat ->
     match pw_take n bs with Some (p, r0) => SOk (fixed_val k (dec_le p)) r0 | None => RefDecode.SErr end = SOk v r ->
     (exists pre : list byte, bs = pre ++ r /\ (1 <= length pre)%nat) /\
     (forall tail, match take_fixed n (bs ++ tail) with Some (n0, r0) => Some (fixed_val k n0, r0) | None => None end = Some (v, r ++ tail)
        /\ match pw_take n (bs ++ tail) with Some (p, r0) => SOk (fixed_val k (dec_le p)) r0 | None => RefDecode.SErr end = SOk v (r ++ tail))).
  { intros n _ Hn H0. destruct (pw_take n bs) as [[p r0]|] eqn:Et; [|discriminate].
    apply pw_take_inv in Et. destruct Et as [-> <-]. injection H0 as <- <-.
    split; [exists p; split; [reflexivity|exact Hn]|]. intro tail. rewrite <- app_assoc, take_fixed_app, pw_take_app. split; reflexivity. }
  assert (Hvar : match pw_varint bs with Some (x, r0) => SOk (varint_val k x) r0 | None => RefDecode.SErr end = SOk v r ->
     (exists pre : list byte, bs = pre ++ r /\ (1 <= length pre)%nat) /\
     (forall tail, match dec_varint (bs ++ tail) with Some (raw, _, r0) => Some (varint_val k raw, r0) | None => None end = Some (v, r ++ tail)
        /\ match pw_varint (bs ++ tail) with Some (x, r0) => SOk (varint_val k x) r0 | None => RefDecode.SErr end = SOk v (r ++ tail))).
  { intro H0. destruct (pw_varint bs) as [[x r0]|] eqn:Ev; [|discriminate]. injection H0 as <- <-.
    pose proof (pw_varint_suffix _ _ _ Ev) as (pre & Hp & Hl). split; [exists pre; split; [exact Hp|lia]|].
    intro tail. rewrite (pw_varint_ext _ _ _ tail Ev). apply pw_varint_spec in Ev. destruct Ev as (_ & _ & Hd). rewrite Hd. split; reflexivity. }
  assert (Hbytes : forall (chk : list byte -> bool),
     match pw_bytes bs with Some (p, r0) => if chk p then SOk (VBytes p) r0 else RefDecode.SErr | None => RefDecode.SErr end = SOk v r ->
     (exists pre : list byte, bs = pre ++ r /\ (1 <= length pre)%nat) /\
     (forall tail, (Z.of_nat (length (bs ++ tail)) < Z.of_N two63)%Z ->
        match take_len (bs ++ tail) with Some (p, r0) => Some (VBytes p, r0) | None => None end = Some (v, r ++ tail)
        /\ match pw_bytes (bs ++ tail) with Some (p, r0) => if chk p then SOk (VBytes p) r0 else RefDecode.SErr | None => RefDecode.SErr end = SOk v (r ++ tail))).
  { intros chk H0. destruct (pw_bytes bs) as [[p r0]|] eqn:Eb; [|discriminate].
    destruct (chk p) eqn:Ec; [|discriminate]. injection H0 as <- <-.
    pose proof (pw_bytes_suffix _ _ _ Eb) as (hdr & Hp & Hl).
    split; [exists (hdr ++ p); split; [rewrite <- app_assoc; exact Hp|rewrite app_length; lia]|].
    intros tail Hsm. rewrite (pw_bytes_ext _ _ _ tail Eb), Ec. rewrite (pw_bytes_take_len _ _ _ tail Eb Hsm). split; reflexivity. }
  destruct k; cbn [dec_scalar];
    try (apply Hvar in H; destruct H as [Hp Hd]; split; [exact Hp|]; intros tail _; apply Hd);
    try (apply Hfix in H; [destruct H as [Hp Hd]; split; [exact Hp|]; intros tail _; apply Hd
                          | destruct (pw_take _ bs); [discriminate|discriminate] | lia]).
  - apply (Hbytes utf8_valid) in H. exact H.
  - apply (Hbytes (fun _ => true)) in H. exact H.
Qed.

(* ================================================================== part 3: pw_skip_value vs runtime Skip *)
Section PwGroup.
Variable sv : N -> N -> list byte -> option (list byte).
Variable num : N.
Fixpoint pw_group (g : nat) (bs : list byte) : option (list byte) :=
  match g with
  | O => None
  | S g' =>
    match pw_varint bs with
    | None => None
    | Some (x, r) =>
      let num2 := x / 8 in
      let wt2 := x mod 8 in
      if (1 <=? num2) && (num2 <? 2147483648) then
        if wt2 =? 4 then (if num2 =? num then Some r else None)
        else match sv num2 wt2 r with
             | Some r' => pw_group g' r'
             | None => None
             end
      else None
    end
  end.
End PwGroup.

Lemma pw_skip_value_S f num wt bs : pw_skip_value (S f) num wt bs =
    if wt =? 0 then match pw_varint bs with Some (_, r) => Some r | None => None end
    else if wt =? 1 then match pw_take 8 bs with Some (_, r) => Some r | None => None end
    else if wt =? 5 then match pw_take 4 bs with Some (_, r) => Some r | None => None end
    else if wt =? 2 then match pw_bytes bs with Some (_, r) => Some r | None => None end
    else if wt =? 3 then pw_group (pw_skip_value f) num (S (length bs)) bs else None.
Proof. reflexivity. Qed.

Lemma land7 x : x < two64 -> N.land (u64 x) 7 = x mod 8.
Proof. intro H. unfold u64. rewrite N.mod_small by exact H. change 7 with (N.ones 3). apply N.land_ones. Qed.

Definition skip_body (x : N) (rest1 : list byte) (idx1 : Z) (depth : N) : step_res :=
    let wt := x mod 8 in
    if wt =? 0 then
      match skip_varint rest1 with
      | None => Runtime.SErr
      | Some (n2, rest2) => SNext rest2 (idx1 + Z.of_nat n2)%Z depth
      end
    else if wt =? 1 then SNext (zskipn 8 rest1) (idx1 + 8)%Z depth
    else if wt =? 2 then
      match dec_varint rest1 with
      | None => Runtime.SErr
      | Some (raw, n2, rest2) =>
        let len := s64 raw in
        if (len <? 0)%Z then Runtime.SErr
        else SNext (zskipn len rest2) (wrap64 (idx1 + Z.of_nat n2 + len)) depth
      end
    else if wt =? 3 then SNext rest1 idx1 (depth + 1)
    else if wt =? 4 then (if depth =? 0 then Runtime.SErr else SNext rest1 idx1 (depth - 1))
    else if wt =? 5 then SNext (zskipn 4 rest1) (idx1 + 4)%Z depth
    else Runtime.SErr.

Lemma skip_step_pw pre x r tail idx d : pw_varint (pre ++ r) = Some (x, r) -> (1 <= length pre)%nat ->
  skip_step ((pre ++ r) ++ tail) idx d = skip_body x (r ++ tail) (idx + Z.of_nat (length pre))%Z d.
Proof.
  intros H Hl. apply pw_varint_spec in H. destruct H as (_ & Hx & Hd).
  unfold skip_step. rewrite Hd. cbv zeta. rewrite land7 by exact Hx.
  rewrite app_length. replace (length pre + length r - length r)%nat with (length pre) by lia. reflexivity.
Qed.

(* what Skip's loop does on a pw-delimited record: [n] iterations, then continue (or stop at depth 0) *)
Definition rec_adv (bs r' : list byte) : Prop :=
  exists pre n, bs = pre ++ r' /\ (1 <= n <= length pre)%nat /\
   forall tail idx d k, (0 <= idx)%Z -> (idx + Z.of_nat (length (bs ++ tail)) < Z.of_N two63)%Z ->
     skip_loop (n + k) (bs ++ tail) idx d =
       if d =? 0 then Ok (idx + Z.of_nat (length pre))%Z else skip_loop k (r' ++ tail) (idx + Z.of_nat (length pre))%Z d.

Definition grp_adv (bs r' : list byte) : Prop :=
  exists pre n, bs = pre ++ r' /\ (1 <= n <= length pre)%nat /\
   forall tail idx d k, (0 <= idx)%Z -> (idx + Z.of_nat (length (bs ++ tail)) < Z.of_N two63)%Z -> 0 < d ->
     skip_loop (n + k) (bs ++ tail) idx d =
       if d - 1 =? 0 then Ok (idx + Z.of_nat (length pre))%Z else skip_loop k (r' ++ tail) (idx + Z.of_nat (length pre))%Z (d - 1).

Lemma app_nonempty {A} (a b : list A) : (1 <= length a)%nat -> a ++ b <> [].
Proof. destruct a; cbn; [lia|discriminate]. Qed.

Lemma skip_loop_S' f pre r tail idx depth r1 i d :
  (1 <= length pre)%nat -> skip_step ((pre ++ r) ++ tail) idx depth = SNext r1 i d -> (0 <= i)%Z ->
  skip_loop (S f) ((pre ++ r) ++ tail) idx depth = if d =? 0 then Ok i else skip_loop f r1 i d.
Proof.
  intros Hl Hs Hi. apply skip_loop_S; [|exact Hs|exact Hi]. apply app_nonempty. rewrite app_length. lia.
Qed.

Lemma grp_adv_of sv :
  (forall num wt r r' bs x, sv num wt r = Some r' -> pw_varint bs = Some (x, r) -> wt = x mod 8 -> rec_adv bs r') ->
  forall g num bs r', pw_group sv num g bs = Some r' -> grp_adv bs r'.
Proof.
  intros Hsv. induction g as [|g IH]; intros num bs r' H; [discriminate|].
  cbn [pw_group] in H. destruct (pw_varint bs) as [[x r]|] eqn:Ev; [|discriminate]. cbv zeta in H.
  destruct ((1 <=? x / 8) && (x / 8 <? 2147483648))%bool; [|discriminate].
  destruct (N.eqb_spec (x mod 8) 4) as [E4|N4].
  - destruct (x / 8 =? num); [|discriminate]. injection H as <-.
    pose proof (pw_varint_suffix _ _ _ Ev) as (pre & Hb & Hl). subst bs.
    exists pre, 1%nat. split; [reflexivity|]. split; [lia|].
    intros tail idx d k Hidx Hsm Hd. cbn [Nat.add].
    assert (Hl1 : (1 <= length pre)%nat) by lia. pose proof (skip_step_pw pre x r tail idx d Ev Hl1) as Hs.
    unfold skip_body in Hs. cbv zeta in Hs. rewrite E4 in Hs. cbn [N.eqb Pos.eqb] in Hs.
    destruct (N.eqb_spec d 0) as [?|_]; [lia|].
    rewrite (skip_loop_S' _ _ _ _ _ _ _ _ _ Hl1 Hs) by lia. reflexivity.
  - destruct (sv (x / 8) (x mod 8) r) as [r1|] eqn:Es; [|discriminate].
    pose proof (Hsv _ _ _ _ _ _ Es Ev eq_refl) as (pre1 & n1 & Hb1 & Hn1 & Ha1).
    apply IH in H. destruct H as (pre2 & n2 & Hb2 & Hn2 & Ha2).
    exists (pre1 ++ pre2), (n1 + n2)%nat. split; [rewrite Hb1, Hb2, app_assoc; reflexivity|].
    split; [rewrite app_length; lia|].
    intros tail idx d k Hidx Hsm Hd. rewrite <- Nat.add_assoc. rewrite Ha1 by assumption.
    destruct (N.eqb_spec d 0) as [?|_]; [lia|].
    assert (Hlen : length (bs ++ tail) = (length pre1 + length (r1 ++ tail))%nat) by (rewrite Hb1, !app_length; lia).
    rewrite Ha2 by lia. rewrite app_length. rewrite Nat2Z.inj_add, Z.add_assoc. reflexivity.
Qed.

Lemma rec_adv_of f : forall num bs x r r',
  pw_varint bs = Some (x, r) -> pw_skip_value f num (x mod 8) r = Some r' -> rec_adv bs r'.
Proof.
  induction f as [|f IH]; intros num bs x r r' Ev H; [discriminate|].
  rewrite pw_skip_value_S in H.
  pose proof (pw_varint_suffix _ _ _ Ev) as (pre & Hb & Hl). subst bs.
  destruct (N.eqb_spec (x mod 8) 0) as [E0|N0].
  { destruct (pw_varint r) as [[y r0]|] eqn:Ev2; [|discriminate]. injection H as ->.
    pose proof (pw_varint_suffix _ _ _ Ev2) as (pre2 & Hb2 & Hl2).
    exists (pre ++ pre2), 1%nat. split; [rewrite Hb2, app_assoc; reflexivity|]. split; [rewrite app_length; lia|].
    intros tail idx d k Hidx Hsm. cbn [Nat.add].
    assert (Hl1 : (1 <= length pre)%nat) by lia. pose proof (skip_step_pw pre x r tail idx d Ev Hl1) as Hs.
    unfold skip_body in Hs. cbv zeta in Hs. rewrite E0 in Hs. cbn [N.eqb] in Hs.
    rewrite (pw_skip_varint _ _ _ tail Ev2) in Hs.
    rewrite (skip_loop_S' _ _ _ _ _ _ _ _ _ Hl1 Hs) by lia.
    rewrite Hb2, !app_length. replace (length pre2 + length r' - length r')%nat with (length pre2) by lia.
    rewrite Nat2Z.inj_add, Z.add_assoc. reflexivity. }
  assert (Hfix : forall n : nat, (x mod 8 = 1 /\ n = 8%nat) \/ (x mod 8 = 5 /\ n = 4%nat) ->
            match pw_take n r with Some (_, r0) => Some r0 | None => None end = Some r' -> rec_adv (pre ++ r) r').
  { intros n Hn H0. destruct (pw_take n r) as [[p r0]|] eqn:Et; [|discriminate]. injection H0 as ->.
    apply pw_take_inv in Et. destruct Et as [Hb2 Hlp].
    exists (pre ++ p), 1%nat. split; [rewrite Hb2, app_assoc; reflexivity|]. split; [rewrite app_length; lia|].
    intros tail idx d k Hidx Hsm. cbn [Nat.add].
    assert (Hl1 : (1 <= length pre)%nat) by lia. pose proof (skip_step_pw pre x r tail idx d Ev Hl1) as Hs.
    unfold skip_body in Hs. cbv zeta in Hs.
    assert (Hz : zskipn (Z.of_nat n) (r ++ tail) = r' ++ tail).
    { rewrite Hb2, <- app_assoc, <- Hlp. apply zskipn_app_exact. }
    destruct Hn as [[E ->]|[E ->]]; rewrite E in Hs; cbn [N.eqb Pos.eqb] in Hs;
      change 8%Z with (Z.of_nat 8) in Hs; change 4%Z with (Z.of_nat 4) in Hs; rewrite Hz in Hs;
      rewrite (skip_loop_S' _ _ _ _ _ _ _ _ _ Hl1 Hs) by lia;
      rewrite app_length, Hlp, Nat2Z.inj_add, Z.add_assoc; reflexivity. }
  destruct (N.eqb_spec (x mod 8) 1) as [E1|N1]; [apply (Hfix 8%nat); [tauto|exact H]|].
  destruct (N.eqb_spec (x mod 8) 5) as [E5|N5]; [apply (Hfix 4%nat); [tauto|exact H]|].
  clear Hfix.
  destruct (N.eqb_spec (x mod 8) 2) as [E2|N2].
  { destruct (pw_bytes r) as [[p r0]|] eqn:Eb; [|discriminate]. injection H as ->.
    apply pw_bytes_inv in Eb. pose proof (pw_varint_suffix _ _ _ Eb) as (hdr & Hb2 & Hl2).
    exists (pre ++ hdr ++ p), 1%nat. split; [rewrite Hb2, <- !app_assoc; reflexivity|]. split; [rewrite !app_length; lia|].
    intros tail idx d k Hidx Hsm. cbn [Nat.add].
    assert (Hl1 : (1 <= length pre)%nat) by lia. pose proof (skip_step_pw pre x r tail idx d Ev Hl1) as Hs.
    unfold skip_body in Hs. cbv zeta in Hs. rewrite E2 in Hs. cbn [N.eqb Pos.eqb] in Hs.
    apply pw_varint_spec in Eb. destruct Eb as (_ & _ & Hd2). rewrite Hd2 in Hs.
    rewrite Hb2, !app_length in Hsm.
    rewrite s64_small in Hs by (unfold two63 in *; lia).
    destruct (Z.ltb_spec (Z.of_N (N.of_nat (length p))) 0) as [?|_]; [lia|].
    rewrite nat_N_Z in Hs. rewrite <- (app_assoc p r' tail), zskipn_app_exact in Hs.
    assert (Hlr : (length r - length (p ++ r') = length hdr)%nat) by (rewrite Hb2, !app_length; lia).
    rewrite Hlr in Hs.
    rewrite wrap64_small in Hs by (unfold two63 in *; lia).
    rewrite (skip_loop_S' _ _ _ _ _ _ _ _ _ Hl1 Hs) by lia.
    rewrite !app_length, !Nat2Z.inj_add, !Z.add_assoc. reflexivity. }
  destruct (N.eqb_spec (x mod 8) 3) as [E3|N3]; [|discriminate].
  apply (grp_adv_of (pw_skip_value f)) in H.
  2:{ intros num0 wt r1 r2 bs0 x0 Hsv Hv0 ->. eapply IH; eassumption. }
  destruct H as (pre2 & n2 & Hb2 & Hn2 & Ha2).
  exists (pre ++ pre2), (S n2). split; [rewrite Hb2, app_assoc; reflexivity|]. split; [rewrite app_length; lia|].
  intros tail idx d k Hidx Hsm. cbn [Nat.add].
  assert (Hl1 : (1 <= length pre)%nat) by lia. pose proof (skip_step_pw pre x r tail idx d Ev Hl1) as Hs.
  unfold skip_body in Hs. cbv zeta in Hs. rewrite E3 in Hs. cbn [N.eqb Pos.eqb] in Hs.
  rewrite (skip_loop_S' _ _ _ _ _ _ _ _ _ Hl1 Hs) by lia.
  destruct (N.eqb_spec (d + 1) 0) as [?|_]; [lia|].
  rewrite !app_length in Hsm.
  rewrite Ha2 by (rewrite ?app_length; lia).
  replace (d + 1 - 1) with d by lia. rewrite app_length, Nat2Z.inj_add, Z.add_assoc. reflexivity.
Qed.

Lemma pw_skip_value_len : forall f num wt r0 r', pw_skip_value f num wt r0 = Some r' -> (length r' <= length r0)%nat.
Proof.
  induction f as [|f IH]; intros num wt r0 r' H; [discriminate|]. rewrite pw_skip_value_S in H.
  destruct (wt =? 0).
  { destruct (pw_varint r0) as [[y q]|] eqn:E; [|discriminate]. injection H as ->.
    apply pw_varint_suffix in E. destruct E as (p & -> & _). rewrite app_length. lia. }
  destruct (wt =? 1).
  { destruct (pw_take 8 r0) as [[y q]|] eqn:E; [|discriminate]. injection H as ->.
    apply pw_take_inv in E. destruct E as (-> & _). rewrite app_length. lia. }
  destruct (wt =? 5).
  { destruct (pw_take 4 r0) as [[y q]|] eqn:E; [|discriminate]. injection H as ->.
    apply pw_take_inv in E. destruct E as (-> & _). rewrite app_length. lia. }
  destruct (wt =? 2).
  { destruct (pw_bytes r0) as [[y q]|] eqn:E; [|discriminate]. injection H as ->.
    apply pw_bytes_suffix in E. destruct E as (p & -> & _). rewrite !app_length. lia. }
  destruct (wt =? 3); [|discriminate].
  revert H. generalize (S (length r0)). intros g. revert r0. induction g as [|g IHg]; intros r0 H; [discriminate|].
  cbn [pw_group] in H. destruct (pw_varint r0) as [[y q]|] eqn:E; [|discriminate]. cbv zeta in H.
  apply pw_varint_suffix in E. destruct E as (p & -> & _). rewrite app_length.
  destruct ((1 <=? y / 8) && (y / 8 <? 2147483648))%bool; [|discriminate].
  destruct (y mod 8 =? 4).
  - destruct (y / 8 =? num); [|discriminate]. injection H as ->. lia.
  - destruct (pw_skip_value f (y / 8) (y mod 8) q) as [q'|] eqn:E2; [|discriminate].
    apply IH in E2. apply IHg in H. lia.
Qed.

(* the exported bridge lemma: the record [bs = tag ++ value] delimited by protowire is what runtime.Skip skips,
   also when more bytes ([tail]) follow *)
Lemma pw_skip_value_Skip_ext bs num wt r fuel r' tail :
  pw_tag bs = Some (num, wt, r) -> pw_skip_value fuel num wt r = Some r' ->
  (Z.of_nat (length (bs ++ tail)) < Z.of_N two63)%Z ->
  exists pre, bs = pre ++ r' /\ (1 <= length pre)%nat /\ (length r' <= length r)%nat /\
              Skip (bs ++ tail) = Ok (Z.of_nat (length pre)) /\
              Z.of_nat (length pre) = Z.of_nat (length bs - length r').
Proof.
  unfold pw_tag. destruct (pw_varint bs) as [[x r0]|] eqn:Ev; [|discriminate].
  destruct ((1 <=? x / 8) && (x / 8 <? 536870912))%bool; [|discriminate].
  intro H. injection H as <- <- <-. intros H Hsm.
  pose proof (rec_adv_of _ _ _ _ _ _ Ev H) as (pre & n & Hb & Hn & Ha).
  exists pre. split; [exact Hb|]. split; [lia|].
  assert (Hlen : length bs = (length pre + length r')%nat) by (rewrite Hb, app_length; reflexivity).
  split; [eapply pw_skip_value_len; exact H|].
  split; [|lia].
  unfold Skip.
  replace (S (length (bs ++ tail))) with (n + (S (length (bs ++ tail)) - n))%nat by (rewrite app_length; lia).
  rewrite Ha by lia. reflexivity.
Qed.

(* the same, for the record at the head of the buffer being decoded (no extension) *)
Lemma pw_skip_value_Skip bs num wt r r' :
  pw_tag bs = Some (num, wt, r) -> pw_skip_value (S (length r)) num wt r = Some r' ->
  (Z.of_nat (length bs) < Z.of_N two63)%Z ->
  Skip bs = Ok (Z.of_nat (length bs - length r')) /\ r' = skipn (length bs - length r') bs /\ (length r' < length bs)%nat.
Proof.
  intros Ht Hs Hb.
  assert (Hb0 : (Z.of_nat (length (bs ++ [])) < Z.of_N two63)%Z) by (rewrite app_nil_r; exact Hb).
  destruct (pw_skip_value_Skip_ext _ _ _ _ _ _ [] Ht Hs Hb0) as (pre & Hp & Hl & _ & Hsk & He).
  rewrite app_nil_r in Hsk. rewrite Hsk.
  assert (Hlen : (length bs - length r' = length pre)%nat) by (rewrite Hp, app_length; lia).
  rewrite Hlen. split; [reflexivity|]. split.
  - rewrite Hp at 1. rewrite skipn_app, Nat.sub_diag, skipn_all. reflexivity.
  - rewrite Hp, app_length. lia.
Qed.

(* ================================================================== part 4: the generated decoder follows the reference *)
Definition bounded (bs : list byte) : Prop := (Z.of_nat (length bs) < Z.of_N two63)%Z.
Definition child_ok (rc : rchild_t) (pc : child_t) : Prop :=
  forall m t p v, bounded p -> rc m t p = Ok v -> pc m t p = Ok v.

Lemma pw_tag_spec bs num wt r : pw_tag bs = Some (num, wt, r) ->
  exists x, pw_varint bs = Some (x, r) /\ num = x / 8 /\ wt = x mod 8 /\ 1 <= num /\ num < 536870912 /\ x < two64.
Proof.
  unfold pw_tag. destruct (pw_varint bs) as [[x r0]|] eqn:Ev; [|discriminate].
  destruct (N.leb_spec 1 (x / 8)) as [H1|]; [|discriminate]. destruct (N.ltb_spec (x / 8) 536870912) as [H2|]; [|discriminate].
  cbn [andb]. intro H. injection H as <- <- <-. exists x. apply pw_varint_spec in Ev. tauto.
Qed.

Lemma s32_fieldnum x : x < two64 -> x / 8 < 536870912 -> s32 (u64 x / 8) = Z.of_N (x / 8).
Proof.
  intros Hx Hn. unfold u64. rewrite N.mod_small by exact Hx. unfold s32.
  rewrite N.mod_small by (unfold two32; lia). destruct (N.ltb_spec (x / 8) two31) as [_|H]; [reflexivity|unfold two31 in H; lia].
Qed.

Lemma item_ok rc pc t wt target bs v r : child_ok rc pc -> ref_item rc t wt target bs = IOk v r ->
  wt = ftype_wt t /\ (exists pre, bs = pre ++ r /\ (1 <= length pre)%nat) /\
  forall tail, bounded (bs ++ tail) -> dec_item pc t target (bs ++ tail) = Ok (v, r ++ tail).
Proof.
  intros Hc H. destruct t as [k|m]; cbn [ref_item dec_item ftype_wt] in *.
  - destruct (ref_scalar k wt bs) as [v0 r0| |] eqn:Es; try discriminate. injection H as <- <-.
    apply ref_scalar_ok in Es. destruct Es as (Hwt & Hpre & Hd). split; [exact Hwt|]. split; [exact Hpre|].
    intros tail Hb. destruct (Hd tail Hb) as [-> _]. reflexivity.
  - destruct (N.eqb_spec wt WT_BYTES) as [->|]; [|discriminate]. cbn [negb] in H.
    destruct (pw_bytes bs) as [[payload r0]|] eqn:Eb; [|discriminate].
    destruct (rc m target payload) as [v0| | |] eqn:Ec; try discriminate. injection H as <- <-.
    split; [reflexivity|]. pose proof (pw_bytes_suffix _ _ _ Eb) as (hdr & Hb & Hl).
    split; [exists (hdr ++ payload); split; [rewrite <- app_assoc; exact Hb|rewrite app_length; lia]|].
    intros tail Hbd. rewrite (pw_bytes_take_len _ _ _ tail Eb Hbd). rewrite (Hc m target payload v0); [reflexivity| |exact Ec].
    unfold bounded in *. rewrite Hb, !app_length in Hbd. lia.
Qed.

Lemma packed_ok : forall f k acc run s', ref_packed f k acc run = Ok s' ->
  forall f' tail, (f <= f')%nat -> bounded (run ++ tail) ->
  packed_loop f' k (Z.of_nat (length run)) acc (run ++ tail) = Ok (s', tail).
Proof.
  induction f as [|f IH]; intros k acc run s' H f' tail Hf Hb; [discriminate|].
  destruct f' as [|f']; [lia|]. cbn [ref_packed packed_loop] in *.
  destruct run as [|b t] eqn:Er.
  - injection H as <-. reflexivity.
  - rewrite <- Er in *. assert (Hne : (1 <= length run)%nat) by (rewrite Er; cbn; lia). clear Er.
    destruct (Z.leb_spec (Z.of_nat (length run)) 0) as [?|_]; [lia|].
    destruct (ref_scalar k (kind_wt k) run) as [v r| |] eqn:Es; try discriminate.
    apply ref_scalar_ok in Es. destruct Es as (_ & (pre & Hp & Hl) & Hd). destruct (Hd tail Hb) as [-> _].
    assert (Hf' : (f <= f')%nat) by lia.
    assert (Hb' : bounded (r ++ tail)) by (unfold bounded in *; rewrite Hp, !app_length in Hb; rewrite app_length; lia).
    pose proof (IH _ _ _ _ H f' tail Hf' Hb') as Hgo.
    rewrite <- Hgo. f_equal. rewrite Hp, !app_length. lia.
Qed.

Lemma zeqb_of_N a b : (Z.of_N a =? Z.of_N b)%Z = (a =? b).
Proof. destruct (Z.eqb_spec (Z.of_N a) (Z.of_N b)), (N.eqb_spec a b); try reflexivity; lia. Qed.

Lemma ref_item_suffix_early rc t wt target bs v r : ref_item rc t wt target bs = IOk v r ->
  exists pre, bs = pre ++ r /\ (1 <= length pre)%nat.
Proof.
  destruct t as [k|m]; cbn [ref_item].
  - destruct (ref_scalar k wt bs) as [v0 r0| |] eqn:Es; try discriminate. intro H; injection H as <- <-.
    apply ref_scalar_ok in Es. tauto.
  - destruct (negb (wt =? WT_BYTES)); [discriminate|].
    destruct (pw_bytes bs) as [[payload r0]|] eqn:Eb; [|discriminate].
    destruct (rc m target payload); try discriminate. intro H; injection H as <- <-.
    apply pw_bytes_suffix in Eb. destruct Eb as (hdr & Hb & Hl).
    exists (hdr ++ payload). split; [rewrite <- app_assoc; exact Hb|rewrite app_length; lia].
Qed.

Lemma entry_ok rc pc : child_ok rc pc -> forall f kk t key value entry k v,
  ref_entry true rc f kk t key value entry = Ok (k, v) ->
  forall f' tail, (f <= f')%nat -> bounded (entry ++ tail) ->
  entry_loop pc f' kk t (Z.of_nat (length entry)) key value (entry ++ tail) = Ok (k, v).
Proof.
  intros Hc. induction f as [|f IH]; intros kk t key value entry k v H f' tail Hf Hb; [discriminate|].
  destruct f' as [|f']; [lia|]. cbn [ref_entry entry_loop] in *.
  destruct entry as [|b0 t0] eqn:Er.
  - injection H as <- <-. reflexivity.
  - rewrite <- Er in *. assert (Hne : (1 <= length entry)%nat) by (rewrite Er; cbn; lia). clear Er.
    destruct (Z.leb_spec (Z.of_nat (length entry)) 0) as [?|_]; [lia|].
    destruct (pw_tag entry) as [[[num wt] r]|] eqn:Et; [|discriminate].
    pose proof (pw_tag_spec _ _ _ _ Et) as (x & Ev & Hnum & Hwt & Hn1 & Hn2 & Hx).
    pose proof (pw_varint_suffix _ _ _ Ev) as (pre & Hp & Hl).
    pose proof (pw_varint_spec _ _ _ Ev) as (_ & _ & Hdv). rewrite Hdv.
    rewrite s32_fieldnum by (subst num; assumption). rewrite <- Hnum.
    cbv zeta in H. change 1%Z with (Z.of_N 1). change 2%Z with (Z.of_N 2). rewrite !zeqb_of_N.
    assert (Hf' : (f <= f')%nat) by lia.
    assert (Hbr : bounded (r ++ tail)) by (unfold bounded in *; rewrite Hp, !app_length in Hb; rewrite app_length; lia).
    destruct (N.eqb_spec num 1) as [E1|N1].
    { destruct (ref_scalar kk wt r) as [v1 r1| |] eqn:Es; try discriminate.
      - apply ref_scalar_ok in Es. destruct Es as (_ & (pre1 & Hp1 & Hl1) & Hd). destruct (Hd tail Hbr) as [-> _].
        assert (Hb' : bounded (r1 ++ tail)) by (unfold bounded in *; rewrite Hp1, !app_length in Hbr; rewrite app_length; lia).
        pose proof (IH _ _ _ _ _ _ _ H f' tail Hf' Hb') as Hgo.
        replace (Z.of_nat (length entry) - (Z.of_nat (length (entry ++ tail)) - Z.of_nat (length (r1 ++ tail))))%Z
          with (Z.of_nat (length r1)) by (rewrite Hp, Hp1, !app_length; lia).
        destruct (Z.ltb_spec (Z.of_nat (length r1)) 0) as [?|_]; [lia|]. exact Hgo.
      - destruct (pw_skip_value (S (length r)) num wt r); cbn in H; discriminate. }
    destruct (N.eqb_spec num 2) as [E2|N2].
    { destruct (ref_item rc t wt value r) as [v1 r1| | | |] eqn:Ei; try discriminate.
      - pose proof (ref_item_suffix_early _ _ _ _ _ _ _ Ei) as (pre1 & Hp1 & Hl1).
        assert (Hb' : bounded (r1 ++ tail)) by (unfold bounded in *; rewrite Hp1, !app_length in Hbr; rewrite app_length; lia).
        pose proof (IH _ _ _ _ _ _ _ H f' tail Hf' Hb') as Hgo.
        assert (Hk : (Z.of_nat (length entry) - (Z.of_nat (length (entry ++ tail)) - Z.of_nat (length (r1 ++ tail))))%Z
                     = Z.of_nat (length r1)) by (rewrite Hp, Hp1, !app_length; lia).
        destruct t as [kd|m]; cbn [ref_item] in Ei.
        + destruct (ref_scalar kd wt r) as [v0 r0| |] eqn:Es; try discriminate. injection Ei as -> ->.
          apply ref_scalar_ok in Es. destruct Es as (_ & _ & Hd). destruct (Hd tail Hbr) as [-> _].
          rewrite Hk. destruct (Z.ltb_spec (Z.of_nat (length r1)) 0) as [?|_]; [lia|]. exact Hgo.
        + destruct (negb (wt =? WT_BYTES)); [discriminate|].
          destruct (pw_bytes r) as [[payload r0]|] eqn:Eb; [|discriminate].
          destruct (rc m value payload) as [v0| | |] eqn:Ec; try discriminate. injection Ei as -> ->.
          rewrite (pw_bytes_take_len _ _ _ tail Eb Hbr).
          rewrite Hk. destruct (Z.ltb_spec (Z.of_nat (length r1)) 0) as [?|_]; [lia|].
          rewrite (Hc m value payload v1); [exact Hgo| |exact Ec].
          apply pw_bytes_suffix in Eb. destruct Eb as (hdr & Hbb & _).
          unfold bounded in *. rewrite Hbb, !app_length in Hbr. lia.
      - destruct (pw_skip_value (S (length r)) num wt r); [|discriminate].
        destruct (N.eqb_spec num 1); cbn in H; discriminate. }
    destruct (pw_skip_value (S (length r)) num wt r) as [r'|] eqn:Esk; [|discriminate].
    destruct (N.eqb_spec num 1) as [?|_]; [contradiction|]. destruct (N.eqb_spec num 2) as [?|_]; [contradiction|].
    cbn [andb orb] in H.
    pose proof (pw_skip_value_Skip_ext _ _ _ _ _ _ tail Et Esk Hb) as (pre2 & Hp2 & Hl2 & _ & Hsk & _).
    rewrite Hsk. rewrite Hp2 at 1. rewrite app_length.
    destruct (Z.ltb_spec (Z.of_nat (length pre2 + length r')) (Z.of_nat (length pre2))) as [?|_]; [lia|].
    rewrite Hp2 at 2. rewrite <- app_assoc, zskipn_app_exact.
    assert (Hb' : bounded (r' ++ tail)) by (unfold bounded in *; rewrite Hp2, !app_length in Hb; rewrite app_length; lia).
    pose proof (IH _ _ _ _ _ _ _ H f' tail Hf' Hb') as Hgo.
    rewrite <- Hgo. f_equal. rewrite Hp2, app_length. lia.
Qed.

Lemma packable_wt k : negb (kind_wt k =? WT_BYTES) = packable k.
Proof. destruct k; reflexivity. Qed.
Lemma ftype_wt_not4 t : ftype_wt t <> 4.
Proof. destruct t as [k|m]; [destruct k|]; cbn; discriminate. Qed.

(* the inline "length header + bounds checks" of packed runs and map entries *)
Lemma len_header bs p r : pw_bytes bs = Some (p, r) -> bounded bs ->
  exists n, dec_varint bs = Some (N.of_nat (length p), n, p ++ r) /\ s64 (N.of_nat (length p)) = Z.of_nat (length p).
Proof.
  intros H Hb. apply pw_bytes_inv in H. pose proof (pw_varint_suffix _ _ _ H) as (hdr & Hp & Hl).
  apply pw_varint_spec in H. destruct H as (_ & _ & Hd). specialize (Hd []). rewrite !app_nil_r in Hd.
  eexists. split; [exact Hd|]. unfold bounded in Hb. rewrite Hp, !app_length in Hb.
  rewrite s64_small by (unfold two63 in *; lia). apply nat_N_Z.
Qed.

Lemma field_ok sch rc pc md idx f wt msg bs msg' r' : child_ok rc pc -> bounded bs ->
  ref_field sch true rc md idx f wt msg bs = IOk msg' r' ->
  field_item sch pc md idx f wt msg bs = Ok (msg', r') /\ wt <> 4.
Proof.
  intros Hc Hb. unfold ref_field, field_item. cbv zeta.
  assert (Hb0 : bounded (bs ++ [])) by (rewrite app_nil_r; exact Hb).
  destruct (f_shape f) as [|p|oi|kk].
  - destruct (ref_item rc (f_ty f) wt (nth idx (slots_of msg) VNil) bs) as [v r| | | |] eqn:Ei; try discriminate.
    intro H; injection H as <- <-.
    apply (item_ok _ _ _ _ _ _ _ _ Hc) in Ei. destruct Ei as (Hwt & _ & Hd). specialize (Hd [] Hb0). rewrite !app_nil_r in Hd.
    rewrite Hwt, N.eqb_refl, Hd. split; [reflexivity|apply ftype_wt_not4].
  - destruct (f_ty f) as [k|m].
    + rewrite packable_wt. destruct (packable k) eqn:Epk.
      * destruct (N.eqb_spec wt WT_BYTES) as [->|Nw]; cbn [andb].
        -- assert (Hk : WT_BYTES =? kind_wt k = false) by (destruct k; try reflexivity; discriminate). rewrite Hk. cbn [N.eqb WT_BYTES Pos.eqb].
           destruct (pw_bytes bs) as [[run r]|] eqn:Eb; [|discriminate].
           destruct (ref_packed (S (length run)) k (nth idx (slots_of msg) VNil) run) as [s'| | |] eqn:Ep; try discriminate.
           intro H; injection H as <- <-.
           pose proof (len_header _ _ _ Eb Hb) as (n & Hd & Hs). rewrite Hd. cbv zeta. rewrite Hs.
           destruct (Z.ltb_spec (Z.of_nat (length run)) 0) as [?|_]; [lia|].
           rewrite app_length. destruct (Z.ltb_spec (Z.of_nat (length run + length r)) (Z.of_nat (length run))) as [?|_]; [lia|].
           rewrite <- app_length.
           assert (Hb' : bounded (run ++ r)).
           { apply pw_bytes_suffix in Eb. destruct Eb as (hdr & -> & _). unfold bounded in *. rewrite !app_length in *. lia. }
           rewrite (packed_ok _ _ _ _ _ Ep (S (length (run ++ r))) r ltac:(rewrite app_length; lia) Hb').
           split; [reflexivity|discriminate].
        -- destruct (ref_scalar k wt bs) as [v r| |] eqn:Es; try discriminate. intro H; injection H as <- <-.
           apply ref_scalar_ok in Es. destruct Es as (Hwt & _ & Hd). destruct (Hd [] Hb0) as [Hd1 _]. rewrite !app_nil_r in Hd1.
           rewrite Hwt, N.eqb_refl, Hd1. split; [reflexivity|destruct k; discriminate].
      * cbn [andb]. destruct (ref_scalar k wt bs) as [v r| |] eqn:Es; try discriminate. intro H; injection H as <- <-.
        apply ref_scalar_ok in Es. destruct Es as (Hwt & _ & Hd). destruct (Hd [] Hb0) as [Hd1 _]. rewrite !app_nil_r in Hd1.
        assert (Hk : kind_wt k = WT_BYTES) by (destruct k; try reflexivity; discriminate).
        rewrite Hwt, Hk, N.eqb_refl, Hd1. split; [reflexivity|discriminate].
    + destruct (ref_item rc (TMsg m) wt VNil bs) as [v r| | | |] eqn:Ei; try discriminate.
      intro H; injection H as <- <-.
      apply (item_ok _ _ _ _ _ _ _ _ Hc) in Ei. destruct Ei as (Hwt & _ & Hd). specialize (Hd [] Hb0). rewrite !app_nil_r in Hd.
      rewrite Hwt. cbn [ftype_wt]. rewrite N.eqb_refl, Hd. split; [reflexivity|discriminate].
  - destruct (ref_item rc (f_ty f) wt match nth idx (slots_of msg) VNil with VSome p => p | _ => VNil end bs) as [v r| | | |] eqn:Ei; try discriminate.
    intro H; injection H as <- <-.
    apply (item_ok _ _ _ _ _ _ _ _ Hc) in Ei. destruct Ei as (Hwt & _ & Hd). specialize (Hd [] Hb0). rewrite !app_nil_r in Hd.
    rewrite Hwt, N.eqb_refl, Hd. split; [reflexivity|apply ftype_wt_not4].
  - destruct (N.eqb_spec wt WT_BYTES) as [->|Nw]; [|discriminate]. cbn [negb].
    destruct (pw_bytes bs) as [[entry r]|] eqn:Eb; [|discriminate].
    destruct (ref_entry true rc (S (length entry)) kk (f_ty f) (zero_scalar kk) (map_value_init (get_msg sch) (f_ty f)) entry) as [[k v]| | |] eqn:Ee; try discriminate.
    intro H; injection H as <- <-.
    pose proof (len_header _ _ _ Eb Hb) as (n & Hd & Hs). rewrite Hd. cbv zeta. rewrite Hs.
    destruct (Z.ltb_spec (Z.of_nat (length entry)) 0) as [?|_]; [lia|].
    rewrite app_length. destruct (Z.ltb_spec (Z.of_nat (length entry + length r)) (Z.of_nat (length entry))) as [?|_]; [lia|].
    rewrite <- app_length.
    assert (Hb' : bounded (entry ++ r)).
    { apply pw_bytes_suffix in Eb. destruct Eb as (hdr & -> & _). unfold bounded in *. rewrite !app_length in *. lia. }
    rewrite (entry_ok _ _ Hc _ _ _ _ _ _ _ _ Ee (S (length (entry ++ r))) r ltac:(rewrite app_length; lia) Hb').
    rewrite zskipn_app_exact. split; [reflexivity|discriminate].
Qed.

Lemma ref_item_suffix rc t wt target bs v r : ref_item rc t wt target bs = IOk v r ->
  exists pre, bs = pre ++ r /\ (1 <= length pre)%nat.
Proof.
  destruct t as [k|m]; cbn [ref_item].
  - destruct (ref_scalar k wt bs) as [v0 r0| |] eqn:Es; try discriminate. intro H; injection H as <- <-.
    apply ref_scalar_ok in Es. tauto.
  - destruct (negb (wt =? WT_BYTES)); [discriminate|].
    destruct (pw_bytes bs) as [[payload r0]|] eqn:Eb; [|discriminate].
    destruct (rc m target payload); try discriminate. intro H; injection H as <- <-.
    apply pw_bytes_suffix in Eb. destruct Eb as (hdr & Hb & Hl).
    exists (hdr ++ payload). split; [rewrite <- app_assoc; exact Hb|rewrite app_length; lia].
Qed.

Lemma ref_field_suffix sch strict rc md idx f wt msg bs msg' r' :
  ref_field sch strict rc md idx f wt msg bs = IOk msg' r' -> exists pre, bs = pre ++ r' /\ (1 <= length pre)%nat.
Proof.
  unfold ref_field. cbv zeta.
  assert (Hbytes : forall p r, pw_bytes bs = Some (p, r) -> exists pre, bs = pre ++ r /\ (1 <= length pre)%nat).
  { intros p r Eb. apply pw_bytes_suffix in Eb. destruct Eb as (hdr & Hb & Hl).
    exists (hdr ++ p). split; [rewrite <- app_assoc; exact Hb|rewrite app_length; lia]. }
  destruct (f_shape f) as [|p|oi|kk].
  - destruct (ref_item rc (f_ty f) wt (nth idx (slots_of msg) VNil) bs) as [v r| | | |] eqn:Ei; try discriminate.
    intro H; injection H as <- <-. eapply ref_item_suffix; exact Ei.
  - destruct (f_ty f) as [k|m].
    + destruct (packable k && (wt =? WT_BYTES))%bool.
      * destruct (pw_bytes bs) as [[run r]|] eqn:Eb; [|discriminate].
        destruct (ref_packed (S (length run)) k (nth idx (slots_of msg) VNil) run); try discriminate.
        intro H; injection H as <- <-. eapply Hbytes; reflexivity.
      * destruct (ref_scalar k wt bs) as [v r| |] eqn:Es; try discriminate. intro H; injection H as <- <-.
        apply ref_scalar_ok in Es. tauto.
    + destruct (ref_item rc (TMsg m) wt VNil bs) as [v r| | | |] eqn:Ei; try discriminate.
      intro H; injection H as <- <-. eapply ref_item_suffix; exact Ei.
  - destruct (ref_item rc (f_ty f) wt match nth idx (slots_of msg) VNil with VSome p => p | _ => VNil end bs) as [v r| | | |] eqn:Ei; try discriminate.
    intro H; injection H as <- <-. eapply ref_item_suffix; exact Ei.
  - destruct (negb (wt =? WT_BYTES)); [discriminate|].
    destruct (pw_bytes bs) as [[entry r]|] eqn:Eb; [|discriminate].
    destruct (ref_entry strict rc (S (length entry)) kk (f_ty f) (zero_scalar kk) (map_value_init (get_msg sch) (f_ty f)) entry) as [[k v]| | |]; try discriminate.
    intro H; injection H as <- <-. eapply Hbytes; reflexivity.
Qed.

Lemma loop_ok sch discard rc pc md : child_ok rc pc -> forall fu msg bs r, bounded bs ->
  ref_loop sch discard true rc md fu msg bs = Ok r -> msg_loop sch discard pc md fu msg bs = Ok r.
Proof.
  intros Hc. induction fu as [|fu IH]; intros msg bs r Hb H; [discriminate|].
  cbn [ref_loop msg_loop] in *. destruct bs as [|b0 t0] eqn:Er; [exact H|]. rewrite <- Er in *. clear Er.
  destruct (pw_tag bs) as [[[num wt] r1]|] eqn:Et; [|discriminate].
  pose proof (pw_tag_spec _ _ _ _ Et) as (x & Ev & Hnum & Hwt & Hn1 & Hn2 & Hx).
  pose proof (pw_varint_suffix _ _ _ Ev) as (pre & Hp & Hl).
  pose proof (pw_varint_spec _ _ _ Ev) as (_ & _ & Hdv). specialize (Hdv []). rewrite !app_nil_r in Hdv. rewrite Hdv.
  cbv zeta in *.
  rewrite s32_fieldnum by (subst num; assumption). rewrite <- Hnum.
  assert (Hu : u64 x = x) by (apply N.mod_small; exact Hx). rewrite Hu, <- Hwt.
  destruct (Z.leb_spec (Z.of_N num) 0) as [?|_]; [lia|].
  assert (Hbr : bounded r1) by (unfold bounded in *; rewrite Hp, app_length in Hb; lia).
  destruct (find_field (m_fields md) 0 (Z.of_N num)) as [[idx f]|] eqn:Ef.
  - destruct (ref_field sch true rc md idx f wt msg r1) as [msg' r'| | | |] eqn:Erf; try discriminate.
    pose proof (field_ok _ _ _ _ _ _ _ _ _ _ _ Hc Hbr Erf) as [Hfi Hw4].
    destruct (N.eqb_spec wt 4) as [?|_]; [contradiction|]. rewrite Hfi. apply IH; [|exact H].
    apply ref_field_suffix in Erf. destruct Erf as (pre1 & Hp1 & _).
    unfold bounded in *. rewrite Hp1, app_length in Hbr. lia.
  - destruct (pw_skip_value (S (length r1)) num wt r1) as [r'|] eqn:Esk; [|discriminate].
    destruct (N.eqb_spec wt 4) as [E4|_]; [rewrite E4, pw_skip_value_S in Esk; discriminate|].
    assert (Hb0 : bounded (bs ++ [])) by (rewrite app_nil_r; exact Hb).
    pose proof (pw_skip_value_Skip_ext _ _ _ _ _ _ [] Et Esk Hb0) as (pre2 & Hp2 & Hl2 & _ & Hsk & _).
    rewrite app_nil_r in Hsk. rewrite Hsk.
    assert (Hlen : length bs = (length pre2 + length r')%nat) by (rewrite Hp2, app_length; reflexivity).
    destruct (Z.ltb_spec (Z.of_nat (length bs)) (Z.of_nat (length pre2))) as [?|_]; [lia|].
    replace (length bs - length r')%nat with (length pre2) in H by lia.
    rewrite Hp2 in H at 1. rewrite firstn_app, Nat.sub_diag, firstn_all, firstn_O, app_nil_r in H.
    rewrite Hp2 at 1 2. rewrite zfirstn_app_exact, zskipn_app_exact.
    apply IH; [|exact H]. unfold bounded in *. lia.
Qed.

Lemma unmarshal_at_ok sch discard : forall f depth mid target bs r, bounded bs ->
  ref_unmarshal_at sch discard true f depth mid target bs = Ok r -> unmarshal_at sch discard f depth mid target bs = Ok r.
Proof.
  induction f as [|f IH]; intros depth mid target bs r Hb H; [discriminate|].
  cbn [ref_unmarshal_at unmarshal_at] in *.
  destruct (depth <=? 0)%Z; [discriminate|]. destruct (get_msg sch mid) as [md|]; [|discriminate].
  eapply loop_ok; [|exact Hb|exact H].
  intros m t p v Hbp Hr. apply IH; assumption.
Qed.

Lemma decode_eq_ref sch discard : wf sch = true -> forall mid init bs r,
  (Z.of_nat (length bs) < Z.of_N two63)%Z ->
  ref_unmarshal sch discard true mid init bs = Ok r -> pulsar_unmarshal sch discard mid init bs = Ok r.
Proof. intros _ mid init bs r Hb H. apply unmarshal_at_ok; assumption. Qed.

(* ================================================================== part 5: strict acceptance implies lax acceptance *)
Definition child_mono (c1 c2 : rchild_t) : Prop := forall m t p v, c1 m t p = Ok v -> c2 m t p = Ok v.

Lemma item_mono c1 c2 t wt target bs v r : child_mono c1 c2 ->
  ref_item c1 t wt target bs = IOk v r -> ref_item c2 t wt target bs = IOk v r.
Proof.
  intros Hc. destruct t as [k|m]; cbn [ref_item]; [exact (fun H => H)|].
  destruct (negb (wt =? WT_BYTES)); [discriminate|].
  destruct (pw_bytes bs) as [[payload r0]|]; [|discriminate].
  destruct (c1 m target payload) as [v0| | |] eqn:Ec; try discriminate.
  rewrite (Hc _ _ _ _ Ec). exact (fun H => H).
Qed.

Lemma entry_mono c1 c2 : child_mono c1 c2 -> forall f kk t key value bs kv,
  ref_entry true c1 f kk t key value bs = Ok kv -> ref_entry false c2 f kk t key value bs = Ok kv.
Proof.
  intros Hc. induction f as [|f IH]; intros kk t key value bs kv H; [discriminate|].
  cbn [ref_entry] in *. destruct bs as [|b0 t0] eqn:Er; [exact H|]. rewrite <- Er in *. clear Er.
  destruct (pw_tag bs) as [[[num wt] r]|]; [|discriminate]. cbv zeta in *.
  destruct (N.eqb_spec num 1) as [E1|N1].
  { destruct (ref_scalar kk wt r) as [v1 r1| |]; try discriminate.
    - apply IH. exact H.
    - destruct (pw_skip_value (S (length r)) num wt r); discriminate. }
  destruct (N.eqb_spec num 2) as [E2|N2].
  { destruct (ref_item c1 t wt value r) as [v1 r1| | | |] eqn:Ei; try discriminate.
    - rewrite (item_mono _ _ _ _ _ _ _ _ Hc Ei). apply IH. exact H.
    - destruct (pw_skip_value (S (length r)) num wt r); discriminate. }
  destruct (pw_skip_value (S (length r)) num wt r) as [r'|]; [|discriminate].
  cbn [andb orb] in *. apply IH. exact H.
Qed.

Lemma field_mono sch c1 c2 md idx f wt msg bs msg' r' : child_mono c1 c2 ->
  ref_field sch true c1 md idx f wt msg bs = IOk msg' r' -> ref_field sch false c2 md idx f wt msg bs = IOk msg' r'.
Proof.
  intros Hc. unfold ref_field. cbv zeta.
  destruct (f_shape f) as [|p|oi|kk].
  - destruct (ref_item c1 (f_ty f) wt (nth idx (slots_of msg) VNil) bs) as [v r| | | |] eqn:Ei; try discriminate.
    rewrite (item_mono _ _ _ _ _ _ _ _ Hc Ei). exact (fun H => H).
  - destruct (f_ty f) as [k|m]; [exact (fun H => H)|].
    destruct (ref_item c1 (TMsg m) wt VNil bs) as [v r| | | |] eqn:Ei; try discriminate.
    rewrite (item_mono _ _ _ _ _ _ _ _ Hc Ei). exact (fun H => H).
  - destruct (ref_item c1 (f_ty f) wt match nth idx (slots_of msg) VNil with VSome p => p | _ => VNil end bs) as [v r| | | |] eqn:Ei; try discriminate.
    rewrite (item_mono _ _ _ _ _ _ _ _ Hc Ei). exact (fun H => H).
  - destruct (negb (wt =? WT_BYTES)); [discriminate|].
    destruct (pw_bytes bs) as [[entry r]|]; [|discriminate].
    destruct (ref_entry true c1 (S (length entry)) kk (f_ty f) (zero_scalar kk) (map_value_init (get_msg sch) (f_ty f)) entry) as [[k v]| | |] eqn:Ee; try discriminate.
    rewrite (entry_mono _ _ Hc _ _ _ _ _ _ _ Ee). exact (fun H => H).
Qed.

Lemma loop_mono sch discard c1 c2 md : child_mono c1 c2 -> forall fu msg bs r,
  ref_loop sch discard true c1 md fu msg bs = Ok r -> ref_loop sch discard false c2 md fu msg bs = Ok r.
Proof.
  intros Hc. induction fu as [|fu IH]; intros msg bs r H; [discriminate|].
  cbn [ref_loop] in *. destruct bs as [|b0 t0] eqn:Er; [exact H|]. rewrite <- Er in *. clear Er.
  destruct (pw_tag bs) as [[[num wt] r1]|]; [|discriminate]. cbv zeta in *.
  destruct (find_field (m_fields md) 0 (Z.of_N num)) as [[idx f]|].
  - destruct (ref_field sch true c1 md idx f wt msg r1) as [msg' r'| | | |] eqn:Erf; try discriminate.
    rewrite (field_mono _ _ _ _ _ _ _ _ _ _ _ Hc Erf). apply IH. exact H.
  - destruct (pw_skip_value (S (length r1)) num wt r1) as [r'|]; [|discriminate]. apply IH. exact H.
Qed.

Lemma unmarshal_at_mono sch discard : forall f depth mid target bs r,
  ref_unmarshal_at sch discard true f depth mid target bs = Ok r -> ref_unmarshal_at sch discard false f depth mid target bs = Ok r.
Proof.
  induction f as [|f IH]; intros depth mid target bs r H; [discriminate|].
  cbn [ref_unmarshal_at] in *.
  destruct (depth <=? 0)%Z; [discriminate|]. destruct (get_msg sch mid) as [md|]; [|discriminate].
  eapply loop_mono; [|exact H]. intros m t p v Hr. apply IH. exact Hr.
Qed.

Lemma strict_implies_lax sch discard mid init bs r :
  ref_unmarshal sch discard true mid init bs = Ok r -> ref_unmarshal sch discard false mid init bs = Ok r.
Proof. apply unmarshal_at_mono. Qed.

(* ================================================================== part 6: decoding a concatenation is merging *)
(* ---- 6a: the reference parser on an extended buffer *)
Lemma pw_tag_ext bs num wt r b : pw_tag bs = Some (num, wt, r) -> pw_tag (bs ++ b) = Some (num, wt, r ++ b).
Proof.
  unfold pw_tag. destruct (pw_varint bs) as [[x r0]|] eqn:Ev; [|discriminate]. rewrite (pw_varint_ext _ _ _ b Ev).
  destruct ((1 <=? x / 8) && (x / 8 <? 536870912))%bool; [|discriminate]. intro H; injection H as <- <- <-. reflexivity.
Qed.
Lemma pw_take_ext n bs p r b : pw_take n bs = Some (p, r) -> pw_take n (bs ++ b) = Some (p, r ++ b).
Proof. intro H. apply pw_take_inv in H. destruct H as [-> <-]. rewrite <- app_assoc. apply pw_take_app. Qed.

Lemma pw_group_ext sv sv' num b :
  (forall n w r r', sv n w r = Some r' -> sv' n w (r ++ b) = Some (r' ++ b)) ->
  forall g bs r', pw_group sv num g bs = Some r' -> forall g', (g <= g')%nat -> pw_group sv' num g' (bs ++ b) = Some (r' ++ b).
Proof.
  intros Hsv. induction g as [|g IH]; intros bs r' H g' Hg; [discriminate|]. destruct g' as [|g']; [lia|].
  cbn [pw_group] in *. destruct (pw_varint bs) as [[x r]|] eqn:Ev; [|discriminate]. rewrite (pw_varint_ext _ _ _ b Ev).
  cbv zeta in *. destruct ((1 <=? x / 8) && (x / 8 <? 2147483648))%bool; [|discriminate].
  destruct (x mod 8 =? 4).
  - destruct (x / 8 =? num); [|discriminate]. injection H as <-. reflexivity.
  - destruct (sv (x / 8) (x mod 8) r) as [r1|] eqn:Es; [|discriminate]. rewrite (Hsv _ _ _ _ Es). apply IH; [exact H|lia].
Qed.

Lemma pw_skip_value_ext : forall f num wt r r', pw_skip_value f num wt r = Some r' ->
  forall f' b, (f <= f')%nat -> pw_skip_value f' num wt (r ++ b) = Some (r' ++ b).
Proof.
  induction f as [|f IH]; intros num wt r r' H f' b Hf; [discriminate|]. destruct f' as [|f']; [lia|].
  rewrite pw_skip_value_S in *.
  destruct (wt =? 0).
  { destruct (pw_varint r) as [[y q]|] eqn:E; [|discriminate]. injection H as ->. rewrite (pw_varint_ext _ _ _ b E). reflexivity. }
  destruct (wt =? 1).
  { destruct (pw_take 8 r) as [[y q]|] eqn:E; [|discriminate]. injection H as ->. rewrite (pw_take_ext _ _ _ _ b E). reflexivity. }
  destruct (wt =? 5).
  { destruct (pw_take 4 r) as [[y q]|] eqn:E; [|discriminate]. injection H as ->. rewrite (pw_take_ext _ _ _ _ b E). reflexivity. }
  destruct (wt =? 2).
  { destruct (pw_bytes r) as [[y q]|] eqn:E; [|discriminate]. injection H as ->. rewrite (pw_bytes_ext _ _ _ b E). reflexivity. }
  destruct (wt =? 3); [|discriminate].
  eapply pw_group_ext; [|exact H|rewrite app_length; lia].
  intros n w r0 r1 Hs. eapply IH; [exact Hs|lia].
Qed.

Lemma ref_scalar_ext k wt bs v r b : ref_scalar k wt bs = SOk v r -> ref_scalar k wt (bs ++ b) = SOk v (r ++ b).
Proof.
  unfold ref_scalar. destruct (negb (wt =? kind_wt k)); [discriminate|].
  destruct k;
    try (destruct (pw_varint bs) as [[x q]|] eqn:E; [|discriminate]; rewrite (pw_varint_ext _ _ _ b E); intro H; injection H as <- <-; reflexivity);
    try (destruct (pw_take 8 bs) as [[x q]|] eqn:E; [|discriminate]; rewrite (pw_take_ext _ _ _ _ b E); intro H; injection H as <- <-; reflexivity);
    try (destruct (pw_take 4 bs) as [[x q]|] eqn:E; [|discriminate]; rewrite (pw_take_ext _ _ _ _ b E); intro H; injection H as <- <-; reflexivity).
  - destruct (pw_bytes bs) as [[x q]|] eqn:E; [|discriminate]; rewrite (pw_bytes_ext _ _ _ b E).
    destruct (utf8_valid x); [|discriminate]. intro H; injection H as <- <-; reflexivity.
  - destruct (pw_bytes bs) as [[x q]|] eqn:E; [|discriminate]; rewrite (pw_bytes_ext _ _ _ b E). intro H; injection H as <- <-; reflexivity.
Qed.
Lemma ref_scalar_unknown k wt bs bs' : ref_scalar k wt bs = SUnknown -> ref_scalar k wt bs' = SUnknown.
Proof.
  unfold ref_scalar. destruct (negb (wt =? kind_wt k)); [reflexivity|].
  destruct k;
    try (destruct (pw_varint bs) as [[x q]|]; discriminate);
    try (destruct (pw_take 8 bs) as [[x q]|]; discriminate);
    try (destruct (pw_take 4 bs) as [[x q]|]; discriminate).
  - destruct (pw_bytes bs) as [[x q]|]; [|discriminate]. destruct (utf8_valid x); discriminate.
  - destruct (pw_bytes bs) as [[x q]|]; discriminate.
Qed.

Lemma ref_item_ext c t wt target bs v r b : ref_item c t wt target bs = IOk v r -> ref_item c t wt target (bs ++ b) = IOk v (r ++ b).
Proof.
  destruct t as [k|m]; cbn [ref_item].
  - destruct (ref_scalar k wt bs) as [v0 r0| |] eqn:Es; try discriminate. rewrite (ref_scalar_ext _ _ _ _ _ b Es).
    intro H; injection H as <- <-; reflexivity.
  - destruct (negb (wt =? WT_BYTES)); [discriminate|].
    destruct (pw_bytes bs) as [[payload r0]|] eqn:Eb; [|discriminate]. rewrite (pw_bytes_ext _ _ _ b Eb).
    destruct (c m target payload); try discriminate. intro H; injection H as <- <-; reflexivity.
Qed.
Lemma ref_item_unknown c t wt target bs target' bs' : ref_item c t wt target bs = IUnknown -> ref_item c t wt target' bs' = IUnknown.
Proof.
  destruct t as [k|m]; cbn [ref_item].
  - destruct (ref_scalar k wt bs) as [v0 r0| |] eqn:Es; try discriminate. rewrite (ref_scalar_unknown _ _ _ bs' Es). reflexivity.
  - destruct (negb (wt =? WT_BYTES)); [reflexivity|].
    destruct (pw_bytes bs) as [[payload r0]|]; [|discriminate]. destruct (c m target payload); discriminate.
Qed.

Lemma ref_field_ext sch strict c md idx f wt msg bs msg' r' b :
  ref_field sch strict c md idx f wt msg bs = IOk msg' r' -> ref_field sch strict c md idx f wt msg (bs ++ b) = IOk msg' (r' ++ b).
Proof.
  unfold ref_field. cbv zeta.
  destruct (f_shape f) as [|p|oi|kk].
  - destruct (ref_item c (f_ty f) wt (nth idx (slots_of msg) VNil) bs) as [v r| | | |] eqn:Ei; try discriminate.
    rewrite (ref_item_ext _ _ _ _ _ _ _ b Ei). intro H; injection H as <- <-; reflexivity.
  - destruct (f_ty f) as [k|m].
    + destruct (packable k && (wt =? WT_BYTES))%bool.
      * destruct (pw_bytes bs) as [[run r]|] eqn:Eb; [|discriminate]. rewrite (pw_bytes_ext _ _ _ b Eb).
        destruct (ref_packed (S (length run)) k (nth idx (slots_of msg) VNil) run); try discriminate.
        intro H; injection H as <- <-; reflexivity.
      * destruct (ref_scalar k wt bs) as [v r| |] eqn:Es; try discriminate. rewrite (ref_scalar_ext _ _ _ _ _ b Es).
        intro H; injection H as <- <-; reflexivity.
    + destruct (ref_item c (TMsg m) wt VNil bs) as [v r| | | |] eqn:Ei; try discriminate.
      rewrite (ref_item_ext _ _ _ _ _ _ _ b Ei). intro H; injection H as <- <-; reflexivity.
  - destruct (ref_item c (f_ty f) wt match nth idx (slots_of msg) VNil with VSome p => p | _ => VNil end bs) as [v r| | | |] eqn:Ei; try discriminate.
    rewrite (ref_item_ext _ _ _ _ _ _ _ b Ei). intro H; injection H as <- <-; reflexivity.
  - destruct (negb (wt =? WT_BYTES)); [discriminate|].
    destruct (pw_bytes bs) as [[entry r]|] eqn:Eb; [|discriminate]. rewrite (pw_bytes_ext _ _ _ b Eb).
    destruct (ref_entry strict c (S (length entry)) kk (f_ty f) (zero_scalar kk) (map_value_init (get_msg sch) (f_ty f)) entry) as [[k v]| | |]; try discriminate.
    intro H; injection H as <- <-; reflexivity.
Qed.

Lemma ref_field_unknown sch strict c md idx f wt msg bs bs' :
  ref_field sch strict c md idx f wt msg bs = IUnknown -> ref_field sch strict c md idx f wt msg bs' = IUnknown.
Proof.
  unfold ref_field. cbv zeta.
  destruct (f_shape f) as [|p|oi|kk].
  - destruct (ref_item c (f_ty f) wt (nth idx (slots_of msg) VNil) bs) as [v r| | | |] eqn:Ei; try discriminate.
    rewrite (ref_item_unknown _ _ _ _ _ (nth idx (slots_of msg) VNil) bs' Ei). reflexivity.
  - destruct (f_ty f) as [k|m].
    + destruct (packable k && (wt =? WT_BYTES))%bool.
      * destruct (pw_bytes bs) as [[run r]|]; [|discriminate].
        destruct (ref_packed (S (length run)) k (nth idx (slots_of msg) VNil) run); discriminate.
      * destruct (ref_scalar k wt bs) as [v r| |] eqn:Es; try discriminate. rewrite (ref_scalar_unknown _ _ _ bs' Es). reflexivity.
    + destruct (ref_item c (TMsg m) wt VNil bs) as [v r| | | |] eqn:Ei; try discriminate.
      rewrite (ref_item_unknown _ _ _ _ _ VNil bs' Ei). reflexivity.
  - destruct (ref_item c (f_ty f) wt match nth idx (slots_of msg) VNil with VSome p => p | _ => VNil end bs) as [v r| | | |] eqn:Ei; try discriminate.
    rewrite (ref_item_unknown _ _ _ _ _ match nth idx (slots_of msg) VNil with VSome p => p | _ => VNil end bs' Ei). reflexivity.
  - destruct (negb (wt =? WT_BYTES)); [reflexivity|].
    destruct (pw_bytes bs) as [[entry r]|]; [|discriminate].
    destruct (ref_entry strict c (S (length entry)) kk (f_ty f) (zero_scalar kk) (map_value_init (get_msg sch) (f_ty f)) entry) as [[k v]| | |]; discriminate.
Qed.

Lemma ref_field_vmsg sch strict c md idx f wt msg bs msg' r' :
  ref_field sch strict c md idx f wt msg bs = IOk msg' r' -> exists s u, msg' = VMsg s u.
Proof.
  unfold ref_field. cbv zeta.
  destruct (f_shape f) as [|p|oi|kk].
  - destruct (ref_item c (f_ty f) wt (nth idx (slots_of msg) VNil) bs) as [v r| | | |]; try discriminate.
    intro H; injection H as <- <-. eauto.
  - destruct (f_ty f) as [k|m].
    + destruct (packable k && (wt =? WT_BYTES))%bool.
      * destruct (pw_bytes bs) as [[run r]|]; [|discriminate].
        destruct (ref_packed (S (length run)) k (nth idx (slots_of msg) VNil) run); try discriminate.
        intro H; injection H as <- <-. eauto.
      * destruct (ref_scalar k wt bs) as [v r| |]; try discriminate. intro H; injection H as <- <-. eauto.
    + destruct (ref_item c (TMsg m) wt VNil bs) as [v r| | | |]; try discriminate. intro H; injection H as <- <-. eauto.
  - destruct (ref_item c (f_ty f) wt match nth idx (slots_of msg) VNil with VSome p => p | _ => VNil end bs) as [v r| | | |]; try discriminate.
    intro H; injection H as <- <-. eauto.
  - destruct (negb (wt =? WT_BYTES)); [discriminate|].
    destruct (pw_bytes bs) as [[entry r]|]; [|discriminate].
    destruct (ref_entry strict c (S (length entry)) kk (f_ty f) (zero_scalar kk) (map_value_init (get_msg sch) (f_ty f)) entry) as [[k v]| | |]; try discriminate.
    intro H; injection H as <- <-. eauto.
Qed.

(* ---- 6b: fuel / child independence of the reference decoder *)
Definition agree_below (c c' : rchild_t) (L : nat) : Prop := forall m t p, (length p < L)%nat -> c m t p = c' m t p.
Lemma agree_below_le c c' L L' : agree_below c c' L -> (L' <= L)%nat -> agree_below c c' L'.
Proof. intros H Hl m t p Hp. apply H. lia. Qed.

Lemma pw_tag_suffix bs num wt r : pw_tag bs = Some (num, wt, r) -> exists pre, bs = pre ++ r /\ (1 <= length pre)%nat.
Proof.
  intro H. apply pw_tag_spec in H. destruct H as (x & Ev & _). apply pw_varint_suffix in Ev.
  destruct Ev as (pre & Hp & Hl). exists pre. split; [exact Hp|lia].
Qed.

Lemma item_indep c c' t wt target bs : agree_below c c' (length bs) -> ref_item c t wt target bs = ref_item c' t wt target bs.
Proof.
  intros Ha. destruct t as [k|m]; cbn [ref_item]; [reflexivity|].
  destruct (negb (wt =? WT_BYTES)); [reflexivity|].
  destruct (pw_bytes bs) as [[payload r0]|] eqn:Eb; [|reflexivity].
  rewrite (Ha m target payload); [reflexivity|].
  apply pw_bytes_suffix in Eb. destruct Eb as (hdr & -> & Hl). rewrite !app_length. lia.
Qed.

Lemma entry_indep strict c c' : forall f kk t key value bs, agree_below c c' (length bs) ->
  ref_entry strict c f kk t key value bs = ref_entry strict c' f kk t key value bs.
Proof.
  induction f as [|f IH]; intros kk t key value bs Ha; [reflexivity|].
  cbn [ref_entry]. destruct bs as [|b0 t0] eqn:Er; [reflexivity|]. rewrite <- Er in *. clear Er.
  destruct (pw_tag bs) as [[[num wt] r]|] eqn:Et; [|reflexivity]. cbv zeta.
  pose proof (pw_tag_suffix _ _ _ _ Et) as (pre & Hp & Hl).
  assert (Hlr : (length r <= length bs)%nat) by (rewrite Hp, app_length; lia).
  assert (Hskip : match pw_skip_value (S (length r)) num wt r with
                  | Some r' => if strict && ((num =? 1) || (num =? 2)) then Err else ref_entry strict c f kk t key value r'
                  | None => Err end =
                  match pw_skip_value (S (length r)) num wt r with
                  | Some r' => if strict && ((num =? 1) || (num =? 2)) then Err else ref_entry strict c' f kk t key value r'
                  | None => Err end).
  { destruct (pw_skip_value (S (length r)) num wt r) as [r'|] eqn:Es; [|reflexivity].
    destruct (strict && ((num =? 1) || (num =? 2)))%bool; [reflexivity|]. apply IH.
    apply pw_skip_value_len in Es. eapply agree_below_le; [exact Ha|lia]. }
  destruct (num =? 1).
  { destruct (ref_scalar kk wt r) as [v1 r1| |] eqn:Es; [|reflexivity|exact Hskip].
    apply IH. apply ref_scalar_ok in Es. destruct Es as (_ & (p1 & Hp1 & _) & _).
    eapply agree_below_le; [exact Ha|]. rewrite Hp1, app_length in Hlr. lia. }
  destruct (num =? 2).
  { rewrite (item_indep c c' t wt value r) by (eapply agree_below_le; [exact Ha|lia]).
    destruct (ref_item c' t wt value r) as [v1 r1| | | |] eqn:Ei; try reflexivity; [|exact Hskip].
    apply IH. apply ref_item_suffix in Ei. destruct Ei as (p1 & Hp1 & _).
    eapply agree_below_le; [exact Ha|]. rewrite Hp1, app_length in Hlr. lia. }
  exact Hskip.
Qed.

Lemma field_indep sch strict c c' md idx f wt msg bs : agree_below c c' (length bs) ->
  ref_field sch strict c md idx f wt msg bs = ref_field sch strict c' md idx f wt msg bs.
Proof.
  intros Ha. unfold ref_field. cbv zeta.
  destruct (f_shape f) as [|p|oi|kk].
  - rewrite (item_indep c c') by exact Ha. reflexivity.
  - destruct (f_ty f) as [k|m]; [reflexivity|]. rewrite (item_indep c c') by exact Ha. reflexivity.
  - rewrite (item_indep c c') by exact Ha. reflexivity.
  - destruct (negb (wt =? WT_BYTES)); [reflexivity|].
    destruct (pw_bytes bs) as [[entry r]|] eqn:Eb; [|reflexivity].
    rewrite (entry_indep strict c c'); [reflexivity|].
    apply pw_bytes_suffix in Eb. destruct Eb as (hdr & Hb & Hl). eapply agree_below_le; [exact Ha|]. rewrite Hb, !app_length. lia.
Qed.

Lemma ref_loop_S sch discard strict c md fu msg bs : bs <> [] ->
  ref_loop sch discard strict c md (S fu) msg bs =
        match pw_tag bs with
        | None => Err
        | Some (num, wt, r) =>
          let as_unknown (_ : unit) :=
            match pw_skip_value (S (length r)) num wt r with
            | None => Err
            | Some r' =>
              let raw := firstn (length bs - length r') bs in
              let msg' := if discard then msg else VMsg (slots_of msg) (unk_of msg ++ raw) in
              ref_loop sch discard strict c md fu msg' r'
            end in
          match find_field (m_fields md) 0 (Z.of_N num) with
          | None => as_unknown tt
          | Some (idx, f) =>
            match ref_field sch strict c md idx f wt msg r with
            | IOk msg' r' => ref_loop sch discard strict c md fu msg' r'
            | IErr => Err | IPanic => Panic | IFuel => OutOfFuel
            | IUnknown => if strict then Err else as_unknown tt
            end
          end
        end.
Proof. intro H. destruct bs; [congruence|reflexivity]. Qed.

Lemma loop_indep sch discard strict c c' md : forall f f' msg bs, agree_below c c' (length bs) ->
  (length bs < f)%nat -> (length bs < f')%nat ->
  ref_loop sch discard strict c md f msg bs = ref_loop sch discard strict c' md f' msg bs.
Proof.
  induction f as [|f IH]; intros f' msg bs Ha Hf Hf'; [lia|]. destruct f' as [|f']; [lia|].
  destruct bs as [|b0 t0] eqn:Er; [reflexivity|]. rewrite <- Er in *.
  assert (Hne : bs <> []) by (rewrite Er; discriminate). clear Er.
  rewrite !ref_loop_S by exact Hne.
  destruct (pw_tag bs) as [[[num wt] r]|] eqn:Et; [|reflexivity]. cbv zeta.
  pose proof (pw_tag_suffix _ _ _ _ Et) as (pre & Hp & Hl).
  assert (Hlr : (length r < length bs)%nat) by (rewrite Hp, app_length; lia).
  assert (Hunk : match pw_skip_value (S (length r)) num wt r with
    | Some r' => ref_loop sch discard strict c md f (if discard then msg else VMsg (slots_of msg) (unk_of msg ++ firstn (length bs - length r') bs)) r'
    | None => Err end = match pw_skip_value (S (length r)) num wt r with
    | Some r' => ref_loop sch discard strict c' md f' (if discard then msg else VMsg (slots_of msg) (unk_of msg ++ firstn (length bs - length r') bs)) r'
    | None => Err end).
  { destruct (pw_skip_value (S (length r)) num wt r) as [r'|] eqn:Es; [|reflexivity].
    apply pw_skip_value_len in Es. apply IH; [eapply agree_below_le; [exact Ha|lia]|lia|lia]. }
  destruct (find_field (m_fields md) 0 (Z.of_N num)) as [[idx fd]|]; [|exact Hunk].
  rewrite (field_indep sch strict c c') by (eapply agree_below_le; [exact Ha|lia]).
  destruct (ref_field sch strict c' md idx fd wt msg r) as [msg' r'| | | |] eqn:Ef; try reflexivity.
  - apply ref_field_suffix in Ef. destruct Ef as (p1 & Hp1 & Hl1). rewrite Hp1, app_length in Hlr.
    apply IH; [eapply agree_below_le; [exact Ha|lia]|lia|lia].
  - destruct strict; [reflexivity|exact Hunk].
Qed.

Lemma unmarshal_indep sch discard strict : forall f1 f2 depth mid target bs, (length bs < f1)%nat -> (length bs < f2)%nat ->
  ref_unmarshal_at sch discard strict f1 depth mid target bs = ref_unmarshal_at sch discard strict f2 depth mid target bs.
Proof.
  induction f1 as [|f1 IH]; intros f2 depth mid target bs H1 H2; [lia|]. destruct f2 as [|f2]; [lia|].
  cbn [ref_unmarshal_at]. destruct (depth <=? 0)%Z; [reflexivity|]. destruct (get_msg sch mid) as [md|]; [|reflexivity].
  apply loop_indep; [|lia|lia]. intros m t p Hp. apply IH; lia.
Qed.

(* ---- 6c: the loop on a ++ b *)
Lemma loop_vmsg sch discard strict c md : forall fu msg bs m,
  ref_loop sch discard strict c md fu msg bs = Ok m -> (exists s u, msg = VMsg s u) -> exists s u, m = VMsg s u.
Proof.
  induction fu as [|fu IH]; intros msg bs m H Hm; [discriminate|].
  destruct bs as [|b0 t0] eqn:Er; [cbn in H; injection H as <-; exact Hm|]. rewrite <- Er in *.
  assert (Hne : bs <> []) by (rewrite Er; discriminate). clear Er.
  rewrite ref_loop_S in H by exact Hne.
  destruct (pw_tag bs) as [[[num wt] r]|]; [|discriminate]. cbv zeta in H.
  assert (Hunk : match pw_skip_value (S (length r)) num wt r with
    | Some r' => ref_loop sch discard strict c md fu (if discard then msg else VMsg (slots_of msg) (unk_of msg ++ firstn (length bs - length r') bs)) r'
    | None => Err end = Ok m -> exists s u, m = VMsg s u).
  { destruct (pw_skip_value (S (length r)) num wt r) as [r'|]; [|discriminate]. intro H0. eapply IH; [exact H0|].
    destruct discard; [exact Hm|eauto]. }
  destruct (find_field (m_fields md) 0 (Z.of_N num)) as [[idx fd]|]; [|exact (Hunk H)].
  destruct (ref_field sch strict c md idx fd wt msg r) as [msg' r'| | | |] eqn:Ef; try discriminate.
  - eapply IH; [exact H|]. eapply ref_field_vmsg; exact Ef.
  - destruct strict; [discriminate|exact (Hunk H)].
Qed.

Lemma agree_refl c L : agree_below c c L.
Proof. intros m t p _. reflexivity. Qed.

Lemma loop_concat sch discard strict c md b : forall fa msg a m,
  ref_loop sch discard strict c md fa msg a = Ok m ->
  forall F, (length (a ++ b) < F)%nat ->
  ref_loop sch discard strict c md F msg (a ++ b) = ref_loop sch discard strict c md F m b.
Proof.
  induction fa as [|fa IH]; intros msg a m H F HF; [discriminate|].
  destruct a as [|b0 t0] eqn:Er; [cbn in H; injection H as <-; reflexivity|]. rewrite <- Er in *.
  assert (Hne : a <> []) by (rewrite Er; discriminate).
  assert (Hne' : a ++ b <> []) by (rewrite Er; discriminate). clear Er.
  destruct F as [|F]; [lia|].
  rewrite ref_loop_S in H by exact Hne. rewrite (ref_loop_S _ _ _ _ _ _ _ (a ++ b)) by exact Hne'.
  destruct (pw_tag a) as [[[num wt] r]|] eqn:Et; [|discriminate]. rewrite (pw_tag_ext _ _ _ _ b Et). cbv zeta in *.
  pose proof (pw_tag_suffix _ _ _ _ Et) as (pre & Hp & Hl).
  assert (Hla : length a = (length pre + length r)%nat) by (rewrite Hp, app_length; reflexivity).
  rewrite app_length in HF.
  assert (Hstep : forall msg' r', (length r' <= length r)%nat -> ref_loop sch discard strict c md fa msg' r' = Ok m ->
            ref_loop sch discard strict c md F msg' (r' ++ b) = ref_loop sch discard strict c md (S F) m b).
  { intros msg' r' Hlr H0. rewrite (IH _ _ _ H0 F) by (rewrite app_length; lia).
    apply loop_indep; [apply agree_refl|lia|lia]. }
  assert (Hunk : match pw_skip_value (S (length r)) num wt r with
    | Some r' => ref_loop sch discard strict c md fa (if discard then msg else VMsg (slots_of msg) (unk_of msg ++ firstn (length a - length r') a)) r'
    | None => Err end = Ok m ->
    match pw_skip_value (S (length (r ++ b))) num wt (r ++ b) with
    | Some r' => ref_loop sch discard strict c md F (if discard then msg else VMsg (slots_of msg) (unk_of msg ++ firstn (length (a ++ b) - length r') (a ++ b))) r'
    | None => Err end = ref_loop sch discard strict c md (S F) m b).
  { destruct (pw_skip_value (S (length r)) num wt r) as [r'|] eqn:Es; [|discriminate]. intro H0.
    rewrite (pw_skip_value_ext _ _ _ _ _ Es (S (length (r ++ b))) b) by (rewrite app_length; lia).
    apply pw_skip_value_len in Es.
    replace (length (a ++ b) - length (r' ++ b))%nat with (length a - length r')%nat by (rewrite !app_length; lia).
    rewrite firstn_app_le by lia. apply Hstep; [exact Es|exact H0]. }
  destruct (find_field (m_fields md) 0 (Z.of_N num)) as [[idx fd]|]; [|exact (Hunk H)].
  destruct (ref_field sch strict c md idx fd wt msg r) as [msg' r'| | | |] eqn:Ef; try discriminate.
  - rewrite (ref_field_ext _ _ _ _ _ _ _ _ _ _ _ b Ef). apply Hstep; [|exact H].
    apply ref_field_suffix in Ef. destruct Ef as (p1 & -> & _). rewrite app_length. lia.
  - rewrite (ref_field_unknown _ _ _ _ _ _ _ _ _ (r ++ b) Ef). destruct strict; [discriminate|exact (Hunk H)].
Qed.

Lemma ref_concat_is_merge sch discard strict mid init a b m :
  ref_unmarshal sch discard strict mid init a = Ok m ->
  ref_unmarshal sch discard strict mid init (a ++ b) = ref_unmarshal sch discard strict mid m b.
Proof.
  unfold ref_unmarshal. cbn [ref_unmarshal_at]. change (recursion_limit <=? 0)%Z with false. cbv iota.
  destruct (get_msg sch mid) as [md|]; [|discriminate].
  set (d := (recursion_limit - 1)%Z).
  set (init' := match init with VMsg _ _ => init | _ => empty_msg md end).
  intro H.
  assert (Hvm : exists s u, m = VMsg s u).
  { eapply loop_vmsg; [exact H|]. unfold init'. destruct init; unfold empty_msg; eauto. }
  destruct Hvm as (s & u & Hm).
  replace (match m with VMsg _ _ => m | _ => empty_msg md end) with m by (rewrite Hm; reflexivity).
  assert (H1 : ref_loop sch discard strict (ref_unmarshal_at sch discard strict (length (a ++ b)) d) md (S (length a)) init' a = Ok m).
  { rewrite <- H. symmetry. apply loop_indep; [|lia|lia].
    intros mm t p Hp. apply unmarshal_indep; [lia|rewrite app_length; lia]. }
  rewrite (loop_concat _ _ _ _ _ b _ _ _ _ H1) by lia.
  apply loop_indep; [|rewrite app_length; lia|lia].
  intros mm t p Hp. apply unmarshal_indep; [rewrite app_length; lia|lia].
Qed.
