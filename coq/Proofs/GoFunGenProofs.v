(* Proofs/GoFunGenProofs.v — the canonical declarations of /repo/generator/helpers.go (Model/GoFunGen.v), interpreted, are
   the hand-written models: KeySize = Codec.key_size (every non-negative int32 field number x every non-negative int8 wire
   type), ProtoWireType = Schema.kind_wt / ftype_wt (every kind; message; group = 3; any other int8 = 0). Task T15. *)
From Coq Require Import Lia ZifyN ZifyNat ZifyBool.
From CP Require Import Bytes Runtime GoFun GoFunGen BytesLemmas GoFunProofs KeyBytes.
Local Open Scope Z_scope.

(* ================================================================ ProtoWireType *)
(* the table as numbers *)
Definition wt_entries : list (Z * Z) :=
  [(8, 0); (14, 0); (5, 0); (17, 0); (13, 0); (3, 0); (18, 0); (4, 0); (15, 5); (7, 5); (2, 5); (16, 1); (6, 1); (1, 1); (9, 2); (12, 2); (11, 2); (10, 3)].

Lemma wt_entries_eq : gen_entries (gm_key canon_wireTypes) (gm_val canon_wireTypes) (gm_entries canon_wireTypes) = Some wt_entries.
Proof. vm_compute. reflexivity. Qed.

(* the run is the table lookup, whatever the fuel *)
Lemma protowiretype_run z lf dp :
  gen_run canon_generator lf (1 + dp) "ProtoWireType" [kindv z] =
  GOk [GvInt TInt8 (match gen_assoc z wt_entries with Some w => w | None => 0 end)] [kindv z].
Proof.
  cbn [Nat.add]. unfold gen_run.
  change (find_fun (pg_funs (gp_base canon_generator)) "ProtoWireType") with (Some canon_ProtoWireType).
  cbv beta iota zeta.
  change (gen_lookup_of canon_ProtoWireType) with (Some ("wireTypes"%gname, "k"%gname)).
  cbv beta iota.
  change (gen_find_map (gp_maps canon_generator) "wireTypes") with (Some canon_wireTypes).
  cbv beta iota. unfold gen_run_lookup.
  change (fn_params canon_ProtoWireType) with [("k"%gname, GoNamed "protoreflect.Kind")].
  change (fn_results canon_ProtoWireType) with [(""%gname, GoNamed "protowire.Type")].
  unfold kindv. cbv beta iota.
  change (gotype_eqb (GoNamed "protoreflect.Kind") (gm_key canon_wireTypes) && gotype_eqb (GoNamed "protowire.Type") (gm_val canon_wireTypes)) with true.
  cbv iota. rewrite wt_entries_eq.
  change (gen_named_ity (gm_key canon_wireTypes)) with (Some TInt8).
  change (gen_named_ity (gm_val canon_wireTypes)) with (Some TInt8).
  cbv iota.
  change (gen_nodup_keys wt_entries) with true. cbv iota.
  reflexivity.
Qed.

Lemma protowiretype_prog_correct : protowiretype_prog_stmt.
Proof.
  intros lf dp. split; [|split].
  - intro k. rewrite protowiretype_run. destruct k; reflexivity.
  - intro m. rewrite protowiretype_run. reflexivity.
  - rewrite protowiretype_run. reflexivity.
Qed.

(* a finite sweep over int8 *)
Lemma int8_sweep (P : Z -> bool) :
  forallb P (map (fun i => Z.of_nat i - 128) (seq 0 256)) = true -> forall z, -128 <= z < 128 -> P z = true.
Proof.
  intros H z Hz. rewrite forallb_forall in H. apply H.
  apply in_map_iff. exists (Z.to_nat (z + 128)). split; [lia|]. apply in_seq. lia.
Qed.
Lemma in_int8_iff z : in_ity TInt8 z <-> -128 <= z < 128.
Proof.
  unfold in_ity, ity_in, ity_norm. cbn [ity_mod ity_signed]. change (256 / 2) with 128. split; intro H.
  - apply Z.eqb_eq in H. destruct (Z.ltb_spec (z mod 256) 128); lia.
  - apply Z.eqb_eq. destruct (Z.ltb_spec (z mod 256) 128); lia.
Qed.

Lemma protowiretype_absent_prog_correct : protowiretype_absent_prog_stmt.
Proof.
  intros z lf dp Hz Hk. rewrite protowiretype_run. apply in_int8_iff in Hz.
  pose proof (int8_sweep (fun z => is_kind_number z || match gen_assoc z wt_entries with None => true | Some _ => false end)) as S.
  specialize (S ltac:(vm_compute; reflexivity) z Hz). cbv beta in S. rewrite Hk in S. cbn [orb] in S.
  destruct (gen_assoc z wt_entries); [discriminate|reflexivity].
Qed.

(* ================================================================ KeySize *)
Ltac ggcbn := cbn [go_eval go_evals go_exec go_block go_exec_atom go_bind go_lift go_leave go_restore
  lval_read lval_write lval_index op_assign go_get go_set str_eq gf_bytes_eqb gname_bytes Byte.eqb Byte.to_bits Bool.eqb andb orb negb
  find_fun bind_params bind_results coerce_results final_params named_results coerce definable assignable go_zero named_underlying
  bin_op shift_op shl_z shr_z un_op conv int_arith const_arith is_cmp go_cmp ity_eqb ity_code ity_bits Nat.eqb is_nil_like go_field index_z
  has_bytes has_const existsb fst snd length skipn Nat.sub app map
  fn_name fn_params fn_results fn_body pg_funs pg_globals intv fnumv wtypev].
Ltac gg := repeat (ggcbn; progress nc); ggcbn.

Local Open Scope gname_scope.
Definition ks_cond : gexpr := ExBin BGt (ExVar "x") (ExConst 127).
Definition ks_post : list gstmt := [StInc (LvVar "size")].
Definition ks_body : list gstmt := [StOpAssign BShr (LvVar "x") (ExConst 7)].
Definition ks_env (s : Z) (x : N) (a b : gvalue) : goenv :=
  [("size", intv s); ("x", GvInt TUint32 (Z.of_N x)); ("fieldNumber", a); ("wireType", b)].
Local Close Scope gname_scope.

(* the loop as a function: final (size, x) *)
Fixpoint ks_loop (f : nat) (s : Z) (x : N) : Z * N :=
  match f with
  | O => (s, x)
  | S f' => if (127 <? x)%N then ks_loop f' (s + 1) (N.shiftr x 7) else (s, x)
  end.

Lemma ltb_127_ofN x : (127 <? Z.of_N x) = (127 <? x)%N.
Proof. destruct (Z.ltb_spec 127 (Z.of_N x)); destruct (N.ltb_spec 127 x); try reflexivity; lia. Qed.

Lemma ks_loop_go genv call lf0 a b f : forall k s x,
  (x < 128 * 2 ^ (7 * N.of_nat f))%N -> 0 <= s -> s + Z.of_nat f < 9223372036854775808 ->
  for_loop genv call lf0 (Some ks_cond) ks_post ks_body (S f + k) (ks_env s x a b) =
  SrNext (ks_env (fst (ks_loop f s x)) (snd (ks_loop f s x)) a b).
Proof.
  induction f as [|f IH]; intros k s x Hx Hs Hsf.
  - cbn [Nat.add]. rewrite for_loop_S. unfold ks_cond, ks_env. gg.
    rewrite ltb_127_ofN. cbn [ks_loop fst snd].
    destruct (N.ltb_spec 127 x) as [H|H]; [cbn in Hx; lia|]. reflexivity.
  - cbn [Nat.add]. rewrite for_loop_S.
    pose proof (shiftr7_lt x f Hx) as Hx'.
    unfold ks_cond at 1. unfold ks_body at 1. unfold ks_post at 1. unfold exec_blk, ks_env. gg.
    rewrite ltb_127_ofN. cbn [ks_loop].
    destruct (N.ltb_spec 127 x) as [H|H]; [|reflexivity].
    gg.
    assert (E1 : shr_z 32 (Z.of_N x) 7 = Z.of_N (N.shiftr x 7)).
    { unfold shr_z. nc. cbv iota. change 7 with (Z.of_N 7). symmetry. apply ofN_shiftr. }
    assert (E2 : ity_norm TInt (s + 1) = s + 1) by (rewrite norm_int; apply wrap64_id'; lia).
    rewrite E1, E2.
    exact (IH k (s + 1) (N.shiftr x 7) Hx' ltac:(lia) ltac:(lia)).
Qed.

(* ... and what it computes: Codec's key size *)
Lemma ks_loop_size f : forall s x,
  fst (ks_loop f s x) + 1 = s + Z.of_N (gen_key_size_aux (S f) x).
Proof.
  induction f as [|f IH]; intros s x.
  - cbn [ks_loop fst gen_key_size_aux]. destruct (127 <? x)%N; reflexivity.
  - cbn [ks_loop]. change (gen_key_size_aux (S (S f)) x) with (if (127 <? x)%N then (1 + gen_key_size_aux (S f) (N.shiftr x 7))%N else 1%N).
    destruct (127 <? x)%N; [|cbn [fst]; reflexivity].
    rewrite IH. lia.
Qed.

(* the key word as the Go expression computes it *)
Lemma key_word_go n wt : (n < 2147483648)%N -> (wt < 128)%N ->
  Z.lor (ity_norm TUint32 (Z.shiftl (ity_norm TUint32 (Z.of_N n)) 3)) (ity_norm TUint32 (Z.of_N wt)) = Z.of_N (gen_key_word n wt).
Proof.
  intros Hn Hw. unfold gen_key_word, u32, two32. rewrite ofN_lor. f_equal.
  - unfold ity_norm. cbn [ity_mod ity_signed]. rewrite (Z.mod_small (Z.of_N n)) by lia.
    rewrite N2Z.inj_mod. change 3 with (Z.of_N 3). rewrite <- ofN_shiftl. reflexivity.
  - unfold ity_norm. cbn [ity_mod ity_signed]. apply Z.mod_small. lia.
Qed.
Lemma key_word_lt n wt : (wt < 128)%N -> (gen_key_word n wt < 4294967296)%N.
Proof.
  intro Hw. unfold gen_key_word. change 4294967296%N with (2 ^ 32)%N.
  assert (Ha : (u32 (N.shiftl n 3) < 2 ^ 32)%N) by (unfold u32, two32; apply N.mod_upper_bound; discriminate).
  assert (Hb : (wt < 2 ^ 32)%N) by (eapply N.lt_trans; [exact Hw|reflexivity]).
  set (a := u32 (N.shiftl n 3)) in *.
  destruct (N.eq_dec a 0) as [->|Ha0]; [rewrite N.lor_0_l; exact Hb|].
  destruct (N.eq_dec wt 0) as [->|Hb0]; [rewrite N.lor_0_r; exact Ha|].
  assert (Hl : (N.lor a wt <> 0)%N) by (intro E; apply N.lor_eq_0_iff in E; tauto).
  apply N.log2_lt_pow2; [lia|].
  apply N.log2_lt_pow2 in Ha; [|lia]. apply N.log2_lt_pow2 in Hb; [|lia].
  rewrite N.log2_lor. lia.
Qed.

Lemma keysize_run lf d args :
  gen_run canon_generator lf d "KeySize" args = run_fun (gen_resolve (gp_base canon_generator)) lf d "KeySize" args.
Proof. reflexivity. Qed.

Lemma keysize_prog_correct : keysize_prog_stmt.
Proof.
  intros n wt lf dp Hn Hw. rewrite keysize_run.
  change (gen_resolve (gp_base canon_generator)) with
    {| pg_globals := [canon_const_ProtoPkg];
       pg_funs := [ {| fn_name := "KeySize"; fn_params := [("fieldNumber"%gname, GoInt TInt32); ("wireType"%gname, GoInt TInt8)];
                       fn_results := [(""%gname, GoInt TInt)]; fn_body := fn_body canon_KeySize |};
                    gen_resolve_fun canon_ProtoWireType ] |}.
  enter. unfold canon_KeySize. cbn [fn_body].
  match goal with |- context [StFor ?a ?b ?c ?d] => set (L := StFor a b c d) end.
  gg. subst L. rewrite exec_for. ggcbn.
  unfold shl_z. nc. cbv iota.
  rewrite (key_word_go n wt Hn Hw).
  set (W := gen_key_word n wt).
  change (for_loop ?g ?c ?l _ _ _ _ _) with (for_loop g c l (Some ks_cond) ks_post ks_body (S 4 + lf) (ks_env 0 W (fnumv n) (wtypev wt))).
  rewrite ks_loop_go; [|eapply N.lt_trans; [apply key_word_lt; exact Hw|reflexivity]|lia|lia].
  unfold ks_env. gg.
  rewrite norm_int.
  pose proof (ks_loop_size 4 0 W) as HS. change (gen_key_size_aux 5 W) with (key_size n wt) in HS.
  assert (HK : (key_size n wt <= 5)%N).
  { unfold key_size. generalize (gen_key_word n wt). intro y. cbn [gen_key_size_aux].
    repeat match goal with |- context [if ?c then _ else _] => destruct c end; lia. }
  rewrite HS. rewrite wrap64_id' by lia. reflexivity.
Qed.

(* ================================================================ corollaries used by Properties/C02.v *)
(* on the legal tags (1 <= n < 2^29, every 3-bit wire type) the interpreted KeySize is the varint size of the tag *)
Lemma keysize_prog_sov : forall (n wt : N) (lf dp : nat), (1 <= n)%N -> (n < 536870912)%N -> (wt < 8)%N ->
  gen_run canon_generator (5 + lf) (1 + dp) "KeySize" [fnumv n; wtypev wt] = GOk [intv (Z.of_N (Sov (n * 8 + wt)))] [fnumv n; wtypev wt].
Proof.
  intros n wt lf dp H1 Hn Hw. rewrite keysize_prog_correct by lia. rewrite key_size_sov by assumption. reflexivity.
Qed.
