From CP Require Import Extra BytesLemmas RuntimeProofs ValInd.
From Coq Require Import Lia ZifyN ZifyNat ZifyBool Permutation.
Local Open Scope N_scope.

(* NOTE: the verbatim statement (without the hypothesis) is false when [mid] is not in the schema:
   emit [] false 0 (VMsg [] [x01]) = [] but emit [] false 0 (VMsg [] []) ++ [x01] = [x01]. *)
Lemma emit_unknown_last_partial sch det mid slots unk :
  get_msg sch mid <> None ->
  emit sch det mid (VMsg slots unk) = emit sch det mid (VMsg slots []) ++ unk.
Proof.
  intro Hm. cbn [emit]. destruct (get_msg sch mid) as [md|].
  - rewrite app_nil_r. reflexivity.
  - congruence.
Qed.

(* agreed form under the original name: hypothesis [mid] is in the schema *)
Lemma emit_unknown_last sch det mid slots unk :
  (mid < length sch)%nat -> emit sch det mid (VMsg slots unk) = emit sch det mid (VMsg slots []) ++ unk.
Proof.
  intro Hm. apply emit_unknown_last_partial. unfold get_msg. apply nth_error_Some. exact Hm.
Qed.

(* field_item: every success rebuilds a VMsg with the same unknown bytes *)
Lemma field_item_shape sch child md idx f wt msg rest msg' r :
  field_item sch child md idx f wt msg rest = Ok (msg', r) ->
  exists sl, msg' = VMsg sl (unk_of msg).
Proof.
  unfold field_item. intro H.
  destruct (f_shape f) as [|pk|oi|kk].
  - (* Singular *)
    destruct (wt =? ftype_wt (f_ty f)); [|discriminate].
    destruct (dec_item child (f_ty f) (nth idx (slots_of msg) VNil) rest) as [[v r']| | |]; try discriminate.
    injection H as <- <-. eexists; reflexivity.
  - (* Rep *)
    destruct (f_ty f) as [kd|m].
    + destruct (negb (kind_wt kd =? WT_BYTES)).
      * destruct (wt =? kind_wt kd).
        { destruct (dec_scalar kd rest) as [[v r']|]; [|discriminate].
          injection H as <- <-. eexists; reflexivity. }
        destruct (wt =? WT_BYTES); [|discriminate].
        destruct (dec_varint rest) as [[[raw n] rest2]|]; [|discriminate].
        destruct (s64 raw <? 0)%Z; [discriminate|].
        destruct (Z.of_nat (length rest2) <? s64 raw)%Z; [discriminate|].
        destruct (packed_loop (S (length rest2)) kd (s64 raw) (nth idx (slots_of msg) VNil) rest2) as [[s' r']| | |]; try discriminate.
        injection H as <- <-. eexists; reflexivity.
      * destruct (wt =? WT_BYTES); [|discriminate].
        destruct (dec_scalar kd rest) as [[v r']|]; [|discriminate].
        injection H as <- <-. eexists; reflexivity.
    + destruct (wt =? WT_BYTES); [|discriminate].
      destruct (dec_item child (TMsg m) VNil rest) as [[v r']| | |]; try discriminate.
      injection H as <- <-. eexists; reflexivity.
  - (* Member *)
    destruct (wt =? ftype_wt (f_ty f)); [|discriminate].
    match type of H with match ?X with _ => _ end = _ => destruct X as [[v r']| | |] end; try discriminate.
    injection H as <- <-. eexists; reflexivity.
  - (* MapOf *)
    destruct (wt =? WT_BYTES); [|discriminate].
    destruct (dec_varint rest) as [[[raw n] rest2]|]; [|discriminate].
    destruct (s64 raw <? 0)%Z; [discriminate|].
    destruct (Z.of_nat (length rest2) <? s64 raw)%Z; [discriminate|].
    match type of H with match ?X with _ => _ end = _ => destruct X as [[k v]| | |] end; try discriminate.
    injection H as <- <-. eexists; reflexivity.
Qed.

Lemma field_item_keeps_unknown sch child md idx f wt msg rest msg' r :
  field_item sch child md idx f wt msg rest = Ok (msg', r) -> unk_of msg' = unk_of msg.
Proof.
  intro H. apply field_item_shape in H. destruct H as [sl ->]. reflexivity.
Qed.
(* ---- unknown_step ---------------------------------------------------------------------- *)
Lemma zfirstn_app_exact {A} (a b : list A) : zfirstn (Z.of_nat (length a)) (a ++ b) = a.
Proof.
  unfold zfirstn. destruct a as [|x a'].
  - reflexivity.
  - destruct (Z.leb_spec (Z.of_nat (length (x :: a'))) 0) as [H|_]; [cbn in H; lia|].
    rewrite app_length.
    destruct (Z.leb_spec (Z.of_nat (length (x :: a') + length b)) (Z.of_nat (length (x :: a')))) as [H|H].
    + assert (length b = 0)%nat by lia. destruct b; [|discriminate]. apply app_nil_r.
    + rewrite Nat2Z.id. rewrite firstn_app, firstn_all, Nat.sub_diag. cbn [firstn]. apply app_nil_r.
Qed.

Lemma msg_loop_S_nonempty sch discard child md fu msg rest :
  rest <> [] ->
  msg_loop sch discard child md (S fu) msg rest =
  match dec_varint rest with
  | None => Err
  | Some (raw, _, rest1) =>
    let wire := u64 raw in
    let fieldNum := s32 (wire / 8) in
    let wt := wire mod 8 in
    if wt =? 4 then Err
    else if (fieldNum <=? 0)%Z then Err
    else
      match find_field (m_fields md) 0 fieldNum with
      | Some (idx, f) =>
        match field_item sch child md idx f wt msg rest1 with
        | Ok (msg', rest') => msg_loop sch discard child md fu msg' rest'
        | Err => Err | Panic => Panic | OutOfFuel => OutOfFuel
        end
      | None =>
        match Skip rest with
        | Ok skippy =>
          if (Z.of_nat (length rest) <? skippy)%Z then Err
          else
            let rec_bytes := zfirstn skippy rest in
            let msg' := if discard then msg else VMsg (slots_of msg) (unk_of msg ++ rec_bytes) in
            msg_loop sch discard child md fu msg' (zskipn skippy rest)
        | _ => Err
        end
      end
  end.
Proof. intro H. destruct rest as [|b t]; [congruence|]. reflexivity. Qed.

Lemma find_field_none fs i num :
  ~ In num (map f_num fs) -> find_field fs i (Z.of_N num) = None.
Proof.
  revert i. induction fs as [|f fs IH]; intros i Hn; cbn [find_field]; [reflexivity|].
  cbn [map In] in Hn.
  destruct (Z.eqb_spec (Z.of_N (f_num f)) (Z.of_N num)) as [E|E].
  - exfalso. apply Hn. left. lia.
  - apply IH. intro Hi. apply Hn. right. exact Hi.
Qed.

(* the head of an encoded record: a tag with wire type other than 4 *)
Lemma enc_wrec_head r :
  exists wt tl, enc_wrec r = tag (rec_num r) wt ++ tl /\ wt < 8 /\ wt <> 4.
Proof.
  destruct r as [num v|num p|num p|num body e|num p]; cbn [enc_wrec rec_num].
  - exists 0, (enc_varint v). repeat split; lia.
  - exists 1, p. repeat split; lia.
  - exists 2, (enc_varint (N.of_nat (length p)) ++ p). repeat split; lia.
  - exists 3, (flat_map enc_wrec body ++ tag e 4). repeat split; lia.
  - exists 5, p. repeat split; lia.
Qed.

Lemma wf_wrec_num_ok r : wf_wrec r -> num_ok (rec_num r).
Proof. destruct r; cbn [wf_wrec rec_num]; intro H; apply H. Qed.

Lemma enc_wrec_nonempty r : enc_wrec r <> [].
Proof.
  destruct (enc_wrec_head r) as (wt & tl & E & _). rewrite E. intro H.
  apply app_eq_nil in H. destruct H as [H _]. exact (tag_nonempty _ _ H).
Qed.

Lemma s32_small x : x < two31 -> s32 x = Z.of_N x.
Proof.
  intro H. unfold s32. rewrite N.mod_small by (unfold two32, two31 in *; lia).
  destruct (N.ltb_spec x two31); [reflexivity|lia].
Qed.

Lemma unknown_step sch discard child md fuel msg r rest :
  wf_wrec r -> 1 <= rec_num r -> rec_num r < 536870912 -> ~ In (rec_num r) (map f_num (m_fields md)) ->
  (Z.of_nat (length (enc_wrec r ++ rest)) < Z.of_N two63)%Z ->
  msg_loop sch discard child md (S fuel) msg (enc_wrec r ++ rest) =
  msg_loop sch discard child md fuel (if discard then msg else VMsg (slots_of msg) (unk_of msg ++ enc_wrec r)) rest.
Proof.
  intros Hwf H1 H29 Hnin Hlen.
  rewrite msg_loop_S_nonempty.
  2:{ intro E. apply app_eq_nil in E. destruct E as [E _]. exact (enc_wrec_nonempty _ E). }
  rewrite (skip_wellformed_record r rest Hwf Hlen).
  destruct (enc_wrec_head r) as (wt & tl & E & Hwt & Hwt4).
  pose proof (wf_wrec_num_ok r Hwf) as Hnum.
  set (num := rec_num r) in *.
  assert (Hdv : dec_varint (enc_wrec r ++ rest) = Some (num * 8 + wt, length (tag num wt), tl ++ rest)).
  { rewrite E, <- app_assoc. apply dec_tag; assumption. }
  rewrite Hdv. cbv zeta.
  assert (Hu : u64 (num * 8 + wt) = num * 8 + wt).
  { unfold u64. apply N.mod_small. unfold two64. lia. }
  rewrite Hu.
  assert (Hdiv : (num * 8 + wt) / 8 = num).
  { symmetry. apply (N.div_unique (num * 8 + wt) 8 num wt); [exact Hwt|lia]. }
  assert (Hmod : (num * 8 + wt) mod 8 = wt).
  { symmetry. apply (N.mod_unique (num * 8 + wt) 8 num wt); [exact Hwt|lia]. }
  rewrite Hdiv, Hmod.
  rewrite s32_small by (unfold two31; lia).
  destruct (N.eqb_spec wt 4) as [?|_]; [contradiction|].
  destruct (Z.leb_spec (Z.of_N num) 0) as [?|_]; [lia|].
  rewrite find_field_none by exact Hnin.
  destruct (Z.ltb_spec (Z.of_nat (length (enc_wrec r ++ rest))) (Z.of_nat (length (enc_wrec r)))) as [Hl|_].
  { rewrite app_length in Hl. lia. }
  rewrite zfirstn_app_exact, zskipn_app_exact. reflexivity.
Qed.

(* ---- sequences of unknown records ------------------------------------------------------- *)
Definition add_unk (discard : bool) (msg : val) (r : wrec) : val :=
  if discard then msg else VMsg (slots_of msg) (unk_of msg ++ enc_wrec r).

Lemma unknown_records_loop sch discard child md rs :
  forall fuel msg,
  (length rs < fuel)%nat -> unknown_records_ok md rs ->
  (Z.of_nat (length (flat_map enc_wrec rs)) < Z.of_N two63)%Z ->
  msg_loop sch discard child md fuel msg (flat_map enc_wrec rs) = Ok (fold_left (add_unk discard) rs msg).
Proof.
  induction rs as [|r rs IH]; intros fuel msg Hf Hok Hlen.
  - destruct fuel as [|fuel]; [cbn in Hf; lia|]. reflexivity.
  - destruct fuel as [|fuel]; [cbn in Hf; lia|].
    cbn [length] in Hf. cbn [flat_map] in *.
    inversion Hok as [|r' rs' Hr Hrs]; subst r' rs'.
    destruct Hr as (Hwf & H1 & H29 & Hnin).
    rewrite unknown_step by assumption.
    cbn [fold_left]. fold (add_unk discard msg r).
    apply IH; [lia|exact Hrs|]. rewrite app_length in Hlen. lia.
Qed.

Lemma flat_enc_length_ge rs : (length rs <= length (flat_map enc_wrec rs))%nat.
Proof.
  induction rs as [|r rs IH]; cbn [flat_map length]; [lia|].
  rewrite app_length. pose proof (enc_wrec_nonempty r) as Hne.
  destruct (enc_wrec r); [congruence|]. cbn [length]. lia.
Qed.

Lemma fold_add_unk_true rs msg : fold_left (add_unk true) rs msg = msg.
Proof. induction rs as [|r rs IH]; cbn [fold_left]; [reflexivity|]. exact IH. Qed.

Lemma fold_add_unk_false rs : forall slots unk,
  fold_left (add_unk false) rs (VMsg slots unk) = VMsg slots (unk ++ flat_map enc_wrec rs).
Proof.
  induction rs as [|r rs IH]; intros slots unk; cbn [fold_left flat_map].
  - rewrite app_nil_r. reflexivity.
  - unfold add_unk at 2. cbn [slots_of unk_of]. rewrite IH, app_assoc. reflexivity.
Qed.

(* NOTE: the originally proposed statement quantified over an arbitrary [msg] and concluded
   Ok (VMsg (slots_of msg) (unk_of msg ++ ...)); that is false for msg := VNil, rs := [] (the loop
   returns Ok VNil). This is the agreed VMsg form; the general form is [unknown_records_kept_partial]. *)
Lemma unknown_records_kept sch child md slots unk rs :
  unknown_records_ok md rs -> (Z.of_nat (length (flat_map enc_wrec rs)) < Z.of_N two63)%Z ->
  msg_loop sch false child md (S (length (flat_map enc_wrec rs))) (VMsg slots unk) (flat_map enc_wrec rs) =
  Ok (VMsg slots (unk ++ flat_map enc_wrec rs)).
Proof.
  intros Hok Hlen. rewrite (unknown_records_loop sch false child md rs); [|pose proof (flat_enc_length_ge rs); lia|exact Hok|exact Hlen].
  rewrite fold_add_unk_false. reflexivity.
Qed.

Lemma unknown_records_kept_partial sch child md msg rs :
  (rs = [] -> exists s u, msg = VMsg s u) ->
  unknown_records_ok md rs -> (Z.of_nat (length (flat_map enc_wrec rs)) < Z.of_N two63)%Z ->
  msg_loop sch false child md (S (length (flat_map enc_wrec rs))) msg (flat_map enc_wrec rs) =
  Ok (VMsg (slots_of msg) (unk_of msg ++ flat_map enc_wrec rs)).
Proof.
  intros Hm Hok Hlen. rewrite (unknown_records_loop sch false child md rs); [|pose proof (flat_enc_length_ge rs); lia|exact Hok|exact Hlen].
  destruct rs as [|r rs].
  - destruct (Hm eq_refl) as (s & u & ->). cbn [fold_left flat_map slots_of unk_of]. rewrite app_nil_r. reflexivity.
  - cbn [fold_left flat_map]. unfold add_unk at 2. rewrite fold_add_unk_false, app_assoc. reflexivity.
Qed.

Lemma unknown_records_discarded sch child md msg rs :
  unknown_records_ok md rs -> (Z.of_nat (length (flat_map enc_wrec rs)) < Z.of_N two63)%Z ->
  msg_loop sch true child md (S (length (flat_map enc_wrec rs))) msg (flat_map enc_wrec rs) = Ok msg.
Proof.
  intros Hok Hlen. rewrite (unknown_records_loop sch true child md rs); [|pose proof (flat_enc_length_ge rs); lia|exact Hok|exact Hlen].
  rewrite fold_add_unk_true. reflexivity.
Qed.

(* ---- DiscardUnknown = strip_unknown after decoding ---------------------------------------- *)
Definition strip_pair (p : val * list byte) : val * list byte := (strip_unknown (fst p), snd p).
Definition strip_kv (kv : val * val) : val * val := (fst kv, strip_unknown (snd kv)).

Definition child_rel (ct cf : child_t) : Prop :=
  forall m target payload, ct m (strip_unknown target) payload = out_map strip_unknown (cf m target payload).

Lemma strip_zero_scalar k : strip_unknown (zero_scalar k) = zero_scalar k.
Proof. destruct k; reflexivity. Qed.

Lemma strip_default_slot f : strip_unknown (default_slot f) = default_slot f.
Proof.
  unfold default_slot. destruct (f_shape f); destruct (f_ty f); try reflexivity. apply strip_zero_scalar.
Qed.

Lemma strip_empty_msg md : strip_unknown (empty_msg md) = empty_msg md.
Proof.
  unfold empty_msg. cbn [strip_unknown]. f_equal. rewrite map_map. apply map_ext. intro f. apply strip_default_slot.
Qed.

Lemma strip_map_value_init sch t : strip_unknown (map_value_init (get_msg sch) t) = map_value_init (get_msg sch) t.
Proof.
  unfold map_value_init. destruct t as [k|m]; [apply strip_zero_scalar|].
  destruct (get_msg sch m) as [md|]; [apply strip_empty_msg|reflexivity].
Qed.

Lemma strip_varint_val k raw : strip_unknown (varint_val k raw) = varint_val k raw.
Proof. destruct k; reflexivity. Qed.
Lemma strip_fixed_val k n : strip_unknown (fixed_val k n) = fixed_val k n.
Proof. destruct k; reflexivity. Qed.

Lemma dec_scalar_strip k rest v r : dec_scalar k rest = Some (v, r) -> strip_unknown v = v.
Proof.
  unfold dec_scalar. intro H.
  destruct k;
    try (destruct (take_fixed 8 rest) as [[n r']|]; [|discriminate]; injection H as <- <-; first [reflexivity|apply strip_fixed_val]);
    try (destruct (take_fixed 4 rest) as [[n r']|]; [|discriminate]; injection H as <- <-; first [reflexivity|apply strip_fixed_val]);
    try (destruct (take_len rest) as [[p r']|]; [|discriminate]; injection H as <- <-; reflexivity);
    try (destruct (dec_varint rest) as [[[raw n] r']|]; [|discriminate]; injection H as <- <-; first [reflexivity|apply strip_varint_val]).
Qed.

Lemma slots_of_strip msg : slots_of (strip_unknown msg) = map strip_unknown (slots_of msg).
Proof. destruct msg; reflexivity. Qed.
Lemma unk_of_strip msg : unk_of (strip_unknown msg) = [].
Proof. destruct msg; reflexivity. Qed.

Lemma nth_strip idx l : nth idx (map strip_unknown l) VNil = strip_unknown (nth idx l VNil).
Proof. exact (map_nth strip_unknown l VNil idx). Qed.

Lemma set_nth_map {A B} (g : A -> B) l i x : map g (set_nth l i x) = set_nth (map g l) i (g x).
Proof.
  revert i. induction l as [|h t IH]; intro i; [reflexivity|].
  destruct i as [|j]; cbn [set_nth map]; [reflexivity|]. rewrite IH. reflexivity.
Qed.

Lemma clear_oneof_strip fs ss oi :
  clear_oneof fs (map strip_unknown ss) oi = map strip_unknown (clear_oneof fs ss oi).
Proof.
  revert ss. induction fs as [|f fs IH]; intros ss; [destruct ss; reflexivity|].
  destruct ss as [|s ss]; [reflexivity|].
  cbn [clear_oneof map]. rewrite IH. f_equal.
  destruct (f_shape f) as [| |j|]; try reflexivity. destruct (Nat.eqb j oi); reflexivity.
Qed.

Lemma list_append_strip s v : list_append (strip_unknown s) (strip_unknown v) = strip_unknown (list_append s v).
Proof.
  destruct s; try reflexivity. cbn [strip_unknown list_append]. rewrite map_app. reflexivity.
Qed.

Lemma list_append_strip_scalar s v :
  strip_unknown v = v -> list_append (strip_unknown s) v = strip_unknown (list_append s v).
Proof. intro H. rewrite <- list_append_strip, H. reflexivity. Qed.

Lemma map_set_strip kvs k v :
  map_set (map strip_kv kvs) k (strip_unknown v) = map strip_kv (map_set kvs k v).
Proof.
  induction kvs as [|[k' v'] t IH]; [reflexivity|].
  cbn [map map_set strip_kv fst snd].
  destruct (val_key_eqb k' k); [reflexivity|].
  cbn [map strip_kv fst snd]. fold (strip_kv). rewrite IH. reflexivity.
Qed.

Lemma member_target_strip s :
  (match strip_unknown s with VSome p => p | _ => VNil end) =
  strip_unknown (match s with VSome p => p | _ => VNil end).
Proof. destruct s; reflexivity. Qed.

Lemma map_kvs_strip s :
  (match strip_unknown s with VMap kvs => kvs | _ => [] end) =
  map strip_kv (match s with VMap kvs => kvs | _ => [] end).
Proof. destruct s; reflexivity. Qed.

Lemma init_strip md target :
  (match strip_unknown target with VMsg _ _ => strip_unknown target | _ => empty_msg md end) =
  strip_unknown (match target with VMsg _ _ => target | _ => empty_msg md end).
Proof. destruct target; try (symmetry; apply strip_empty_msg). reflexivity. Qed.

Lemma packed_loop_strip kd : forall fuel k acc rest,
  packed_loop fuel kd k (strip_unknown acc) rest = out_map strip_pair (packed_loop fuel kd k acc rest).
Proof.
  induction fuel as [|fuel IH]; intros k acc rest; [reflexivity|].
  cbn [packed_loop]. destruct (k <=? 0)%Z; [reflexivity|].
  destruct (dec_scalar kd rest) as [[v r]|] eqn:Ed; [|reflexivity].
  apply dec_scalar_strip in Ed. rewrite (list_append_strip_scalar acc v Ed). apply IH.
Qed.

Lemma dec_item_strip ct cf t target rest :
  child_rel ct cf ->
  dec_item ct t (strip_unknown target) rest = out_map strip_pair (dec_item cf t target rest).
Proof.
  intro Hrel. unfold dec_item. destruct t as [k|m].
  - destruct (dec_scalar k rest) as [[v r]|] eqn:Ed; [|reflexivity].
    apply dec_scalar_strip in Ed. unfold strip_pair. cbn [out_map fst snd]. rewrite Ed. reflexivity.
  - destruct (take_len rest) as [[payload r]|]; [|reflexivity].
    rewrite Hrel. destruct (cf m target payload); reflexivity.
Qed.

Lemma dec_item_strip_nil ct cf t rest :
  child_rel ct cf ->
  dec_item ct t VNil rest = out_map strip_pair (dec_item cf t VNil rest).
Proof. intro Hrel. exact (dec_item_strip ct cf t VNil rest Hrel). Qed.

Lemma entry_loop_strip ct cf kk t :
  child_rel ct cf ->
  forall fuel k key value rest,
  entry_loop ct fuel kk t k key (strip_unknown value) rest =
  out_map strip_kv (entry_loop cf fuel kk t k key value rest).
Proof.
  intro Hrel. induction fuel as [|fuel IH]; intros k key value rest; [reflexivity|].
  cbn [entry_loop]. destruct (k <=? 0)%Z; [reflexivity|].
  destruct (dec_varint rest) as [[[raw n] rest1]|]; [|reflexivity].
  cbv zeta.
  destruct (s32 (u64 raw / 8) =? 1)%Z.
  { destruct (dec_scalar kk rest1) as [[v r]|]; [|reflexivity].
    destruct (k - (Z.of_nat (length rest) - Z.of_nat (length r)) <? 0)%Z; [reflexivity|]. apply IH. }
  destruct (s32 (u64 raw / 8) =? 2)%Z.
  { destruct t as [kd|m].
    - destruct (dec_scalar kd rest1) as [[v r]|] eqn:Ed; [|reflexivity].
      destruct (k - (Z.of_nat (length rest) - Z.of_nat (length r)) <? 0)%Z; [reflexivity|].
      apply dec_scalar_strip in Ed. rewrite <- Ed at 1. apply IH.
    - destruct (take_len rest1) as [[payload r]|]; [|reflexivity].
      destruct (k - (Z.of_nat (length rest) - Z.of_nat (length r)) <? 0)%Z; [reflexivity|].
      rewrite Hrel. destruct (cf m value payload) as [v| | |]; try reflexivity.
      cbn [out_map]. apply IH. }
  destruct (Skip rest) as [skippy| | |]; try reflexivity.
  destruct (k <? skippy)%Z; [reflexivity|]. apply IH.
Qed.

Lemma strip_put sl idx v u :
  VMsg (set_nth (map strip_unknown sl) idx (strip_unknown v)) [] = strip_unknown (VMsg (set_nth sl idx v) u).
Proof. cbn [strip_unknown]. rewrite set_nth_map. reflexivity. Qed.

Lemma field_item_strip sch ct cf md idx f wt msg rest :
  child_rel ct cf ->
  field_item sch ct md idx f wt (strip_unknown msg) rest =
  out_map strip_pair (field_item sch cf md idx f wt msg rest).
Proof.
  intro Hrel. unfold field_item.
  rewrite slots_of_strip, unk_of_strip, nth_strip.
  set (sl := slots_of msg). set (u := unk_of msg). set (s := nth idx sl VNil).
  destruct (f_shape f) as [|pk|oi|kk].
  - (* Singular *)
    destruct (wt =? ftype_wt (f_ty f)); [|reflexivity].
    rewrite (dec_item_strip ct cf (f_ty f) s rest Hrel).
    destruct (dec_item cf (f_ty f) s rest) as [[v r]| | |]; try reflexivity.
    unfold strip_pair. cbn [out_map fst snd]. rewrite <- strip_put. reflexivity.
  - (* Rep *)
    destruct (f_ty f) as [kd|m].
    + destruct (negb (kind_wt kd =? WT_BYTES)).
      * destruct (wt =? kind_wt kd).
        { destruct (dec_scalar kd rest) as [[v r]|] eqn:Ed; [|reflexivity].
          apply dec_scalar_strip in Ed.
          unfold strip_pair. cbn [out_map fst snd].
          rewrite (list_append_strip_scalar s v Ed), <- strip_put. reflexivity. }
        destruct (wt =? WT_BYTES); [|reflexivity].
        destruct (dec_varint rest) as [[[raw n] rest2]|]; [|reflexivity].
        cbv zeta.
        destruct (s64 raw <? 0)%Z; [reflexivity|].
        destruct (Z.of_nat (length rest2) <? s64 raw)%Z; [reflexivity|].
        rewrite packed_loop_strip.
        destruct (packed_loop (S (length rest2)) kd (s64 raw) s rest2) as [[s' r]| | |]; try reflexivity.
        unfold strip_pair. cbn [out_map fst snd]. rewrite <- strip_put. reflexivity.
      * destruct (wt =? WT_BYTES); [|reflexivity].
        destruct (dec_scalar kd rest) as [[v r]|] eqn:Ed; [|reflexivity].
        apply dec_scalar_strip in Ed.
        unfold strip_pair. cbn [out_map fst snd].
        rewrite (list_append_strip_scalar s v Ed), <- strip_put. reflexivity.
    + destruct (wt =? WT_BYTES); [|reflexivity].
      rewrite (dec_item_strip_nil ct cf (TMsg m) rest Hrel).
      destruct (dec_item cf (TMsg m) VNil rest) as [[v r]| | |]; try reflexivity.
      unfold strip_pair. cbn [out_map fst snd].
      rewrite list_append_strip, <- strip_put. reflexivity.
  - (* Member *)
    destruct (wt =? ftype_wt (f_ty f)); [|reflexivity].
    rewrite member_target_strip.
    rewrite (dec_item_strip ct cf (f_ty f) _ rest Hrel).
    destruct (dec_item cf (f_ty f) (match s with VSome p => p | _ => VNil end) rest) as [[v r]| | |]; try reflexivity.
    unfold strip_pair. cbn [out_map fst snd].
    rewrite clear_oneof_strip.
    change (VSome (strip_unknown v)) with (strip_unknown (VSome v)).
    rewrite <- strip_put. reflexivity.
  - (* MapOf *)
    destruct (wt =? WT_BYTES); [|reflexivity].
    destruct (dec_varint rest) as [[[raw n] rest2]|]; [|reflexivity].
    cbv zeta.
    destruct (s64 raw <? 0)%Z; [reflexivity|].
    destruct (Z.of_nat (length rest2) <? s64 raw)%Z; [reflexivity|].
    rewrite map_kvs_strip.
    rewrite <- (strip_map_value_init sch (f_ty f)) at 1.
    rewrite (entry_loop_strip ct cf kk (f_ty f) Hrel).
    destruct (entry_loop cf (S (length rest2)) kk (f_ty f) (s64 raw) (zero_scalar kk)
                (map_value_init (get_msg sch) (f_ty f)) rest2) as [[k v]| | |]; try reflexivity.
    unfold strip_pair, strip_kv at 1. cbn [out_map fst snd].
    rewrite map_set_strip.
    change (VMap (map strip_kv (map_set (match s with VMap kvs => kvs | _ => [] end) k v)))
      with (strip_unknown (VMap (map_set (match s with VMap kvs => kvs | _ => [] end) k v))).
    rewrite <- strip_put. reflexivity.
Qed.

Lemma msg_loop_strip sch ct cf md :
  child_rel ct cf ->
  forall fuel msg rest, (exists sl u, msg = VMsg sl u) ->
  msg_loop sch true ct md fuel (strip_unknown msg) rest =
  out_map strip_unknown (msg_loop sch false cf md fuel msg rest).
Proof.
  intro Hrel. induction fuel as [|fuel IH]; intros msg rest Hmsg; [reflexivity|].
  destruct rest as [|b t]; [reflexivity|].
  rewrite !msg_loop_S_nonempty by discriminate.
  destruct (dec_varint (b :: t)) as [[[raw n] rest1]|]; [|reflexivity].
  cbv zeta.
  destruct (u64 raw mod 8 =? 4); [reflexivity|].
  destruct (s32 (u64 raw / 8) <=? 0)%Z; [reflexivity|].
  destruct (find_field (m_fields md) 0 (s32 (u64 raw / 8))) as [[idx f]|].
  - rewrite (field_item_strip sch ct cf md idx f _ msg rest1 Hrel).
    destruct (field_item sch cf md idx f (u64 raw mod 8) msg rest1) as [[msg' r]| | |] eqn:Ef; try reflexivity.
    apply field_item_shape in Ef. destruct Ef as [sl' ->].
    unfold strip_pair. cbn [out_map fst snd].
    apply IH. eexists; eexists; reflexivity.
  - destruct (Skip (b :: t)) as [skippy| | |]; try reflexivity.
    destruct (Z.of_nat (length (b :: t)) <? skippy)%Z; [reflexivity|].
    destruct Hmsg as (sl & u & ->). cbn [slots_of unk_of].
    change (strip_unknown (VMsg sl u)) with (strip_unknown (VMsg sl (u ++ zfirstn skippy (b :: t)))).
    apply IH. eexists; eexists; reflexivity.
Qed.

Lemma unmarshal_at_strip sch : forall fuel depth mid target bs,
  unmarshal_at sch true fuel depth mid (strip_unknown target) bs =
  out_map strip_unknown (unmarshal_at sch false fuel depth mid target bs).
Proof.
  induction fuel as [|fuel IH]; intros depth mid target bs; [reflexivity|].
  cbn [unmarshal_at]. destruct (depth <=? 0)%Z; [reflexivity|].
  destruct (get_msg sch mid) as [md|]; [|reflexivity].
  rewrite init_strip.
  apply msg_loop_strip.
  - intros m tg payload. apply IH.
  - destruct target; unfold empty_msg; eexists; eexists; reflexivity.
Qed.

Lemma discard_strip sch mid bs :
  pulsar_unmarshal sch true mid VNil bs = out_map strip_unknown (pulsar_unmarshal sch false mid VNil bs).
Proof. unfold pulsar_unmarshal. exact (unmarshal_at_strip sch _ _ mid VNil bs). Qed.
