(* Proofs/KeyBytes.v — the generation-time key helpers (KeySize / encodeKey) produce the protobuf
   tag varint, for every legal field number (C02). *)
From CP Require Import Extra BytesLemmas RuntimeProofs ValInd.
From Coq Require Import Lia ZifyN ZifyNat ZifyBool Permutation.
Local Open Scope N_scope.

Lemma lor_shiftl3_small a w : w < 8 -> N.lor (N.shiftl a 3) w = a * 8 + w.
Proof.
  intro Hw.
  assert (Hland : N.land (N.shiftl a 3) w = 0).
  { apply N.bits_inj_iff. intro n. rewrite N.land_spec, N.bits_0.
    destruct (N.ltb_spec n 3) as [Hn|Hn].
    - rewrite N.shiftl_spec_low by exact Hn. reflexivity.
    - replace (N.testbit w n) with false; [apply andb_false_r|].
      symmetry. rewrite <- (N.mod_small w (2 ^ n)).
      + apply N.mod_pow2_bits_high. lia.
      + eapply N.lt_le_trans; [exact Hw|]. change 8 with (2 ^ 3).
        apply N.pow_le_mono_r; [discriminate | exact Hn]. }
  rewrite <- N.lxor_lor by exact Hland.
  rewrite <- N.add_nocarry_lxor by exact Hland.
  rewrite N.shiftl_mul_pow2. reflexivity.
Qed.

Lemma gen_key_word_eq num wt : num < 536870912 -> wt < 8 -> gen_key_word num wt = num * 8 + wt.
Proof.
  intros Hn Hw. unfold gen_key_word, u32.
  rewrite N.mod_small.
  - apply lor_shiftl3_small. exact Hw.
  - rewrite N.shiftl_mul_pow2. change (2 ^ 3) with 8. unfold two32. lia.
Qed.

Lemma gen_key_bytes_aux_enc f : forall g x, (f <= g)%nat -> x < 128 ^ N.of_nat (S f) ->
  gen_key_bytes_aux (S f) x = enc_varint_aux (S g) x.
Proof.
  induction f as [|f IH]; intros g x Hfg Hx.
  - change (128 ^ N.of_nat 1) with 128 in Hx.
    cbn [gen_key_bytes_aux enc_varint_aux].
    destruct (N.ltb_spec 127 x) as [H1|H1]; [lia|].
    destruct (N.ltb_spec x 128) as [H2|H2]; [reflexivity|lia].
  - destruct g as [|g]; [lia|].
    remember (S f) as f1. remember (S g) as g1.
    cbn [gen_key_bytes_aux enc_varint_aux].
    destruct (N.ltb_spec 127 x) as [H1|H1]; destruct (N.ltb_spec x 128) as [H2|H2]; try lia.
    + rewrite (N.lor_comm 128). f_equal. subst f1 g1. apply IH; [lia|].
      rewrite N.shiftr_div_pow2. change (2 ^ 7) with 128.
      apply N.div_lt_upper_bound; [discriminate|].
      replace (N.of_nat (S (S f))) with (1 + N.of_nat (S f)) in Hx by lia.
      rewrite N.pow_add_r in Hx. exact Hx.
    + reflexivity.
Qed.

Lemma key_bytes_tag num wt : 1 <= num -> num < 536870912 -> wt < 8 -> key_bytes num wt = tag num wt.
Proof.
  intros H1 Hn Hw. unfold key_bytes, tag, enc_varint.
  rewrite gen_key_word_eq by assumption.
  apply gen_key_bytes_aux_enc; [lia|].
  change (128 ^ N.of_nat 5) with 34359738368. lia.
Qed.

Lemma gen_key_size_aux_length f x : gen_key_size_aux f x = N.of_nat (length (gen_key_bytes_aux f x)).
Proof.
  revert x. induction f as [|f IH]; intro x; [reflexivity|].
  cbn [gen_key_size_aux gen_key_bytes_aux].
  destruct (127 <? x).
  - cbn [length]. rewrite IH. lia.
  - reflexivity.
Qed.

Lemma key_size_length num wt : key_size num wt = N.of_nat (length (key_bytes num wt)).
Proof. apply gen_key_size_aux_length. Qed.

Lemma key_size_sov num wt : 1 <= num -> num < 536870912 -> wt < 8 -> key_size num wt = Sov (num * 8 + wt).
Proof.
  intros H1 Hn Hw. rewrite key_size_length, key_bytes_tag by assumption.
  unfold tag. apply enc_varint_length. unfold two64. lia.
Qed.
