(* Proofs/ReflectMiscProgProofs.v — the canonical bodies of the remaining methods of fastReflection_T (Model/ReflectMiscProg.v:
   ProtoReflect, Descriptor, Type, New, Interface, GetUnknown, SetUnknown, IsValid, ProtoMethods, and Zero / New / Descriptor
   of fastReflection_T_messageType — what proto_message.go / type.go print for a message type), run by the interpreter, are
   Reflect.step on OGetUnknown / OSetUnknown / OIsValid / ONew / ONil for ALL schemas, heaps and receivers (task T18). *)
From Coq Require Import List Arith NArith Bool Lia.
From CP Require Import Reflect ReflectProg ReflectMiscProg.
Import ListNotations.
Local Open Scope nat_scope.

(* ------------------------------------------------------------------ the single methods *)
Lemma getunknown_prog : getunknown_prog_stmt.
Proof.
  intros sch h mid p. unfold run_mz_getunknown. cbn [canon_mzprogs z_getunknown exec_mzbody mz_is_nil].
  destruct p as [id|].
  - cbn [eval_mzexpr mzval_fits snd mz_pval step].
    destruct (recv_obj sch h mid (Some id)) as [ob|]; reflexivity.
  - cbn. unfold new_obj. destruct (get_msg sch mid); reflexivity.
Qed.

Lemma setunknown_prog : setunknown_prog_stmt.
Proof.
  intros sch h mid p u. unfold run_mz_setunknown. cbn [canon_mzprogs z_setunknown exec_mzbody].
  destruct p as [id|].
  - cbn [step]. destruct (recv_obj sch h mid (Some id)) as [ob|]; reflexivity.
  - reflexivity.
Qed.

Lemma isvalid_prog : isvalid_prog_stmt.
Proof. intros sch h mid p. destruct p; reflexivity. Qed.

Lemma misc_nil_receiver : misc_nil_receiver_stmt.
Proof. intros sch h mid u ps. repeat split; reflexivity. Qed.

Lemma new_prog : new_prog_stmt.
Proof. intros sch h mid p. reflexivity. Qed.

Lemma protoreflect_prog : protoreflect_prog_stmt.
Proof.
  intros sch h mid p. unfold run_mz_protoreflect. cbn [canon_mzprogs z_protoreflect exec_mzbody eval_mzexpr].
  rewrite Nat.eqb_refl. reflexivity.
Qed.

Lemma type_new_prog : type_new_prog_stmt.
Proof. intros sch h mid p. reflexivity. Qed.

Lemma type_zero_prog : type_zero_prog_stmt.
Proof. intros sch h mid p. reflexivity. Qed.

Lemma interface_identity : interface_identity_stmt.
Proof.
  intros sch h mid p. unfold run_mz_interface_reflect. cbn [canon_mzprogs z_interface exec_mzbody eval_mzexpr].
  rewrite Nat.eqb_refl. cbn [mzval_fits snd canon_mz]. apply protoreflect_prog.
Qed.

Lemma descriptor_prog : descriptor_prog_stmt.
Proof. intros sch h mid p. repeat split; reflexivity. Qed.

(* ------------------------------------------------------------------ the Methods table *)
Lemma mzclos_eqb_eq a b : mzclos_eqb a b = true <-> a = b.
Proof. destruct a, b; cbn; split; congruence. Qed.
Lemma mzentry_eqb_eq a b : mzentry_eqb a b = true <-> a = b.
Proof.
  destruct a as [|c], b as [|c']; cbn; try (split; congruence).
  rewrite mzclos_eqb_eq. split; congruence.
Qed.

Lemma methods_prog : methods_prog_stmt.
Proof.
  intros sch mid x. split; [reflexivity|]. split; [reflexivity|].
  intros l H. unfold mzlit_okb in H.
  repeat (apply andb_prop in H; destruct H as [H ?]).
  repeat match goal with E : mzentry_eqb _ _ = true |- _ => apply mzentry_eqb_eq in E end.
  apply N.eqb_eq in H. repeat split; assumption.
Qed.

(* ------------------------------------------------------------------ all at once *)
Lemma reflect_misc_prog_correct : reflect_misc_prog_correct_stmt.
Proof.
  intros sch h o. unfold rmz_step, canon_mz.
  destruct o; try reflexivity.
  - (* OGetUnknown *) destruct r; try reflexivity. apply getunknown_prog.
  - (* OSetUnknown *) destruct r; try reflexivity. apply setunknown_prog.
  - (* OIsValid *) destruct r; try reflexivity. apply isvalid_prog.
  - (* ONew *) cbn [halloc]. rewrite protoreflect_prog. reflexivity.
  - (* ONil *) rewrite protoreflect_prog. reflexivity.
Qed.

Lemma reflect_misc_prog_correct_ok : reflect_misc_prog_correct_ok_stmt.
Proof. intros sch h o _ _. apply reflect_misc_prog_correct. Qed.

(* ------------------------------------------------------------------ decidable equality *)
Lemma mzexpr_eqb_eq a b : mzexpr_eqb a b = true <-> a = b.
Proof.
  destruct a, b; cbn; try (split; congruence); rewrite Nat.eqb_eq; split; congruence.
Qed.
Lemma mzstmt_eqb_eq a b : mzstmt_eqb a b = true <-> a = b.
Proof.
  destruct a, b; cbn; try (split; congruence); rewrite mzexpr_eqb_eq; split; congruence.
Qed.
Lemma mzflag_eqb_eq a b : mzflag_eqb a b = true <-> a = b.
Proof. destruct a, b; cbn; split; congruence. Qed.
Lemma rp_list_eqb_eq {A} (eqb : A -> A -> bool) (E : forall a b, eqb a b = true <-> a = b) l l' :
  rp_list_eqb eqb l l' = true <-> l = l'.
Proof.
  revert l'. induction l as [|x l IH]; intros [|y l']; cbn; try (split; congruence).
  rewrite andb_true_iff, E, IH. split; [intros [-> ->]; reflexivity | intros H; inversion H; auto].
Qed.
Lemma mzbody_eqb_eq a b : mzbody_eqb a b = true <-> a = b.
Proof. apply rp_list_eqb_eq, mzstmt_eqb_eq. Qed.
Lemma mzlit_eqb_eq a b : mzlit_eqb a b = true <-> a = b.
Proof.
  destruct a as [f1 a1 a2 a3 a4 a5], b as [f2 b1 b2 b3 b4 b5]. unfold mzlit_eqb.
  cbn [zl_flags zl_size zl_marshal zl_unmarshal zl_merge zl_checkinit].
  rewrite !andb_true_iff, !mzentry_eqb_eq, (rp_list_eqb_eq mzflag_eqb mzflag_eqb_eq).
  split; [intros [[[[[-> ->] ->] ->] ->] ->]; reflexivity | intros H; inversion H; auto 10].
Qed.
Lemma mzmethods_eqb_eq a b : mzmethods_eqb a b = true <-> a = b.
Proof.
  destruct a as [l1 t1], b as [l2 t2]. unfold mzmethods_eqb. cbn [zm_locals zm_lit].
  rewrite andb_true_iff, mzlit_eqb_eq, (rp_list_eqb_eq mzclos_eqb mzclos_eqb_eq).
  split; [intros [-> ->]; reflexivity | intros H; inversion H; auto].
Qed.
Lemma mzprogs_eqb_eq : mzprogs_eqb_stmt.
Proof.
  intros a b. destruct a as [a1 a2 a3 a4 a5 a6 a7 a8 a9 a10 a11 a12], b as [b1 b2 b3 b4 b5 b6 b7 b8 b9 b10 b11 b12]. unfold mzprogs_eqb.
  cbn [z_protoreflect z_descriptor z_type z_new z_interface z_getunknown z_setunknown z_isvalid z_methods z_tzero z_tnew z_tdescriptor].
  rewrite !andb_true_iff, !mzbody_eqb_eq, mzmethods_eqb_eq.
  split.
  - intros H. decompose [and] H. subst. reflexivity.
  - intros H. inversion H. subst. auto 20.
Qed.

(* a translated set of methods that the driver found equal to the canonical one behaves as Reflect.step *)
Lemma translated_equal_is_step : forall sch progs,
  (forall mid, match progs mid with Some ps => mzprogs_eqb ps (canon_mzprogs sch mid) = true | None => True end) ->
  forall h o, rmz_step sch progs h o = Some (step sch h o).
Proof.
  intros sch progs H h o.
  assert (P : forall mid ps, progs mid = Some ps -> ps = canon_mzprogs sch mid).
  { intros mid ps E. specialize (H mid). rewrite E in H. apply mzprogs_eqb_eq. exact H. }
  pose proof (reflect_misc_prog_correct sch h o) as C. unfold rmz_step, canon_mz in *.
  destruct o; try reflexivity.
  - destruct r; try reflexivity. destruct (progs mid) eqn:E; [|reflexivity]. rewrite (P _ _ E). exact C.
  - destruct r; try reflexivity. destruct (progs mid) eqn:E; [|reflexivity]. rewrite (P _ _ E). exact C.
  - destruct r; try reflexivity. destruct (progs mid) eqn:E; [|reflexivity]. rewrite (P _ _ E). exact C.
  - destruct (progs mid) eqn:E; [|reflexivity]. rewrite (P _ _ E). exact C.
  - destruct (progs mid) eqn:E; [|reflexivity]. rewrite (P _ _ E). exact C.
Qed.
