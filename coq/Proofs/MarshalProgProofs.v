(* Proofs/MarshalProgProofs.v — the canonical marshal program (Model/MarshalProg.v: canon_marshal) writes exactly
   Codec.emit on every well-typed value of every well-formed schema (task T4). *)
From Coq Require Import List NArith ZArith Bool Lia ZifyN ZifyNat ZifyBool.
From CP Require Import MarshalProg CodecSize RoundTrip BytesLemmas RuntimeProofs.
From CP Require SizeProgProofs.
Import ListNotations.
Local Open Scope N_scope.

(* ------------------------------------------------------------------ states *)
Definition ST (out : list byte) (pk : option N) : mstate :=
  {| ms_out := out; ms_gap := None; ms_fwd := None; ms_pk := pk |}.
Definition GP (out : list byte) (n : N) (pk : option N) : mstate :=
  {| ms_out := out; ms_gap := Some n; ms_fwd := None; ms_pk := pk |}.
Definition FW (out : list byte) (n : N) (bs : list byte) (pk : option N) : mstate :=
  {| ms_out := out; ms_gap := Some n; ms_fwd := Some bs; ms_pk := pk |}.

Lemma reserve_ST n out pk : mp_reserve n (ST out pk) = Some (GP out n pk).
Proof. reflexivity. Qed.
Lemma fill_GP bs out pk : mp_fill bs (GP out (mp_len bs) pk) = Some (ST (bs ++ out) pk).
Proof. unfold mp_fill, GP. cbn [ms_gap ms_fwd ms_out ms_pk]. rewrite N.eqb_refl. reflexivity. Qed.
Lemma fill_GP' bs n out pk : mp_len bs = n -> mp_fill bs (GP out n pk) = Some (ST (bs ++ out) pk).
Proof. intros <-. apply fill_GP. Qed.
Lemma prepend_ST bs out pk : mp_prepend bs (ST out pk) = Some (ST (bs ++ out) pk).
Proof. reflexivity. Qed.
Lemma prepend_FW bs out fwd pk : mp_prepend bs (FW out (mp_len fwd) fwd pk) = Some (ST (bs ++ fwd ++ out) pk).
Proof. unfold mp_prepend, mp_settle, FW. cbn [ms_gap ms_fwd ms_out ms_pk]. rewrite N.eqb_refl. reflexivity. Qed.

(* ------------------------------------------------------------------ the interpreter, unfolded *)
Section Exec.
  Variable sch : schema.
  Variable det : bool.
  Variable fs : list field.
  Variable slots : list val.
  Variable unk : list byte.

  Notation run' := (mp_run sch det fs slots unk).
  Notation exec' := (mp_exec sch det fs slots unk).
  Notation eval' := (mp_eval fs slots unk).
  Notation ref' := (mp_ref fs slots unk).
  Notation cond' := (mp_cond fs slots unk).

  Lemma blk_run : forall b en st,
    (fix blk (b : list mstmt) (en : menv) (st : mstate) {struct b} : option (menv * mstate) :=
        match b with
        | [] => Some (en, st)
        | s' :: b' => match exec' s' en st with Some (en', st') => blk b' en' st' | None => None end
        end) b en st = run' b en st.
  Proof.
    induction b as [|s b IH]; intros en st; cbn [mp_run]; [reflexivity|].
    destruct (exec' s en st) as [[en' st']|]; [apply IH | reflexivity].
  Qed.

  Definition block (body : list mstmt) (en : menv) (st : mstate) : option mstate :=
    match run' body en st with Some (_, st') => Some st' | None => None end.
  Definition keep (en : menv) (o : option mstate) : option (menv * mstate) :=
    match o with Some st' => Some (en, st') | None => None end.

  (* all three loops: the body run as a block once per environment *)
  Fixpoint iter_blocks (body : list mstmt) (ens : list menv) (st : mstate) : option mstate :=
    match ens with
    | [] => Some st
    | en :: ens' =>
      match block body en st with
      | Some st' => iter_blocks body ens' st'
      | None => None
      end
    end.

  Fixpoint switch_find (o : nat) (en : menv) (st : mstate) (cs : list (nat * list mstmt)) : option mstate :=
    match cs with
    | [] => Some st
    | (j, body) :: cs' =>
      match nth_error fs j, nth_error slots j with
      | Some f, Some sl =>
        match f_shape f with
        | Member o' =>
          if Nat.eqb o' o then
            match sl with
            | VSome _ => block body (me_with_case j en) st
            | _ => switch_find o en st cs'
            end
          else None
        | _ => None
        end
      | _, _ => None
      end
    end.

  Lemma run_nil en st : run' [] en st = Some (en, st).
  Proof. reflexivity. Qed.
  Lemma run_cons s b en st :
    run' (s :: b) en st = match exec' s en st with Some (en', st') => run' b en' st' | None => None end.
  Proof. reflexivity. Qed.
  Lemma run_app a b en st :
    run' (a ++ b) en st = match run' a en st with Some (en', st') => run' b en' st' | None => None end.
  Proof.
    revert en st. induction a as [|s a IH]; intros en st; cbn [app mp_run]; [reflexivity|].
    destruct (exec' s en st) as [[en' st']|]; [apply IH | reflexivity].
  Qed.

  Lemma exec_MsDec en st : exec' MsDec en st = keep en (mp_reserve 1 st).
  Proof. reflexivity. Qed.
  Lemma exec_MsSub e en st :
    exec' (MsSub e) en st = match eval' e en st with Some n => keep en (mp_reserve n st) | None => None end.
  Proof. reflexivity. Qed.
  Lemma exec_MsByte b en st :
    exec' (MsByte b) en st = if b <? 256 then keep en (mp_fill [n2b b] st) else None.
  Proof. reflexivity. Qed.
  Lemma exec_MsCopy r en st :
    exec' (MsCopy r) en st = match obind_bytes (ref' r en) with Some bs => keep en (mp_fill bs st) | None => None end.
  Proof. reflexivity. Qed.
  Lemma exec_MsPut32 e en st :
    exec' (MsPut32 e) en st =
    match eval' e en st, ms_gap st with Some w, Some 4 => keep en (mp_fill (enc_fixed32 w) st) | _, _ => None end.
  Proof. reflexivity. Qed.
  Lemma exec_MsPut64 e en st :
    exec' (MsPut64 e) en st =
    match eval' e en st, ms_gap st with Some w, Some 8 => keep en (mp_fill (enc_fixed64 w) st) | _, _ => None end.
  Proof. reflexivity. Qed.
  Lemma exec_MsVarint e en st :
    exec' (MsVarint e) en st = match eval' e en st with Some w => keep en (mp_prepend (enc_varint w) st) | None => None end.
  Proof. reflexivity. Qed.
  Lemma exec_MsDecl x e en st :
    exec' (MsDecl x e) en st = match eval' e en st with Some w => Some (me_bind x (MbWord w) en, st) | None => None end.
  Proof. reflexivity. Qed.
  Lemma exec_MsMarshal r en st :
    exec' (MsMarshal r) en st =
    match ref' r en with Some (RTMsg m, v) => Some (me_with_enc (emit sch det m v) en, st) | _ => None end.
  Proof. reflexivity. Qed.
  Lemma exec_MsBaseI en st :
    exec' MsBaseI en st =
    match ms_gap st, ms_fwd st with None, None => Some (me_with_base (mp_len (ms_out st)) en, st) | _, _ => None end.
  Proof. reflexivity. Qed.
  Lemma exec_MsVarPk en st :
    exec' MsVarPk en st = Some (en, {| ms_out := ms_out st; ms_gap := ms_gap st; ms_fwd := ms_fwd st; ms_pk := Some 0 |}).
  Proof. reflexivity. Qed.
  Lemma exec_MsAddPk e en st :
    exec' (MsAddPk e) en st =
    match eval' e en st, ms_pk st with
    | Some w, Some p => Some (en, {| ms_out := ms_out st; ms_gap := ms_gap st; ms_fwd := ms_fwd st; ms_pk := Some (p + w) |})
    | _, _ => None
    end.
  Proof. reflexivity. Qed.
  Lemma exec_MsDeclJ en st :
    exec' MsDeclJ en st =
    match ms_gap st, ms_fwd st with
    | Some _, None => Some (en, {| ms_out := ms_out st; ms_gap := ms_gap st; ms_fwd := Some []; ms_pk := ms_pk st |})
    | _, _ => None
    end.
  Proof. reflexivity. Qed.
  Lemma exec_MsPutVarintJ x o en st :
    exec' (MsPutVarintJ x o) en st =
    match mp_word x en, ms_fwd st with
    | Some w, Some bs =>
      Some (en, {| ms_out := ms_out st; ms_gap := ms_gap st; ms_fwd := Some (bs ++ enc_varint w); ms_pk := ms_pk st |})
    | _, _ => None
    end.
  Proof. reflexivity. Qed.
  Lemma exec_MsIf c body en st :
    exec' (MsIf c body) en st =
    match cond' c en with
    | Some true => keep en (block body en st)
    | Some false => Some (en, st)
    | None => None
    end.
  Proof. reflexivity. Qed.
  Lemma exec_MsIfElse c a b en st :
    exec' (MsIfElse c a b) en st =
    match cond' c en with
    | Some true => keep en (block a en st)
    | Some false => keep en (block b en st)
    | None => None
    end.
  Proof. reflexivity. Qed.

  Lemma exec_MsForRev i body en st :
    exec' (MsForRev i body) en st =
    match ref' (MrF i) en with
    | Some (RTList t, v) =>
      keep en (iter_blocks body (map (fun e => me_with_idx i (rty_of t, e) en) (rev (list_of v))) st)
    | _ => None
    end.
  Proof.
    cbn [mp_exec]. destruct (ref' (MrF i) en) as [[[k|m|t|kk t] v]|]; try reflexivity.
    unfold keep. f_equal.
    generalize (rev (list_of v)) as vs. intro vs. revert st.
    induction vs as [|e vs IH]; intro st; cbn [iter_blocks map]; [reflexivity|].
    unfold block at 1. rewrite blk_run.
    destruct (run' body (me_with_idx i (rty_of t, e) en) st) as [[en' st']|]; [apply IH | reflexivity].
  Qed.
  Lemma exec_MsFor x r body en st :
    exec' (MsFor x r body) en st =
    match ref' r en with
    | Some (RTList t, v) =>
      keep en (iter_blocks body (map (fun e => me_bind x (MbVal (rty_of t, e)) en) (list_of v)) st)
    | _ => None
    end.
  Proof.
    cbn [mp_exec]. destruct (ref' r en) as [[[k|m|t|kk t] v]|]; try reflexivity.
    unfold keep. f_equal.
    generalize (list_of v) as vs. intro vs. revert st.
    induction vs as [|e vs IH]; intro st; cbn [iter_blocks map]; [reflexivity|].
    unfold block at 1. rewrite blk_run.
    destruct (run' body (me_bind x (MbVal (rty_of t, e)) en) st) as [[en' st']|]; [apply IH | reflexivity].
  Qed.
  Definition map_order (kk : kind) (entries : list (val * val)) : list (val * val) :=
    if det then isort (fun a b => key_ltb kk (fst a) (fst b)) entries else entries.
  Lemma exec_MsMapFn i c body en st :
    exec' (MsMapFn i c body) en st =
    match ref' (MrF i) en with
    | Some (RTMap kk t, v) =>
      if Bool.eqb (match c with MkBool => true | MkLt => false end) (kind_eqb kk KBool) then
        keep en (iter_blocks body
                   (map (fun kv => me_bind MvV (MbVal (rty_of t, snd kv)) (me_bind MvK (MbVal (RTScalar kk, fst kv)) en))
                        (rev (map_order kk (entries_of v)))) st)
      else None
    | _ => None
    end.
  Proof.
    cbn [mp_exec]. destruct (ref' (MrF i) en) as [[[k|m|t|kk t] v]|]; try reflexivity.
    destruct (Bool.eqb _ _); [|reflexivity].
    unfold keep. f_equal. fold (map_order kk (entries_of v)).
    generalize (rev (map_order kk (entries_of v))) as vs. intro vs. revert st.
    induction vs as [|e vs IH]; intro st; cbn [iter_blocks map]; [reflexivity|].
    unfold block at 1. rewrite blk_run.
    destruct (run' body _ st) as [[en' st']|]; [apply IH | reflexivity].
  Qed.
  Lemma exec_MsSwitch o cases en st :
    exec' (MsSwitch o cases) en st =
    match me_case en with Some _ => None | None => keep en (switch_find o en st cases) end.
  Proof.
    cbn [mp_exec]. destruct (me_case en); [reflexivity|].
    unfold keep. f_equal.
    induction cases as [|[j body] cs IH]; cbn [switch_find]; [reflexivity|].
    destruct (nth_error fs j) as [f|]; [|reflexivity].
    destruct (nth_error slots j) as [sl|]; [|reflexivity].
    destruct (f_shape f); try reflexivity.
    destruct (Nat.eqb oneof o); [|reflexivity].
    destruct sl; try apply IH.
    unfold block. rewrite blk_run. reflexivity.
  Qed.
End Exec.

(* ------------------------------------------------------------------ scalar facts *)
Lemma zig32_ok z : (-2147483648 <= z < 2147483648)%Z -> mp_zig true z 31 = zigzag32 (z2u32 z).
Proof.
  intro Hz. unfold mp_zig, zigzag32. f_equal.
  assert (Hu : u32 (z2u32 z) = z2u32 z).
  { unfold u32. apply N.mod_small. apply z2u32_lt. }
  rewrite Hu. unfold z2u32, two32, two31 in *.
  rewrite Z.shiftr_div_pow2 by lia. change (Z.of_N 31) with 31%Z.
  change (2 ^ 31)%Z with 2147483648%Z. change (Z.of_N 4294967296) with 4294967296%Z.
  destruct (Z.ltb_spec z 0).
  - assert (z / 2147483648 = -1)%Z as -> by (Z.div_mod_to_equations; lia).
    change (Z.to_N (-1 mod 4294967296)) with 4294967295.
    destruct (N.ltb_spec (Z.to_N (z mod 4294967296)) 2147483648); [|reflexivity].
    exfalso. Z.div_mod_to_equations. lia.
  - assert (z / 2147483648 = 0)%Z as -> by (Z.div_mod_to_equations; lia).
    change (Z.to_N (0 mod 4294967296)) with 0.
    destruct (N.ltb_spec (Z.to_N (z mod 4294967296)) 2147483648); [reflexivity|].
    exfalso. Z.div_mod_to_equations. lia.
Qed.

Lemma zig64_ok z : (-9223372036854775808 <= z < 9223372036854775808)%Z -> mp_zig false z 63 = zigzag64 (z2u64 z).
Proof.
  intro Hz. unfold mp_zig, zigzag64. f_equal.
  assert (Hu : u64 (z2u64 z) = z2u64 z).
  { unfold u64. apply N.mod_small. apply z2u64_lt. }
  rewrite Hu. unfold z2u64, two64, two63 in *.
  rewrite Z.shiftr_div_pow2 by lia. change (Z.of_N 63) with 63%Z.
  change (2 ^ 63)%Z with 9223372036854775808%Z. change (Z.of_N 18446744073709551616) with 18446744073709551616%Z.
  destruct (Z.ltb_spec z 0).
  - assert (z / 9223372036854775808 = -1)%Z as -> by (Z.div_mod_to_equations; lia).
    change (Z.to_N (-1 mod 18446744073709551616)) with 18446744073709551615.
    destruct (N.ltb_spec (Z.to_N (z mod 18446744073709551616)) 9223372036854775808); [|reflexivity].
    exfalso. Z.div_mod_to_equations. lia.
  - assert (z / 9223372036854775808 = 0)%Z as -> by (Z.div_mod_to_equations; lia).
    change (Z.to_N (0 mod 18446744073709551616)) with 0.
    destruct (N.ltb_spec (Z.to_N (z mod 18446744073709551616)) 9223372036854775808); [reflexivity|].
    exfalso. Z.div_mod_to_equations. lia.
Qed.

Lemma wt_sint32_range v : wt_scalar KSint32 v = true -> (-2147483648 <= as_z v < 2147483648)%Z.
Proof. destruct v; cbn [wt_scalar]; try discriminate. unfold in_range_z. cbn [as_z]. lia. Qed.
Lemma wt_sint64_range v : wt_scalar KSint64 v = true -> (-9223372036854775808 <= as_z v < 9223372036854775808)%Z.
Proof. destruct v; cbn [wt_scalar]; try discriminate. unfold in_range_z. cbn [as_z]. lia. Qed.

Lemma len_fixed32 w : mp_len (enc_fixed32 w) = 4.
Proof. reflexivity. Qed.
Lemma len_fixed64 w : mp_len (enc_fixed64 w) = 8.
Proof. reflexivity. Qed.

Definition menc (o : option (list byte)) (en : menv) : menv :=
  match o with Some bs => me_with_enc bs en | None => en end.

(* ------------------------------------------------------------------ straight-line fragments *)
Section Frag.
  Variable sch : schema.
  Variable det : bool.
  Variable fs : list field.
  Variable slots : list val.
  Variable unk : list byte.

  Notation run' := (mp_run sch det fs slots unk).
  Notation exec' := (mp_exec sch det fs slots unk).
  Notation eval' := (mp_eval fs slots unk).
  Notation ref' := (mp_ref fs slots unk).
  Notation cond' := (mp_cond fs slots unk).
  Notation block' := (block sch det fs slots unk).

  Lemma run_back_bytes bs en out pk :
    run' (concat (map (fun b => [MsDec; MsByte (b2n b)]) (rev bs))) en (ST out pk) = Some (en, ST (bs ++ out) pk).
  Proof.
    revert out. induction bs as [|b bs IH]; intro out; [reflexivity|].
    cbn [rev]. rewrite map_app, concat_app, run_app, IH. cbn [map concat app].
    rewrite run_cons, exec_MsDec, reserve_ST. cbn [keep].
    rewrite run_cons, exec_MsByte.
    assert (H : b2n b <? 256 = true) by (apply N.ltb_lt, b2n_lt). rewrite H, n2b_b2n.
    rewrite (fill_GP' [b] 1) by reflexivity. reflexivity.
  Qed.

  Lemma run_key num wt en out pk :
    run' (mp_key num wt) en (ST out pk) = Some (en, ST (key_bytes num wt ++ out) pk).
  Proof. apply run_back_bytes. Qed.

  Lemma run_put64 e en w out pk : (forall st, eval' e en st = Some w) ->
    run' (mp_put64 e) en (ST out pk) = Some (en, ST (enc_fixed64 w ++ out) pk).
  Proof.
    intro H. unfold mp_put64. rewrite run_cons, exec_MsSub. cbn [mp_eval]. rewrite reserve_ST. cbn [keep].
    rewrite run_cons, exec_MsPut64, H. cbn [ms_gap GP]. rewrite (fill_GP' _ 8) by reflexivity. reflexivity.
  Qed.
  Lemma run_put32 e en w out pk : (forall st, eval' e en st = Some w) ->
    run' (mp_put32 e) en (ST out pk) = Some (en, ST (enc_fixed32 w ++ out) pk).
  Proof.
    intro H. unfold mp_put32. rewrite run_cons, exec_MsSub. cbn [mp_eval]. rewrite reserve_ST. cbn [keep].
    rewrite run_cons, exec_MsPut32, H. cbn [ms_gap GP]. rewrite (fill_GP' _ 4) by reflexivity. reflexivity.
  Qed.

  Lemma run_putb r en v out pk : ref' r en = Some (RTScalar KBool, v) ->
    run' (mp_putb r) en (ST out pk) = Some (en, ST ([if as_bool v then x01 else x00] ++ out) pk).
  Proof.
    intro H. unfold mp_putb. rewrite run_cons, exec_MsDec, reserve_ST. cbn [keep].
    rewrite run_cons, exec_MsIfElse. cbn [mp_cond]. rewrite H.
    destruct (as_bool v); unfold block; rewrite run_cons, exec_MsByte.
    - change (1 <? 256) with true. cbn match. rewrite (fill_GP' _ 1) by reflexivity. reflexivity.
    - change (0 <? 256) with true. cbn match. rewrite (fill_GP' _ 1) by reflexivity. reflexivity.
  Qed.

  Lemma run_putbytes r en k v out pk : ref' r en = Some (RTScalar k, v) -> k = KString \/ k = KBytes ->
    run' (mp_putbytes r) en (ST out pk) = Some (en, ST (enc_varint (blen v) ++ as_bytes v ++ out) pk).
  Proof.
    intros H Hk. unfold mp_putbytes.
    assert (Hl : forall st, eval' (MeLen r) en st = Some (blen v))
      by (intro st; cbn [mp_eval]; rewrite H; destruct Hk; subst k; reflexivity).
    assert (Hb : obind_bytes (ref' r en) = Some (as_bytes v))
      by (rewrite H; destruct Hk; subst k; reflexivity).
    rewrite run_cons, exec_MsSub, Hl, reserve_ST. cbn [keep].
    rewrite run_cons, exec_MsCopy, Hb, (fill_GP' _ (blen v)) by reflexivity. cbn [keep].
    rewrite run_cons, exec_MsVarint, Hl, prepend_ST. reflexivity.
  Qed.

  Lemma run_backward r en m v out pk : ref' r en = Some (RTMsg m, v) ->
    run' (mp_backward r) en (ST out pk) =
    Some (me_with_enc (emit sch det m v) en, ST (lenpfx (emit sch det m v) ++ out) pk).
  Proof.
    intro H. unfold mp_backward. rewrite run_cons, exec_MsMarshal, H.
    rewrite (run_putbytes MrEnc _ KBytes (VBytes (emit sch det m v))); [|reflexivity|right; reflexivity].
    unfold lenpfx, blen. cbn [as_bytes]. rewrite <- app_assoc. reflexivity.
  Qed.

  Lemma exec_varint_ST e en w out pk : eval' e en (ST out pk) = Some w ->
    exec' (MsVarint e) en (ST out pk) = Some (en, ST (enc_varint w ++ out) pk).
  Proof. intro H. rewrite exec_MsVarint, H, prepend_ST. reflexivity. Qed.

  (* expressions over a scalar reference *)
  Lemma eval_C64 r en k v st : ref' r en = Some (RTScalar k, v) -> mp_is_int k = true -> wt_scalar k v = true ->
    eval' (MeC64 r) en st = Some (as_u64 v).
  Proof.
    intros H Hk Hwt. cbn [mp_eval]. rewrite H.
    destruct k; try discriminate Hk; cbn [obindN eval_cast]; try reflexivity;
      match type of Hwt with wt_scalar ?k' _ = _ => rewrite (SizeProgProofs.i32_cast_ok k' v I Hwt) end; reflexivity.
  Qed.
  Lemma eval_C32 r en k v st : ref' r en = Some (RTScalar k, v) -> mp_is_int k = true ->
    eval' (MeC32 r) en st = Some (as_u32 v).
  Proof. intros H Hk. cbn [mp_eval]. rewrite H. cbn [obindN mp_cast32]. rewrite Hk. reflexivity. Qed.
  Lemma eval_Bits64 r en v st : ref' r en = Some (RTScalar KDouble, v) -> eval' (MeBits64 r) en st = Some (as_bits v).
  Proof. intros H. cbn [mp_eval]. rewrite H. reflexivity. Qed.
  Lemma eval_Bits32 r en v st : ref' r en = Some (RTScalar KFloat, v) -> eval' (MeBits32 r) en st = Some (as_bits v).
  Proof. intros H. cbn [mp_eval]. rewrite H. reflexivity. Qed.
  Lemma eval_zz32 r en v st : ref' r en = Some (RTScalar KSint32, v) -> wt_scalar KSint32 v = true ->
    eval' (mp_zz KSint32 r) en st = Some (zigzag32 (as_u32 v)).
  Proof.
    intros H Hwt. cbn [mp_eval mp_zz]. rewrite H. cbn [obindN mp_zig_of mp_is_int].
    rewrite zig32_ok by (apply wt_sint32_range; exact Hwt). reflexivity.
  Qed.
  Lemma eval_zz64 r en v st : ref' r en = Some (RTScalar KSint64, v) -> wt_scalar KSint64 v = true ->
    eval' (mp_zz KSint64 r) en st = Some (zigzag64 (as_u64 v)).
  Proof.
    intros H Hwt. cbn [mp_eval mp_zz]. rewrite H. cbn [obindN mp_zig_of mp_is_int].
    rewrite zig64_ok by (apply wt_sint64_range; exact Hwt). reflexivity.
  Qed.
  Lemma eval_Loc x w en st : eval' (MeLoc x) (me_bind x (MbWord w) en) st = Some w.
  Proof. cbn [mp_eval me_bind me_vars mp_lookup]. destruct x; reflexivity. Qed.
End Frag.

(* ------------------------------------------------------------------ list facts *)
Lemma insert_sorted_map {A B} (h : A -> B) (lt : A -> A -> bool) (lt' : B -> B -> bool) x l :
  (forall a b, lt' (h a) (h b) = lt a b) -> insert_sorted lt' (h x) (map h l) = map h (insert_sorted lt x l).
Proof.
  intro H. induction l as [|y l IH]; [reflexivity|].
  cbn [map insert_sorted]. rewrite H. destruct (lt y x); [|reflexivity].
  cbn [map]. rewrite IH. reflexivity.
Qed.
Lemma isort_map {A B} (h : A -> B) (lt : A -> A -> bool) (lt' : B -> B -> bool) l :
  (forall a b, lt' (h a) (h b) = lt a b) -> isort lt' (map h l) = map h (isort lt l).
Proof.
  intro H. induction l as [|y l IH]; [reflexivity|].
  cbn [map]. unfold isort in *. cbn [fold_right]. rewrite IH. apply insert_sorted_map. exact H.
Qed.
Lemma filter_map_comm {A B} (h : A -> B) (P : B -> bool) l : filter P (map h l) = map h (filter (fun a => P (h a)) l).
Proof.
  induction l as [|y l IH]; [reflexivity|]. cbn [map filter]. destruct (P (h y)); cbn [map]; rewrite IH; reflexivity.
Qed.
Lemma concat_map_if {A} (P : A -> bool) (g : A -> list byte) l :
  concat (map (fun q => if P q then g q else []) l) = concat (map g (filter P l)).
Proof.
  induction l as [|y l IH]; [reflexivity|]. cbn [map filter concat]. rewrite IH.
  destruct (P y); reflexivity.
Qed.
Lemma concat_map_nil {A} (g : A -> list byte) l : (forall x, In x l -> g x = []) -> concat (map g l) = [].
Proof.
  induction l as [|y l IH]; intro H; [reflexivity|]. cbn [map concat]. rewrite (H y), IH; [reflexivity| |left; reflexivity].
  intros x Hx. apply H. right. exact Hx.
Qed.
Lemma mp_len_app a b : mp_len (a ++ b) = mp_len a + mp_len b.
Proof. unfold mp_len. rewrite app_length. lia. Qed.
Lemma mp_len_concat {A} (g : A -> list byte) l : mp_len (concat (map g l)) = nsum (map (fun x => mp_len (g x)) l).
Proof.
  induction l as [|y l IH]; [reflexivity|]. cbn [map concat]. rewrite mp_len_app, IH, nsum_cons. reflexivity.
Qed.
Lemma mp_len_concat_const {A} (g : A -> list byte) (c : N) l :
  (forall x, mp_len (g x) = c) -> mp_len (concat (map g l)) = N.of_nat (length l) * c.
Proof.
  intro H. induction l as [|y l IH]; [reflexivity|]. cbn [map concat length]. rewrite mp_len_app, IH, H. lia.
Qed.

(* ------------------------------------------------------------------ loops *)
Section Loops.
  Variable sch : schema.
  Variable det : bool.
  Variable fs : list field.
  Variable slots : list val.
  Variable unk : list byte.
  Notation block' := (block sch det fs slots unk).
  Notation iter' := (iter_blocks sch det fs slots unk).

  Lemma iter_app body a b st :
    iter' body (a ++ b) st = match iter' body a st with Some st' => iter' body b st' | None => None end.
  Proof.
    revert st. induction a as [|e a IH]; intro st; cbn [app iter_blocks]; [reflexivity|].
    destruct (block' body e st); [apply IH | reflexivity].
  Qed.

  (* a backward loop: the elements are visited from the last to the first, each prepends its bytes *)
  Lemma iter_rev_writes {A} (mk : A -> menv) body l (h : A -> list byte) :
    (forall e, In e l -> forall out pk, block' body (mk e) (ST out pk) = Some (ST (h e ++ out) pk)) ->
    forall out pk, iter' body (map mk (rev l)) (ST out pk) = Some (ST (concat (map h l) ++ out) pk).
  Proof.
    induction l as [|e l IH]; intros H out pk; [reflexivity|].
    cbn [rev]. rewrite map_app, iter_app, IH by (intros e' He'; apply H; right; exact He').
    cbn [map iter_blocks]. rewrite H by (left; reflexivity).
    cbn [concat]. rewrite <- app_assoc. reflexivity.
  Qed.

  (* the two forward loops of a packed varint field *)
  Lemma iter_addpk {A} (mk : A -> menv) body l (sz : A -> N) :
    (forall e, In e l -> forall out p, block' body (mk e) (ST out (Some p)) = Some (ST out (Some (p + sz e)))) ->
    forall out p, iter' body (map mk l) (ST out (Some p)) = Some (ST out (Some (p + nsum (map sz l)))).
  Proof.
    induction l as [|e l IH]; intros H out p.
    - cbn [map iter_blocks]. change (nsum []) with 0. rewrite N.add_0_r. reflexivity.
    - cbn [map iter_blocks]. rewrite H by (left; reflexivity).
      rewrite IH by (intros e' He'; apply H; right; exact He'). rewrite nsum_cons, N.add_assoc. reflexivity.
  Qed.
  Lemma iter_putj {A} (mk : A -> menv) body l (g : A -> list byte) :
    (forall e, In e l -> forall out n bs pk, block' body (mk e) (FW out n bs pk) = Some (FW out n (bs ++ g e) pk)) ->
    forall out n bs pk, iter' body (map mk l) (FW out n bs pk) = Some (FW out n (bs ++ concat (map g l)) pk).
  Proof.
    induction l as [|e l IH]; intros H out n bs pk.
    - cbn [map iter_blocks concat]. rewrite app_nil_r. reflexivity.
    - cbn [map iter_blocks]. rewrite H by (left; reflexivity).
      rewrite IH by (intros e' He'; apply H; right; exact He'). cbn [concat]. rewrite <- app_assoc. reflexivity.
  Qed.
End Loops.

(* ------------------------------------------------------------------ the shapes of mp_field_inner *)
(* the element code of a repeated (unpacked, or packed fixed-width) field *)
Definition mp_repelem (t : ftype) (x : mref) : list mstmt :=
  match t with
  | TMsg _ => mp_backward x
  | TScalar k =>
    match k with
    | KDouble => MsDecl MvF (MeBits64 x) :: mp_put64 (MeLoc MvF)
    | KFloat => MsDecl MvF (MeBits32 x) :: mp_put32 (MeLoc MvF)
    | KSint32 | KSint64 => [MsDecl MvX (mp_zz k x); MsVarint (MeLoc MvX)]
    | _ => mp_mapfield t x
    end
  end.
Definition presence_cond (k : kind) (r : mref) : mcond :=
  match k with
  | KDouble | KFloat => McNonZeroOrSign r
  | KBool => McTrue r
  | KString | KBytes => McLenPos r
  | _ => McNonZero r
  end.
Definition fixed_kind (k : kind) : bool :=
  match k with KDouble | KFloat | KFixed64 | KSfixed64 | KFixed32 | KSfixed32 | KBool => true | _ => false end.
Definition fixed_w (k : kind) : N :=
  match k with KDouble | KFixed64 | KSfixed64 => 8 | KBool => 1 | _ => 4 end.
Definition pk_lenexpr (k : kind) (r : mref) : mexpr :=
  match k with
  | KDouble | KFixed64 | KSfixed64 => MeMul (MeLen r) (MeNum 8)
  | KFloat | KFixed32 | KSfixed32 => MeMul (MeLen r) (MeNum 4)
  | _ => MeLen r
  end.
Definition pv_kind (k : kind) : bool :=
  match k with KInt64 | KUint64 | KInt32 | KUint32 | KEnum | KSint32 | KSint64 => true | _ => false end.
Definition pv_sz (k : kind) (e : mexpr) : mexpr := match k with KSint32 | KSint64 => MeSoz e | _ => MeSov e end.
Definition pv_loop2 (k : kind) (r : mref) : mstmt :=
  match k with
  | KUint64 | KUint32 => MsFor MvNum r [MsPutVarintJ MvNum false]
  | KSint32 | KSint64 => MsFor MvNum r [MsDecl MvX (mp_zz k (MrV MvNum)); MsPutVarintJ MvX true]
  | _ => MsFor MvNum1 r [MsDecl MvNum (MeC64 (MrV MvNum1)); MsPutVarintJ MvNum false]
  end.

Lemma inner_singular i f o :
  match f_shape f with Singular | Member _ => True | _ => False end ->
  mp_field_inner i f o =
  match f_ty f with
  | TMsg _ => mp_mapfield (f_ty f) (MrF i) ++ mp_key (f_num f) (ftype_wt (f_ty f))
  | TScalar k => mp_guard o (presence_cond k (MrF i)) (mp_mapfield (f_ty f) (MrF i) ++ mp_key (f_num f) (ftype_wt (f_ty f)))
  end.
Proof.
  destruct f as [num t sh]. cbn [f_shape f_ty f_num]. intro H. unfold mp_field_inner. cbn [f_shape f_ty f_num].
  destruct sh as [|pk|oo|kk]; try contradiction; (destruct t as [k|m]; [destruct k|]); reflexivity.
Qed.
Lemma inner_unpacked i f o :
  f_shape f = Rep false ->
  mp_field_inner i f o = [MsForRev i (mp_repelem (f_ty f) (MrIdx i) ++ mp_key (f_num f) (ftype_wt (f_ty f)))].
Proof.
  destruct f as [num t sh]. cbn [f_shape f_ty f_num]. intros ->. unfold mp_field_inner. cbn [f_shape f_ty f_num].
  destruct t as [k|m]; [destruct k|]; reflexivity.
Qed.
Lemma inner_packed_fixed i f o k :
  f_shape f = Rep true -> f_ty f = TScalar k -> fixed_kind k = true ->
  mp_field_inner i f o =
  [MsForRev i (mp_repelem (f_ty f) (MrIdx i)); MsVarint (pk_lenexpr k (MrF i))] ++ mp_key (f_num f) WT_BYTES.
Proof.
  destruct f as [num t sh]. cbn [f_shape f_ty f_num]. intros -> -> Hk. unfold mp_field_inner. cbn [f_shape f_ty f_num].
  destruct k; try discriminate Hk; reflexivity.
Qed.
Lemma inner_packed_varint i f o k :
  f_shape f = Rep true -> f_ty f = TScalar k -> pv_kind k = true ->
  mp_field_inner i f o =
  [MsVarPk; MsFor MvNum (MrF i) [MsAddPk (pv_sz k (MeC64 (MrV MvNum)))]; MsSub MePk; MsDeclJ;
   pv_loop2 k (MrF i); MsVarint MePk] ++ mp_key (f_num f) WT_BYTES.
Proof.
  destruct f as [num t sh]. cbn [f_shape f_ty f_num]. intros -> -> Hk. unfold mp_field_inner. cbn [f_shape f_ty f_num].
  destruct k; try discriminate Hk; reflexivity.
Qed.
Lemma packable_split k : packable k = true -> fixed_kind k = true \/ pv_kind k = true.
Proof. destruct k; cbn; intro H; try discriminate H; auto. Qed.

(* ------------------------------------------------------------------ elements and fields *)
Section Fields.
  Variable sch : schema.
  Variable det : bool.
  Variable fs : list field.
  Variable slots : list val.
  Variable unk : list byte.

  Notation run' := (mp_run sch det fs slots unk).
  Notation exec' := (mp_exec sch det fs slots unk).
  Notation eval' := (mp_eval fs slots unk).
  Notation ref' := (mp_ref fs slots unk).
  Notation cond' := (mp_cond fs slots unk).
  Notation block' := (block sch det fs slots unk).
  Notation iter' := (iter_blocks sch det fs slots unk).
  Notation EE := (emit_elem (emit sch det)).

  Lemma ref_menc_V x o en : ref' (MrV x) (menc o en) = ref' (MrV x) en.
  Proof. destruct o; reflexivity. Qed.

  Lemma run_mapfield t r en v : ref' r en = Some (rty_of t, v) -> wt_elem (wt_msg sch) t v = true ->
    exists o, forall out pk, run' (mp_mapfield t r) en (ST out pk) = Some (menc o en, ST (EE t v ++ out) pk).
  Proof.
    intros H Hwt. destruct t as [k|m].
    - exists None. intros out pk. cbn [rty_of] in H. cbn [wt_elem] in Hwt. cbn [menc emit_elem].
      destruct k; cbn [mp_mapfield scalar_payload]; rewrite <- ?app_assoc;
        first [ apply run_put64; intro st;
                first [apply eval_Bits64; exact H | eapply eval_C64; [exact H|reflexivity|exact Hwt]]
              | apply run_put32; intro st;
                first [apply eval_Bits32; exact H | eapply eval_C32; [exact H|reflexivity]]
              | apply run_putb; exact H
              | eapply run_putbytes; [exact H | auto]
              | rewrite run_cons;
                first [ rewrite (exec_varint_ST sch det fs slots unk _ _ (as_u64 v))
                          by (eapply eval_C64; [exact H|reflexivity|exact Hwt])
                      | rewrite (exec_varint_ST sch det fs slots unk _ _ (zigzag32 (as_u32 v)))
                          by (apply eval_zz32; [exact H|exact Hwt])
                      | rewrite (exec_varint_ST sch det fs slots unk _ _ (zigzag64 (as_u64 v)))
                          by (apply eval_zz64; [exact H|exact Hwt]) ];
                reflexivity ].
    - exists (Some (emit sch det m v)). intros out pk. cbn [mp_mapfield menc emit_elem]. apply run_backward. exact H.
  Qed.

  Lemma run_repelem t r en v : ref' r en = Some (rty_of t, v) -> wt_elem (wt_msg sch) t v = true ->
    forall out pk, exists en', run' (mp_repelem t r) en (ST out pk) = Some (en', ST (EE t v ++ out) pk).
  Proof.
    intros H Hwt out pk.
    assert (Hgen : mp_repelem t r = mp_mapfield t r ->
                   exists en', run' (mp_repelem t r) en (ST out pk) = Some (en', ST (EE t v ++ out) pk)).
    { intros ->. destruct (run_mapfield t r en v H Hwt) as [o Ho]. exists (menc o en). apply Ho. }
    destruct t as [k|m]; [|apply Hgen; reflexivity].
    cbn [rty_of] in H. cbn [wt_elem] in Hwt.
    destruct k; try (apply Hgen; reflexivity); clear Hgen; cbn [mp_repelem emit_elem scalar_payload]; eexists.
    - rewrite run_cons, exec_MsDecl, (eval_Bits64 fs slots unk r en v _ H).
      apply run_put64. intro st. apply eval_Loc.
    - rewrite run_cons, exec_MsDecl, (eval_Bits32 fs slots unk r en v _ H).
      apply run_put32. intro st. apply eval_Loc.
    - rewrite run_cons, exec_MsDecl, (eval_zz32 fs slots unk r en v _ H Hwt).
      rewrite run_cons, (exec_varint_ST sch det fs slots unk _ _ (zigzag32 (as_u32 v))) by apply eval_Loc. reflexivity.
    - rewrite run_cons, exec_MsDecl, (eval_zz64 fs slots unk r en v _ H Hwt).
      rewrite run_cons, (exec_varint_ST sch det fs slots unk _ _ (zigzag64 (as_u64 v))) by apply eval_Loc. reflexivity.
  Qed.

  Lemma ref_bind x tv en : ref' (MrV x) (me_bind x (MbVal tv) en) = Some tv.
  Proof. destruct x; reflexivity. Qed.
  Lemma ref_idx i tv en : ref' (MrIdx i) (me_with_idx i tv en) = Some tv.
  Proof. cbn [mp_ref me_with_idx me_idx]. rewrite Nat.eqb_refl. reflexivity. Qed.

  (* ---- repeated, unpacked *)
  Lemma unpacked_exec i f en l out pk :
    ref' (MrF i) en = Some (RTList (f_ty f), VList l) ->
    forallb (wt_elem (wt_msg sch) (f_ty f)) l = true ->
    exec' (MsForRev i (mp_repelem (f_ty f) (MrIdx i) ++ mp_key (f_num f) (ftype_wt (f_ty f)))) en (ST out pk) =
    Some (en, ST (concat (map (fun x => key_bytes (f_num f) (ftype_wt (f_ty f)) ++ EE (f_ty f) x) l) ++ out) pk).
  Proof.
    intros Hr Hwt. rewrite forallb_forall in Hwt. rewrite exec_MsForRev, Hr. cbn [list_of].
    rewrite (iter_rev_writes sch det fs slots unk _ _ l
               (fun x => key_bytes (f_num f) (ftype_wt (f_ty f)) ++ EE (f_ty f) x)); [reflexivity|].
    intros e He out' pk'. unfold block. rewrite run_app.
    destruct (run_repelem (f_ty f) (MrIdx i) _ e (ref_idx i _ en) (Hwt e He) out' pk') as [en' E]. rewrite E.
    rewrite run_key. rewrite <- app_assoc. reflexivity.
  Qed.

  (* ---- repeated, packed, fixed width *)
  Lemma fixed_payload_len k v : fixed_kind k = true -> mp_len (scalar_payload k v) = fixed_w k.
  Proof. destruct k; intro H; try discriminate H; reflexivity. Qed.

  Lemma eval_pk_lenexpr k r en t l st : ref' r en = Some (RTList t, VList l) -> fixed_kind k = true ->
    eval' (pk_lenexpr k r) en st = Some (N.of_nat (length l) * fixed_w k).
  Proof.
    intros H Hk. destruct k; try discriminate Hk; cbn [pk_lenexpr mp_eval fixed_w]; rewrite H;
      cbn [obindN eval_len list_of]; rewrite ?N.mul_1_r; reflexivity.
  Qed.

  Lemma packed_fixed_run i f en k l out pk :
    ref' (MrF i) en = Some (RTList (f_ty f), VList l) -> f_ty f = TScalar k -> fixed_kind k = true ->
    forallb (wt_elem (wt_msg sch) (f_ty f)) l = true ->
    run' ([MsForRev i (mp_repelem (f_ty f) (MrIdx i)); MsVarint (pk_lenexpr k (MrF i))] ++ mp_key (f_num f) WT_BYTES)
         en (ST out pk) =
    Some (en, ST (key_bytes (f_num f) WT_BYTES ++ lenpfx (concat (map (EE (f_ty f)) l)) ++ out) pk).
  Proof.
    intros Hr Ht Hk Hwt. rewrite forallb_forall in Hwt. cbn [app].
    rewrite run_cons, exec_MsForRev, Hr. cbn [list_of].
    rewrite (iter_rev_writes sch det fs slots unk _ _ l (EE (f_ty f))).
    2:{ intros e He out' pk'. unfold block.
        destruct (run_repelem (f_ty f) (MrIdx i) _ e (ref_idx i _ en) (Hwt e He) out' pk') as [en' E]. rewrite E.
        reflexivity. }
    cbn [keep].
    rewrite run_cons, (exec_varint_ST sch det fs slots unk _ _ (N.of_nat (length l) * fixed_w k))
      by (eapply eval_pk_lenexpr; [exact Hr|exact Hk]).
    rewrite run_key. unfold lenpfx. rewrite <- app_assoc.
    assert (HL : N.of_nat (length (concat (map (scalar_payload k) l))) = N.of_nat (length l) * fixed_w k).
    { apply (mp_len_concat_const (scalar_payload k)). intro x. apply fixed_payload_len. exact Hk. }
    rewrite Ht. change (EE (TScalar k)) with (scalar_payload k). rewrite HL. reflexivity.
  Qed.

  (* ---- repeated, packed, varint *)
  Lemma eval_MeSov a en st : eval' (MeSov a) en st = option_map Sov (eval' a en st).
  Proof. reflexivity. Qed.
  Lemma eval_MeSoz a en st : eval' (MeSoz a) en st = option_map Soz (eval' a en st).
  Proof. reflexivity. Qed.

  Lemma varint_len w : w < two64 -> Sov w = mp_len (enc_varint w).
  Proof. intro H. unfold mp_len. rewrite enc_varint_length by exact H. reflexivity. Qed.

  Lemma eval_pv_sz k r en v st : ref' r en = Some (RTScalar k, v) -> pv_kind k = true -> wt_scalar k v = true ->
    eval' (pv_sz k (MeC64 r)) en st = Some (mp_len (scalar_payload k v)).
  Proof.
    intros H Hk Hwt.
    destruct k; try discriminate Hk; cbn [pv_sz scalar_payload];
      rewrite ?eval_MeSov, ?eval_MeSoz, (eval_C64 fs slots unk r en _ v st H eq_refl Hwt); cbn [option_map]; f_equal.
    - apply varint_len. apply z2u64_lt.
    - apply varint_len. apply z2u64_lt.
    - apply varint_len. apply z2u64_lt.
    - apply varint_len. apply z2u64_lt.
    - unfold Soz. rewrite <- (SizeProgProofs.i32_cast_ok KSint32 v I Hwt). unfold as_i32_u64.
      rewrite zigzag32_sext. unfold as_u32. apply varint_len. rewrite <- zigzag32_sext. apply zigzag64_lt.
    - unfold Soz. apply varint_len. apply zigzag64_lt.
    - apply varint_len. apply z2u64_lt.
  Qed.

  Lemma pv_loop2_exec k i en l out n bs pk :
    ref' (MrF i) en = Some (RTList (TScalar k), VList l) -> pv_kind k = true ->
    (forall e, In e l -> wt_scalar k e = true) ->
    exec' (pv_loop2 k (MrF i)) en (FW out n bs pk) = Some (en, FW out n (bs ++ concat (map (scalar_payload k) l)) pk).
  Proof.
    intros Hr Hk Hwt.
    destruct k; try discriminate Hk; cbn [pv_loop2]; rewrite exec_MsFor, Hr; cbn [list_of rty_of];
      match goal with |- context [scalar_payload ?K] =>
        rewrite (iter_putj sch det fs slots unk _ _ l (scalar_payload K)); [reflexivity|] end;
      intros e He out' n' bs' pk'; unfold block; specialize (Hwt e He).
    - rewrite run_cons, exec_MsDecl.
      rewrite (eval_C64 fs slots unk (MrV MvNum1) _ KInt32 e _ (ref_bind _ _ _) eq_refl Hwt). reflexivity.
    - rewrite run_cons, exec_MsDecl.
      rewrite (eval_C64 fs slots unk (MrV MvNum1) _ KInt64 e _ (ref_bind _ _ _) eq_refl Hwt). reflexivity.
    - reflexivity.
    - reflexivity.
    - rewrite run_cons, exec_MsDecl.
      rewrite (eval_zz32 fs slots unk (MrV MvNum) _ e _ (ref_bind _ _ _) Hwt). reflexivity.
    - rewrite run_cons, exec_MsDecl.
      rewrite (eval_zz64 fs slots unk (MrV MvNum) _ e _ (ref_bind _ _ _) Hwt). reflexivity.
    - rewrite run_cons, exec_MsDecl.
      rewrite (eval_C64 fs slots unk (MrV MvNum1) _ KEnum e _ (ref_bind _ _ _) eq_refl Hwt). reflexivity.
  Qed.

  Lemma prepend_FW' bs out n fwd pk : mp_len fwd = n ->
    mp_prepend bs (FW out n fwd pk) = Some (ST (bs ++ fwd ++ out) pk).
  Proof. intros <-. apply prepend_FW. Qed.

  Lemma packed_varint_run i f en k l out pk :
    ref' (MrF i) en = Some (RTList (f_ty f), VList l) -> f_ty f = TScalar k -> pv_kind k = true ->
    forallb (wt_elem (wt_msg sch) (f_ty f)) l = true ->
    exists pk',
    run' ([MsVarPk; MsFor MvNum (MrF i) [MsAddPk (pv_sz k (MeC64 (MrV MvNum)))]; MsSub MePk; MsDeclJ;
           pv_loop2 k (MrF i); MsVarint MePk] ++ mp_key (f_num f) WT_BYTES) en (ST out pk) =
    Some (en, ST (key_bytes (f_num f) WT_BYTES ++ lenpfx (concat (map (EE (f_ty f)) l)) ++ out) pk').
  Proof.
    intros Hr Ht Hk Hwt. rewrite forallb_forall in Hwt. rewrite Ht in *. cbn [wt_elem] in Hwt. cbn [app emit_elem].
    set (S := nsum (map (fun e => mp_len (scalar_payload k e)) l)).
    exists (Some (0 + S)).
    rewrite run_cons. change (exec' MsVarPk en (ST out pk)) with (Some (en, ST out (Some 0))). cbn beta match.
    rewrite run_cons, exec_MsFor, Hr. cbn [list_of rty_of].
    rewrite (iter_addpk sch det fs slots unk _ _ l (fun e => mp_len (scalar_payload k e))).
    2:{ intros e He out' p. unfold block. rewrite run_cons, exec_MsAddPk.
        rewrite (eval_pv_sz k (MrV MvNum) _ e _ (ref_bind _ _ _) Hk (Hwt e He)). reflexivity. }
    fold S. cbn [keep].
    rewrite run_cons, exec_MsSub. cbn [mp_eval ms_pk ST]. fold (ST out (Some (0 + S))). rewrite reserve_ST. cbn [keep].
    rewrite run_cons.
    change (exec' MsDeclJ en (GP out (0 + S) (Some (0 + S)))) with (Some (en, FW out (0 + S) [] (Some (0 + S)))). cbn beta match.
    rewrite run_cons, (pv_loop2_exec k i en l) by (assumption). cbn [app].
    rewrite run_cons, exec_MsVarint. cbn [mp_eval ms_pk FW].
    fold (FW out (0 + S) (concat (map (scalar_payload k) l)) (Some (0 + S))).
    assert (HS : mp_len (concat (map (scalar_payload k) l)) = 0 + S)
      by (rewrite mp_len_concat; unfold S; lia).
    rewrite (prepend_FW' _ _ _ _ _ HS). cbn [keep].
    rewrite run_key. unfold lenpfx. rewrite <- app_assoc. rewrite <- HS. reflexivity.
  Qed.

  (* ---- singular fields and oneof members *)
  Lemma cond_present k r en v : ref' r en = Some (RTScalar k, v) -> cond' (presence_cond k r) en = Some (present k v).
  Proof.
    intro H. destruct k; cbn [presence_cond mp_cond present]; rewrite H; cbn [obindN eval_len mp_is_int]; try reflexivity.
    - f_equal. destruct (N.eqb_spec (blen v) 0), (N.ltb_spec 0 (blen v)); try lia; reflexivity.
    - f_equal. destruct (N.eqb_spec (blen v) 0), (N.ltb_spec 0 (blen v)); try lia; reflexivity.
  Qed.

  Lemma run_elem_key t r en v num wt out pk : ref' r en = Some (rty_of t, v) -> wt_elem (wt_msg sch) t v = true ->
    block' (mp_mapfield t r ++ mp_key num wt) en (ST out pk) = Some (ST (key_bytes num wt ++ EE t v ++ out) pk).
  Proof.
    intros H Hwt. unfold block. rewrite run_app. destruct (run_mapfield t r en v H Hwt) as [o Ho].
    rewrite Ho, run_key. reflexivity.
  Qed.

  Lemma singular_exec i f en s out pk :
    ref' (MrF i) en = Some (rty_of (f_ty f), s) -> f_shape f = Singular -> wt_elem (wt_msg sch) (f_ty f) s = true ->
    run' (mp_field i f false) en (ST out pk) = Some (en, ST (emit_field det (emit sch det) f s ++ out) pk).
  Proof.
    intros Hr Hsh Hwt. unfold mp_field, emit_field. rewrite inner_singular by (rewrite Hsh; exact I). rewrite Hsh.
    destruct f as [num t sh]. cbn [f_ty f_num f_shape] in *.
    destruct t as [k|m].
    - cbn [mp_guard]. rewrite run_cons, exec_MsIf, (cond_present k _ _ s Hr).
      destruct (present k s); [|reflexivity].
      rewrite (run_elem_key (TScalar k) _ _ s) by assumption. cbn [keep emit_elem ftype_wt].
      rewrite <- app_assoc. reflexivity.
    - rewrite run_cons, exec_MsIf. cbn [mp_cond]. rewrite Hr. cbn [rty_of].
      cbn [wt_elem] in Hwt.
      destruct s; try discriminate Hwt; cbn [is_nil negb]; [reflexivity|].
      rewrite (run_elem_key (TMsg m) _ _ (VMsg slots0 unk0)) by assumption. cbn [keep emit_elem ftype_wt].
      rewrite <- app_assoc. reflexivity.
  Qed.

  Lemma member_block j f o en p out pk :
    ref' (MrF j) en = Some (rty_of (f_ty f), p) -> f_shape f = Member o -> wt_elem (wt_msg sch) (f_ty f) p = true ->
    block' (mp_field j f true) en (ST out pk) =
    Some (ST (key_bytes (f_num f) (ftype_wt (f_ty f)) ++ EE (f_ty f) p ++ out) pk).
  Proof.
    intros Hr Hsh Hwt. unfold mp_field. rewrite inner_singular by (rewrite Hsh; exact I). rewrite Hsh.
    destruct (f_ty f) as [k|m] eqn:Ht; cbn [mp_guard]; rewrite <- Ht in *; apply run_elem_key; assumption.
  Qed.

  (* ---- maps *)
  Lemma map_body_block f kk en k v out pk :
    wt_scalar kk k = true -> wt_elem (wt_msg sch) (f_ty f) v = true ->
    block' (mp_map_body f kk)
           (me_bind MvV (MbVal (rty_of (f_ty f), v)) (me_bind MvK (MbVal (RTScalar kk, k)) en)) (ST out pk) =
    Some (ST (emit_entry (emit sch det) (f_num f) kk (f_ty f) (k, v) ++ out) pk).
  Proof.
    intros Hk Hv. unfold block, mp_map_body.
    set (en1 := me_bind MvV _ _).
    rewrite run_cons. change (exec' MsBaseI en1 (ST out pk)) with (Some (me_with_base (mp_len out) en1, ST out pk)).
    cbn beta match.
    set (en2 := me_with_base (mp_len out) en1).
    destruct (run_mapfield (f_ty f) (MrV MvV) en2 v eq_refl Hv) as [o1 H1].
    rewrite run_app, H1, run_app, run_key.
    assert (HrK : ref' (MrV MvK) (menc o1 en2) = Some (rty_of (TScalar kk), k)) by (rewrite ref_menc_V; reflexivity).
    destruct (run_mapfield (TScalar kk) (MrV MvK) (menc o1 en2) k HrK Hk) as [o2 H2].
    rewrite run_app, H2, run_app, run_key.
    set (inner := key_bytes 1 (kind_wt kk) ++ EE (TScalar kk) k ++ key_bytes 2 (ftype_wt (f_ty f)) ++ EE (f_ty f) v).
    assert (Hb : eval' MeBase (menc o2 (menc o1 en2))
                   (ST (key_bytes 1 (kind_wt kk) ++ EE (TScalar kk) k ++ key_bytes 2 (ftype_wt (f_ty f)) ++ EE (f_ty f) v ++ out) pk)
                 = Some (mp_len inner)).
    { destruct o1, o2; cbn [mp_eval menc me_base me_with_enc en2 me_with_base ms_gap ms_fwd ms_out ST]; f_equal;
        unfold inner; rewrite !mp_len_app; lia. }
    rewrite run_cons, (exec_varint_ST sch det fs slots unk _ _ _ _ _ Hb).
    rewrite run_key. unfold emit_entry, lenpfx. cbn [fst snd].
    change (scalar_payload kk k) with (EE (TScalar kk) k). fold inner.
    change (N.of_nat (length inner)) with (mp_len inner). unfold inner. rewrite <- !app_assoc. reflexivity.
  Qed.

  Lemma in_map_order kk (l : list (val * val)) e : In e (map_order det kk l) -> In e l.
  Proof.
    unfold map_order. destruct det; [|auto].
    apply Permutation.Permutation_in. apply CodecSize.isort_perm.
  Qed.

  Lemma map_exec i f en kk s out pk :
    ref' (MrF i) en = Some (RTMap kk (f_ty f), s) -> f_shape f = MapOf kk -> wt_slot (wt_msg sch) f s = true ->
    run' (mp_field i f false) en (ST out pk) = Some (en, ST (emit_field det (emit sch det) f s ++ out) pk).
  Proof.
    intros Hr Hsh Hwt. unfold mp_field, emit_field. unfold wt_slot in Hwt. rewrite Hsh in *.
    rewrite run_cons, exec_MsIf. cbn [mp_cond]. rewrite Hr. cbn [obindN eval_len].
    destruct s as [| | | | | | | |kvs]; try discriminate Hwt; [reflexivity|].
    destruct kvs as [|kv kvs]; [destruct det; reflexivity|].
    cbn [entries_of].
    assert (Hpos : 0 <? N.of_nat (length (kv :: kvs)) = true) by (apply N.ltb_lt; cbn [length]; lia).
    rewrite Hpos. unfold block at 1. rewrite run_cons, exec_MsMapFn, Hr.
    assert (Hc : Bool.eqb (match mp_cmp kk with MkBool => true | MkLt => false end) (kind_eqb kk KBool) = true)
      by (destruct kk; reflexivity).
    rewrite Hc. cbn [entries_of].
    apply andb_prop in Hwt. destruct Hwt as [Hwt _]. rewrite forallb_forall in Hwt.
    rewrite (iter_rev_writes sch det fs slots unk _ _ (map_order det kk (kv :: kvs))
               (emit_entry (emit sch det) (f_num f) kk (f_ty f))).
    2:{ intros [k v] He out' pk'. apply in_map_order in He. specialize (Hwt _ He). cbn [fst snd] in Hwt.
        apply andb_prop in Hwt. destruct Hwt as [Hk Hv]. cbn [fst snd]. apply map_body_block; assumption. }
    cbn [keep run_nil mp_run]. do 3 f_equal.
    unfold map_order. destruct det.
    - rewrite (isort_map (fun kv0 : val * val => (fst kv0, emit_entry (emit sch true) (f_num f) kk (f_ty f) kv0))
                 (fun a b => key_ltb kk (fst a) (fst b))) by reflexivity.
      rewrite map_map. reflexivity.
    - rewrite map_map. reflexivity.
  Qed.

  (* ---- repeated *)
  Lemma rep_exec i f en pk0 s out pk :
    ref' (MrF i) en = Some (RTList (f_ty f), s) -> f_shape f = Rep pk0 ->
    match f_ty f with TScalar k => implb pk0 (packable k) | TMsg _ => negb pk0 end = true ->
    wt_slot (wt_msg sch) f s = true ->
    exists pk', run' (mp_field i f false) en (ST out pk) = Some (en, ST (emit_field det (emit sch det) f s ++ out) pk').
  Proof.
    intros Hr Hsh Hwf Hwt. unfold mp_field, emit_field. unfold wt_slot in Hwt. rewrite Hsh in *.
    rewrite run_cons, exec_MsIf. cbn [mp_cond]. rewrite Hr. cbn [obindN eval_len].
    destruct s as [| | | | | | |l|]; try discriminate Hwt; [exists pk; reflexivity|].
    destruct l as [|e l]; [exists pk; reflexivity|].
    cbn [list_of].
    assert (Hpos : 0 <? N.of_nat (length (e :: l)) = true) by (apply N.ltb_lt; cbn [length]; lia).
    rewrite Hpos. unfold block at 1.
    destruct pk0.
    - destruct (f_ty f) as [k|m] eqn:Ht; [|discriminate Hwf]. cbn [implb] in Hwf.
      destruct (packable_split k Hwf) as [Hk|Hk].
      + rewrite (inner_packed_fixed i f false k Hsh Ht Hk). rewrite <- Ht in *.
        rewrite (packed_fixed_run i f en k (e :: l) out pk Hr Ht Hk Hwt).
        exists pk. cbn [keep mp_run]. rewrite <- !app_assoc. reflexivity.
      + rewrite (inner_packed_varint i f false k Hsh Ht Hk). rewrite <- Ht in *.
        destruct (packed_varint_run i f en k (e :: l) out pk Hr Ht Hk Hwt) as [pk' E]. rewrite E.
        exists pk'. cbn [keep mp_run]. rewrite <- !app_assoc. reflexivity.
    - rewrite (inner_unpacked i f false Hsh). rewrite run_cons, (unpacked_exec i f en (e :: l) out pk Hr Hwt).
      exists pk. reflexivity.
  Qed.
End Fields.

(* ------------------------------------------------------------------ more list facts *)
Lemma sp_indexed_in {A} (l : list A) : forall k j x,
  In (j, x) (sp_indexed k l) -> (k <= j)%nat /\ nth_error l (j - k) = Some x.
Proof.
  induction l as [|a l IH]; intros k j x H; cbn [sp_indexed] in H; [contradiction|].
  destruct H as [H|H].
  - injection H as <- <-. rewrite Nat.sub_diag. split; [lia | reflexivity].
  - destruct (IH (S k) j x H) as [Hle Hn]. split; [lia|].
    replace (j - k)%nat with (S (j - S k)) by lia. exact Hn.
Qed.
Lemma sp_indexed_map {A B} (g : A -> B) (l : list A) : forall k,
  sp_indexed k (map g l) = map (fun t => (fst t, g (snd t))) (sp_indexed k l).
Proof. induction l as [|a l IH]; intro k; cbn [map sp_indexed fst snd]; [reflexivity|]. rewrite IH. reflexivity. Qed.
Lemma nth_error_combine_inv {A B} (l : list A) : forall (l' : list B) p x y,
  nth_error (combine l l') p = Some (x, y) -> nth_error l p = Some x /\ nth_error l' p = Some y.
Proof.
  induction l as [|a l IH]; intros [|b l'] [|p] x y H; cbn in H; try discriminate.
  - injection H as <- <-. split; reflexivity.
  - cbn [nth_error]. apply IH. exact H.
Qed.
Lemma map_fst_combine {A B} (l : list A) : forall (l' : list B), length l = length l' -> map fst (combine l l') = l.
Proof.
  induction l as [|a l IH]; intros [|b l'] H; cbn in H; try discriminate; [reflexivity|].
  cbn [combine map fst]. rewrite IH by lia. reflexivity.
Qed.
Lemma Forall2_length' {A B} (R : A -> B -> Prop) l l' : Forall2 R l l' -> length l = length l'.
Proof. induction 1; cbn [length]; congruence. Qed.

(* ------------------------------------------------------------------ the oneof switches and the field list *)
Section Top.
  Variable sch : schema.
  Variable det : bool.
  Variable fs : list field.
  Variable slots : list val.
  Variable unk : list byte.

  Notation run' := (mp_run sch det fs slots unk).
  Notation exec' := (mp_exec sch det fs slots unk).
  Notation eval' := (mp_eval fs slots unk).
  Notation ref' := (mp_ref fs slots unk).
  Notation cond' := (mp_cond fs slots unk).
  Notation block' := (block sch det fs slots unk).
  Notation switch_find' := (switch_find sch det fs slots unk).
  Notation WT := (fun f s => wt_slot (wt_msg sch) f s = true).

  Definition EF (f : field) (s : val) : list byte := emit_field det (emit sch det) f s.

  (* top-level code: run from the initial environment, it prepends B and leaves nothing pending *)
  Definition tw (code : list mstmt) (B : list byte) : Prop :=
    forall out pk, exists pk', run' code menv_init (ST out pk) = Some (menv_init, ST (B ++ out) pk').

  Lemma tw_nil : tw [] [].
  Proof. intros out pk. exists pk. reflexivity. Qed.
  Lemma tw_app c1 c2 B1 B2 : tw c1 B1 -> tw c2 B2 -> tw (c1 ++ c2) (B2 ++ B1).
  Proof.
    intros H1 H2 out pk. destruct (H1 out pk) as [pk1 E1]. destruct (H2 (B1 ++ out) pk1) as [pk2 E2].
    exists pk2. rewrite run_app, E1, E2, <- app_assoc. reflexivity.
  Qed.
  Lemma tw_ext c B B' : B = B' -> tw c B -> tw c B'.
  Proof. intros ->. auto. Qed.

  Lemma unk_tw : tw mp_unk unk.
  Proof.
    intros out pk. exists pk. unfold mp_unk. rewrite run_cons, exec_MsIf.
    change (cond' McUnkNotNil menv_init) with (Some (negb (Nat.eqb (length unk) 0))).
    destruct (Nat.eqb (length unk) 0) eqn:Hl; cbn [negb].
    { apply Nat.eqb_eq, length_zero_iff_nil in Hl. rewrite Hl. reflexivity. }
    unfold block. rewrite run_cons, exec_MsSub.
    change (eval' (MeLen MrUnk) menv_init (ST out pk)) with (Some (mp_len unk)). cbn beta match.
    rewrite reserve_ST. cbn [keep]. rewrite run_cons, exec_MsCopy.
    change (obind_bytes (ref' MrUnk menv_init)) with (Some unk). cbn beta match.
    rewrite fill_GP. reflexivity.
  Qed.

  (* ---- one switch *)
  Definition mwb (o : nat) (q : field * val) : list byte := if member_of o (fst q) then EF (fst q) (snd q) else [].

  Lemma EF_member_nil f o : f_shape f = Member o -> EF f VNil = [].
  Proof. intro H. unfold EF, emit_field. rewrite H. reflexivity. Qed.
  Lemma EF_member_some f o p : f_shape f = Member o ->
    EF f (VSome p) = key_bytes (f_num f) (ftype_wt (f_ty f)) ++ emit_elem (emit sch det) (f_ty f) p.
  Proof. intro H. unfold EF, emit_field. rewrite H. reflexivity. Qed.

  Lemma count0_nil o suf ssuf :
    Forall2 WT suf ssuf -> oneof_count suf ssuf o = 0%nat -> concat (map (mwb o) (combine suf ssuf)) = [].
  Proof.
    induction 1 as [|f s suf ssuf Hw HF IH]; intro Hc; [reflexivity|].
    cbn [combine map concat]. cbn [oneof_count] in Hc.
    rewrite IH by lia. rewrite app_nil_r. unfold mwb; cbn [fst snd]. unfold member_of. unfold wt_slot in Hw.
    destruct (f_shape f) as [| |o'|] eqn:Hsh; try reflexivity.
    destruct (Nat.eqb o o') eqn:He; try reflexivity.
    apply Nat.eqb_eq in He; subst o'.
    destruct s; try discriminate Hw.
    - apply (EF_member_nil f o Hsh).
    - rewrite Nat.eqb_refl in Hc. lia.
  Qed.

  Lemma switch_gen o : forall suf ssuf, Forall2 WT suf ssuf -> forall pre spre,
    fs = pre ++ suf -> slots = spre ++ ssuf -> length pre = length spre ->
    (oneof_count suf ssuf o <= 1)%nat ->
    forall out pk,
      switch_find' o menv_init (ST out pk)
        (map (fun jf => (fst jf, mp_field (fst jf) (snd jf) true))
             (filter (fun jf => member_of o (snd jf)) (sp_indexed (length pre) suf)))
      = Some (ST (concat (map (mwb o) (combine suf ssuf)) ++ out) pk).
  Proof.
    induction 1 as [|f s suf ssuf Hw HF IH]; intros pre spre Hfs Hss Hlen Hc out pk.
    - reflexivity.
    - assert (Hnf : nth_error fs (length pre) = Some f)
        by (rewrite Hfs, nth_error_app2, Nat.sub_diag by lia; reflexivity).
      assert (Hns : nth_error slots (length pre) = Some s)
        by (rewrite Hss, Hlen, nth_error_app2, Nat.sub_diag by lia; reflexivity).
      assert (IH' := IH (pre ++ [f]) (spre ++ [s])).
      rewrite !app_length in IH'. cbn [length] in IH'. rewrite !Nat.add_1_r in IH'.
      specialize (IH' ltac:(rewrite <- app_assoc; exact Hfs) ltac:(rewrite <- app_assoc; exact Hss) ltac:(lia)).
      cbn [sp_indexed filter snd combine map concat].
      cbn [oneof_count] in Hc.
      unfold mwb at 1. cbn [fst snd].
      destruct (member_of o f) eqn:Hm.
      + unfold member_of in Hm. destruct (f_shape f) as [| |o'|] eqn:Hsh; try discriminate Hm.
        apply Nat.eqb_eq in Hm. subst o'.
        cbn [map fst snd switch_find]. rewrite Hnf, Hns, Hsh, Nat.eqb_refl.
        unfold wt_slot in Hw. rewrite Hsh in Hw. rewrite Nat.eqb_refl in Hc.
        destruct s; try discriminate Hw.
        * rewrite (IH' ltac:(lia) out pk). rewrite (EF_member_nil f o Hsh). reflexivity.
        * assert (Hr : ref' (MrF (length pre)) (me_with_case (length pre) menv_init) = Some (rty_of (f_ty f), s))
            by (exact (SizeProgProofs.eval_ref_case fs slots (length pre) f o s Hnf Hns Hsh)).
          rewrite (member_block sch det fs slots unk (length pre) f o _ s out pk Hr Hsh Hw).
          rewrite (count0_nil o suf ssuf HF) by lia.
          rewrite (EF_member_some f o s Hsh), app_nil_r, <- app_assoc. reflexivity.
      + rewrite (IH' ltac:(lia) out pk). reflexivity.
  Qed.

  Variable nm no : nat.
  Hypothesis HWT : Forall2 WT fs slots.
  Hypothesis Hwf : forall f, In f fs -> field_wf nm no f = true.
  Hypothesis Hone : forall o, (o < no)%nat -> (oneof_count fs slots o <= 1)%nat.

  Definition OB (o : nat) : list byte := concat (map (mwb o) (combine fs slots)).

  Lemma switch_tw o : (o < no)%nat -> tw [MsSwitch o (mp_cases fs o)] (OB o).
  Proof.
    intros Ho out pk. exists pk.
    rewrite run_cons, exec_MsSwitch. cbn [me_case menv_init]. unfold mp_cases.
    pose proof (switch_gen o fs slots HWT [] [] eq_refl eq_refl eq_refl (Hone o Ho) out pk) as E.
    cbn [length] in E. rewrite E. reflexivity.
  Qed.

  Lemma oneofs_tw os : (forall o, In o os -> (o < no)%nat) ->
    tw (map (fun o => MsSwitch o (mp_cases fs o)) (rev os)) (concat (map OB os)).
  Proof.
    induction os as [|o os IH]; intro H; [apply tw_nil|].
    cbn [rev]. rewrite map_app. cbn [map concat].
    apply tw_app; [apply IH; intros o' Ho'; apply H; right; exact Ho' | apply switch_tw; apply H; left; reflexivity].
  Qed.

  (* ---- one plain field *)
  Lemma field_tw j f s :
    nth_error fs j = Some f -> nth_error slots j = Some s -> WT f s -> is_member f = false ->
    tw (mp_field j f false) (EF f s).
  Proof.
    intros Hf Hs Hw Hm out pk.
    pose proof (Hwf f (nth_error_In _ _ Hf)) as Hfw.
    assert (Hr := SizeProgProofs.eval_ref_top fs slots j f s Hf Hs).
    change (eval_ref fs slots (RF j) env_init) with (ref' (MrF j) menv_init) in Hr.
    unfold is_member in Hm. unfold EF.
    destruct (f_shape f) as [|pk0|o|kk] eqn:Hsh; try discriminate Hm.
    - exists pk. apply singular_exec; [exact Hr | exact Hsh |].
      unfold wt_slot in Hw. rewrite Hsh in Hw. exact Hw.
    - apply (rep_exec sch det fs slots unk j f menv_init pk0 s out pk Hr Hsh); [|exact Hw].
      unfold field_wf in Hfw. rewrite Hsh in Hfw. apply andb_prop in Hfw. exact (proj2 Hfw).
    - exists pk. apply (map_exec sch det fs slots unk j f menv_init kk s out pk Hr Hsh Hw).
  Qed.

  (* ---- the list of plain fields: indices, fields and slots together *)
  Definition T := sp_indexed 0 (combine fs slots).
  Definition p1 (t : nat * (field * val)) : nat * field := (fst t, fst (snd t)).
  Definition p2 (t : nat * (field * val)) : field * list byte := (fst (snd t), EF (fst (snd t)) (snd (snd t))).
  Definition LT : list (nat * (field * val)) :=
    isort (fun a b => f_num (fst (snd a)) <? f_num (fst (snd b))) (filter (fun t => negb (is_member (fst (snd t)))) T).

  Lemma indexed_fs : sp_indexed 0 fs = map p1 T.
  Proof.
    unfold T. rewrite <- (map_fst_combine fs slots (Forall2_length' _ _ _ HWT)) at 1.
    rewrite (sp_indexed_map fst (combine fs slots) 0). reflexivity.
  Qed.
  Lemma per_T : map (fun q => (fst q, EF (fst q) (snd q))) (combine fs slots) = map p2 T.
  Proof.
    unfold T. generalize (combine fs slots) as l. generalize 0%nat as k.
    intros k l. revert k. induction l as [|q l IH]; intro k; cbn [map sp_indexed]; [reflexivity|].
    rewrite (IH (S k)). reflexivity.
  Qed.

  Lemma plain_sorted :
    isort (fun a b => f_num (snd a) <? f_num (snd b)) (filter (fun jf => negb (is_member (snd jf))) (sp_indexed 0 fs))
    = map p1 LT.
  Proof. rewrite indexed_fs, filter_map_comm. apply isort_map. reflexivity. Qed.
  Lemma per_sorted :
    isort (fun a b => f_num (fst a) <? f_num (fst b))
          (filter (fun p => negb (is_member (fst p))) (map (fun q => (fst q, EF (fst q) (snd q))) (combine fs slots)))
    = map p2 LT.
  Proof. rewrite per_T, filter_map_comm. apply isort_map. reflexivity. Qed.

  Lemma LT_in t : In t LT ->
    nth_error fs (fst t) = Some (fst (snd t)) /\ nth_error slots (fst t) = Some (snd (snd t)) /\
    is_member (fst (snd t)) = false.
  Proof.
    intro H. unfold LT in H.
    apply (Permutation.Permutation_in _ (CodecSize.isort_perm _ _)) in H.
    apply filter_In in H. destruct H as [H Hm]. destruct t as [j [f s]]. cbn [fst snd] in *.
    unfold T in H. apply sp_indexed_in in H. destruct H as [_ H]. rewrite Nat.sub_0_r in H.
    apply nth_error_combine_inv in H. destruct H as [Hf Hs].
    repeat split; try assumption. destruct (is_member f); [discriminate Hm | reflexivity].
  Qed.

  Lemma plain_list_tw (L : list (nat * (field * val))) :
    (forall t, In t L -> In t LT) ->
    tw (concat (map (fun jf => mp_field (fst jf) (snd jf) false) (rev (map p1 L)))) (concat (map snd (map p2 L))).
  Proof.
    induction L as [|t L IH]; intro H; [apply tw_nil|].
    cbn [map rev]. rewrite map_app, concat_app. cbn [map concat]. rewrite app_nil_r.
    apply tw_app; [apply IH; intros t' Ht'; apply H; right; exact Ht'|].
    destruct (LT_in t (H t (or_introl eq_refl))) as [Hf [Hs Hm]].
    unfold p1, p2. cbn [fst snd].
    apply field_tw; try assumption.
    destruct (SizeProgProofs.Forall2_nth _ _ _ HWT _ _ Hf) as [s' [Hs' Hw]].
    rewrite Hs in Hs'. injection Hs' as <-. exact Hw.
  Qed.

  Lemma plain_tw :
    tw (mp_plain fs)
       (concat (map snd (isort (fun a b => f_num (fst a) <? f_num (fst b))
          (filter (fun p => negb (is_member (fst p))) (map (fun q => (fst q, EF (fst q) (snd q))) (combine fs slots)))))).
  Proof.
    unfold mp_plain. rewrite plain_sorted, per_sorted. apply plain_list_tw. auto.
  Qed.

  Lemma oneof_bytes o :
    concat (map snd (filter (fun p => member_of o (fst p)) (map (fun q => (fst q, EF (fst q) (snd q))) (combine fs slots))))
    = OB o.
  Proof.
    rewrite filter_map_comm, map_map. cbn [fst snd]. unfold OB, mwb.
    rewrite (concat_map_if (fun q : field * val => member_of o (fst q)) (fun q => EF (fst q) (snd q))). reflexivity.
  Qed.

  Lemma body_tw md : m_fields md = fs -> m_oneofs md = no ->
    tw (mp_unk ++ mp_oneofs md ++ mp_plain fs)
       (assemble md (map (fun q => (fst q, EF (fst q) (snd q))) (combine fs slots)) ++ unk).
  Proof.
    intros Hfs Hno. unfold assemble, mp_oneofs. rewrite Hfs, Hno.
    apply tw_app; [apply unk_tw|].
    apply tw_app; [|apply plain_tw].
    eapply tw_ext; [|apply oneofs_tw; intros o Ho; apply in_seq in Ho; lia].
    apply f_equal. apply map_ext. intro o. symmetry. apply oneof_bytes.
  Qed.
End Top.

(* ------------------------------------------------------------------ the theorem *)
Lemma emit_unfold_combine sch det mid slots unk :
  emit sch det mid (VMsg slots unk) =
  match get_msg sch mid with
  | None => []
  | Some md =>
    assemble md (map (fun q => (fst q, emit_field det (emit sch det) (fst q) (snd q))) (combine (m_fields md) slots)) ++ unk
  end.
Proof.
  cbn [emit]. destruct (get_msg sch mid) as [md|]; [|reflexivity].
  f_equal. f_equal. generalize (m_fields md) as fs.
  induction slots as [|s ss IH]; intro fs; destruct fs as [|f fs]; cbn [combine map fst snd]; try reflexivity.
  rewrite IH. reflexivity.
Qed.

Lemma marshal_prog_correct : forall sch det mid v, wf sch = true -> wt_msg sch mid v = true ->
  run_marshal sch det mid (canon_marshal sch mid) v = Some (emit sch det mid v).
Proof.
  intros sch det mid v Hwf Hwt.
  destruct v as [| | | | | |slots unk| |]; try discriminate Hwt.
  destruct (SizeProgProofs.wt_msg_unfold sch mid slots unk Hwt) as [md [Hmd [HWT Hone]]].
  pose proof (SizeProgProofs.wf_fields sch mid md Hwf Hmd) as Hfw.
  unfold run_marshal, canon_marshal. rewrite Hmd.
  destruct (body_tw sch det (m_fields md) slots unk (length sch) (m_oneofs md) HWT Hfw Hone md eq_refl eq_refl [] None)
    as [pk' E].
  change mstate_init with (ST [] None). rewrite E.
  cbn [mp_settle ST ms_gap ms_fwd ms_out].
  rewrite emit_unfold_combine, Hmd. rewrite app_nil_r. reflexivity.
Qed.
