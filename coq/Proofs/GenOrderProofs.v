(* Proofs/GenOrderProofs.v — lemmas about Model/GenOrder.v *)
From CP Require Import Bytes GenNames GenOrder GenNamesProofs.
From Coq Require Import Lia Permutation.
Local Open Scope N_scope.

(* ---- Go's string order on names is a total order -------------------------------------------------- *)
Lemma b2n_inj : forall x y, b2n x = b2n y -> x = y.
Proof.
  intros x y H. unfold b2n in H. pose proof (Byte.of_to_N x) as Hx. pose proof (Byte.of_to_N y) as Hy.
  rewrite H in Hx. rewrite Hx in Hy. inversion Hy. reflexivity.
Qed.

Lemma leb_total : forall a b, name_leb a b = true \/ name_leb b a = true.
Proof.
  induction a as [|x a IH]; destruct b as [|y b]; simpl; auto.
  destruct (b2n x <? b2n y) eqn:E1; auto. destruct (b2n y <? b2n x) eqn:E2; auto.
Qed.

Lemma leb_antisym : forall a b, name_leb a b = true -> name_leb b a = true -> a = b.
Proof.
  induction a as [|x a IH]; destruct b as [|y b]; simpl; intros H1 H2; auto; try discriminate.
  destruct (b2n x <? b2n y) eqn:E1; destruct (b2n y <? b2n x) eqn:E2; try discriminate.
  - apply N.ltb_lt in E1. apply N.ltb_lt in E2. lia.
  - apply N.ltb_ge in E1. apply N.ltb_ge in E2. assert (x = y) by (apply b2n_inj; lia). subst.
    f_equal. apply IH; auto.
Qed.

Lemma leb_trans : forall a b c, name_leb a b = true -> name_leb b c = true -> name_leb a c = true.
Proof.
  induction a as [|x a IH]; destruct b as [|y b]; destruct c as [|z c]; simpl; intros H1 H2; auto; try discriminate.
  destruct (b2n x <? b2n y) eqn:E1; destruct (b2n y <? b2n z) eqn:E2;
    destruct (b2n y <? b2n x) eqn:E3; destruct (b2n z <? b2n y) eqn:E4; try discriminate;
    destruct (b2n x <? b2n z) eqn:E5; auto; destruct (b2n z <? b2n x) eqn:E6;
    repeat match goal with
           | H : (_ <? _) = true |- _ => apply N.ltb_lt in H
           | H : (_ <? _) = false |- _ => apply N.ltb_ge in H
           end; try lia.
  eapply IH; eauto.
Qed.

Lemma insert_comm : forall l x y, insert x (insert y l) = insert y (insert x l).
Proof.
  induction l as [|z t IH]; intros x y.
  - simpl. destruct (name_leb x y) eqn:Exy; destruct (name_leb y x) eqn:Eyx; auto.
    + rewrite (leb_antisym _ _ Exy Eyx). reflexivity.
    + destruct (leb_total x y); congruence.
  - simpl. destruct (name_leb y z) eqn:Eyz; destruct (name_leb x z) eqn:Exz; simpl; rewrite ?Eyz, ?Exz.
    + destruct (name_leb x y) eqn:Exy; destruct (name_leb y x) eqn:Eyx; auto.
      * rewrite (leb_antisym _ _ Exy Eyx). reflexivity.
      * destruct (leb_total x y); congruence.
    + destruct (name_leb x y) eqn:Exy; auto.
      rewrite (leb_trans _ _ _ Exy Eyz) in Exz. discriminate.
    + destruct (name_leb y x) eqn:Eyx; auto.
      rewrite (leb_trans _ _ _ Eyx Exz) in Eyz. discriminate.
    + f_equal. apply IH.
Qed.

(* the run order of the features does not depend on the iteration order of the Go map *)
Lemma sort_perm : forall l l', Permutation l l' -> sort l = sort l'.
Proof.
  intros l l' H. induction H; simpl; auto.
  - rewrite IHPermutation. reflexivity.
  - apply insert_comm.
  - congruence.
Qed.

(* ---- scanning the pointer-keyed map ---------------------------------------------------------------- *)
Lemma path_eqb_eq : forall a b, path_eqb a b = true <-> a = b.
Proof.
  induction a as [|x a IH]; destruct b as [|y b]; simpl; split; intros H; auto; try discriminate.
  - apply andb_true_iff in H. destruct H as [H1 H2]. apply name_eqb_eq in H1. apply IH in H2. subst. reflexivity.
  - inversion H; subst. rewrite name_eqb_refl. simpl. apply IH. reflexivity.
Qed.

Lemma path_eqb_refl : forall a, path_eqb a a = true.
Proof. intros. apply path_eqb_eq. reflexivity. Qed.

Definition scan_step (target : path) (acc : option N) (e : path * N) : option N :=
  if path_eqb (fst e) target then Some (snd e) else acc.

Lemma scan_unfold : forall l t, scan l t = fold_left (scan_step t) l None.
Proof. reflexivity. Qed.

Lemma scan_notin : forall t l acc, ~ In t (map fst l) -> fold_left (scan_step t) l acc = acc.
Proof.
  induction l as [|e r IH]; simpl; intros acc H; auto.
  rewrite IH by tauto. unfold scan_step. destruct (path_eqb (fst e) t) eqn:E; auto.
  apply path_eqb_eq in E. exfalso. apply H. auto.
Qed.

Lemma scan_in : forall t i l, NoDup (map fst l) -> In (t, i) l -> forall acc, fold_left (scan_step t) l acc = Some i.
Proof.
  induction l as [|e r IH]; simpl; intros Hnd Hin acc. contradiction.
  inversion Hnd as [|? ? Hnot Hnd']; subst. destruct Hin as [E|Hin].
  - subst e. simpl in Hnot. rewrite scan_notin by exact Hnot. unfold scan_step. simpl. rewrite path_eqb_refl. reflexivity.
  - apply IH; auto.
Qed.

Definition path_eq_dec : forall a b : path, {a = b} + {a <> b} := list_eq_dec (list_eq_dec Byte.byte_eq_dec).

Lemma msg_index_unique : forall l l' t, NoDup (map fst l) -> Permutation l l' -> scan l t = scan l' t.
Proof.
  intros l l' t Hnd Hp. rewrite !scan_unfold.
  assert (Hnd' : NoDup (map fst l')) by (eapply Permutation_NoDup; [apply Permutation_map; exact Hp | exact Hnd]).
  destruct (in_dec path_eq_dec t (map fst l)) as [Hin|Hout].
  - apply in_map_iff in Hin. destruct Hin as [[p i] [E Hin]]. simpl in E. subst p.
    rewrite (scan_in t i l Hnd Hin). rewrite (scan_in t i l' Hnd'); auto. eapply Permutation_in; eauto.
  - rewrite scan_notin by exact Hout. rewrite scan_notin; auto.
    intros H. apply Hout. eapply Permutation_in. apply Permutation_sym. apply Permutation_map. exact Hp. exact H.
Qed.

Lemma indexed_fst : forall l i, map fst (indexed_from i l) = l.
Proof. induction l; simpl; intros; auto. rewrite IHl. reflexivity. Qed.

Lemma index_from_some : forall l i t j, index_from i l t = Some j -> In (t, j) (indexed_from i l).
Proof.
  induction l as [|p r IH]; simpl; intros i t j H. discriminate.
  destruct (path_eqb p t) eqn:E.
  - apply path_eqb_eq in E. inversion H; subst. auto.
  - right. apply IH. exact H.
Qed.

Lemma index_from_none : forall l i t, index_from i l t = None -> ~ In t l.
Proof.
  induction l as [|p r IH]; simpl; intros i t H Hin; auto.
  destruct (path_eqb p t) eqn:E. discriminate.
  destruct Hin as [Hin|Hin].
  - subst. rewrite path_eqb_refl in E. discriminate.
  - exact (IH _ _ H Hin).
Qed.

(* with unique full names, the scan returns the position in the list, whatever the iteration order *)
Lemma scan_is_position : forall l t, NoDup l -> scan (indexed l) t = index_of l t.
Proof.
  intros l t Hnd. unfold indexed, index_of. rewrite scan_unfold.
  destruct (index_from 0 l t) as [j|] eqn:E.
  - apply index_from_some in E. apply scan_in; auto. rewrite indexed_fst. exact Hnd.
  - apply index_from_none in E. apply scan_notin. rewrite indexed_fst. exact E.
Qed.

Lemma nodup_paths_NoDup : forall l, nodup_paths l = true -> NoDup l.
Proof.
  induction l as [|x t IH]; simpl; intros H. constructor.
  apply andb_true_iff in H. destruct H as [H1 H2]. constructor; auto.
  intros Hin. assert (existsb (path_eqb x) t = true).
  { apply existsb_exists. exists x. split; auto. apply path_eqb_refl. }
  rewrite H in H1. discriminate.
Qed.

(* ---- NewFileInfo's accumulator walk = TypeBuilder's flattened ordering -------------------------------- *)
Section mtree_induction.
  Variable P : mtree -> Prop.
  Hypothesis Hstep : forall n ch, Forall P ch -> P (MT n ch).
  Fixpoint mtree_ind2 (m : mtree) : P m :=
    match m with
    | MT n ch => Hstep n ch ((fix go (l : list mtree) : Forall P l :=
                               match l with
                               | [] => Forall_nil P
                               | x :: t => Forall_cons x (mtree_ind2 x) (go t)
                               end) ch)
    end.
End mtree_induction.

Lemma walk_eq : forall p n ch acc,
  walk p (MT n ch) acc = fold_left (fun a c => walk (p ++ [n]) c a) ch (acc ++ map (fun c => (p ++ [n]) ++ [mt_name c]) ch).
Proof. reflexivity. Qed.

Lemma visit_eq : forall p n ch,
  visit p (MT n ch) = map (fun c => (p ++ [n]) ++ [mt_name c]) ch ++ flat_map (visit (p ++ [n])) ch.
Proof. reflexivity. Qed.

Lemma fold_walk : forall q ch, Forall (fun c => forall p acc, walk p c acc = acc ++ visit p c) ch ->
  forall a, fold_left (fun a c => walk q c a) ch a = a ++ flat_map (visit q) ch.
Proof.
  intros q ch H. induction H as [|c t Hc Ht IH]; intros a; simpl.
  - rewrite app_nil_r. reflexivity.
  - rewrite Hc. rewrite IH. rewrite <- app_assoc. reflexivity.
Qed.

Lemma walk_visit : forall m p acc, walk p m acc = acc ++ visit p m.
Proof.
  apply (mtree_ind2 (fun m => forall p acc, walk p m acc = acc ++ visit p m)).
  intros n ch H p acc. rewrite walk_eq, visit_eq. rewrite (fold_walk _ _ H). rewrite <- app_assoc. reflexivity.
Qed.

Lemma flatten_gen_eq_spec : forall tops, flatten_gen tops = flatten_spec tops.
Proof.
  intros tops. unfold flatten_gen, flatten_spec. apply fold_walk.
  apply Forall_forall. intros c _. apply walk_visit.
Qed.

(* ---- sort really sorts ------------------------------------------------------------------------------ *)
Lemma insert_perm : forall x l, Permutation (insert x l) (x :: l).
Proof.
  induction l as [|y t IH]; simpl; auto. destruct (name_leb x y); auto.
  eapply perm_trans. apply perm_skip. exact IH. apply perm_swap.
Qed.

Lemma sort_is_permutation : forall l, Permutation (sort l) l.
Proof.
  induction l as [|x t IH]; simpl; auto. eapply perm_trans. apply insert_perm. apply perm_skip. exact IH.
Qed.

Fixpoint sortedb (l : list name) : bool :=
  match l with
  | a :: ((b :: _) as t) => name_leb a b && sortedb t
  | _ => true
  end.

Lemma insert_sorted : forall x l, sortedb l = true -> sortedb (insert x l) = true.
Proof.
  induction l as [|y t IH]; intros H; simpl; auto.
  destruct (name_leb x y) eqn:E.
  - simpl. rewrite E. simpl in H. exact H.
  - assert (Hyx : name_leb y x = true) by (destruct (leb_total x y); congruence).
    destruct t as [|z t'].
    + simpl. rewrite Hyx. reflexivity.
    + simpl in H. apply andb_true_iff in H. destruct H as [Hyz Ht]. specialize (IH Ht).
      simpl in IH. simpl. destruct (name_leb x z) eqn:Exz.
      * simpl. rewrite Hyx. simpl. simpl in IH. exact IH.
      * simpl. rewrite Hyz. simpl. exact IH.
Qed.

Lemma sort_sorted : forall l, sortedb (sort l) = true.
Proof. induction l; simpl; auto. apply insert_sorted. exact IHl. Qed.

(* ---- the md_ lookup chain finds every declared message ------------------------------------------------ *)
Fixpoint wf_tree (m : mtree) : bool :=
  match m with MT n ch => nodupb (map mt_name ch) && forallb wf_tree ch end.
Definition wf_forest (ms : list mtree) : bool := nodupb (map mt_name ms) && forallb wf_tree ms.

Lemma by_name_in : forall ms m, NoDup (map mt_name ms) -> In m ms -> by_name ms (mt_name m) = Some m.
Proof.
  induction ms as [|h t IH]; simpl; intros m Hnd Hin. contradiction.
  inversion Hnd as [|? ? Hnot Hnd']; subst. unfold by_name. simpl.
  destruct (name_eqb (mt_name h) (mt_name m)) eqn:E.
  - destruct Hin as [Hin|Hin]. subst. reflexivity.
    apply name_eqb_eq in E. exfalso. apply Hnot. rewrite E. apply in_map. exact Hin.
  - destruct Hin as [Hin|Hin]. subst. rewrite name_eqb_refl in E. discriminate.
    apply IH; auto.
Qed.

Lemma lookup_cons : forall ms n r, r <> [] ->
  lookup_path ms (n :: r) = match by_name ms n with Some m => lookup_path (mt_children m) r | None => None end.
Proof. intros ms n r H. destruct r. congruence. reflexivity. Qed.

Lemma last_cons_ne : forall (n : name) r, r <> [] -> last (n :: r) [] = last r [].
Proof. intros n r H. destruct r. congruence. reflexivity. Qed.

Lemma visit_lookup : forall m, wf_tree m = true -> forall p p', In p' (visit p m) ->
  exists rest m', rest <> [] /\ p' = (p ++ [mt_name m]) ++ rest /\ lookup_path (mt_children m) rest = Some m' /\ mt_name m' = last rest [].
Proof.
  apply (mtree_ind2 (fun m => wf_tree m = true -> forall p p', In p' (visit p m) ->
    exists rest m', rest <> [] /\ p' = (p ++ [mt_name m]) ++ rest /\ lookup_path (mt_children m) rest = Some m' /\ mt_name m' = last rest [])).
  intros n ch IH W p p' Hin. simpl in W. apply andb_true_iff in W. destruct W as [Wn Wc].
  apply nodupb_NoDup in Wn. rewrite forallb_forall in Wc. rewrite Forall_forall in IH.
  rewrite visit_eq in Hin. apply in_app_or in Hin. simpl mt_name. simpl mt_children. destruct Hin as [Hin|Hin].
  - apply in_map_iff in Hin. destruct Hin as [c [E Hc]]. subst p'.
    exists [mt_name c], c. repeat split; auto. discriminate. simpl. apply by_name_in; auto.
  - apply in_flat_map in Hin. destruct Hin as [c [Hc Hin]].
    destruct (IH c Hc (Wc c Hc) _ _ Hin) as [rest [m' [Hne [E [L Nm]]]]].
    exists (mt_name c :: rest), m'. repeat split.
    + discriminate.
    + rewrite E. rewrite <- !app_assoc. reflexivity.
    + rewrite lookup_cons by exact Hne. rewrite (by_name_in ch c Wn Hc). exact L.
    + rewrite last_cons_ne by exact Hne. exact Nm.
Qed.

Lemma descriptor_paths : forall tops, wf_forest tops = true -> forall p, In p (flatten_spec tops) ->
  exists m, lookup_path tops p = Some m /\ mt_name m = last p [].
Proof.
  intros tops W p Hin. unfold wf_forest in W. apply andb_true_iff in W. destruct W as [Wn Wc].
  apply nodupb_NoDup in Wn. rewrite forallb_forall in Wc.
  unfold flatten_spec in Hin. apply in_app_or in Hin. destruct Hin as [Hin|Hin].
  - apply in_map_iff in Hin. destruct Hin as [m [E Hm]]. subst p. exists m. split; auto. simpl. apply by_name_in; auto.
  - apply in_flat_map in Hin. destruct Hin as [m [Hm Hin]].
    destruct (visit_lookup m (Wc m Hm) _ _ Hin) as [rest [m' [Hne [E [L Nm]]]]]. simpl in E. subst p.
    exists m'. split.
    + rewrite lookup_cons by exact Hne. rewrite (by_name_in tops m Wn Hm). exact L.
    + rewrite last_cons_ne by exact Hne. exact Nm.
Qed.

(* ---- feature selection ------------------------------------------------------------------------------- *)
Lemma gen_outcome_examples :
  gen_outcome (s_protoc ++ plus :: s_fastf) = Generated [s_fastf; s_protoc] /\
  gen_outcome (s_fastf ++ plus :: s_protoc) = Generated [s_fastf; s_protoc] /\
  gen_outcome s_all = Generated [s_fastf; s_protoc] /\
  gen_outcome s_protoc = Skipped /\
  gen_outcome (s_fastf ++ [plus]) = UnknownFeature.
Proof. vm_compute. repeat split; reflexivity. Qed.
