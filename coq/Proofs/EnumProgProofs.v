(* Proofs/EnumProgProofs.v — lemmas about Model/EnumProg.v *)
From CP Require Import Bytes GenNames GenNamesProofs GenDeps GenDepsProofs EnumProg.
From Coq Require Import Lia.
Local Open Scope N_scope.

(* ---- positions ------------------------------------------------------------------------------------------------------ *)
Lemma pos_lt : forall g n, In n g -> pos g n < len g.
Proof.
  intros g n H. apply pos_nth in H. unfold len.
  assert (N.to_nat (pos g n) < length g)%nat by (apply nth_error_Some; congruence). lia.
Qed.
Lemma pos_inj : forall g a b, In a g -> In b g -> pos g a = pos g b -> a = b.
Proof. intros g a b Ha Hb E. apply pos_nth in Ha. apply pos_nth in Hb. rewrite E in Ha. congruence. Qed.

(* ---- the paths list the enums in the generator's walk order ----------------------------------------------------------- *)
Lemma number_from_names : forall es p i, map fst (number_from p i es) = es.
Proof. induction es as [|e r IH]; intros p i; simpl. reflexivity. rewrite IH. reflexivity. Qed.

Lemma epaths_unfold : forall n es xs fs ns p, epaths p (DM n es xs fs ns) = number_from p 0 es ++ epaths_list p 0 ns.
Proof.
  intros. cbn [epaths]. f_equal. generalize 0. induction ns as [|c r IH]; intros i. reflexivity.
  cbn [epaths_list]. rewrite <- IH. reflexivity.
Qed.

Lemma epaths_names : forall m p, map fst (epaths p m) = flat_map dm_enums (pre m).
Proof.
  fix IH 1. intros [n es xs fs ns] p. rewrite epaths_unfold. cbn [pre flat_map dm_enums]. rewrite map_app, number_from_names.
  f_equal. generalize 0. induction ns as [|c r IHr]; intros i. reflexivity.
  cbn [epaths_list flat_map]. rewrite map_app, flat_map_app, IH, IHr. reflexivity.
Qed.
Lemma epaths_list_names : forall ms p i, map fst (epaths_list p i ms) = flat_map dm_enums (flat_map pre ms).
Proof.
  induction ms as [|c r IH]; intros p i. reflexivity.
  cbn [epaths_list flat_map]. rewrite map_app, flat_map_app, epaths_names, IH. reflexivity.
Qed.
Lemma file_epaths_names : forall f, map fst (file_epaths f) = all_enums f.
Proof. intros f. unfold file_epaths, all_enums, walk_order. rewrite map_app, number_from_names, epaths_list_names. reflexivity. Qed.

(* ---- every listed path leads to its enum -------------------------------------------------------------------------------- *)
Lemma nthN_opt_app_one : forall (A : Type) (l : list A) (x : A), nthN_opt (l ++ [x]) (len l) = Some x.
Proof. intros. unfold nthN_opt, len. rewrite Nat2N.id. rewrite nth_error_app2 by lia. rewrite Nat.sub_diag. reflexivity. Qed.

Fixpoint resolve_msg (m : dmsg) (p : list N) {struct p} : option name :=
  match p with
  | [] => None
  | [i] => nthN_opt (dm_enums m) i
  | i :: rest => match nthN_opt (dm_nested m) i with Some c => resolve_msg c rest | None => None end
  end.

Lemma resolve_in_msg : forall p fuel m, (length p < fuel)%nat ->
  resolve_in fuel (dm_enums m) (dm_nested m) p = resolve_msg m p.
Proof.
  induction p as [|i rest IH]; intros fuel m H; destruct fuel as [|k]; try (simpl in H; lia); cbn [resolve_in resolve_msg].
  - reflexivity.
  - destruct rest as [|j rest']. reflexivity.
    destruct (nthN_opt (dm_nested m) i) as [c|]; [|reflexivity]. apply IH. simpl in *. lia.
Qed.

(* descend: the message reached from m by the index list q *)
Fixpoint descend (m : dmsg) (q : list N) : option dmsg :=
  match q with [] => Some m | i :: r => match nthN_opt (dm_nested m) i with Some c => descend c r | None => None end end.
Lemma resolve_msg_descend : forall q m c i, descend m q = Some c -> resolve_msg m (q ++ [i]) = nthN_opt (dm_enums c) i.
Proof.
  induction q as [|j r IH]; intros m c i H; simpl in H.
  - inversion H; subst. reflexivity.
  - destruct (nthN_opt (dm_nested m) j) as [d|] eqn:E; [|discriminate].
    change ((j :: r) ++ [i]) with (j :: (r ++ [i])). cbn [resolve_msg]. destruct (r ++ [i]) eqn:E2.
    + destruct r; discriminate.
    + rewrite E. rewrite <- E2. apply IH. exact H.
Qed.
Lemma descend_snoc : forall q m c i d, descend m q = Some c -> nthN_opt (dm_nested c) i = Some d -> descend m (q ++ [i]) = Some d.
Proof.
  induction q as [|j r IH]; intros m c i d H Hd; simpl in H.
  - inversion H; subst. simpl. rewrite Hd. reflexivity.
  - destruct (nthN_opt (dm_nested m) j) as [e|] eqn:E; [|discriminate]. simpl. rewrite E. eapply IH; eauto.
Qed.

Lemma number_from_in : forall es p i0 n path, In (n, path) (number_from p i0 es) ->
  exists i, path = p ++ [i] /\ i0 <= i /\ nth_error es (N.to_nat (i - i0)) = Some n.
Proof.
  induction es as [|e r IH]; intros p i0 n path H; simpl in H. contradiction.
  destruct H as [H|H].
  - inversion H; subst. exists i0. split; [reflexivity|split; [lia|]]. rewrite N.sub_diag. reflexivity.
  - destruct (IH _ _ _ _ H) as [i [E [L Hn]]]. exists i. split; [exact E|split; [lia|]].
    replace (N.to_nat (i - i0)) with (S (N.to_nat (i - (i0 + 1)))) by lia. exact Hn.
Qed.

(* m is reached from the root message `top` by q; every (n, path) of epaths … m has path = pfx ++ q ++ … *)
Lemma epaths_in : forall m top pfx q n path, descend top q = Some m -> In (n, path) (epaths (pfx ++ q) m) ->
  exists q', path = pfx ++ q' /\ resolve_msg top q' = Some n.
Proof.
  fix IH 1. intros [mn es xs fs ns] top pfx q n path D H. rewrite epaths_unfold in H. apply in_app_or in H. destruct H as [H|H].
  - destruct (number_from_in _ _ _ _ _ H) as [i [E [_ Hn]]]. rewrite N.sub_0_r in Hn.
    exists (q ++ [i]). split. rewrite E. rewrite app_assoc. reflexivity.
    rewrite (resolve_msg_descend _ _ _ _ D). exact Hn.
  - assert (G : forall i0 l, (forall k c, nth_error l k = Some c -> nthN_opt ns (i0 + N.of_nat k) = Some c) ->
               In (n, path) (epaths_list (pfx ++ q) i0 l) -> exists q', path = pfx ++ q' /\ resolve_msg top q' = Some n).
    { intros i0 l. revert i0. induction l as [|c r IHr]; intros i0 Hl Hin. contradiction.
      cbn [epaths_list] in Hin. apply in_app_or in Hin. destruct Hin as [Hin|Hin].
      - rewrite <- app_assoc in Hin. apply (IH c top pfx (q ++ [i0]) n path); [|exact Hin].
        eapply descend_snoc. exact D. cbn [dm_nested]. specialize (Hl O c eq_refl). rewrite N.add_0_r in Hl. exact Hl.
      - apply (IHr (i0 + 1)); [|exact Hin]. intros k c' Hk. specialize (Hl (S k) c' Hk).
        replace (i0 + 1 + N.of_nat k) with (i0 + N.of_nat (S k)) by lia. exact Hl. }
    apply (G 0 ns); [|exact H]. intros k c Hk. unfold nthN_opt. rewrite N.add_0_l, Nat2N.id. exact Hk.
Qed.

Lemma resolve_in_step : forall k es ms i j r,
  resolve_in (S k) es ms (i :: j :: r) =
  match nthN_opt ms i with Some m => resolve_in k (dm_enums m) (dm_nested m) (j :: r) | None => None end.
Proof. reflexivity. Qed.
Lemma resolve_path_top : forall f i m rest, nthN_opt (df_msgs f) i = Some m -> rest <> [] ->
  resolve_path f (i :: rest) = resolve_msg m rest.
Proof.
  intros f i m rest Hm Hr. unfold resolve_path. destruct rest as [|j r]. congruence.
  rewrite resolve_in_step. rewrite Hm. apply resolve_in_msg. simpl. lia.
Qed.

Lemma resolve_msg_nonempty : forall m q n, resolve_msg m q = Some n -> q <> [].
Proof. intros m q n H. destruct q; simpl in H; congruence. Qed.

Lemma file_epaths_resolve : forall f n path, In (n, path) (file_epaths f) -> resolve_path f path = Some n.
Proof.
  intros f n path H. unfold file_epaths in H. apply in_app_or in H. destruct H as [H|H].
  - destruct (number_from_in _ _ _ _ _ H) as [i [E [_ Hn]]]. rewrite N.sub_0_r in Hn. subst path. exact Hn.
  - assert (G : forall i0 l, (forall k c, nth_error l k = Some c -> nthN_opt (df_msgs f) (i0 + N.of_nat k) = Some c) ->
               In (n, path) (epaths_list [] i0 l) -> resolve_path f path = Some n).
    { intros i0 l. revert i0. induction l as [|c r IHr]; intros i0 Hl Hin. contradiction.
      cbn [epaths_list] in Hin. apply in_app_or in Hin. destruct Hin as [Hin|Hin].
      - destruct (epaths_in c c [i0] [] n path eq_refl) as [q' [E R]]. rewrite app_nil_r. exact Hin.
        subst path. cbn [app]. specialize (Hl O c eq_refl). rewrite N.add_0_r in Hl.
        rewrite (resolve_path_top f i0 c q' Hl (resolve_msg_nonempty _ _ _ R)). exact R.
      - apply (IHr (i0 + 1)); [|exact Hin]. intros k c' Hk. specialize (Hl (S k) c' Hk).
        replace (i0 + 1 + N.of_nat k) with (i0 + N.of_nat (S k)) by lia. exact Hl. }
    apply (G 0 (df_msgs f)); [|exact H]. intros k c Hk. unfold nthN_opt. rewrite N.add_0_l, Nat2N.id. exact Hk.
Qed.

Lemma find_path_in : forall f n path, find_path f n = Some path -> In (n, path) (file_epaths f).
Proof.
  intros f n path H. unfold find_path in H. destruct (find _ _) as [[a b]|] eqn:E; [|discriminate].
  apply find_some in E. destruct E as [I Q]. simpl in Q. apply name_eqb_eq in Q. inversion H; subst. exact I.
Qed.
Lemma find_path_total : forall f n, In n (all_enums f) -> exists path, find_path f n = Some path.
Proof.
  intros f n H. rewrite <- file_epaths_names in H. apply in_map_iff in H. destruct H as [[a b] [E I]]. simpl in E. subst a.
  unfold find_path. destruct (find _ _) as [e|] eqn:F. eauto.
  exfalso. apply (find_none _ _ F) in I. simpl in I. rewrite name_eqb_refl in I. discriminate.
Qed.

(* ---- E_name and String() ------------------------------------------------------------------------------------------------ *)
Lemma first_names_lookup : forall vs seen x,
  map_lookup (first_names seen vs) x = if existsb (Z.eqb x) seen then map_lookup (first_names seen vs) x else by_number vs x.
Proof.
  induction vs as [|v r IH]; intros seen x.
  - destruct (existsb _ seen); reflexivity.
  - destruct (existsb (Z.eqb x) seen) eqn:S; [reflexivity|].
    cbn [first_names]. unfold by_number. cbn [find].
    destruct (existsb (Z.eqb (ev_num v)) seen) eqn:S2.
    + destruct (Z.eqb (ev_num v) x) eqn:E.
      * apply Z.eqb_eq in E. subst x. congruence.
      * specialize (IH seen x). rewrite S in IH. exact IH.
    + unfold map_lookup. cbn [find fst snd]. destruct (Z.eqb (ev_num v) x) eqn:E. reflexivity.
      specialize (IH (ev_num v :: seen) x). cbn [existsb] in IH. rewrite S in IH.
      rewrite Z.eqb_sym in E. rewrite E in IH. exact IH.
Qed.
Lemma name_map_by_number : forall vs x, map_lookup (first_names [] vs) x = by_number vs x.
Proof. intros. rewrite first_names_lookup. reflexivity. Qed.
(* the numbers of E_name are pairwise distinct (a Go map literal with a duplicate constant key does not compile) *)
Lemma first_names_fresh : forall vs seen e, In e (first_names seen vs) -> ~ In (fst e) seen.
Proof.
  induction vs as [|v r IH]; intros seen e H; simpl in H. contradiction.
  destruct (existsb (Z.eqb (ev_num v)) seen) eqn:S. apply IH; exact H.
  destruct H as [H|H].
  - subst e. simpl. intros I. assert (existsb (Z.eqb (ev_num v)) seen = true) by (apply existsb_exists; exists (ev_num v); split; [exact I|apply Z.eqb_refl]). congruence.
  - intros I. apply (IH _ _ H). right. exact I.
Qed.
Lemma first_names_nodup : forall vs seen, NoDup (map fst (first_names seen vs)).
Proof.
  induction vs as [|v r IH]; intros seen; simpl. constructor.
  destruct (existsb (Z.eqb (ev_num v)) seen). apply IH.
  simpl. constructor; [|apply IH]. intros I. apply in_map_iff in I. destruct I as [e [E I]].
  apply first_names_fresh in I. apply I. left. symmetry. exact E.
Qed.

(* ---- decidable equality ------------------------------------------------------------------------------------------------ *)
Lemma list_eqb_eq : forall (A : Type) (e : A -> A -> bool), (forall x y, e x y = true <-> x = y) ->
  forall a b, list_eqb e a b = true <-> a = b.
Proof.
  intros A e He. induction a as [|x a IH]; intros [|y b]; simpl; split; intros H; try reflexivity; try discriminate.
  - apply andb_true_iff in H. destruct H as [H1 H2]. apply He in H1. apply IH in H2. congruence.
  - inversion H; subst. apply andb_true_iff. split. apply He. reflexivity. apply IH. reflexivity.
Qed.
Lemma nz_eqb_eq : forall x y : name * Z, (name_eqb (fst x) (fst y) && Z.eqb (snd x) (snd y)) = true <-> x = y.
Proof.
  intros [a b] [c d]; simpl. rewrite andb_true_iff, name_eqb_eq, Z.eqb_eq. split. intros [-> ->]. reflexivity. intros H; inversion H; auto.
Qed.
Lemma zn_eqb_eq : forall x y : Z * name, (Z.eqb (fst x) (fst y) && name_eqb (snd x) (snd y)) = true <-> x = y.
Proof.
  intros [a b] [c d]; simpl. rewrite andb_true_iff, name_eqb_eq, Z.eqb_eq. split. intros [-> ->]. reflexivity. intros H; inversion H; auto.
Qed.
Lemma emeth_eqb_eq : forall a b, emeth_eqb a b = true <-> a = b.
Proof.
  intros a b. split.
  - destruct a, b; simpl; intros H; try discriminate;
      repeat (apply andb_true_iff in H; let H2 := fresh in destruct H as [H H2]);
      repeat match goal with
             | H : name_eqb _ _ = true |- _ => apply name_eqb_eq in H
             | H : N.eqb _ _ = true |- _ => apply N.eqb_eq in H
             | H : list_eqb N.eqb _ _ = true |- _ => apply (list_eqb_eq N N.eqb N.eqb_eq) in H
             end; subst; reflexivity.
  - intros <-. destruct a; simpl; rewrite ?name_eqb_refl, ?N.eqb_refl; try reflexivity.
    simpl. apply (list_eqb_eq N N.eqb N.eqb_eq). reflexivity.
Qed.
Lemma eprog_eqb_eq : forall a b, eprog_eqb a b = true <-> a = b.
Proof.
  intros [t c nm vm ms] [t' c' nm' vm' ms']. unfold eprog_eqb. cbn [ep_type ep_consts ep_name_map ep_value_map ep_methods].
  split.
  - intros H. apply andb_true_iff in H. destruct H as [H H5]. apply andb_true_iff in H. destruct H as [H H4].
    apply andb_true_iff in H. destruct H as [H H3]. apply andb_true_iff in H. destruct H as [H1 H2].
    apply name_eqb_eq in H1. apply (list_eqb_eq _ _ nz_eqb_eq) in H2. apply (list_eqb_eq _ _ zn_eqb_eq) in H3.
    apply (list_eqb_eq _ _ nz_eqb_eq) in H4. apply (list_eqb_eq _ _ emeth_eqb_eq) in H5. subst. reflexivity.
  - intros H. inversion H; subst. rewrite name_eqb_refl.
    rewrite (proj2 (list_eqb_eq _ _ nz_eqb_eq c' c') eq_refl), (proj2 (list_eqb_eq _ _ zn_eqb_eq nm' nm') eq_refl),
      (proj2 (list_eqb_eq _ _ nz_eqb_eq vm' vm') eq_refl), (proj2 (list_eqb_eq _ _ emeth_eqb_eq ms' ms') eq_refl). reflexivity.
Qed.
Lemma mprog_eqb_eq : forall a b, emprog_eqb a b = true <-> a = b.
Proof.
  intros [v s r] [v' s' r']. simpl. rewrite !andb_true_iff, name_eqb_eq, !N.eqb_eq.
  split. intros [[-> ->] ->]. reflexivity. intros H; inversion H; auto.
Qed.

(* ---- the statements ---------------------------------------------------------------------------------------------------- *)
Definition enum_index_bound_stmt : Prop := forall f n, In n (all_enums f) -> enum_index f n < enum_table_len f.
Definition enum_index_injective_stmt : Prop :=
  forall f a b, In a (all_enums f) -> In b (all_enums f) -> enum_index f a = enum_index f b -> a = b.
Definition message_index_bound_stmt : Prop :=
  forall f n, In n (map dm_full (all_messages f)) -> message_index f n < msg_table_len f.
Definition message_index_injective_stmt : Prop :=
  forall f a b, In a (map dm_full (all_messages f)) -> In b (map dm_full (all_messages f)) ->
    message_index f a = message_index f b -> a = b.
(* canon_enum is defined exactly on the file's enums that the naming context describes *)
Definition canon_enum_total_stmt : Prop :=
  forall f n, In n (all_enums (ef_desc f)) -> find_info (ef_infos f) n <> None -> canon_enum f n <> None.
(* the slot Descriptor() and Type() read is the goTypes slot of the enum itself, inside the enum table *)
Definition enum_descriptor_own_stmt : Prop :=
  forall f n p, NoDup (edeclared (ef_desc f)) -> canon_enum f n = Some p ->
    exists k, desc_index (ep_methods p) = Some k /\ type_index (ep_methods p) = Some k /\ k = enum_index (ef_desc f) n /\
              k < enum_table_len (ef_desc f) /\ nthN_opt (goTypes (gen_tables (ef_desc f))) k = Some n.
(* the message slot is the goTypes slot of the message, after the enums *)
Definition message_slot_own_stmt : Prop :=
  forall f n v s r, NoDup (edeclared (ef_desc f)) -> canon_msg f n = Some (MPIdx v s r) ->
    s = r /\ s < msg_table_len (ef_desc f) /\
    nthN_opt (goTypes (gen_tables (ef_desc f))) (enum_table_len (ef_desc f) + s) = Some n.
(* the index path of EnumDescriptor() leads to the enum in the declaration tree *)
Definition enum_raw_path_stmt : Prop :=
  forall f n p, canon_enum f n = Some p -> exists path, raw_path (ep_methods p) = Some path /\ resolve_path (ef_desc f) path = Some n.
(* E_name has exactly the (number -> first declared name) pairs, each number once; String() of the canonical program renders
   number x as the enum's own descriptor does *)
Definition enum_name_map_stmt : Prop :=
  forall f n p inf, canon_enum f n = Some p -> find_info (ef_infos f) n = Some inf ->
    (forall x, map_lookup (ep_name_map p) x = by_number (ei_values inf) x) /\ NoDup (map fst (ep_name_map p)) /\
    ep_consts p = map (fun v => (ev_go v, ev_num v)) (ei_values inf) /\
    ep_value_map p = map (fun v => (ev_name v, ev_num v)) (ei_values inf).
Definition enum_string_own_stmt : Prop :=
  forall f n p inf x, NoDup (edeclared (ef_desc f)) -> canon_enum f n = Some p -> find_info (ef_infos f) n = Some inf ->
    run_string f p x = Some (by_number (ei_values inf) x) /\ run_string f p x = Some (map_lookup (ep_name_map p) x).
Definition enum_law_holds_stmt : Prop := forall f n, NoDup (edeclared (ef_desc f)) -> enum_law f n = true.
Definition eprog_eqb_stmt : Prop := (forall a b, eprog_eqb a b = true <-> a = b) /\ (forall a b, emprog_eqb a b = true <-> a = b).

Lemma enum_index_bound : enum_index_bound_stmt.
Proof. intros f n H. apply pos_lt. exact H. Qed.
Lemma enum_index_injective : enum_index_injective_stmt.
Proof. intros f a b Ha Hb E. eapply pos_inj; eauto. Qed.
Lemma message_index_bound : message_index_bound_stmt.
Proof. intros f n H. unfold message_index, msg_table_len. rewrite <- (len_map _ _ dm_full). apply pos_lt. exact H. Qed.
Lemma message_index_injective : message_index_injective_stmt.
Proof. intros f a b Ha Hb E. eapply pos_inj; eauto. Qed.

Lemma canon_enum_inv : forall f n p, canon_enum f n = Some p ->
  In n (all_enums (ef_desc f)) /\ exists inf path, find_info (ef_infos f) n = Some inf /\ find_path (ef_desc f) n = Some path /\
  p = mkEProg (ei_go inf) (map (fun v => (ev_go v, ev_num v)) (ei_values inf)) (first_names [] (ei_values inf))
        (map (fun v => (ev_name v, ev_num v)) (ei_values inf))
        [EMEnum (ei_go inf); EMString (ei_go inf); EMDescriptor (ei_go inf) (ef_var f) (enum_index (ef_desc f) n);
         EMType (ei_go inf) (ef_var f) (enum_index (ef_desc f) n); EMNumber (ei_go inf); EMRawDesc (ei_go inf) (ef_var f) path].
Proof.
  intros f n p H. unfold canon_enum in H. destruct (mem n (all_enums (ef_desc f))) eqn:M; [|discriminate].
  apply mem_In in M. split. exact M.
  destruct (find_info (ef_infos f) n) as [inf|]; [|discriminate]. destruct (find_path (ef_desc f) n) as [path|]; [|discriminate].
  exists inf, path. inversion H. auto.
Qed.

Lemma canon_enum_total : canon_enum_total_stmt.
Proof.
  intros f n H I. unfold canon_enum. apply mem_In in H. rewrite H. destruct (find_info (ef_infos f) n); [|congruence].
  apply mem_In in H. destruct (find_path_total _ _ H) as [path E]. rewrite E. discriminate.
Qed.

Lemma goTypes_enum_slot : forall f n, NoDup (edeclared f) -> In n (all_enums f) ->
  nthN_opt (goTypes (gen_tables f)) (enum_index f n) = Some n.
Proof.
  intros f n ND H. destruct (go_types_layout f ND) as [[deps E] _]. rewrite E. unfold nthN_opt, enum_index.
  rewrite nth_error_app1. apply pos_nth. exact H.
  apply pos_lt in H. unfold len in H. lia.
Qed.
Lemma goTypes_msg_slot : forall f n, NoDup (edeclared f) -> In n (map dm_full (all_messages f)) ->
  nthN_opt (goTypes (gen_tables f)) (enum_table_len f + message_index f n) = Some n.
Proof.
  intros f n ND H. destruct (go_types_layout f ND) as [[deps E] _]. rewrite E. unfold nthN_opt, message_index, enum_table_len, len.
  rewrite nth_error_app2 by lia.
  replace (N.to_nat (N.of_nat (length (all_enums f)) + pos (map dm_full (all_messages f)) n) - length (all_enums f))%nat
    with (N.to_nat (pos (map dm_full (all_messages f)) n)) by lia.
  rewrite nth_error_app1. apply pos_nth. exact H.
  apply pos_lt in H. unfold len in H. lia.
Qed.

Lemma enum_descriptor_own : enum_descriptor_own_stmt.
Proof.
  intros f n p ND H. destruct (canon_enum_inv _ _ _ H) as [I [inf [path [_ [_ ->]]]]].
  exists (enum_index (ef_desc f) n). repeat split; try reflexivity.
  - apply pos_lt. exact I.
  - apply goTypes_enum_slot; assumption.
Qed.
Lemma message_slot_own : message_slot_own_stmt.
Proof.
  intros f n v s r ND H. unfold canon_msg in H. destruct (mem n _) eqn:M; [|discriminate]. apply mem_In in M.
  inversion H; subst. split; [reflexivity|split].
  - apply message_index_bound. exact M.
  - apply goTypes_msg_slot; assumption.
Qed.
Lemma enum_raw_path : enum_raw_path_stmt.
Proof.
  intros f n p H. destruct (canon_enum_inv _ _ _ H) as [I [inf [path [_ [P ->]]]]]. exists path. split. reflexivity.
  apply file_epaths_resolve. apply find_path_in. exact P.
Qed.
Lemma enum_name_map : enum_name_map_stmt.
Proof.
  intros f n p inf H F. destruct (canon_enum_inv _ _ _ H) as [I [inf' [path [F' [_ ->]]]]]. rewrite F in F'. inversion F'; subst inf'.
  cbn [ep_name_map ep_consts ep_value_map]. repeat split.
  - intros x. apply name_map_by_number.
  - apply first_names_nodup.
Qed.
Lemma enum_string_own : enum_string_own_stmt.
Proof.
  intros f n p inf x ND H F. destruct (enum_descriptor_own f n p ND H) as [k [D [_ [_ [_ G]]]]].
  destruct (enum_name_map f n p inf H F) as [L _].
  unfold run_string. rewrite D, G, F. split. reflexivity. rewrite L. reflexivity.
Qed.
Lemma enum_law_holds : enum_law_holds_stmt.
Proof.
  intros f n ND. unfold enum_law. destruct (canon_enum f n) as [p|] eqn:H; [|reflexivity].
  destruct (enum_descriptor_own f n p ND H) as [k [D [T [_ [B G]]]]]. destruct (enum_raw_path f n p H) as [path [R P]].
  rewrite D, T, R, G, P. rewrite N.eqb_refl, name_eqb_refl. apply N.ltb_lt in B. rewrite B. reflexivity.
Qed.
Lemma eprog_eqb_correct : eprog_eqb_stmt.
Proof. split. exact eprog_eqb_eq. exact mprog_eqb_eq. Qed.
