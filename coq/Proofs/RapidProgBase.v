(* Proofs/RapidProgBase.v (first of three files: RapidProgBase, RapidProgField, RapidProgProofs) — the canonical program of Model/RapidProg.v (rapidproto.go transcribed) interpreted IS the
   hand-written generator model RapidGen.gen (task T16).

   Method: symbolic execution of the interpreter by [cbn] restricted to the interpreter's own functions ([rp]); the model's
   functions are never unfolded by it. One lemma per Go function (genScalarFieldValue, setSecondsNanosFields through
   genTimestamp / genDuration, genFieldMask, genAny, setFieldValue with one lemma per loop, setFields, MessageGenerator), each
   stating: the run of that function on a store holding the message value [cur] = the model's function on [cur] — same
   returned values, same value afterwards, same tape, same Err / Panic / OutOfFuel. The recursion (setFields -> setFieldValue
   -> setFields, setFields -> genAny -> setFields, setFieldValue -> genAny -> setFields) is closed by induction on the model's
   fuel; the lemmas below it are parametric in the child generator ([child_sim]). The invariant [shaped] (slots aligned with
   the descriptor, no unknown bytes, recursively) is what the well-known-type leaves need from an existing value (the code
   sets fields one by one where the model writes the whole value); it holds of [fresh] and is kept by every step. *)
From Coq Require Import Lia ZifyN ZifyNat ZifyBool.
From CP Require Import RapidGen RapidGenProofs RapidProg GoFun.
From CP Require RoundTrip.
Local Open Scope gname_scope.

(* ---------------------------------------------------------------- symbolic execution *)
Ltac rpcbn := cbn [
  rp_run rp_find rp_bind rp_all_params rp_block rp_exec rp_eval rp_evals rbind rp_get rp_set rp_define rp_assign rp_blank
  rp_fn rp_meth rp_bin rp_eq rp_sel rp_call rp_borrow rp_root0 rp_sub sget sset vget vset h_root h_path h_kind
  rp_cases rp_case_match rp_for rp_range rp_items rp_zero rp_find_const rp_const_eval rp_draw rp_gen1
  rp_msg_mutable rp_msg_set rp_msg_clear rp_list_of rp_map_of
  str_eq gf_bytes_eqb gname_bytes gname_of_bytes Byte.eqb Byte.to_bits Bool.eqb andb orb negb
  canon_rapidproto canon_MessageGenerator canon_FieldMapper canon_GeneratorOptions canon_depthLimit canon_WithAnyTypes
  canon_WithDisallowNil canon_WithInterfaceHint canon_setFields canon_timestampFullName canon_durationFullName canon_anyFullName
  canon_fieldMaskFullName canon_setFieldValue canon_genScalarFieldValue canon_MaxDurationSeconds canon_secondsName canon_nanosName
  canon_genTimestamp canon_genDuration canon_setSecondsNanosFields canon_typeURLName canon_valueName canon_genAny canon_pathsName
  canon_genFieldMask rf_name rf_tparams rf_recv rf_params rf_results rf_body
  wkt_of_name wkt_field wkt_eqb rp_lit rp_path_regexp rp_url_format rkind_eqb kind_eqb
  nth_error length app firstn Nat.eqb map fst snd set_nth slots_of unk_of].
(* [cbn] refolds a constant whose unfolding is stuck at its head: those are unfolded by hand *)
Ltac rp := repeat (progress (rpcbn; unfold rp_eval1, rp_mapper)).

(* the same, one statement at a time: blocks, switch clauses and loops are entered by rewriting with the lemmas below *)
Ltac rpcbnL := cbn [
  rp_run rp_find rp_bind rp_all_params rp_exec rp_eval rp_evals rbind rp_get rp_set rp_define rp_assign rp_blank
  rp_fn rp_meth rp_bin rp_eq rp_sel rp_call rp_borrow rp_root0 rp_sub sget sset vget vset h_root h_path h_kind
  rp_case_match rp_items rp_zero rp_find_const rp_const_eval rp_draw rp_gen1
  rp_msg_mutable rp_msg_set rp_msg_clear rp_list_of rp_map_of
  str_eq gf_bytes_eqb gname_bytes gname_of_bytes Byte.eqb Byte.to_bits Bool.eqb andb orb negb
  canon_rapidproto canon_MessageGenerator canon_FieldMapper canon_GeneratorOptions canon_depthLimit canon_WithAnyTypes
  canon_WithDisallowNil canon_WithInterfaceHint canon_setFields canon_timestampFullName canon_durationFullName canon_anyFullName
  canon_fieldMaskFullName canon_setFieldValue canon_genScalarFieldValue canon_MaxDurationSeconds canon_secondsName canon_nanosName
  canon_genTimestamp canon_genDuration canon_setSecondsNanosFields canon_typeURLName canon_valueName canon_genAny canon_pathsName
  canon_genFieldMask rf_name rf_tparams rf_recv rf_params rf_results rf_body
  wkt_of_name wkt_field wkt_eqb rp_lit rp_path_regexp rp_url_format rkind_eqb kind_eqb
  nth_error length app firstn Nat.eqb map fst snd set_nth slots_of unk_of].
Ltac rpL := repeat (progress (rpcbnL; unfold rp_eval1, rp_mapper)).

Lemma blk_cons o sch ann prog call s t en st tp :
  rp_block (rp_exec o sch ann prog call) (s :: t) en st tp =
    match rp_exec o sch ann prog call s en st tp with
    | ROk (SgNext en1) st1 tp1 => rp_block (rp_exec o sch ann prog call) t en1 st1 tp1
    | r => r
    end.
Proof. reflexivity. Qed.
Lemma blk_nil o sch ann prog call en st tp : rp_block (rp_exec o sch ann prog call) [] en st tp = ROk (SgNext en) st tp.
Proof. reflexivity. Qed.
Lemma cases_cons o sch ann prog call blk tag dflt es body t en st tp :
  rp_cases o sch ann prog call blk tag dflt ((es, body) :: t) en st tp =
    rbind (rp_case_match o sch ann prog call tag es en st tp)
          (fun hit st1 tp1 => if hit then blk body en st1 tp1 else rp_cases o sch ann prog call blk tag dflt t en st1 tp1).
Proof. reflexivity. Qed.
Lemma cases_nil o sch ann prog call blk tag dflt en st tp : rp_cases o sch ann prog call blk tag dflt [] en st tp = blk dflt en st tp.
Proof. reflexivity. Qed.
(* one statement of the block at the head of the goal *)
Ltac st := rewrite blk_cons; rpL.

(* closed integer comparisons *)
Ltac is_pos p := lazymatch p with xH => idtac | xO ?q => is_pos q | xI ?q => is_pos q end.
Ltac is_zc z := lazymatch z with Z0 => idtac | Zpos ?p => is_pos p | Zneg ?p => is_pos p end.
Ltac zc := repeat match goal with
  | |- context [Z.ltb ?a ?b] => is_zc a; is_zc b; let v := eval vm_compute in (Z.ltb a b) in change (Z.ltb a b) with v
  | |- context [Z.leb ?a ?b] => is_zc a; is_zc b; let v := eval vm_compute in (Z.leb a b) in change (Z.leb a b) with v
  | |- context [Z.eqb ?a ?b] => is_zc a; is_zc b; let v := eval vm_compute in (Z.eqb a b) in change (Z.eqb a b) with v
  end.

(* ---------------------------------------------------------------- lists, maps, draws *)
Lemma nth_error_set_nth_same {A} (l : list A) : forall i x, (i < length l)%nat -> nth_error (set_nth l i x) i = Some x.
Proof. induction l as [|a l IH]; intros [|i] x H; cbn in *; try lia; [reflexivity|apply IH; lia]. Qed.
Lemma set_nth_app_len {A} (l : list A) a b : set_nth (l ++ [a]) (length l) b = l ++ [b].
Proof. induction l as [|x l IH]; cbn; [reflexivity|rewrite IH; reflexivity]. Qed.
Lemma nth_error_app_len {A} (l : list A) a : nth_error (l ++ [a]) (length l) = Some a.
Proof. induction l as [|x l IH]; cbn; [reflexivity|exact IH]. Qed.
Lemma firstn_app_len {A} (l : list A) a : firstn (length l) (l ++ [a]) = l.
Proof. induction l as [|x l IH]; cbn; [reflexivity|rewrite IH; reflexivity]. Qed.
Lemma nth_nth_error {A} (l : list A) i d x : nth_error l i = Some x -> nth i l d = x.
Proof. revert i. induction l as [|a l IH]; intros [|i] H; cbn in *; try discriminate; [congruence|apply IH; exact H]. Qed.
Lemma nth_error_lt {A} (l : list A) i x : nth_error l i = Some x -> (i < length l)%nat.
Proof. intros H. apply nth_error_Some. congruence. Qed.
Lemma skipn_nth_error {A} (l : list A) : forall i x, nth_error l i = Some x -> skipn i l = x :: skipn (S i) l.
Proof. induction l as [|a l IH]; intros [|i] x H; cbn in *; try discriminate; [congruence|apply IH; exact H]. Qed.
Lemma skipn_all' {A} (l : list A) : skipn (length l) l = [].
Proof. induction l; cbn; auto. Qed.

Section KeyRefl.
  Variable k : val.
  Hypothesis Hk : val_key_eqb k k = true.
  Lemma map_get_set kvs v : map_get (map_set kvs k v) k = Some v.
  Proof.
    induction kvs as [|[k' v'] t IH]; cbn [map_set map_get]; [rewrite Hk; reflexivity|].
    destruct (val_key_eqb k' k) eqn:E; cbn [map_get]; [rewrite Hk; reflexivity|rewrite E; exact IH].
  Qed.
  Lemma map_set_set kvs a b : map_set (map_set kvs k a) k b = map_set kvs k b.
  Proof.
    induction kvs as [|[k' v'] t IH]; cbn [map_set]; [rewrite Hk; reflexivity|].
    destruct (val_key_eqb k' k) eqn:E; cbn [map_set]; [rewrite Hk; reflexivity|rewrite E, IH; reflexivity].
  Qed.
  Lemma map_remove_set kvs a : map_remove (map_set kvs k a) k = map_remove kvs k.
  Proof.
    induction kvs as [|[k' v'] t IH]; cbn [map_set map_remove]; [rewrite Hk; reflexivity|].
    destruct (val_key_eqb k' k) eqn:E; cbn [map_remove]; [rewrite Hk; reflexivity|rewrite E, IH; reflexivity].
  Qed.
End KeyRefl.

Lemma map_get_In kvs : forall k x, map_get kvs k = Some x -> In x (map snd kvs).
Proof.
  induction kvs as [|[k' v'] t IH]; intros k x; cbn [map_get]; [discriminate|].
  destruct (val_key_eqb k' k); intros H; [injection H as <-; left; reflexivity|right; eapply IH; exact H].
Qed.

Lemma draw_z_enum_range (len : nat) tp : (0 < len)%nat ->
  (0 <= fst (draw_z 0 (Z.of_nat len - 1) tp) < Z.of_nat len)%Z.
Proof.
  intros H. unfold draw_z. destruct (draw tp) as [x t]. cbn [fst].
  replace (Z.of_nat len - 1 - 0 + 1)%Z with (Z.of_nat len) by lia.
  pose proof (Z.mod_pos_bound (Z.of_N x) (Z.of_nat len)). lia.
Qed.
(* rapid.IntRange on ints vs the model's draw on N *)
Lemma draw_z_n (lo hi : N) tp : (lo <= hi)%N ->
  draw_z (Z.of_N lo) (Z.of_N hi) tp = let (n, t) := draw_n lo hi tp in (Z.of_N n, t).
Proof.
  intros H. unfold draw_z, draw_n. destruct (draw tp) as [x t]. f_equal.
  rewrite N2Z.inj_add, N2Z.inj_mod, N2Z.inj_add, N2Z.inj_sub by exact H. reflexivity.
Qed.

(* ---------------------------------------------------------------- the invariant *)
Section Shaped.
  Variable sch : schema.

  Definition sh_slot (rec : nat -> val -> bool) (f : field) (s : val) : bool :=
    match f_ty f with
    | TScalar _ => true
    | TMsg tm =>
      match f_shape f, s with
      | Singular, VMsg _ _ => rec tm s
      | Rep _, VList l => forallb (rec tm) l
      | Member _, VSome p => match p with VMsg _ _ => rec tm p | _ => true end
      | MapOf _, VMap kvs => forallb (fun kv => rec tm (snd kv)) kvs
      | _, _ => true
      end
    end.

  Fixpoint zip_all (g : field -> val -> bool) (fs : list field) (ss : list val) {struct ss} : bool :=
    match ss, fs with
    | s :: ss', f :: fs' => g f s && zip_all g fs' ss'
    | [], [] => true
    | _, _ => false
    end.

  Fixpoint shaped (mid : nat) (v : val) {struct v} : bool :=
    match v with
    | VMsg slots unk =>
      is_nilb unk &&
      match get_msg sch mid with
      | None => false
      | Some md =>
        (fix go (fs : list field) (ss : list val) {struct ss} : bool :=
           match ss, fs with
           | s :: ss', f :: fs' => sh_slot shaped f s && go fs' ss'
           | [], [] => true
           | _, _ => false
           end) (m_fields md) slots
      end
    | _ => false
    end.

  Lemma shaped_unfold mid slots unk :
    shaped mid (VMsg slots unk) =
      is_nilb unk && match get_msg sch mid with None => false | Some md => zip_all (sh_slot shaped) (m_fields md) slots end.
  Proof.
    simpl. destruct (get_msg sch mid) as [md|]; [|reflexivity]. f_equal.
    generalize (m_fields md). induction slots as [|s ss IH]; intros [|f fs]; simpl; try reflexivity. rewrite IH. reflexivity.
  Qed.

  Lemma zip_all_length g fs : forall ss, zip_all g fs ss = true -> length ss = length fs.
  Proof.
    induction fs as [|f fs IH]; intros [|s ss] H; cbn in *; try discriminate; [reflexivity|].
    apply andb_prop in H. destruct H as [_ H]. rewrite (IH _ H). reflexivity.
  Qed.
  Lemma zip_all_nth g fs : forall ss i f s, zip_all g fs ss = true -> nth_error fs i = Some f -> nth_error ss i = Some s -> g f s = true.
  Proof.
    induction fs as [|f0 fs IH]; intros [|s0 ss] i f s H Hf Hs; cbn [zip_all] in H; try discriminate; try (destruct i; discriminate).
    apply andb_prop in H. destruct H as [H1 H2]. destruct i as [|i]; cbn [nth_error] in *; [congruence|eapply IH; eauto].
  Qed.
  Lemma zip_all_set g fs : forall ss i f x, zip_all g fs ss = true -> nth_error fs i = Some f -> g f x = true ->
    zip_all g fs (set_nth ss i x) = true.
  Proof.
    induction fs as [|f0 fs IH]; intros [|s0 ss] i f x H Hf Hx; cbn [zip_all] in H; try discriminate; try (destruct i; discriminate).
    apply andb_prop in H. destruct H as [H1 H2]. destruct i as [|i]; cbn [nth_error set_nth zip_all] in *.
    - injection Hf as <-. rewrite Hx, H2. reflexivity.
    - rewrite H1. cbn [andb]. eapply IH; eauto.
  Qed.
  Lemma sh_slot_nil rec f : sh_slot rec f VNil = true.
  Proof. unfold sh_slot. destruct (f_ty f); [reflexivity|]. destruct (f_shape f); reflexivity. Qed.
  Lemma zip_all_clear g fs : (forall f, g f VNil = true) -> forall ss oi, zip_all g fs ss = true -> zip_all g fs (clear_oneof fs ss oi) = true.
  Proof.
    intros Hn. induction fs as [|f fs IH]; intros [|s ss] oi H; cbn [zip_all clear_oneof] in *; try discriminate; [reflexivity|].
    apply andb_prop in H. destruct H as [H1 H2]. rewrite (IH _ _ H2), Bool.andb_true_r.
    destruct (f_shape f); try exact H1. destruct (Nat.eqb oneof oi); [apply Hn|exact H1].
  Qed.
  Lemma zip_all_defaults g fs : (forall f, g f (default_slot f) = true) -> zip_all g fs (map default_slot fs) = true.
  Proof. intros H. induction fs as [|f fs IH]; cbn; [reflexivity|rewrite H, IH; reflexivity]. Qed.

  Lemma sh_slot_default rec f : sh_slot rec f (default_slot f) = true.
  Proof.
    unfold sh_slot, default_slot. destruct (f_ty f) as [k|tm]; [reflexivity|]. destruct (f_shape f); reflexivity.
  Qed.

  Lemma shaped_fresh tm md : get_msg sch tm = Some md -> shaped tm (fresh sch tm) = true.
  Proof.
    intros H. unfold fresh. rewrite H. unfold empty_msg. rewrite shaped_unfold, H. cbn [is_nilb andb].
    apply zip_all_defaults. intros f. apply sh_slot_default.
  Qed.
  Lemma shaped_or_fresh tm md s : get_msg sch tm = Some md -> (forall a b, s = VMsg a b -> shaped tm s = true) ->
    shaped tm (or_fresh sch tm s) = true.
  Proof. intros H Hs. unfold or_fresh. destruct s; try (eapply shaped_fresh; exact H). apply (Hs _ _ eq_refl). Qed.

  (* what the invariant says of a message *)
  Lemma shaped_inv mid slots unk : shaped mid (VMsg slots unk) = true ->
    unk = [] /\ exists md, get_msg sch mid = Some md /\ zip_all (sh_slot shaped) (m_fields md) slots = true
                         /\ length slots = length (m_fields md).
  Proof.
    rewrite shaped_unfold. intros H. apply andb_prop in H. destruct H as [H1 H2]. split; [destruct unk; [reflexivity|discriminate]|].
    destruct (get_msg sch mid) as [md|]; [|discriminate]. exists md. split; [reflexivity|]. split; [exact H2|].
    apply zip_all_length in H2. exact H2.
  Qed.
  Lemma shaped_msg mid v : shaped mid v = true -> exists slots, v = VMsg slots [].
  Proof. destruct v; try discriminate. intros H. destruct (shaped_inv _ _ _ H) as [-> _]. eexists. reflexivity. Qed.
  Lemma shaped_intro mid md slots : get_msg sch mid = Some md -> zip_all (sh_slot shaped) (m_fields md) slots = true ->
    shaped mid (VMsg slots []) = true.
  Proof. intros H Hz. rewrite shaped_unfold, H. exact Hz. Qed.
End Shaped.

(* ---------------------------------------------------------------- environments *)
Lemma str_eq_refl x : str_eq x x = true.
Proof.
  unfold str_eq. induction (gname_bytes x) as [|b l IH]; cbn [gf_bytes_eqb]; [reflexivity|].
  rewrite IH, Bool.andb_true_r. destruct b; reflexivity.
Qed.
Lemma rp_get_set_eq x v en : rp_get x (rp_set x v en) = Some v.
Proof.
  induction en as [|[y w] t IH]; cbn [rp_set rp_get]; [rewrite str_eq_refl; reflexivity|].
  destruct (str_eq x y) eqn:E; cbn [rp_get]; rewrite E; [reflexivity|exact IH].
Qed.
Lemma rp_get_set_neq x y v en : str_eq x y = false -> str_eq y x = false -> rp_get x (rp_set y v en) = rp_get x en.
Proof.
  intros E E'. induction en as [|[z w] t IH]; cbn [rp_set rp_get]; [rewrite E; reflexivity|].
  destruct (str_eq y z) eqn:Ez; cbn [rp_get].
  - destruct (str_eq x z) eqn:Ex; [|reflexivity].
    exfalso. unfold str_eq in *. revert E Ez Ex. generalize (gname_bytes x) (gname_bytes y) (gname_bytes z).
    intros a. induction a as [|c a IHa]; intros [|d b] [|e g]; cbn [gf_bytes_eqb]; try discriminate.
    intros H1 H2 H3. apply andb_prop in H2. apply andb_prop in H3. destruct H2 as [H2 H2'], H3 as [H3 H3'].
    apply Byte.byte_dec_bl in H2, H3. subst. rewrite (Byte.byte_dec_lb eq_refl) in H1. cbn [andb] in H1. eapply IHa; eauto.
  - rewrite IH. reflexivity.
Qed.

(* ================================================================ the simulation *)
Section Sim.
  Variable o : gopts.
  Variable sch : schema.
  Variable ann : annots.
  Hypothesis Hwf : wf sch = true.
  Hypothesis Hann : ann_ok sch ann = true.
  Hypothesis Henum : rp_enums_ok sch ann.
  Hypothesis Hkeys : rp_keys_ok o.
  Notation R := (rp_run o sch ann canon_rapidproto).
  Notation EX := (rp_exec o sch ann canon_rapidproto).
  Notation shp := (shaped sch).

  Lemma ann_len : forall (s : schema) (a : annots), ann_ok_aux s a = true -> length s = length a.
  Proof.
    induction s as [|md s IH]; intros [|ma a] H; cbn [ann_ok_aux] in H; try discriminate; [reflexivity|].
    apply andb_prop in H. destruct H as [_ H]. cbn [length]. rewrite (IH _ H). reflexivity.
  Qed.
  Lemma get_ann mid md : get_msg sch mid = Some md ->
    exists ma, nth_error ann mid = Some ma /\ wkt_layout (a_wkt ma) (m_fields md) = true /\ length (m_fields md) = length (a_fields ma).
  Proof.
    intros H. assert (Hl : (mid < length ann)%nat).
    { rewrite <- (ann_len _ _ Hann). apply nth_error_Some. unfold get_msg in H. congruence. }
    destruct (nth_error ann mid) as [ma|] eqn:E; [|apply nth_error_None in E; lia].
    exists ma. split; [reflexivity|]. eapply ann_ok_nth; eauto.
  Qed.
  Lemma ann_get mid ma : nth_error ann mid = Some ma -> exists md, get_msg sch mid = Some md.
  Proof.
    intros H. assert (Hl : (mid < length sch)%nat).
    { rewrite (ann_len _ _ Hann). apply nth_error_Some. congruence. }
    unfold get_msg. destruct (nth_error sch mid) as [md|] eqn:E; [eexists; reflexivity|apply nth_error_None in E; lia].
  Qed.
  Lemma field_annot mid md ma i f : get_msg sch mid = Some md -> nth_error ann mid = Some ma -> nth_error (m_fields md) i = Some f ->
    exists fa, nth_error (a_fields ma) i = Some fa.
  Proof.
    intros Hm Ha Hf. destruct (get_ann _ _ Hm) as (ma' & Ha' & _ & Hl). rewrite Ha in Ha'. injection Ha' as <-.
    pose proof (nth_error_lt _ _ _ Hf) as Hi. destruct (nth_error (a_fields ma) i) as [fa|] eqn:E; [eexists; reflexivity|].
    apply nth_error_None in E. lia.
  Qed.
  Lemma field_wf_of mid md i f : get_msg sch mid = Some md -> nth_error (m_fields md) i = Some f ->
    field_wf (length sch) (m_oneofs md) f = true.
  Proof.
    intros Hm Hf. pose proof (RoundTrip.wf_get_msg sch mid md Hwf Hm) as Hmd.
    destruct (RoundTrip.msg_wf_field sch md i f Hmd Hf) as [H _]. exact H.
  Qed.
  Lemma field_tm_valid mid md i f tm : get_msg sch mid = Some md -> nth_error (m_fields md) i = Some f -> f_ty f = TMsg tm ->
    exists md', get_msg sch tm = Some md'.
  Proof.
    intros Hm Hf Ht. pose proof (field_wf_of _ _ _ _ Hm Hf) as H. unfold field_wf in H. rewrite Ht in H.
    apply andb_prop in H. destruct H as [H _]. apply andb_prop in H. destruct H as [_ H]. apply Nat.ltb_lt in H.
    unfold get_msg. destruct (nth_error sch tm) as [md'|] eqn:E; [eexists; reflexivity|apply nth_error_None in E; lia].
  Qed.

  (* ---- genScalarFieldValue ---------------------------------------------------------------------------------------- *)
  Lemma run_scalar F fd k decl lbl tp :
    (1 <= F)%nat ->
    rp_fd_scalar sch ann fd = Some (k, decl) -> rp_fd_kind sch fd = Some (RkScalar k) -> (k = KEnum -> decl <> []) ->
    R F "genScalarFieldValue" [RvOpts; RvT; RvFd fd; lbl] [] tp =
      let (v, t) := gen_scalar code_variant o k decl tp in ROk [RvPV v] [] t.
  Proof.
    intros HF Hs Hk He. destruct F as [|F]; [lia|]. unfold gen_scalar.
    assert (Hdef : forall tp0,
      match
        rp_block (EX (R F))
          (match rf_body (match canon_genScalarFieldValue with RdFunc f => f | _ => Build_rfun "" [] None [] [] [] end) with
           | _ :: rest => rest | [] => [] end)
          [("opts", RvOpts); ("t", RvT); ("field", RvFd fd); ("name", lbl)] [] tp0
      with
      | ROk (SgRet vs) st1 tp1 => if Nat.eqb (length vs) 1 then ROk vs (firstn 1 st1) tp1 else RStuck
      | ROk (SgNext _) st1 tp1 => RStuck
      | ROk (SgCont _) _ _ => RStuck
      | RErr => RErr | RPanic => RPanic | RFuel => RFuel | RStuck => RStuck
      end = let (v, t) := gen_scalar_default code_variant k decl tp0 in ROk [RvPV v] [] t).
    { intros tp0. rp. rewrite Hk. unfold rp_fd_enum. rewrite Hs.
      destruct k; rp; unfold gen_scalar_default; zc;
        try (match goal with |- context [draw_z ?a ?b ?t] => destruct (draw_z a b t) as [z t1] end; reflexivity);
        try (match goal with |- context [draw_bool ?t] => destruct (draw_bool t) as [z t1] end; reflexivity);
        try (match goal with |- context [draw_bytes ?t] => destruct (draw_bytes t) as [z t1] end; reflexivity);
        try (match goal with |- context [draw_string ?t] => destruct (draw_string t) as [z t1] end; reflexivity);
        try (match goal with |- context [draw ?t] => destruct (draw t) as [z t1] end; reflexivity).
      (* enum *)
      assert (Hlen : (0 < length decl)%nat) by (specialize (He eq_refl); destruct decl; [congruence|cbn; lia]).
      destruct (Z.ltb_spec (Z.of_nat (length decl) - 1) 0) as [Hc|_]; [lia|].
      pose proof (draw_z_enum_range (length decl) tp0 Hlen) as Hr.
      destruct (draw_z 0 (Z.of_nat (length decl) - 1) tp0) as [z t1]. cbn [fst] in Hr. rp.
      destruct (Z.leb_spec 0 z) as [_|Hc]; [|lia]. destruct (Z.ltb_spec z (Z.of_nat (length decl))) as [_|Hc]; [|lia].
      rp. reflexivity. }
    rp. rewrite Hs. destruct (o_fmap o k decl) as [|p g|p g] eqn:Em.
    - rp. apply Hdef.
    - destruct (draw tp) as [x t]. rp. reflexivity.
    - destruct (draw_bool tp) as [b t]. destruct b.
      + destruct (draw t) as [x t']. rp. reflexivity.
      + rp. apply Hdef.
  Qed.

  (* ---- the well-known types ------------------------------------------------------------------------------------------- *)
  Lemma layout_of mid md ma : get_msg sch mid = Some md -> nth_error ann mid = Some ma ->
    match a_wkt ma with
    | WNone => True
    | WTimestamp | WDuration => m_fields md = [fld 1 (TScalar KInt64) Singular; fld 2 (TScalar KInt32) Singular]
    | WAny => m_fields md = [fld 1 (TScalar KString) Singular; fld 2 (TScalar KBytes) Singular]
    | WFieldMask => m_fields md = [fld 1 (TScalar KString) (Rep false)]
    end.
  Proof.
    intros Hm Ha. destruct (get_ann _ _ Hm) as (ma' & Ha' & Hl & _). rewrite Ha in Ha'. injection Ha' as <-.
    destruct (a_wkt ma); cbn [wkt_layout] in Hl; try exact I; apply fields_eqb_eq in Hl; exact Hl.
  Qed.

  Lemma run_ts F mid md ma a b tp :
    (2 <= F)%nat -> get_msg sch mid = Some md -> nth_error ann mid = Some ma -> a_wkt ma = WTimestamp ->
    R F "genTimestamp" [RvOpts; RvT; RvH (rp_root0 (HkMsg mid))] [VMsg [a; b] []] tp =
      let (s, t1) := draw_z (-9999999999) 9999999999 tp in
      let (n, t2) := draw_z 0 999999999 t1 in ROk [] [VMsg [VInt s; VInt n] []] t2.
  Proof.
    intros HF Hm Ha Hw. destruct F as [|[|F]]; try lia. pose proof (layout_of _ _ _ Hm Ha) as Hl. rewrite Hw in Hl.
    rp. zc. destruct (draw_z (-9999999999) 9999999999 tp) as [s t1]. rp. zc.
    destruct (draw_z 0 999999999 t1) as [n t2]. rp.
    rewrite Ha, Hw. rp. rewrite Hm, Hl. rp. cbn [fld f_shape]. rp. rewrite Ha, Hw. rp. rewrite Hm, Hl. rp. cbn [fld f_shape]. rp. reflexivity.
  Qed.

  Lemma run_dur F mid md ma a b tp :
    (2 <= F)%nat -> get_msg sch mid = Some md -> nth_error ann mid = Some ma -> a_wkt ma = WDuration ->
    R F "genDuration" [RvOpts; RvT; RvH (rp_root0 (HkMsg mid))] [VMsg [a; b] []] tp =
      let (s, t1) := draw_z 0 9223372035 tp in
      let (n, t2) := draw_z 0 999999999 t1 in ROk [] [VMsg [VInt s; VInt n] []] t2.
  Proof.
    intros HF Hm Ha Hw. destruct F as [|[|F]]; try lia. pose proof (layout_of _ _ _ Hm Ha) as Hl. rewrite Hw in Hl.
    rp. zc. rp. replace (Z.quot 9223372036854775807 1000000000 - 1)%Z with 9223372035%Z by (vm_compute; reflexivity). zc.
    destruct (draw_z 0 9223372035 tp) as [s t1]. rp. zc.
    destruct (draw_z 0 999999999 t1) as [n t2]. rp.
    rewrite Ha, Hw. rp. rewrite Hm, Hl. rp. cbn [fld f_shape]. rp. rewrite Ha, Hw. rp. rewrite Hm, Hl. rp. cbn [fld f_shape]. rp. reflexivity.
  Qed.

  (* for _, path := range paths { pathsList.Append(protoreflect.ValueOfString(path)) }, the body given by what it does *)
  Lemma range_paths (body : renv -> rstore -> tape -> rres rsig) en m :
    (forall p acc tp, exists en', body (rp_set "path" (RvStr p) en) [m; VList acc] tp = ROk (SgNext en') [m; VList (acc ++ [VBytes p])] tp) ->
    forall paths acc tp,
      rp_range body "path" (map RvStr paths) en [m; VList acc] tp = ROk (SgNext en) [m; VList (acc ++ map VBytes paths)] tp.
  Proof.
    intros Hb. induction paths as [|p paths IH]; intros acc tp; cbn [map rp_range].
    - rewrite app_nil_r. reflexivity.
    - rp. destruct (Hb p acc tp) as [en' ->]. rewrite IH. rewrite <- app_assoc. reflexivity.
  Qed.

  Lemma run_fm F mid md ma a tp :
    (1 <= F)%nat -> get_msg sch mid = Some md -> nth_error ann mid = Some ma -> a_wkt ma = WFieldMask ->
    R F "genFieldMask" [RvOpts; RvT; RvH (rp_root0 (HkMsg mid))] [VMsg [a] []] tp =
      let (n, t1) := draw_n 1 5 tp in
      let (paths, t2) := draw_many draw_path (N.to_nat n) t1 in ROk [] [VMsg [VList (map VBytes paths)] []] t2.
  Proof.
    intros HF Hm Ha Hw. destruct F as [|F]; [lia|]. pose proof (layout_of _ _ _ Hm Ha) as Hl. rewrite Hw in Hl.
    rp. zc. cbn [Z.to_N]. destruct (draw_n 1 5 tp) as [n t1]. destruct (draw_many draw_path (N.to_nat n) t1) as [paths t2]. rp.
    rewrite Ha, Hw. rp. unfold rp_field. rewrite Hm, Hl. rp. cbn [fld f_shape]. rp.
    rewrite range_paths; [|intros p acc tp0; rp; eexists; reflexivity]. rp. rewrite Hm, Hl. rp. cbn [fld f_shape]. rp. reflexivity.
  Qed.

  (* ---- the recursion: what a caller needs from setFields ------------------------------------------------------------------- *)
  (* the descriptor handed down as `field`: nil, or field i of message m *)
  Definition ic_of (fdv : rval) : option ictx :=
    match fdv with
    | RvNilV => Some INoField
    | RvFd (FdField m i) => match rp_fannot ann m i with Some fa => Some (IField (a_iface fa)) | None => None end
    | _ => None
    end.
  Definition lift_sf (cur : val) (r : outcome (option val * tape)) : rres (list rval) :=
    match r with
    | Ok (Some v, t) => ROk [RvBool true] [v] t
    | Ok (None, t) => ROk [RvBool false] [cur] t
    | Err => RErr | Panic => RPanic | OutOfFuel => RFuel
    end.
  Definition child_sim (B : nat) (child : child_t) (d0 : nat) : Prop :=
    forall F d fdv ic tm cur tp, (B <= F)%nat -> (d0 <= d)%nat -> ic_of fdv = Some ic -> shp tm cur = true ->
      R F "setFields" [RvOpts; RvT; fdv; RvH (rp_root0 (HkMsg tm)); RvInt (Z.of_nat d)] [cur] tp = lift_sf cur (child d ic tm cur tp)
      /\ (forall v t, child d ic tm cur tp = Ok (Some v, t) -> shp tm v = true).

  Lemma shaped_any tm md ma u bs : get_msg sch tm = Some md -> nth_error ann tm = Some ma -> a_wkt ma = WAny ->
    shp tm (VMsg [u; bs] []) = true.
  Proof.
    intros Hm Ha Hw. pose proof (layout_of _ _ _ Hm Ha) as Hl. rewrite Hw in Hl.
    eapply shaped_intro; [exact Hm|]. rewrite Hl. reflexivity.
  Qed.

  (* ---- genAny ------------------------------------------------------------------------------------------------------------------ *)
  (* from `typ, err := opts.Resolver.FindMessageByURL(typeURL)` on, typeURL = "/" + the name of message tm2 *)
  Ltac any_tail Hc HB Hm Ha Hw Hl F depth child tm2 t1 :=
    rp; let ma2 := fresh "ma2" in let E2 := fresh "E2" in
    destruct (nth_error ann tm2) as [ma2|] eqn:E2;
    [ repeat (progress (rp; rewrite ?Ha, ?Hw, ?E2, ?Hm, ?Hl; cbn [fld f_shape]));
      replace (Z.of_nat depth + 1)%Z with (Z.of_nat (S depth)) by lia;
      let md2 := fresh "md2" in let Hm2 := fresh "Hm2" in destruct (ann_get _ _ E2) as [md2 Hm2];
      let Hrun := fresh "Hrun" in let Hsh := fresh "Hsh" in
      destruct (Hc F (S depth) RvNilV INoField tm2 (fresh sch tm2) t1 HB (le_n _) eq_refl (shaped_fresh _ _ _ Hm2)) as [Hrun Hsh];
      rewrite Hrun;
      let v := fresh "v" in let t2 := fresh "t2" in
      destruct (child (S depth) INoField tm2 (fresh sch tm2) t1) as [[[v|] t2]| | |]; cbn [lift_sf]; rp;
      try (split; [reflexivity|discriminate]);
      match goal with |- context [pulsar_marshal sch false tm2 ?x] => destruct (pulsar_marshal sch false tm2 x) as [bs| | |] end;
      repeat (progress (rp; rewrite ?Ha, ?Hw, ?E2, ?Hm, ?Hl; cbn [fld f_shape]));
      try (split; [reflexivity|discriminate]);
      (split; [reflexivity|intros v0 t0 Hv; injection Hv as <- _; eapply shaped_any; eauto])
    | rp; split; [reflexivity|discriminate] ].

  Lemma run_genAny B child depth F fdv ic tm md ma cur tp :
    child_sim B child (S depth) -> (S B <= F)%nat -> ic_of fdv = Some ic ->
    get_msg sch tm = Some md -> nth_error ann tm = Some ma -> a_wkt ma = WAny -> shp tm cur = true ->
    R F "genAny" [RvOpts; RvT; fdv; RvH (rp_root0 (HkMsg tm)); RvInt (Z.of_nat depth)] [cur] tp
      = lift_sf cur (gen_any code_variant o sch ann child depth ic tp)
    /\ (forall v t, gen_any code_variant o sch ann child depth ic tp = Ok (Some v, t) -> shp tm v = true).
  Proof.
    intros Hc HF Hic Hm Ha Hw Hs. destruct F as [|F]; [lia|]. assert (HB : (B <= F)%nat) by lia.
    pose proof (layout_of _ _ _ Hm Ha) as Hl. rewrite Hw in Hl.
    destruct (shaped_msg _ _ _ Hs) as [slots ->]. destruct (shaped_inv _ _ _ _ Hs) as (_ & md' & Hm' & _ & Hlen).
    rewrite Hm in Hm'. injection Hm' as <-. rewrite Hl in Hlen. destruct slots as [|a [|b [|c slots]]]; try discriminate. clear Hlen.
    unfold gen_any.
    destruct (o_any o) as [|u us] eqn:Eany; cbn [is_nilb].
    { rp. rewrite Eany. rp. split; [reflexivity|discriminate]. }
    assert (Hlen0 : (Z.of_nat (S (length us)) =? 0)%Z = false) by (apply Z.eqb_neq; lia).
    cbn [code_variant repaired v_any_nil_field].
    destruct fdv as [| | | | | | | | | | | | | | | | | | | |fd| | | | | | | | | | | | | | | | ]; try discriminate.
    - (* field == nil *)
      injection Hic as <-. rp. rewrite Eany. rp. rewrite Hlen0. rp. rewrite Eany. rp.
      destruct (draw_n 0 (N.of_nat (S (length us)) - 1) tp) as [i t1] eqn:Edr.
      any_tail Hc HB Hm Ha Hw Hl F depth child (nth (N.to_nat i) (u :: us) 0%nat) t1.
    - destruct fd as [|m i|m i|m i]; try discriminate. cbn [ic_of] in Hic.
      destruct (rp_fannot ann m i) as [fa|] eqn:Efa; [|discriminate]. injection Hic as <-.
      rp. rewrite Eany. rp. rewrite Hlen0. rp. rewrite Efa. rp.
      destruct (a_iface fa) as [ai|].
      + rp. destruct (nth_error (o_hints o) ai) as [[tm2|]|].
        * rp. any_tail Hc HB Hm Ha Hw Hl F depth child tm2 tp.
        * rp. split; [reflexivity|discriminate].
        * rp. split; [reflexivity|discriminate].
      + rp. rewrite Eany. rp.
        destruct (draw_n 0 (N.of_nat (S (length us)) - 1) tp) as [j t1] eqn:Edr.
        any_tail Hc HB Hm Ha Hw Hl F depth child (nth (N.to_nat j) (u :: us) 0%nat) t1.
  Qed.

End Sim.
