(* Proofs/GenProg2Proofs.v — the canonical generator/generator.go (Model/GenProg2.v) computes what GenOrder.v says (task T21). *)
From CP Require Import Bytes GenNames GenOrder GoFun GenProg GenProg2.
From Coq Require Import Lia.
Local Open Scope nat_scope.
Local Open Scope gname_scope.

Definition g2p_key (path : name) (k : nat) : v2 := V2Struct "featureHelpers" ["path"; "feature"] [V2Str path; V2Int k].
Definition g2p_cell (s : g2seen) : list (v2 * v2) := map (fun e => (g2p_key (fst e) (snd e), V2Bool true)) s.

Lemma g2p_assoc : forall s path k,
  g2_assoc (g2p_key path k) (g2p_cell s) = if g2_seen_has s path k then Some (V2Bool true) else None.
Proof.
  induction s as [|[p j] s IH]; intros; [reflexivity|].
  simpl g2p_cell. simpl g2_assoc. unfold g2_seen_has. simpl existsb.
  change (v2_eqb (g2p_key path k) (g2p_key p j)) with (true && true && (name_eqb path p && (Nat.eqb k j && true))).
  rewrite Bool.andb_true_r. simpl.
  destruct (name_eqb path p && Nat.eqb k j); [reflexivity|]. apply IH.
Qed.

Lemma g2p_assoc_set : forall s path k,
  g2_seen_has s path k = false -> g2_assoc_set (g2p_key path k) (V2Bool true) (g2p_cell s) = g2p_cell (s ++ [(path, k)]).
Proof.
  induction s as [|[p j] s IH]; intros path k H; [reflexivity|].
  unfold g2_seen_has in H. simpl in H. simpl g2p_cell. simpl g2_assoc_set.
  change (v2_eqb (g2p_key path k) (g2p_key p j)) with (true && true && (name_eqb path p && (Nat.eqb k j && true))).
  rewrite Bool.andb_true_r. simpl.
  destruct (name_eqb path p && Nat.eqb k j); [discriminate|]. simpl in H.
  f_equal. apply IH. exact H.
Qed.

Section Gen.
  Variable files : list pfile.
  Variable ff : list name -> option (list name).
  Variable fg : name -> bool.

  Definition g2p_gen (x f l : v2) : v2 := V2Struct "Generator" ["seen"; "ext"; "features"; "local"] [V2Map 1; x; f; l].
  Definition g2p_env (b : bool) (p g : v2) (i : nat) : list (gname * v2) :=
    [("generated", V2Bool b); ("p", p); ("file", V2File i); ("gf", V2Opaque "gf"); ("plugin", V2Opaque "plugin"); ("gen", g)].
  Definition g2p_step : v2 * v2 -> g2state -> g2sres :=
    fun it s0 => match g2_scoped_with (g2_exec files ff fg) canon_GenerateFile_loop (g2_bind "feat" (snd it) (g2_bind "fidx" (fst it) s0)) with
                 | Some (r, s1) => Some (r, g2_leave (length (g2_env s0)) s1)
                 | None => None
                 end.

  Lemma g2p_loop : forall i fi x f l p c0, nth_error files i = Some fi ->
    forall fs k b S tr,
    g2_items g2p_step (g2_index_items k (map V2Feat fs))
      {| g2_env := g2p_env b p (g2p_gen x f l) i; g2_maps := [c0; (V2Bool false, g2p_cell S)]; g2_trace := tr |}
    = Some (None, {| g2_env := g2p_env (b || existsb fg fs) p (g2p_gen x f l) i;
                     g2_maps := [c0; (V2Bool false, g2p_cell (snd (g2_file_events fg i (fi_import fi) k fs S)))];
                     g2_trace := tr ++ fst (g2_file_events fg i (fi_import fi) k fs S) |}).
  Proof.
    intros i fi x f l p c0 Hfi. unfold g2p_env, g2p_gen. induction fs as [|n fs IH]; intros k b S tr.
    - simpl. rewrite Bool.orb_false_r, app_nil_r. reflexivity.
    - simpl g2_index_items. simpl g2_items. unfold g2p_step at 1.
      unfold g2_scoped_with, canon_GenerateFile_loop. simpl.
      destruct (fg n) eqn:Hn.
      + unfold g2_scoped_with, g2_bind, g2_emit. simpl. rewrite Hfi. simpl.
        fold (g2p_key (fi_import fi) k). unfold g2_map_get. simpl. rewrite g2p_assoc.
        destruct (g2_seen_has S (fi_import fi) k) eqn:Hs.
        * unfold g2_scoped_with, g2_leave, g2_bind; simpl. rewrite IH.
          destruct (g2_file_events fg i (fi_import fi) (Datatypes.S k) fs S) as [ev s']. simpl.
          rewrite <- app_assoc, Bool.orb_true_r. reflexivity.
        * unfold g2_scoped_with, g2_leave, g2_bind, g2_emit, g2_map_set; simpl.
          rewrite (g2p_assoc_set _ _ _ Hs), IH.
          destruct (g2_file_events fg i (fi_import fi) (Datatypes.S k) fs (S ++ [(fi_import fi, k)])) as [ev s']. simpl.
          rewrite <- !app_assoc, Bool.orb_true_r. reflexivity.
      + unfold g2_scoped_with, g2_leave, g2_bind, g2_emit; simpl. rewrite IH.
        destruct (g2_file_events fg i (fi_import fi) (Datatypes.S k) fs S) as [ev s']. simpl.
        rewrite <- app_assoc. reflexivity.
  Qed.

  Lemma g2p_range_eq : forall st,
    g2_exec files ff fg (G2Range "fidx" "feat" (G2Sel (G2Var "gen") "features") canon_GenerateFile_loop) st
    = match g2_eval files ff fg (G2Sel (G2Var "gen") "features") st with
      | Some ([V2Slice l], st1) => g2_items g2p_step (g2_index_items 0 l) st1
      | Some ([V2Nil], st1) => Some (None, st1)
      | _ => None
      end.
  Proof. reflexivity. Qed.

  Lemma g2p_generate_file : forall i fi x fs l c0 S tr, nth_error files i = Some fi ->
    g2_run_file canon_generator_go files ff fg (g2p_gen x (V2Slice (map V2Feat fs)) l) [c0; (V2Bool false, g2p_cell S)] tr i
    = if fi_proto3 fi
      then Some ([V2Bool (existsb fg fs)],
                 [c0; (V2Bool false, g2p_cell (snd (g2_file_events fg i (fi_import fi) 0 fs S)))],
                 tr ++ fst (g2_file_events fg i (fi_import fi) 0 fs S))
      else Some ([V2Bool false], [c0; (V2Bool false, g2p_cell S)], tr).
  Proof.
    intros i fi x fs l c0 S tr Hfi.
    unfold g2_run_file, g2_call, g2p_gen.
    change (g2_find canon_generator_go "GenerateFile") with
      (Some (G2Func [("gen", "*Generator")] "GenerateFile"
           [("plugin", "*protogen.Plugin"); ("gf", "*protogen.GeneratedFile"); ("file", "*protogen.File")] ["bool"]
           canon_GenerateFile_body)).
    unfold canon_GenerateFile_body, g2_block.
    remember (G2Range "fidx" "feat" (G2Sel (G2Var "gen") "features") canon_GenerateFile_loop) as R eqn:HR.
    repeat progress (simpl; unfold g2_one, g2_scoped_with, g2_bind, g2_leave, g2_emit, g2_map_get, g2_map_set; rewrite ?Hfi).
    destruct (fi_proto3 fi).
    - repeat progress (simpl; unfold g2_one, g2_scoped_with, g2_bind, g2_leave, g2_emit, g2_map_get, g2_map_set; rewrite ?Hfi).
      subst R. rewrite g2p_range_eq.
      simpl (g2_eval _ _ _ _ _). unfold g2_one. simpl (g2_field _ _ _).
      pose proof (g2p_loop i fi x (V2Slice (map V2Feat fs)) l
                    (V2Struct "GeneratedFile" ["GeneratedFile"; "Ext"; "LocalPackages"] [V2Opaque "gf"; x; l]) c0 Hfi fs 0 false S tr) as HL.
      unfold g2p_env, g2p_gen in HL. rewrite HL. reflexivity.
    - reflexivity.
  Qed.

  Lemma g2p_run_files : forall x fs l c0 todo S tr, Forall (fun i => i < length files) todo ->
    g2_run_files canon_generator_go files ff fg (g2p_gen x (V2Slice (map V2Feat fs)) l) [c0; (V2Bool false, g2p_cell S)] tr todo
    = match g2_files_spec files fg fs S todo with Some (bs, ev) => Some (bs, tr ++ ev) | None => None end.
  Proof.
    intros x fs l c0. induction todo as [|i todo IH]; intros S tr H.
    - simpl. rewrite app_nil_r. reflexivity.
    - inversion H as [|? ? Hi Ht]; subst. cbn [g2_run_files g2_files_spec].
      destruct (nth_error files i) as [fi|] eqn:Hfi; [|apply nth_error_None in Hfi; lia].
      rewrite (g2p_generate_file i fi x fs l c0 S tr Hfi).
      destruct (fi_proto3 fi).
      + destruct (g2_file_events fg i (fi_import fi) 0 fs S) as [ev S']. cbn [fst snd].
        rewrite (IH S' (tr ++ ev) Ht). destruct (g2_files_spec files fg fs S' todo) as [[bs t]|]; [|reflexivity].
        rewrite app_assoc. reflexivity.
      + rewrite (IH S tr Ht). destruct (g2_files_spec files fg fs S todo) as [[bs t]|]; reflexivity.
  Qed.

  (* ---- NewGenerator ---- *)
  Definition g2p_local_step (L : list (v2 * v2)) (i : nat) : list (v2 * v2) :=
    match nth_error files i with
    | Some fi => if fi_generate fi then g2_assoc_set (V2Str (fi_pkg fi)) (V2Bool true) L else L
    | None => L
    end.
  Definition g2p_new_loop : list g2stmt := canon_NewGenerator_loop.
  Definition g2p_step2 : v2 * v2 -> g2state -> g2sres :=
    fun it s0 => match g2_scoped_with (g2_exec files ff fg) g2p_new_loop (g2_bind "f" (snd it) (g2_bind "_" (fst it) s0)) with
                 | Some (r, s1) => Some (r, g2_leave (length (g2_env s0)) s1)
                 | None => None
                 end.
  Lemma g2p_range_eq2 : forall st,
    g2_exec files ff fg (G2Range "_" "f" (G2Var "allFiles") g2p_new_loop) st
    = match g2_eval files ff fg (G2Var "allFiles") st with
      | Some ([V2Slice l], st1) => g2_items g2p_step2 (g2_index_items 0 l) st1
      | Some ([V2Nil], st1) => Some (None, st1)
      | _ => None
      end.
  Proof. reflexivity. Qed.

  Definition g2p_env2 (fv x nv av : v2) : list (gname * v2) :=
    [("local", V2Map 0); ("err", V2Nil); ("features", fv); ("ext", x); ("featureNames", nv); ("allFiles", av)].

  Lemma g2p_loop2 : forall fv x nv av tr idxs k L, Forall (fun i => i < length files) idxs ->
    g2_items g2p_step2 (g2_index_items k (map V2File idxs))
      {| g2_env := g2p_env2 fv x nv av; g2_maps := [(V2Bool false, L)]; g2_trace := tr |}
    = Some (None, {| g2_env := g2p_env2 fv x nv av; g2_maps := [(V2Bool false, fold_left g2p_local_step idxs L)]; g2_trace := tr |}).
  Proof.
    intros fv x nv av tr. unfold g2p_env2. induction idxs as [|i idxs IH]; intros k L H; [reflexivity|].
    inversion H as [|? ? Hi Ht]; subst.
    destruct (nth_error files i) as [fi|] eqn:Hfi; [|apply nth_error_None in Hfi; lia].
    simpl g2_index_items. simpl g2_items. unfold g2p_step2 at 1. unfold g2p_new_loop, canon_NewGenerator_loop.
    repeat progress (simpl; unfold g2_one, g2_scoped_with, g2_bind, g2_leave, g2_emit, g2_map_get, g2_map_set; rewrite ?Hfi).
    unfold g2p_local_step at 2. rewrite Hfi.
    destruct (fi_generate fi).
    - repeat progress (simpl; unfold g2_one, g2_scoped_with, g2_bind, g2_leave, g2_emit, g2_map_get, g2_map_set; rewrite ?Hfi).
      apply IH. exact Ht.
    - repeat progress (simpl; unfold g2_one, g2_scoped_with, g2_bind, g2_leave, g2_emit, g2_map_get, g2_map_set; rewrite ?Hfi).
      apply IH. exact Ht.
  Qed.

  Lemma g2p_strs : forall names, g2_strs (map V2Str names) = Some names.
  Proof. induction names as [|n t IH]; [reflexivity|]. simpl. rewrite IH. reflexivity. Qed.

  Lemma g2p_seq_lt : forall n, Forall (fun i => i < n) (seq 0 n).
  Proof. intros n. apply Forall_forall. intros i Hi. apply in_seq in Hi. lia. Qed.

  Definition g2p_local : list (v2 * v2) := fold_left g2p_local_step (seq 0 (length files)) [].

  Lemma g2p_run_new : forall names,
    g2_run_new canon_generator_go files ff fg names
    = match ff names with
      | None => Some ([V2Nil; V2Err], [], [])
      | Some fs => Some ([g2p_gen (V2Opaque "ext") (V2Slice (map V2Feat fs)) (V2Map 0); V2Nil],
                         [(V2Bool false, g2p_local); (V2Bool false, [])], [])
      end.
  Proof.
    intros names. unfold g2_run_new, g2_call, g2_files_value, g2p_gen.
    change (g2_find canon_generator_go "NewGenerator") with
      (Some (G2Func [] "NewGenerator" [("allFiles", "[]*protogen.File"); ("featureNames", "[]string"); ("ext", "*Extensions")]
           ["*Generator"; "error"] canon_NewGenerator_body)).
    unfold canon_NewGenerator_body, g2_block.
    remember (G2Range "_" "f" (G2Var "allFiles") canon_NewGenerator_loop) as R eqn:HR.
    repeat progress (simpl; unfold g2_one, g2_scoped_with, g2_bind, g2_leave, g2_emit, g2_map_get, g2_map_set).
    rewrite g2p_strs. destruct (ff names) as [fs|].
    - repeat progress (simpl; unfold g2_one, g2_scoped_with, g2_bind, g2_leave, g2_emit, g2_map_get, g2_map_set).
      subst R. change canon_NewGenerator_loop with g2p_new_loop. rewrite g2p_range_eq2.
      simpl (g2_eval _ _ _ _ _).
      pose proof (g2p_loop2 (V2Slice (map V2Feat fs)) (V2Opaque "ext") (V2Slice (map V2Str names))
                    (V2Slice (map V2File (seq 0 (length files)))) [] (seq 0 (length files)) 0 [] (g2p_seq_lt _)) as HL.
      unfold g2p_env2 in HL. cbv beta iota. rewrite HL.
      repeat progress (simpl; unfold g2_one, g2_scoped_with, g2_bind, g2_leave, g2_emit, g2_map_get, g2_map_set).
      reflexivity.
    - repeat progress (simpl; unfold g2_one, g2_scoped_with, g2_bind, g2_leave, g2_emit, g2_map_get, g2_map_set).
      reflexivity.
  Qed.
End Gen.

Theorem generator_go_prog_correct : generator_go_prog_stmt.
Proof.
  intros files ff fg names todo H. unfold g2_run_all, g2_all_spec. rewrite g2p_run_new.
  destruct (ff names) as [fs|]; [|reflexivity].
  cbv beta iota.
  pose proof (g2p_run_files files ff fg (V2Opaque "ext") fs (V2Map 0) (V2Bool false, g2p_local files) todo [] [] H) as HR.
  change (g2p_cell []) with (@nil (v2 * v2)) in HR. rewrite HR.
  destruct (g2_files_spec files fg fs [] todo) as [[bs ev]|]; reflexivity.
Qed.

(* ---- down to GenOrder.v's words ------------------------------------------------------------------------------------------- *)
Lemma g2p_events_app : forall a b, g2_generate_file_events (a ++ b) = g2_generate_file_events a ++ g2_generate_file_events b.
Proof. intros. unfold g2_generate_file_events. apply flat_map_app. Qed.

Lemma g2p_file_events_calls : forall fg i path fs k S,
  g2_generate_file_events (fst (g2_file_events fg i path k fs S)) = map (fun n => (n, i)) fs.
Proof.
  intros fg i path. induction fs as [|n fs IH]; intros k S; [reflexivity|].
  simpl. destruct (fg n).
  - destruct (g2_seen_has S path k).
    + specialize (IH (Datatypes.S k) S). destruct (g2_file_events fg i path (Datatypes.S k) fs S). simpl in *. rewrite IH. reflexivity.
    + specialize (IH (Datatypes.S k) (S ++ [(path, k)])). destruct (g2_file_events fg i path (Datatypes.S k) fs (S ++ [(path, k)])).
      simpl in *. rewrite IH. reflexivity.
  - specialize (IH (Datatypes.S k) S). destruct (g2_file_events fg i path (Datatypes.S k) fs S). simpl in *. rewrite IH. reflexivity.
Qed.

Lemma g2p_files_spec : forall files fg fs todo S, Forall (fun i => i < length files) todo ->
  exists bs tr, g2_files_spec files fg fs S todo = Some (bs, tr) /\
    bs = map (fun i => match nth_error files i with Some fi => fi_proto3 fi && existsb fg fs | None => false end) todo /\
    g2_generate_file_events tr =
      flat_map (fun i => match nth_error files i with
                         | Some fi => if fi_proto3 fi then map (fun n => (n, i)) fs else []
                         | None => [] end) todo.
Proof.
  intros files fg fs. induction todo as [|i todo IH]; intros S H.
  - exists [], []. repeat split.
  - inversion H as [|? ? Hi Ht]; subst. cbn [g2_files_spec map flat_map].
    destruct (nth_error files i) as [fi|] eqn:Hfi; [|apply nth_error_None in Hfi; lia].
    destruct (fi_proto3 fi).
    + pose proof (g2p_file_events_calls fg i (fi_import fi) fs 0 S) as HE.
      destruct (g2_file_events fg i (fi_import fi) 0 fs S) as [ev S']. simpl in HE.
      destruct (IH S' Ht) as [bs [tr [E [Hb Hc]]]]. rewrite E.
      exists (existsb fg fs :: bs), (ev ++ tr). split; [reflexivity|]. split.
      * simpl. rewrite Hb. reflexivity.
      * rewrite g2p_events_app, HE, Hc. reflexivity.
    + destruct (IH S Ht) as [bs [tr [E [Hb Hc]]]]. rewrite E.
      exists (false :: bs), tr. split; [reflexivity|]. split.
      * simpl. rewrite Hb. reflexivity.
      * simpl. exact Hc.
Qed.

Theorem generator_go_genorder : generator_go_genorder_stmt.
Proof.
  intros files names todo H. rewrite (generator_go_prog_correct files find_features g2_default_feat_gen names todo H).
  unfold g2_all_spec. destruct (find_features names) as [fs|]; [|reflexivity].
  destruct (g2p_files_spec files g2_default_feat_gen fs todo [] H) as [bs [tr [E [Hb Hc]]]]. rewrite E.
  exists fs. split; [reflexivity|]. split; assumption.
Qed.
