(* Proofs/CodecOpsProofs.v — C07: frame and freshness of the codec calls on the heap model
   (Model/CodecOps.v over Model/Reflect.v).

   1. [load_spec]: what [load] does to a heap depends on the heap only through its length: it appends a
      block of entries [ext] (a function of the length, the type and the value), every object id stored in
      the block points into the block, the root is in the block.
   2. consequences: load_extends / load_fresh / unmarshal_frame / unmarshal_result_fresh /
      unmarshal_is_function_of_bytes, [render] only reads the region it can reach (render_agree).
   3. [render_load]: loading a well-typed value and rendering it gives the value back (nil-vs-empty,
      nil pointers, oneof wrappers holding nil, unknown bytes included).
   4. read-only calls: size_frame / marshal_frame / marshal_result_independent. *)
From CP Require Import CodecOps ValInd DecodeTotal ReflectLaws.
From Coq Require Import List Lia Arith.
Import ListNotations.
Local Open Scope nat_scope.

(* ------------------------------------------------------------------ lists *)
Lemma set_nth_app_r {A} (l ext : list A) k x : set_nth (l ++ ext) (length l + k) x = l ++ set_nth ext k x.
Proof. induction l as [|a l IH]; cbn [app length plus set_nth]; [reflexivity|]. rewrite IH. reflexivity. Qed.

Lemma Forall_set_nth {A} (P : A -> Prop) (l : list A) j x : Forall P l -> P x -> Forall P (set_nth l j x).
Proof.
  intros Hl Hx. revert j. induction Hl as [|a l Ha Hl IH]; intros j; cbn [set_nth]; [constructor|].
  destruct j; constructor; auto.
Qed.

(* ------------------------------------------------------------------ pointer ranges *)
Definition ptrs_in (lo hi : nat) (l : list nat) : Prop := Forall (fun q => lo <= q < hi) l.
Definition ents_in (lo hi : nat) (ext : list hent) : Prop := Forall (fun e => ptrs_in lo hi (ptrs_of_entry e)) ext.

Lemma ptrs_in_weaken lo hi lo' hi' l : lo' <= lo -> hi <= hi' -> ptrs_in lo hi l -> ptrs_in lo' hi' l.
Proof. intros H1 H2 H. unfold ptrs_in in *. eapply Forall_impl; [|exact H]. cbn beta. intros q Hq. lia. Qed.

Lemma ents_in_weaken lo hi lo' hi' l : lo' <= lo -> hi <= hi' -> ents_in lo hi l -> ents_in lo' hi' l.
Proof.
  intros H1 H2 H. unfold ents_in in *. eapply Forall_impl; [|exact H]. cbn beta.
  intros e He. eapply ptrs_in_weaken; eassumption.
Qed.

Lemma ptrs_in_nil lo hi : ptrs_in lo hi []. Proof. constructor. Qed.
Lemma ptrs_in_app lo hi a b : ptrs_in lo hi a -> ptrs_in lo hi b -> ptrs_in lo hi (a ++ b).
Proof. intros Ha Hb. apply Forall_app. split; assumption. Qed.

Lemma ents_in_app lo hi a b : ents_in lo hi a -> ents_in lo hi b -> ents_in lo hi (a ++ b).
Proof. intros Ha Hb. apply Forall_app. split; assumption. Qed.

(* ------------------------------------------------------------------ the specification of a loader *)
Definition ld_t := heap -> nat -> val -> heap * option nat.

Definition ld_spec (ld : ld_t) : Prop :=
  forall n m v, exists ext r,
    (forall h, length h = n -> ld h m v = (h ++ ext, r)) /\
    ents_in n (n + length ext) ext /\
    (forall q, r = Some q -> n <= q < n + length ext).

Lemma load_elem_spec ld : ld_spec ld -> forall n t v, exists ext e,
  (forall h, length h = n -> load_elem ld h t v = (h ++ ext, e)) /\
  ents_in n (n + length ext) ext /\ ptrs_in n (n + length ext) (ptrs_of_elem e).
Proof.
  intros Hld n t v. destruct t as [k|m].
  - exists [], (EScalar v). split; [|split].
    + intros h _. cbn [load_elem]. rewrite app_nil_r. reflexivity.
    + constructor.
    + constructor.
  - assert (Hnil : exists ext e, (forall h, length h = n -> (h, EPtr None) = (h ++ ext, e)) /\
                                 ents_in n (n + length ext) ext /\ ptrs_in n (n + length ext) (ptrs_of_elem e)).
    { exists [], (EPtr None). split; [|split]; try constructor. intros h _. rewrite app_nil_r. reflexivity. }
    assert (Hgen : exists ext e, (forall h, length h = n -> (let (h', p) := ld h m v in (h', EPtr p)) = (h ++ ext, e)) /\
                                 ents_in n (n + length ext) ext /\ ptrs_in n (n + length ext) (ptrs_of_elem e)).
    { destruct (Hld n m v) as (ext & r & H1 & H2 & H3). exists ext, (EPtr r). split; [|split].
      - intros h Hh. rewrite (H1 h Hh). reflexivity.
      - exact H2.
      - destruct r as [q|]; cbn [ptrs_of_elem]; [|constructor]. constructor; [|constructor]. apply H3. reflexivity. }
    destruct v; cbn [load_elem]; first [exact Hnil | exact Hgen].
Qed.

Lemma load_list_spec ld : ld_spec ld -> forall t l n, exists ext es,
  (forall h, length h = n -> load_list ld h t l = (h ++ ext, es)) /\
  ents_in n (n + length ext) ext /\ ptrs_in n (n + length ext) (flat_map ptrs_of_elem es).
Proof.
  intros Hld t l. induction l as [|x tl IH]; intros n.
  - exists [], []. split; [|split]; try constructor. intros h _. cbn [load_list]. rewrite app_nil_r. reflexivity.
  - destruct (load_elem_spec ld Hld n t x) as (ext1 & e & H1 & H2 & H3).
    destruct (IH (n + length ext1)) as (ext2 & es & G1 & G2 & G3).
    exists (ext1 ++ ext2), (e :: es). rewrite app_length. split; [|split].
    + intros h Hh. cbn [load_list]. rewrite (H1 h Hh).
      rewrite (G1 (h ++ ext1)) by (rewrite app_length; lia). rewrite app_assoc. reflexivity.
    + apply ents_in_app.
      * eapply ents_in_weaken; [| |exact H2]; lia.
      * eapply ents_in_weaken; [| |exact G2]; lia.
    + cbn [flat_map]. apply ptrs_in_app.
      * eapply ptrs_in_weaken; [| |exact H3]; lia.
      * eapply ptrs_in_weaken; [| |exact G3]; lia.
Qed.

Lemma load_map_spec ld : ld_spec ld -> forall t l n, exists ext es,
  (forall h, length h = n -> load_map ld h t l = (h ++ ext, es)) /\
  ents_in n (n + length ext) ext /\ ptrs_in n (n + length ext) (flat_map (fun kv => ptrs_of_elem (snd kv)) es).
Proof.
  intros Hld t l. induction l as [|[k x] tl IH]; intros n.
  - exists [], []. split; [|split]; try constructor. intros h _. cbn [load_map]. rewrite app_nil_r. reflexivity.
  - destruct (load_elem_spec ld Hld n t x) as (ext1 & e & H1 & H2 & H3).
    destruct (IH (n + length ext1)) as (ext2 & es & G1 & G2 & G3).
    exists (ext1 ++ ext2), ((k, e) :: es). rewrite app_length. split; [|split].
    + intros h Hh. cbn [load_map]. rewrite (H1 h Hh).
      rewrite (G1 (h ++ ext1)) by (rewrite app_length; lia). rewrite app_assoc. reflexivity.
    + apply ents_in_app.
      * eapply ents_in_weaken; [| |exact H2]; lia.
      * eapply ents_in_weaken; [| |exact G2]; lia.
    + cbn [flat_map snd]. apply ptrs_in_app.
      * eapply ptrs_in_weaken; [| |exact H3]; lia.
      * eapply ptrs_in_weaken; [| |exact G3]; lia.
Qed.

(* ---- one slot of load_slots ----------------------------------------------------------------------- *)
Definition slot_step (ld : ld_t) (h : heap) (fd : field) (s : val) (i : nat) (ones : list (option (nat * elem)))
  : heap * cell * list (option (nat * elem)) :=
  match f_shape fd with
  | Singular =>
    match f_ty fd with
    | TScalar _ => (h, CScalar s, ones)
    | TMsg m => match s with
                | VNil => (h, CMsg None, ones)
                | _ => let (h', p) := ld h m s in (h', CMsg p, ones)
                end
    end
  | Rep _ => match s with
             | VList l => let (h', es) := load_list ld h (f_ty fd) l in (h', CList (Some es), ones)
             | _ => (h, CList None, ones)
             end
  | MapOf _ => match s with
               | VMap kvs => let (h', m) := load_map ld h (f_ty fd) kvs in (h', CMap (Some m), ones)
               | _ => (h, CMap None, ones)
               end
  | Member j => match s with
                | VSome p => let (h', e) := load_elem ld h (f_ty fd) p in (h', CMember, set_nth ones j (Some (i, e)))
                | _ => (h, CMember, ones)
                end
  end.

Lemma load_slots_cons ld h fd ft s st i ones :
  load_slots ld h (fd :: ft) (s :: st) i ones =
  let '(h1, c, ones1) := slot_step ld h fd s i ones in
  let '(h2, cs, ones2) := load_slots ld h1 ft st (S i) ones1 in
  (h2, c :: cs, ones2).
Proof. reflexivity. Qed.

(* the oneof slots after a step: the old ones, or the old ones with one slot overwritten *)
Definition ones_step (P : nat -> Prop) (ones ones1 : list (option (nat * elem))) : Prop :=
  Forall P (flat_map ptrs_of_oneof ones) -> Forall P (flat_map ptrs_of_oneof ones1).

Lemma ptrs_set_nth_oneof (P : nat -> Prop) ones j x :
  Forall P (flat_map ptrs_of_oneof ones) -> Forall P (ptrs_of_oneof x) ->
  Forall P (flat_map ptrs_of_oneof (set_nth ones j x)).
Proof.
  intros H Hx. apply Forall_flat_map. apply Forall_set_nth; [|exact Hx]. apply Forall_flat_map. exact H.
Qed.

Lemma slot_step_spec ld : ld_spec ld -> forall fd s i ones n, exists ext c ones1,
  (forall h, length h = n -> slot_step ld h fd s i ones = (h ++ ext, c, ones1)) /\
  ents_in n (n + length ext) ext /\ ptrs_in n (n + length ext) (ptrs_of_cell c) /\
  (forall P : nat -> Prop, (forall q, n <= q < n + length ext -> P q) -> ones_step P ones ones1).
Proof.
  intros Hld fd s i ones n.
  assert (Hstay : forall c, ptrs_of_cell c = [] -> exists ext c' ones1,
            (forall h, length h = n -> (h, c, ones) = (h ++ ext, c', ones1)) /\
            ents_in n (n + length ext) ext /\ ptrs_in n (n + length ext) (ptrs_of_cell c') /\
            (forall P : nat -> Prop, (forall q, n <= q < n + length ext -> P q) -> ones_step P ones ones1)).
  { intros c Hc. exists [], c, ones. split; [|split; [|split]].
    - intros h _. rewrite app_nil_r. reflexivity.
    - constructor.
    - rewrite Hc. constructor.
    - intros P _ H. exact H. }
  unfold slot_step. destruct (f_shape fd) as [|pk|j|kk].
  - (* Singular *)
    destruct (f_ty fd) as [k|m]; [apply Hstay; reflexivity|].
    assert (Hgen : exists ext c ones1,
              (forall h, length h = n -> (let (h', p) := ld h m s in (h', CMsg p, ones)) = (h ++ ext, c, ones1)) /\
              ents_in n (n + length ext) ext /\ ptrs_in n (n + length ext) (ptrs_of_cell c) /\
              (forall P : nat -> Prop, (forall q, n <= q < n + length ext -> P q) -> ones_step P ones ones1)).
    { destruct (Hld n m s) as (ext & r & H1 & H2 & H3). exists ext, (CMsg r), ones. split; [|split; [|split]].
      - intros h Hh. rewrite (H1 h Hh). reflexivity.
      - exact H2.
      - destruct r as [q|]; cbn [ptrs_of_cell]; [|constructor]. constructor; [|constructor]. apply H3. reflexivity.
      - intros P _ H. exact H. }
    destruct s; first [apply Hstay; reflexivity | exact Hgen].
  - (* Rep *)
    destruct s; try (apply Hstay; reflexivity).
    destruct (load_list_spec ld Hld (f_ty fd) l n) as (ext & es & H1 & H2 & H3).
    exists ext, (CList (Some es)), ones. split; [|split; [|split]].
    + intros h Hh. rewrite (H1 h Hh). reflexivity.
    + exact H2.
    + exact H3.
    + intros P _ H. exact H.
  - (* Member *)
    destruct s; try (apply Hstay; reflexivity).
    destruct (load_elem_spec ld Hld n (f_ty fd) s) as (ext & e & H1 & H2 & H3).
    exists ext, CMember, (set_nth ones j (Some (i, e))). split; [|split; [|split]].
    + intros h Hh. rewrite (H1 h Hh). reflexivity.
    + exact H2.
    + constructor.
    + intros P HP H. apply ptrs_set_nth_oneof; [exact H|]. cbn [ptrs_of_oneof].
      unfold ptrs_in in H3. eapply Forall_impl; [|exact H3]. cbn beta. exact HP.
  - (* MapOf *)
    destruct s; try (apply Hstay; reflexivity).
    destruct (load_map_spec ld Hld (f_ty fd) kvs n) as (ext & es & H1 & H2 & H3).
    exists ext, (CMap (Some es)), ones. split; [|split; [|split]].
    + intros h Hh. rewrite (H1 h Hh). reflexivity.
    + exact H2.
    + exact H3.
    + intros P _ H. exact H.
Qed.

Lemma load_slots_spec ld : ld_spec ld -> forall fs ss i ones n, exists ext cs ones',
  (forall h, length h = n -> load_slots ld h fs ss i ones = (h ++ ext, cs, ones')) /\
  ents_in n (n + length ext) ext /\ ptrs_in n (n + length ext) (flat_map ptrs_of_cell cs) /\
  (forall P : nat -> Prop, (forall q, n <= q < n + length ext -> P q) -> ones_step P ones ones').
Proof.
  intros Hld fs. induction fs as [|fd ft IH]; intros ss i ones n.
  - exists [], [], ones. split; [|split; [|split]]; try constructor.
    + intros h _. cbn [load_slots]. rewrite app_nil_r. reflexivity.
    + intros P _ H. exact H.
  - destruct ss as [|s st].
    + exists [], [], ones. split; [|split; [|split]]; try constructor.
      * intros h _. cbn [load_slots]. rewrite app_nil_r. reflexivity.
      * intros P _ H. exact H.
    + destruct (slot_step_spec ld Hld fd s i ones n) as (ext1 & c & ones1 & H1 & H2 & H3 & H4).
      destruct (IH st (S i) ones1 (n + length ext1)) as (ext2 & cs & ones2 & G1 & G2 & G3 & G4).
      exists (ext1 ++ ext2), (c :: cs), ones2. rewrite app_length. split; [|split; [|split]].
      * intros h Hh. rewrite load_slots_cons. rewrite (H1 h Hh).
        rewrite (G1 (h ++ ext1)) by (rewrite app_length; lia). rewrite app_assoc. reflexivity.
      * apply ents_in_app.
        -- eapply ents_in_weaken; [| |exact H2]; lia.
        -- eapply ents_in_weaken; [| |exact G2]; lia.
      * cbn [flat_map]. apply ptrs_in_app.
        -- eapply ptrs_in_weaken; [| |exact H3]; lia.
        -- eapply ptrs_in_weaken; [| |exact G3]; lia.
      * intros P HP H. apply (G4 P).
        -- intros q Hq. apply HP. lia.
        -- apply (H4 P); [|exact H]. intros q Hq. apply HP. lia.
Qed.

Lemma load_S sch fu h mid slots unk :
  load sch (S fu) h mid (VMsg slots unk) =
  let '(h1, cells, ones) :=
    load_slots (load sch fu) (h ++ [HObj (new_obj sch mid)]) (fields_of sch mid) slots 0
               (repeat None (match get_msg sch mid with Some md => m_oneofs md | None => 0 end)) in
  (hset h1 (length h) (HObj (mkObj mid cells ones (match unk with [] => None | _ => Some unk end))), Some (length h)).
Proof. reflexivity. Qed.

Lemma ptrs_repeat_None n : flat_map ptrs_of_oneof (repeat None n) = [].
Proof. induction n as [|n IH]; cbn [repeat flat_map ptrs_of_oneof app]; [reflexivity|exact IH]. Qed.

Theorem load_spec sch : forall fuel, ld_spec (load sch fuel).
Proof.
  induction fuel as [|fu IH]; intros n mid v.
  - exists [], None. split; [|split]; try constructor; try discriminate.
    intros h _. cbn [load]. rewrite app_nil_r. reflexivity.
  - assert (Hno : forall v', (forall h, load sch (S fu) h mid v' = (h, None)) -> exists ext r,
               (forall h, length h = n -> load sch (S fu) h mid v' = (h ++ ext, r)) /\
               ents_in n (n + length ext) ext /\ (forall q, r = Some q -> n <= q < n + length ext)).
    { intros v' Hv. exists [], None. split; [|split]; try constructor; try discriminate.
      intros h _. rewrite Hv, app_nil_r. reflexivity. }
    destruct v as [z|b|x|l| |p|slots unk|l|kvs]; try (apply Hno; reflexivity).
    set (ones0 := repeat (@None (nat * elem)) (match get_msg sch mid with Some md => m_oneofs md | None => 0 end)).
    destruct (load_slots_spec (load sch fu) IH (fields_of sch mid) slots 0 ones0 (n + 1))
      as (ext1 & cs & ones' & H1 & H2 & H3 & H4).
    set (o := HObj (mkObj mid cs ones' (match unk with [] => None | _ => Some unk end))).
    exists (o :: ext1), (Some n). cbn [length]. split; [|split].
    + intros h Hh. rewrite load_S. fold ones0.
      rewrite (H1 (h ++ [HObj (new_obj sch mid)])) by (rewrite app_length; cbn [length]; lia).
      fold o. unfold hset. rewrite <- app_assoc. cbn [app].
      replace (length h) with (length h + 0) at 1 by lia. rewrite set_nth_app_r. cbn [set_nth]. rewrite Hh. reflexivity.
    + constructor.
      * unfold o. cbn [ptrs_of_entry]. unfold ptrs_of_obj. cbn [o_cells o_oneofs]. apply ptrs_in_app.
        -- eapply ptrs_in_weaken; [| |exact H3]; lia.
        -- apply (H4 (fun q => n <= q < n + S (length ext1))).
           ++ intros q Hq. lia.
           ++ unfold ones0. rewrite ptrs_repeat_None. constructor.
      * eapply ents_in_weaken; [| |exact H2]; lia.
    + intros q Hq. injection Hq as <-. lia.
Qed.

(* ------------------------------------------------------------------ (b) load only appends *)
Lemma load_appends sch fuel h mid v : exists ext,
  fst (load sch fuel h mid v) = h ++ ext /\
  ents_in (length h) (length h + length ext) ext /\
  (forall q, snd (load sch fuel h mid v) = Some q -> length h <= q < length h + length ext) /\
  (forall h2, length h2 = length h ->
     fst (load sch fuel h2 mid v) = h2 ++ ext /\ snd (load sch fuel h2 mid v) = snd (load sch fuel h mid v)).
Proof.
  destruct (load_spec sch fuel (length h) mid v) as (ext & r & H1 & H2 & H3).
  exists ext. rewrite (H1 h eq_refl). cbn [fst snd]. split; [reflexivity|]. split; [exact H2|]. split; [exact H3|].
  intros h2 Hh2. rewrite (H1 h2 Hh2). split; reflexivity.
Qed.

Theorem load_extends : forall sch fuel h mid v,
  length h <= length (fst (load sch fuel h mid v)) /\
  forall id, id < length h -> nth_error (fst (load sch fuel h mid v)) id = nth_error h id.
Proof.
  intros sch fuel h mid v. destruct (load_appends sch fuel h mid v) as (ext & -> & _).
  split; [rewrite app_length; lia|]. intros id Hid. apply nth_error_app1. exact Hid.
Qed.

Lemma ents_in_region_closed h ext hi : ents_in (length h) hi ext -> region_closed (length h) hi (h ++ ext).
Proof.
  intros He i e Hi Hn. rewrite nth_error_app2 in Hn by exact Hi.
  apply nth_error_In in Hn. unfold ents_in in He. rewrite Forall_forall in He. exact (He e Hn).
Qed.

(* (c) the loaded graph is fresh: root and every stored object id are new ids *)
Theorem load_fresh : forall sch fuel h mid v,
  (forall q, snd (load sch fuel h mid v) = Some q -> length h <= q < length (fst (load sch fuel h mid v))) /\
  region_closed (length h) (length (fst (load sch fuel h mid v))) (fst (load sch fuel h mid v)).
Proof.
  intros sch fuel h mid v. destruct (load_appends sch fuel h mid v) as (ext & -> & H2 & H3 & _).
  rewrite app_length. split; [exact H3|]. apply ents_in_region_closed. exact H2.
Qed.

(* ------------------------------------------------------------------ unmarshal_op *)
Lemma unmarshal_op_cases sch discard fuel h mid bs :
  (exists v, pulsar_unmarshal sch discard mid VNil bs = Ok v /\
             unmarshal_op sch discard fuel h mid bs = (fst (load sch fuel h mid v), Ok (snd (load sch fuel h mid v)))) \/
  (fst (unmarshal_op sch discard fuel h mid bs) = h /\
   forall r, snd (unmarshal_op sch discard fuel h mid bs) <> Ok r).
Proof.
  unfold unmarshal_op. destruct (pulsar_unmarshal sch discard mid VNil bs) as [v| | |].
  - left. exists v. split; [reflexivity|]. destruct (load sch fuel h mid v) as [h' r]. reflexivity.
  - right. split; [reflexivity|]. intros r. discriminate.
  - right. split; [reflexivity|]. intros r. discriminate.
  - right. split; [reflexivity|]. intros r. discriminate.
Qed.

Theorem unmarshal_frame : forall sch discard fuel h mid bs,
  length h <= length (fst (unmarshal_op sch discard fuel h mid bs)) /\
  forall id, id < length h -> nth_error (fst (unmarshal_op sch discard fuel h mid bs)) id = nth_error h id.
Proof.
  intros sch discard fuel h mid bs.
  destruct (unmarshal_op_cases sch discard fuel h mid bs) as [(v & _ & ->)|[-> _]].
  - cbn [fst]. apply load_extends.
  - split; [lia|reflexivity].
Qed.

Theorem unmarshal_result_fresh : forall sch discard fuel h mid bs,
  (forall q, snd (unmarshal_op sch discard fuel h mid bs) = Ok (Some q) ->
             length h <= q < length (fst (unmarshal_op sch discard fuel h mid bs))) /\
  region_closed (length h) (length (fst (unmarshal_op sch discard fuel h mid bs))) (fst (unmarshal_op sch discard fuel h mid bs)).
Proof.
  intros sch discard fuel h mid bs.
  destruct (unmarshal_op_cases sch discard fuel h mid bs) as [(v & _ & ->)|[-> Hn]].
  - cbn [fst snd]. destruct (load_fresh sch fuel h mid v) as [H1 H2]. split; [|exact H2].
    intros q Hq. apply H1. injection Hq as Hq. exact Hq.
  - split.
    + intros q Hq. exfalso. exact (Hn _ Hq).
    + intros i e Hi Hnth. apply nth_error_Some_lt in Hnth. lia.
Qed.

(* ------------------------------------------------------------------ render reads only what it can reach *)
Definition agree (lo hi : nat) (h1 h2 : heap) : Prop := forall i, lo <= i < hi -> nth_error h1 i = nth_error h2 i.

Definition rel (sch : schema) (fu : nat) (H : heap) (e : elem) : val :=
  match e with EScalar v => v | EPtr q => render sch fu H q end.

Definition dflt_field : field := {| f_num := 0%N; f_ty := TScalar KBool; f_shape := Singular |}.

Definition rcell (sch : schema) (fu : nat) (H : heap) (fs : list field) (ones : list (option (nat * elem)))
           (ic : nat * cell) : val :=
  let '(i, c) := ic in
  let fd := nth i fs dflt_field in
  match c with
  | CScalar v => v
  | CMsg q => render sch fu H q
  | CList None => VNil
  | CList (Some l) => VList (map (rel sch fu H) l)
  | CMap None => VNil
  | CMap (Some m) => VMap (map (fun kv => (fst kv, rel sch fu H (snd kv))) m)
  | CMember =>
    match f_shape fd with
    | Member j => match nth j ones None with
                  | Some (f', e) => if Nat.eqb f' i then VSome (rel sch fu H e) else VNil
                  | None => VNil
                  end
    | _ => VNil
    end
  end.

Lemma render_S sch fu H id o : get_obj H id = Some o ->
  render sch (S fu) H (Some id) =
  VMsg (map (rcell sch fu H (fields_of sch (o_mid o)) (o_oneofs o)) (combine (seq 0 (length (o_cells o))) (o_cells o)))
       (olist (o_unk o)).
Proof. intros E. cbn [render]. rewrite E. reflexivity. Qed.

Lemma render_None sch fu H : render sch fu H None = VNil.
Proof. destruct fu; reflexivity. Qed.

Lemma render_no_obj sch fu H id : get_obj H id = None -> render sch fu H (Some id) = VNil.
Proof. intros E. destruct fu; cbn [render]; [reflexivity|]. rewrite E. reflexivity. Qed.

Lemma render_agree sch lo hi h1 h2 :
  agree lo hi h1 h2 ->
  (forall i e, lo <= i < hi -> nth_error h1 i = Some e -> ptrs_in lo hi (ptrs_of_entry e)) ->
  forall fuel p, (forall q, p = Some q -> lo <= q < hi) -> render sch fuel h1 p = render sch fuel h2 p.
Proof.
  intros Hag Hcl. induction fuel as [|fu IH]; intros p Hp; [reflexivity|].
  destruct p as [id|]; [|reflexivity].
  assert (Hid : lo <= id < hi) by (apply Hp; reflexivity).
  destruct (get_obj h1 id) as [o|] eqn:E1.
  - assert (E2 : get_obj h2 id = Some o).
    { unfold get_obj, hget in *. rewrite <- (Hag id Hid). exact E1. }
    rewrite (render_S sch fu h1 id o E1), (render_S sch fu h2 id o E2). f_equal.
    assert (Ho : ptrs_in lo hi (ptrs_of_obj o)).
    { unfold get_obj, hget in E1. destruct (nth_error h1 id) as [[o'| |]|] eqn:En; try discriminate E1.
      injection E1 as ->. exact (Hcl id (HObj o) Hid En). }
    unfold ptrs_of_obj in Ho. apply Forall_app in Ho. destruct Ho as [Hc Ho].
    apply Forall_flat_map in Hc. apply Forall_flat_map in Ho. rewrite Forall_forall in Hc, Ho.
    assert (Hrel : forall e, ptrs_in lo hi (ptrs_of_elem e) -> rel sch fu h1 e = rel sch fu h2 e).
    { intros [v|q] He; cbn [rel]; [reflexivity|]. apply IH. intros q' ->. cbn [ptrs_of_elem] in He.
      inversion He; subst. assumption. }
    apply map_ext_in. intros [i c] Hin. apply in_combine_r in Hin. specialize (Hc c Hin).
    cbn [rcell]. destruct c as [v|q|[l|]|[m|]|]; try reflexivity.
    + apply IH. intros q' ->. cbn [ptrs_of_cell] in Hc. inversion Hc; subst. assumption.
    + f_equal. apply map_ext_in. intros e He. apply Hrel. cbn [ptrs_of_cell] in Hc.
      apply Forall_flat_map in Hc. rewrite Forall_forall in Hc. exact (Hc e He).
    + f_equal. apply map_ext_in. intros kv Hkv. f_equal. apply Hrel. cbn [ptrs_of_cell] in Hc.
      apply Forall_flat_map in Hc. rewrite Forall_forall in Hc. exact (Hc kv Hkv).
    + destruct (f_shape (nth i (fields_of sch (o_mid o)) dflt_field)) as [|pk|j|kk]; try reflexivity.
      destruct (nth j (o_oneofs o) None) as [[f' e]|] eqn:En; [|reflexivity].
      destruct (Nat.eqb f' i); [|reflexivity]. f_equal. apply Hrel.
      assert (Hj : j < length (o_oneofs o)) by (eapply nth_Some_lt; exact En).
      pose proof (nth_In (o_oneofs o) None Hj) as HIn. rewrite En in HIn. exact (Ho _ HIn).
  - assert (E2 : get_obj h2 id = None).
    { unfold get_obj, hget in *. rewrite <- (Hag id Hid). exact E1. }
    rewrite (render_no_obj sch (S fu) h1 id E1), (render_no_obj sch (S fu) h2 id E2). reflexivity.
Qed.

(* rendering an object of a closed heap is not affected by anything appended to the heap *)
Lemma render_closed_app sch h ext : heap_closed h ->
  forall fuel q, q < length h -> render sch fuel (h ++ ext) (Some q) = render sch fuel h (Some q).
Proof.
  intros Hc fuel q Hq. symmetry. apply (render_agree sch 0 (length h)).
  - intros i Hi. symmetry. apply nth_error_app1. lia.
  - intros i e Hi Hn. apply (Hc i e); [lia|exact Hn].
  - intros q' Hq'. injection Hq' as <-. lia.
Qed.

(* (b'') every message the caller holds reads the same after Unmarshal *)
Theorem unmarshal_preserves_existing_messages : forall sch discard fuel h mid bs, heap_closed h ->
  forall rfuel q, q < length h ->
    render sch rfuel (fst (unmarshal_op sch discard fuel h mid bs)) (Some q) = render sch rfuel h (Some q).
Proof.
  intros sch discard fuel h mid bs Hc rfuel q Hq.
  destruct (unmarshal_op_cases sch discard fuel h mid bs) as [(v & _ & ->)|[-> _]]; [|reflexivity].
  cbn [fst]. destruct (load_appends sch fuel h mid v) as (ext & -> & _). apply render_closed_app; assumption.
Qed.

(* (e) the result depends on (sch, discard, mid, bs, length h) only *)
Theorem unmarshal_is_function_of_bytes : forall sch discard fuel h1 h2 mid bs, length h1 = length h2 ->
  snd (unmarshal_op sch discard fuel h1 mid bs) = snd (unmarshal_op sch discard fuel h2 mid bs) /\
  skipn (length h1) (fst (unmarshal_op sch discard fuel h1 mid bs)) =
  skipn (length h2) (fst (unmarshal_op sch discard fuel h2 mid bs)) /\
  forall rfuel q, length h1 <= q ->
    render sch rfuel (fst (unmarshal_op sch discard fuel h1 mid bs)) (Some q) =
    render sch rfuel (fst (unmarshal_op sch discard fuel h2 mid bs)) (Some q).
Proof.
  intros sch discard fuel h1 h2 mid bs Hlen. unfold unmarshal_op.
  destruct (pulsar_unmarshal sch discard mid VNil bs) as [v| | |]; cbn [fst snd].
  2-4: split; [reflexivity|]; split;
       [rewrite !skipn_all; reflexivity|];
       intros rfuel q Hq; rewrite !render_no_obj; [reflexivity| |];
       unfold get_obj, hget;
       match goal with |- context [nth_error ?h q] => replace (nth_error h q) with (@None hent); [reflexivity|] end;
       symmetry; apply nth_error_None; lia.
  destruct (load_appends sch fuel h1 mid v) as (ext & E1 & Hin & Hroot & Hfun).
  destruct (Hfun h2 (eq_sym Hlen)) as [E2 R2].
  destruct (load sch fuel h1 mid v) as [g1 r1]. destruct (load sch fuel h2 mid v) as [g2 r2].
  cbn [fst snd] in *. subst g1 g2 r2. split; [reflexivity|]. split.
  - rewrite !skipn_app, !skipn_all, !Nat.sub_diag. reflexivity.
  - intros rfuel q Hq. destruct (Nat.lt_ge_cases q (length h1 + length ext)) as [Hlt|Hge].
    + apply (render_agree sch (length h1) (length h1 + length ext)).
      * intros i Hi. rewrite !nth_error_app2 by lia. rewrite Hlen. reflexivity.
      * intros i e Hi Hn. apply (ents_in_region_closed h1 ext _ Hin i e); [lia|exact Hn].
      * intros q' Hq'. injection Hq' as <-. lia.
    + rewrite !render_no_obj; [reflexivity| |]; unfold get_obj, hget.
      * replace (nth_error (h2 ++ ext) q) with (@None hent); [reflexivity|].
        symmetry. apply nth_error_None. rewrite app_length. lia.
      * replace (nth_error (h1 ++ ext) q) with (@None hent); [reflexivity|].
        symmetry. apply nth_error_None. rewrite app_length. lia.
Qed.

(* ------------------------------------------------------------------ (d) render (load v) = v *)
Lemma agree_sub lo hi lo' hi' (a b H : heap) :
  agree lo hi (a ++ b) H -> lo <= lo' -> hi' <= hi -> hi' <= length a -> agree lo' hi' a H.
Proof. intros Hag H1 H2 H3 i Hi. rewrite <- (Hag i) by lia. symmetry. apply nth_error_app1. lia. Qed.

Lemma agree_mono lo hi lo' hi' (a H : heap) : agree lo hi a H -> lo <= lo' -> hi' <= hi -> agree lo' hi' a H.
Proof. intros Hag H1 H2 i Hi. apply Hag. lia. Qed.

Definition ld_good (sch : schema) (fu : nat) (ld : ld_t) : Prop :=
  forall h m v, wt_msg sch m v = true -> val_depth v <= fu ->
    exists ext q, ld h m v = (h ++ ext, Some q) /\
      forall H, agree (length h) (length h + length ext) (h ++ ext) H -> render sch fu H (Some q) = v.

Lemma fold_max_le {A} (f : A -> nat) l n :
  fold_right (fun s acc => Nat.max (f s) acc) 0 l <= n -> Forall (fun s => f s <= n) l.
Proof. induction l as [|a l IH]; cbn [fold_right]; intros H; constructor; [lia|apply IH; lia]. Qed.

Lemma load_elem_good sch fu ld : ld_good sch fu ld -> forall h t v,
  wt_elem (wt_msg sch) t v = true -> val_depth v <= fu ->
  exists ext e, load_elem ld h t v = (h ++ ext, e) /\
    forall H, agree (length h) (length h + length ext) (h ++ ext) H -> rel sch fu H e = v.
Proof.
  intros Hld h t v Hwt Hd. destruct t as [k|m].
  - exists [], (EScalar v). rewrite app_nil_r. split; [reflexivity|]. intros H _. reflexivity.
  - cbn [wt_elem] in Hwt.
    destruct v as [z|b|x|l| |p|slots unk|l|kvs]; try (cbn [wt_msg] in Hwt; discriminate Hwt).
    + exists [], (EPtr None). rewrite app_nil_r. split; [reflexivity|]. intros H _. cbn [rel]. apply render_None.
    + destruct (Hld h m _ Hwt Hd) as (ext & q & E & Hr). exists ext, (EPtr (Some q)).
      cbn [load_elem]. rewrite E. split; [reflexivity|]. exact Hr.
Qed.

Lemma load_list_good sch fu ld : ld_good sch fu ld -> forall t l h,
  Forall (fun x => wt_elem (wt_msg sch) t x = true) l -> Forall (fun s => val_depth s <= fu) l ->
  exists ext es, load_list ld h t l = (h ++ ext, es) /\
    forall H, agree (length h) (length h + length ext) (h ++ ext) H -> map (rel sch fu H) es = l.
Proof.
  intros Hld t l. induction l as [|x tl IH]; intros h Hwt Hd.
  - exists [], []. rewrite app_nil_r. split; [reflexivity|]. intros H _. reflexivity.
  - inversion Hwt as [|? ? Hx Htl]; subst. inversion Hd as [|? ? Hdx Hdtl]; subst.
    destruct (load_elem_good sch fu ld Hld h t x Hx Hdx) as (ext1 & e & E1 & R1).
    destruct (IH (h ++ ext1) Htl Hdtl) as (ext2 & es & E2 & R2).
    exists (ext1 ++ ext2), (e :: es). cbn [load_list]. rewrite E1, E2. rewrite app_assoc. split; [reflexivity|].
    intros H Hag. rewrite app_length in Hag. cbn [map]. f_equal.
    + apply R1. apply (agree_sub _ _ _ _ _ ext2 H Hag); rewrite ?app_length; lia.
    + apply R2. eapply agree_mono; [exact Hag| |]; rewrite ?app_length; lia.
Qed.

Lemma load_map_good sch fu ld : ld_good sch fu ld -> forall t (l : list (val * val)) h,
  Forall (fun kv => wt_elem (wt_msg sch) t (snd kv) = true) l -> Forall (fun kv => val_depth (snd kv) <= fu) l ->
  exists ext es, load_map ld h t l = (h ++ ext, es) /\
    forall H, agree (length h) (length h + length ext) (h ++ ext) H ->
      map (fun kv => (fst kv, rel sch fu H (snd kv))) es = l.
Proof.
  intros Hld t l. induction l as [|[k x] tl IH]; intros h Hwt Hd.
  - exists [], []. rewrite app_nil_r. split; [reflexivity|]. intros H _. reflexivity.
  - inversion Hwt as [|? ? Hx Htl]; subst. inversion Hd as [|? ? Hdx Hdtl]; subst. cbn [snd] in Hx, Hdx.
    destruct (load_elem_good sch fu ld Hld h t x Hx Hdx) as (ext1 & e & E1 & R1).
    destruct (IH (h ++ ext1) Htl Hdtl) as (ext2 & es & E2 & R2).
    exists (ext1 ++ ext2), ((k, e) :: es). cbn [load_map]. rewrite E1, E2. rewrite app_assoc. split; [reflexivity|].
    intros H Hag. rewrite app_length in Hag. cbn [map fst snd]. f_equal.
    + f_equal. apply R1. apply (agree_sub _ _ _ _ _ ext2 H Hag); rewrite ?app_length; lia.
    + apply R2. eapply agree_mono; [exact Hag| |]; rewrite ?app_length; lia.
Qed.

Lemma slot_step_good sch fu ld : ld_good sch fu ld -> forall h fd s i ones,
  wt_slot (wt_msg sch) fd s = true -> val_depth s <= fu ->
  exists ext c ones1, slot_step ld h fd s i ones = (h ++ ext, c, ones1) /\
    match f_shape fd with
    | Member j =>
      c = CMember /\
      ((s = VNil /\ ones1 = ones) \/
       (exists p e, s = VSome p /\ ones1 = set_nth ones j (Some (i, e)) /\
          forall H, agree (length h) (length h + length ext) (h ++ ext) H -> rel sch fu H e = p))
    | _ =>
      ones1 = ones /\
      forall H, agree (length h) (length h + length ext) (h ++ ext) H ->
        forall fs ones', nth i fs dflt_field = fd -> rcell sch fu H fs ones' (i, c) = s
    end.
Proof.
  intros Hld h fd s i ones Hwt Hd. unfold slot_step, wt_slot in *.
  destruct (f_shape fd) as [|pk|j|kk] eqn:Es.
  - (* Singular *)
    destruct (f_ty fd) as [k|m] eqn:Et.
    + exists [], (CScalar s), ones. rewrite app_nil_r. split; [reflexivity|]. split; [reflexivity|].
      intros H _ fs ones' _. reflexivity.
    + cbn [wt_elem] in Hwt.
      destruct s as [z|b|x|l| |p|slots unk|l|kvs]; try (cbn [wt_msg] in Hwt; discriminate Hwt).
      * exists [], (CMsg None), ones. rewrite app_nil_r. split; [reflexivity|]. split; [reflexivity|].
        intros H _ fs ones' _. cbn [rcell]. apply render_None.
      * destruct (Hld h m _ Hwt Hd) as (ext & q & E & Hr). exists ext, (CMsg (Some q)), ones.
        rewrite E. split; [reflexivity|]. split; [reflexivity|].
        intros H Hag fs ones' _. cbn [rcell]. apply Hr. exact Hag.
  - (* Rep *)
    destruct s as [z|b|x|l| |p|slots unk|l|kvs]; try discriminate Hwt.
    + exists [], (CList None), ones. rewrite app_nil_r. split; [reflexivity|]. split; [reflexivity|].
      intros H _ fs ones' _. reflexivity.
    + cbn [val_depth] in Hd. apply fold_max_le in Hd.
      assert (Hwl : Forall (fun x => wt_elem (wt_msg sch) (f_ty fd) x = true) l).
      { apply Forall_forall. intros x Hx. rewrite forallb_forall in Hwt. exact (Hwt x Hx). }
      destruct (load_list_good sch fu ld Hld (f_ty fd) l h Hwl Hd) as (ext & es & E & Hr).
      exists ext, (CList (Some es)), ones. rewrite E. split; [reflexivity|]. split; [reflexivity|].
      intros H Hag fs ones' _. cbn [rcell]. f_equal. apply Hr. exact Hag.
  - (* Member *)
    destruct s as [z|b|x|l| |p|slots unk|l|kvs]; try discriminate Hwt.
    + exists [], CMember, ones. rewrite app_nil_r. split; [reflexivity|]. split; [reflexivity|].
      left. split; reflexivity.
    + cbn [val_depth] in Hd.
      destruct (load_elem_good sch fu ld Hld h (f_ty fd) p Hwt Hd) as (ext & e & E & Hr).
      exists ext, CMember, (set_nth ones j (Some (i, e))). rewrite E. split; [reflexivity|]. split; [reflexivity|].
      right. exists p, e. split; [reflexivity|]. split; [reflexivity|]. exact Hr.
  - (* MapOf *)
    destruct s as [z|b|x|l| |p|slots unk|l|kvs]; try discriminate Hwt.
    + exists [], (CMap None), ones. rewrite app_nil_r. split; [reflexivity|]. split; [reflexivity|].
      intros H _ fs ones' _. reflexivity.
    + cbn [val_depth] in Hd. apply (fold_max_le (fun kv : val * val => val_depth (snd kv))) in Hd.
      apply andb_prop in Hwt. destruct Hwt as [Hwt _].
      assert (Hwl : Forall (fun kv : val * val => wt_elem (wt_msg sch) (f_ty fd) (snd kv) = true) kvs).
      { apply Forall_forall. intros x Hx. rewrite forallb_forall in Hwt. specialize (Hwt x Hx).
        apply andb_prop in Hwt. apply Hwt. }
      destruct (load_map_good sch fu ld Hld (f_ty fd) kvs h Hwl Hd) as (ext & es & E & Hr).
      exists ext, (CMap (Some es)), ones. rewrite E. split; [reflexivity|]. split; [reflexivity|].
      intros H Hag fs ones' _. cbn [rcell]. f_equal. apply Hr. exact Hag.
Qed.

(* ---- the oneof slots threaded through load_slots ------------------------------------------------- *)
Lemma slot_step_ones ld h fd s i ones :
  snd (slot_step ld h fd s i ones) =
  match f_shape fd, s with
  | Member j, VSome p => set_nth ones j (Some (i, snd (load_elem ld h (f_ty fd) p)))
  | _, _ => ones
  end.
Proof.
  unfold slot_step. destruct (f_shape fd) as [|pk|j|kk].
  - destruct (f_ty fd) as [k|m]; [reflexivity|].
    destruct s; try reflexivity; match goal with |- context [ld ?a ?b ?c] => destruct (ld a b c) end; reflexivity.
  - destruct s; try reflexivity. destruct (load_list ld h (f_ty fd) l). reflexivity.
  - destruct s; try reflexivity. destruct (load_elem ld h (f_ty fd) s). reflexivity.
  - destruct s; try reflexivity. destruct (load_map ld h (f_ty fd) kvs). reflexivity.
Qed.

Lemma load_slots_ones_length ld : forall fs ss h i ones, length (snd (load_slots ld h fs ss i ones)) = length ones.
Proof.
  induction fs as [|fd ft IH]; intros ss h i ones; [reflexivity|]. destruct ss as [|s st]; [reflexivity|].
  rewrite load_slots_cons. pose proof (slot_step_ones ld h fd s i ones) as Hs.
  destruct (slot_step ld h fd s i ones) as [[h1 c] ones1]. cbn [snd] in Hs.
  specialize (IH st h1 (S i) ones1). destruct (load_slots ld h1 ft st (S i) ones1) as [[h2 cs] ones2]. cbn [snd] in *.
  rewrite IH, Hs. destruct (f_shape fd); try reflexivity. destruct s; try reflexivity. apply set_nth_length.
Qed.

Lemma load_slots_ones_unchanged ld : forall fs ss h i ones j,
  oneof_count fs ss j = 0 -> nth j (snd (load_slots ld h fs ss i ones)) None = nth j ones None.
Proof.
  induction fs as [|fd ft IH]; intros ss h i ones j Hc; [reflexivity|]. destruct ss as [|s st]; [reflexivity|].
  rewrite load_slots_cons. pose proof (slot_step_ones ld h fd s i ones) as Hs.
  destruct (slot_step ld h fd s i ones) as [[h1 c] ones1]. cbn [snd] in Hs.
  cbn [oneof_count] in Hc.
  assert (Hc2 : oneof_count ft st j = 0) by lia.
  specialize (IH st h1 (S i) ones1 j Hc2). destruct (load_slots ld h1 ft st (S i) ones1) as [[h2 cs] ones2].
  cbn [snd] in *. rewrite IH, Hs.
  destruct (f_shape fd) as [|pk|j'|kk]; try reflexivity. destruct s; try reflexivity.
  destruct (Nat.eq_dec j' j) as [Heq|Hne]; [rewrite Heq, Nat.eqb_refl in Hc; lia|]. apply nth_set_nth_neq. exact Hne.
Qed.

Lemma load_slots_ones_origin ld : forall fs ss h i ones j x e,
  nth j (snd (load_slots ld h fs ss i ones)) None = Some (x, e) -> nth j ones None = Some (x, e) \/ i <= x.
Proof.
  induction fs as [|fd ft IH]; intros ss h i ones j x e H; [left; exact H|]. destruct ss as [|s st]; [left; exact H|].
  rewrite load_slots_cons in H. pose proof (slot_step_ones ld h fd s i ones) as Hs.
  destruct (slot_step ld h fd s i ones) as [[h1 c] ones1]. cbn [snd] in Hs.
  specialize (IH st h1 (S i) ones1 j x e). destruct (load_slots ld h1 ft st (S i) ones1) as [[h2 cs] ones2].
  cbn [snd] in *. destruct (IH H) as [H1|H1]; [|right; lia].
  rewrite Hs in H1. destruct (f_shape fd) as [|pk|j'|kk]; try (left; exact H1). destruct s; try (left; exact H1).
  destruct (Nat.eq_dec j' j) as [->|Hne].
  - destruct (Nat.lt_ge_cases j (length ones)) as [Hlt|Hge].
    + rewrite nth_set_nth_eq in H1 by exact Hlt. injection H1 as <- _. right. lia.
    + rewrite nth_overflow in H1 by (rewrite set_nth_length; exact Hge). discriminate H1.
  - rewrite nth_set_nth_neq in H1 by exact Hne. left. exact H1.
Qed.

Lemma load_slots_good sch fu ld fs_all : ld_good sch fu ld ->
  forall fs ss pre h i ones,
    fs_all = pre ++ fs -> length pre = i ->
    wt_slots sch fs ss = true -> Forall (fun s => val_depth s <= fu) ss ->
    (forall f j, In f fs -> f_shape f = Member j -> j < length ones) ->
    (forall j x e, nth j ones None = Some (x, e) -> x < i) ->
    (forall j, j < length ones -> oneof_count fs ss j <= 1) ->
    exists ext cs ones', load_slots ld h fs ss i ones = (h ++ ext, cs, ones') /\
      forall H, agree (length h) (length h + length ext) (h ++ ext) H ->
        map (rcell sch fu H fs_all ones') (combine (seq i (length cs)) cs) = ss.
Proof.
  intros Hld fs. induction fs as [|fd ft IH]; intros ss pre h i ones Hall Hpre Hwt Hd Hmem Hones Hcnt.
  - destruct ss as [|s st]; [|discriminate Hwt].
    exists [], [], ones. rewrite app_nil_r. split; [reflexivity|]. intros H _. reflexivity.
  - destruct ss as [|s st]; [discriminate Hwt|]. cbn [wt_slots] in Hwt. apply andb_prop in Hwt.
    destruct Hwt as [Hws Hwst]. apply Forall_cons_iff in Hd. destruct Hd as [Hds Hdst]. subst i.
    destruct (slot_step_good sch fu ld Hld h fd s (length pre) ones Hws Hds) as (ext1 & c & ones1 & E1 & G1).
    pose proof (slot_step_ones ld h fd s (length pre) ones) as Hs. rewrite E1 in Hs. cbn [snd] in Hs.
    assert (Hlen1 : length ones1 = length ones).
    { rewrite Hs. destruct (f_shape fd); try reflexivity. destruct s; try reflexivity. apply set_nth_length. }
    assert (Hones1 : forall j x e, nth j ones1 None = Some (x, e) -> x < S (length pre)).
    { intros j x e Hn. rewrite Hs in Hn.
      assert (Hold : nth j ones None = Some (x, e) -> x < S (length pre)) by (intros Ho; apply Hones in Ho; lia).
      destruct (f_shape fd) as [|pk|j'|kk]; try (apply Hold; exact Hn). destruct s; try (apply Hold; exact Hn).
      destruct (Nat.eq_dec j' j) as [->|Hne].
      - destruct (Nat.lt_ge_cases j (length ones)) as [Hlt|Hge].
        + rewrite nth_set_nth_eq in Hn by exact Hlt. injection Hn as <- _. lia.
        + rewrite nth_overflow in Hn by (rewrite set_nth_length; exact Hge). discriminate Hn.
      - rewrite nth_set_nth_neq in Hn by exact Hne. apply Hold. exact Hn. }
    destruct (IH st (pre ++ [fd]) (h ++ ext1) (S (length pre)) ones1) as (ext2 & cs & ones2 & E2 & G2).
    + rewrite <- app_assoc. exact Hall.
    + rewrite app_length. cbn [length]. lia.
    + exact Hwst.
    + exact Hdst.
    + intros f j Hf Hj. rewrite Hlen1. apply (Hmem f j); [right; exact Hf|exact Hj].
    + exact Hones1.
    + intros j Hj. rewrite Hlen1 in Hj. specialize (Hcnt j Hj). cbn [oneof_count] in Hcnt. lia.
    + exists (ext1 ++ ext2), (c :: cs), ones2. split.
      * rewrite load_slots_cons, E1, E2, app_assoc. reflexivity.
      * intros H Hag. rewrite app_length in Hag. rewrite app_assoc in Hag.
        assert (Hag1 : agree (length h) (length h + length ext1) (h ++ ext1) H).
        { apply (agree_sub _ _ _ _ _ ext2 H Hag); rewrite ?app_length; lia. }
        assert (Hag2 : agree (length (h ++ ext1)) (length (h ++ ext1) + length ext2) ((h ++ ext1) ++ ext2) H).
        { eapply agree_mono; [exact Hag| |]; rewrite ?app_length; lia. }
        assert (Hfd : nth (length pre) fs_all dflt_field = fd) by (rewrite Hall; apply nth_middle).
        cbn [length seq combine map]. f_equal; [|apply G2; exact Hag2].
        destruct (f_shape fd) as [|pk|j|kk] eqn:Es.
        -- destruct G1 as [_ G1]. apply G1; assumption.
        -- destruct G1 as [_ G1]. apply G1; assumption.
        -- destruct G1 as [-> [[-> ->]|(p & e & -> & -> & Hr)]].
           ++ cbn [rcell]. rewrite Hfd, Es. destruct (nth j ones2 None) as [[f' e']|] eqn:En; [|reflexivity].
              destruct (Nat.eqb_spec f' (length pre)) as [->|Hne]; [|reflexivity]. exfalso.
              pose proof (load_slots_ones_origin ld ft st (h ++ ext1) (S (length pre)) ones j (length pre) e') as Ho.
              rewrite E2 in Ho. cbn [snd] in Ho. destruct (Ho En) as [Ho1|Ho1]; [apply Hones in Ho1; lia|lia].
           ++ cbn [rcell]. rewrite Hfd, Es.
              assert (Hj : j < length ones) by (apply (Hmem fd j); [left; reflexivity|exact Es]).
              assert (Hc0 : oneof_count ft st j = 0).
              { specialize (Hcnt j Hj). cbn [oneof_count] in Hcnt. rewrite Es, Nat.eqb_refl in Hcnt. lia. }
              pose proof (load_slots_ones_unchanged ld ft st (h ++ ext1) (S (length pre))
                            (set_nth ones j (Some (length pre, e))) j Hc0) as Hu.
              rewrite E2 in Hu. cbn [snd] in Hu. rewrite Hu, nth_set_nth_eq by exact Hj.
              rewrite Nat.eqb_refl. f_equal. apply Hr. exact Hag1.
        -- destruct G1 as [_ G1]. apply G1; assumption.
Qed.

Lemma wf_member_lt sch mid md f j :
  wf sch = true -> get_msg sch mid = Some md -> In f (m_fields md) -> f_shape f = Member j -> j < m_oneofs md.
Proof.
  intros Hwf Hg Hf Hs. unfold wf in Hwf. rewrite forallb_forall in Hwf. unfold get_msg in Hg.
  apply nth_error_In in Hg. specialize (Hwf md Hg). unfold msg_wf in Hwf. apply andb_prop in Hwf.
  destruct Hwf as [Hwf _]. rewrite forallb_forall in Hwf. specialize (Hwf f Hf). unfold field_wf in Hwf.
  apply andb_prop in Hwf. destruct Hwf as [_ Hwf]. rewrite Hs in Hwf. apply Nat.ltb_lt. exact Hwf.
Qed.

Lemma load_good sch : wf sch = true -> forall fu, ld_good sch fu (load sch fu).
Proof.
  intros Hwf. induction fu as [|fu IH]; intros h m v Hwt Hd.
  - destruct v; try (cbn [wt_msg] in Hwt; discriminate Hwt). cbn [val_depth] in Hd. lia.
  - destruct v as [z|b|x|l| |p|slots unk|l|kvs]; try (cbn [wt_msg] in Hwt; discriminate Hwt).
    rewrite wt_msg_unfold in Hwt. destruct (get_msg sch m) as [md|] eqn:Hg; [|discriminate Hwt].
    apply andb_prop in Hwt. destruct Hwt as [Hws Hoo].
    cbn [val_depth] in Hd. assert (Hds : Forall (fun s => val_depth s <= fu) slots) by (apply fold_max_le; lia).
    rewrite load_S. unfold fields_of. rewrite Hg.
    destruct (load_slots_good sch fu (load sch fu) (m_fields md) IH (m_fields md) slots []
                (h ++ [HObj (new_obj sch m)]) 0 (repeat None (m_oneofs md))) as (ext1 & cs & ones' & E & G).
    + reflexivity.
    + reflexivity.
    + exact Hws.
    + exact Hds.
    + intros f j Hf Hj. rewrite repeat_length. eapply wf_member_lt; eassumption.
    + intros j x e Hn. rewrite nth_repeat_None in Hn. discriminate Hn.
    + intros j Hj. rewrite repeat_length in Hj. unfold oo_ok in Hoo. rewrite forallb_forall in Hoo.
      apply Nat.leb_le. apply Hoo. apply in_seq. lia.
    + rewrite E. set (o := mkObj m cs ones' (match unk with [] => None | _ => Some unk end)).
      exists (HObj o :: ext1), (length h). split.
      * f_equal. unfold hset. rewrite <- app_assoc. cbn [app].
        replace (length h) with (length h + 0) at 1 by lia. rewrite set_nth_app_r. reflexivity.
      * intros H Hag. cbn [length] in Hag.
        assert (Eo : get_obj H (length h) = Some o).
        { unfold get_obj, hget. rewrite <- (Hag (length h)) by lia. rewrite nth_error_app2 by lia.
          rewrite Nat.sub_diag. reflexivity. }
        rewrite (render_S sch fu H (length h) o Eo). unfold o. cbn [o_mid o_cells o_oneofs o_unk].
        unfold fields_of. rewrite Hg. f_equal.
        -- apply G. intros i Hi. rewrite app_length in Hi. cbn [length] in Hi. rewrite <- (Hag i) by lia.
           rewrite <- app_assoc. rewrite !(nth_error_app2 h) by lia.
           destruct (i - length h) as [|k] eqn:Ek; [lia|]. reflexivity.
        -- destruct unk; reflexivity.
Qed.

Theorem render_load : forall sch, wf sch = true -> forall fuel h mid v,
  wt_msg sch mid v = true -> val_depth v <= fuel ->
  render sch fuel (fst (load sch fuel h mid v)) (snd (load sch fuel h mid v)) = v.
Proof.
  intros sch Hwf fuel h mid v Hwt Hd. destruct (load_good sch Hwf fuel h mid v Hwt Hd) as (ext & q & E & Hr).
  rewrite E. cbn [fst snd]. apply Hr. intros i _. reflexivity.
Qed.

(* the object graph Unmarshal allocates reads as the message the value-level decoder returns *)
Theorem unmarshal_renders_decoded : forall sch, wf sch = true -> forall discard fuel h mid bs v,
  pulsar_unmarshal sch discard mid VNil bs = Ok v -> val_depth v <= fuel ->
  exists r, snd (unmarshal_op sch discard fuel h mid bs) = Ok r /\
            render sch fuel (fst (unmarshal_op sch discard fuel h mid bs)) r = v.
Proof.
  intros sch Hwf discard fuel h mid bs v Hdec Hd.
  assert (Hwt : wt_msg sch mid v = true).
  { unfold pulsar_unmarshal in Hdec. eapply unmarshal_at_wt; [|exact Hdec]. exact I. }
  unfold unmarshal_op. rewrite Hdec. pose proof (render_load sch Hwf fuel h mid v Hwt Hd) as Hr.
  destruct (load sch fuel h mid v) as [h' r]. cbn [fst snd] in *. exists r. split; [reflexivity|exact Hr].
Qed.

(* ------------------------------------------------------------------ (a), (f) read-only calls *)
Theorem size_frame : forall sch fuel h mid p, fst (size_op sch fuel h mid p) = h.
Proof. reflexivity. Qed.

Theorem marshal_frame : forall sch det fuel h mid p, fst (marshal_op sch det fuel h mid p) = h.
Proof. reflexivity. Qed.

Theorem readonly_calls_preserve_messages : forall sch det fuel h mid p rfuel q,
  render sch rfuel (fst (size_op sch fuel h mid p)) q = render sch rfuel h q /\
  render sch rfuel (fst (marshal_op sch det fuel h mid p)) q = render sch rfuel h q.
Proof. intros. split; reflexivity. Qed.

Theorem marshal_result_independent : forall sch det fuel h mid p,
  (forall h' p', render sch fuel h' p' = render sch fuel h p ->
                 snd (marshal_op sch det fuel h' mid p') = snd (marshal_op sch det fuel h mid p)) /\
  (forall e, In e (fst (marshal_op sch det fuel h mid p)) -> In e h) /\
  (forall o, step sch (fst (marshal_op sch det fuel h mid p)) o = step sch h o).
Proof.
  intros sch det fuel h mid p. split; [|split].
  - intros h' p' Hr. unfold marshal_op. cbn [snd]. rewrite Hr. reflexivity.
  - intros e He. exact He.
  - intros o. reflexivity.
Qed.

Theorem size_result_independent : forall sch fuel h mid p h' p',
  render sch fuel h' p' = render sch fuel h p -> snd (size_op sch fuel h' mid p') = snd (size_op sch fuel h mid p).
Proof. intros sch fuel h mid p h' p' Hr. unfold size_op. cbn [snd]. rewrite Hr. reflexivity. Qed.
