(* Proofs/GenTemplates2Proofs.v — every per-field template is defined and prints balanced braces on every admissible
   (kind, shape, oneof) combination: finite sweeps lifted to universal statements. *)
From CP Require Import Bytes Schema GenTemplates GenTemplates2 GenTemplatesProofs.
Local Open Scope N_scope.

Definition combo_ok2 (t : tmpl) (fk : fkind) (s : fshape) (o : bool) : bool :=
  if valid_combo2 fk s o then match field_toks t fk s o with Some l => balanced l | None => false end else true.

Definition sweep_of (t : tmpl) : bool :=
  forallb (fun fk => forallb (fun s => combo_ok2 t fk s true && combo_ok2 t fk s false) all_shapes) all_fkinds.

Lemma sweep_all : forallb sweep_of all_tmpls = true.
Proof. vm_compute. reflexivity. Qed.

Lemma all_tmpls_complete : forall t, In t all_tmpls.
Proof. destruct t; simpl; auto 12. Qed.

Lemma templates_total2 : forall t fk s o, valid_combo2 fk s o = true ->
  exists toks, field_toks t fk s o = Some toks /\ balanced toks = true.
Proof.
  intros t fk s o V. pose proof sweep_all as H. rewrite forallb_forall in H.
  specialize (H t (all_tmpls_complete t)). unfold sweep_of in H. rewrite forallb_forall in H.
  specialize (H fk (all_fkinds_complete fk)). rewrite forallb_forall in H.
  specialize (H s (all_shapes_complete s)). apply andb_true_iff in H. destruct H as [Ht Hf].
  assert (C : combo_ok2 t fk s o = true) by (destruct o; assumption).
  unfold combo_ok2 in C. rewrite V in C. destruct (field_toks t fk s o) as [l|]; try discriminate. eauto.
Qed.

(* groups are refused by every template *)
Lemma group_refused2 : forall t s o, field_toks t FGroup s o = None.
Proof. intros. reflexivity. Qed.
