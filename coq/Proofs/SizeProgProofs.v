(* Proofs/SizeProgProofs.v — the canonical size program (Model/SizeProg.v: canon_size) computes Codec.msg_size
   on every well-typed value of every well-formed schema (task T2). *)
From Coq Require Import List NArith ZArith Bool Lia ZifyN ZifyNat ZifyBool.
From CP Require Import SizeProg CodecSize RoundTrip.
Import ListNotations.
Local Open Scope N_scope.

(* ------------------------------------------------------------------ the interpreter, unfolded *)
Section Exec.
  Variable sch : schema.
  Variable fs : list field.
  Variable slots : list val.
  Variable unk : list byte.

  Notation run' := (run sch fs slots unk).
  Notation exec' := (exec sch fs slots unk).
  Notation eval' := (eval sch fs slots unk).
  Notation eval_ref' := (eval_ref fs slots).
  Notation eval_cond' := (eval_cond fs slots unk).

  Lemma blk_run : forall b en st,
    (fix blk (b : list stmt) (en : env) (st : state) {struct b} : option state :=
        match b with
        | [] => Some st
        | s' :: b' => match exec' s' en st with Some st' => blk b' en st' | None => None end
        end) b en st = run' b en st.
  Proof.
    induction b as [|s b IH]; intros en st; cbn [run]; [reflexivity|].
    destruct (exec' s en st); [apply IH | reflexivity].
  Qed.

  Definition block (body : list stmt) (en : env) (st : state) : option state :=
    option_map (unwind body) (run' body en st).

  Fixpoint for_iter (x : lvar) (t : ftype) (body : list stmt) (en : env) (vs : list val) (st : state) : option state :=
    match vs with
    | [] => Some st
    | e :: vs' =>
      match block body (env_bind x (rty_of t, e) en) st with
      | Some st' => for_iter x t body en vs' st'
      | None => None
      end
    end.

  Fixpoint map_iter (kk : kind) (t : ftype) (body : list stmt) (en : env) (kvs : list (val * val)) (st : state) : option state :=
    match kvs with
    | [] => Some st
    | kv :: kvs' =>
      match block body (env_bind VV (rty_of t, snd kv) (env_bind VK (RTScalar kk, fst kv) en)) st with
      | Some st' => map_iter kk t body en kvs' st'
      | None => None
      end
    end.

  Fixpoint switch_find (o : nat) (en : env) (st : state) (cs : list (nat * list stmt)) : option state :=
    match cs with
    | [] => Some st
    | (j, body) :: cs' =>
      match nth_error fs j, nth_error slots j with
      | Some f, Some sl =>
        match f_shape f with
        | Member o' =>
          if Nat.eqb o' o then
            match sl with
            | VSome _ => block body (env_case j en) st
            | _ => switch_find o en st cs'
            end
          else None
        | _ => None
        end
      | _, _ => None
      end
    end.

  Lemma run_nil en st : run' [] en st = Some st.
  Proof. reflexivity. Qed.
  Lemma run_cons s b en st :
    run' (s :: b) en st = match exec' s en st with Some st' => run' b en st' | None => None end.
  Proof. reflexivity. Qed.
  Lemma run_app a b en st :
    run' (a ++ b) en st = match run' a en st with Some st' => run' b en st' | None => None end.
  Proof.
    revert st. induction a as [|s a IH]; intro st; cbn [app run]; [reflexivity|].
    destruct (exec' s en st); [apply IH | reflexivity].
  Qed.

  Lemma exec_SSet v e en st :
    exec' (SSet v e) en st = match eval' e en st with Some x => st_set v x st | None => None end.
  Proof. reflexivity. Qed.
  Lemma exec_SDecl v e en st :
    exec' (SDecl v e) en st = match eval' e en st with Some x => Some (st_push v x st) | None => None end.
  Proof. reflexivity. Qed.
  Lemma exec_SAdd v e en st :
    exec' (SAdd v e) en st =
    match eval' e en st, st_get v st with Some x, Some y => st_set v (y + x) st | _, _ => None end.
  Proof. reflexivity. Qed.
  Lemma exec_SIf c body en st :
    exec' (SIf c body) en st =
    match eval_cond' c en st with
    | Some true => block body en st
    | Some false => Some st
    | None => None
    end.
  Proof.
    reflexivity.
  Qed.
  Lemma exec_SFor x r body en st :
    exec' (SFor x r body) en st =
    match eval_ref' r en with
    | Some (RTList t, v) => for_iter x t body en (list_of v) st
    | _ => None
    end.
  Proof.
    cbn [exec]. destruct (eval_ref' r en) as [[[k|m|t|kk t] v]|]; try reflexivity.
    generalize (list_of v) as vs. intro vs. revert st.
    induction vs as [|e vs IH]; intro st; cbn [for_iter]; [reflexivity|].
    unfold block at 1. rewrite blk_run.
    destruct (option_map (unwind body) (run' body (env_bind x (rty_of t, e) en) st)); [apply IH | reflexivity].
  Qed.
  Lemma exec_SMapFn i body en st :
    exec' (SMapFn i body) en st =
    match eval_ref' (RF i) en with
    | Some (RTMap kk t, v) => map_iter kk t body en (entries_of v) st
    | _ => None
    end.
  Proof.
    cbn [exec]. destruct (eval_ref' (RF i) en) as [[[k|m|t|kk t] v]|]; try reflexivity.
    generalize (entries_of v) as vs. intro vs. revert st.
    induction vs as [|e vs IH]; intro st; cbn [map_iter]; [reflexivity|].
    unfold block at 1. rewrite blk_run.
    destruct (option_map (unwind body) (run' body _ st)); [apply IH | reflexivity].
  Qed.
  Lemma exec_SSwitch o cases en st :
    exec' (SSwitch o cases) en st =
    match e_case en with Some _ => None | None => switch_find o en st cases end.
  Proof.
    cbn [exec]. destruct (e_case en); [reflexivity|].
    induction cases as [|[j body] cs IH]; cbn [switch_find]; [reflexivity|].
    destruct (nth_error fs j) as [f|]; [|reflexivity].
    destruct (nth_error slots j) as [sl|]; [|reflexivity].
    destruct (f_shape f); try reflexivity.
    destruct (Nat.eqb oneof o); [|reflexivity].
    destruct sl; try apply IH.
    unfold block. rewrite blk_run. reflexivity.
  Qed.

  Lemma eval_ref_top i f s :
    nth_error fs i = Some f -> nth_error slots i = Some s ->
    eval_ref' (RF i) env_init =
    match f_shape f with
    | Singular => Some (rty_of (f_ty f), s)
    | Rep _ => Some (RTList (f_ty f), s)
    | MapOf kk => Some (RTMap kk (f_ty f), s)
    | Member _ => None
    end.
  Proof. intros Hf Hs. cbn [eval_ref]. rewrite Hf, Hs. cbn [e_case env_init]. destruct (f_shape f); reflexivity. Qed.

  Lemma eval_ref_case j f o p :
    nth_error fs j = Some f -> nth_error slots j = Some (VSome p) -> f_shape f = Member o ->
    eval_ref' (RF j) (env_case j env_init) = Some (rty_of (f_ty f), p).
  Proof. intros Hf Hs Hsh. cbn [eval_ref]. rewrite Hf, Hs, Hsh. cbn [e_case env_case]. rewrite Nat.eqb_refl. reflexivity. Qed.

  Lemma eval_ref_bind x tv en : eval_ref' (RV x) (env_bind x tv en) = Some tv.
  Proof. cbn. destruct x; reflexivity. Qed.
  Lemma eval_ref_bind_k tv tk en : eval_ref' (RV VK) (env_bind VV tv (env_bind VK tk en)) = Some tk.
  Proof. reflexivity. Qed.
  Lemma eval_ref_bind_v tv tk en : eval_ref' (RV VV) (env_bind VV tv (env_bind VK tk en)) = Some tv.
  Proof. reflexivity. Qed.
End Exec.

(* ------------------------------------------------------------------ scalar facts *)
Lemma i32_cast_ok k p :
  match k with KInt32 | KSint32 | KSfixed32 | KEnum => True | _ => False end ->
  wt_scalar k p = true -> as_i32_u64 p = as_u64 p.
Proof.
  intros Hk Hwt. unfold as_i32_u64, as_u64, wrap32.
  destruct k; try contradiction; destruct p; cbn [wt_scalar] in Hwt; try discriminate;
    cbn [as_z]; rewrite s32_z2u32; try reflexivity; unfold in_range_z in Hwt; lia.
Qed.

Lemma nsum_const {A} (c : N) (l : list A) : nsum (map (fun _ => c) l) = N.of_nat (length l) * c.
Proof. induction l as [|x l IH]; cbn [map length]; [cbn; lia|]. rewrite nsum_cons, IH. lia. Qed.
Lemma nsum_map_ext {A} (g h : A -> N) (l : list A) :
  (forall x, In x l -> g x = h x) -> nsum (map g l) = nsum (map h l).
Proof. intro H. f_equal. apply map_ext_in. exact H. Qed.

Definition ST (a l : N) : state := {| s_n := [a]; s_l := [l]; s_e := [] |}.
Lemma ST_eq a a' l : a = a' -> ST a l = ST a' l.
Proof. intros ->. reflexivity. Qed.

Section Fields.
  Variable sch : schema.
  Variable fs : list field.
  Variable slots : list val.
  Variable unk : list byte.

  Notation run' := (run sch fs slots unk).
  Notation exec' := (exec sch fs slots unk).
  Notation eval' := (eval sch fs slots unk).
  Notation eval_ref' := (eval_ref fs slots).
  Notation eval_cond' := (eval_cond fs slots unk).
  Notation block' := (block sch fs slots unk).
  Notation for_iter' := (for_iter sch fs slots unk).
  Notation map_iter' := (map_iter sch fs slots unk).

  (* from any top-level state with n = a, [code] ends in a top-level state with n = a + X *)
  Definition adds (code : list stmt) (en : env) (X : N) : Prop :=
    forall a l, exists l', run' code en (ST a l) = Some (ST (a + X) l').
  Definition badds (code : list stmt) (en : env) (X : N) : Prop :=
    forall a l, exists l', block' code en (ST a l) = Some (ST (a + X) l').

  Lemma adds_app c1 c2 en X1 X2 : adds c1 en X1 -> adds c2 en X2 -> adds (c1 ++ c2) en (X1 + X2).
  Proof.
    intros H1 H2 a l. destruct (H1 a l) as [l1 E1]. destruct (H2 (a + X1) l1) as [l2 E2].
    exists l2. rewrite run_app, E1, E2. f_equal. apply ST_eq. lia.
  Qed.
  Lemma adds_nil en : adds [] en 0.
  Proof. intros a l. exists l. cbn [run]. f_equal. apply ST_eq. lia. Qed.
  Lemma adds_ext c en X Y : X = Y -> adds c en X -> adds c en Y.
  Proof. intros ->. auto. Qed.

  Lemma for_iter_adds x t body en vs g :
    (forall e, In e vs -> badds body (env_bind x (rty_of t, e) en) (g e)) ->
    forall a l, exists l', for_iter' x t body en vs (ST a l) = Some (ST (a + nsum (map g vs)) l').
  Proof.
    induction vs as [|e vs IH]; intros H a l; cbn [for_iter map].
    - exists l. f_equal. apply ST_eq. cbn. lia.
    - destruct (H e (or_introl eq_refl) a l) as [l1 E1]. rewrite E1.
      destruct (IH (fun e' He' => H e' (or_intror He')) (a + g e) l1) as [l2 E2].
      exists l2. rewrite E2. f_equal. apply ST_eq. rewrite nsum_cons. lia.
  Qed.

  Lemma for_iter_accl x t body en vs g :
    (forall e, In e vs -> forall a l, block' body (env_bind x (rty_of t, e) en) (ST a l) = Some (ST a (l + g e))) ->
    forall a l, for_iter' x t body en vs (ST a l) = Some (ST a (l + nsum (map g vs))).
  Proof.
    induction vs as [|e vs IH]; intros H a l; cbn [for_iter map].
    - f_equal. f_equal. cbn. lia.
    - rewrite (H e (or_introl eq_refl) a l).
      rewrite (IH (fun e' He' => H e' (or_intror He'))). f_equal. f_equal. rewrite nsum_cons. lia.
  Qed.

  Lemma map_iter_adds kk t body en kvs g :
    (forall kv, In kv kvs ->
       badds body (env_bind VV (rty_of t, snd kv) (env_bind VK (RTScalar kk, fst kv) en)) (g kv)) ->
    forall a l, exists l', map_iter' kk t body en kvs (ST a l) = Some (ST (a + nsum (map g kvs)) l').
  Proof.
    induction kvs as [|e vs IH]; intros H a l; cbn [map_iter map].
    - exists l. f_equal. apply ST_eq. cbn. lia.
    - destruct (H e (or_introl eq_refl) a l) as [l1 E1]. rewrite E1.
      destruct (IH (fun e' He' => H e' (or_intror He')) (a + g e) l1) as [l2 E2].
      exists l2. rewrite E2. f_equal. apply ST_eq. rewrite nsum_cons. lia.
  Qed.

  Lemma msg_size_nil m : msg_size sch m VNil = 0.
  Proof. reflexivity. Qed.

  Local Opaque key_size Sov Soz msg_size N.add N.mul.

  Lemma ST_intro X Y l : X = Y -> Some {| s_n := [X]; s_l := [l]; s_e := [] |} = Some (ST Y l).
  Proof. intros ->. reflexivity. Qed.

  Lemma entry_eq a E' E fk : E' = E -> a + (E' + fk + Sov E') = a + (E + fk + Sov E).
  Proof. intros ->. reflexivity. Qed.

  (* the SiZeMaP closure body: straight-line code, run by computation (eval_ref still transparent here) *)
  Lemma map_body_badds f kk en k v :
    wt_scalar kk k = true -> wt_elem (wt_msg sch) (f_ty f) v = true ->
    badds (canon_map_body f kk) (env_bind VV (rty_of (f_ty f), v) (env_bind VK (RTScalar kk, k) en))
      (key_size 1 (kind_wt kk) + scalar_size kk k + (key_size 2 (ftype_wt (f_ty f)) + size_elem (msg_size sch) (f_ty f) v)
       + key_size (f_num f) WT_BYTES
       + Sov (key_size 1 (kind_wt kk) + scalar_size kk k + (key_size 2 (ftype_wt (f_ty f)) + size_elem (msg_size sch) (f_ty f) v))).
  Proof.
    destruct f as [num t sh]. cbn [f_ty f_num]. intros Hk Hv a l.
    unfold block, canon_map_body. cbn [f_ty f_num].
    destruct kk; (destruct t as [vk|m]; [destruct vk | destruct v]);
      cbn [run exec eval eval_cond obindN option_map eval_len eval_cast eval_size eval_ref sp_lookup lvar_eqb
           e_vars env_bind rty_of st_get st_set st_push st_pop st_stack st_with hd_error tl ST s_n s_l s_e
           xadd3 unwind SizeProg.is_nil negb app xsum];
      eexists; apply ST_intro; apply entry_eq;
      cbn [size_elem scalar_size ftype_wt kind_wt]; rewrite ?msg_size_nil;
      try rewrite (i32_cast_ok KInt32 k I Hk); try rewrite (i32_cast_ok KEnum k I Hk);
      try rewrite (i32_cast_ok KInt32 v I Hv); try rewrite (i32_cast_ok KEnum v I Hv);
      first [reflexivity | rewrite <- ?N.add_assoc; reflexivity | lia].
  Qed.

  Local Opaque eval_ref.

  Ltac foldST :=
    repeat match goal with
           | |- context [{| s_n := [?a]; s_l := [?l]; s_e := [] |}] =>
             change {| s_n := [a]; s_l := [l]; s_e := [] |} with (ST a l)
           end.

  Ltac sx :=
    repeat (rewrite ?run_cons, ?run_nil, ?exec_SSet, ?exec_SAdd, ?exec_SDecl, ?exec_SIf,
              ?eval_ref_bind, ?eval_ref_bind_k, ?eval_ref_bind_v;
            unfold block, add_len_l, xadd3, guard;
            cbn [eval eval_cond obindN option_map eval_len eval_cast eval_size rty_of
                 st_get st_set st_push st_pop st_stack st_with hd_error tl ST s_n s_l s_e
                 add_len_l xadd3 block unwind guard SizeProg.is_nil negb SizeProg.list_of SizeProg.entries_of]).

  Ltac fin := eexists; apply ST_intro;
              cbn [size_field size_elem scalar_size fixed_width ftype_wt kind_wt f_ty f_num f_shape present];
              try lia.

  (* a singular field without presence test: the payload of a oneof wrapper *)
  Lemma member_adds i f en p :
    eval_ref' (RF i) en = Some (rty_of (f_ty f), p) ->
    match f_shape f with Singular | Member _ => True | _ => False end ->
    wt_elem (wt_msg sch) (f_ty f) p = true ->
    adds (canon_inner i f true) en (key_size (f_num f) (ftype_wt (f_ty f)) + size_elem (msg_size sch) (f_ty f) p)
    /\ forall st, unwind (canon_inner i f true) st = st.
  Proof.
    destruct f as [num t sh]. cbn [f_ty f_shape f_num]. intros Hr Hsh Hwt.
    assert (Hpk : match sh with Rep true => true | _ => false end = false)
      by (destruct sh; try contradiction; reflexivity).
    assert (Hrp : match sh with Rep _ | MapOf _ => true | _ => false end = false)
      by (destruct sh; try contradiction; reflexivity).
    unfold canon_inner. cbn [f_ty f_shape f_num]. rewrite Hpk, Hrp. clear Hpk Hrp Hsh.
    split.
    - intros a l.
      destruct t as [k|m]; [destruct k|]; cbn [rty_of] in Hr; sx; rewrite ?Hr; sx; fin.
      + rewrite (i32_cast_ok KInt32 p I Hwt). reflexivity.
      + rewrite (i32_cast_ok KEnum p I Hwt). reflexivity.
    - intro st. destruct t as [k|m]; [destruct k|]; reflexivity.
  Qed.

  Lemma singular_adds i f en p :
    eval_ref' (RF i) en = Some (rty_of (f_ty f), p) ->
    f_shape f = Singular ->
    wt_elem (wt_msg sch) (f_ty f) p = true ->
    adds (canon_field i f false) en (size_field (msg_size sch) f p).
  Proof.
    destruct f as [num t sh]. cbn [f_ty f_shape f_num]. intros Hr -> Hwt a l.
    unfold canon_field, canon_inner. cbn [f_ty f_shape f_num].
    destruct t as [k|m]; [destruct k|destruct p]; cbn [rty_of] in Hr; sx; rewrite ?Hr; sx;
      cbn [size_field present f_ty f_num f_shape].
    all: try (destruct (N.ltb_spec 0 (blen p)); destruct (N.eqb_spec (blen p) 0); try lia; sx; fin).
    all: try (match goal with |- context [if negb ?b then _ else _] => destruct b
                            | |- context [if ?b then _ else _] => destruct b end; sx; fin).
    all: try fin.
    - rewrite (i32_cast_ok KInt32 p I Hwt). reflexivity.
    - rewrite (i32_cast_ok KEnum p I Hwt). reflexivity.
  Qed.

  Ltac loop_adds Hr g :=
    rewrite exec_SFor, Hr; cbn [SizeProg.list_of]; foldST;
    match goal with
    | |- context [for_iter _ _ _ _ ?x ?t ?body ?en ?vs (ST ?a ?l)] =>
      let H := fresh "Hbody" in
      assert (H : forall e0, In e0 vs -> badds body (env_bind x (rty_of t, e0) en) (g e0));
      [ | let l' := fresh "l'" in let E := fresh "E" in
          destruct (for_iter_adds x t body en vs g H a l) as [l' E]; rewrite E; clear E H ]
    end.
  Ltac loop_accl Hr g :=
    rewrite exec_SFor, Hr; cbn [SizeProg.list_of]; foldST;
    match goal with
    | |- context [for_iter _ _ _ _ ?x ?t ?body ?en ?vs (ST ?a ?l)] =>
      let H := fresh "Hbody" in
      assert (H : forall e0, In e0 vs -> forall a0 l0,
                   block' body (env_bind x (rty_of t, e0) en) (ST a0 l0) = Some (ST a0 (l0 + g e0)));
      [ | rewrite (for_iter_accl x t body en vs g H a l); clear H ]
    end.

  Lemma rep_inner_adds i f en vs pk :
    eval_ref' (RF i) en = Some (RTList (f_ty f), VList vs) ->
    f_shape f = Rep pk ->
    match f_ty f with TScalar k => implb pk (packable k) | TMsg _ => negb pk end = true ->
    forallb (wt_elem (wt_msg sch) (f_ty f)) vs = true ->
    adds (canon_inner i f false) en
      (if pk
       then key_size (f_num f) WT_BYTES + Sov (nsum (map (fun x => size_elem (msg_size sch) (f_ty f) x) vs))
            + nsum (map (fun x => size_elem (msg_size sch) (f_ty f) x) vs)
       else nsum (map (fun x => key_size (f_num f) (ftype_wt (f_ty f)) + size_elem (msg_size sch) (f_ty f) x) vs)).
  Proof.
    destruct f as [num t sh]. cbn [f_ty f_shape f_num]. intros Hr -> Hwf Hwt a l.
    rewrite forallb_forall in Hwt.
    unfold canon_inner. cbn [f_ty f_shape f_num].
    destruct pk; (destruct t as [k|m]; [destruct k|]); cbn [implb packable negb] in Hwf; try discriminate Hwf;
      cbn [size_elem scalar_size ftype_wt kind_wt fixed_width]; rewrite ?nsum_const; sx; rewrite ?Hr; sx.
    all: try (fin; fail).
    all: rewrite ?N.mul_1_r; try (fin; fail).
    all: try (match goal with |- context [Sov (nsum (map ?g _))] => loop_accl Hr g end;
              [ intros e He a' l0; sx;
                try rewrite (i32_cast_ok KInt32 e I (Hwt e He)); try rewrite (i32_cast_ok KEnum e I (Hwt e He));
                reflexivity
              | sx; rewrite ?N.add_0_l; fin ]).
    all: try (match goal with |- context [nsum (map ?g _)] => loop_adds Hr g end;
              [ intros e He a' l0; sx;
                try rewrite (i32_cast_ok KInt32 e I (Hwt e He)); try rewrite (i32_cast_ok KEnum e I (Hwt e He));
                fin
              | sx; fin ]).
  Qed.

  Lemma unwind_inner i f o st : unwind (canon_inner i f o) st = st.
  Proof.
    destruct f as [num t sh]. unfold canon_inner. cbn [f_ty f_shape f_num].
    destruct t as [k|m]; [destruct k|]; destruct sh as [|[|]|?|?]; destruct o; reflexivity.
  Qed.

  Lemma rep_adds i f en s pk :
    eval_ref' (RF i) en = Some (RTList (f_ty f), s) ->
    f_shape f = Rep pk ->
    match f_ty f with TScalar k => implb pk (packable k) | TMsg _ => negb pk end = true ->
    wt_slot (wt_msg sch) f s = true ->
    adds (canon_field i f false) en (size_field (msg_size sch) f s).
  Proof.
    intros Hr Hsh Hwf Hwt a l. unfold wt_slot in Hwt. unfold canon_field, size_field. rewrite Hsh in *.
    destruct s as [| | | | | | |vs|]; try discriminate Hwt; [|destruct vs as [|e vs]].
    - sx. rewrite Hr. sx. cbn [length N.of_nat N.ltb N.compare]. sx. fin.
    - sx. rewrite Hr. sx. cbn [length N.of_nat N.ltb N.compare]. sx. fin.
    - sx. rewrite Hr. sx. cbn [length N.of_nat N.ltb N.compare]. sx.
      destruct (rep_inner_adds i f en (e :: vs) pk Hr Hsh Hwf Hwt a l) as [l' E].
      rewrite E. cbn [option_map]. rewrite unwind_inner. sx. exists l'. reflexivity.
  Qed.

  Lemma map_adds i f en s kk :
    eval_ref' (RF i) en = Some (RTMap kk (f_ty f), s) ->
    f_shape f = MapOf kk ->
    wt_slot (wt_msg sch) f s = true ->
    adds (canon_field i f false) en (size_field (msg_size sch) f s).
  Proof.
    intros Hr Hsh Hwt a l. unfold wt_slot in Hwt. unfold canon_field, size_field. rewrite Hsh in *.
    destruct s as [| | | | | | | |kvs]; try discriminate Hwt; [|destruct kvs as [|kv kvs]].
    - sx. rewrite Hr. sx. cbn [length N.of_nat N.ltb N.compare]. sx. fin.
    - sx. rewrite Hr. sx. cbn [length N.of_nat N.ltb N.compare]. sx. cbn [map]. change (nsum []) with 0. fin.
    - sx. rewrite Hr. sx. cbn [length N.of_nat N.ltb N.compare]. sx.
      rewrite exec_SMapFn, Hr. cbn [SizeProg.entries_of]. foldST.
      apply andb_prop in Hwt. destruct Hwt as [Hwt _]. rewrite forallb_forall in Hwt.
      match goal with |- context [nsum (map ?g _)] =>
        destruct (map_iter_adds kk (f_ty f) (canon_map_body f kk) en (kv :: kvs) g) with (a := a) (l := l) as [l' E]
      end.
      + intros kv' Hin. specialize (Hwt kv' Hin). apply andb_prop in Hwt. destruct Hwt as [Hk Hv].
        exact (map_body_badds f kk en (fst kv') (snd kv') Hk Hv).
      + rewrite E. sx. exists l'. reflexivity.
  Qed.

  Lemma tail_adds : adds canon_tail env_init (N.of_nat (length unk)).
  Proof.
    intros a l. unfold canon_tail. sx. destruct unk as [|b u]; cbn [length Nat.eqb negb]; sx; fin.
  Qed.
End Fields.

(* ------------------------------------------------------------------ list facts *)
Lemma firstn_S_nth {A} (l : list A) : forall p x, nth_error l p = Some x -> firstn (S p) l = firstn p l ++ [x].
Proof.
  induction l as [|y l IH]; intros [|p] x H; cbn in H; try discriminate.
  - injection H as ->. reflexivity.
  - cbn [firstn app]. f_equal. change (firstn (S p) l = firstn p l ++ [x]). apply IH. exact H.
Qed.
Lemma sp_indexed_nth {A} (l : list A) : forall k p x,
  nth_error l p = Some x -> nth_error (sp_indexed k l) p = Some ((k + p)%nat, x).
Proof.
  induction l as [|y l IH]; intros k [|p] x H; cbn in H; try discriminate.
  - injection H as ->. cbn. rewrite Nat.add_0_r. reflexivity.
  - cbn [sp_indexed nth_error]. rewrite (IH (S k) p x H). f_equal. f_equal. lia.
Qed.
Lemma nth_error_combine {A B} (l : list A) : forall (l' : list B) p x y,
  nth_error l p = Some x -> nth_error l' p = Some y -> nth_error (combine l l') p = Some (x, y).
Proof.
  induction l as [|a l IH]; intros [|b l'] [|p] x y H H'; cbn in H, H'; try discriminate.
  - injection H as ->. injection H' as ->. reflexivity.
  - cbn [combine nth_error]. apply IH; assumption.
Qed.
Lemma Forall2_nth {A B} (R : A -> B -> Prop) l l' : Forall2 R l l' ->
  forall p x, nth_error l p = Some x -> exists y, nth_error l' p = Some y /\ R x y.
Proof.
  induction 1 as [|a b l l' Hab HF IH]; intros [|p] x H; cbn in H; try discriminate.
  - injection H as ->. exists b. split; [reflexivity | exact Hab].
  - apply IH. exact H.
Qed.
Lemma nsum_zero {A} (g : A -> N) l : (forall x, In x l -> g x = 0) -> nsum (map g l) = 0.
Proof.
  induction l as [|x l IH]; intro H; [reflexivity|]. cbn [map]. rewrite nsum_cons, IH, (H x); [reflexivity | left; reflexivity | ].
  intros y Hy. apply H. right. exact Hy.
Qed.
Lemma nsum_map_add {A} (h g k : A -> N) l :
  (forall x, In x l -> h x = g x + k x) -> nsum (map h l) = nsum (map g l) + nsum (map k l).
Proof.
  induction l as [|x l IH]; intro H; [reflexivity|]. cbn [map]. rewrite !nsum_cons, IH, (H x); [lia | left; reflexivity | ].
  intros y Hy. apply H. right. exact Hy.
Qed.

(* ------------------------------------------------------------------ the oneof switch and the field loop *)
Section Top.
  Variable sch : schema.
  Variable fs : list field.
  Variable slots : list val.
  Variable unk : list byte.

  Notation switch_find' := (switch_find sch fs slots unk).
  Notation adds' := (adds sch fs slots unk).
  Notation WT := (fun f s => wt_slot (wt_msg sch) f s = true).

  Definition sf : field -> val -> N := size_field (msg_size sch).
  Definition mw (o : nat) (q : field * val) : N := if member_of o (fst q) then sf (fst q) (snd q) else 0.

  Lemma sf_member_nil f o : f_shape f = Member o -> sf f VNil = 0.
  Proof. intro H. unfold sf, size_field. rewrite H. reflexivity. Qed.
  Lemma sf_member_some f o p : f_shape f = Member o ->
    sf f (VSome p) = key_size (f_num f) (ftype_wt (f_ty f)) + size_elem (msg_size sch) (f_ty f) p.
  Proof. intro H. unfold sf, size_field. rewrite H. reflexivity. Qed.

  Lemma count0_sum o suf ssuf :
    Forall2 WT suf ssuf -> oneof_count suf ssuf o = 0%nat -> nsum (map (mw o) (combine suf ssuf)) = 0.
  Proof.
    induction 1 as [|f s suf ssuf Hw HF IH]; intro Hc; [reflexivity|].
    cbn [combine map]. rewrite nsum_cons. cbn [oneof_count] in Hc.
    rewrite IH by lia. unfold mw; cbn [fst snd]. unfold member_of. unfold wt_slot in Hw.
    destruct (f_shape f) as [| |o'|] eqn:Hsh; try lia.
    destruct (Nat.eqb o o') eqn:He; try lia.
    apply Nat.eqb_eq in He; subst o'.
    destruct s; try discriminate Hw.
    - rewrite (sf_member_nil f o Hsh). lia.
    - rewrite Nat.eqb_refl in Hc. lia.
  Qed.

  Lemma switch_adds_gen o : forall suf ssuf, Forall2 WT suf ssuf -> forall pre spre,
    fs = pre ++ suf -> slots = spre ++ ssuf -> length pre = length spre ->
    (oneof_count suf ssuf o <= 1)%nat ->
    forall a l, exists l',
      switch_find' o env_init (ST a l)
        (map (fun jf => (fst jf, canon_field (fst jf) (snd jf) true))
             (filter (fun jf => member_of o (snd jf)) (sp_indexed (length pre) suf)))
      = Some (ST (a + nsum (map (mw o) (combine suf ssuf))) l').
  Proof.
    induction 1 as [|f s suf ssuf Hw HF IH]; intros pre spre Hfs Hss Hlen Hc a l.
    - exists l. cbn [sp_indexed filter map switch_find combine]. f_equal. apply ST_eq. change (nsum []) with 0. lia.
    - assert (Hnf : nth_error fs (length pre) = Some f)
        by (rewrite Hfs, nth_error_app2, Nat.sub_diag by lia; reflexivity).
      assert (Hns : nth_error slots (length pre) = Some s)
        by (rewrite Hss, Hlen, nth_error_app2, Nat.sub_diag by lia; reflexivity).
      assert (IH' := IH (pre ++ [f]) (spre ++ [s])).
      rewrite !app_length in IH'. cbn [length] in IH'. rewrite !Nat.add_1_r in IH'.
      specialize (IH' ltac:(rewrite <- app_assoc; exact Hfs) ltac:(rewrite <- app_assoc; exact Hss) ltac:(lia)).
      cbn [sp_indexed filter snd combine map]. rewrite nsum_cons.
      cbn [oneof_count] in Hc.
      unfold mw at 1. cbn [fst snd].
      destruct (member_of o f) eqn:Hm.
      + unfold member_of in Hm. destruct (f_shape f) as [| |o'|] eqn:Hsh; try discriminate Hm.
        apply Nat.eqb_eq in Hm. subst o'.
        cbn [map fst snd switch_find]. rewrite Hnf, Hns, Hsh, Nat.eqb_refl.
        unfold wt_slot in Hw. rewrite Hsh in Hw. rewrite Nat.eqb_refl in Hc.
        destruct s; try discriminate Hw.
        * destruct (IH' ltac:(lia) a l) as [l' E]. exists l'. rewrite E. f_equal. apply ST_eq.
          rewrite (sf_member_nil f o Hsh). lia.
        * assert (Hr : eval_ref fs slots (RF (length pre)) (env_case (length pre) env_init) = Some (rty_of (f_ty f), s))
            by (eapply eval_ref_case; eauto).
          assert (Hcf : canon_field (length pre) f true = canon_inner (length pre) f true)
            by (unfold canon_field; rewrite Hsh; reflexivity).
          destruct (member_adds sch fs slots unk (length pre) f _ s Hr ltac:(rewrite Hsh; exact I) Hw) as [Hadd Hunw].
          destruct (Hadd a l) as [l' E]. exists l'.
          unfold block. rewrite Hcf, E. cbn [option_map]. rewrite Hunw.
          rewrite (count0_sum o suf ssuf HF) by lia. f_equal. apply ST_eq.
          rewrite (sf_member_some f o s Hsh). lia.
      + destruct (IH' ltac:(lia) a l) as [l' E]. exists l'. rewrite E. f_equal; apply ST_eq; lia.
  Qed.

  Definition Fcode (jf : nat * field) : list stmt :=
    match f_shape (snd jf) with
    | Member o => if existsb (member_of o) (firstn (fst jf) fs) then [] else [SSwitch o (canon_cases fs o)]
    | _ => canon_field (fst jf) (snd jf) false
    end.
  Lemma canon_fields_eq : canon_fields fs = concat (map Fcode (sp_indexed 0 fs)).
  Proof. reflexivity. Qed.

  Definition Aw (p : nat) : N :=
    nsum (map (fun q => if is_member (fst q) then 0 else sf (fst q) (snd q)) (firstn p (combine fs slots))).
  Definition Bw (p : nat) : N :=
    nsum (map (fun q => match f_shape (fst q) with
                        | Member o => if existsb (member_of o) (firstn p fs) then sf (fst q) (snd q) else 0
                        | _ => 0
                        end) (combine fs slots)).

  Variable nm no : nat.
  Hypothesis HWT : Forall2 WT fs slots.
  Hypothesis Hwf : forall f, In f fs -> field_wf nm no f = true.
  Hypothesis Hone : forall o, (o < no)%nat -> (oneof_count fs slots o <= 1)%nat.

  Lemma switch_adds o : (o < no)%nat -> adds' [SSwitch o (canon_cases fs o)] env_init (nsum (map (mw o) (combine fs slots))).
  Proof.
    intros Ho a l.
    destruct (switch_adds_gen o fs slots HWT [] [] eq_refl eq_refl eq_refl (Hone o Ho) a l) as [l' E].
    exists l'. rewrite run_cons, exec_SSwitch. cbn [e_case env_init]. unfold canon_cases.
    cbn [length] in E. rewrite E. reflexivity.
  Qed.

  Lemma ex_S p f o : nth_error fs p = Some f ->
    existsb (member_of o) (firstn (S p) fs) = existsb (member_of o) (firstn p fs) || member_of o f.
  Proof. intro H. rewrite (firstn_S_nth fs p f H), existsb_app. cbn [existsb]. rewrite orb_false_r. reflexivity. Qed.

  Lemma main_adds : forall p, (p <= length fs)%nat ->
    adds' (concat (map Fcode (firstn p (sp_indexed 0 fs)))) env_init (Aw p + Bw p).
  Proof.
    induction p as [|p IH]; intro Hp.
    - cbn [firstn map concat]. eapply adds_ext; [|apply adds_nil].
      unfold Aw, Bw. cbn [firstn map]. change (nsum []) with 0.
      rewrite nsum_zero; [reflexivity|]. intros q _. destruct (f_shape (fst q)); reflexivity.
    - destruct (nth_error fs p) as [f|] eqn:Hf; [|apply nth_error_None in Hf; lia].
      destruct (Forall2_nth _ _ _ HWT p f Hf) as [s [Hs Hw]].
      pose proof (nth_error_combine fs slots p f s Hf Hs) as Hq.
      pose proof (sp_indexed_nth fs 0 p f Hf) as Hi. cbn [Nat.add] in Hi.
      pose proof (Hwf f (nth_error_In _ _ Hf)) as Hfw.
      rewrite (firstn_S_nth _ p _ Hi), map_app, concat_app. cbn [map concat]. rewrite app_nil_r.
      assert (HA : Aw (S p) = Aw p + (if is_member f then 0 else sf f s)).
      { unfold Aw. rewrite (firstn_S_nth _ p _ Hq), map_app, nsum_app. cbn [map fst snd]. rewrite nsum_cons.
        change (nsum []) with 0. lia. }
      unfold Fcode at 2. cbn [fst snd].
      destruct (f_shape f) as [|pk|o|kk] eqn:Hsh.
      + (* singular *)
        eapply adds_ext; [|apply adds_app; [apply IH; lia|]].
        2:{ apply singular_adds; [|exact Hsh|].
            - rewrite (eval_ref_top fs slots p f s Hf Hs), Hsh. reflexivity.
            - unfold wt_slot in Hw. rewrite Hsh in Hw. exact Hw. }
        rewrite HA. unfold is_member. rewrite Hsh. fold (sf f s).
        assert (HB : Bw (S p) = Bw p); [|rewrite HB; lia].
        unfold Bw. apply nsum_map_ext. intros q _. destruct (f_shape (fst q)) as [| |o'|]; try reflexivity.
        rewrite (ex_S p f o' Hf). unfold member_of at 2. rewrite Hsh, orb_false_r. reflexivity.
      + (* repeated *)
        eapply adds_ext; [|apply adds_app; [apply IH; lia|]].
        2:{ apply (rep_adds sch fs slots unk p f env_init s pk); [|exact Hsh| |exact Hw].
            - rewrite (eval_ref_top fs slots p f s Hf Hs), Hsh. reflexivity.
            - unfold field_wf in Hfw. rewrite Hsh in Hfw. apply andb_prop in Hfw. exact (proj2 Hfw). }
        rewrite HA. unfold is_member. rewrite Hsh. fold (sf f s).
        assert (HB : Bw (S p) = Bw p); [|rewrite HB; lia].
        unfold Bw. apply nsum_map_ext. intros q _. destruct (f_shape (fst q)) as [| |o'|]; try reflexivity.
        rewrite (ex_S p f o' Hf). unfold member_of at 2. rewrite Hsh, orb_false_r. reflexivity.
      + (* oneof member *)
        assert (Ho : (o < no)%nat).
        { unfold field_wf in Hfw. rewrite Hsh in Hfw. apply andb_prop in Hfw. apply Nat.ltb_lt. exact (proj2 Hfw). }
        rewrite HA. unfold is_member. rewrite Hsh.
        destruct (existsb (member_of o) (firstn p fs)) eqn:Hex.
        * eapply adds_ext; [|apply adds_app; [apply IH; lia|apply adds_nil]].
          assert (HB : Bw (S p) = Bw p); [|rewrite HB; lia].
          unfold Bw. apply nsum_map_ext. intros q _. destruct (f_shape (fst q)) as [| |o'|]; try reflexivity.
          rewrite (ex_S p f o' Hf). unfold member_of at 2. rewrite Hsh.
          destruct (Nat.eqb o' o) eqn:He; [|rewrite orb_false_r; reflexivity].
          apply Nat.eqb_eq in He. subst o'. rewrite Hex. reflexivity.
        * eapply adds_ext; [|apply adds_app; [apply IH; lia|apply (switch_adds o Ho)]].
          assert (HB : Bw (S p) = Bw p + nsum (map (mw o) (combine fs slots))); [|rewrite HB; lia].
          unfold Bw. apply nsum_map_add. intros q _. unfold mw.
          assert (Hmq : member_of o (fst q) = match f_shape (fst q) with Member j => Nat.eqb o j | _ => false end)
            by reflexivity.
          rewrite Hmq. clear Hmq.
          destruct (f_shape (fst q)) as [| |o'|]; try reflexivity.
          rewrite (ex_S p f o' Hf). unfold member_of at 2. rewrite Hsh. rewrite (Nat.eqb_sym o o').
          destruct (Nat.eqb o' o) eqn:He.
          -- apply Nat.eqb_eq in He. subst o'. rewrite Hex. cbn [orb]. lia.
          -- rewrite orb_false_r. lia.
      + (* map *)
        eapply adds_ext; [|apply adds_app; [apply IH; lia|]].
        2:{ apply (map_adds sch fs slots unk p f env_init s kk); [|exact Hsh|exact Hw].
            rewrite (eval_ref_top fs slots p f s Hf Hs), Hsh. reflexivity. }
        rewrite HA. unfold is_member. rewrite Hsh. fold (sf f s).
        assert (HB : Bw (S p) = Bw p); [|rewrite HB; lia].
        unfold Bw. apply nsum_map_ext. intros q _. destruct (f_shape (fst q)) as [| |o'|]; try reflexivity.
        rewrite (ex_S p f o' Hf). unfold member_of at 2. rewrite Hsh, orb_false_r. reflexivity.
  Qed.

  Lemma AB_total : Aw (length fs) + Bw (length fs) = nsum (map (fun q => sf (fst q) (snd q)) (combine fs slots)).
  Proof.
    unfold Aw, Bw. rewrite firstn_all2 by (rewrite combine_length; lia). rewrite firstn_all.
    symmetry. apply nsum_map_add. intros [f s] Hq. cbn [fst snd]. apply in_combine_l in Hq.
    unfold is_member. destruct (f_shape f) as [| |o|] eqn:Hsh; try lia.
    assert (He : existsb (member_of o) fs = true).
    { apply existsb_exists. exists f. split; [exact Hq|]. unfold member_of. rewrite Hsh. apply Nat.eqb_refl. }
    rewrite He. lia.
  Qed.

  Lemma sp_indexed_length {A} (l : list A) : forall k, length (sp_indexed k l) = length l.
  Proof. induction l as [|x l IH]; intro k; cbn [sp_indexed length]; [reflexivity | rewrite IH; reflexivity]. Qed.

  Lemma body_adds :
    adds' (canon_fields fs ++ canon_tail) env_init
      (nsum (map (fun q => sf (fst q) (snd q)) (combine fs slots)) + N.of_nat (length unk)).
  Proof.
    rewrite <- AB_total. apply adds_app; [|apply tail_adds].
    rewrite canon_fields_eq.
    rewrite <- (firstn_all2 (n := length fs) (sp_indexed 0 fs)) at 1 by (rewrite sp_indexed_length; lia).
    apply main_adds. lia.
  Qed.
End Top.

Lemma zipf_combine {B} (g : field -> val -> B) fs : forall ss,
  zipf g fs ss = map (fun q => g (fst q) (snd q)) (combine fs ss).
Proof.
  induction fs as [|f fs IH]; intros [|s ss]; cbn [zipf combine map]; try reflexivity.
  rewrite IH. reflexivity.
Qed.

Lemma wt_msg_unfold sch mid slots unk :
  wt_msg sch mid (VMsg slots unk) = true ->
  exists md, get_msg sch mid = Some md /\
    Forall2 (fun f s => wt_slot (wt_msg sch) f s = true) (m_fields md) slots /\
    forall o, (o < m_oneofs md)%nat -> (oneof_count (m_fields md) slots o <= 1)%nat.
Proof.
  cbn [wt_msg]. destruct (get_msg sch mid) as [md|]; [|discriminate].
  intro H. apply andb_prop in H. destruct H as [H1 H2]. exists md. split; [reflexivity|]. split.
  - clear H2. revert H1. generalize (m_fields md) as fs.
    induction slots as [|s ss IH]; intros [|f fs] H; try discriminate H; [constructor|].
    apply andb_prop in H. destruct H as [Ha Hb]. constructor; [exact Ha | apply IH; exact Hb].
  - intros o Ho. rewrite forallb_forall in H2. apply Nat.leb_le. apply H2. apply in_seq. lia.
Qed.

Lemma wf_fields sch mid md :
  wf sch = true -> get_msg sch mid = Some md ->
  forall f, In f (m_fields md) -> field_wf (length sch) (m_oneofs md) f = true.
Proof.
  intros Hwf Hmd f Hf. unfold wf in Hwf. rewrite forallb_forall in Hwf.
  specialize (Hwf md (nth_error_In _ _ Hmd)). unfold msg_wf in Hwf. apply andb_prop in Hwf.
  destruct Hwf as [H _]. rewrite forallb_forall in H. apply H. exact Hf.
Qed.

(* ------------------------------------------------------------------ the theorem *)
Lemma size_prog_correct : forall sch mid v, wf sch = true -> wt_msg sch mid v = true ->
  run_size sch mid (canon_size sch mid) v = Some (msg_size sch mid v).
Proof.
  intros sch mid v Hwf Hwt.
  destruct v as [| | | | | |slots unk| |]; try discriminate Hwt.
  destruct (wt_msg_unfold sch mid slots unk Hwt) as [md [Hmd [HWT Hone]]].
  pose proof (wf_fields sch mid md Hwf Hmd) as Hfw.
  unfold run_size, canon_size. rewrite Hmd.
  destruct (body_adds sch (m_fields md) slots unk (length sch) (m_oneofs md) HWT Hfw Hone 0 0) as [l' E].
  change st_init with (ST 0 0). rewrite E. cbn [st_get st_stack ST s_n hd_error].
  rewrite msg_size_unfold, Hmd, zipf_combine. unfold len, sf. f_equal.
Qed.
