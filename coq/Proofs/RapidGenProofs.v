(* Proofs/RapidGenProofs.v — lemmas for C18 (Model/RapidGen.v). *)
From Coq Require Import Lia.
From CP Require Import DecodeTotal Extra RapidGen.
Local Open Scope N_scope.

(* ---- [deep] is monotone in its local predicates ------------------------------------------- *)
Section Mono.
  Variable sch : schema.
  Variable ann : annots.
  Variables P Q : preds.
  Hypothesis Hs : forall k d v, p_scalar P k d v = true -> p_scalar Q k d v = true.
  Hypothesis Hl : forall r p f fa s, p_slot P r p f fa s = true -> p_slot Q r p f fa s = true.
  Hypothesis Hm : forall r ic ma md slots unk, p_msg P r ic ma md slots unk = true -> p_msg Q r ic ma md slots unk = true.

  Lemma forallb_impl {A} (f g : A -> bool) l :
    (forall x, In x l -> f x = true -> g x = true) -> forallb f l = true -> forallb g l = true.
  Proof.
    intros H Hf. apply forallb_forall. intros x Hx. apply H; auto.
    eapply forallb_forall in Hf; eauto.
  Qed.

  Lemma elem_deep_mono (rp rq : rec_t) :
    (forall pp ic tm e, rp pp ic tm e = true -> rq pp ic tm e = true) ->
    forall pp f fa e, elem_deep P rp pp f fa e = true -> elem_deep Q rq pp f fa e = true.
  Proof.
    intros Hr pp f fa e. unfold elem_deep. destruct (f_ty f); auto.
    destruct e; auto.
  Qed.

  Lemma slot_deep_mono (rp rq : rec_t) :
    (forall pp ic tm e, rp pp ic tm e = true -> rq pp ic tm e = true) ->
    forall r p f fa s, slot_deep P rp r p f fa s = true -> slot_deep Q rq r p f fa s = true.
  Proof.
    intros Hr r p f fa s. unfold slot_deep. intros H. apply andb_true_iff in H. destruct H as [H1 H2].
    apply andb_true_iff. split; [apply Hl; exact H1|].
    destruct (f_shape f).
    - eapply elem_deep_mono; eauto.
    - destruct s; auto. destruct (f_ty f) eqn:Et; [|destruct (2 <=? r)%nat; auto];
        (eapply forallb_impl; [|exact H2]); intros x _; apply elem_deep_mono; auto.
    - destruct s; auto. eapply elem_deep_mono; eauto.
    - destruct s; auto. eapply forallb_impl; [|exact H2]. intros [k v] _ H. cbn [fst snd] in *.
      apply andb_true_iff in H. destruct H as [Ha Hb]. apply andb_true_iff. split; [apply Hs; auto|].
      eapply elem_deep_mono; eauto.
  Qed.

  Lemma slots_deep_mono (rp rq : rec_t) :
    (forall pp ic tm e, rp pp ic tm e = true -> rq pp ic tm e = true) ->
    forall r p fs fas ss, slots_deep P rp r p fs fas ss = true -> slots_deep Q rq r p fs fas ss = true.
  Proof.
    intros Hr r p fs. induction fs as [|f fs IH]; intros fas ss; destruct fas, ss; cbn; auto.
    intros H. apply andb_true_iff in H. destruct H as [H1 H2]. apply andb_true_iff. split; auto.
    eapply slot_deep_mono; eauto.
  Qed.

  Lemma any_deep_mono (rp rq : rec_t) :
    (forall pp ic tm e, rp pp ic tm e = true -> rq pp ic tm e = true) ->
    forall r slots, any_deep sch ann rp r slots = true -> any_deep sch ann rq r slots = true.
  Proof.
    intros Hr r slots. unfold any_deep.
    destruct slots as [|a [|b [|c t]]]; auto. destruct a; auto.
    destruct (resolve ann l); auto. destruct (2 <=? r)%nat; auto.
    destruct (pulsar_unmarshal sch false n VNil (as_bytes b)); auto.
  Qed.

  Lemma deep_mono : forall r p ic mid v, deep sch ann P r p ic mid v = true -> deep sch ann Q r p ic mid v = true.
  Proof.
    induction r as [|r IH]; intros p ic mid v; cbn [deep]; auto.
    destruct (get_msg sch mid) as [md|]; auto. destruct (nth_error ann mid) as [ma|]; auto.
    destruct v; auto. intros H. apply andb_true_iff in H. destruct H as [H1 H2].
    apply andb_true_iff. split; [apply Hm; exact H1|].
    destruct (a_wkt ma); auto.
    - eapply slots_deep_mono; eauto.
    - eapply any_deep_mono; eauto.
  Qed.
End Mono.

Ltac splitb :=
  repeat match goal with
         | H : _ && _ = true |- _ => apply andb_true_iff in H; destruct H
         end.

Lemma from_range vr o sch ann (Q : preds) :
  (forall k d v, rg_scalar vr o k d v = true -> p_scalar Q k d v = true) ->
  (forall r p f fa s, rg_slot vr o sch ann r p f fa s = true -> p_slot Q r p f fa s = true) ->
  (forall r ic ma md slots unk, rg_msg vr o sch ann r ic ma md slots unk = true -> p_msg Q r ic ma md slots unk = true) ->
  forall mid m, rapid_in_range vr o sch ann mid m = true -> deep sch ann Q top_fuel 1 INoField mid m = true.
Proof.
  intros Hs Hl Hm mid m H. unfold rapid_in_range, rapid_in_range_at in H.
  eapply deep_mono; [| | |exact H]; cbn [p_scalar p_slot p_msg range_preds]; auto.
Qed.

Ltac triv_preds := intros; reflexivity.

(* ---- strings ---------------------------------------------------------------------------- *)
Lemma gen_utf8 vr o sch ann : fmap_sound o (p_scalar utf8_preds) ->
  forall mid m, rapid_in_range vr o sch ann mid m = true -> deep sch ann utf8_preds top_fuel 1 INoField mid m = true.
Proof.
  intros Hf. apply from_range; [|triv_preds|triv_preds].
  intros k d v. unfold rg_scalar.
  destruct (o_fmap o k d) as [|p g|p g] eqn:E.
  - destruct k; try reflexivity. cbn. destruct v; auto.
  - intros H. eapply (Hf k d p g v); eauto.
  - intros H. apply orb_true_iff in H. destruct H as [H|H].
    + eapply (Hf k d p g v); eauto.
    + destruct k; try reflexivity. cbn in H. cbn. destruct v; auto.
Qed.

(* ---- Timestamp / Duration ------------------------------------------------------------------ *)
Lemma gen_timestamp_valid vr o sch ann :
  forall mid m, rapid_in_range vr o sch ann mid m = true -> deep sch ann timestamp_preds top_fuel 1 INoField mid m = true.
Proof.
  apply from_range; [triv_preds|triv_preds|].
  intros r ic ma md slots unk. unfold rg_msg. cbn [p_msg timestamp_preds]. destruct (a_wkt ma); auto.
  intros H. splitb. destruct slots as [|[] [|[] [|]]]; try discriminate.
  splitb. unfold ts_valid. repeat (apply andb_true_iff; split); lia.
Qed.

Lemma gen_duration_valid vr o sch ann :
  forall mid m, rapid_in_range vr o sch ann mid m = true -> deep sch ann duration_preds top_fuel 1 INoField mid m = true.
Proof.
  apply from_range; [triv_preds|triv_preds|].
  intros r ic ma md slots unk. unfold rg_msg. cbn [p_msg duration_preds]. destruct (a_wkt ma); auto.
  intros H. splitb. destruct slots as [|[] [|[] [|]]]; try discriminate.
  splitb. unfold dur_valid. repeat (apply andb_true_iff; split); lia.
Qed.

(* ---- Any ------------------------------------------------------------------------------------ *)
Lemma existsb_nth_hint (hs : list (option nat)) ai t tm :
  nth_error hs ai = Some (Some t) -> Nat.eqb t tm = true ->
  existsb (fun h => match h with Some t => Nat.eqb t tm | None => false end) hs = true.
Proof.
  intros Hn He. apply existsb_exists. exists (Some t). split; [eapply nth_error_In; eauto|exact He].
Qed.

Lemma gen_any_resolvable vr o sch ann : o_any o <> [] ->
  forall mid m, rapid_in_range vr o sch ann mid m = true -> deep sch ann (any_preds o sch ann) top_fuel 1 INoField mid m = true.
Proof.
  intros Hu. apply from_range; [triv_preds|triv_preds|].
  intros r ic ma md slots unk. unfold rg_msg. cbn [p_msg any_preds]. destruct (a_wkt ma); auto.
  intros H. splitb. destruct slots as [|[] [|vb [|]]]; try discriminate.
  splitb. unfold has_urls in *. destruct (o_any o) as [|a0 rest] eqn:Eo; [congruence|]. cbn [is_nilb negb] in *.
  destruct (resolve ann l) as [tm|]; [|discriminate]. splitb.
  apply andb_true_iff. split; [|assumption].
  unfold any_allowed in *. rewrite Eo in *. destruct ic as [|[ai|]].
  - splitb. apply orb_true_iff. left. assumption.
  - destruct (nth_error (o_hints o) ai) as [[t|]|] eqn:En; try discriminate.
    apply orb_true_iff. right. eapply existsb_nth_hint; eauto.
  - apply orb_true_iff. left. assumption.
Qed.

(* ---- FieldMask ---------------------------------------------------------------------------------- *)
Lemma gen_fieldmask_paths vr o sch ann : v_fieldmask_stored vr = true ->
  forall mid m, rapid_in_range vr o sch ann mid m = true -> deep sch ann fieldmask_preds top_fuel 1 INoField mid m = true.
Proof.
  intros Hv. apply from_range; [triv_preds|triv_preds|].
  intros r ic ma md slots unk. unfold rg_msg. cbn [p_msg fieldmask_preds]. destruct (a_wkt ma); auto.
  rewrite Hv. intros H. splitb. destruct slots as [|s [|]]; try discriminate.
  destruct s; cbn [rep_len] in *; try discriminate. assumption.
Qed.

(* what the code does today: no FieldMask ever carries a path *)
Definition fieldmask_empty_preds : preds :=
  {| p_scalar := true_scalar; p_slot := true_slot;
     p_msg := fun _ _ ma _ slots _ =>
       match a_wkt ma with
       | WFieldMask => match slots with [VNil] | [VList []] => true | _ => false end
       | _ => true
       end |}.
Lemma gen_fieldmask_always_empty vr o sch ann : v_fieldmask_stored vr = false ->
  forall mid m, rapid_in_range vr o sch ann mid m = true -> deep sch ann fieldmask_empty_preds top_fuel 1 INoField mid m = true.
Proof.
  intros Hv. apply from_range; [triv_preds|triv_preds|].
  intros r ic ma md slots unk. unfold rg_msg. cbn [p_msg fieldmask_empty_preds]. destruct (a_wkt ma); auto.
  rewrite Hv. intros H. splitb. destruct slots as [|s [|]]; try discriminate.
  destruct s; cbn [rep_len] in *; try discriminate; auto.
Qed.

(* ---- enums ------------------------------------------------------------------------------------- *)
Lemma gen_enum_declared vr o sch ann : v_enum_by_number vr = true -> fmap_sound o (p_scalar enum_preds) ->
  forall mid m, rapid_in_range vr o sch ann mid m = true -> deep sch ann enum_preds top_fuel 1 INoField mid m = true.
Proof.
  intros Hv Hf. apply from_range; [|triv_preds|triv_preds].
  intros k d v. unfold rg_scalar.
  assert (Hd : rg_scalar_default vr k d v = true -> p_scalar enum_preds k d v = true).
  { destruct k; try reflexivity. cbn. rewrite Hv. destruct v; auto. intros H. splitb. assumption. }
  destruct (o_fmap o k d) as [|p g|p g] eqn:E; auto.
  - intros H. eapply (Hf k d p g v); eauto.
  - intros H. apply orb_true_iff in H. destruct H as [H|H]; auto. eapply (Hf k d p g v); eauto.
Qed.

(* ---- NoEmptyLists / DisallowNilMessages --------------------------------------------------------- *)
Lemma gen_no_empty_lists vr o sch ann :
  forall mid m, rapid_in_range vr o sch ann mid m = true -> deep sch ann (no_empty_preds vr o ann) top_fuel 1 INoField mid m = true.
Proof.
  apply from_range; [triv_preds| |triv_preds].
  intros r p f fa s. unfold rg_slot. cbn [p_slot no_empty_preds].
  destruct (o_no_empty o) eqn:En; [|reflexivity].
  unfold min_len. rewrite En.
  destruct (f_shape f); try reflexivity; destruct (f_ty f) as [k|tm]; try reflexivity.
  - intros H. apply andb_true_iff in H. destruct H as [_ H]. revert H.
    destruct s; cbn [rep_len]; try discriminate.
    destruct l; cbn; [discriminate | intros; reflexivity].
  - destruct (forced o f) eqn:Ef; [|reflexivity]. cbn [andb].
    destruct (child_ok_container vr o ann r tm); [|reflexivity].
    intros H. apply andb_true_iff in H. destruct H as [_ H]. revert H.
    destruct s; cbn [rep_len]; try discriminate.
    destruct l; cbn; [discriminate | intros; reflexivity].
Qed.

Lemma gen_no_empty_nonnil vr o sch ann : v_list_clear vr = true ->
  forall mid m, rapid_in_range vr o sch ann mid m = true -> deep sch ann (no_empty_nonnil_preds o) top_fuel 1 INoField mid m = true.
Proof.
  intros Hv. apply from_range; [triv_preds| |triv_preds].
  intros r p f fa s. unfold rg_slot. cbn [p_slot no_empty_nonnil_preds].
  destruct (o_no_empty o) eqn:En; [|reflexivity].
  destruct (f_shape f); try reflexivity. destruct s; try reflexivity. destruct l; try reflexivity.
  unfold rep_exact_ok, min_len. rewrite En, Hv. cbn. destruct (f_ty f); discriminate.
Qed.

Lemma gen_disallow_nil vr o sch ann :
  forall mid m, rapid_in_range vr o sch ann mid m = true -> deep sch ann (disallow_nil_preds o ann) top_fuel 1 INoField mid m = true.
Proof.
  apply from_range; [triv_preds| |triv_preds].
  intros r p f fa s. unfold rg_slot. cbn [p_slot disallow_nil_preds].
  destruct (o_disallow_nil o) eqn:En; [|reflexivity].
  destruct (f_shape f); try reflexivity; destruct (f_ty f) as [k|tm] eqn:Et; try reflexivity.
  destruct (child_ok_singular o ann r tm); [|reflexivity].
  unfold forced, msg_kind. rewrite En, Et. destruct (f_shape f); destruct s; cbn; auto.
Qed.

Lemma is_fresh_msgv sch tm v : is_fresh sch tm v = true -> is_msgv v = true.
Proof. unfold is_fresh. destruct v; try discriminate. reflexivity. Qed.

Lemma gen_no_nil_elements vr o sch ann :
  forall mid m, rapid_in_range vr o sch ann mid m = true -> deep sch ann no_nil_elem_preds top_fuel 1 INoField mid m = true.
Proof.
  apply from_range; [triv_preds| |triv_preds].
  intros r p f fa s. unfold rg_slot. cbn [p_slot no_nil_elem_preds].
  destruct (f_ty f) as [k|tm]; [reflexivity|].
  destruct (f_shape f); try reflexivity.
  - destruct s; try reflexivity. cbn [rep_len]. intros H. apply andb_true_iff in H. destruct H as [_ H]. revert H.
    destruct (child_ok_container vr o ann r tm).
    + destruct l; [reflexivity|]. intros H. splitb. assumption.
    + destruct (v_list_truncate vr).
      * destruct l; [reflexivity|discriminate].
      * intros H. splitb. eapply forallb_impl; [|eassumption]. intros x _. apply is_fresh_msgv.
  - destruct s; try reflexivity. destruct s; try discriminate. reflexivity.
  - destruct s; try reflexivity. cbn [map_kvs]. intros H. splitb. assumption.
Qed.

Lemma gen_field_mapper vr o sch ann :
  forall mid m, rapid_in_range vr o sch ann mid m = true -> deep sch ann (mapper_preds o) top_fuel 1 INoField mid m = true.
Proof.
  apply from_range; [|triv_preds|triv_preds].
  intros k d v. unfold rg_scalar. cbn [p_scalar mapper_preds]. destruct (o_fmap o k d); auto.
Qed.

(* ---- well-typedness ----------------------------------------------------------------------------- *)
Lemma kind_eqb_eq a b : kind_eqb a b = true -> a = b.
Proof. destruct a, b; cbn; try discriminate; reflexivity. Qed.

Lemma field_eqb_eq a b : field_eqb a b = true -> a = b.
Proof.
  destruct a as [n1 t1 s1], b as [n2 t2 s2]. unfold field_eqb. cbn [f_num f_ty f_shape].
  intros H. apply andb_true_iff in H. destruct H as [H Hs]. apply andb_true_iff in H. destruct H as [Hn Ht].
  apply N.eqb_eq in Hn. subst n2.
  assert (Et : t1 = t2).
  { destruct t1, t2; try discriminate; f_equal; [apply kind_eqb_eq|apply Nat.eqb_eq]; assumption. }
  assert (Es : s1 = s2).
  { destruct s1, s2; try discriminate; try reflexivity; f_equal;
      [apply Bool.eqb_prop|apply Nat.eqb_eq|apply kind_eqb_eq]; assumption. }
  subst. reflexivity.
Qed.

Lemma fields_eqb_eq a : forall b, fields_eqb a b = true -> a = b.
Proof.
  induction a as [|x a IH]; intros [|y b]; cbn; try discriminate; auto.
  intros H. splitb. f_equal; [apply field_eqb_eq|apply IH]; assumption.
Qed.

Lemma ann_ok_nth : forall sch ann mid md ma, ann_ok sch ann = true ->
  nth_error sch mid = Some md -> nth_error ann mid = Some ma ->
  wkt_layout (a_wkt ma) (m_fields md) = true /\ length (m_fields md) = length (a_fields ma).
Proof.
  unfold ann_ok. induction sch as [|md0 sch IH]; intros [|ma0 ann] mid md ma; cbn [ann_ok_aux]; try discriminate.
  - destruct mid; discriminate.
  - intros H. splitb. destruct mid as [|mid]; cbn [nth_error].
    + intros E1 E2. injection E1 as <-. injection E2 as <-. split; [assumption|]. apply Nat.eqb_eq. assumption.
    + apply IH. assumption.
Qed.

Lemma beqb_eq a : forall b, beqb a b = true -> a = b.
Proof.
  induction a as [|x a IH]; intros [|y b]; cbn; try discriminate; auto.
  intros H. splitb. f_equal; [|apply IH; assumption].
  apply Byte.byte_dec_bl. assumption.
Qed.

Lemma flat_eqb_eq a b : flat_eqb a b = true -> a = b.
Proof.
  destruct a, b; cbn; try discriminate; intros H; try reflexivity; f_equal.
  - apply Z.eqb_eq; assumption.
  - apply Bool.eqb_prop; assumption.
  - apply N.eqb_eq; assumption.
  - apply beqb_eq; assumption.
Qed.

Lemma zero_scalar_wt k : wt_scalar k (zero_scalar k) = true.
Proof. destruct k; reflexivity. Qed.

Lemma default_like_wt sch f s : default_like f s = true -> wt_slot (wt_msg sch) f s = true.
Proof.
  unfold default_like, wt_slot. destruct (f_shape f); destruct (f_ty f) as [k|tm]; cbn [wt_elem].
  - intros H. apply orb_true_iff in H. destruct H as [H|H].
    + apply flat_eqb_eq in H. subst s. apply zero_scalar_wt.
    + destruct k; try discriminate. destruct s; try discriminate. reflexivity.
  - destruct s; try discriminate. reflexivity.
  - destruct s; try discriminate; [reflexivity|]. destruct l; try discriminate. reflexivity.
  - destruct s; try discriminate; [reflexivity|]. destruct l; try discriminate. reflexivity.
  - destruct s; try discriminate. reflexivity.
  - destruct s; try discriminate. reflexivity.
  - destruct s; try discriminate; [reflexivity|]. destruct kvs; try discriminate. reflexivity.
  - destruct s; try discriminate; [reflexivity|]. destruct kvs; try discriminate. reflexivity.
Qed.

Lemma defaults_like_wt sch fs : forall ss, defaults_like fs ss = true -> wt_slots sch fs ss = true.
Proof.
  induction fs as [|f fs IH]; intros [|s ss]; cbn; try discriminate; auto.
  intros H. splitb. apply andb_true_iff. split; [apply default_like_wt; assumption|apply IH; assumption].
Qed.

Lemma defaults_like_count fs : forall ss oi, defaults_like fs ss = true -> oneof_count fs ss oi = 0%nat.
Proof.
  induction fs as [|f fs IH]; intros [|s ss] oi; cbn; try discriminate; auto.
  intros H. splitb. rewrite (IH ss oi) by assumption.
  unfold default_like in H. destruct (f_shape f); auto. destruct s; try discriminate; auto.
Qed.

Lemma is_fresh_wt sch tm v : is_fresh sch tm v = true -> wt_msg sch tm v = true.
Proof.
  unfold is_fresh. destruct v; try discriminate. destruct (get_msg sch tm) as [md|] eqn:Eg; [|discriminate].
  intros H. splitb. rewrite wt_msg_unfold, Eg. apply andb_true_iff. split.
  - apply defaults_like_wt. assumption.
  - unfold oo_ok. apply forallb_forall. intros oi _. rewrite defaults_like_count by assumption. reflexivity.
Qed.

Lemma rg_default_wt vr k d v : rg_scalar_default vr k d v = true -> wt_scalar k v = true.
Proof.
  unfold rg_scalar_default. destruct k; auto; destruct v; auto; cbn [wt_scalar].
  - unfold finite64. intros H. splitb. assumption.
  - unfold finite32. intros H. splitb. assumption.
  - intros H. splitb. assumption.
Qed.

Definition fmap_typed (o : gopts) : Prop := fmap_sound o (fun k _ v => wt_scalar k v).

Lemma rg_scalar_wt vr o k d v : fmap_typed o -> rg_scalar vr o k d v = true -> wt_scalar k v = true.
Proof.
  intros Hf. unfold rg_scalar. destruct (o_fmap o k d) as [|p g|p g] eqn:E.
  - apply rg_default_wt.
  - intros H. apply (Hf k d p g v); auto.
  - intros H. apply orb_true_iff in H. destruct H as [H|H]; [apply (Hf k d p g v); auto|eapply rg_default_wt; eauto].
Qed.

Section WT.
  Variable vr : variant.
  Variable o : gopts.
  Variable sch : schema.
  Variable ann : annots.
  Hypothesis Hann : ann_ok sch ann = true.
  Hypothesis Hfm : fmap_typed o.
  Let P := range_preds vr o sch ann.

  Lemma elem_wt (rec : rec_t) :
    (forall pp ic tm e, rec pp ic tm e = true -> wt_msg sch tm e = true) ->
    forall pp f fa e, elem_deep P rec pp f fa e = true -> wt_elem (wt_msg sch) (f_ty f) e = true.
  Proof.
    intros Hr pp f fa e. unfold elem_deep, wt_elem. destruct (f_ty f) as [k|tm].
    - cbn. apply rg_scalar_wt. exact Hfm.
    - destruct e; auto; apply Hr.
  Qed.

  Lemma slot_wt (rec : rec_t) :
    (forall pp ic tm e, rec pp ic tm e = true -> wt_msg sch tm e = true) ->
    forall r p f fa s, slot_deep P rec r p f fa s = true -> wt_slot (wt_msg sch) f s = true.
  Proof.
    intros Hr r p f fa s. unfold slot_deep, wt_slot. cbn [p_slot P range_preds]. unfold rg_slot.
    intros H. apply andb_true_iff in H. destruct H as [H1 H2].
    destruct (f_shape f) eqn:Es.
    - eapply elem_wt; eauto.
    - destruct s; try (destruct (f_ty f); discriminate); auto.
      destruct (f_ty f) as [k|tm] eqn:Et.
      + eapply forallb_impl; [|exact H2]. intros x _ Hx. pose proof (elem_wt rec Hr 1 f fa x Hx) as Hw. rewrite Et in Hw. exact Hw.
      + cbn [rep_len] in H1. destruct (2 <=? r)%nat eqn:E2.
        * eapply forallb_impl; [|exact H2]. intros x _ Hx. pose proof (elem_wt rec Hr 1 f fa x Hx) as Hw. rewrite Et in Hw. exact Hw.
        * unfold child_ok_container in H1. rewrite E2 in H1. cbn [andb] in H1.
          destruct (v_list_truncate vr).
          -- destruct l; [reflexivity|discriminate].
          -- splitb. eapply forallb_impl; [|eassumption]. intros x _ Hx. cbn [wt_elem].
             pose proof (is_fresh_wt _ _ _ Hx) as Hw. destruct x; auto.
    - destruct s; try (destruct (f_ty f); discriminate); auto.
      eapply elem_wt; eauto.
    - destruct s; try (destruct (f_ty f); discriminate); auto. cbn [map_kvs] in H1.
      assert (Hn : nodup_keys (map fst kvs) = true) by (destruct (f_ty f); splitb; assumption).
      apply andb_true_iff. split; [|exact Hn].
      eapply forallb_impl; [|exact H2]. intros [k v] _ Hx. cbn [fst snd] in *. splitb.
      apply andb_true_iff. split.
      + cbn in H. eapply rg_scalar_wt; eauto.
      + eapply elem_wt; eauto.
  Qed.

  Lemma slots_wt (rec : rec_t) :
    (forall pp ic tm e, rec pp ic tm e = true -> wt_msg sch tm e = true) ->
    forall r p fs fas ss, slots_deep P rec r p fs fas ss = true -> wt_slots sch fs ss = true.
  Proof.
    intros Hr r p fs. induction fs as [|f fs IH]; intros [|fa fas] [|s ss]; cbn; try discriminate; auto.
    intros H. splitb. apply andb_true_iff. split; [eapply slot_wt; eauto|eapply IH; eauto].
  Qed.

  Lemma oo_ok_noneof md slots : (forall oi, oneof_count (m_fields md) slots oi = 0%nat) -> oo_ok md slots = true.
  Proof. intros H. unfold oo_ok. apply forallb_forall. intros oi _. rewrite H. reflexivity. Qed.

  Lemma range_wt : forall r p ic mid v, deep sch ann P r p ic mid v = true -> wt_msg sch mid v = true.
  Proof.
    induction r as [|r IH]; intros p ic mid v; cbn [deep]; [discriminate|].
    destruct (get_msg sch mid) as [md|] eqn:Eg; [|discriminate].
    destruct (nth_error ann mid) as [ma|] eqn:Ea; [|discriminate].
    destruct v; try discriminate. intros H. apply andb_true_iff in H. destruct H as [H1 H2].
    destruct (ann_ok_nth _ _ _ _ _ Hann Eg Ea) as [Hlay _].
    rewrite wt_msg_unfold, Eg. cbn [p_msg P range_preds] in H1. unfold rg_msg in H1.
    apply andb_true_iff in H1. destruct H1 as [_ H1].
    destruct (a_wkt ma) eqn:Ew; cbn [wkt_layout] in Hlay.
    - (* ordinary message *)
      apply andb_true_iff. split.
      + eapply slots_wt; [|exact H2]. intros pp ic' tm e. apply IH.
      + unfold oneofs_ok in H1. unfold oo_ok. eapply forallb_impl; [|exact H1]. intros oi _ Hx. cbn in Hx. splitb. assumption.
    - apply fields_eqb_eq in Hlay. destruct slots as [|[] [|[] [|]]]; try discriminate. rewrite Hlay. splitb.
      apply andb_true_iff. split; [|apply oo_ok_noneof; rewrite Hlay; intros; reflexivity].
      cbn. unfold in_range_z. repeat (apply andb_true_iff; split); lia.
    - apply fields_eqb_eq in Hlay. destruct slots as [|[] [|[] [|]]]; try discriminate. rewrite Hlay. splitb.
      apply andb_true_iff. split; [|apply oo_ok_noneof; rewrite Hlay; intros; reflexivity].
      cbn. unfold in_range_z. repeat (apply andb_true_iff; split); lia.
    - apply fields_eqb_eq in Hlay. destruct slots as [|[] [|vb [|]]]; try discriminate. rewrite Hlay. splitb.
      apply andb_true_iff. split; [|apply oo_ok_noneof; rewrite Hlay; intros; reflexivity].
      cbn. destruct vb; try discriminate; reflexivity.
    - apply fields_eqb_eq in Hlay. destruct slots as [|s [|]]; try discriminate. rewrite Hlay.
      apply andb_true_iff. split; [|apply oo_ok_noneof; rewrite Hlay; intros oi; cbn; reflexivity].
      cbn [wt_slots wt_slot f_shape f_ty fld]. rewrite andb_true_r.
      destruct s; cbn [rep_len] in H1; try discriminate; [reflexivity|].
      destruct (v_fieldmask_stored vr).
      + splitb. eapply forallb_impl; [|eassumption]. intros x _ Hx. destruct x; try discriminate. reflexivity.
      + destruct l; [reflexivity|discriminate].
  Qed.
End WT.

Lemma gen_wt vr o sch ann : ann_ok sch ann = true -> fmap_typed o ->
  forall mid m, rapid_in_range vr o sch ann mid m = true -> wt_msg sch mid m = true.
Proof. intros Ha Hf mid m H. eapply range_wt; eauto. Qed.

(* ---- termination: fuel depthLimit + 2 always suffices -------------------------------------------- *)
Section Terminates.
  Variable vr : variant.
  Variable o : gopts.
  Variable sch : schema.
  Variable ann : annots.

  Definition total_from (child : child_t) (d0 : nat) : Prop :=
    forall d ic tm cur tp, (d0 <= d)%nat -> child d ic tm cur tp <> OutOfFuel.

  Lemma gen_any_nf child depth ic tp : total_from child (S depth) -> gen_any vr o sch ann child depth ic tp <> OutOfFuel.
  Proof.
    intros Hc. unfold gen_any. destruct (is_nilb (o_any o)); [discriminate|].
    assert (Htail : forall tm t1,
              match nth_error ann tm with
              | None => Err
              | Some ma =>
                match child (S depth) INoField tm (fresh sch tm) t1 with
                | Ok (r, t2) =>
                  match pulsar_marshal sch false tm (match r with Some v => v | None => fresh sch tm end) with
                  | Ok bs => Ok (Some (VMsg [VBytes (url_of ma); VBytes bs] []), t2)
                  | Err => Err | Panic => Panic | OutOfFuel => OutOfFuel
                  end
                | Err => Err | Panic => Panic | OutOfFuel => OutOfFuel
                end
              end <> (OutOfFuel : outcome (option val * tape))).
    { intros tm t1. destruct (nth_error ann tm); [|discriminate].
      destruct (child (S depth) INoField tm (fresh sch tm) t1) as [[r t2]| | |] eqn:E; try discriminate.
      - unfold pulsar_marshal. repeat match goal with |- context [if ?b then _ else _] => destruct b end; discriminate.
      - exfalso. eapply Hc; [|exact E]. lia. }
    destruct ic as [|[ai|]].
    - destruct (v_any_nil_field vr); [|discriminate].
      destruct (draw_n 0 (N.of_nat (length (o_any o)) - 1) tp) as [i t]. apply Htail.
    - destruct (nth_error (o_hints o) ai) as [[tm|]|]; try discriminate. apply Htail.
    - destruct (draw_n 0 (N.of_nat (length (o_any o)) - 1) tp) as [i t]. apply Htail.
  Qed.

  Lemma list_loop_nf child depth fa tm : total_from child (S depth) ->
    forall k i l tp, list_loop vr sch child depth fa tm k i l tp <> OutOfFuel.
  Proof.
    intros Hc. induction k as [|k IH]; intros i l tp; cbn [list_loop]; [discriminate|].
    destruct (child (S depth) (IField (a_iface fa)) tm (fresh sch tm) tp) as [[[e|] t1]| | |] eqn:E; try discriminate; try apply IH.
    exfalso. eapply Hc; [|exact E]. lia.
  Qed.

  Lemma map_loop_nf child depth kk ty fa : total_from child (S depth) ->
    forall n kvs tp, map_loop vr o sch child depth kk ty fa n kvs tp <> OutOfFuel.
  Proof.
    intros Hc. induction n as [|n IH]; intros kvs tp; cbn [map_loop]; [discriminate|].
    destruct (gen_scalar vr o kk [] tp) as [key t1]. destruct ty as [k|tm].
    - destruct (gen_scalar vr o k (a_enum fa) t1). apply IH.
    - match goal with |- context [child ?a ?b ?c ?d ?e] => destruct (child a b c d e) as [[[v|] t2]| | |] eqn:E end;
        try discriminate; try apply IH.
      exfalso. eapply Hc; [|exact E]. lia.
  Qed.

  Lemma set_field_value_nf child depth md idx f fa slots tp : total_from child (S depth) ->
    set_field_value vr o sch ann child depth md idx f fa slots tp <> OutOfFuel.
  Proof.
    intros Hc. unfold set_field_value.
    assert (Hc2 : total_from child (S (S depth))) by (intros d ic tm cur t Hd; apply Hc; lia).
    destruct (f_shape f).
    - destruct (f_ty f) as [k|tm].
      + destruct (gen_scalar vr o k (a_enum fa) tp). discriminate.
      + match goal with |- context [if ?b then ?x else ?y] => assert (Hr : (if b then x else y) <> OutOfFuel) end.
        { destruct (is_any ann tm); [apply gen_any_nf; exact Hc2|apply Hc; lia]. }
        match goal with |- context [if ?b then ?x else ?y] => destruct (if b then x else y) as [[[v|] t1]| | |] end;
          try discriminate. congruence.
    - destruct (draw_n (min_n o) 10 tp) as [n t1]. destruct (f_ty f) as [k|tm].
      + destruct (scalar_loop vr o k (a_enum fa) (N.to_nat n) _ t1). discriminate.
      + match goal with |- context [list_loop ?a ?b ?c ?d ?e ?f ?g ?h ?i ?j] =>
                        pose proof (list_loop_nf c d e f Hc g h i j) as Hl; destruct (list_loop a b c d e f g h i j) as [[l' t2]| | |] end;
          try discriminate. congruence.
    - destruct (f_ty f) as [k|tm].
      + destruct (gen_scalar vr o k (a_enum fa) tp). discriminate.
      + match goal with |- context [if ?b then ?x else ?y] => assert (Hr : (if b then x else y) <> OutOfFuel) end.
        { destruct (is_any ann tm); [apply gen_any_nf; exact Hc2|apply Hc; lia]. }
        match goal with |- context [if ?b then ?x else ?y] => destruct (if b then x else y) as [[[v|] t1]| | |] end;
          try discriminate. congruence.
    - destruct (draw_n 0 10 tp) as [n t1].
      match goal with |- context [map_loop ?a ?b ?c ?d ?e ?f ?g ?h ?i ?j ?k] =>
                      pose proof (map_loop_nf d e f g h Hc i j k) as Hl; destruct (map_loop a b c d e f g h i j k) as [[l' t2]| | |] end;
        try discriminate. congruence.
  Qed.

  Lemma fields_loop_nf child depth md : total_from child (S depth) ->
    forall fs fas idx slots tp, fields_loop vr o sch ann child depth md fs fas idx slots tp <> OutOfFuel.
  Proof.
    intros Hc. induction fs as [|f fs IH]; intros [|fa fas] idx slots tp; cbn [fields_loop]; try discriminate.
    destruct (draw_bool tp) as [b t1].
    destruct (negb b && msg_kind f && negb (o_disallow_nil o)); [apply IH|].
    pose proof (set_field_value_nf child depth md idx f fa slots t1 Hc) as Hs.
    destruct (set_field_value vr o sch ann child depth md idx f fa slots t1) as [[s' t2]| | |]; try discriminate; [apply IH|congruence].
  Qed.

  Lemma set_fields_nf : forall fuel depth ic mid cur tp, (1 <= fuel)%nat -> (12 <= fuel + depth)%nat ->
    set_fields vr o sch ann fuel depth ic mid cur tp <> OutOfFuel.
  Proof.
    induction fuel as [|fu IH]; intros depth ic mid cur tp H1 H2; [lia|]. cbn [set_fields].
    destruct (depth_limit <? depth)%nat eqn:Ed; [discriminate|].
    apply Nat.ltb_ge in Ed. unfold depth_limit in Ed.
    assert (Hc : total_from (set_fields vr o sch ann fu) (S depth)).
    { intros d ic' tm cur' t Hd. apply IH; lia. }
    destruct (get_msg sch mid) as [md|]; [|discriminate]. destruct (nth_error ann mid) as [ma|]; [|discriminate].
    destruct (a_wkt ma).
    - pose proof (fields_loop_nf _ depth md Hc (m_fields md) (a_fields ma) 0%nat (slots_of cur) tp) as Hf.
      destruct (fields_loop vr o sch ann (set_fields vr o sch ann fu) depth md (m_fields md) (a_fields ma) 0 (slots_of cur) tp) as [[s' t1]| | |];
        try discriminate. congruence.
    - destruct (draw_z (-9999999999) 9999999999 tp) as [s t1]. destruct (draw_z 0 999999999 t1). discriminate.
    - destruct (draw_z 0 9223372035 tp) as [s t1]. destruct (draw_z 0 999999999 t1). discriminate.
    - pose proof (gen_any_nf _ depth ic tp Hc) as Ha.
      destruct (gen_any vr o sch ann (set_fields vr o sch ann fu) depth ic tp) as [[[v|] t1]| | |]; try discriminate; [|congruence].
      destruct (v_any_container vr); discriminate.
    - destruct (draw_n 1 5 tp) as [n t1]. destruct (draw_many draw_path (N.to_nat n) t1). discriminate.
  Qed.

  Lemma gen_terminates mid tp : gen vr o sch ann mid tp <> OutOfFuel.
  Proof.
    unfold gen. set (tp' := if v_root_draw vr then snd (draw_bool tp) else tp).
    pose proof (set_fields_nf top_fuel 0 INoField mid (fresh sch mid) tp') as H.
    destruct (set_fields vr o sch ann top_fuel 0 INoField mid (fresh sch mid) tp') as [[[v|] t]| | |]; try discriminate.
    intros _. apply H; unfold top_fuel; try lia. reflexivity.
  Qed.
End Terminates.

(* ---- what the code got wrong before its `fix:` commits ([current]): witnesses, each produced by the
   generator model of that code; kept as regression cases ------------------------------------------ *)
Definition o_plain : gopts :=
  {| o_no_empty := false; o_disallow_nil := false; o_any := []; o_hints := []; o_fmap := fun _ _ => FmNone |}.
Definition fa_plain : fannot := {| a_enum := []; a_iface := None |}.
Definition md_of (fs : list field) : msgdesc := {| m_fields := fs; m_oneofs := 0; m_impl := ProtobufGo |}.
Definition md_any : msgdesc := md_of [fld 1 (TScalar KString) Singular; fld 2 (TScalar KBytes) Singular].
Definition ma_any : mannot := {| a_name := [x41]; a_wkt := WAny; a_fields := [fa_plain; fa_plain] |}.

(* google.protobuf.FieldMask on its own *)
Definition sch_fm : schema := [ md_of [fld 1 (TScalar KString) (Rep false)] ].
Definition ann_fm : annots := [ {| a_name := [x46]; a_wkt := WFieldMask; a_fields := [fa_plain] |} ].
Lemma gen_fieldmask_paths_refuted_before_fix :
  exists o sch ann mid tape m, ann_ok sch ann = true /\ gen current o sch ann mid tape = Ok m /\
    rapid_in_range current o sch ann mid m = true /\ deep sch ann fieldmask_preds top_fuel 1 INoField mid m = false.
Proof. exists o_plain, sch_fm, ann_fm, 0%nat, [3; 1; 2], (VMsg [VNil] []). vm_compute. repeat split; reflexivity. Qed.

(* message M { E e = 1; }  enum E { A = 4; B = 5; C = 6; }  (test3.ForeignEnum) *)
Definition sch_en : schema := [ md_of [fld 1 (TScalar KEnum) Singular] ].
Definition ann_en : annots := [ {| a_name := [x4d]; a_wkt := WNone; a_fields := [ {| a_enum := [4; 5; 6]%Z; a_iface := None |} ] |} ].
Lemma gen_enum_declared_refuted_before_fix :
  exists o sch ann mid tape m, ann_ok sch ann = true /\ gen current o sch ann mid tape = Ok m /\
    rapid_in_range current o sch ann mid m = true /\ deep sch ann enum_preds top_fuel 1 INoField mid m = false.
Proof. exists o_plain, sch_en, ann_en, 0%nat, [0; 0], (VMsg [VInt 0] []). vm_compute. repeat split; reflexivity. Qed.

(* message M { repeated google.protobuf.Any as = 1; } with empty AnyTypeURLs: an Any without type URL *)
Definition sch_anyl : schema := [ md_of [fld 1 (TMsg 1) (Rep false)]; md_any ].
Definition ann_anyl : annots := [ {| a_name := [x4d]; a_wkt := WNone; a_fields := [fa_plain] |}; ma_any ].
Definition no_url_preds : preds :=          (* every Any names a type *)
  {| p_scalar := true_scalar; p_slot := true_slot;
     p_msg := fun _ _ ma _ slots _ =>
       match a_wkt ma with WAny => match slots with VBytes (_ :: _) :: _ => true | _ => false end | _ => true end |}.
Lemma gen_any_resolvable_refuted_before_fix :
  exists o sch ann mid tape m, ann_ok sch ann = true /\ gen current o sch ann mid tape = Ok m /\
    rapid_in_range current o sch ann mid m = true /\ deep sch ann no_url_preds top_fuel 1 INoField mid m = false.
Proof.
  exists o_plain, sch_anyl, ann_anyl, 0%nat, [1; 1], (VMsg [VList [VMsg [VBytes []; VNil] []]] []).
  vm_compute. repeat split; reflexivity.
Qed.

(* genAny dereferences the nil field it is handed by MessageGenerator: Any as the root type panics *)
Lemma set_fields_any_root_panicked fu o sch ann mid md ma cur tp :
  get_msg sch mid = Some md -> nth_error ann mid = Some ma -> a_wkt ma = WAny -> o_any o <> [] ->
  set_fields current o sch ann (S fu) 0 INoField mid cur tp = Panic.
Proof.
  intros Hg Ha Hw Hu. cbn [set_fields]. cbn [Nat.ltb Nat.leb depth_limit].
  rewrite Hg, Ha, Hw. unfold gen_any. destruct (o_any o); [congruence|]. reflexivity.
Qed.
Lemma gen_any_root_panicked_before_fix o sch ann mid md ma tp :
  get_msg sch mid = Some md -> nth_error ann mid = Some ma -> a_wkt ma = WAny -> o_any o <> [] ->
  gen current o sch ann mid tp = Panic.
Proof.
  intros Hg Ha Hw Hu. unfold gen. cbn [v_root_draw current]. unfold top_fuel.
  rewrite (set_fields_any_root_panicked 11 o sch ann mid md ma _ tp Hg Ha Hw Hu). reflexivity.
Qed.

(* list.Truncate(i) with the loop index: when every element fails (nesting limit), n draws leave n-1
   unpopulated elements behind *)
Lemma list_loop_leftover_before_fix sch (child : child_t) depth fa tm :
  (forall d ic t cur tp, child d ic t cur tp = Ok (None, tp)) ->
  forall n tp, list_loop current sch child depth fa tm (S n) 0 [] tp = Ok (repeat (fresh sch tm) n, tp).
Proof.
  intros Hc.
  assert (G : forall k i tp, list_loop current sch child depth fa tm k (S i) (repeat (fresh sch tm) i) tp
                             = Ok (repeat (fresh sch tm) (k + i), tp)).
  { induction k as [|k IH]; intros i tp; cbn [list_loop]; [reflexivity|].
    rewrite Hc. cbn [v_list_truncate current].
    replace (firstn (S i) (repeat (fresh sch tm) i ++ [fresh sch tm])) with (repeat (fresh sch tm) (S i)).
    - rewrite IH. f_equal. f_equal. f_equal. lia.
    - replace (repeat (fresh sch tm) i ++ [fresh sch tm]) with (repeat (fresh sch tm) (S i)).
      + symmetry. apply firstn_all2. rewrite repeat_length. lia.
      + clear. induction i; cbn; [reflexivity|]. f_equal. exact IHi. }
  intros n tp. cbn [list_loop]. rewrite Hc. cbn [v_list_truncate current firstn].
  pose proof (G n 0%nat tp) as G0. cbn [repeat] in G0. rewrite G0. f_equal. f_equal. f_equal. lia.
Qed.

(* ---- rapid.String(): a sequence of Unicode scalar values is valid UTF-8 --------------------------- *)
Lemma b2n_n2b x : x < 256 -> b2n (n2b x) = x.
Proof.
  intros H. unfold b2n, n2b. rewrite N.mod_small by exact H.
  destruct (Byte.of_N x) eqn:E.
  - apply Byte.to_of_N. exact E.
  - apply Byte.of_N_None_iff in E. lia.
Qed.

(* ---- empty AnyTypeURLs: no Any below the root (setFields returns genAny's result; failed elements
   are removed) ---------------------------------------------------------------------------------- *)
Lemma gen_any_absent vr o sch ann : v_any_container vr = true -> v_list_truncate vr = true -> o_any o = [] ->
  forall mid m, rapid_in_range vr o sch ann mid m = true -> deep sch ann (no_any_field_preds ann) top_fuel 1 INoField mid m = true.
Proof.
  intros Hc Ht Hu. apply from_range; [triv_preds| |triv_preds].
  intros r p f fa s. unfold rg_slot. cbn [p_slot no_any_field_preds].
  destruct (f_ty f) as [k|tm]; [reflexivity|]. destruct (is_any ann tm) eqn:Ea; [|reflexivity].
  unfold child_ok_singular, child_ok_container, has_urls. rewrite Ea, Hu, Hc, Ht. cbn [is_nilb negb orb].
  rewrite andb_false_r.
  destruct (f_shape f).
  - destruct s; try discriminate; reflexivity.
  - destruct s; cbn [rep_len]; try discriminate; [reflexivity|]. destruct l; [reflexivity|discriminate].
  - destruct s; try discriminate; [reflexivity|]. destruct s; discriminate.
  - destruct s; cbn [map_kvs]; try discriminate; [reflexivity|]. destruct kvs; [reflexivity|].
    intros H. splitb. discriminate.
Qed.


(* ---- regression: on the witnesses of the old defects the repaired code does the right thing -------- *)
Definition fm_regr : val := VMsg [VList [VBytes [x63; x61]; VBytes [x61]; VBytes [x61]; VBytes [x61]]] [].
Lemma regression_fieldmask :
  rapid_in_range repaired o_plain sch_fm ann_fm 0 (VMsg [VNil] []) = false /\
  gen repaired o_plain sch_fm ann_fm 0 [1; 3; 1; 2] = Ok fm_regr /\
  rapid_in_range repaired o_plain sch_fm ann_fm 0 fm_regr = true /\
  deep sch_fm ann_fm fieldmask_preds top_fuel 1 INoField 0 fm_regr = true.
Proof. vm_compute. repeat split; reflexivity. Qed.

Lemma regression_enum :
  rapid_in_range repaired o_plain sch_en ann_en 0 (VMsg [VInt 0] []) = false /\
  gen repaired o_plain sch_en ann_en 0 [1; 0; 0] = Ok (VMsg [VInt 4] []) /\
  rapid_in_range repaired o_plain sch_en ann_en 0 (VMsg [VInt 4] []) = true.
Proof. vm_compute. repeat split; reflexivity. Qed.

Lemma regression_any_container :
  rapid_in_range repaired o_plain sch_anyl ann_anyl 0 (VMsg [VList [VMsg [VBytes []; VNil] []]] []) = false /\
  gen repaired o_plain sch_anyl ann_anyl 0 [1; 1; 1] = Ok (VMsg [VNil] []).
Proof. vm_compute. split; reflexivity. Qed.

(* Any as the root type with AnyTypeURLs: a value, not a panic (payload: M holding one more Any of M) *)
Definition o_any1 : gopts :=
  {| o_no_empty := false; o_disallow_nil := false; o_any := [0%nat]; o_hints := []; o_fmap := fun _ _ => FmNone |}.
Definition any_regr : val :=
  VMsg [VBytes [x2f; x4d]; VBytes [x0a; x04; x0a; x02; x2f; x4d; x0a; x04; x0a; x02; x2f; x4d]] [].
Lemma regression_any_root :
  gen repaired o_any1 sch_anyl ann_anyl 1 [1; 0; 1; 2] = Ok any_regr /\
  rapid_in_range repaired o_any1 sch_anyl ann_anyl 1 any_regr = true /\
  deep sch_anyl ann_anyl (any_preds o_any1 sch_anyl ann_anyl) top_fuel 1 INoField 1 any_regr = true.
Proof. vm_compute. repeat split; reflexivity. Qed.

(* ---- nesting depth ------------------------------------------------------------------------------ *)
Lemma fold_max_le {A} (f : A -> nat) (b : nat) (l : list A) :
  (forall x, In x l -> (f x <= b)%nat) -> (fold_right (fun s acc => Nat.max (f s) acc) 0%nat l <= b)%nat.
Proof.
  induction l as [|x l IH]; intros H; cbn; [lia|].
  pose proof (H x (or_introl eq_refl)). assert (fold_right (fun s acc => Nat.max (f s) acc) 0%nat l <= b)%nat by (apply IH; intros; apply H; right; assumption).
  lia.
Qed.

Lemma wt_scalar_depth k v : wt_scalar k v = true -> val_depth v = 0%nat.
Proof. destruct k, v; cbn; try discriminate; reflexivity. Qed.

Lemma default_like_depth f s : default_like f s = true -> val_depth s = 0%nat.
Proof.
  unfold default_like. destruct s; try reflexivity.
  - destruct (f_shape f); destruct (f_ty f) as [k|tm]; try discriminate. destruct k; discriminate.
  - destruct (f_shape f); destruct (f_ty f) as [k|tm]; try discriminate. destruct k; discriminate.
  - destruct (f_shape f); destruct (f_ty f) as [k|tm]; try discriminate; try (destruct k; discriminate);
      destruct l; try discriminate; reflexivity.
  - destruct (f_shape f); destruct (f_ty f) as [k|tm]; try discriminate; try (destruct k; discriminate);
      destruct kvs; try discriminate; reflexivity.
Qed.

Lemma defaults_like_depth fs : forall ss, defaults_like fs ss = true -> forall s, In s ss -> val_depth s = 0%nat.
Proof.
  induction fs as [|f fs IH]; intros [|s0 ss]; cbn; try discriminate; [intros _ s []|].
  intros H s [<-|Hin]; splitb; [eapply default_like_depth; eauto|eapply IH; eauto].
Qed.

Lemma is_fresh_depth sch tm v : is_fresh sch tm v = true -> (val_depth v <= 1)%nat.
Proof.
  unfold is_fresh. destruct v; try discriminate. destruct (get_msg sch tm); [|discriminate]. intros H. splitb.
  cbn [val_depth]. apply le_n_S. apply fold_max_le. intros x Hx. erewrite defaults_like_depth; eauto.
Qed.

Section Depth.
  Variable vr : variant.
  Variable o : gopts.
  Variable sch : schema.
  Variable ann : annots.
  Hypothesis Hfm : fmap_typed o.
  Let P := range_preds vr o sch ann.

  Lemma scalar_depth k d v : rg_scalar vr o k d v = true -> val_depth v = 0%nat.
  Proof. intros H. eapply wt_scalar_depth. eapply rg_scalar_wt; eauto. Qed.

  (* an Any message: two byte strings *)
  Lemma any_depth r p ic tm e : is_any ann tm = true -> deep sch ann P (S r) p ic tm e = true -> (val_depth e <= 1)%nat.
  Proof.
    unfold is_any, wkt_of. cbn [deep]. destruct (get_msg sch tm); [|discriminate].
    destruct (nth_error ann tm) as [ma|]; [|discriminate]. destruct (a_wkt ma) eqn:Ew; try discriminate. intros _.
    destruct e; try discriminate. intros H. apply andb_true_iff in H. destruct H as [H _].
    cbn [p_msg P range_preds] in H. unfold rg_msg in H. rewrite Ew in H. splitb.
    destruct slots as [|[] [|vb [|]]]; try discriminate. splitb.
    destruct vb; try discriminate; cbn; lia.
  Qed.

  Lemma slot_depth r :
    (1 <= r)%nat ->
    ((2 <= r)%nat -> forall p ic mid v, deep sch ann P r p ic mid v = true -> (val_depth v <= r)%nat) ->
    forall p f fa s, slot_deep P (deep sch ann P r) r p f fa s = true -> (val_depth s <= r)%nat.
  Proof.
    intros H1 IH p f fa s. unfold slot_deep. cbn [p_slot P range_preds]. unfold rg_slot.
    intros H. apply andb_true_iff in H. destruct H as [Hl Hd].
    assert (Hchild : forall pp ic tm e, child_ok_singular o ann r tm = true ->
                                       deep sch ann P r pp ic tm e = true -> (val_depth e <= r)%nat).
    { intros pp ic tm e Hok He. unfold child_ok_singular in Hok. destruct (is_any ann tm) eqn:Ea.
      - destruct r as [|r]; [lia|]. pose proof (any_depth r pp ic tm e Ea He). lia.
      - apply Nat.leb_le in Hok. eapply IH; eauto. }
    assert (Hchild2 : forall pp ic tm e, (2 <= r)%nat -> deep sch ann P r pp ic tm e = true -> (val_depth e <= r)%nat).
    { intros; eapply IH; eauto. }
    destruct (f_shape f) eqn:Es; destruct (f_ty f) as [k|tm] eqn:Et; unfold elem_deep in Hd; rewrite ?Et in Hd.
    - (erewrite scalar_depth by (unfold P in *; cbn [p_scalar range_preds] in *; eassumption)); lia.
    - destruct s; try discriminate; try (cbn; lia). eapply Hchild; eauto.
    - destruct s; cbn [rep_len] in Hl; try discriminate; cbn [val_depth]; try lia.
      apply fold_max_le. intros x Hx. eapply forallb_forall in Hd; [|exact Hx]. cbn in Hd.
      unfold elem_deep in Hd; rewrite ?Et in Hd; cbn beta iota in Hd. (erewrite scalar_depth by (unfold P in *; cbn [p_scalar range_preds] in *; eassumption)); lia.
    - destruct s; cbn [rep_len] in Hl; try discriminate; cbn [val_depth]; try lia.
      apply fold_max_le. intros x Hx.
      destruct (2 <=? r)%nat eqn:E2.
      + apply Nat.leb_le in E2. eapply forallb_forall in Hd; [|exact Hx]. unfold elem_deep in Hd; rewrite ?Et in Hd; cbn beta iota in Hd.
        assert (Hx' : x = VNil \/ deep sch ann P r 1 (IField (a_iface fa)) tm x = true) by (destruct x; auto).
        destruct Hx' as [->|Hx']; [cbn; lia|eapply Hchild2; eauto].
      + unfold child_ok_container in Hl. rewrite E2 in Hl. cbn [andb] in Hl.
        destruct (v_list_truncate vr).
        * destruct l; [destruct Hx|discriminate].
        * splitb.
          match goal with Hf : forallb (is_fresh sch tm) l = true |- _ =>
            eapply forallb_forall in Hf; [|exact Hx]; pose proof (is_fresh_depth _ _ _ Hf) end. lia.
    - destruct s; try discriminate; cbn [val_depth]; try lia.
      unfold elem_deep in Hd; rewrite ?Et in Hd; cbn beta iota in Hd. (erewrite scalar_depth by (unfold P in *; cbn [p_scalar range_preds] in *; eassumption)); lia.
    - destruct s; try discriminate; cbn [val_depth]; try lia.
      destruct s; try discriminate. unfold elem_deep in Hd; rewrite ?Et in Hd; cbn beta iota in Hd. eapply Hchild; eauto.
    - destruct s; cbn [map_kvs] in Hl; try discriminate; cbn [val_depth]; try lia.
      apply fold_max_le. intros [kx vx] Hx. eapply forallb_forall in Hd; [|exact Hx]. cbn [fst snd] in *. splitb.
      unfold elem_deep in H0; rewrite ?Et in H0; cbn beta iota in H0. (erewrite scalar_depth by (unfold P in *; cbn [p_scalar range_preds] in *; eassumption)); lia.
    - destruct s; cbn [map_kvs] in Hl; try discriminate; cbn [val_depth]; try lia.
      apply fold_max_le. intros [kx vx] Hx. pose proof Hd as Hd'. eapply forallb_forall in Hd; [|exact Hx]. cbn [fst snd] in *. splitb.
      unfold elem_deep in H2; rewrite ?Et in H2; cbn beta iota in H2.
      destruct kvs as [|kv0 kvs]; [destruct Hx|]. cbn [is_nilb orb] in *.
      unfold child_ok_container in H3. splitb. apply Nat.leb_le in H3.
      assert (Hv' : vx = VNil \/ deep sch ann P r (10 * p) (IField (a_iface fa)) tm vx = true) by (destruct vx; auto).
      destruct Hv' as [->|Hv']; [cbn; lia|eapply Hchild2; eauto].
  Qed.

  Lemma slots_depth r :
    (1 <= r)%nat ->
    ((2 <= r)%nat -> forall p ic mid v, deep sch ann P r p ic mid v = true -> (val_depth v <= r)%nat) ->
    forall p fs fas ss, slots_deep P (deep sch ann P r) r p fs fas ss = true -> forall s, In s ss -> (val_depth s <= r)%nat.
  Proof.
    intros H1 IH p fs. induction fs as [|f fs IHf]; intros [|fa fas] [|s0 ss]; cbn; try discriminate; [intros _ s []|].
    intros H s [<-|Hin]; splitb; [eapply slot_depth; eauto|eapply IHf; eauto].
  Qed.

  Lemma range_depth : forall r p ic mid v, (2 <= r)%nat -> deep sch ann P r p ic mid v = true -> (val_depth v <= r)%nat.
  Proof.
    induction r as [|r IH]; intros p ic mid v H2; [lia|]. cbn [deep].
    destruct (get_msg sch mid) as [md|]; [|discriminate]. destruct (nth_error ann mid) as [ma|]; [|discriminate].
    destruct v; try discriminate. intros H. apply andb_true_iff in H. destruct H as [Hm Hs].
    cbn [p_msg P range_preds] in Hm. unfold rg_msg in Hm. splitb. cbn [val_depth]. apply le_n_S.
    destruct (a_wkt ma) eqn:Ew.
    - apply fold_max_le. eapply slots_depth; [lia| |exact Hs]. intros; eapply IH; eauto.
    - destruct slots as [|[] [|[] [|]]]; try discriminate. cbn. lia.
    - destruct slots as [|[] [|[] [|]]]; try discriminate. cbn. lia.
    - destruct slots as [|[] [|vb [|]]]; try discriminate. splitb. destruct vb; try discriminate; cbn; lia.
    - destruct slots as [|s [|]]; try discriminate. destruct s; cbn [rep_len] in H0; try discriminate; cbn; try lia.
      destruct (v_fieldmask_stored vr).
      + splitb. cbn. rewrite Nat.max_0_r. apply fold_max_le. intros x Hx.
        match goal with Hf : forallb _ l = true |- _ => eapply forallb_forall in Hf; [|exact Hx]; destruct x; try discriminate end.
        cbn. lia.
      + destruct l; [cbn; lia|discriminate].
  Qed.
End Depth.

(* messages nest at most depthLimit + 2 = 12 levels: the root and 10 levels below it, plus a singular
   Any field of a depth-10 message (setFieldValue calls genAny without the depth test) *)
Lemma gen_depth_bounded vr o sch ann : fmap_typed o ->
  forall mid m, rapid_in_range vr o sch ann mid m = true -> (val_depth m <= 12)%nat.
Proof. intros Hf mid m H. eapply (range_depth vr o sch ann Hf top_fuel); [unfold top_fuel; lia|exact H]. Qed.

(* ---- the tape-driven generator model stays inside the range: samples (not a general proof) -------- *)
(* 0: T { int32 a; string s; repeated T kids; map<bool,T> m; E e; Timestamp ts; FieldMask fm; oneof { uint32 x; T y };
          Any any; repeated Any anys; repeated sint64 zs; Duration d }    1: Timestamp  2: FieldMask  3: Any  4: Duration *)
Definition sch_demo : schema :=
 [ {| m_fields := [fld 1 (TScalar KInt32) Singular; fld 2 (TScalar KString) Singular; fld 3 (TMsg 0) (Rep false); fld 4 (TMsg 0) (MapOf KBool);
                   fld 5 (TScalar KEnum) Singular; fld 6 (TMsg 1) Singular; fld 7 (TMsg 2) Singular; fld 8 (TScalar KUint32) (Member 0); fld 9 (TMsg 0) (Member 0);
                   fld 10 (TMsg 3) Singular; fld 11 (TMsg 3) (Rep false); fld 12 (TScalar KSint64) (Rep true); fld 13 (TMsg 4) Singular];
      m_oneofs := 1; m_impl := Pulsar |};
   md_of [fld 1 (TScalar KInt64) Singular; fld 2 (TScalar KInt32) Singular];
   md_of [fld 1 (TScalar KString) (Rep false)];
   md_any;
   md_of [fld 1 (TScalar KInt64) Singular; fld 2 (TScalar KInt32) Singular] ].
Definition ann_demo : annots :=
 [ {| a_name := [x54]; a_wkt := WNone;
      a_fields := [fa_plain; fa_plain; fa_plain; fa_plain; {| a_enum := [0; 5; -3]%Z; a_iface := None |}; fa_plain; fa_plain; fa_plain; fa_plain;
                   {| a_enum := []; a_iface := Some 0%nat |}; fa_plain; fa_plain; fa_plain] |};
   {| a_name := [x55]; a_wkt := WTimestamp; a_fields := [fa_plain; fa_plain] |};
   {| a_name := [x56]; a_wkt := WFieldMask; a_fields := [fa_plain] |};
   ma_any;
   {| a_name := [x57]; a_wkt := WDuration; a_fields := [fa_plain; fa_plain] |} ].
Fixpoint lcg (n : nat) (x : N) : tape :=
  match n with O => [] | S k => (x / 65536) :: lcg k ((x * 6364136223846793005 + 1442695040888963407) mod 18446744073709551616) end.
Definition mk_opts (nel dn : bool) (any : list nat) (fm : nat) : gopts :=
  {| o_no_empty := nel; o_disallow_nil := dn; o_any := any; o_hints := [Some 1%nat]; o_fmap := fmap_of_id fm |}.
Definition demo_opts : list gopts :=
  [ mk_opts false false [] 0; mk_opts true false [1; 4; 3]%nat 1; mk_opts false false [0; 2]%nat 2; mk_opts true false [] 2 ].
Definition sample_ok (vr : variant) (o : gopts) (seed : N) : bool :=
  match gen vr o sch_demo ann_demo 0 (lcg 1500 seed) with
  | Ok m => rapid_in_range vr o sch_demo ann_demo 0 m && wt_msg sch_demo 0 m
  | _ => false
  end.
Lemma gen_in_range_samples :
  ann_ok sch_demo ann_demo = true /\
  forallb (fun o => forallb (sample_ok repaired o) [1; 2; 3]) demo_opts = true /\
  forallb (sample_ok current (mk_opts true true [] 0)) [4; 5] = true.
Proof. vm_compute. repeat split; reflexivity. Qed.
