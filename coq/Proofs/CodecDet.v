(* Proofs/CodecDet.v — the deterministic encoding is a function of the message value (C05):
   it does not depend on the iteration order of any map at any depth, nor on nil-vs-empty
   containers. *)
From CP Require Import Extra BytesLemmas RuntimeProofs ValInd.
From Coq Require Import Lia ZifyN ZifyNat ZifyBool Permutation Sorted.
Local Open Scope N_scope.

(* ------------------------------------------------------------------------------------------ *)
(* Insertion sort: output is a permutation; under a strict total order on duplicate-free keys
   the output depends only on the multiset of inputs.                                           *)
(* ------------------------------------------------------------------------------------------ *)

Lemma insert_sorted_perm {A} (ltb : A -> A -> bool) x l :
  Permutation (x :: l) (insert_sorted ltb x l).
Proof.
  induction l as [|y t IH]; cbn [insert_sorted].
  - apply Permutation_refl.
  - destruct (ltb y x).
    + eapply Permutation_trans; [apply perm_swap|]. apply perm_skip. exact IH.
    + apply Permutation_refl.
Qed.

Lemma isort_perm {A} (ltb : A -> A -> bool) l : Permutation l (isort ltb l).
Proof.
  induction l as [|x t IH]; cbn [isort fold_right].
  - apply Permutation_refl.
  - eapply Permutation_trans; [apply perm_skip; exact IH|]. apply insert_sorted_perm.
Qed.

Section SortCore.
  Context {A K : Type} (key : A -> K) (lt : K -> K -> bool) (D : K -> Prop).
  Hypothesis lt_irrefl : forall a, D a -> lt a a = false.
  Hypothesis lt_trans : forall a b c, D a -> D b -> D c -> lt a b = true -> lt b c = true -> lt a c = true.
  Hypothesis lt_total : forall a b, D a -> D b -> a <> b -> lt a b = true \/ lt b a = true.

  Let ltb (x y : A) : bool := lt (key x) (key y).
  Let R (x y : A) : Prop := ltb x y = true.
  Let Dk (x : A) : Prop := D (key x).

  Lemma insert_sorted_ssorted x l :
    Dk x -> Forall Dk l -> ~ In (key x) (map key l) ->
    StronglySorted R l -> StronglySorted R (insert_sorted ltb x l).
  Proof.
    intros Hx. induction l as [|y t IH]; intros HD Hnin Hs; cbn [insert_sorted].
    - constructor; constructor.
    - inversion HD as [|? ? Hy HDt]; subst.
      inversion Hs as [|? ? Hst Hyt]; subst.
      destruct (ltb y x) eqn:E.
      + constructor.
        * apply IH; [exact HDt| |exact Hst].
          intro Hin. apply Hnin. right. exact Hin.
        * eapply Permutation_Forall; [apply insert_sorted_perm|].
          constructor; [exact E|exact Hyt].
      + assert (Hxy : R x y).
        { destruct (lt_total (key x) (key y) Hx Hy) as [H|H].
          - intro Heq. apply Hnin. left. symmetry. exact Heq.
          - exact H.
          - unfold ltb in E. rewrite E in H. discriminate H. }
        constructor; [exact Hs|].
        constructor; [exact Hxy|].
        rewrite Forall_forall in Hyt, HDt |- *.
        intros z Hz. unfold R, ltb.
        apply (lt_trans (key x) (key y) (key z) Hx Hy (HDt z Hz) Hxy (Hyt z Hz)).
  Qed.

  Lemma isort_ssorted l :
    Forall Dk l -> NoDup (map key l) -> StronglySorted R (isort ltb l).
  Proof.
    induction l as [|x t IH]; intros HD Hnd; cbn [isort fold_right].
    - constructor.
    - inversion HD as [|? ? Hx HDt]; subst.
      cbn [map] in Hnd. inversion Hnd as [|? ? Hnin Hndt]; subst.
      apply insert_sorted_ssorted.
      + exact Hx.
      + eapply Permutation_Forall; [apply isort_perm|exact HDt].
      + intro Hin. apply Hnin.
        eapply Permutation_in; [apply Permutation_sym, Permutation_map, isort_perm|exact Hin].
      + apply IH; assumption.
  Qed.

  Lemma ssorted_perm_eq l1 : forall l2,
    Forall Dk l1 -> StronglySorted R l1 -> StronglySorted R l2 -> Permutation l1 l2 -> l1 = l2.
  Proof.
    induction l1 as [|a t1 IH]; intros l2 HD Hs1 Hs2 Hp.
    - apply Permutation_nil in Hp. symmetry. exact Hp.
    - destruct l2 as [|b t2].
      + apply Permutation_sym, Permutation_nil in Hp. discriminate Hp.
      + inversion HD as [|? ? Ha HDt]; subst.
        inversion Hs1 as [|? ? Hst1 Hat1]; subst.
        inversion Hs2 as [|? ? Hst2 Hbt2]; subst.
        assert (Hab : a = b).
        { assert (Hina : In a (b :: t2)) by (eapply Permutation_in; [exact Hp|left; reflexivity]).
          assert (Hinb : In b (a :: t1))
            by (eapply Permutation_in; [apply Permutation_sym; exact Hp|left; reflexivity]).
          destruct Hina as [Hina|Hina]; [symmetry; exact Hina|].
          destruct Hinb as [Hinb|Hinb]; [exact Hinb|].
          exfalso.
          rewrite Forall_forall in Hat1, Hbt2, HDt.
          pose proof (Hat1 b Hinb) as H1. pose proof (Hbt2 a Hina) as H2.
          pose proof (HDt b Hinb) as Hb.
          unfold R, ltb in H1, H2.
          pose proof (lt_trans _ _ _ Ha Hb Ha H1 H2) as H3.
          rewrite (lt_irrefl _ Ha) in H3. discriminate H3. }
        subst b. f_equal.
        apply IH; [exact HDt|exact Hst1|exact Hst2|].
        eapply Permutation_cons_inv. exact Hp.
  Qed.

  Lemma isort_perm_eq l1 l2 :
    Forall (fun x => D (key x)) l1 -> NoDup (map key l1) -> Permutation l1 l2 ->
    isort (fun x y => lt (key x) (key y)) l1 = isort (fun x y => lt (key x) (key y)) l2.
  Proof.
    intros HD Hnd Hp.
    assert (HD2 : Forall Dk l2) by (eapply Permutation_Forall; [exact Hp|exact HD]).
    assert (Hnd2 : NoDup (map key l2))
      by (eapply Permutation_NoDup; [apply Permutation_map; exact Hp|exact Hnd]).
    apply ssorted_perm_eq.
    - eapply Permutation_Forall; [apply isort_perm|exact HD].
    - apply isort_ssorted; assumption.
    - apply isort_ssorted; assumption.
    - eapply Permutation_trans; [apply Permutation_sym, isort_perm|].
      eapply Permutation_trans; [exact Hp|]. apply isort_perm.
  Qed.
End SortCore.

(* ------------------------------------------------------------------------------------------ *)
(* The key order.                                                                              *)
(* ------------------------------------------------------------------------------------------ *)

Lemma b2n_inj x y : b2n x = b2n y -> x = y.
Proof. intro H. rewrite <- (n2b_b2n x), <- (n2b_b2n y), H. reflexivity. Qed.

Lemma bytes_ltb_irrefl a : bytes_ltb a a = false.
Proof.
  induction a as [|x a IH]; cbn [bytes_ltb]; [reflexivity|].
  rewrite N.ltb_irrefl. exact IH.
Qed.

Lemma bytes_ltb_trans a : forall b c, bytes_ltb a b = true -> bytes_ltb b c = true -> bytes_ltb a c = true.
Proof.
  induction a as [|x a IH]; intros b c Hab Hbc.
  - destruct b as [|y b]; [discriminate Hab|].
    destruct c as [|z c]; [discriminate Hbc|]. reflexivity.
  - destruct b as [|y b]; [discriminate Hab|].
    destruct c as [|z c]; [destruct b; discriminate Hbc|].
    cbn [bytes_ltb] in *.
    destruct (N.ltb_spec (b2n x) (b2n y)) as [Hxy|Hxy].
    + destruct (N.ltb_spec (b2n y) (b2n z)) as [Hyz|Hyz].
      * destruct (N.ltb_spec (b2n x) (b2n z)); [reflexivity|lia].
      * destruct (N.ltb_spec (b2n z) (b2n y)) as [Hzy|Hzy]; [discriminate Hbc|].
        destruct (N.ltb_spec (b2n x) (b2n z)); [reflexivity|lia].
    + destruct (N.ltb_spec (b2n y) (b2n x)) as [Hyx|Hyx]; [discriminate Hab|].
      destruct (N.ltb_spec (b2n y) (b2n z)) as [Hyz|Hyz].
      * destruct (N.ltb_spec (b2n x) (b2n z)); [reflexivity|lia].
      * destruct (N.ltb_spec (b2n z) (b2n y)) as [Hzy|Hzy]; [discriminate Hbc|].
        destruct (N.ltb_spec (b2n x) (b2n z)); [reflexivity|].
        destruct (N.ltb_spec (b2n z) (b2n x)); [lia|].
        eapply IH; eassumption.
Qed.

Lemma bytes_ltb_total a : forall b, a <> b -> bytes_ltb a b = true \/ bytes_ltb b a = true.
Proof.
  induction a as [|x a IH]; intros b Hne.
  - destruct b as [|y b]; [congruence|]. left. reflexivity.
  - destruct b as [|y b]; [right; reflexivity|].
    cbn [bytes_ltb].
    destruct (N.ltb_spec (b2n x) (b2n y)) as [Hxy|Hxy]; [left; reflexivity|].
    destruct (N.ltb_spec (b2n y) (b2n x)) as [Hyx|Hyx]; [right; reflexivity|].
    assert (x = y) by (apply b2n_inj; lia). subst y.
    apply IH. congruence.
Qed.

(* shape of a well-typed key of a legal key kind *)
Inductive key_shape (kk : kind) (a : val) : Prop :=
| KSBool b : kk = KBool -> a = VBool b -> key_shape kk a
| KSStr l : kk = KString -> a = VBytes l -> key_shape kk a
| KSInt z : kk <> KBool -> kk <> KString -> a = VInt z -> key_shape kk a.

Lemma key_shape_of_wt kk a : legal_key kk = true -> wt_scalar kk a = true -> key_shape kk a.
Proof.
  intros Hl Hw.
  destruct kk; try discriminate Hl; destruct a; try discriminate Hw;
    first [ eapply KSBool; reflexivity | eapply KSStr; reflexivity
          | eapply KSInt; [discriminate|discriminate|reflexivity] ].
Qed.

Lemma key_ltb_gen kk a b : key_shape kk a -> key_shape kk b -> key_ltb kk a b = gen_key_ltb a b.
Proof.
  intros Ha Hb.
  destruct Ha as [x Hk Ha|x Hk Ha|x Hk1 Hk2 Ha]; destruct Hb as [y Hk' Hb|y Hk' Hb|y Hk1' Hk2' Hb];
    subst; try congruence; try reflexivity.
  destruct kk; try congruence; reflexivity.
Qed.

Lemma gen_key_ltb_irrefl kk a : key_shape kk a -> gen_key_ltb a a = false.
Proof.
  intros Ha. destruct Ha as [x Hk Ha|x Hk Ha|x Hk1 Hk2 Ha]; subst; cbn [gen_key_ltb].
  - destruct x; reflexivity.
  - apply bytes_ltb_irrefl.
  - apply Z.ltb_irrefl.
Qed.

Lemma gen_key_ltb_trans kk a b c : key_shape kk a -> key_shape kk b -> key_shape kk c ->
  gen_key_ltb a b = true -> gen_key_ltb b c = true -> gen_key_ltb a c = true.
Proof.
  intros Ha Hb Hc.
  destruct Ha as [x Hk Ha|x Hk Ha|x Hk1 Hk2 Ha]; destruct Hb as [y Hk' Hb|y Hk' Hb|y Hk1' Hk2' Hb];
    subst; try congruence;
    destruct Hc as [z Hk'' Hc|z Hk'' Hc|z Hk1'' Hk2'' Hc]; subst; try congruence; cbn [gen_key_ltb].
  - destruct x, y, z; cbn; congruence.
  - apply bytes_ltb_trans.
  - intros H1 H2. lia.
Qed.

Lemma gen_key_ltb_total kk a b : key_shape kk a -> key_shape kk b -> a <> b ->
  gen_key_ltb a b = true \/ gen_key_ltb b a = true.
Proof.
  intros Ha Hb Hne.
  destruct Ha as [x Hk Ha|x Hk Ha|x Hk1 Hk2 Ha]; destruct Hb as [y Hk' Hb|y Hk' Hb|y Hk1' Hk2' Hb];
    subst; try congruence; cbn [gen_key_ltb].
  - destruct x, y; cbn; try (left; reflexivity); try (right; reflexivity); congruence.
  - apply bytes_ltb_total. congruence.
  - assert (x <> y) by congruence. lia.
Qed.

Lemma val_key_eqb_refl kk a : key_shape kk a -> val_key_eqb a a = true.
Proof.
  intros Ha. destruct Ha as [x Hk Ha|x Hk Ha|x Hk1 Hk2 Ha]; subst; cbn [val_key_eqb].
  - destruct x; reflexivity.
  - destruct (list_eq_dec Byte.byte_eq_dec x x); congruence.
  - apply Z.eqb_refl.
Qed.

Lemma nodup_keys_NoDup kk l : Forall (key_shape kk) l -> nodup_keys l = true -> NoDup l.
Proof.
  induction l as [|x t IH]; intros HD Hn.
  - constructor.
  - inversion HD as [|? ? Hx HDt]; subst.
    cbn [nodup_keys] in Hn. apply andb_true_iff in Hn. destruct Hn as [Hn1 Hn2].
    constructor.
    + intro Hin. apply negb_true_iff in Hn1.
      assert (existsb (val_key_eqb x) t = true).
      { apply existsb_exists. exists x. split; [exact Hin|]. eapply val_key_eqb_refl; exact Hx. }
      congruence.
    + apply IH; assumption.
Qed.

(* the two instances of the core lemma *)
Lemma isort_gen_perm {B} kk (l1 l2 : list (val * B)) :
  Forall (fun x => key_shape kk (fst x)) l1 -> NoDup (map fst l1) -> Permutation l1 l2 ->
  isort (fun a b => gen_key_ltb (fst a) (fst b)) l1 = isort (fun a b => gen_key_ltb (fst a) (fst b)) l2.
Proof.
  intros HD Hnd Hp.
  apply (isort_perm_eq (@fst val B) gen_key_ltb (key_shape kk)).
  - intros a Ha. eapply gen_key_ltb_irrefl; exact Ha.
  - intros a b c Ha Hb Hc. eapply gen_key_ltb_trans; eassumption.
  - intros a b Ha Hb. eapply gen_key_ltb_total; eassumption.
  - exact HD.
  - exact Hnd.
  - exact Hp.
Qed.

Lemma isort_key_perm {B} kk (l1 l2 : list (val * B)) :
  Forall (fun x => key_shape kk (fst x)) l1 -> NoDup (map fst l1) -> Permutation l1 l2 ->
  isort (fun a b => key_ltb kk (fst a) (fst b)) l1 = isort (fun a b => key_ltb kk (fst a) (fst b)) l2.
Proof.
  intros HD Hnd Hp.
  apply (isort_perm_eq (@fst val B) (key_ltb kk) (key_shape kk)).
  - intros a Ha. rewrite key_ltb_gen by assumption. eapply gen_key_ltb_irrefl; exact Ha.
  - intros a b c Ha Hb Hc. rewrite !key_ltb_gen by assumption. eapply gen_key_ltb_trans; eassumption.
  - intros a b Ha Hb. rewrite !key_ltb_gen by assumption. eapply gen_key_ltb_total; eassumption.
  - exact HD.
  - exact Hnd.
  - exact Hp.
Qed.

(* ------------------------------------------------------------------------------------------ *)
(* canon: unfolding lemmas, and the two small targets.                                         *)
(* ------------------------------------------------------------------------------------------ *)

Definition cv (kv : val * val) : val * val := (fst kv, canon (snd kv)).

Lemma canon_VMap_cons e l :
  canon (VMap (e :: l)) =
  VMap (isort (fun a b => gen_key_ltb (fst a) (fst b)) (map cv (e :: l))).
Proof. reflexivity. Qed.

Lemma canon_VList_cons e l : canon (VList (e :: l)) = VList (map canon (e :: l)).
Proof. reflexivity. Qed.

Lemma canon_VMsg slots unk : canon (VMsg slots unk) = VMsg (map canon slots) unk.
Proof. reflexivity. Qed.

Lemma canon_VSome p : canon (VSome p) = VSome (canon p).
Proof. reflexivity. Qed.

Lemma canon_scalar k v : wt_scalar k v = true -> canon v = v.
Proof. intro H. destruct v; try reflexivity; destruct k; discriminate H. Qed.

Lemma keys_shape kk (kvs : list (val * val)) :
  legal_key kk = true -> forallb (fun kv => wt_scalar kk (fst kv)) kvs = true ->
  Forall (fun kv => key_shape kk (fst kv)) kvs.
Proof.
  intros Hl Hw. rewrite forallb_forall in Hw. apply Forall_forall. intros kv Hin.
  apply key_shape_of_wt; [exact Hl|]. apply Hw. exact Hin.
Qed.

Lemma canon_map_perm kk kvs1 kvs2 : legal_key kk = true -> Permutation kvs1 kvs2 ->
  nodup_keys (map fst kvs1) = true -> forallb (fun kv => wt_scalar kk (fst kv)) kvs1 = true ->
  canon (VMap kvs1) = canon (VMap kvs2).
Proof.
  intros Hl Hp Hnd Hw.
  destruct kvs1 as [|e1 l1].
  - apply Permutation_nil in Hp. subst kvs2. reflexivity.
  - destruct kvs2 as [|e2 l2].
    + apply Permutation_sym, Permutation_nil in Hp. discriminate Hp.
    + rewrite !canon_VMap_cons. f_equal.
      pose proof (keys_shape kk _ Hl Hw) as Hks.
      apply (isort_gen_perm kk).
      * apply Forall_forall. intros x Hin. apply in_map_iff in Hin.
        destruct Hin as [kv [Hx Hin]]. subst x. unfold cv. cbn [fst].
        rewrite Forall_forall in Hks. apply Hks. exact Hin.
      * rewrite map_map. unfold cv. cbn [fst].
        apply (nodup_keys_NoDup kk); [|exact Hnd].
        apply Forall_forall. intros x Hin. apply in_map_iff in Hin.
        destruct Hin as [kv [Hx Hin]]. subst x.
        rewrite Forall_forall in Hks. apply Hks. exact Hin.
      * apply Permutation_map. exact Hp.
Qed.

Lemma canon_nil_empty : canon (VList []) = canon VNil /\ canon (VMap []) = canon VNil.
Proof. split; reflexivity. Qed.

(* ------------------------------------------------------------------------------------------ *)
(* emit / wt_msg with named zip functions.                                                     *)
(* ------------------------------------------------------------------------------------------ *)

Fixpoint zipf {B} (g : field -> val -> B) (fs : list field) (ss : list val) : list B :=
  match ss, fs with s :: ss', f :: fs' => g f s :: zipf g fs' ss' | _, _ => [] end.

Fixpoint wt_slots (sch : schema) (fs : list field) (ss : list val) : bool :=
  match ss, fs with
  | s :: ss', f :: fs' => wt_slot (wt_msg sch) f s && wt_slots sch fs' ss'
  | [], [] => true
  | _, _ => false
  end.

Lemma emit_unfold sch det mid slots unk :
  emit sch det mid (VMsg slots unk) =
  match get_msg sch mid with
  | None => []
  | Some md => assemble md (zipf (fun f s => (f, emit_field det (emit sch det) f s)) (m_fields md) slots) ++ unk
  end.
Proof.
  simpl. destruct (get_msg sch mid) as [md|]; [|reflexivity].
  f_equal. f_equal. generalize (m_fields md) as fs.
  induction slots as [|s ss IH]; intros fs; destruct fs as [|f fs]; simpl; try reflexivity.
  f_equal. apply IH.
Qed.

Lemma wt_msg_unfold sch mid slots unk :
  wt_msg sch mid (VMsg slots unk) =
  match get_msg sch mid with
  | None => false
  | Some md => wt_slots sch (m_fields md) slots
               && forallb (fun oi => (oneof_count (m_fields md) slots oi <=? 1)%nat) (seq 0 (m_oneofs md))
  end.
Proof.
  simpl. destruct (get_msg sch mid) as [md|]; [|reflexivity].
  f_equal. generalize (m_fields md) as fs.
  induction slots as [|s ss IH]; intros fs; destruct fs as [|f fs]; simpl; try reflexivity.
  f_equal. apply IH.
Qed.

Section Main.
  Variable sch : schema.

  Definition Pm (v : val) : Prop :=
    forall mid, wt_msg sch mid v = true -> emit sch true mid (canon v) = emit sch true mid v.
  Definition field_legal (f : field) : Prop :=
    forall kk, f_shape f = MapOf kk -> legal_key kk = true.
  Definition Ps (v : val) : Prop :=
    forall f, field_legal f -> wt_slot (wt_msg sch) f v = true ->
      emit_field true (emit sch true) f (canon v) = emit_field true (emit sch true) f v.

  Lemma Pe_of_Pm v : Pm v -> forall t, wt_elem (wt_msg sch) t v = true ->
    emit_elem (emit sch true) t (canon v) = emit_elem (emit sch true) t v.
  Proof.
    intros Hm t Hw. destruct t as [k|m]; cbn [wt_elem] in Hw.
    - rewrite (canon_scalar k v Hw). reflexivity.
    - cbn [emit_elem]. destruct v; try reflexivity; rewrite (Hm m Hw); reflexivity.
  Qed.

  Lemma map_elem_canon (h : list byte -> list byte) t L :
    Forall Pm L -> forallb (wt_elem (wt_msg sch) t) L = true ->
    map (fun x => h (emit_elem (emit sch true) t x)) (map canon L) =
    map (fun x => h (emit_elem (emit sch true) t x)) L.
  Proof.
    intros HP Hw. rewrite map_map. apply map_ext_in. intros x Hin.
    rewrite Forall_forall in HP. rewrite forallb_forall in Hw.
    rewrite (Pe_of_Pm x (HP x Hin) t (Hw x Hin)). reflexivity.
  Qed.

  (* slots that are scalars / nil: canon is the identity *)
  Lemma Ps_id v : canon v = v -> Ps v.
  Proof. intros H f _ _. rewrite H. reflexivity. Qed.

  Lemma Ps_VSome p : Pm p -> Ps (VSome p).
  Proof.
    intros Hm f _ Hw. rewrite canon_VSome. unfold wt_slot in Hw. unfold emit_field.
    destruct (f_shape f) as [|pk|oi|kk].
    - destruct (f_ty f) as [k|m]; cbn [wt_elem] in Hw.
      + destruct k; discriminate Hw.
      + simpl in Hw. discriminate Hw.
    - discriminate Hw.
    - rewrite (Pe_of_Pm p Hm _ Hw). reflexivity.
    - discriminate Hw.
  Qed.

  Lemma Ps_VMsg slots unk : Pm (VMsg slots unk) -> Ps (VMsg slots unk).
  Proof.
    intros Hm f _ Hw. unfold wt_slot in Hw. unfold emit_field.
    destruct (f_shape f) as [|pk|oi|kk]; try discriminate Hw.
    destruct (f_ty f) as [k|m]; cbn [wt_elem] in Hw.
    - destruct k; discriminate Hw.
    - rewrite (Hm m Hw). rewrite canon_VMsg. reflexivity.
  Qed.

  Lemma Ps_VList l : Forall Pm l -> Ps (VList l).
  Proof.
    intros HP f _ Hw. unfold wt_slot in Hw. unfold emit_field.
    destruct (f_shape f) as [|pk|oi|kk].
    - destruct (f_ty f) as [k|m]; cbn [wt_elem] in Hw.
      + destruct k; discriminate Hw.
      + simpl in Hw. discriminate Hw.
    - destruct l as [|e l]; [reflexivity|].
      rewrite canon_VList_cons.
      assert (HL : map canon (e :: l) = canon e :: map canon l) by reflexivity.
      rewrite HL.
      destruct pk.
      + rewrite <- HL. f_equal. f_equal. f_equal.
        apply (map_elem_canon (fun x => x) (f_ty f) (e :: l) HP Hw).
      + rewrite <- HL. f_equal.
        apply (map_elem_canon (fun x => key_bytes (f_num f) (ftype_wt (f_ty f)) ++ x) (f_ty f) (e :: l) HP Hw).
    - discriminate Hw.
    - discriminate Hw.
  Qed.

  Lemma Ps_VMap kvs : Forall (fun kv => Pm (snd kv)) kvs -> Ps (VMap kvs).
  Proof.
    intros HP f Hleg Hw. unfold wt_slot in Hw. unfold emit_field.
    destruct (f_shape f) as [|pk|oi|kk] eqn:Hsh.
    - destruct (f_ty f) as [k|m]; cbn [wt_elem] in Hw.
      + destruct k; discriminate Hw.
      + simpl in Hw. discriminate Hw.
    - discriminate Hw.
    - discriminate Hw.
    - destruct kvs as [|e l]; [reflexivity|].
      rewrite canon_VMap_cons.
      remember (e :: l) as kvs eqn:Hk. clear Hk e l.
      apply andb_true_iff in Hw. destruct Hw as [Hw1 Hw2].
      rewrite forallb_forall in Hw1. rewrite Forall_forall in HP.
      pose proof (Hleg kk Hsh) as Hl.
      assert (Hks : forall kv, In kv kvs -> key_shape kk (fst kv)).
      { intros kv Hin. apply key_shape_of_wt; [exact Hl|].
        specialize (Hw1 kv Hin). apply andb_true_iff in Hw1. apply Hw1. }
      f_equal. f_equal. symmetry. apply (isort_key_perm kk).
      + apply Forall_forall. intros x Hin. apply in_map_iff in Hin.
        destruct Hin as [kv [Hx Hin]]. subst x. cbn [fst]. apply Hks. exact Hin.
      + rewrite map_map. cbn [fst].
        apply (nodup_keys_NoDup kk); [|exact Hw2].
        apply Forall_forall. intros x Hin. apply in_map_iff in Hin.
        destruct Hin as [kv [Hx Hin]]. subst x. apply Hks. exact Hin.
      + eapply Permutation_trans; [|apply Permutation_map, isort_perm].
        rewrite map_map.
        match goal with |- Permutation ?a ?b => assert (Heq : a = b) end.
        { apply map_ext_in. intros kv Hin. unfold cv at 1. cbn [fst]. f_equal.
          unfold emit_entry, cv. cbn [fst snd].
          specialize (Hw1 kv Hin). apply andb_true_iff in Hw1. destruct Hw1 as [_ Hw1].
          rewrite (Pe_of_Pm (snd kv) (HP kv Hin) (f_ty f) Hw1). reflexivity. }
        rewrite Heq. apply Permutation_refl.
  Qed.

  Lemma zipf_canon fs : forall slots,
    Forall field_legal fs -> Forall Ps slots -> wt_slots sch fs slots = true ->
    zipf (fun f s => (f, emit_field true (emit sch true) f s)) fs (map canon slots) =
    zipf (fun f s => (f, emit_field true (emit sch true) f s)) fs slots.
  Proof.
    induction fs as [|f fs IH]; intros slots HL HP Hw; destruct slots as [|s ss]; cbn [map zipf]; try reflexivity.
    inversion HL as [|? ? Hf HLt]; subst. inversion HP as [|? ? Hs HPt]; subst.
    cbn [wt_slots] in Hw. apply andb_true_iff in Hw. destruct Hw as [Hw1 Hw2].
    rewrite (Hs f Hf Hw1). f_equal. apply IH; assumption.
  Qed.

  Hypothesis Hwf : wf sch = true.

  Lemma wf_field_legal mid md : get_msg sch mid = Some md -> Forall field_legal (m_fields md).
  Proof.
    intros Hg. unfold get_msg in Hg. apply nth_error_In in Hg.
    unfold wf in Hwf. rewrite forallb_forall in Hwf. specialize (Hwf md Hg).
    unfold msg_wf in Hwf. apply andb_true_iff in Hwf. destruct Hwf as [H1 _].
    rewrite forallb_forall in H1. apply Forall_forall. intros f Hin kk Hsh.
    specialize (H1 f Hin). unfold field_wf in H1. rewrite Hsh in H1.
    apply andb_true_iff in H1. apply H1.
  Qed.

  Lemma canon_P : forall v, Pm v /\ Ps v.
  Proof.
    apply val_ind'.
    - intros z. split; [intros mid H; discriminate H|apply Ps_id; reflexivity].
    - intros b. split; [intros mid H; discriminate H|apply Ps_id; reflexivity].
    - intros n. split; [intros mid H; discriminate H|apply Ps_id; reflexivity].
    - intros l. split; [intros mid H; discriminate H|apply Ps_id; reflexivity].
    - split; [intros mid H; discriminate H|apply Ps_id; reflexivity].
    - intros v [Hm _]. split; [intros mid H; discriminate H|apply Ps_VSome; exact Hm].
    - intros slots unk IH.
      assert (Hm : Pm (VMsg slots unk)).
      { intros mid Hw. rewrite wt_msg_unfold in Hw. rewrite canon_VMsg, !emit_unfold.
        destruct (get_msg sch mid) as [md|] eqn:Hg; [|discriminate Hw].
        apply andb_true_iff in Hw. destruct Hw as [Hw _].
        f_equal. f_equal. apply zipf_canon.
        - eapply wf_field_legal. exact Hg.
        - eapply Forall_impl; [|exact IH]. intros a [_ Ha]. exact Ha.
        - exact Hw. }
      split; [exact Hm|apply Ps_VMsg; exact Hm].
    - intros l IH. split; [intros mid H; discriminate H|].
      apply Ps_VList. eapply Forall_impl; [|exact IH]. intros a [Ha _]. exact Ha.
    - intros kvs IH. split; [intros mid H; discriminate H|].
      apply Ps_VMap. eapply Forall_impl; [|exact IH]. intros a [_ [Ha _]]. exact Ha.
  Qed.
End Main.

Lemma emit_canon sch : wf sch = true -> forall v mid, wt_msg sch mid v = true -> emit sch true mid (canon v) = emit sch true mid v.
Proof. intros Hwf v mid Hw. apply (proj1 (canon_P sch Hwf v)). exact Hw. Qed.

Lemma det_canon_invariant sch mid v1 v2 : wf sch = true -> wt_msg sch mid v1 = true -> wt_msg sch mid v2 = true ->
  canon v1 = canon v2 -> emit sch true mid v1 = emit sch true mid v2.
Proof.
  intros Hwf H1 H2 Hc.
  rewrite <- (emit_canon sch Hwf v1 mid H1), <- (emit_canon sch Hwf v2 mid H2), Hc. reflexivity.
Qed.
