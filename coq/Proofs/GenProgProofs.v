(* Proofs/GenProgProofs.v — the statements of Model/GenProg.v (task T17): the canonical programs of the plugin's decision logic,
   interpreted, are GenNames.v's renaming and GenOrder.v's feature selection. *)
From CP Require Import Bytes GenNames GenOrder GoFun GenProg GenNamesProofs GenOrderProofs.
From Coq Require Import Permutation Sorted Lia.
Local Open Scope nat_scope.

(* ---- association lists -------------------------------------------------------------------------------------------------- *)
Lemma gpp_map_get_keys : forall g (m : gpmap), gpp_map_get g m <> None <-> existsb (name_eqb g) (map fst m) = true.
Proof.
  induction m as [|[k v] m IH]; simpl.
  - split; [congruence | discriminate].
  - destruct (name_eqb g k); simpl; [split; [reflexivity | discriminate] | exact IH].
Qed.

(* ---- (c) the reservedFieldNames literal ----------------------------------------------------------------------------------- *)
Lemma reserved_literal : reserved_literal_stmt.
Proof.
  intros perm sorter feat_gen st. eexists. split; [reflexivity | split; [reflexivity |]].
  intro g. rewrite gpp_map_get_keys. reflexivity.
Qed.

(* ---- unfolding equations of the interpreter --------------------------------------------------------------------------------- *)
Section Unfold.
  Variable perm : gpmap -> gpmap.
  Variable sorter : (gpvalue -> gpvalue -> bool) -> list gpvalue -> list gpvalue.
  Variable feat_gen : gpvalue -> bool.
  Variable call : gname -> list gpvalue -> gpstate -> gpres (list gpvalue).

  Definition gpp_range_step (k v : gname) (body : list gpstmt) (it : gpvalue * gpvalue) (st : gpstate) : gpres gpsig :=
    gpp_scoped (gpp_block perm sorter feat_gen call) (gpp_bind_item k v it) body st.

  Lemma gpp_block_nil : forall st, gpp_block perm sorter feat_gen call [] st = GpOk GsgNext st.
  Proof. reflexivity. Qed.
  Lemma gpp_block_cons : forall s t st,
    gpp_block perm sorter feat_gen call (s :: t) st =
    match gpp_exec perm sorter feat_gen call s st with GpOk GsgNext st' => gpp_block perm sorter feat_gen call t st' | r => r end.
  Proof. reflexivity. Qed.

  Lemma gpp_exec_range : forall k v e body st,
    gpp_exec perm sorter feat_gen call (GpsRange k v e body) st =
    gpp_bind1 (gpp_eval feat_gen call e st) (fun ve st1 =>
      match ve with
      | GpvSlice l => gpp_loop (gpp_range_step k v body) (gpp_index_items 0 l) st1
      | GpvMap None => GpOk GsgNext st1
      | GpvMap (Some c) =>
        match gpp_heap_get (gpp_maps st1) c with
        | Some m => gpp_loop (gpp_range_step k v body) (map (fun kv => (GpvStr (fst kv), snd kv)) (perm m)) st1
        | None => GpStuck
        end
      | _ => GpStuck
      end).
  Proof. reflexivity. Qed.
End Unfold.

(* ---- symbolic execution ------------------------------------------------------------------------------------------------------
   The head statement of a block is executed in isolation (a small goal `gpp_exec … s st = ?result`, solved by reduction and the
   rewrites the caller names) and the result is rewritten into the main goal: the continuation is never reduced while a lookup in a
   symbolic table is stuck (conversion of two big stuck terms is what makes Qed diverge). *)
Arguments gpp_block : simpl never.
Arguments gpp_loop : simpl never.
Arguments gpp_glob_get : simpl never.
Arguments gpp_heap_get : simpl never.
Arguments gpp_map_get : simpl never.
Arguments gpp_map_set : simpl never.
Arguments gpp_get_msg : simpl never.
Arguments gpp_set_msg : simpl never.
(* states are kept as explicit records: gpp_with_… mention the state once per field, so nests of them grow exponentially under conversion *)
Arguments gpp_pop st /.
Arguments gpp_push fr st /.
Arguments gpp_with_env st en /.
Arguments gpp_with_glob st g /.
Arguments gpp_with_maps st m /.
Arguments gpp_with_files st f /.
Arguments gpp_with_outs st o /.
Arguments gpp_with_err st e /.
Ltac ss := simpl; cbn.
Ltac exec_head tac :=
  rewrite gpp_block_cons;
  match goal with
  | |- context [gpp_exec ?p ?s ?f ?c ?stm ?st] =>
    let H := fresh "Hx" in
    eassert (H : gpp_exec p s f c stm st = _); [ tac | rewrite H; clear H ]
  end.
Ltac loop_head :=
  match goal with |- context [gpp_loop ?f (?it :: ?rest) ?st] => change (gpp_loop f (it :: rest) st) with
      (match f it st with
       | GpOk GsgNext st' | GpOk GsgContinue st' => gpp_loop f rest st'
       | GpOk GsgBreak st' => GpOk GsgNext st'
       | r => r
       end) end.

Lemma nth_error_snoc_new : forall {A} (M : list A) (m : A), nth_error (M ++ [m]) (length M) = Some m.
Proof. intros. rewrite nth_error_app2 by lia. rewrite Nat.sub_diag. reflexivity. Qed.
Lemma gpp_heap_get_snoc_new : forall M m, gpp_heap_get (M ++ [m]) (length M) = Some m.
Proof. intros. apply nth_error_snoc_new. Qed.
Lemma gpp_heap_get_snoc_old : forall M m c x, gpp_heap_get M c = Some x -> gpp_heap_get (M ++ [m]) c = Some x.
Proof. unfold gpp_heap_get. intros M m c x H. rewrite nth_error_app1; [exact H | apply nth_error_Some; congruence]. Qed.
Lemma gpp_list_set_snoc : forall {A} (M : list A) (m x : A), gpp_list_set (length M) x (M ++ [m]) = M ++ [x].
Proof. induction M as [|a M IH]; intros; simpl; [reflexivity | rewrite IH; reflexivity]. Qed.

(* ---- (a) findFeatures ---------------------------------------------------------------------------------------------------------- *)
(* the loop over featureNames, as a function of the map `required` *)
Inductive req_res := ReqErr (n : name) (m : gpmap) | ReqAll (m : gpmap) | ReqDone (m : gpmap).
Fixpoint req_loop (reg : gpmap) (names : list name) (m : gpmap) : req_res :=
  match names with
  | [] => ReqDone m
  | n :: r => if name_eqb n s_all then ReqAll m
              else match gpp_map_get n reg with None => ReqErr n m | Some v => req_loop reg r (gpp_map_set n v m) end
  end.
Definition ff_mk (kv : name * gpvalue) : gpvalue := GpvStruct "namefeat" [("name"%gname, GpvStr (fst kv)); ("feat"%gname, snd kv)].

Section FF.
  Variable perm : gpmap -> gpmap.
  Variable sorter : (gpvalue -> gpvalue -> bool) -> list gpvalue -> list gpvalue.
  Variable feat_gen : gpvalue -> bool.
  Variable call : gname -> list gpvalue -> gpstate -> gpres (list gpvalue).
  Variables (G : gpframe) (M : list gpmap) (F : list pfile) (O : list pout) (P : list (name * name)) (E : option (gname * list name)).
  Variable V : gpvalue.
  Variables (c : nat) (reg : gpmap).
  Hypothesis HG : gpp_glob_get "defaultFeatures"%gname G = Some (GpvMap (Some c)).
  Hypothesis HM : forall m, gpp_heap_get (M ++ [m]) c = Some reg.

  Notation ST1 rv m :=
    {| gpp_env := [[("required"%gname, rv); ("featureNames"%gname, V)]]; gpp_glob := G; gpp_maps := M ++ [m]; gpp_files := F; gpp_outs := O;
       gpp_params := P; gpp_err := E |}.

  Lemma ff_names_loop : forall names k m,
    gpp_loop (gpp_range_step perm sorter feat_gen call "_" "name" canon_ff_names_body) (gpp_index_items k (map GpvStr names)) (ST1 (GpvMap (Some (length M))) m)
    = match req_loop reg names m with
      | ReqErr n m' => GpOk (GsgRet [GpvNil; GpvErr (Some (s_unknown_feature, [n]))]) (ST1 (GpvMap (Some (length M))) m')
      | ReqAll m' => GpOk GsgNext (ST1 (GpvMap (Some c)) m')
      | ReqDone m' => GpOk GsgNext (ST1 (GpvMap (Some (length M))) m')
      end.
  Proof.
    induction names as [|n names IH]; intros k m.
    - reflexivity.
    - simpl map. simpl gpp_index_items. simpl req_loop. loop_head.
      unfold gpp_range_step at 1. unfold gpp_scoped. unfold canon_ff_names_body.
      destruct (name_eqb n s_all) eqn:En.
      + exec_head ltac:(ss; unfold s_all in En; rewrite En; unfold gpp_scoped; ss; rewrite HG; ss; reflexivity).
        ss. reflexivity.
      + exec_head ltac:(ss; unfold s_all in En; rewrite En; ss; reflexivity).
        destruct (gpp_map_get n reg) as [v|] eqn:Ev.
        * exec_head ltac:(ss; rewrite HG; ss; rewrite HM; rewrite Ev; ss; reflexivity).
          exec_head ltac:(ss; reflexivity).
          exec_head ltac:(ss; rewrite gpp_heap_get_snoc_new; ss; rewrite gpp_list_set_snoc; reflexivity).
          rewrite gpp_block_nil. ss. fold canon_ff_names_body. apply IH.
        * exec_head ltac:(ss; rewrite HG; ss; rewrite HM; rewrite Ev; ss; reflexivity).
          exec_head ltac:(ss; reflexivity).
          ss. reflexivity.
  Qed.
End FF.

Section FF2.
  Variable perm : gpmap -> gpmap.
  Variable sorter : (gpvalue -> gpvalue -> bool) -> list gpvalue -> list gpvalue.
  Variable feat_gen : gpvalue -> bool.
  Variable call : gname -> list gpvalue -> gpstate -> gpres (list gpvalue).
  Variables (G : gpframe) (MM : list gpmap) (F : list pfile) (O : list pout) (P : list (name * name)) (E : option (gname * list name)).
  Variables (V RV : gpvalue).

  Notation ST2 acc :=
    {| gpp_env := [[("sorted"%gname, GpvSlice acc); ("namefeat"%gname, GpvType ["name"%gname; "feat"%gname]); ("required"%gname, RV);
                   ("featureNames"%gname, V)]];
       gpp_glob := G; gpp_maps := MM; gpp_files := F; gpp_outs := O; gpp_params := P; gpp_err := E |}.

  Lemma ff_required_loop : forall es acc,
    gpp_loop (gpp_range_step perm sorter feat_gen call "name" "feat" canon_ff_required_body) (map (fun kv => (GpvStr (fst kv), snd kv)) es) (ST2 acc)
    = GpOk GsgNext (ST2 (acc ++ map ff_mk es)).
  Proof.
    induction es as [|[k v] es IH]; intros acc.
    - simpl. rewrite app_nil_r. reflexivity.
    - simpl map. loop_head. unfold gpp_range_step at 1. unfold gpp_scoped. unfold canon_ff_required_body.
      exec_head ltac:(ss; reflexivity).
      rewrite gpp_block_nil. ss. fold canon_ff_required_body. rewrite IH. rewrite <- app_assoc. reflexivity.
  Qed.

  Notation ST3 sl fs :=
    {| gpp_env := [[("features"%gname, GpvSlice fs); ("sorted"%gname, GpvSlice sl); ("namefeat"%gname, GpvType ["name"%gname; "feat"%gname]);
                   ("required"%gname, RV); ("featureNames"%gname, V)]];
       gpp_glob := G; gpp_maps := MM; gpp_files := F; gpp_outs := O; gpp_params := P; gpp_err := E |}.

  Lemma ff_sorted_loop : forall sl es k fs,
    gpp_loop (gpp_range_step perm sorter feat_gen call "_" "sp" canon_ff_sorted_body) (gpp_index_items k (map ff_mk es)) (ST3 sl fs)
    = GpOk GsgNext (ST3 sl (fs ++ map snd es)).
  Proof.
    induction es as [|[k0 v] es IH]; intros k fs.
    - simpl. rewrite app_nil_r. reflexivity.
    - simpl map. simpl gpp_index_items. loop_head. unfold gpp_range_step at 1. unfold gpp_scoped. unfold canon_ff_sorted_body.
      exec_head ltac:(ss; reflexivity).
      rewrite gpp_block_nil. ss. fold canon_ff_sorted_body. rewrite IH. rewrite <- app_assoc. reflexivity.
  Qed.
End FF2.

Lemma ff_less : forall feat_gen call st a b,
  gpp_less feat_gen call "sorted" "i" "j" canon_ff_less st (ff_mk a) (ff_mk b) = Some (gpp_str_lt (fst a) (fst b)).
Proof. intros. reflexivity. Qed.

(* ---- lists of names: sorted permutations are unique ------------------------------------------------------------------------------ *)
Lemma name_eqb_sym : forall a b, name_eqb a b = name_eqb b a.
Proof.
  intros a b. destruct (name_eqb a b) eqn:E1; destruct (name_eqb b a) eqn:E2; auto.
  - apply name_eqb_eq in E1. subst. rewrite name_eqb_refl in E2. discriminate.
  - apply name_eqb_eq in E2. subst. rewrite name_eqb_refl in E1. discriminate.
Qed.
Lemma leb_refl : forall a, name_leb a a = true.
Proof. intro a. destruct (leb_total a a); assumption. Qed.
Lemma sort_of_sorted : forall l, sortedb l = true -> GenOrder.sort l = l.
Proof.
  induction l as [|a t IH]; intro H; [reflexivity|].
  change (GenOrder.sort (a :: t)) with (insert a (GenOrder.sort t)).
  destruct t as [|b t']; [reflexivity|].
  simpl in H. apply andb_prop in H. destruct H as [Hab Ht]. rewrite (IH Ht). simpl. rewrite Hab. reflexivity.
Qed.
Lemma sorted_perm_is_sort : forall l k, sortedb l = true -> Permutation l k -> l = GenOrder.sort k.
Proof. intros l k Hs Hp. rewrite <- (sort_of_sorted l Hs). apply sort_perm. exact Hp. Qed.

Lemma gpp_map_get_none : forall n (m : gpmap), gpp_map_get n m = None <-> ~ In n (map fst m).
Proof.
  intros n m. rewrite <- existsb_name_In. pose proof (gpp_map_get_keys n m) as [H1 H2].
  destruct (gpp_map_get n m) as [g|] eqn:E.
  - split; [discriminate|]. intro Hn. exfalso. apply Hn. apply H1. discriminate.
  - split; [|reflexivity]. intros _ Hx. apply H2 in Hx. apply Hx. reflexivity.
Qed.
Lemma gpp_map_get_in : forall (m : gpmap) k v, NoDup (map fst m) -> In (k, v) m -> gpp_map_get k m = Some v.
Proof.
  unfold gpp_map_get. induction m as [|[k' v'] m IH]; intros k v Hn Hi; [destruct Hi|].
  fold gpp_map_get in *. simpl in Hn. inversion Hn as [|? ? Hnot Hn']; subst. destruct Hi as [Hi|Hi].
  - inversion Hi; subst. simpl. rewrite name_eqb_refl. reflexivity.
  - simpl. destruct (name_eqb k k') eqn:Ek.
    + apply name_eqb_eq in Ek. subst. exfalso. apply Hnot. apply in_map_iff. exists (k', v). auto.
    + apply IH; assumption.
Qed.
Lemma gpp_map_get_some_in : forall (m : gpmap) k v, gpp_map_get k m = Some v -> exists k', name_eqb k k' = true /\ In (k', v) m.
Proof.
  unfold gpp_map_get. induction m as [|[k' v'] m IH]; intros k v H; [discriminate|]. fold gpp_map_get in *. simpl in H.
  destruct (name_eqb k k') eqn:Ek.
  - inversion H; subst. exists k'. split; [exact Ek | left; reflexivity].
  - destruct (IH k v H) as [k2 [H1 H2]]. exists k2. split; [exact H1 | right; exact H2].
Qed.
Lemma gpp_map_set_keys : forall n v (m : gpmap),
  map fst (gpp_map_set n v m) = if existsb (name_eqb n) (map fst m) then map fst m else map fst m ++ [n].
Proof.
  unfold gpp_map_set. induction m as [|[k w] m IH]; [reflexivity|]. fold gpp_map_set in *. simpl.
  destruct (name_eqb n k) eqn:Ek; simpl; [reflexivity|]. rewrite IH. destruct (existsb (name_eqb n) (map fst m)); reflexivity.
Qed.
Lemma gpp_map_set_in : forall n v (m : gpmap) k w, In (k, w) (gpp_map_set n v m) -> In (k, w) m \/ (k = n /\ w = v).
Proof.
  unfold gpp_map_set. induction m as [|[k' w'] m IH]; intros k w H; fold gpp_map_set in *.
  - destruct H as [H|[]]. inversion H; subst. right; auto.
  - simpl in H. destruct (name_eqb n k') eqn:Ek.
    + destruct H as [H|H]; [|left; right; exact H]. inversion H; subst. apply name_eqb_eq in Ek. subst. right; auto.
    + destruct H as [H|H]; [left; left; exact H|]. destruct (IH k w H) as [H1|H1]; [left; right; exact H1 | right; exact H1].
Qed.

(* the features registered are GenOrder.registry's: same keys *)
Lemma lookup_none : forall n, lookup n = None <-> ~ In n (map fst registry).
Proof.
  intro n. unfold lookup, registry, find. cbn [fst snd map].
  rewrite (name_eqb_sym s_fastf n), (name_eqb_sym s_protoc n).
  destruct (name_eqb n s_fastf) eqn:E1.
  - apply name_eqb_eq in E1; subst. split; [discriminate | intro H; exfalso; apply H; left; reflexivity].
  - destruct (name_eqb n s_protoc) eqn:E2.
    + apply name_eqb_eq in E2; subst. split; [discriminate | intro H; exfalso; apply H; right; left; reflexivity].
    + split; [|reflexivity]. intros _ [H|[H|[]]]; subst; rewrite name_eqb_refl in *; discriminate.
Qed.
Lemma reg_lookup : forall (reg : gpmap) n, Permutation (map fst reg) (map fst registry) -> (gpp_map_get n reg = None <-> lookup n = None).
Proof.
  intros reg n Hp. rewrite gpp_map_get_none, lookup_none. split; intros H Hi; apply H.
  - apply Permutation_in with (l := map fst registry); [apply Permutation_sym; exact Hp | exact Hi].
  - apply Permutation_in with (l := map fst reg); assumption.
Qed.
Lemma registry_nodup : NoDup (map fst registry).
Proof. apply nodupb_NoDup. reflexivity. Qed.

Definition req_inv (reg m : gpmap) : Prop := NoDup (map fst m) /\ forall k v, In (k, v) m -> gpp_map_get k reg = Some v.

Lemma req_loop_spec : forall reg, Permutation (map fst reg) (map fst registry) -> forall names m acc,
  req_inv reg m -> Permutation (map fst m) acc ->
  match req_loop reg names m with
  | ReqErr n _ => required names acc = None /\ gpp_first_unknown names = Some n
  | ReqAll _ => required names acc = Some (map fst registry)
  | ReqDone m' => req_inv reg m' /\ exists acc', required names acc = Some acc' /\ Permutation (map fst m') acc'
  end.
Proof.
  intros reg Hreg. induction names as [|n names IH]; intros m acc Hinv Hp; simpl.
  - split; [exact Hinv|]. exists acc. split; [reflexivity | exact Hp].
  - destruct (name_eqb n s_all) eqn:En; [reflexivity|].
    destruct (gpp_map_get n reg) as [v|] eqn:Ev.
    + assert (Hl : lookup n <> None) by (intro Hl; apply (reg_lookup reg n Hreg) in Hl; congruence).
      destruct (lookup n) as [g|] eqn:El; [|congruence].
      assert (Hinv' : req_inv reg (gpp_map_set n v m)).
      { destruct Hinv as [Hnd Hval]. split.
        - rewrite gpp_map_set_keys. destruct (existsb (name_eqb n) (map fst m)) eqn:Ex; [exact Hnd|].
          apply NoDup_rev in Hnd. rewrite <- (rev_involutive (map fst m ++ [n])). apply NoDup_rev. rewrite rev_app_distr. simpl.
          constructor; [|exact Hnd]. rewrite <- in_rev. intro Hi. apply existsb_name_In in Hi. congruence.
        - intros k w Hi. apply gpp_map_set_in in Hi. destruct Hi as [Hi|[-> ->]]; [apply Hval; exact Hi | exact Ev]. }
      assert (Hp' : Permutation (map fst (gpp_map_set n v m)) (add_name n acc)).
      { rewrite gpp_map_set_keys. unfold add_name.
        assert (Hx : existsb (name_eqb n) (map fst m) = existsb (name_eqb n) acc).
        { destruct (existsb (name_eqb n) (map fst m)) eqn:E1; destruct (existsb (name_eqb n) acc) eqn:E2; auto.
          - apply existsb_name_In in E1. apply (Permutation_in _ Hp) in E1. apply existsb_name_In in E1. congruence.
          - apply existsb_name_In in E2. apply (Permutation_in _ (Permutation_sym Hp)) in E2. apply existsb_name_In in E2. congruence. }
        rewrite Hx. destruct (existsb (name_eqb n) acc); [exact Hp|].
        apply Permutation_trans with (l' := n :: map fst m); [apply Permutation_sym; apply Permutation_cons_append | constructor; exact Hp]. }
      specialize (IH (gpp_map_set n v m) (add_name n acc) Hinv' Hp').
      destruct (req_loop reg names (gpp_map_set n v m)); exact IH.
    + apply (reg_lookup reg n Hreg) in Ev. rewrite Ev. split; reflexivity.
Qed.

(* sort.Slice on the (name, feature) pairs of a map with distinct keys: the pairs in ascending order of name *)
Lemma ff_sorted_result : forall sorter feat_gen call st (R es : gpmap),
  gpp_sorter_ok sorter -> NoDup (map fst R) -> Permutation es R ->
  forallb (fun a => forallb (fun b => match gpp_less feat_gen call "sorted" "i" "j" canon_ff_less st a b with Some _ => true | None => false end)
                            (map ff_mk es)) (map ff_mk es) = true /\
  exists es', sorter (fun a b => match gpp_less feat_gen call "sorted" "i" "j" canon_ff_less st a b with Some r => r | None => false end) (map ff_mk es)
              = map ff_mk es' /\ Permutation es' R /\ map fst es' = GenOrder.sort (map fst R).
Proof.
  intros sorter feat_gen call st R es Hs Hnd Hp. split.
  - apply forallb_forall. intros a Ha. apply forallb_forall. intros b Hb.
    apply in_map_iff in Ha. destruct Ha as [ea [<- _]]. apply in_map_iff in Hb. destruct Hb as [eb [<- _]]. rewrite ff_less. reflexivity.
  - set (lessf := fun a b => match gpp_less feat_gen call "sorted" "i" "j" canon_ff_less st a b with Some r => r | None => false end).
    destruct (Hs lessf (map ff_mk es)) as [Hperm Hsorted].
    assert (Hnd_es : NoDup (map fst es)).
    { apply Permutation_NoDup with (l := map fst R); [apply Permutation_map; apply Permutation_sym; exact Hp | exact Hnd]. }
    assert (Hless : forall ea eb, lessf (ff_mk ea) (ff_mk eb) = gpp_str_lt (fst ea) (fst eb)).
    { intros ea eb. unfold lessf. rewrite ff_less. reflexivity. }
    assert (Hst : gpp_strict_total lessf (map ff_mk es)).
    { split; [|split].
      - intros a Ha. apply in_map_iff in Ha. destruct Ha as [ea [<- _]]. rewrite Hless. unfold gpp_str_lt. rewrite leb_refl. reflexivity.
      - intros a b c0 Ha Hb Hc. apply in_map_iff in Ha. destruct Ha as [ea [<- _]]. apply in_map_iff in Hb. destruct Hb as [eb [<- _]].
        apply in_map_iff in Hc. destruct Hc as [ec [<- _]]. rewrite !Hless. unfold gpp_str_lt. intros H1 H2.
        apply negb_true_iff in H1. apply negb_true_iff in H2. apply negb_true_iff.
        destruct (name_leb (fst ec) (fst ea)) eqn:E3; [|reflexivity].
        (* c <= a, and a <= b (from not b <= a), so c <= b: contradiction with H2 *)
        assert (Hab : name_leb (fst ea) (fst eb) = true) by (destruct (leb_total (fst ea) (fst eb)); congruence).
        rewrite (leb_trans _ _ _ E3 Hab) in H2. discriminate.
      - intros a b Ha Hb Hne. apply in_map_iff in Ha. destruct Ha as [ea [<- Hia]]. apply in_map_iff in Hb. destruct Hb as [eb [<- Hib]].
        rewrite !Hless. unfold gpp_str_lt.
        destruct (name_leb (fst eb) (fst ea)) eqn:E1; [|left; reflexivity].
        destruct (name_leb (fst ea) (fst eb)) eqn:E2; [|right; reflexivity].
        exfalso. apply Hne. assert (Hk : fst ea = fst eb) by (apply leb_antisym; assumption).
        assert (ea = eb).
        { destruct ea as [ka va], eb as [kb vb]. simpl in Hk. subst kb. f_equal.
          assert (H1 : gpp_map_get ka es = Some va) by (apply gpp_map_get_in; assumption).
          assert (H2 : gpp_map_get ka es = Some vb) by (apply gpp_map_get_in; assumption). congruence. }
        subst. reflexivity. }
    specialize (Hsorted Hst). fold lessf.
    destruct (Permutation_map_inv ff_mk _ Hperm) as [es' [Heq Hp']]. exists es'. split; [exact Heq|].
    assert (Hp2 : Permutation es' R) by (apply Permutation_trans with (l' := es); [apply Permutation_sym; exact Hp' | exact Hp]).
    split; [exact Hp2|].
    apply sorted_perm_is_sort; [|apply Permutation_map; exact Hp2].
    rewrite Heq in Hsorted. clear - Hsorted Hless.
    induction es' as [|e1 es' IH]; [reflexivity|]. simpl map in *. inversion Hsorted as [|? ? Hs' Hall]; subst.
    destruct es' as [|e2 es'']; [reflexivity|].
    change (name_leb (fst e1) (fst e2) && sortedb (map fst (e2 :: es'')) = true).
    rewrite (IH Hs'). rewrite andb_true_r. simpl in Hall. inversion Hall as [|? ? H12 _]; subst.
    rewrite Hless in H12. unfold gpp_str_lt in H12. apply negb_false_iff in H12. exact H12.
Qed.

Lemma map_snd_values : forall (reg R es' : gpmap), NoDup (map fst R) -> Permutation es' R ->
  (forall k v, In (k, v) R -> gpp_map_get k reg = Some v) -> map snd es' = map (gpp_feat_value reg) (map fst es').
Proof.
  intros reg R es' Hnd Hp Hval. rewrite map_map. apply map_ext_in. intros [k v] Hi. simpl. unfold gpp_feat_value.
  rewrite (Hval k v); [reflexivity|]. apply Permutation_in with (l := es'); assumption.
Qed.

Arguments gpp_less : simpl never.

Section FF3.
  Variable perm : gpmap -> gpmap.
  Variable sorter : (gpvalue -> gpvalue -> bool) -> list gpvalue -> list gpvalue.
  Variable feat_gen : gpvalue -> bool.
  Variable call : gname -> list gpvalue -> gpstate -> gpres (list gpvalue).
  Hypothesis Hperm : gpp_perm_ok perm.
  Hypothesis Hsort : gpp_sorter_ok sorter.
  Variables (G : gpframe) (MM : list gpmap) (F : list pfile) (O : list pout) (P : list (name * name)) (E : option (gname * list name)).
  Variable V : gpvalue.

  (* from `type namefeat struct` to the return *)
  Lemma ff_tail : forall cc R, gpp_heap_get MM cc = Some R -> NoDup (map fst R) ->
    exists es' en,
      gpp_block perm sorter feat_gen call
        [ GpsTypeStruct "namefeat" [("name"%gname, "string"%gname); ("feat"%gname, "Feature"%gname)];
          GpsVar "sorted" "[]namefeat";
          GpsRange "name" "feat" (GpxVar "required") canon_ff_required_body;
          GpsSortSlice "sorted" "i" "j" canon_ff_less;
          GpsVar "features" "[]Feature";
          GpsRange "_" "sp" (GpxVar "sorted") canon_ff_sorted_body;
          GpsReturn [GpxVar "features"; GpxNil] ]
        {| gpp_env := [[("required"%gname, GpvMap (Some cc)); ("featureNames"%gname, V)]]; gpp_glob := G; gpp_maps := MM; gpp_files := F;
           gpp_outs := O; gpp_params := P; gpp_err := E |}
      = GpOk (GsgRet [GpvSlice (map snd es'); GpvNil])
             {| gpp_env := en; gpp_glob := G; gpp_maps := MM; gpp_files := F; gpp_outs := O; gpp_params := P; gpp_err := E |}
      /\ Permutation es' R /\ map fst es' = GenOrder.sort (map fst R).
  Proof.
    intros cc R HR Hnd.
    exec_head ltac:(ss; reflexivity).
    exec_head ltac:(ss; reflexivity).
    rewrite gpp_block_cons. rewrite gpp_exec_range. ss. rewrite HR. rewrite ff_required_loop. ss.
    match goal with |- context [gpp_block _ _ _ _ _ ?st] =>
      destruct (ff_sorted_result sorter feat_gen call st R (perm R) Hsort Hnd (Hperm R)) as [Hfa [es' [Hsorted [Hp Hkeys]]]] end.
    exists es'. eexists.
    exec_head ltac:(ss; rewrite Hfa; rewrite Hsorted; ss; reflexivity).
    exec_head ltac:(ss; reflexivity).
    rewrite gpp_block_cons. rewrite gpp_exec_range. ss. rewrite ff_sorted_loop. ss.
    exec_head ltac:(ss; reflexivity).
    split; [reflexivity | split; assumption].
  Qed.
End FF3.

Lemma gpp_call_S : forall perm sorter feat_gen prog fuel f args st,
  gpp_call perm sorter feat_gen prog (S fuel) f args st =
  match gpp_find_decl prog f with
  | Some (GpdFunc _ params results body) =>
    if Nat.eqb (length params) (length args) then
      match gpp_block perm sorter feat_gen (gpp_call perm sorter feat_gen prog fuel) body (gpp_with_env st [gpp_zip (map fst params) args]) with
      | GpOk (GsgRet vs) st' =>
        if Nat.eqb (length vs) (length results) then GpOk (gpp_coerce_all results vs) (gpp_with_env st' (gpp_env st)) else GpStuck
      | GpOk GsgNext st' => match results with [] => GpOk [] (gpp_with_env st' (gpp_env st)) | _ :: _ => GpStuck end
      | GpOk _ _ => GpStuck
      | GpPanic => GpPanic | GpExit => GpExit | GpFuel => GpFuel | GpStuck => GpStuck
      end
    else GpStuck
  | _ => GpStuck
  end.
Proof. reflexivity. Qed.

Lemma find_features_prog : find_features_prog_stmt.
Proof.
  intros perm sorter feat_gen fuel st reg names Hperm Hsort [c [HG HMc]] Hreg.
  assert (HM : forall m, gpp_heap_get (gpp_maps st ++ [m]) c = Some reg) by (intro m; apply gpp_heap_get_snoc_old; exact HMc).
  assert (Hregnd : NoDup (map fst reg)).
  { apply Permutation_NoDup with (l := map fst registry); [apply Permutation_sym; exact Hreg | exact registry_nodup]. }
  rewrite gpp_call_S. set (call := gpp_call perm sorter feat_gen canon_genprog fuel).
  ss. unfold canon_findFeatures_body.
  exec_head ltac:(ss; reflexivity).
  rewrite gpp_block_cons. rewrite gpp_exec_range. ss.
  rewrite (ff_names_loop perm sorter feat_gen call (gpp_glob st) (gpp_maps st) (gpp_files st) (gpp_outs st) (gpp_params st) (gpp_err st) _ c reg HG HM).
  assert (Hinv0 : req_inv reg []) by (split; [constructor | intros k v []]).
  pose proof (req_loop_spec reg Hreg names [] [] Hinv0 (Permutation_refl _)) as Hspec.
  unfold gpp_find_features_spec, find_features.
  destruct (req_loop reg names []) as [n m'|m'|m'].
  - destruct Hspec as [Hreq Hunk]. rewrite Hreq, Hunk. exists m'. reflexivity.
  - rewrite Hspec. ss.
    destruct (ff_tail perm sorter feat_gen call Hperm Hsort (gpp_glob st) (gpp_maps st ++ [m']) (gpp_files st) (gpp_outs st)
                      (gpp_params st) (gpp_err st) (GpvSlice (map GpvStr names)) c reg (HM m') Hregnd) as [es' [en [Hrun [Hp Hkeys]]]].
    rewrite Hrun. ss. exists m'. f_equal. f_equal. f_equal.
    rewrite (map_snd_values reg reg es' Hregnd Hp); [|intros k v Hi; apply gpp_map_get_in; assumption].
    rewrite Hkeys. rewrite (sort_perm _ _ Hreg). reflexivity.
  - destruct Hspec as [[Hnd Hval] [acc' [Hreq Hpa]]]. rewrite Hreq. ss.
    destruct (ff_tail perm sorter feat_gen call Hperm Hsort (gpp_glob st) (gpp_maps st ++ [m']) (gpp_files st) (gpp_outs st)
                      (gpp_params st) (gpp_err st) (GpvSlice (map GpvStr names)) (length (gpp_maps st)) m' (gpp_heap_get_snoc_new _ _) Hnd) as [es' [en [Hrun [Hp Hkeys]]]].
    rewrite Hrun. ss. exists m'. f_equal. f_equal. f_equal.
    rewrite (map_snd_values reg m' es' Hnd Hp Hval). rewrite Hkeys. rewrite (sort_perm _ _ Hpa). reflexivity.
Qed.

(* ---- the object tree: paths ------------------------------------------------------------------------------------------------------ *)
Lemma gpp_list_set_nth : forall {A} (l : list A) k x y, nth_error l k = Some y -> nth_error (gpp_list_set k x l) k = Some x.
Proof. induction l as [|a l IH]; intros [|k] x y H; simpl in *; try discriminate; auto. eapply IH; eauto. Qed.
Lemma gpp_list_set_other : forall {A} (l : list A) k j x, j <> k -> nth_error (gpp_list_set k x l) j = nth_error l j.
Proof. induction l as [|a l IH]; intros [|k] [|j] x H; simpl; auto; try congruence. Qed.
Lemma gpp_list_set_set : forall {A} (l : list A) k x y, gpp_list_set k y (gpp_list_set k x l) = gpp_list_set k y l.
Proof. induction l as [|a l IH]; intros [|k] x y; simpl; auto. rewrite IH. reflexivity. Qed.
Lemma gpp_list_set_id : forall {A} (l : list A) k x, nth_error l k = Some x -> gpp_list_set k x l = l.
Proof. induction l as [|a l IH]; intros [|k] x H; simpl in *; try discriminate; auto; [congruence | rewrite IH; auto]. Qed.
Lemma gpp_list_set_app : forall {A} (a : list A) x y b, gpp_list_set (length a) y (a ++ x :: b) = a ++ y :: b.
Proof. induction a as [|z a IH]; intros; simpl; [reflexivity | rewrite IH; reflexivity]. Qed.
Lemma nth_error_app_mid : forall {A} (a : list A) x b, nth_error (a ++ x :: b) (length a) = Some x.
Proof. intros. rewrite nth_error_app2 by lia. rewrite Nat.sub_diag. reflexivity. Qed.

Lemma forest_get_set_same : forall p ms t t', gpp_forest_get ms p = Some t -> gpp_forest_get (gpp_forest_set ms p t') p = Some t'.
Proof.
  induction p as [|i p IH]; intros ms t t' H; [discriminate|]. simpl in *.
  destruct (nth_error ms i) as [m|] eqn:Em; [|discriminate].
  destruct p as [|j p'].
  - rewrite (gpp_list_set_nth ms i t' m Em). reflexivity.
  - rewrite (gpp_list_set_nth ms i _ m Em). simpl pm_msgs. apply (IH _ t). exact H.
Qed.
Lemma forest_set_cons2 : forall ms i j p' m',
  gpp_forest_set ms (i :: j :: p') m' =
  match nth_error ms i with
  | None => ms
  | Some m => gpp_list_set i (GpMsg (pm_full m) (pm_mapentry m) (pm_fields m) (pm_oneofs m) (gpp_forest_set (pm_msgs m) (j :: p') m')) ms
  end.
Proof. reflexivity. Qed.
Lemma forest_get_cons2 : forall ms i j p',
  gpp_forest_get ms (i :: j :: p') = match nth_error ms i with None => None | Some m => gpp_forest_get (pm_msgs m) (j :: p') end.
Proof. reflexivity. Qed.
Lemma forest_set_set_same : forall p ms a b, gpp_forest_set (gpp_forest_set ms p a) p b = gpp_forest_set ms p b.
Proof.
  induction p as [|i p IH]; intros ms a b; [reflexivity|].
  destruct p as [|j p'].
  - simpl. destruct (nth_error ms i) as [m|] eqn:Em; [|rewrite Em; reflexivity].
    rewrite (gpp_list_set_nth ms i a m Em). apply gpp_list_set_set.
  - rewrite !forest_set_cons2. destruct (nth_error ms i) as [m|] eqn:Em; [|rewrite Em; reflexivity].
    rewrite (gpp_list_set_nth ms i _ m Em). cbn [pm_full pm_mapentry pm_fields pm_oneofs pm_msgs].
    rewrite gpp_list_set_set. rewrite IH. reflexivity.
Qed.
Lemma forest_set_get_id : forall p ms t, gpp_forest_get ms p = Some t -> gpp_forest_set ms p t = ms.
Proof.
  induction p as [|i p IH]; intros ms t H; [reflexivity|]. simpl in *.
  destruct (nth_error ms i) as [m|] eqn:Em; [|reflexivity].
  destruct p as [|j p'].
  - inversion H; subst. apply gpp_list_set_id. exact Em.
  - rewrite (IH _ _ H). destruct m. simpl. apply gpp_list_set_id. exact Em.
Qed.
Lemma forest_get_child : forall p ms k, p <> [] ->
  gpp_forest_get ms (p ++ [k]) = match gpp_forest_get ms p with Some m => nth_error (pm_msgs m) k | None => None end.
Proof.
  induction p as [|i p IH]; intros ms k Hne; [congruence|]. simpl.
  destruct (nth_error ms i) as [m|] eqn:Em; [|reflexivity].
  destruct p as [|j p'].
  - simpl. destruct (nth_error (pm_msgs m) k); reflexivity.
  - change ((j :: p') ++ [k]) with (j :: (p' ++ [k])). change (j :: p' ++ [k]) with ((j :: p') ++ [k]). apply IH. discriminate.
Qed.
Lemma forest_set_child : forall p ms k m c c', gpp_forest_get ms p = Some m -> nth_error (pm_msgs m) k = Some c ->
  gpp_forest_set ms (p ++ [k]) c' =
  gpp_forest_set ms p (GpMsg (pm_full m) (pm_mapentry m) (pm_fields m) (pm_oneofs m) (gpp_list_set k c' (pm_msgs m))).
Proof.
  induction p as [|i p IH]; intros ms k m c c' H Hc; [discriminate|]. simpl in *.
  destruct (nth_error ms i) as [mi|] eqn:Em; [|discriminate].
  destruct p as [|j p'].
  - inversion H; subst. simpl. rewrite Hc. reflexivity.
  - change ((j :: p') ++ [k]) with (j :: (p' ++ [k])). cbv iota. change (j :: p' ++ [k]) with ((j :: p') ++ [k]).
    rewrite (IH _ _ _ _ c' H Hc). reflexivity.
Qed.

Lemma get_set_same : forall fs i p t t', gpp_get_msg fs i p = Some t -> gpp_get_msg (gpp_set_msg fs i p t') i p = Some t'.
Proof.
  unfold gpp_get_msg, gpp_set_msg. intros fs i p t t' H. destruct (nth_error fs i) as [f|] eqn:Ef; [|discriminate].
  rewrite (gpp_list_set_nth fs i _ f Ef). simpl. apply (forest_get_set_same _ _ t). exact H.
Qed.
Lemma set_set_same : forall fs i p a b, gpp_set_msg (gpp_set_msg fs i p a) i p b = gpp_set_msg fs i p b.
Proof.
  unfold gpp_set_msg. intros fs i p a b. destruct (nth_error fs i) as [f|] eqn:Ef; [|rewrite Ef; reflexivity].
  rewrite (gpp_list_set_nth fs i _ f Ef). unfold gpp_file_with_msgs. simpl. rewrite gpp_list_set_set. rewrite forest_set_set_same. reflexivity.
Qed.
Lemma set_get_id : forall fs i p t, gpp_get_msg fs i p = Some t -> gpp_set_msg fs i p t = fs.
Proof.
  unfold gpp_get_msg, gpp_set_msg. intros fs i p t H. destruct (nth_error fs i) as [f|] eqn:Ef; [|reflexivity].
  rewrite (forest_set_get_id _ _ _ H). destruct f. unfold gpp_file_with_msgs. simpl. apply gpp_list_set_id. exact Ef.
Qed.
Lemma get_child : forall fs i p k, p <> [] ->
  gpp_get_msg fs i (p ++ [k]) = match gpp_get_msg fs i p with Some m => nth_error (pm_msgs m) k | None => None end.
Proof. unfold gpp_get_msg. intros fs i p k Hne. destruct (nth_error fs i); [apply forest_get_child; exact Hne | reflexivity]. Qed.
Lemma set_child : forall fs i p k m c c', gpp_get_msg fs i p = Some m -> nth_error (pm_msgs m) k = Some c ->
  gpp_set_msg fs i (p ++ [k]) c' = gpp_set_msg fs i p (GpMsg (pm_full m) (pm_mapentry m) (pm_fields m) (pm_oneofs m) (gpp_list_set k c' (pm_msgs m))).
Proof.
  unfold gpp_get_msg, gpp_set_msg. intros fs i p k m c c' H Hc. destruct (nth_error fs i) as [f|]; [|discriminate].
  rewrite (forest_set_child _ _ _ _ _ c' H Hc). reflexivity.
Qed.
Lemma get_msg_path_ne : forall fs i p t, gpp_get_msg fs i p = Some t -> p <> [].
Proof. unfold gpp_get_msg. intros fs i p t H. destruct (nth_error fs i); [|discriminate]. destruct p; [discriminate | discriminate]. Qed.

(* ---- (b) rewriteMessageField ------------------------------------------------------------------------------------------------------- *)
Lemma rewrite_field_reserved : forall g, is_reserved g = true -> rewrite_field g = g ++ [us].
Proof. intros g H. unfold rewrite_field. rewrite H. reflexivity. Qed.
Lemma rewrite_field_free : forall g, is_reserved g = false -> rewrite_field g = g.
Proof. intros g H. unfold rewrite_field. rewrite H. reflexivity. Qed.

Section RW.
  Variable perm : gpmap -> gpmap.
  Variable sorter : (gpvalue -> gpvalue -> bool) -> list gpvalue -> list gpvalue.
  Variable feat_gen : gpvalue -> bool.
  Variable call : gname -> list gpvalue -> gpstate -> gpres (list gpvalue).
  Variables (G : gpframe) (MM : list gpmap) (O : list pout) (P : list (name * name)) (E : option (gname * list name)).
  Variables (i : nat) (p : list nat) (q r : nat) (rm : gpmap).
  Hypothesis HG : gpp_glob_get "reservedFieldNames"%gname G = Some (GpvMap (Some r)).
  Hypothesis HR : gpp_heap_get MM r = Some rm.
  Hypothesis Hrm : forall g, gpp_map_get g rm <> None <-> is_reserved g = true.
  Variables (full : name) (me : bool).

  Notation STR F :=
    {| gpp_env := [[("message"%gname, GpvMsg i p); ("processed"%gname, GpvMap (Some q))]]; gpp_glob := G; gpp_maps := MM; gpp_files := F;
       gpp_outs := O; gpp_params := P; gpp_err := E |}.

  Ltac rws3 Hget Ef Es :=
    ss; repeat (progress (rewrite ?HG, ?HR, ?Hget, ?Ef, ?Es, ?nth_error_app_mid, ?gpp_list_set_app); ss); reflexivity.
  Ltac rws Hget Ef := rws3 Hget Ef Ef.

  Lemma rw_fields_loop : forall os ms rest done_fs F j,
    gpp_get_msg F i p = Some (GpMsg full me (done_fs ++ rest) os ms) ->
    gpp_loop (gpp_range_step perm sorter feat_gen call "_" "field" canon_rw_fields_body)
            (gpp_index_items j (map (GpvField i p) (seq (length done_fs) (length rest)))) (STR F)
    = GpOk GsgNext (STR (gpp_set_msg F i p (GpMsg full me (done_fs ++ map gpp_rw_field rest) os ms))).
  Proof.
    intros os ms. induction rest as [|f rest IH]; intros done_fs F j Hget.
    - simpl. rewrite (set_get_id _ _ _ _ Hget). reflexivity.
    - simpl length. simpl seq. simpl map. simpl gpp_index_items. loop_head.
      unfold gpp_range_step at 1. unfold gpp_scoped. unfold canon_rw_fields_body.
      destruct (gpp_map_get (pf_go f) rm) as [u|] eqn:Ef.
      + assert (Hres : is_reserved (pf_go f) = true) by (apply Hrm; congruence).
        exec_head ltac:(rws Hget Ef).
        exec_head ltac:(rws Hget Ef).
        exec_head ltac:(rws Hget Ef).
        exec_head ltac:(rws Hget Ef).
        rewrite gpp_block_nil. ss. fold canon_rw_fields_body.
        change (pf_go f ++ ["_"%byte]) with (pf_go f ++ [us]). rewrite <- (rewrite_field_reserved _ Hres).
        change {| pf_go := rewrite_field (pf_go f); pf_full := pf_full f |} with (gpp_rw_field f).
        replace (S (length done_fs)) with (length (done_fs ++ [gpp_rw_field f])) by (rewrite app_length; simpl; lia).
        rewrite (IH (done_fs ++ [gpp_rw_field f])); [|rewrite <- app_assoc; apply (get_set_same _ _ _ _ _ Hget)].
        rewrite set_set_same. rewrite <- app_assoc. reflexivity.
      + assert (Hres : is_reserved (pf_go f) = false).
        { destruct (is_reserved (pf_go f)) eqn:Er; [|reflexivity]. apply Hrm in Er. congruence. }
        exec_head ltac:(rws Hget Ef).
        exec_head ltac:(rws Hget Ef).
        ss. fold canon_rw_fields_body.
        replace (S (length done_fs)) with (length (done_fs ++ [f])) by (rewrite app_length; simpl; lia).
        rewrite (IH (done_fs ++ [f])); [|rewrite <- app_assoc; exact Hget].
        rewrite <- app_assoc. simpl.
        replace (gpp_rw_field f) with f; [reflexivity|]. unfold gpp_rw_field. rewrite (rewrite_field_free _ Hres). destruct f; reflexivity.
  Qed.

  Lemma rw_oneofs_loop : forall fs ms rest done_os F j,
    gpp_get_msg F i p = Some (GpMsg full me fs (done_os ++ rest) ms) ->
    gpp_loop (gpp_range_step perm sorter feat_gen call "_" "oneof" canon_rw_oneofs_body)
            (gpp_index_items j (map (GpvOneof i p) (seq (length done_os) (length rest)))) (STR F)
    = GpOk GsgNext (STR (gpp_set_msg F i p (GpMsg full me fs (done_os ++ map gpp_rw_oneof rest) ms))).
  Proof.
    intros fs ms. induction rest as [|o rest IH]; intros done_os F j Hget.
    - simpl. rewrite (set_get_id _ _ _ _ Hget). reflexivity.
    - simpl length. simpl seq. simpl map. simpl gpp_index_items. loop_head.
      unfold gpp_range_step at 1. unfold gpp_scoped. unfold canon_rw_oneofs_body.
      destruct (gpp_map_get (po_go o) rm) as [u|] eqn:Ef; [destruct (po_syn o) eqn:Esyn|].
      + (* reserved but synthetic: continue *)
        exec_head ltac:(rws3 Hget Ef Esyn).
        ss. fold canon_rw_oneofs_body.
        replace (S (length done_os)) with (length (done_os ++ [o])) by (rewrite app_length; simpl; lia).
        rewrite (IH (done_os ++ [o])); [|rewrite <- app_assoc; exact Hget].
        rewrite <- app_assoc. simpl. replace (gpp_rw_oneof o) with o; [reflexivity|]. unfold gpp_rw_oneof. rewrite Esyn. reflexivity.
      + assert (Hres : is_reserved (po_go o) = true) by (apply Hrm; congruence).
        exec_head ltac:(rws3 Hget Ef Esyn).
        exec_head ltac:(rws Hget Ef).
        exec_head ltac:(rws Hget Ef).
        rewrite gpp_block_nil. ss. fold canon_rw_oneofs_body.
        change (po_go o ++ ["_"%byte]) with (po_go o ++ [us]). rewrite <- (rewrite_field_reserved _ Hres).
        replace {| po_go := rewrite_field (po_go o); po_syn := po_syn o; po_full := po_full o |} with (gpp_rw_oneof o)
          by (unfold gpp_rw_oneof; rewrite Esyn; reflexivity).
        replace (S (length done_os)) with (length (done_os ++ [gpp_rw_oneof o])) by (rewrite app_length; simpl; lia).
        rewrite (IH (done_os ++ [gpp_rw_oneof o])); [|rewrite <- app_assoc; apply (get_set_same _ _ _ _ _ Hget)].
        rewrite set_set_same. rewrite <- app_assoc. reflexivity.
      + assert (Hres : is_reserved (po_go o) = false).
        { destruct (is_reserved (po_go o)) eqn:Er; [|reflexivity]. apply Hrm in Er. congruence. }
        exec_head ltac:(rws Hget Ef).
        ss. fold canon_rw_oneofs_body.
        replace (S (length done_os)) with (length (done_os ++ [o])) by (rewrite app_length; simpl; lia).
        rewrite (IH (done_os ++ [o])); [|rewrite <- app_assoc; exact Hget].
        rewrite <- app_assoc. simpl.
        replace (gpp_rw_oneof o) with o; [reflexivity|]. unfold gpp_rw_oneof. rewrite (rewrite_field_free _ Hres). destruct o as [g sy fu]; simpl. destruct sy; reflexivity.
  Qed.
End RW.

Fixpoint pmsg_ind' (Q : pmsg -> Prop) (H : forall full me fs os ms, Forall Q ms -> Q (GpMsg full me fs os ms)) (m : pmsg) : Q m :=
  match m with
  | GpMsg full me fs os ms =>
    H full me fs os ms ((fix go (l : list pmsg) : Forall Q l :=
                           match l with [] => Forall_nil Q | c :: t => Forall_cons c (pmsg_ind' Q H c) (go t) end) ms)
  end.

Lemma gpp_rw_msg_eq : forall full me fs os ms done,
  gpp_rw_msg (GpMsg full me fs os ms) done =
  match gpp_map_get full done with
  | Some _ => (GpMsg full me fs os ms, done)
  | None => if me then (GpMsg full me fs os ms, done)
            else (GpMsg full me (map gpp_rw_field fs) (map gpp_rw_oneof os) (fst (gpp_rw_forest ms (gpp_map_set full GpvUnit done))),
                  snd (gpp_rw_forest ms (gpp_map_set full GpvUnit done)))
  end.
Proof. reflexivity. Qed.

Lemma gpp_heap_get_set_same : forall MM q d x, gpp_heap_get MM q = Some d -> gpp_heap_get (gpp_list_set q x MM) q = Some x.
Proof. unfold gpp_heap_get. intros. eapply gpp_list_set_nth; eauto. Qed.
Lemma gpp_heap_get_set_other : forall MM q r x, q <> r -> gpp_heap_get (gpp_list_set q x MM) r = gpp_heap_get MM r.
Proof. unfold gpp_heap_get. intros. apply gpp_list_set_other. congruence. Qed.

Section RW2.
  Variable perm : gpmap -> gpmap.
  Variable sorter : (gpvalue -> gpvalue -> bool) -> list gpvalue -> list gpvalue.
  Variable feat_gen : gpvalue -> bool.
  Variable call : gname -> list gpvalue -> gpstate -> gpres (list gpvalue).
  Variables (G : gpframe) (O : list pout) (P : list (name * name)) (E : option (gname * list name)).
  Variables (i : nat) (p : list nat) (q r : nat) (rm : gpmap).
  Hypothesis HG : gpp_glob_get "reservedFieldNames"%gname G = Some (GpvMap (Some r)).
  Hypothesis Hqr : q <> r.
  Hypothesis Hp : p <> [].
  Variables (full : name) (me : bool) (fs : list pfield) (os : list poneof).

  Definition child_ok (c : pmsg) : Prop :=
    forall st k d,
      gpp_glob_get "reservedFieldNames"%gname (gpp_glob st) = Some (GpvMap (Some r)) -> gpp_heap_get (gpp_maps st) r = Some rm ->
      gpp_heap_get (gpp_maps st) q = Some d -> gpp_get_msg (gpp_files st) i (p ++ [k]) = Some c ->
      call "rewriteMessageField"%gname [GpvMsg i (p ++ [k]); GpvMap (Some q)] st
      = GpOk [] (gpp_with_maps (gpp_with_files st (gpp_set_msg (gpp_files st) i (p ++ [k]) (fst (gpp_rw_msg c d))))
                              (gpp_list_set q (snd (gpp_rw_msg c d)) (gpp_maps st))).

  Notation STN F MM :=
    {| gpp_env := [[("message"%gname, GpvMsg i p); ("processed"%gname, GpvMap (Some q))]]; gpp_glob := G; gpp_maps := MM; gpp_files := F;
       gpp_outs := O; gpp_params := P; gpp_err := E |}.

  Lemma rw_nested_loop : forall rest done_ms F MM d j,
    Forall child_ok rest ->
    gpp_get_msg F i p = Some (GpMsg full me fs os (done_ms ++ rest)) -> gpp_heap_get MM q = Some d -> gpp_heap_get MM r = Some rm ->
    gpp_loop (gpp_range_step perm sorter feat_gen call "_" "nestedMessage" canon_rw_nested_body)
            (gpp_index_items j (map (fun k => GpvMsg i (p ++ [k])) (seq (length done_ms) (length rest)))) (STN F MM)
    = GpOk GsgNext (STN (gpp_set_msg F i p (GpMsg full me fs os (done_ms ++ fst (gpp_rw_forest rest d)))) (gpp_list_set q (snd (gpp_rw_forest rest d)) MM)).
  Proof.
    induction rest as [|c rest IH]; intros done_ms F MM d j Hall Hget Hq Hr.
    - cbn [length seq map gpp_index_items gpp_rw_forest fst snd]. rewrite (set_get_id _ _ _ _ Hget). unfold gpp_heap_get in Hq.
      rewrite (@gpp_list_set_id gpmap MM q d Hq). reflexivity.
    - inversion Hall as [|? ? Hc Hrest]; subst.
      simpl length. simpl seq. simpl map. simpl gpp_index_items. loop_head.
      unfold gpp_range_step at 1. unfold gpp_scoped. unfold canon_rw_nested_body.
      assert (Hgc : gpp_get_msg F i (p ++ [length done_ms]) = Some c).
      { rewrite (get_child _ _ _ _ Hp). rewrite Hget. simpl. apply nth_error_app_mid. }
      exec_head ltac:(ss; match goal with |- context [call _ _ ?st] => rewrite (Hc st (length done_ms) d HG Hr Hq Hgc) end; ss; reflexivity).
      rewrite gpp_block_nil. ss. fold canon_rw_nested_body.
      rewrite (set_child _ _ _ _ _ c _ Hget (nth_error_app_mid _ _ _)). simpl pm_full. simpl pm_mapentry. simpl pm_fields. simpl pm_oneofs.
      cbn [pm_msgs]. rewrite gpp_list_set_app.
      replace (S (length done_ms)) with (length (done_ms ++ [fst (gpp_rw_msg c d)])) by (rewrite app_length; simpl; lia).
      rewrite (IH (done_ms ++ [fst (gpp_rw_msg c d)]) _ _ (snd (gpp_rw_msg c d)) (S j) Hrest).
      + rewrite set_set_same. rewrite gpp_list_set_set. rewrite <- app_assoc. reflexivity.
      + rewrite <- app_assoc. apply (get_set_same _ _ _ _ _ Hget).
      + apply (gpp_heap_get_set_same _ _ d). exact Hq.
      + rewrite gpp_heap_get_set_other by exact Hqr. exact Hr.
  Qed.
End RW2.

Lemma pm_depth_children : forall full me fs os ms fuel c, pm_depth (GpMsg full me fs os ms) <= S fuel -> In c ms -> pm_depth c <= fuel.
Proof.
  intros full me fs os ms fuel c H Hin. simpl in H. apply le_S_n in H.
  induction ms as [|a ms IH]; [destruct Hin|]. simpl in H. destruct Hin as [->|Hin]; [lia | apply IH; [lia | exact Hin]].
Qed.

Lemma gpstate_eta : forall st,
  {| gpp_env := gpp_env st; gpp_glob := gpp_glob st; gpp_maps := gpp_maps st; gpp_files := gpp_files st; gpp_outs := gpp_outs st;
     gpp_params := gpp_params st; gpp_err := gpp_err st |} = st.
Proof. destruct st; reflexivity. Qed.

Ltac rwx a b c d := ss; repeat (progress (unfold gpp_scoped; rewrite ?a, ?b, ?c, ?d); ss); reflexivity.

Lemma rewrite_prog : rewrite_prog_stmt.
Proof.
  intros perm sorter feat_gen fuel st r q i p t. revert fuel st r q i p.
  induction t as [full me fs os ms IHms] using pmsg_ind'.
  intros fuel st r q i p done [HG [rm [HR Hrm]]] Hqr Hq Hget Hdepth.
  destruct fuel as [|fuel]; [simpl in Hdepth; lia|].
  assert (Hp : p <> []) by (apply (get_msg_path_ne _ _ _ _ Hget)).
  rewrite gpp_rw_msg_eq. rewrite gpp_call_S. set (call := gpp_call perm sorter feat_gen canon_genprog fuel).
  ss. unfold canon_rewriteMessageField_body.
  destruct (gpp_map_get full done) as [u|] eqn:Edone.
  { (* already processed *)
    exec_head ltac:(rwx Hq Hget Edone Edone).
    ss. rewrite (set_get_id _ _ _ _ Hget). unfold gpp_heap_get in Hq. rewrite (@gpp_list_set_id gpmap _ _ _ Hq). rewrite gpstate_eta. reflexivity. }
  exec_head ltac:(rwx Hq Hget Edone Edone).
  destruct me.
  { (* a map entry *)
    exec_head ltac:(rwx Hget Hget Hget Hget).
    ss. rewrite (set_get_id _ _ _ _ Hget). unfold gpp_heap_get in Hq. rewrite (@gpp_list_set_id gpmap _ _ _ Hq). rewrite gpstate_eta. reflexivity. }
  exec_head ltac:(rwx Hget Hget Hget Hget).
  (* the fields *)
  rewrite gpp_block_cons. rewrite gpp_exec_range. ss. rewrite Hget. ss.
  pose proof (rw_fields_loop perm sorter feat_gen call (gpp_glob st) (gpp_maps st) (gpp_outs st) (gpp_params st) (gpp_err st) i p q r rm HG HR Hrm full false
                          os ms fs [] (gpp_files st) 0 Hget) as HL1.
  cbn [length app] in HL1. rewrite HL1. clear HL1. ss.
  (* the oneofs *)
  pose proof (get_set_same _ _ _ _ (GpMsg full false (map gpp_rw_field fs) os ms) Hget) as Hget1.
  rewrite gpp_block_cons. rewrite gpp_exec_range. ss. rewrite Hget1. ss.
  pose proof (rw_oneofs_loop perm sorter feat_gen call (gpp_glob st) (gpp_maps st) (gpp_outs st) (gpp_params st) (gpp_err st) i p q r rm HG HR Hrm full false
                          (map gpp_rw_field fs) ms os [] _ 0 Hget1) as HL2.
  cbn [length app] in HL2. rewrite HL2. clear HL2. ss. rewrite set_set_same.
  pose proof (get_set_same _ _ _ _ (GpMsg full false (map gpp_rw_field fs) (map gpp_rw_oneof os) ms) Hget) as Hget2.
  (* processed[full] = struct{}{} *)
  exec_head ltac:(rwx Hget2 Hq Hq Hq).
  (* the nested messages *)
  rewrite gpp_block_cons. rewrite gpp_exec_range. ss. rewrite Hget2. ss.
  assert (Hchildren : Forall (child_ok call i p q r rm) ms).
  { apply Forall_forall. intros c Hin. rewrite Forall_forall in IHms. intros st' k d' HG' HR' Hq' Hget'.
    apply (IHms c Hin fuel st' r q i (p ++ [k]) d'); try assumption.
    - split; [exact HG' | exists rm; split; [exact HR' | exact Hrm]].
    - apply (pm_depth_children full false fs os ms); assumption. }
  assert (Hq3 : gpp_heap_get (gpp_list_set q (gpp_map_set full GpvUnit done) (gpp_maps st)) q = Some (gpp_map_set full GpvUnit done))
    by (apply (gpp_heap_get_set_same _ _ done); exact Hq).
  assert (Hr3 : gpp_heap_get (gpp_list_set q (gpp_map_set full GpvUnit done) (gpp_maps st)) r = Some rm)
    by (rewrite gpp_heap_get_set_other by exact Hqr; exact HR).
  pose proof (rw_nested_loop perm sorter feat_gen call (gpp_glob st) (gpp_outs st) (gpp_params st) (gpp_err st) i p q r rm HG Hqr Hp full false
                          (map gpp_rw_field fs) (map gpp_rw_oneof os) ms [] _ _ (gpp_map_set full GpvUnit done) 0 Hchildren Hget2 Hq3 Hr3) as HL3.
  cbn [length app] in HL3. rewrite HL3. clear HL3.
  ss. rewrite set_set_same. rewrite gpp_list_set_set. reflexivity.
Qed.

(* ---- (d) generateAllFiles ------------------------------------------------------------------------------------------------------------ *)
Lemma gpp_all_files_refs : forall k n, gpp_all_files (map GpvFile (seq k n)) = true.
Proof. intros k n. revert k. induction n as [|n IH]; intro k; simpl; auto. Qed.

Lemma required_in_registry : forall names acc r, required names acc = Some r ->
  (forall n, In n acc -> lookup n <> None) -> forall n, In n r -> lookup n <> None.
Proof.
  induction names as [|x names IH]; intros acc r H Hacc n Hin; simpl in H.
  - inversion H; subst. apply Hacc. exact Hin.
  - destruct (name_eqb x s_all).
    + inversion H; subst. intro Hn. apply lookup_none in Hn. apply Hn. exact Hin.
    + destruct (lookup x) eqn:El; [|discriminate]. apply (IH _ _ H); [|exact Hin].
      intros n0 Hn0. unfold add_name in Hn0. destruct (existsb (name_eqb x) acc); [apply Hacc; exact Hn0|].
      destruct Hn0 as [<-|Hn0]; [congruence | apply Hacc; exact Hn0].
Qed.
Lemma find_features_in_registry : forall names fs, find_features names = Some fs -> forall n, In n fs -> lookup n <> None.
Proof.
  unfold find_features. intros names fs H n Hin. destruct (required names []) as [r|] eqn:Er; [|discriminate]. inversion H; subst.
  apply (required_in_registry names [] r Er); [intros ? []|]. apply Permutation_in with (l := GenOrder.sort r); [apply sort_is_permutation | exact Hin].
Qed.
Lemma required_none_unknown : forall names acc, required names acc = None -> exists n, gpp_first_unknown names = Some n.
Proof.
  induction names as [|x names IH]; intros acc H; simpl in *; [discriminate|].
  destruct (name_eqb x s_all); [discriminate|]. destruct (lookup x); [apply (IH _ H) | exists x; reflexivity].
Qed.
Lemma generated_feats : forall feat_gen reg fs, gpp_registry_ok feat_gen reg -> (forall n, In n fs -> lookup n <> None) ->
  existsb feat_gen (map (gpp_feat_value reg) fs) = generated fs.
Proof.
  intros feat_gen reg fs [Hp Hfg] Hin. unfold generated. induction fs as [|n fs IH]; [reflexivity|]. simpl.
  rewrite IH by (intros; apply Hin; right; assumption). f_equal.
  unfold gpp_feat_value. destruct (gpp_map_get n reg) as [v|] eqn:Ev; [apply Hfg; exact Ev|].
  exfalso. apply (Hin n (or_introl eq_refl)). apply (reg_lookup reg n Hp). exact Ev.
Qed.

Section GF.
  Variable perm : gpmap -> gpmap.
  Variable sorter : (gpvalue -> gpvalue -> bool) -> list gpvalue -> list gpvalue.
  Variable feat_gen : gpvalue -> bool.
  Variable call : gname -> list gpvalue -> gpstate -> gpres (list gpvalue).
  Variables (G : gpframe) (MM : list gpmap) (P : list (name * name)) (E : option (gname * list name)).
  Variables (feats : list gpvalue) (Vn Vp : gpvalue).

  Notation STG F O :=
    {| gpp_env := [[("err"%gname, GpvErr None); ("gen"%gname, GpvGen feats); ("ext"%gname, GpvExt); ("plugin"%gname, GpvPlugin);
                   ("featureNames"%gname, Vn); ("poolable"%gname, Vp)]];
       gpp_glob := G; gpp_maps := MM; gpp_files := F; gpp_outs := O; gpp_params := P; gpp_err := E |}.

  Lemma gf_loop : forall rest done O j,
    gpp_loop (gpp_range_step perm sorter feat_gen call "_" "file" canon_gen_files_body)
            (gpp_index_items j (map GpvFile (seq (length done) (length rest)))) (STG (done ++ rest) O)
    = GpOk GsgNext (STG (done ++ rest) (O ++ map (gpp_out_of (existsb feat_gen feats)) (filter fi_generate rest))).
  Proof.
    induction rest as [|f rest IH]; intros done O j.
    - simpl. rewrite !app_nil_r. reflexivity.
    - simpl length. simpl seq. simpl map. simpl gpp_index_items. loop_head.
      unfold gpp_range_step at 1. unfold gpp_scoped. unfold canon_gen_files_body.
      assert (Hf : nth_error (done ++ f :: rest) (length done) = Some f) by apply nth_error_app_mid.
      destruct (fi_generate f) eqn:Eg.
      + exec_head ltac:(rwx Hf Eg Eg Eg).
        exec_head ltac:(rwx Hf Eg Eg Eg).
        exec_head ltac:(ss; rewrite nth_error_snoc_new; ss; rewrite gpp_list_set_snoc; reflexivity).
        exec_head ltac:(ss; rewrite Hf; ss; rewrite nth_error_snoc_new; ss; rewrite gpp_list_set_snoc; reflexivity).
        destruct (fi_proto3 f && existsb feat_gen feats) eqn:Eb.
        * exec_head ltac:(ss; rewrite nth_error_snoc_new; rewrite Hf; ss; rewrite Eb; ss; reflexivity).
          rewrite gpp_block_nil. ss. fold canon_gen_files_body.
          replace (S (length done)) with (length (done ++ [f])) by (rewrite app_length; simpl; lia).
          replace (done ++ f :: rest) with ((done ++ [f]) ++ rest) by (rewrite <- app_assoc; reflexivity).
          rewrite IH. unfold gpp_out_of at 2. rewrite Eb. simpl negb.
          rewrite <- (app_assoc O). rewrite !app_nil_r. reflexivity.
        * exec_head ltac:(ss; repeat (progress (unfold gpp_scoped; rewrite ?nth_error_snoc_new, ?gpp_list_set_snoc, ?Hf, ?Eb); ss); reflexivity).
          rewrite gpp_block_nil. ss. fold canon_gen_files_body.
          replace (S (length done)) with (length (done ++ [f])) by (rewrite app_length; simpl; lia).
          replace (done ++ f :: rest) with ((done ++ [f]) ++ rest) by (rewrite <- app_assoc; reflexivity).
          rewrite IH. unfold gpp_out_of at 2. rewrite Eb. simpl negb.
          rewrite <- (app_assoc O). rewrite !app_nil_r. reflexivity.
      + exec_head ltac:(rwx Hf Eg Eg Eg).
        ss. fold canon_gen_files_body.
        replace (S (length done)) with (length (done ++ [f])) by (rewrite app_length; simpl; lia).
        replace (done ++ f :: rest) with ((done ++ [f]) ++ rest) by (rewrite <- app_assoc; reflexivity).
        rewrite IH. reflexivity.
  Qed.
End GF.

Lemma generate_all_files_prog : generate_all_files_prog_stmt.
Proof.
  intros perm sorter feat_gen fuel st reg names pool Hperm Hsort Hfs Hrok. pose proof Hrok as [Hreg Hfg].
  pose (st3 := {| gpp_env := [[("ext"%gname, GpvExt); ("plugin"%gname, GpvPlugin); ("featureNames"%gname, GpvSlice (map GpvStr names));
                             ("poolable"%gname, GpvMap pool)]];
                  gpp_glob := gpp_glob st; gpp_maps := gpp_maps st; gpp_files := gpp_files st; gpp_outs := gpp_outs st; gpp_params := gpp_params st;
                  gpp_err := gpp_err st |}).
  destruct (find_features_prog perm sorter feat_gen fuel st3 reg names Hperm Hsort Hfs Hreg) as [m Hm]. unfold st3 in Hm. clear st3.
  exists m. unfold gpp_find_features_spec in Hm.
  rewrite gpp_call_S. remember (gpp_call perm sorter feat_gen canon_genprog (S fuel)) as call eqn:Hcall.
  try rewrite <- Hcall in Hm.
  ss. unfold canon_generateAllFiles_body.
  exec_head ltac:(ss; reflexivity).
  destruct (find_features names) as [fs|] eqn:Eff.
  - exec_head ltac:(ss; rewrite gpp_all_files_refs; ss; rewrite Hm; ss; reflexivity).
    exec_head ltac:(ss; reflexivity).
    rewrite gpp_block_cons. rewrite gpp_exec_range. ss.
    pose proof (gf_loop perm sorter feat_gen call (gpp_glob st) (gpp_maps st ++ [m]) (gpp_params st) (gpp_err st) (map (gpp_feat_value reg) fs)
                        (GpvSlice (map GpvStr names)) (GpvMap pool) (gpp_files st) [] (gpp_outs st) 0) as HL.
    cbn [length app] in HL. rewrite HL. clear HL. ss.
    rewrite (generated_feats feat_gen reg fs Hrok (find_features_in_registry names fs Eff)). reflexivity.
  - assert (Hn : exists n, gpp_first_unknown names = Some n).
    { unfold find_features in Eff. destruct (required names []) eqn:Er; [discriminate|]. apply (required_none_unknown _ _ Er). }
    destruct Hn as [n Hn]. rewrite Hn in *.
    exec_head ltac:(ss; rewrite gpp_all_files_refs; ss; rewrite Hm; ss; reflexivity).
    exec_head ltac:(ss; reflexivity).
    ss. reflexivity.
Qed.

(* ---- what the specifications say, in the words of GenNames.v / GenOrder.v ------------------------------------------------------------- *)
Definition po_real (o : poneof) : bool := negb (po_syn o).

Lemma rw_oneof_syn : forall o, po_syn (gpp_rw_oneof o) = po_syn o.
Proof. intro o. unfold gpp_rw_oneof. destruct (po_syn o) eqn:E; simpl; rewrite ?E; reflexivity. Qed.
Lemma rw_oneof_full : forall o, po_full (gpp_rw_oneof o) = po_full o.
Proof. intro o. unfold gpp_rw_oneof. destruct (po_syn o); reflexivity. Qed.
Lemma rw_oneof_go_real : forall o, po_syn o = false -> po_go (gpp_rw_oneof o) = rewrite_field (po_go o).
Proof. intros o E. unfold gpp_rw_oneof. rewrite E. reflexivity. Qed.
Lemma rw_oneof_synthetic : forall o, po_syn o = true -> gpp_rw_oneof o = o.
Proof. intros o E. unfold gpp_rw_oneof. rewrite E. reflexivity. Qed.

(* a message that is visited (not yet processed, no map entry): its struct members afterwards are GenNames.struct_members of the
   members before (fields, then the real oneofs); synthetic oneofs, full names and flags are untouched *)
Lemma rw_msg_members : forall full fs os ms done, gpp_map_get full done = None ->
  let m' := fst (gpp_rw_msg (GpMsg full false fs os ms) done) in
  map pf_go (pm_fields m') ++ map po_go (filter po_real (pm_oneofs m')) = struct_members (map pf_go fs) (map po_go (filter po_real os))
  /\ map pf_full (pm_fields m') = map pf_full fs
  /\ map (fun o => (po_syn o, po_full o)) (pm_oneofs m') = map (fun o => (po_syn o, po_full o)) os
  /\ filter po_syn (pm_oneofs m') = filter po_syn os
  /\ pm_full m' = full /\ pm_mapentry m' = false /\ length (pm_msgs m') = length ms.
Proof.
  intros full fs os ms done Hd. rewrite gpp_rw_msg_eq. rewrite Hd. cbn [fst pm_fields pm_oneofs pm_full pm_mapentry pm_msgs].
  repeat split.
  - unfold struct_members. f_equal.
    + rewrite !map_map. reflexivity.
    + unfold po_real. induction os as [|o os IH]; [reflexivity|]. simpl. rewrite rw_oneof_syn.
      destruct (po_syn o) eqn:Es; simpl; [exact IH | rewrite (rw_oneof_go_real o Es); f_equal; exact IH].
  - rewrite map_map. reflexivity.
  - rewrite map_map. apply map_ext. intro o. rewrite rw_oneof_syn, rw_oneof_full. reflexivity.
  - induction os as [|o os IH]; [reflexivity|]. simpl. rewrite rw_oneof_syn.
    destruct (po_syn o) eqn:Es; [rewrite (rw_oneof_synthetic o Es); f_equal|]; exact IH.
  - clear. generalize (gpp_map_set full GpvUnit done). induction ms as [|c ms IH]; intro d; [reflexivity|]. simpl. f_equal. apply IH.
Qed.

(* so no member of a visited message is called like a method of protoreflect.Message (GenNamesProofs.no_member_method_clash) *)
Lemma rw_msg_no_clash : forall full fs os ms done x, gpp_map_get full done = None ->
  let m' := fst (gpp_rw_msg (GpMsg full false fs os ms) done) in
  In x (map pf_go (pm_fields m') ++ map po_go (filter po_real (pm_oneofs m'))) -> ~ In x reserved.
Proof.
  intros full fs os ms done x Hd m' Hin. destruct (rw_msg_members full fs os ms done Hd) as [Hm _]. fold m' in Hm. rewrite Hm in Hin.
  exact (no_member_method_clash _ _ _ Hin).
Qed.

(* a message already processed, and a map entry, are left alone *)
Lemma rw_msg_skipped : forall full me fs os ms done, gpp_map_get full done <> None \/ me = true ->
  gpp_rw_msg (GpMsg full me fs os ms) done = (GpMsg full me fs os ms, done).
Proof.
  intros full me fs os ms done H. rewrite gpp_rw_msg_eq. destruct (gpp_map_get full done); [reflexivity|].
  destruct H as [H| ->]; [congruence | reflexivity].
Qed.

(* the names of the response files: <prefix>.pulsar.go for exactly the proto3 files with Generate = true, none when no feature generated *)
Lemma outs_spec_emitted : forall fs files,
  gpp_emitted (gpp_outs_spec fs files) =
  if generated fs then map (fun f => fi_prefix f ++ s_pulsar_go) (filter (fun f => fi_generate f && fi_proto3 f) files) else [].
Proof.
  intros fs files. unfold gpp_emitted, gpp_outs_spec. induction files as [|f files IH]; [destruct (generated fs); reflexivity|].
  simpl. destruct (fi_generate f); simpl; [|exact IH].
  destruct (fi_proto3 f); destruct (generated fs) eqn:Eg; simpl in *; rewrite IH; reflexivity.
Qed.
Lemma outs_spec_all_generate : forall fs files, map ou_name (gpp_outs_spec fs files) = map (fun f => fi_prefix f ++ s_pulsar_go) (filter fi_generate files).
Proof. intros. unfold gpp_outs_spec. rewrite map_map. reflexivity. Qed.

(* ---- (e) main ------------------------------------------------------------------------------------------------------------------------- *)
Lemma gpp_exec_run : forall perm sorter feat_gen call f plugin body st,
  gpp_exec perm sorter feat_gen call (GpsRun f plugin body) st =
  match gpp_get f st with
  | Some (GpvFlags fl) =>
    gpp_bind (gpp_run_params fl (gpp_params st) st) (fun _ st1 =>
      match gpp_scoped (gpp_block perm sorter feat_gen call) [(plugin, GpvPlugin)] body st1 with
      | GpOk (GsgRet [GpvErr er]) st2 => GpOk GsgNext (gpp_with_err st2 er)
      | GpOk _ _ => GpStuck
      | GpPanic => GpPanic | GpExit => GpExit | GpFuel => GpFuel | GpStuck => GpStuck
      end)
  | _ => GpStuck
  end.
Proof. reflexivity. Qed.

Lemma split_is_split_plus : forall s, gpp_split plus s = split_plus s.
Proof.
  unfold gpp_split, split_plus. intro s. generalize (@nil byte). induction s as [|c s IH]; intro cur; simpl; [reflexivity|].
  destruct (Byte.eqb c plus); [f_equal; apply IH | apply IH].
Qed.

Definition reserved_map : gpmap := map (fun n => (n, GpvUnit)) reserved.
Arguments reserved_map : simpl never.
Lemma reserved_map_keys : forall g, gpp_map_get g reserved_map <> None <-> is_reserved g = true.
Proof. intro g. rewrite gpp_map_get_keys. reflexivity. Qed.

Lemma gpp_map_set_fresh : forall k v (m : gpmap), ~ In k (map fst m) -> gpp_map_set k v m = m ++ [(k, v)].
Proof.
  unfold gpp_map_set. induction m as [|[k' w] m IH]; intro H; [reflexivity|]. fold gpp_map_set in *. simpl in *.
  destruct (name_eqb k k') eqn:E; [apply name_eqb_eq in E; subst; exfalso; apply H; left; reflexivity|].
  rewrite IH; [reflexivity | intro Hi; apply H; right; exact Hi].
Qed.

Definition boot_glob : gpframe :=
  [("defaultFeatures"%gname, GpvMap (Some 0)); ("SupportedFeatures"%gname, GpvOpaque "uint64"); ("reservedFieldNames"%gname, GpvMap (Some 1))].
Definition boot_state' (acc rmap : gpmap) (files : list pfile) (params : list (name * name)) : gpstate :=
  {| gpp_env := [[]]; gpp_glob := boot_glob; gpp_maps := [acc; rmap]; gpp_files := files; gpp_outs := []; gpp_params := params;
     gpp_err := None |}.
Definition boot_state (acc : gpmap) := boot_state' acc reserved_map.

Lemma boot_register : forall perm sorter feat_gen fuel files params rmap reg acc, NoDup (map fst (acc ++ reg)) ->
  gpp_register perm sorter feat_gen canon_genprog (S fuel) reg (boot_state' acc rmap files params) = GpOk tt (boot_state' (acc ++ reg) rmap files params).
Proof.
  intros perm sorter feat_gen fuel files params rmap. induction reg as [|[n v] reg IH]; intros acc Hnd.
  - simpl. rewrite app_nil_r. reflexivity.
  - assert (Hfresh : ~ In n (map fst acc)).
    { rewrite map_app in Hnd. simpl in Hnd. apply NoDup_remove_2 in Hnd. intro Hi. apply Hnd. apply in_or_app. left. exact Hi. }
    cbn [gpp_register]. rewrite gpp_call_S. remember (gpp_call perm sorter feat_gen canon_genprog fuel) as call.
    unfold boot_state'. ss. rewrite (gpp_map_set_fresh n v acc Hfresh).
    replace (acc ++ (n, v) :: reg) with ((acc ++ [(n, v)]) ++ reg) by (rewrite <- app_assoc; reflexivity).
    apply IH. rewrite <- app_assoc. exact Hnd.
Qed.

Lemma boot_ok : forall perm sorter feat_gen fuel files params reg, NoDup (map fst reg) ->
  gpp_boot perm sorter feat_gen canon_genprog (S fuel) reg files params = GpOk tt (boot_state reg files params).
Proof.
  intros perm sorter feat_gen fuel files params reg Hnd. unfold gpp_boot.
  assert (Hinit : gpp_init_vars perm sorter feat_gen canon_genprog (S fuel) canon_genprog (gpp_state0 files params) = GpOk tt (boot_state [] files params))
    by reflexivity.
  rewrite Hinit. cbn [gpp_bind]. apply (boot_register perm sorter feat_gen fuel files params reserved_map reg []). exact Hnd.
Qed.

Lemma file_with_msgs_id : forall f, gpp_file_with_msgs f (fi_msgs f) = f.
Proof. destruct f; reflexivity. Qed.
Lemma get_msg_top : forall F k f j, nth_error F k = Some f -> gpp_get_msg F k [j] = nth_error (fi_msgs f) j.
Proof. unfold gpp_get_msg. intros F k f j H. rewrite H. simpl. destruct (nth_error (fi_msgs f) j); reflexivity. Qed.
Lemma set_msg_top : forall F k f j c c', nth_error F k = Some f -> nth_error (fi_msgs f) j = Some c ->
  gpp_set_msg F k [j] c' = gpp_list_set k (gpp_file_with_msgs f (gpp_list_set j c' (fi_msgs f))) F.
Proof. unfold gpp_set_msg. intros F k f j c c' H Hc. rewrite H. simpl. rewrite Hc. reflexivity. Qed.
Lemma pm_forest_depth_in : forall ms c fuel, pm_forest_depth ms <= fuel -> In c ms -> pm_depth c <= fuel.
Proof.
  unfold pm_forest_depth. induction ms as [|a ms IH]; intros c fuel H Hin; [destruct Hin|]. simpl in H.
  destruct Hin as [->|Hin]; [lia | apply IH; [lia | exact Hin]].
Qed.

Section MF.
  Variable perm : gpmap -> gpmap.
  Variable sorter : (gpvalue -> gpvalue -> bool) -> list gpvalue -> list gpvalue.
  Variable feat_gen : gpvalue -> bool.
  Variable fuel : nat.
  Variables (G : gpframe) (FR : gpframe) (O : list pout) (P : list (name * name)) (E : option (gname * list name)).
  Variables (q r : nat) (rm : gpmap).
  Hypothesis HG : gpp_glob_get "reservedFieldNames"%gname G = Some (GpvMap (Some r)).
  Hypothesis Hrm : forall g, gpp_map_get g rm <> None <-> is_reserved g = true.
  Hypothesis Hqr : q <> r.
  Let call := gpp_call perm sorter feat_gen canon_genprog fuel.

  Notation STF F MM :=
    {| gpp_env := [[("file"%gname, GpvFile _)]; [("processedMessages"%gname, GpvMap (Some q)); ("plugin"%gname, GpvPlugin)]; FR];
       gpp_glob := G; gpp_maps := MM; gpp_files := F; gpp_outs := O; gpp_params := P; gpp_err := E |}.

  (* the messages of file k *)
  Lemma main_msgs_loop : forall k f0 F0, nth_error F0 k = Some f0 -> forall rest done_ms MM d j,
    pm_forest_depth rest <= fuel -> gpp_heap_get MM q = Some d -> gpp_heap_get MM r = Some rm ->
    gpp_loop (gpp_range_step perm sorter feat_gen call "_" "message" canon_main_messages_body)
            (gpp_index_items j (map (fun i => GpvMsg k [i]) (seq (length done_ms) (length rest))))
            {| gpp_env := [[("file"%gname, GpvFile k)]; [("processedMessages"%gname, GpvMap (Some q)); ("plugin"%gname, GpvPlugin)]; FR];
               gpp_glob := G; gpp_maps := MM; gpp_files := gpp_list_set k (gpp_file_with_msgs f0 (done_ms ++ rest)) F0; gpp_outs := O;
               gpp_params := P; gpp_err := E |}
    = GpOk GsgNext
        {| gpp_env := [[("file"%gname, GpvFile k)]; [("processedMessages"%gname, GpvMap (Some q)); ("plugin"%gname, GpvPlugin)]; FR];
           gpp_glob := G; gpp_maps := gpp_list_set q (snd (gpp_rw_forest rest d)) MM;
           gpp_files := gpp_list_set k (gpp_file_with_msgs f0 (done_ms ++ fst (gpp_rw_forest rest d))) F0; gpp_outs := O;
           gpp_params := P; gpp_err := E |}.
  Proof.
    intros k f0 F0 Hk. induction rest as [|c rest IH]; intros done_ms MM d j Hdepth Hq Hr.
    - cbn [length seq map gpp_index_items gpp_rw_forest fst snd]. unfold gpp_heap_get in Hq. rewrite (@gpp_list_set_id gpmap MM q d Hq). reflexivity.
    - simpl length. simpl seq. simpl map. simpl gpp_index_items. loop_head.
      unfold gpp_range_step at 1. unfold gpp_scoped. unfold canon_main_messages_body.
      set (Fcur := gpp_list_set k (gpp_file_with_msgs f0 (done_ms ++ c :: rest)) F0).
      assert (Hkc : nth_error Fcur k = Some (gpp_file_with_msgs f0 (done_ms ++ c :: rest))) by (apply (gpp_list_set_nth _ _ _ f0); exact Hk).
      assert (Hgc : gpp_get_msg Fcur k [length done_ms] = Some c).
      { rewrite (get_msg_top _ _ _ _ Hkc). simpl. apply nth_error_app_mid. }
      assert (Hdc : pm_depth c <= fuel) by (apply (pm_forest_depth_in (c :: rest)); [exact Hdepth | left; reflexivity]).
      assert (Hdr : pm_forest_depth rest <= fuel) by (unfold pm_forest_depth in *; simpl in Hdepth; lia).
      exec_head ltac:(ss; unfold call; match goal with |- context [gpp_call _ _ _ _ _ _ _ ?st] =>
                            rewrite (rewrite_prog perm sorter feat_gen fuel st r q k [length done_ms] c d
                                                  (conj HG (ex_intro _ rm (conj Hr Hrm))) Hqr Hq Hgc Hdc) end; ss; reflexivity).
      rewrite gpp_block_nil. ss. fold canon_main_messages_body.
      rewrite (set_msg_top _ _ _ _ c _ Hkc (nth_error_app_mid _ _ _)). unfold Fcur. rewrite gpp_list_set_set.
      cbn [gpp_file_with_msgs fi_generate fi_proto3 fi_prefix fi_import fi_pkg fi_msgs]. rewrite gpp_list_set_app.
      change {| fi_generate := fi_generate f0; fi_proto3 := fi_proto3 f0; fi_prefix := fi_prefix f0; fi_import := fi_import f0; fi_pkg := fi_pkg f0;
                fi_msgs := done_ms ++ fst (gpp_rw_msg c d) :: rest |} with (gpp_file_with_msgs f0 (done_ms ++ fst (gpp_rw_msg c d) :: rest)).
      replace (S (length done_ms)) with (length (done_ms ++ [fst (gpp_rw_msg c d)])) by (rewrite app_length; simpl; lia).
      replace (done_ms ++ fst (gpp_rw_msg c d) :: rest) with ((done_ms ++ [fst (gpp_rw_msg c d)]) ++ rest) by (rewrite <- app_assoc; reflexivity).
      rewrite (IH (done_ms ++ [fst (gpp_rw_msg c d)]) _ (snd (gpp_rw_msg c d)) (S j) Hdr).
      + rewrite gpp_list_set_set. rewrite <- app_assoc. reflexivity.
      + apply (gpp_heap_get_set_same _ _ d). exact Hq.
      + rewrite gpp_heap_get_set_other by exact Hqr. exact Hr.
  Qed.
  (* the loop over plugin.Files *)
  Lemma main_files_loop : forall rest done MM d j,
    Forall (fun f => pm_forest_depth (fi_msgs f) <= fuel) rest -> gpp_heap_get MM q = Some d -> gpp_heap_get MM r = Some rm ->
    gpp_loop (gpp_range_step perm sorter feat_gen call "_" "file" canon_main_files_body)
            (gpp_index_items j (map GpvFile (seq (length done) (length rest))))
            {| gpp_env := [[("processedMessages"%gname, GpvMap (Some q)); ("plugin"%gname, GpvPlugin)]; FR];
               gpp_glob := G; gpp_maps := MM; gpp_files := done ++ rest; gpp_outs := O; gpp_params := P; gpp_err := E |}
    = GpOk GsgNext
        {| gpp_env := [[("processedMessages"%gname, GpvMap (Some q)); ("plugin"%gname, GpvPlugin)]; FR];
           gpp_glob := G; gpp_maps := gpp_list_set q (snd (gpp_rw_files rest d)) MM; gpp_files := done ++ fst (gpp_rw_files rest d);
           gpp_outs := O; gpp_params := P; gpp_err := E |}.
  Proof.
    induction rest as [|f rest IH]; intros done MM d j Hall Hq Hr.
    - cbn [length seq map gpp_index_items gpp_rw_files fst snd]. unfold gpp_heap_get in Hq. rewrite (@gpp_list_set_id gpmap MM q d Hq). reflexivity.
    - inversion Hall as [|? ? Hf Hrest]; subst.
      simpl length. simpl seq. simpl map. simpl gpp_index_items. loop_head.
      unfold gpp_range_step at 1. unfold gpp_scoped. unfold canon_main_files_body.
      assert (Hk : nth_error (done ++ f :: rest) (length done) = Some f) by apply nth_error_app_mid.
      cbn [gpp_rw_files]. destruct (fi_generate f) eqn:Eg.
      + exec_head ltac:(rwx Hk Eg Eg Eg).
        rewrite gpp_block_cons. rewrite gpp_exec_range. ss. rewrite Hk. ss.
        pose proof (main_msgs_loop (length done) f (done ++ f :: rest) Hk (fi_msgs f) [] MM d 0 Hf Hq Hr) as HL.
        cbn [length app] in HL. rewrite file_with_msgs_id in HL. rewrite (gpp_list_set_id _ _ _ Hk) in HL.
        unfold gpframe, gpmap in *. rewrite HL. clear HL.
        ss. rewrite gpp_list_set_app.
        replace (S (length done)) with (length (done ++ [gpp_file_with_msgs f (fst (gpp_rw_forest (fi_msgs f) d))])) by (rewrite app_length; simpl; lia).
        fold canon_main_files_body.
        assert (Hq' : gpp_heap_get (gpp_list_set q (snd (gpp_rw_forest (fi_msgs f) d)) MM) q = Some (snd (gpp_rw_forest (fi_msgs f) d)))
          by (apply (gpp_heap_get_set_same _ _ d); exact Hq).
        assert (Hr' : gpp_heap_get (gpp_list_set q (snd (gpp_rw_forest (fi_msgs f) d)) MM) r = Some rm)
          by (rewrite gpp_heap_get_set_other by exact Hqr; exact Hr).
        pose proof (IH (done ++ [gpp_file_with_msgs f (fst (gpp_rw_forest (fi_msgs f) d))]) _ _ (S j) Hrest Hq' Hr') as HI.
        rewrite <- !app_assoc in HI. cbn [app] in HI. unfold gpframe, gpmap in *. rewrite HI. rewrite gpp_list_set_set. reflexivity.
      + exec_head ltac:(rwx Hk Eg Eg Eg).
        ss. fold canon_main_files_body.
        replace (S (length done)) with (length (done ++ [f])) by (rewrite app_length; simpl; lia).
        replace (done ++ f :: rest) with ((done ++ [f]) ++ rest) by (rewrite <- app_assoc; reflexivity).
        rewrite (IH _ _ d (S j) Hrest Hq Hr). rewrite <- app_assoc. reflexivity.
  Qed.
End MF.

Lemma files_depth_forall : forall files fuel,
  fold_right (fun f a => Nat.max (pm_forest_depth (fi_msgs f)) a) 0 files <= fuel ->
  Forall (fun f => pm_forest_depth (fi_msgs f) <= fuel) files.
Proof. induction files as [|f files IH]; intros fuel H; constructor; simpl in H; [lia | apply IH; lia]. Qed.

Lemma main_prog : main_prog_stmt.
Proof.
  intros perm sorter feat_gen fuel reg files feats Hperm Hsort Hrok Hfuel. pose proof Hrok as [Hreg Hfg].
  assert (Hregnd : NoDup (map fst reg)).
  { apply Permutation_NoDup with (l := map fst registry); [apply Permutation_sym; exact Hreg | exact registry_nodup]. }
  destruct fuel as [|[|[|f3]]]; try lia.
  assert (Hdepth : Forall (fun f => pm_forest_depth (fi_msgs f) <= S (S f3)) files) by (apply files_depth_forall; lia).
  unfold gpp_run_main. rewrite (boot_ok perm sorter feat_gen (S (S f3)) files _ reg Hregnd). cbn [gpp_bind].
  rewrite gpp_call_S. remember (gpp_call perm sorter feat_gen canon_genprog (S (S f3))) as call eqn:Hcall.
  unfold boot_state, boot_state'. ss. unfold canon_main_body.
  exec_head ltac:(ss; reflexivity).
  exec_head ltac:(ss; reflexivity).
  exec_head ltac:(ss; reflexivity).
  exec_head ltac:(ss; reflexivity).
  exec_head ltac:(ss; reflexivity).
  rewrite gpp_block_cons. rewrite gpp_exec_run. unfold gpp_scoped. unfold canon_main_closure.
  set (featv := match feats with Some s => s | None => s_all end).
  assert (Hrun : forall X : unit -> gpstate -> gpres gpsig, gpp_bind (gpp_run_params [(gname_bytes "pool", GpfValue); (gname_bytes "features", GpfString "features"%gname)]
                     (match feats with Some s => [(s_features, s)] | None => [] end)
                     {| gpp_env := [[("f"%gname, GpvFlags [(gname_bytes "pool", GpfValue); (gname_bytes "features", GpfString "features"%gname)]);
                                     ("poolable"%gname, GpvMap (Some 2)); ("features"%gname, GpvStr (gname_bytes "all"))]];
                        gpp_glob := boot_glob; gpp_maps := [reg; reserved_map; []]; gpp_files := files; gpp_outs := [];
                        gpp_params := match feats with Some s => [(s_features, s)] | None => [] end; gpp_err := None |}) X
                   = X tt {| gpp_env := [[("f"%gname, GpvFlags [(gname_bytes "pool", GpfValue); (gname_bytes "features", GpfString "features"%gname)]);
                                     ("poolable"%gname, GpvMap (Some 2)); ("features"%gname, GpvStr featv)]];
                        gpp_glob := boot_glob; gpp_maps := [reg; reserved_map; []]; gpp_files := files; gpp_outs := [];
                        gpp_params := match feats with Some s => [(s_features, s)] | None => [] end; gpp_err := None |}).
  { intro X. unfold featv. destruct feats as [s|]; reflexivity. }
  ss. rewrite Hrun. clear Hrun.
  exec_head ltac:(ss; reflexivity).
  rewrite gpp_block_cons. rewrite gpp_exec_range. ss.
  assert (HGr : gpp_glob_get "reservedFieldNames"%gname boot_glob = Some (GpvMap (Some 1))) by reflexivity.
  assert (Hq3 : gpp_heap_get [reg; reserved_map; []; []] 3 = Some []) by reflexivity.
  assert (Hr1 : gpp_heap_get [reg; reserved_map; []; []] 1 = Some reserved_map) by reflexivity.
  assert (H31 : 3 <> 1) by lia.
  rewrite Hcall.
  pose proof (main_files_loop perm sorter feat_gen (S (S f3)) boot_glob
               [("f"%gname, GpvFlags [(gname_bytes "pool", GpfValue); (gname_bytes "features", GpfString "features"%gname)]);
                ("poolable"%gname, GpvMap (Some 2)); ("features"%gname, GpvStr featv)]
               [] (match feats with Some s => [(s_features, s)] | None => [] end) None 3 1 reserved_map HGr reserved_map_keys H31
               files [] [reg; reserved_map; []; []] [] 0 Hdepth Hq3 Hr1) as HL.
  cbn [length app] in HL. simpl gname_bytes in HL. unfold gpframe, gpmap in *. rewrite HL. clear HL. rewrite <- Hcall.
  ss.
  (* return generateAllFiles(plugin, strings.Split(features, "+"), poolable) *)
  match goal with |- context [gpp_block _ _ _ _ _ ?st] =>
    destruct (generate_all_files_prog perm sorter feat_gen f3 st reg (split_plus featv) (Some 2) Hperm Hsort
                (ex_intro _ 0 (conj eq_refl eq_refl)) Hrok) as [m Hm] end.
  rewrite <- Hcall in Hm. cbn [gpp_files gpp_outs gpp_maps] in Hm.
  unfold gpp_main_spec. fold featv.
  destruct (find_features (split_plus featv)) as [fs|] eqn:Eff.
  - exec_head ltac:(ss; change ["+"%byte] with [plus]; rewrite split_is_split_plus; rewrite Hm; ss; reflexivity).
    ss. eexists. reflexivity.
  - exec_head ltac:(ss; change ["+"%byte] with [plus]; rewrite split_is_split_plus; rewrite Hm; ss; reflexivity).
    ss. eexists. reflexivity.
Qed.
