(* Proofs/TimePbProofs.v — C17 *)
From Coq Require Import Lia ZifyN ZifyNat ZifyBool PreOmega.
Ltac Zify.zify_post_hook ::= Z.div_mod_to_equations.
From CP Require Import Bytes BytesLemmas TimePb.
Local Open Scope Z_scope.

Lemma wrap64_arith z : wrap64 z = (z + Z.of_N two63) mod Z.of_N two64 - Z.of_N two63.
Proof.
  unfold wrap64, z2u64, s64, two63, two64. cbn [Z.of_N].
  pose proof (Z.mod_pos_bound z 18446744073709551616 ltac:(lia)) as Hb.
  set (m := z mod 18446744073709551616) in *.
  rewrite N.mod_small by lia.
  destruct (N.ltb_spec (Z.to_N m) 9223372036854775808); rewrite Z2N.id by lia; unfold m in *; lia.
Qed.

Lemma wrap32_arith z : wrap32 z = (z + 2147483648) mod 4294967296 - 2147483648.
Proof.
  unfold wrap32, z2u32, s32, two31, two32. cbn [Z.of_N].
  pose proof (Z.mod_pos_bound z 4294967296 ltac:(lia)) as Hb.
  set (m := z mod 4294967296) in *.
  rewrite N.mod_small by lia.
  destruct (N.ltb_spec (Z.to_N m) 2147483648); rewrite Z2N.id by lia; unfold m in *; lia.
Qed.

Lemma wrap64_id z : int64 z -> wrap64 z = z.
Proof. unfold int64. rewrite wrap64_arith. unfold two63, two64. lia. Qed.

Lemma wrap32_id z : -2147483648 <= z < 2147483648 -> wrap32 z = z.
Proof. rewrite wrap32_arith. lia. Qed.

Lemma Compare_chrono t1 t2 : normalised t1 -> normalised t2 ->
  TsCompare t1 t2 = match inst t1 ?= inst t2 with Lt => -1 | Eq => 0 | Gt => 1 end.
Proof.
  unfold normalised, TsCompare, inst, second. intros H1 H2.
  destruct (Z.compare_spec (secs t1 * 1000000000 + nanos t1) (secs t2 * 1000000000 + nanos t2));
  destruct (Z.eqb_spec (secs t1) (secs t2)); destruct (Z.eqb_spec (nanos t1) (nanos t2));
  destruct (Z.ltb_spec (secs t1) (secs t2)); destruct (Z.ltb_spec (nanos t1) (nanos t2)); cbn; lia.
Qed.

Lemma Compare_range t1 t2 : TsCompare t1 t2 = -1 \/ TsCompare t1 t2 = 0 \/ TsCompare t1 t2 = 1.
Proof. unfold TsCompare. destruct (_ && _)%bool; [auto|]. destruct (_ || _)%bool; auto. Qed.

(* the result of TsAdd as a mathematical normalisation, when nothing wraps *)
Lemma Add_exact t d : valid_ts t -> valid_dur d ->
  exists r, TsAdd t d = Ok r /\ inst r = inst t + inst d /\ normalised r.
Proof.
  unfold valid_ts, valid_dur, second. intros (Hs & Hn) (Hds & Hdn & Hpos & Hneg).
  unfold TsAdd.
  destruct ((secs d =? 0) && (nanos d =? 0))%bool eqn:Ez.
  - exists t. apply andb_true_iff in Ez. destruct Ez as [E1 E2].
    apply Z.eqb_eq in E1. apply Z.eqb_eq in E2. unfold inst, normalised, second. rewrite E1, E2. repeat split; lia.
  - rewrite (wrap64_id (secs t + secs d)) by (unfold int64, two63; lia).
    rewrite (wrap32_id (nanos t + nanos d)) by lia.
    unfold second.
    set (n := nanos t + nanos d). set (s := secs t + secs d).
    assert (Ez' : ~ (secs d = 0 /\ nanos d = 0)).
    { intros [E1 E2]. rewrite E1, E2 in Ez. discriminate. }
    destruct (Z.leb_spec 1000000000 n) as [Hc|Hc]; [|destruct (Z.ltb_spec n 0) as [Hb|Hb]].
    + rewrite (wrap64_id (s + 1)) by (unfold int64, two63, s; lia).
      rewrite (wrap32_id (n - 1000000000)) by (unfold n; lia).
      set (r := {| secs := s + 1; nanos := n - 1000000000 |}).
      assert (Hi : inst r = inst t + inst d) by (unfold inst, second, r, s, n; cbn; lia).
      assert (Hr : normalised r) by (unfold normalised, second, r, n; cbn; lia).
      exists r. split; [|split; assumption].
      unfold overflowPanic. rewrite Compare_chrono by (unfold normalised, second; assumption).
      rewrite Hi. unfold DurationIsNegative.
      destruct (Z.ltb_spec (secs d) 0); destruct (Z.eqb_spec (secs d) 0); destruct (Z.ltb_spec (nanos d) 0); cbn [orb andb];
      destruct (Z.compare_spec (inst t) (inst t + inst d)); unfold inst, second in *; try reflexivity; unfold n in *; lia.
    + rewrite (wrap64_id (s - 1)) by (unfold int64, two63, s; lia).
      rewrite (wrap32_id (n + 1000000000)) by (unfold n; lia).
      set (r := {| secs := s - 1; nanos := n + 1000000000 |}).
      assert (Hi : inst r = inst t + inst d) by (unfold inst, second, r, s, n; cbn; lia).
      assert (Hr : normalised r) by (unfold normalised, second, r, n; cbn; lia).
      exists r. split; [|split; assumption].
      unfold overflowPanic. rewrite Compare_chrono by (unfold normalised, second; assumption).
      rewrite Hi. unfold DurationIsNegative.
      destruct (Z.ltb_spec (secs d) 0); destruct (Z.eqb_spec (secs d) 0); destruct (Z.ltb_spec (nanos d) 0); cbn [orb andb];
      destruct (Z.compare_spec (inst t) (inst t + inst d)); unfold inst, second in *; try reflexivity; unfold n in *; lia.
    + set (r := {| secs := s; nanos := n |}).
      assert (Hi : inst r = inst t + inst d) by (unfold inst, second, r, s, n; cbn; lia).
      assert (Hr : normalised r) by (unfold normalised, second, r, n; cbn; lia).
      exists r. split; [|split; assumption].
      unfold overflowPanic. rewrite Compare_chrono by (unfold normalised, second; assumption).
      rewrite Hi. unfold DurationIsNegative.
      destruct (Z.ltb_spec (secs d) 0); destruct (Z.eqb_spec (secs d) 0); destruct (Z.ltb_spec (nanos d) 0); cbn [orb andb];
      destruct (Z.compare_spec (inst t) (inst t + inst d)); unfold inst, second in *; try reflexivity; unfold n in *; lia.
Qed.

Lemma ts_eq (a b : ts) : secs a = secs b -> nanos a = nanos b -> a = b.
Proof. destruct a, b; cbn; intros -> ->; reflexivity. Qed.

Lemma normalised_unique r i : normalised r -> inst r = i -> r = {| secs := i / second; nanos := i mod second |}.
Proof.
  unfold normalised, inst, second. intros Hn Hi. apply ts_eq; cbn; lia.
Qed.

Lemma dur_of_ns_valid d : int64 d -> valid_dur (dur_of_ns d) /\ inst (dur_of_ns d) = d.
Proof.
  unfold int64, valid_dur, dur_of_ns, inst, second, two63. cbn [Z.of_N secs nanos]. intro H.
  Z.quot_rem_to_equations. lia.
Qed.

Lemma Add_eq_AddStd t d : valid_ts t -> int64 d -> TsAdd t (dur_of_ns d) = TsAddStd t d.
Proof.
  intros Ht Hd. destruct (dur_of_ns_valid d Hd) as [Hv Hi].
  destruct (Add_exact t (dur_of_ns d) Ht Hv) as (r & HA & Hinst & Hnorm).
  unfold TsAddStd. destruct (Z.eqb_spec d 0) as [->|Hnz].
  - reflexivity.
  - rewrite HA. rewrite Hi in Hinst.
    pose proof (normalised_unique r (inst t + d) Hnorm Hinst) as Er. subst r.
    unfold overflowPanic. rewrite Compare_chrono; [| destruct Ht; assumption | exact Hnorm].
    rewrite Hinst.
    destruct (Z.ltb_spec d 0); destruct (Z.compare_spec (inst t) (inst t + d)); try reflexivity; lia.
Qed.

Lemma Compare_total t1 t2 t3 : normalised t1 -> normalised t2 -> normalised t3 ->
  TsCompare t1 t2 = - TsCompare t2 t1 /\ (TsCompare t1 t2 = 0 <-> t1 = t2) /\
  (TsCompare t1 t2 <= 0 -> TsCompare t2 t3 <= 0 -> TsCompare t1 t3 <= 0).
Proof.
  intros H1 H2 H3. rewrite !Compare_chrono by assumption.
  split; [|split].
  - rewrite (Z.compare_antisym (inst t1) (inst t2)). destruct (inst t1 ?= inst t2); reflexivity.
  - destruct (Z.compare_spec (inst t1) (inst t2)) as [E|E|E]; split; intro H; try lia; try reflexivity.
    + unfold normalised, inst, second in *. apply ts_eq; lia.
    + subst. lia.
    + subst. lia.
  - destruct (Z.compare_spec (inst t1) (inst t2)); destruct (Z.compare_spec (inst t2) (inst t3));
    destruct (Z.compare_spec (inst t1) (inst t3)); lia.
Qed.
