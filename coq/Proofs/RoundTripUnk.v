(* Proofs/RoundTripUnk.v — round trip (C01) for values that carry unknown fields: the unknown bytes are
   re-read record by record by the default branch of the loop and stored unchanged. *)
From CP Require Import Extra UnkOk RefDecode RefDecodeEq RoundTrip BytesLemmas RuntimeProofs ValInd.
From CP Require Import Unknown.
From Coq Require Import Lia ZifyN ZifyNat ZifyBool Permutation PreOmega.
Ltac Zify.zify_post_hook ::= Z.div_mod_to_equations.
Local Open Scope N_scope.

(* ================================================================ the unknown tail *)
Lemma unk_tail sch child md : forall f bs, unk_okb_aux f md bs = true ->
  (Z.of_nat (length bs) < Z.of_N two63)%Z ->
  forall fuel sl u0, (length bs < fuel)%nat ->
  msg_loop sch false child md fuel (VMsg sl u0) bs = Ok (VMsg sl (u0 ++ bs)).
Proof.
  induction f as [|f IH]; intros bs Hok Hb fuel sl u0 Hfuel; [discriminate Hok|].
  destruct fuel as [|fu]; [lia|].
  destruct bs as [|b0 t0].
  { cbn [msg_loop]. rewrite app_nil_r. reflexivity. }
  cbn [unk_okb_aux] in Hok.
  set (bs := b0 :: t0) in *.
  destruct (pw_tag bs) as [[[num wt] r]|] eqn:Et; [|discriminate Hok].
  destruct (find_field (m_fields md) 0 (Z.of_N num)) as [p|] eqn:Ef; [discriminate Hok|].
  destruct (pw_skip_value (S (length r)) num wt r) as [r'|] eqn:Es; [|discriminate Hok].
  destruct (pw_tag_spec _ _ _ _ Et) as (x & Ev & Hnum & Hwt & Hn1 & Hn2 & Hx).
  destruct (pw_varint_dec_varint _ _ _ Ev) as (n & Hdec & _ & _).
  destruct (pw_skip_value_Skip _ _ _ _ _ Et Es Hb) as (Hskip & Hr' & Hlt).
  rewrite msg_loop_S_nonempty by (unfold bs; discriminate).
  rewrite Hdec. cbv zeta.
  rewrite s32_fieldnum by (subst num; assumption).
  unfold u64. rewrite (N.mod_small x two64) by exact Hx.
  rewrite <- Hnum, <- Hwt.
  destruct (N.eqb_spec wt 4) as [E4|_].
  { exfalso. rewrite E4 in Es. rewrite pw_skip_value_S in Es. cbn in Es. discriminate Es. }
  destruct (Z.leb_spec (Z.of_N num) 0) as [H0|_]; [lia|].
  rewrite Ef. rewrite Hskip.
  set (k := (length bs - length r')%nat) in *.
  destruct (Z.ltb_spec (Z.of_nat (length bs)) (Z.of_nat k)) as [H1|_]; [lia|].
  cbn [slots_of unk_of].
  assert (Hsplit : bs = firstn k bs ++ r') by (rewrite Hr'; symmetry; apply firstn_skipn).
  assert (Hk : length (firstn k bs) = k) by (apply firstn_length_le; lia).
  set (pre := firstn k bs) in *.
  rewrite <- Hk. rewrite Hsplit at 1 2.
  rewrite zfirstn_app_exact, zskipn_app_exact.
  rewrite (IH r' Hok); [|lia|lia].
  rewrite <- app_assoc. rewrite <- Hsplit. reflexivity.
Qed.

(* ================================================================ one message level, with a tail *)
Lemma msg_level_gen sch discard child md slots rest :
  msg_wf (length sch) md = true ->
  length slots = length (m_fields md) ->
  (forall i f s, nth_error (m_fields md) i = Some f -> nth_error slots i = Some s ->
     wt_slot (wt_msg sch) f s = true) ->
  (forall i f s m, nth_error (m_fields md) i = Some f -> nth_error slots i = Some s ->
     f_ty f = TMsg m -> Forall (child_good sch child m) (elems_of f s)) ->
  (forall oi, (oi < m_oneofs md)%nat -> (oneof_count (m_fields md) slots oi <= 1)%nat) ->
  let per := zipf (fun f s => (f, emit_field false (emit sch false) f s)) (m_fields md) slots in
  N.of_nat (length (assemble md per)) < two63 ->
  steps_to sch discard child md (empty_msg md) (assemble md per ++ rest)
           (VMsg (zipf (norm_slot sch (norm sch)) (m_fields md) slots) []) rest.
Proof.
  intros Hmd Hlen Hwt Hcg Hone per Hb.
  assert (Hperm : Permutation (assemble_list md per) per).
  { apply assemble_perm. intros p j Hp Hj. unfold per in Hp. apply zipf_in in Hp.
    destruct Hp as (i & f & s & Hf & Hs & ->). cbn [fst] in Hj.
    destruct (msg_wf_field sch md i f Hmd Hf) as [Hfw _]. apply field_wf_shape in Hfw. rewrite Hj in Hfw. exact Hfw. }
  set (L := assemble_list md per) in *.
  assert (Hkeys : Permutation (map (fun e => f_num (fst e)) L) (map f_num (m_fields md))).
  { eapply Permutation_trans; [apply Permutation_map; exact Hperm|].
    unfold per. rewrite (zipf_map_fst _ f_num) by exact Hlen. apply Permutation_refl. }
  pose proof (loop_steps sch discard child md Hmd slots Hlen Hwt Hcg Hone [] rest L []) as Hsteps.
  rewrite assemble_concat. fold L.
  assert (E0 : empty_msg md = VMsg (state_of sch md slots []) []).
  { unfold empty_msg. f_equal. unfold state_of, slotG. cbn [existsb]. symmetry.
    apply (zipf_const default_slot). exact Hlen. }
  rewrite E0.
  assert (E1 : zipf (norm_slot sch (norm sch)) (m_fields md) slots
               = state_of sch md slots (rev (map (fun e => f_num (fst e)) L) ++ [])).
  { unfold state_of. apply zipf_ext_in. intros f Hf s. unfold slotG.
    assert (Hin : In (f_num f) (rev (map (fun e => f_num (fst e)) L) ++ [])).
    { rewrite app_nil_r. apply in_rev. rewrite rev_involutive.
      apply (Permutation_in _ (Permutation_sym Hkeys)). apply in_map. exact Hf. }
    destruct (existsb (N.eqb (f_num f)) (rev (map (fun e => f_num (fst e)) L) ++ [])) eqn:Ex; [reflexivity|].
    exfalso. apply (existsb_eqb_in _ _ Ex). exact Hin. }
  rewrite E1. apply Hsteps.
  - intros e He. apply (Permutation_in _ Hperm) in He. unfold per in He. apply zipf_in in He.
    destruct He as (i & f & s & Hf & Hs & ->). exists i, s. cbn [fst snd]. repeat split; assumption.
  - apply (Permutation_NoDup (Permutation_sym Hkeys)). apply nodupb_NoDup. apply (nodup_fields sch md Hmd).
  - intros e _ [].
  - unfold L. rewrite <- assemble_concat. exact Hb.
Qed.

(* ================================================================ views of unknowns_okb *)
Fixpoint zipok (g : field -> val -> bool) (fs : list field) (ss : list val) : bool :=
  match ss, fs with s :: ss', f :: fs' => g f s && zipok g fs' ss' | _, _ => true end.

Lemma unknowns_okb_unfold sch mid slots unk :
  unknowns_okb sch mid (VMsg slots unk) =
  match get_msg sch mid with
  | None => false
  | Some md => unk_okb md unk && zipok (uok_slot (unknowns_okb sch)) (m_fields md) slots
  end.
Proof.
  cbn [unknowns_okb]. destruct (get_msg sch mid) as [md|]; [|reflexivity]. f_equal.
  generalize (m_fields md). induction slots as [|s ss IH]; intros [|f fs]; cbn [zipok]; try reflexivity.
  f_equal. apply IH.
Qed.

Lemma zipok_spec g fs : forall ss, zipok g fs ss = true ->
  forall i f s, nth_error fs i = Some f -> nth_error ss i = Some s -> g f s = true.
Proof.
  induction fs as [|f0 fs IH]; intros [|s0 ss] H [|i] f s Hf Hs; cbn [nth_error zipok] in *; try discriminate.
  - apply andb_prop in H. destruct H as [H _]. congruence.
  - apply andb_prop in H. destruct H as [_ H]. eapply IH; eassumption.
Qed.

Lemma zipok_intro g fs : forall ss,
  (forall i f s, nth_error fs i = Some f -> nth_error ss i = Some s -> g f s = true) -> zipok g fs ss = true.
Proof.
  induction fs as [|f0 fs IH]; intros [|s0 ss] H; cbn [zipok]; try reflexivity.
  apply andb_true_intro. split; [apply (H 0%nat); reflexivity|].
  apply IH. intros i f s Hf Hs. apply (H (S i)); assumption.
Qed.

Lemma uok_elems sch rec f s m : wt_slot (wt_msg sch) f s = true -> f_ty f = TMsg m ->
  uok_slot rec f s = true -> Forall (fun x => uok_elem rec (TMsg m) x = true) (elems_of f s).
Proof.
  intros Hwt Ht Hu. unfold wt_slot, elems_of, uok_slot in *. rewrite Ht in *.
  destruct (f_shape f) as [|p|oi|kk].
  - destruct s as [z|b|n|l| |q|sl un|l|kvs]; try discriminate Hwt; [constructor|].
    constructor; [exact Hu|constructor].
  - destruct s as [z|b|n|l| |q|sl un|l|kvs]; try discriminate Hwt; cbn [lst]; [constructor|].
    apply Forall_forall. rewrite forallb_forall in Hu. exact Hu.
  - destruct s as [z|b|n|l| |q|sl un|l|kvs]; try discriminate Hwt; [constructor|].
    constructor; [exact Hu|constructor].
  - destruct s as [z|b|n|l| |q|sl un|l|kvs]; try discriminate Hwt; cbn [mp map]; [constructor|].
    apply Forall_forall. rewrite forallb_forall in Hu. intros x Hx. apply in_map_iff in Hx.
    destruct Hx as (kv & <- & Hkv). apply Hu. exact Hkv.
Qed.

Lemma uok_of_elems sch rec f s : wt_slot (wt_msg sch) f s = true ->
  (forall m, f_ty f = TMsg m -> Forall (fun x => uok_elem rec (TMsg m) x = true) (elems_of f s)) ->
  uok_slot rec f s = true.
Proof.
  intros Hwt H. unfold uok_slot. destruct (f_ty f) as [k|m] eqn:Ht.
  - destruct s; try reflexivity; apply forallb_forall; intros; reflexivity.
  - specialize (H m eq_refl). unfold wt_slot, elems_of in *. rewrite Ht in *.
    destruct (f_shape f) as [|p|oi|kk].
    + destruct s as [z|b|n|l| |q|sl un|l|kvs]; try discriminate Hwt; [reflexivity|].
      inversion H; assumption.
    + destruct s as [z|b|n|l| |q|sl un|l|kvs]; try discriminate Hwt; [reflexivity|].
      apply forallb_forall. rewrite Forall_forall in H. exact H.
    + destruct s as [z|b|n|l| |q|sl un|l|kvs]; try discriminate Hwt; [reflexivity|].
      inversion H; assumption.
    + destruct s as [z|b|n|l| |q|sl un|l|kvs]; try discriminate Hwt; [reflexivity|].
      apply forallb_forall. rewrite Forall_forall in H. intros kv Hkv. apply H. cbn [mp]. apply in_map. exact Hkv.
Qed.

(* elems_facts of RoundTrip.v without the stripped-value hypothesis *)
Lemma elems_facts' sch nm no f s m :
  field_wf nm no f = true -> f_ty f = TMsg m ->
  wt_slot (wt_msg sch) f s = true ->
  Forall (fun x => wt_elem (wt_msg sch) (TMsg m) x = true /\
                   (length (emit sch false m x) + 2 <= length (emit_field false (emit sch false) f s))%nat /\
                   (val_depth x <= val_depth s)%nat) (elems_of f s).
Proof.
  intros Hfw Ht Hwt. apply field_wf_shape in Hfw.
  unfold wt_slot, elems_of, emit_field in *. rewrite Ht in *.
  pose proof (key_bytes_len (f_num f) WT_BYTES) as Hk.
  destruct (f_shape f) as [|p|oi|kk] eqn:Hs.
  - destruct s as [z|b|n|l| |q|sl un|l|kvs]; try discriminate Hwt; [constructor|].
    constructor; [|constructor]. split; [exact Hwt|]. split; [|lia].
    rewrite app_length. pose proof (lenpfx_len (emit sch false m (VMsg sl un))). lia.
  - subst p.
    destruct s as [z|b|n|l| |q|sl un|l|kvs]; try discriminate Hwt; cbn [lst]; [constructor|].
    apply Forall_forall. intros x Hx. rewrite forallb_forall in Hwt.
    split; [apply Hwt; exact Hx|]. split.
    + destruct l as [|e l]; [contradiction|].
      pose proof (in_concat_le (fun x => key_bytes (f_num f) (ftype_wt (TMsg m)) ++ emit_elem (emit sch false) (TMsg m) x) (e :: l) x Hx) as H.
      cbv beta in H. rewrite app_length in H. cbn [emit_elem ftype_wt] in H.
      pose proof (lenpfx_len (emit sch false m x)). cbn [emit_elem ftype_wt]. lia.
    + cbn [val_depth]. apply (fold_max_ge val_depth). exact Hx.
  - destruct s as [z|b|n|l| |q|sl un|l|kvs]; try discriminate Hwt; [constructor|].
    constructor; [|constructor]. split; [exact Hwt|]. split; [|cbn [val_depth]; lia].
    rewrite app_length. cbn [emit_elem ftype_wt]. pose proof (lenpfx_len (emit sch false m q)). lia.
  - destruct s as [z|b|n|l| |q|sl un|l|kvs]; try discriminate Hwt; cbn [mp map]; [constructor|].
    apply andb_prop in Hwt. destruct Hwt as [Hwt _]. rewrite forallb_forall in Hwt.
    apply Forall_forall. intros x Hx. apply in_map_iff in Hx. destruct Hx as (kv & <- & Hkv).
    specialize (Hwt kv Hkv). apply andb_prop in Hwt. destruct Hwt as [_ Hwv].
    split; [exact Hwv|]. split.
    + rewrite map_map. cbn [snd].
      match goal with |- (_ <= length (concat (map ?g kvs)))%nat => pose proof (in_concat_le g kvs kv Hkv) as H end.
      cbv beta in H. unfold emit_entry at 1 in H. rewrite app_length in H. cbn [emit_elem] in H.
      pose proof (lenpfx_len (key_bytes 1 (kind_wt kk) ++ scalar_payload kk (fst kv) ++
                  key_bytes 2 (ftype_wt (TMsg m)) ++ emit_elem (emit sch false) (TMsg m) (snd kv))) as H2.
      rewrite !app_length in H2. cbn [emit_elem] in H2.
      pose proof (lenpfx_len (emit sch false m (snd kv))). lia.
    + cbn [val_depth]. apply (fold_max_ge (fun kv => val_depth (snd kv))). exact Hkv.
Qed.

(* ================================================================ the round trip with unknown fields *)
Lemma unmarshal_rt_unk sch : wf sch = true -> forall fuel v mid depth tgt,
  wt_msg sch mid v = true -> unknowns_okb sch mid v = true ->
  (length (emit sch false mid v) < fuel)%nat ->
  (Z.of_nat (val_depth v) < depth)%Z ->
  N.of_nat (length (emit sch false mid v)) < two63 ->
  tgt_ok sch mid tgt ->
  unmarshal_at sch false fuel depth mid tgt (emit sch false mid v) = Ok (norm sch mid v).
Proof.
  intro Hwf. induction fuel as [|fu IH]; intros v mid depth tgt Hwt Huk Hfuel Hdepth Hb Htgt; [lia|].
  destruct v as [z|b|n|l| |q|slots unk|l|kvs]; try discriminate Hwt.
  rewrite wt_msg_unfold in Hwt. rewrite unknowns_okb_unfold in Huk. rewrite emit_unfold in *. rewrite norm_unfold.
  destruct (get_msg sch mid) as [md|] eqn:Hg; [|discriminate Hwt].
  apply andb_prop in Hwt. destruct Hwt as [Hza Hone].
  apply andb_prop in Huk. destruct Huk as [Hunk Hzo].
  destruct (zipall_spec _ _ _ Hza) as [Hlen Hslot].
  pose proof (zipok_spec _ _ _ Hzo) as Huslot.
  pose proof (wf_get_msg sch mid md Hwf Hg) as Hmd.
  cbn [unmarshal_at]. cbn [val_depth] in Hdepth.
  destruct (Z.leb_spec depth 0); [lia|]. rewrite Hg.
  assert (Einit : match tgt with VMsg _ _ => tgt | _ => empty_msg md end = empty_msg md).
  { destruct Htgt as [->|(md' & Hg' & ->)]; [reflexivity|]. rewrite Hg in Hg'. injection Hg' as <-. reflexivity. }
  rewrite Einit.
  set (per := zipf (fun f s => (f, emit_field false (emit sch false) f s)) (m_fields md) slots) in *.
  rewrite app_length in Hfuel, Hb.
  assert (Hmem : forall p j, In p per -> f_shape (fst p) = Member j -> (j < m_oneofs md)%nat).
  { intros p j Hp Hj. unfold per in Hp. apply zipf_in in Hp.
    destruct Hp as (i & f & s & Hf & Hs & ->). cbn [fst] in Hj.
    destruct (msg_wf_field sch md i f Hmd Hf) as [Hfw _]. apply field_wf_shape in Hfw. rewrite Hj in Hfw. exact Hfw. }
  assert (Hst : steps_to sch false (unmarshal_at sch false fu (depth - 1)) md (empty_msg md) (assemble md per ++ unk)
                  (VMsg (zipf (norm_slot sch (norm sch)) (m_fields md) slots) []) unk).
  { apply msg_level_gen; try assumption.
    - intros i f s m Hf Hs Hm.
      destruct (msg_wf_field sch md i f Hmd Hf) as [Hfw _].
      pose proof (elems_facts' sch _ _ f s m Hfw Hm (Hslot i f s Hf Hs)) as Hfacts.
      pose proof (uok_elems sch _ f s m (Hslot i f s Hf Hs) Hm (Huslot i f s Hf Hs)) as Hu.
      assert (Hchunk : (length (emit_field false (emit sch false) f s) <= length (assemble md per))%nat).
      { apply (in_assemble_le md per (f, emit_field false (emit sch false) f s) Hmem).
        unfold per. apply nth_error_In with (n := i).
        apply (zipf_nth_error (fun f s => (f, emit_field false (emit sch false) f s))); assumption. }
      assert (Hds : (val_depth s <= fold_right (fun s acc => Nat.max (val_depth s) acc) 0%nat slots)%nat).
      { apply (fold_max_ge val_depth). eapply nth_error_In. exact Hs. }
      rewrite Forall_forall in *. intros x Hx tgt' Htgt'.
      destruct (Hfacts x Hx) as (Hx1 & Hx3 & Hx4). specialize (Hu x Hx).
      pose proof (field_wf_ty _ _ f m Hfw Hm) as Hmlt.
      destruct (nth_error sch m) as [md'|] eqn:Hg'; [|apply nth_error_None in Hg'; lia].
      destruct x as [z|b|n|l| |q|sl un|l|kvs]; try discriminate Hx1.
      + cbn [emit norm_elem]. unfold get_msg. rewrite Hg'.
        apply unmarshal_nil; [lia|lia|exact Hg'|exact Htgt'].
      + cbn [norm_elem]. apply IH; try assumption; try lia.
    - intros oi Hoi. rewrite forallb_forall in Hone. apply Nat.leb_le. apply Hone. apply in_seq. lia.
    - fold per. lia. }
  destruct (Hst (S (length (assemble md per ++ unk)))) as (fuel' & Hf' & E); [lia|].
  rewrite E.
  rewrite (unk_tail sch _ md (S (length unk)) unk Hunk); [reflexivity|lia|exact Hf'].
Qed.

Lemma roundtrip_nondet_unk sch : wf sch = true -> forall v mid, wt_msg sch mid v = true -> unknowns_okb sch mid v = true ->
  N.of_nat (val_depth v) < 9999 -> N.of_nat (length (emit sch false mid v)) < two63 ->
  pulsar_unmarshal sch false mid VNil (emit sch false mid v) = Ok (norm sch mid v).
Proof.
  intros Hwf v mid Hwt Hu Hd Hb. unfold pulsar_unmarshal, recursion_limit.
  apply unmarshal_rt_unk; try assumption; try lia. left. reflexivity.
Qed.

(* ================================================================ deterministic mode *)
Lemma uok_msg_elem sch m y : unknowns_okb sch m y = true -> uok_elem (unknowns_okb sch) (TMsg m) y = true.
Proof. intro H. destruct y; first [exact H | reflexivity]. Qed.

Lemma uok_elem_msg sch m x : is_nil x = false -> uok_elem (unknowns_okb sch) (TMsg m) x = unknowns_okb sch m x.
Proof. destruct x; reflexivity. Qed.

Lemma d3u_elem sch t x : uok_elem (unknowns_okb sch) t x = true ->
  (forall m, unknowns_okb sch m x = true -> unknowns_okb sch m (sortm sch m x) = true) ->
  uok_elem (unknowns_okb sch) t (sort_elem (sortm sch) t x) = true.
Proof.
  intros H IH. destruct t as [k|m]; cbn [sort_elem]; [reflexivity|].
  destruct (is_nil x) eqn:E.
  - destruct x; try discriminate E. reflexivity.
  - apply uok_msg_elem. apply IH. rewrite <- (uok_elem_msg sch m x E). exact H.
Qed.

Lemma zipok_zipf (g : field -> val -> bool) (h : field -> val -> val) fs : forall ss,
  zipok g fs ss = true ->
  (forall i f s, nth_error fs i = Some f -> nth_error ss i = Some s -> g f s = true -> g f (h f s) = true) ->
  zipok g fs (zipf h fs ss) = true.
Proof.
  induction fs as [|f fs IH]; intros [|s ss] Hz H; cbn [zipok zipf] in *; try reflexivity.
  apply andb_prop in Hz. destruct Hz as [H1 H2]. apply andb_true_intro. split.
  - apply (H 0%nat f s eq_refl eq_refl H1).
  - apply IH; [exact H2|]. intros i f' s' Hf Hs. apply (H (S i)); assumption.
Qed.

Lemma d3u_slot sch f s : uok_slot (unknowns_okb sch) f s = true ->
  (forall m x, (val_depth x <= val_depth s)%nat -> unknowns_okb sch m x = true -> unknowns_okb sch m (sortm sch m x) = true) ->
  uok_slot (unknowns_okb sch) f (sort_slot (sortm sch) f s) = true.
Proof.
  intros H IH. unfold sort_slot. destruct (f_shape f) as [|p|oi|kk].
  - destruct (f_ty f) as [k|m] eqn:Ht; cbn [sort_elem]; [exact H|].
    destruct s as [z|b|n|l| |q|sl un|l|kvs]; try exact H.
    assert (G : unknowns_okb sch m (sortm sch m (VMsg sl un)) = true).
    { apply IH; [lia|]. unfold uok_slot in H. rewrite Ht in H. exact H. }
    rewrite sortm_unfold in *. destruct (get_msg sch m) as [md|]; unfold uok_slot; rewrite Ht; exact G.
  - destruct s as [z|b|n|l| |q|sl un|l|kvs]; try exact H.
    unfold uok_slot in *. rewrite forallb_forall in *. intros y Hy. apply in_map_iff in Hy.
    destruct Hy as (x & <- & Hx). apply d3u_elem; [apply H; exact Hx|].
    intros m. apply IH. cbn [val_depth]. apply (fold_max_ge val_depth). exact Hx.
  - destruct s as [z|b|n|l| |q|sl un|l|kvs]; try exact H.
    unfold uok_slot in *. apply d3u_elem; [exact H|]. intros m. apply IH. cbn [val_depth]. lia.
  - destruct s as [z|b|n|l| |q|sl un|l|kvs]; try exact H.
    unfold uok_slot in *.
    rewrite (forallb_perm _ _ _ (isort_perm _ _)). rewrite forallb_forall in *. intros y Hy.
    apply in_map_iff in Hy. destruct Hy as (kv & <- & Hkv). cbn [snd].
    apply d3u_elem; [apply H; exact Hkv|]. intros m. apply IH. cbn [val_depth].
    apply (fold_max_ge (fun kv => val_depth (snd kv))). exact Hkv.
Qed.

Lemma d3u sch : forall mid v, unknowns_okb sch mid v = true -> unknowns_okb sch mid (sortm sch mid v) = true.
Proof.
  apply (depth_ind (fun mid v => unknowns_okb sch mid v = true -> unknowns_okb sch mid (sortm sch mid v) = true)).
  intros mid v IH H. destruct v as [z|b|n|l| |q|slots unk|l|kvs]; try exact H.
  rewrite sortm_unfold. rewrite unknowns_okb_unfold in H. destruct (get_msg sch mid) as [md|] eqn:Hg; [|discriminate H].
  rewrite unknowns_okb_unfold, Hg. apply andb_prop in H. destruct H as [H1 H2].
  apply andb_true_intro. split; [exact H1|].
  apply zipok_zipf; [exact H2|]. intros i f s Hf Hs Hu. apply d3u_slot; [exact Hu|].
  intros m x Hx. apply IH. pose proof (slot_depth_lt slots unk s (nth_error_In _ _ Hs)). lia.
Qed.

Lemma roundtrip_det_unk sch : wf sch = true -> forall v mid, wt_msg sch mid v = true -> unknowns_okb sch mid v = true ->
  N.of_nat (val_depth v) < 9999 -> N.of_nat (length (emit sch true mid v)) < two63 ->
  exists r, pulsar_unmarshal sch false mid VNil (emit sch true mid v) = Ok r /\ canon r = canon (norm sch mid v).
Proof.
  intros Hwf v mid Hwt Hu Hd Hb. exists (norm sch mid (sortm sch mid v)). split.
  - rewrite d1 in *. apply roundtrip_nondet_unk.
    + exact Hwf.
    + apply d2. exact Hwt.
    + apply d3u. exact Hu.
    + pose proof (d4 sch mid v). lia.
    + exact Hb.
  - apply d5; assumption.
Qed.

(* ================================================================ stripped values have (trivially) good unknowns *)
Lemma elems_facts_s sch f s m :
  f_ty f = TMsg m -> wt_slot (wt_msg sch) f s = true -> strip_unknown s = s ->
  Forall (fun x => wt_elem (wt_msg sch) (TMsg m) x = true /\ strip_unknown x = x /\
                   (val_depth x <= val_depth s)%nat) (elems_of f s).
Proof.
  intros Ht Hwt Hst. unfold wt_slot, elems_of in *. rewrite Ht in *.
  destruct (f_shape f) as [|p|oi|kk].
  - destruct s as [z|b|n|l| |q|sl un|l|kvs]; try discriminate Hwt; [constructor|].
    constructor; [|constructor]. split; [exact Hwt|]. split; [exact Hst|lia].
  - destruct s as [z|b|n|l| |q|sl un|l|kvs]; try discriminate Hwt; cbn [lst]; [constructor|].
    apply Forall_forall. intros x Hx. rewrite forallb_forall in Hwt.
    cbn [strip_unknown] in Hst. injection Hst as Hst.
    split; [apply Hwt; exact Hx|]. split; [apply (map_id_in _ _ _ Hst Hx)|].
    cbn [val_depth]. apply (fold_max_ge val_depth). exact Hx.
  - destruct s as [z|b|n|l| |q|sl un|l|kvs]; try discriminate Hwt; [constructor|].
    constructor; [|constructor]. split; [exact Hwt|]. cbn [strip_unknown] in Hst. injection Hst as Hst.
    split; [exact Hst|cbn [val_depth]; lia].
  - destruct s as [z|b|n|l| |q|sl un|l|kvs]; try discriminate Hwt; cbn [mp map]; [constructor|].
    apply andb_prop in Hwt. destruct Hwt as [Hwt _]. rewrite forallb_forall in Hwt.
    cbn [strip_unknown] in Hst. injection Hst as Hst.
    apply Forall_forall. intros x Hx. apply in_map_iff in Hx. destruct Hx as (kv & <- & Hkv).
    specialize (Hwt kv Hkv). apply andb_prop in Hwt. destruct Hwt as [_ Hwv].
    split; [exact Hwv|]. split.
    + pose proof (map_id_in _ _ _ Hst Hkv) as E. destruct kv as [a b]. cbn [fst snd] in *. congruence.
    + cbn [val_depth]. apply (fold_max_ge (fun kv => val_depth (snd kv))). exact Hkv.
Qed.

Lemma unknowns_okb_of_stripped_aux sch : forall mid v,
  wt_msg sch mid v = true -> strip_unknown v = v -> unknowns_okb sch mid v = true.
Proof.
  apply (depth_ind (fun mid v => wt_msg sch mid v = true -> strip_unknown v = v -> unknowns_okb sch mid v = true)).
  intros mid v IH Hwt Hst. destruct v as [z|b|n|l| |q|slots unk|l|kvs]; try discriminate Hwt.
  cbn [strip_unknown] in Hst. injection Hst as Hst Hunk. subst unk.
  rewrite wt_msg_unfold in Hwt. rewrite unknowns_okb_unfold.
  destruct (get_msg sch mid) as [md|] eqn:Hg; [|discriminate Hwt].
  apply andb_prop in Hwt. destruct Hwt as [Hza _]. destruct (zipall_spec _ _ _ Hza) as [_ Hslot].
  apply andb_true_intro. split; [reflexivity|].
  apply zipok_intro. intros i f s Hf Hs.
  apply (uok_of_elems sch _ f s (Hslot i f s Hf Hs)). intros m Hm.
  assert (Hss : strip_unknown s = s) by (apply (map_id_in _ _ _ Hst); eapply nth_error_In; exact Hs).
  pose proof (elems_facts_s sch f s m Hm (Hslot i f s Hf Hs) Hss) as Hfacts.
  eapply Forall_impl; [|exact Hfacts]. cbv beta. intros x (Hx1 & Hx2 & Hx3).
  destruct (is_nil x) eqn:En.
  - destruct x; try discriminate En. reflexivity.
  - rewrite (uok_elem_msg sch m x En). apply IH; [|rewrite <- (wt_elem_msg sch m x En); exact Hx1|exact Hx2].
    pose proof (slot_depth_lt slots [] s (nth_error_In _ _ Hs)). lia.
Qed.

Lemma unknowns_okb_of_stripped sch v mid : wt_msg sch mid v = true -> strip_unknown v = v -> unknowns_okb sch mid v = true.
Proof. apply unknowns_okb_of_stripped_aux. Qed.
