(* S-expressions of the case files: schemas and message values. *)
open Model
open Util

type sx = A of string | L of sx list

let parse (s : string) : sx list =
  let n = String.length s in
  let pos = ref 0 in
  let rec skip () = if !pos < n && (s.[!pos] = ' ' || s.[!pos] = '\t') then (incr pos; skip ()) in
  let rec items () =
    skip ();
    if !pos >= n || s.[!pos] = ')' then []
    else begin
      let x = item () in
      x :: items ()
    end
  and item () =
    if s.[!pos] = '(' then begin
      incr pos;
      let l = items () in
      if !pos < n && s.[!pos] = ')' then incr pos else failwith "sexp: missing )";
      L l
    end else begin
      let st = !pos in
      while !pos < n && s.[!pos] <> ' ' && s.[!pos] <> ')' && s.[!pos] <> '(' do incr pos done;
      A (String.sub s st (!pos - st))
    end
  in
  items ()

let kind_of_string = function
  | "double" -> KDouble | "float" -> KFloat | "int32" -> KInt32 | "int64" -> KInt64
  | "uint32" -> KUint32 | "uint64" -> KUint64 | "sint32" -> KSint32 | "sint64" -> KSint64
  | "fixed32" -> KFixed32 | "fixed64" -> KFixed64 | "sfixed32" -> KSfixed32 | "sfixed64" -> KSfixed64
  | "bool" -> KBool | "string" -> KString | "bytes" -> KBytes | "enum" -> KEnum
  | s -> failwith ("kind " ^ s)

let schema_of_sexp (s : string) : schema =
  let msg = function
    | L (A "M" :: A impl :: A nones :: fields) ->
      let field = function
        | L [ A "F"; A num; A ty; A shape ] ->
          let ft = if ty.[0] = '@' then TMsg (nat_of_int (int_of_string (String.sub ty 1 (String.length ty - 1)))) else TScalar (kind_of_string ty) in
          let sh =
            match shape with
            | "s" -> Singular
            | "rp" -> Rep true
            | "ru" -> Rep false
            | _ when shape.[0] = 'o' -> Member (nat_of_int (int_of_string (String.sub shape 1 (String.length shape - 1))))
            | _ when shape.[0] = 'm' -> MapOf (kind_of_string (String.sub shape 1 (String.length shape - 1)))
            | _ -> failwith ("shape " ^ shape)
          in
          { f_num = n_of_int (int_of_string num); f_ty = ft; f_shape = sh }
        | _ -> failwith "field"
      in
      { m_fields = List.map field fields; m_oneofs = nat_of_int (int_of_string nones); m_impl = (if impl = "p" then Pulsar else ProtobufGo) }
    | _ -> failwith "msg"
  in
  List.map msg (parse s)

let rec val_of_sx (x : sx) : val0 =
  match x with
  | A "n" -> VNil
  | A "t" -> VBool true
  | A "f" -> VBool false
  | A s when s.[0] = 'i' -> VInt (z_of_hex (String.sub s 1 (String.length s - 1)))
  | A s when s.[0] = 'x' -> VBits (n_of_hex (String.sub s 1 (String.length s - 1)))
  | A s when s.[0] = 'b' -> VBytes (bytes_of_hex (String.sub s 1 (String.length s - 1)))
  | L [ A "s"; p ] -> VSome (val_of_sx p)
  | L (A "m" :: A unk :: slots) -> VMsg (List.map val_of_sx slots, bytes_of_hex unk)
  | L (A "l" :: es) -> VList (List.map val_of_sx es)
  | L (A "p" :: es) ->
    let rec pairs = function k :: v :: t -> (val_of_sx k, val_of_sx v) :: pairs t | [] -> [] | _ -> failwith "odd map" in
    VMap (pairs es)
  | _ -> failwith "val"

let val_of_string (s : string) : val0 = match parse s with [ x ] -> val_of_sx x | _ -> failwith "val: one expression expected"

(* canonical map order for rendering: same as the Go side (ints numerically, false<true, bytes) *)
let key_lt (a : val0) (b : val0) : bool =
  match a, b with
  | VInt x, VInt y -> Z.ltb x y
  | VBool x, VBool y -> (not x) && y
  | VBytes x, VBytes y -> key_ltb KString a b
  | _ -> false

let rec write (b : Buffer.t) (v : val0) : unit =
  match v with
  | VNil -> Buffer.add_char b 'n'
  | VBool true -> Buffer.add_char b 't'
  | VBool false -> Buffer.add_char b 'f'
  | VInt z -> Buffer.add_char b 'i'; Buffer.add_string b (hex_of_z z)
  | VBits n -> Buffer.add_char b 'x'; Buffer.add_string b (hex_of_n n)
  | VBytes l -> Buffer.add_char b 'b'; Buffer.add_string b (hex_of_bytes l)
  | VSome p -> Buffer.add_string b "(s "; write b p; Buffer.add_char b ')'
  | VMsg (slots, unk) ->
    Buffer.add_string b "(m "; Buffer.add_string b (hex_of_bytes unk);
    List.iter (fun s -> Buffer.add_char b ' '; write b s) slots;
    Buffer.add_char b ')'
  | VList es -> Buffer.add_string b "(l"; List.iter (fun s -> Buffer.add_char b ' '; write b s) es; Buffer.add_char b ')'
  | VMap kvs ->
    let sorted = List.stable_sort (fun (k1, _) (k2, _) -> if key_lt k1 k2 then -1 else if key_lt k2 k1 then 1 else 0) kvs in
    Buffer.add_string b "(p";
    List.iter (fun (k, v) -> Buffer.add_char b ' '; write b k; Buffer.add_char b ' '; write b v) sorted;
    Buffer.add_char b ')'

let string_of_val (v : val0) : string = let b = Buffer.create 256 in write b v; Buffer.contents b
