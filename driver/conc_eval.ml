(* Evaluator for the "conc" engine (C11): CONCHAS sid mid VAL = one t or f per declared field,
   then for every oneof a bar and the number of the member that is set (or a dash) — what Has / WhichOneof answer to the sequential reader (every
   concurrent reader's answers are compared with the sequential reader's by the runner itself).
   Predicted from the value by Model/LibSpec.v [has_vector]. *)
open Model
open Util

let conc_eval (fn : string) (args : string list) : string =
  match fn, args with
  | "CONCHAS", [ sid; mid; v ] ->
    let sch = Ctx.schema sid and m = nat_of_int (int_of_string mid) in
    let v = Sexp.val_of_string v in
    let hs = has_vector sch m v in
    let md = match get_msg sch m with Some md -> md | None -> failwith "CONCHAS: no such message" in
    let b = Buffer.create 64 in
    List.iter (fun h -> Buffer.add_char b (if h then 't' else 'f')) hs;
    for j = 0 to int_of_nat md.m_oneofs - 1 do
      Buffer.add_char b '|';
      let rec find fs hs =
        match fs, hs with
        | f :: fs', h :: hs' ->
          (match f.f_shape with
           | Member j' when int_of_nat j' = j && h -> Some f.f_num
           | _ -> find fs' hs')
        | _, _ -> None
      in
      (match find md.m_fields hs with
       | Some n -> Buffer.add_string b (dec_of_n n)
       | None -> Buffer.add_char b '-')
    done;
    Buffer.contents b
  | _ -> raise Not_found

let () = Driver.register conc_eval
