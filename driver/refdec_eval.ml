(* REFDEC lines: what google.golang.org/protobuf (dynamicpb) decoded, rendered through the runner's
   normV; predicted by Model/RefDecode.v ref_unmarshal in lax mode (= protobuf-go) and normalised the
   same way. Also tests the statement of Properties/C03: strict-mode acceptance implies that the
   faithful decoder model returns the same value. *)
open Model
open Util

let nth_opt l i = try Some (List.nth l i) with _ -> None
let int_of_nat n = let rec go n acc = match n with O -> acc | S m -> go m (acc + 1) in go n 0

let quiet_f32 (k : kind) (v : val0) : val0 =
  match k, v with
  | KFloat, VBits n ->
    let x = int_of_string ("0x" ^ hex_of_n n) in
    if x land 0x7f800000 = 0x7f800000 && x land 0x007fffff <> 0 then VBits (n_of_int (x lor 0x00400000)) else v
  | _ -> v

(* the runner's normV: nil and empty containers, nil and empty bytes, nil payloads and empty messages identified *)
let rec normv (sch : schema) (mid : int) (v : val0) : val0 =
  match nth_opt sch mid, v with
  | Some md, VMsg (slots, unk) ->
    let elem (t : ftype) (e : val0) : val0 =
      match t with
      | TMsg m ->
        let mi = int_of_nat m in
        (match e with
         | VNil -> (match nth_opt sch mi with Some cmd -> normv sch mi (empty_msg cmd) | None -> e)
         | _ -> normv sch mi e)
      | TScalar k -> (match e with VNil -> VBytes [] | _ -> quiet_f32 k e)
    in
    let slot (f : field) (s : val0) : val0 =
      match f.f_shape with
      | MapOf _ -> (match s with VMap kvs -> VMap (List.map (fun (k, x) -> (k, elem f.f_ty x)) kvs) | _ -> VMap [])
      | Rep _ -> (match s with VList es -> VList (List.map (elem f.f_ty) es) | _ -> VList [])
      | Member _ -> (match s with VSome p -> VSome (elem f.f_ty p) | _ -> VNil)
      | Singular -> (match f.f_ty, s with TMsg _, VNil -> VNil | _ -> elem f.f_ty s)
    in
    let rec zip fs ss = match fs, ss with f :: ft, s :: st -> slot f s :: zip ft st | _ -> [] in
    VMsg (zip md.m_fields slots, unk)
  | _ -> v

let refdec_eval (fn : string) (args : string list) : string =
  match fn, args with
  | "REFDEC", [ sid; mid; flags; b; init ] ->
    let sch = Ctx.schema sid and mi = int_of_string mid in
    let m = nat_of_int mi in
    let discard = String.contains flags 'd' in
    let init = if init = "-" then VNil else Sexp.val_of_string init in
    let bs = bytes_of_hex b in
    (match ref_unmarshal sch discard true m init bs with
     | Ok r -> Driver.law "C03.decode_eq_ref" (pulsar_unmarshal sch discard m init bs = Ok r);
               Driver.law "C03.strict_implies_lax" (ref_unmarshal sch discard false m init bs = Ok r)
     | _ -> ());
    (match ref_unmarshal sch discard false m init bs with
     | Ok v -> "ok " ^ Sexp.string_of_val (normv sch mi v)
     | Err -> "err" | Panic -> "panic" | OutOfFuel -> "outoffuel")
  | _ -> raise Not_found

let () = Driver.register refdec_eval
