(* Evaluator of the "reflectprog" engine (translator tie for the generated fast-reflection methods, Model/ReflectProg.v).
     REFLECTPROG sid idx meth k       = printed case / statement    model: print (k-th case of the canonical method; Range: k-th statement), "-" if none
     REFLECTPROG sid idx meth len     = number of them             model: their number in the canonical method
     REFLECTPROG sid idx meth frame   = (frame guard [tail])       model: the canonical method's
     @REFLECTDEF sid idx meth text    = ok                         context line: parse and remember the TRANSLATED method; ok iff printing it gives the text back
     REFLECTPROG sid idx meth eqb     = same                       model: the remembered method prints as the canonical one
     REFLECTPROG sid idx all eqb      = same                       model: rprogs_eqb <the eight remembered> (canon_progs sch idx)
     REFLECTRUN  sid idx VAL ops      = out|root;…                 model: the history (grammar and rendering of HISTV lines, driver/reflect_eval.ml) with
                                                                    Has/Clear/Get/Set/Mutable/NewField/WhichOneof/Range INTERPRETED from the remembered
                                                                    (translated) methods of the receiver's type (rp_step); `rstop r k` runs the translated
                                                                    Range with a callback that answers false at its k-th call
   Text form (the Go printer in harness/cmd/runner/reflectprog.go writes the same); i, j, o, m, n are decimal indexes:
     method  (meth guard tail (case n body)...)        Range: (range guard stmt...)         guard none|alloc|return   tail field|oneof
     zero z  num false i32 u32 i64 u64 f32 f64 str nil       ctor C  Bool Enum Int32 Uint32 Int64 Uint64 Float32 Float64 String Bytes Message
     conv    bool enum int32 uint32 int64 uint64 float32 float64 string bytes (msg m)
     bexpr   (ne i z) (nesign32 i z) (nesign64 i z) (len i)
     Has     (ret bexpr) (oneof o j)                   Clear  (assign i z) (oneof o j)
     Get     (scalar i C) (enum i) (msg i) (list i) (map i) (oneof o j ov ov ov)     ov  (zero C z) (nilmsg m) (pay C) payenum paymsg
     Set     (assign i conv) (msg i m) (list i) (map i) (oneof o j conv)
     Mutable (msg i m) (map i) (list i) (oneof o j m) panic
     NewField (scalar C z) (msg m) (map i) (list i) (oneofmsg m)
     WhichOneof (oneof o (j r)...)
     Range   (field bexpr rv fd) with rv (of C i) (enum i) (msg i) (list i) (map i);  (oneof o (case j form fd)...) with form (of C) enum msg *)
open Model
open Util
open Sexp

type meth =
  | MHas of rhas rmeth | MClear of rclear rmeth | MGet of rget rmeth | MSet of rset rmeth
  | MMut of rmut rmeth | MNewf of rnewf rmeth | MWhich of rwhich rmeth | MRange of rrangem

let table : (string * string * string, meth) Hashtbl.t = Hashtbl.create 512

(* ---- printer ---- *)
let ns n = string_of_int (int_of_nat n)
let zero_s = function
  | ZLNum -> "num" | ZLFalse -> "false" | ZLI32 -> "i32" | ZLU32 -> "u32" | ZLI64 -> "i64" | ZLU64 -> "u64"
  | ZLF32 -> "f32" | ZLF64 -> "f64" | ZLStr -> "str" | ZLNil -> "nil"
let ctor_s = function
  | VCBool -> "Bool" | VCEnum -> "Enum" | VCInt32 -> "Int32" | VCUint32 -> "Uint32" | VCInt64 -> "Int64" | VCUint64 -> "Uint64"
  | VCFloat32 -> "Float32" | VCFloat64 -> "Float64" | VCString -> "String" | VCBytes -> "Bytes" | VCMessage -> "Message"
let conv_s = function
  | CVBool -> "bool" | CVEnum -> "enum" | CVInt32 -> "int32" | CVUint32 -> "uint32" | CVInt64 -> "int64" | CVUint64 -> "uint64"
  | CVFloat32 -> "float32" | CVFloat64 -> "float64" | CVString -> "string" | CVBytes -> "bytes" | CVMsg m -> "(msg " ^ ns m ^ ")"
let bexpr_s = function
  | BXNe (i, z) -> "(ne " ^ ns i ^ " " ^ zero_s z ^ ")"
  | BXNeSign32 (i, z) -> "(nesign32 " ^ ns i ^ " " ^ zero_s z ^ ")"
  | BXNeSign64 (i, z) -> "(nesign64 " ^ ns i ^ " " ^ zero_s z ^ ")"
  | BXLenNe0 i -> "(len " ^ ns i ^ ")"
let has_s = function HBRet b -> "(ret " ^ bexpr_s b ^ ")" | HBOneof (o, j) -> "(oneof " ^ ns o ^ " " ^ ns j ^ ")"
let clear_s = function CBAssign (i, z) -> "(assign " ^ ns i ^ " " ^ zero_s z ^ ")" | CBOneof (o, j) -> "(oneof " ^ ns o ^ " " ^ ns j ^ ")"
let oneval_s = function
  | OVZero (c, z) -> "(zero " ^ ctor_s c ^ " " ^ zero_s z ^ ")"
  | OVNilMsg m -> "(nilmsg " ^ ns m ^ ")"
  | OVPay c -> "(pay " ^ ctor_s c ^ ")"
  | OVPayEnum -> "payenum"
  | OVPayMsg -> "paymsg"
let get_s = function
  | GBScalar (i, c) -> "(scalar " ^ ns i ^ " " ^ ctor_s c ^ ")"
  | GBEnum i -> "(enum " ^ ns i ^ ")"
  | GBMsg i -> "(msg " ^ ns i ^ ")"
  | GBList i -> "(list " ^ ns i ^ ")"
  | GBMap i -> "(map " ^ ns i ^ ")"
  | GBOneof (o, j, a, b, c) -> "(oneof " ^ ns o ^ " " ^ ns j ^ " " ^ oneval_s a ^ " " ^ oneval_s b ^ " " ^ oneval_s c ^ ")"
let set_s = function
  | SBAssign (i, c) -> "(assign " ^ ns i ^ " " ^ conv_s c ^ ")"
  | SBMsg (i, m) -> "(msg " ^ ns i ^ " " ^ ns m ^ ")"
  | SBList i -> "(list " ^ ns i ^ ")"
  | SBMap i -> "(map " ^ ns i ^ ")"
  | SBOneof (o, j, c) -> "(oneof " ^ ns o ^ " " ^ ns j ^ " " ^ conv_s c ^ ")"
let mut_s = function
  | MBMsg (i, m) -> "(msg " ^ ns i ^ " " ^ ns m ^ ")"
  | MBMap i -> "(map " ^ ns i ^ ")"
  | MBList i -> "(list " ^ ns i ^ ")"
  | MBOneof (o, j, m) -> "(oneof " ^ ns o ^ " " ^ ns j ^ " " ^ ns m ^ ")"
  | MBPanic -> "panic"
let newf_s = function
  | NBScalar (c, z) -> "(scalar " ^ ctor_s c ^ " " ^ zero_s z ^ ")"
  | NBMsg m -> "(msg " ^ ns m ^ ")"
  | NBMap i -> "(map " ^ ns i ^ ")"
  | NBList i -> "(list " ^ ns i ^ ")"
  | NBOneofMsg m -> "(oneofmsg " ^ ns m ^ ")"
let which_s = function
  | WBOneof (o, cs) -> "(oneof " ^ ns o ^ String.concat "" (List.map (fun (j, r) -> " (" ^ ns j ^ " " ^ ns r ^ ")") cs) ^ ")"
let rrval_s = function
  | RGVOf (c, i) -> "(of " ^ ctor_s c ^ " " ^ ns i ^ ")"
  | RGVEnum i -> "(enum " ^ ns i ^ ")"
  | RGVMsg i -> "(msg " ^ ns i ^ ")"
  | RGVList i -> "(list " ^ ns i ^ ")"
  | RGVMap i -> "(map " ^ ns i ^ ")"
let rrcase_s = function RGCOf c -> "(of " ^ ctor_s c ^ ")" | RGCEnum -> "enum" | RGCMsg -> "msg"
let range_s = function
  | RGField (g, v, fd) -> "(field " ^ bexpr_s g ^ " " ^ rrval_s v ^ " " ^ ns fd ^ ")"
  | RGOneof (o, cs) ->
    "(oneof " ^ ns o ^ String.concat "" (List.map (fun (j, (form, fd)) -> " (case " ^ ns j ^ " " ^ rrcase_s form ^ " " ^ ns fd ^ ")") cs) ^ ")"
let guard_s = function NGNone -> "none" | NGAlloc -> "alloc" | NGReturn -> "return"
let tail_s = function TLField -> "field" | TLOneof -> "oneof"

(* the printed items (cases / statements) and frame of a method *)
let items_of (m : meth) : string list =
  let cases body cs = List.map (fun (n, b) -> "(case " ^ ns n ^ " " ^ body b ^ ")") cs in
  match m with
  | MHas x -> cases has_s x.rm_cases | MClear x -> cases clear_s x.rm_cases | MGet x -> cases get_s x.rm_cases
  | MSet x -> cases set_s x.rm_cases | MMut x -> cases mut_s x.rm_cases | MNewf x -> cases newf_s x.rm_cases
  | MWhich x -> cases which_s x.rm_cases | MRange x -> List.map range_s x.rr_body
let frame_of (m : meth) : string =
  let f g t = "(frame " ^ guard_s g ^ " " ^ tail_s t ^ ")" in
  match m with
  | MHas x -> f x.rm_guard x.rm_tail | MClear x -> f x.rm_guard x.rm_tail | MGet x -> f x.rm_guard x.rm_tail
  | MSet x -> f x.rm_guard x.rm_tail | MMut x -> f x.rm_guard x.rm_tail | MNewf x -> f x.rm_guard x.rm_tail
  | MWhich x -> f x.rm_guard x.rm_tail | MRange x -> "(frame " ^ guard_s x.rr_guard ^ ")"
let text_of (m : meth) : string =
  let fr = frame_of m in
  let inner = String.sub fr 7 (String.length fr - 8) in
  (match m with MRange _ -> "(range " | _ -> "(meth ") ^ inner ^ String.concat "" (List.map (fun s -> " " ^ s) (items_of m)) ^ ")"

(* ---- parser ---- *)
let bad what = failwith ("reflectprog: cannot parse " ^ what)
let is_num s = s <> "" && String.for_all (fun c -> c >= '0' && c <= '9') s
let nat_p = function A s when is_num s -> nat_of_int (int_of_string s) | _ -> bad "index"
let zero_p = function
  | A "num" -> ZLNum | A "false" -> ZLFalse | A "i32" -> ZLI32 | A "u32" -> ZLU32 | A "i64" -> ZLI64 | A "u64" -> ZLU64
  | A "f32" -> ZLF32 | A "f64" -> ZLF64 | A "str" -> ZLStr | A "nil" -> ZLNil | _ -> bad "zero literal"
let ctor_p = function
  | A "Bool" -> VCBool | A "Enum" -> VCEnum | A "Int32" -> VCInt32 | A "Uint32" -> VCUint32 | A "Int64" -> VCInt64 | A "Uint64" -> VCUint64
  | A "Float32" -> VCFloat32 | A "Float64" -> VCFloat64 | A "String" -> VCString | A "Bytes" -> VCBytes | A "Message" -> VCMessage
  | _ -> bad "constructor"
let conv_p = function
  | A "bool" -> CVBool | A "enum" -> CVEnum | A "int32" -> CVInt32 | A "uint32" -> CVUint32 | A "int64" -> CVInt64 | A "uint64" -> CVUint64
  | A "float32" -> CVFloat32 | A "float64" -> CVFloat64 | A "string" -> CVString | A "bytes" -> CVBytes
  | L [ A "msg"; m ] -> CVMsg (nat_p m) | _ -> bad "conversion"
let bexpr_p = function
  | L [ A "ne"; i; z ] -> BXNe (nat_p i, zero_p z)
  | L [ A "nesign32"; i; z ] -> BXNeSign32 (nat_p i, zero_p z)
  | L [ A "nesign64"; i; z ] -> BXNeSign64 (nat_p i, zero_p z)
  | L [ A "len"; i ] -> BXLenNe0 (nat_p i)
  | _ -> bad "boolean expression"
let has_p = function
  | L [ A "ret"; b ] -> HBRet (bexpr_p b) | L [ A "oneof"; o; j ] -> HBOneof (nat_p o, nat_p j) | _ -> bad "Has body"
let clear_p = function
  | L [ A "assign"; i; z ] -> CBAssign (nat_p i, zero_p z) | L [ A "oneof"; o; j ] -> CBOneof (nat_p o, nat_p j) | _ -> bad "Clear body"
let oneval_p = function
  | L [ A "zero"; c; z ] -> OVZero (ctor_p c, zero_p z)
  | L [ A "nilmsg"; m ] -> OVNilMsg (nat_p m)
  | L [ A "pay"; c ] -> OVPay (ctor_p c)
  | A "payenum" -> OVPayEnum
  | A "paymsg" -> OVPayMsg
  | _ -> bad "oneof getter value"
let get_p = function
  | L [ A "scalar"; i; c ] -> GBScalar (nat_p i, ctor_p c)
  | L [ A "enum"; i ] -> GBEnum (nat_p i)
  | L [ A "msg"; i ] -> GBMsg (nat_p i)
  | L [ A "list"; i ] -> GBList (nat_p i)
  | L [ A "map"; i ] -> GBMap (nat_p i)
  | L [ A "oneof"; o; j; a; b; c ] -> GBOneof (nat_p o, nat_p j, oneval_p a, oneval_p b, oneval_p c)
  | _ -> bad "Get body"
let set_p = function
  | L [ A "assign"; i; c ] -> SBAssign (nat_p i, conv_p c)
  | L [ A "msg"; i; m ] -> SBMsg (nat_p i, nat_p m)
  | L [ A "list"; i ] -> SBList (nat_p i)
  | L [ A "map"; i ] -> SBMap (nat_p i)
  | L [ A "oneof"; o; j; c ] -> SBOneof (nat_p o, nat_p j, conv_p c)
  | _ -> bad "Set body"
let mut_p = function
  | L [ A "msg"; i; m ] -> MBMsg (nat_p i, nat_p m)
  | L [ A "map"; i ] -> MBMap (nat_p i)
  | L [ A "list"; i ] -> MBList (nat_p i)
  | L [ A "oneof"; o; j; m ] -> MBOneof (nat_p o, nat_p j, nat_p m)
  | A "panic" -> MBPanic
  | _ -> bad "Mutable body"
let newf_p = function
  | L [ A "scalar"; c; z ] -> NBScalar (ctor_p c, zero_p z)
  | L [ A "msg"; m ] -> NBMsg (nat_p m)
  | L [ A "map"; i ] -> NBMap (nat_p i)
  | L [ A "list"; i ] -> NBList (nat_p i)
  | L [ A "oneofmsg"; m ] -> NBOneofMsg (nat_p m)
  | _ -> bad "NewField body"
let which_p = function
  | L (A "oneof" :: o :: cs) -> WBOneof (nat_p o, List.map (function L [ j; r ] -> (nat_p j, nat_p r) | _ -> bad "WhichOneof clause") cs)
  | _ -> bad "WhichOneof body"
let rrval_p = function
  | L [ A "of"; c; i ] -> RGVOf (ctor_p c, nat_p i)
  | L [ A "enum"; i ] -> RGVEnum (nat_p i)
  | L [ A "msg"; i ] -> RGVMsg (nat_p i)
  | L [ A "list"; i ] -> RGVList (nat_p i)
  | L [ A "map"; i ] -> RGVMap (nat_p i)
  | _ -> bad "Range value"
let rrcase_p = function L [ A "of"; c ] -> RGCOf (ctor_p c) | A "enum" -> RGCEnum | A "msg" -> RGCMsg | _ -> bad "Range clause value"
let range_p = function
  | L [ A "field"; g; v; fd ] -> RGField (bexpr_p g, rrval_p v, nat_p fd)
  | L (A "oneof" :: o :: cs) ->
    RGOneof (nat_p o, List.map (function L [ A "case"; j; form; fd ] -> (nat_p j, (rrcase_p form, nat_p fd)) | _ -> bad "Range clause") cs)
  | _ -> bad "Range statement"
let guard_p = function A "none" -> NGNone | A "alloc" -> NGAlloc | A "return" -> NGReturn | _ -> bad "guard"
let tail_p = function A "field" -> TLField | A "oneof" -> TLOneof | _ -> bad "tail"

let meth_p (name : string) (text : string) : meth =
  let cases body cs = List.map (function L [ A "case"; n; b ] -> (nat_p n, body b) | _ -> bad "case") cs in
  match name, parse text with
  | "Range", [ L (A "range" :: g :: stmts) ] -> MRange { rr_guard = guard_p g; rr_body = List.map range_p stmts }
  | _, [ L (A "meth" :: g :: t :: cs) ] ->
    let mk body = { rm_guard = guard_p g; rm_cases = cases body cs; rm_tail = tail_p t } in
    (match name with
     | "Has" -> MHas (mk has_p) | "Clear" -> MClear (mk clear_p) | "Get" -> MGet (mk get_p) | "Set" -> MSet (mk set_p)
     | "Mutable" -> MMut (mk mut_p) | "NewField" -> MNewf (mk newf_p) | "WhichOneof" -> MWhich (mk which_p)
     | _ -> bad ("method name " ^ name))
  | _ -> bad "method"

let methods = [ "Has"; "Clear"; "Get"; "Set"; "Mutable"; "NewField"; "WhichOneof"; "Range" ]

let canon_of (ps : rprogs) (name : string) : meth =
  match name with
  | "Has" -> MHas ps.p_has | "Clear" -> MClear ps.p_clear | "Get" -> MGet ps.p_get | "Set" -> MSet ps.p_set
  | "Mutable" -> MMut ps.p_mut | "NewField" -> MNewf ps.p_newf | "WhichOneof" -> MWhich ps.p_which | "Range" -> MRange ps.p_range
  | _ -> bad ("method name " ^ name)

(* the eight remembered methods of a type, if all are there *)
let progs_of (sid : string) (mid : string) : rprogs option =
  match List.map (fun n -> Hashtbl.find_opt table (sid, mid, n)) methods with
  | [ Some (MHas a); Some (MClear b); Some (MGet c); Some (MSet d); Some (MMut e); Some (MNewf f); Some (MWhich g); Some (MRange h) ] ->
    Some { p_has = a; p_clear = b; p_get = c; p_set = d; p_mut = e; p_newf = f; p_which = g; p_range = h }
  | _ -> None

exception Stuck

let run_translated sid sch (h0 : heap) (outs0 : pval list) (root : nat option) (ops : string) : string =
  let lookup (mid : nat) = progs_of sid (ns mid) in
  let stepf (s : string) sch h o =
    match Reflect_eval.words s, o with
    | [ "rstop"; _; k ], ORange (PMsg (mid, _) as r) when lookup mid <> None ->
      (* the translated Range with a callback that answers false at its k-th call *)
      let k = int_of_string k and calls = ref 0 in
      (match lookup mid with
       | Some ps -> (match run_range sch (fun _ _ -> incr calls; !calls < k) ps.p_range h r with Some res -> res | None -> raise Stuck)
       | None -> step sch h o)
    | _ -> (match rp_step sch lookup h o with Some res -> res | None -> raise Stuck)
  in
  (* (the statements about Reflect.step are evaluated on these states too: wrappers holding nil, the nil receiver) *)
  try Reflect_eval.run_hist_gen stepf true sch h0 outs0 root ops with Stuck -> "stuck"

let reflectprog_eval (fn : string) (args : string list) : string =
  match fn, args with
  | "REFLECTPROG", [ sid; mid; "all"; "eqb" ] ->
    let canon = canon_progs (Ctx.schema sid) (nat_of_int (int_of_string mid)) in
    (match progs_of sid mid with
     | None -> "not-all-translated"
     | Some ps ->
       let same = rprogs_eqb ps canon in
       (* the model's decidable equality and the comparison of the printed texts are the same judgement *)
       Driver.law "reflectprog.rprogs_eqb_is_text_equality"
         (same = List.for_all (fun n -> text_of (canon_of ps n) = text_of (canon_of canon n)) methods);
       if same then "same" else "different")
  | "REFLECTPROG", [ sid; mid; name; k ] ->
    let canon = canon_of (canon_progs (Ctx.schema sid) (nat_of_int (int_of_string mid))) name in
    if k = "len" then string_of_int (List.length (items_of canon))
    else if k = "frame" then frame_of canon
    else if k = "eqb" then
      (match Hashtbl.find_opt table (sid, mid, name) with
       | Some m -> if text_of m = text_of canon then "same" else "different"
       | None -> "no-translated-method")
    else (match List.nth_opt (items_of canon) (int_of_string k) with Some s -> s | None -> "-")
  | "REFLECTDEF", [ sid; mid; name; text ] ->
    let m = meth_p name text in
    Hashtbl.replace table (sid, mid, name) m;
    if text_of m <> text then "reprinted:" ^ text_of m else "ok"
  | "REFLECTRUN", [ sid; mid; v; ops ] ->
    let sch = Ctx.schema sid and m = nat_of_int (int_of_string mid) in
    let h, p = load sch (nat_of_int 64) [] m (Sexp.val_of_string v) in
    run_translated sid sch h [ PMsg (m, p) ] p ops
  | _ -> raise Not_found

let () = Driver.register reflectprog_eval
