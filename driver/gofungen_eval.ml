(* Evaluator of the "gofun" engine, part "generator" (task T15): /repo/generator/helpers.go against Model/GoFunGen.v.
     GOFUN / @GOFUNDEF / GOFUNRUN  generator/helpers.go …   as in gofun_eval.ml, with the canonical declarations of GoFunGen.canon_generator and
                                                            the interpreter GoFunGen.gen_run on the TRANSLATED declarations
     GOFUNCONST pkg name   = <type> <decimal value>         model: gen_const (the table of named constants), "-" if absent
     GOFUNCONST all        = <n>                            model: length gen_const_table (every entry of the table was held against the real constant)
     GOFUNTYPE  pkg.T      = int8 | int32 | …               model: gen_underlying (the table of named types), "-" if absent
     GOFUNTYPE  all        = <n>                            model: length gen_type_table
   One more declaration form than gofun_eval.ml:  (mapvar m K V (k v)...)   var m = map[K]V{k: v, …} *)
open Model
open Util
open Gofun_eval

let file_s = str_of gen_file

type gdecl = D of decl | M of gmapdecl

let map_s (m : gmapdecl) : string =
  "(mapvar " ^ str_of m.gm_name ^ " " ^ ty_s m.gm_key ^ " " ^ ty_s m.gm_val
  ^ sp (List.map (fun (k, v) -> "(" ^ expr_s k ^ " " ^ expr_s v ^ ")") m.gm_entries) ^ ")"
let gdecl_s = function D d -> decl_s d | M m -> map_s m
let gdecl_p (s : string) : gdecl =
  match parse_sx s with
  | [ L (A "mapvar" :: A x :: A kt :: A vt :: es) ] ->
    M { gm_name = nm x; gm_key = ty_p kt; gm_val = ty_p vt;
        gm_entries = List.map (function L [ k; v ] -> (expr_p k, expr_p v) | _ -> bad "map entry") es }
  | _ -> D (decl_p s)
let gdecl_eqb a b =
  match a, b with
  | D x, D y -> decl_eqb x y
  | M x, M y -> gmapdecl_eqb x y
  | _, _ -> false

(* the translated declarations, in source order (context lines: every shard sees them) *)
let gdefs : (string * gdecl) list ref = ref []
let program_of_defs () : genprogram =
  let l = List.rev !gdefs in
  { gp_base = { pg_globals = List.filter_map (function _, D (Glob g) -> Some g | _ -> None) l;
                pg_funs = List.filter_map (function _, D (Fun f) -> Some f | _ -> None) l };
    gp_maps = List.filter_map (function _, M m -> Some m | _ -> None) l }

let canon_gdecl (name : string) : gdecl option =
  if not (List.mem (nm name) canon_generator_decls) then None
  else
    match String.index_opt name ':' with
    | Some i ->
      let x = nm (String.sub name (i + 1) (String.length name - i - 1)) in
      (match gen_find_map canon_generator.gp_maps x with
       | Some m -> Some (M m)
       | None -> (match find_global canon_generator.gp_base.pg_globals x with Some g -> Some (D (Glob g)) | None -> None))
    | None -> (match find_fun canon_generator.gp_base.pg_funs (nm name) with Some f -> Some (D (Fun f)) | None -> None)

let run_laws (fn : string) (args : gvalue list) : unit =
  match fn, args with
  | "KeySize", [ GvInt (TInt32, n); GvInt (TInt8, wt) ] -> Driver.law "C02.gofungen_keysize" (keysize_prog_law n wt)
  | "ProtoWireType", [ GvInt (TInt8, k) ] -> Driver.law "C02.gofungen_protowiretype" (protowiretype_prog_law k)
  | _ -> ()

let gofungen_eval (fn : string) (args : string list) : string =
  match fn, args with
  | "GOFUN", [ file; "decls" ] when file = file_s -> String.concat " " (List.map str_of canon_generator_decls)
  | "GOFUN", [ file; name ] when file = file_s -> (match canon_gdecl name with Some d -> gdecl_s d | None -> "-")
  | "GOFUN", [ file; name; "eqb" ] when file = file_s ->
    (match List.assoc_opt name !gdefs, canon_gdecl name with
     | None, _ -> "no-translated-declaration"
     | _, None -> "no-canonical-declaration"
     | Some d, Some c -> if gdecl_eqb d c then "same" else "different")
  | "GOFUNDEF", [ file; name; text ] when file = file_s ->
    let d = gdecl_p text in
    gdefs := (name, d) :: List.remove_assoc name !gdefs;
    (match canon_gdecl name with
     | Some c -> Driver.law "gofungen.eqb_is_text_equality" (gdecl_eqb d c = (text = gdecl_s c))
     | None -> ());
    if gdecl_s d <> text then "reprinted:" ^ gdecl_s d else "ok"
  | "GOFUNRUN", file :: f :: vals when file = file_s ->
    let vs = List.map val_of_string vals in
    run_laws f vs;
    res_s (gen_run (program_of_defs ()) (nat_of_int 64) (nat_of_int 8) (nm f) vs)
  | "GOFUNCONST", [ "all" ] -> string_of_int (List.length gen_const_table)
  | "GOFUNCONST", [ p; n ] -> (match gen_const (nm p) (nm n) with Some (t, z) -> str_of t ^ " " ^ dec_of_z z | None -> "-")
  | "GOFUNTYPE", [ "all" ] -> string_of_int (List.length gen_type_table)
  | "GOFUNTYPE", [ q ] -> (match gen_underlying (nm q) with Some t -> ity_s t | None -> "-")
  | _ -> raise Not_found

let () = Driver.register gofungen_eval
