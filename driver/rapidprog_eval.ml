(* Evaluator of the "rapidprog" engine (translator tie for the hand-written rapidproto/rapidproto.go, Model/RapidProg.v; property C18).
     RAPIDPROG     imports                  = imported packages, sorted            model: canon_rapidproto_imports
     RAPIDPROG     decls                    = kind:name of the declarations        model: the same of canon_rapidproto
     RAPIDPROG     name                     = printed translation                  model: print (canonical declaration of that name), "-" if none
     @RAPIDPROGDEF name text                = ok                                   context line: parse and remember the TRANSLATED declaration;
                                                                                   ok iff printing the parsed declaration gives the text back
     RAPIDPROG     name eqb                 = same                                 model: rdecl_eqb <translated> <canonical>
     RAPIDPROG     name diff                = none                                 model: the first node at which the two printed declarations differ
     RAPIDPROGRUN  schema message options seed = ok                                the interpreter on the TRANSLATED program, on a pseudo-random
                                                                                   tape made from the seed: its outcome must be RapidGen.gen's and
                                                                                   lie in rapid_in_range; the statement rapidprog_correct
                                                                                   (canonical program = gen) is evaluated as a law on the same case
   Text form (the Go printer in harness/cmd/runner/rapidprog.go writes the same):
     d ::= (const x e) | (opaque kind name "text")
         | (func F (tparams (x "T")...) (recv (x "T"))|(norecv) (params (x "T")...) (results "T"...) (body s...))
     s ::= (:= (x...) e) | (= (x...) e) | (var x "T") | (expr e) | (if (init s...) e (then s...) (else s...))
         | (switch (tag e)|(notag) (case (e...) s...)... (default s...)) | (for i n s...) | (range x e s...)
         | (return e...) | (continue) | (return-custom t "T" "T" s...)
     e ::= nil | true | false | x | (int z) | (str "...") | (. e Field) | (kind K) | (max-int64) | (accepts-interface) | (no-value)
         | (not e) | (op e e) | (fn F e...) | (m M e e...) | (call f e...) | (mcall f e e...) | (index-ok e e) | (assert-type e "T") *)
open Model
open Util

let nm (s : string) : gname = List.init (String.length s) (fun i -> byte_of_int (Char.code s.[i]))
let str_of (g : gname) : string = String.init (List.length g) (let a = Array.of_list g in fun i -> Char.chr (int_of_byte a.(i)))
let bad what = failwith ("rapidprog: cannot parse " ^ what)

type sx = Anyprog_eval.sx = A of string | Q of string | L of sx list
let parse_sx = Anyprog_eval.parse_sx
let quote = Anyprog_eval.quote

(* ---- tables: the names of the text form ---- *)
let kinds = [ "DoubleKind", KDouble; "FloatKind", KFloat; "Int32Kind", KInt32; "Int64Kind", KInt64; "Uint32Kind", KUint32;
              "Uint64Kind", KUint64; "Sint32Kind", KSint32; "Sint64Kind", KSint64; "Fixed32Kind", KFixed32; "Fixed64Kind", KFixed64;
              "Sfixed32Kind", KSfixed32; "Sfixed64Kind", KSfixed64; "BoolKind", KBool; "StringKind", KString; "BytesKind", KBytes;
              "EnumKind", KEnum ]
let ofields = [ "AnyTypeURLs", RoAnyTypeURLs; "InterfaceHints", RoInterfaceHints; "Resolver", RoResolver; "NoEmptyLists", RoNoEmptyLists;
                "DisallowNilMessages", RoDisallowNilMessages; "FieldMaps", RoFieldMaps ]
let binops = [ "+", RbAdd; "-", RbSub; "/", RbDiv; "==", RbEq; "!=", RbNe; "<", RbLt; ">", RbGt; "&&", RbAnd; "||", RbOr ]
let meths = [ "ProtoReflect", RmProtoReflect; "Type", RmType; "New", RmNew; "Interface", RmInterface; "Descriptor", RmDescriptor;
              "FullName", RmFullName; "Fields", RmFields; "Len", RmLen; "Get", RmGet; "ByName", RmByName; "Name", RmName; "Kind", RmKind;
              "IsList", RmIsList; "IsMap", RmIsMap; "MapKey", RmMapKey; "MapValue", RmMapValue; "Enum", RmEnum; "Values", RmValues;
              "Number", RmNumber; "Options", RmOptions; "Mutable", RmMutable; "Set", RmSet; "Clear", RmClear; "NewField", RmNewField;
              "List", RmList; "Map", RmMap; "Message", RmMessage; "Append", RmAppend; "AppendMutable", RmAppendMutable;
              "Truncate", RmTruncate; "Draw", RmDraw; "Fatalf", RmFatalf; "FindMessageByURL", RmFindMessageByURL ]
let fns = [ "rapid.Bool", RfRapidBool; "rapid.Int32", RfRapidInt32; "rapid.Uint32", RfRapidUint32; "rapid.Int64", RfRapidInt64;
            "rapid.Uint64", RfRapidUint64; "rapid.Float32", RfRapidFloat32; "rapid.Float64", RfRapidFloat64; "rapid.String", RfRapidString;
            "rapid.Byte", RfRapidByte; "rapid.SliceOf", RfRapidSliceOf; "rapid.SliceOfN", RfRapidSliceOfN;
            "rapid.StringMatching", RfRapidStringMatching; "rapid.SampledFrom", RfRapidSampledFrom; "rapid.IntRange", RfRapidIntRange;
            "rapid.Int32Range", RfRapidInt32Range; "rapid.Int64Range", RfRapidInt64Range;
            "protoreflect.ValueOfInt32", RfValueOfInt32; "protoreflect.ValueOfUint32", RfValueOfUint32;
            "protoreflect.ValueOfInt64", RfValueOfInt64; "protoreflect.ValueOfUint64", RfValueOfUint64;
            "protoreflect.ValueOfBool", RfValueOfBool; "protoreflect.ValueOfBytes", RfValueOfBytes;
            "protoreflect.ValueOfFloat32", RfValueOfFloat32; "protoreflect.ValueOfFloat64", RfValueOfFloat64;
            "protoreflect.ValueOfEnum", RfValueOfEnum; "protoreflect.ValueOfString", RfValueOfString;
            "protoreflect.ValueOfList", RfValueOfList; "fmt.Sprintf", RfSprintf; "proto.Marshal", RfMarshal;
            "proto.HasExtension", RfHasExtension; "proto.GetExtension", RfGetExtension; "assert.Assert", RfAssert;
            "assert.NilError", RfNilError; "len", RfLen; "panic", RfPanic; "string", RfString; "int", RfInt; "int64", RfInt64 ]
let rassoc v l = fst (List.find (fun (_, w) -> w = v) l)
let lookup what s l = try List.assoc s l with Not_found -> bad (what ^ " " ^ s)

let z_of_dec (s : string) : z = match int_of_string_opt s with Some i -> z_of_int i | None -> bad ("integer " ^ s)
let dec_of_z (x : z) : string =
  let h = hex_of_z x in
  if String.length h > 0 && h.[0] = '-' then "-" ^ string_of_int (int_of_string ("0x" ^ String.sub h 1 (String.length h - 1)))
  else string_of_int (int_of_string ("0x" ^ h))

(* ---- printer ---- *)
let sp l = String.concat "" (List.map (fun x -> " " ^ x) l)
let q g = quote (str_of g)
let rec expr_s = function
  | RxNil -> "nil"
  | RxBool true -> "true"
  | RxBool false -> "false"
  | RxInt z -> "(int " ^ dec_of_z z ^ ")"
  | RxStr s -> "(str " ^ q s ^ ")"
  | RxVar x -> str_of x
  | RxSel (e, f) -> "(. " ^ expr_s e ^ " " ^ rassoc f ofields ^ ")"
  | RxKind (RkScalar k) -> "(kind " ^ rassoc k kinds ^ ")"
  | RxKind RkMessage -> "(kind MessageKind)"
  | RxKind RkGroup -> "(kind GroupKind)"
  | RxMaxInt64 -> "(max-int64)"
  | RxAcceptsInterface -> "(accepts-interface)"
  | RxNoValue -> "(no-value)"
  | RxNot e -> "(not " ^ expr_s e ^ ")"
  | RxBin (op, a, b) -> "(" ^ rassoc op binops ^ " " ^ expr_s a ^ " " ^ expr_s b ^ ")"
  | RxFn (f, l) -> "(fn " ^ rassoc f fns ^ sp (List.map expr_s l) ^ ")"
  | RxMeth (m, r, l) -> "(m " ^ rassoc m meths ^ " " ^ expr_s r ^ sp (List.map expr_s l) ^ ")"
  | RxCall (f, None, l) -> "(call " ^ str_of f ^ sp (List.map expr_s l) ^ ")"
  | RxCall (f, Some r, l) -> "(mcall " ^ str_of f ^ " " ^ expr_s r ^ sp (List.map expr_s l) ^ ")"
  | RxIndexOk (m, k) -> "(index-ok " ^ expr_s m ^ " " ^ expr_s k ^ ")"
  | RxAssertType (e, t) -> "(assert-type " ^ expr_s e ^ " " ^ q t ^ ")"
let names_s xs = "(" ^ String.concat " " (List.map str_of xs) ^ ")"
let rec stmt_s = function
  | RsDefine (xs, e) -> "(:= " ^ names_s xs ^ " " ^ expr_s e ^ ")"
  | RsAssign (xs, e) -> "(= " ^ names_s xs ^ " " ^ expr_s e ^ ")"
  | RsVar (x, t) -> "(var " ^ str_of x ^ " " ^ q t ^ ")"
  | RsExpr e -> "(expr " ^ expr_s e ^ ")"
  | RsIf (i, c, a, b) -> "(if (init" ^ body_s i ^ ") " ^ expr_s c ^ " (then" ^ body_s a ^ ") (else" ^ body_s b ^ "))"
  | RsSwitch (tag, cs, d) ->
    "(switch " ^ (match tag with Some e -> "(tag " ^ expr_s e ^ ")" | None -> "(notag)")
    ^ sp (List.map (fun (es, b) -> "(case (" ^ String.concat " " (List.map expr_s es) ^ ")" ^ body_s b ^ ")") cs)
    ^ " (default" ^ body_s d ^ "))"
  | RsFor (i, n, b) -> "(for " ^ str_of i ^ " " ^ str_of n ^ body_s b ^ ")"
  | RsRange (x, e, b) -> "(range " ^ str_of x ^ " " ^ expr_s e ^ body_s b ^ ")"
  | RsReturn l -> "(return" ^ sp (List.map expr_s l) ^ ")"
  | RsContinue -> "(continue)"
  | RsReturnCustom (t, a, r, b) -> "(return-custom " ^ str_of t ^ " " ^ q a ^ " " ^ q r ^ body_s b ^ ")"
and body_s b = sp (List.map stmt_s b)
let pair_s (x, t) = "(" ^ str_of x ^ " " ^ q t ^ ")"
let decl_s = function
  | RdConst (x, e) -> "(const " ^ str_of x ^ " " ^ expr_s e ^ ")"
  | RdOpaque (k, n, t) -> "(opaque " ^ str_of k ^ " " ^ str_of n ^ " " ^ q t ^ ")"
  | RdFunc f ->
    "(func " ^ str_of f.rf_name ^ " (tparams" ^ sp (List.map pair_s f.rf_tparams) ^ ") "
    ^ (match f.rf_recv with Some r -> "(recv " ^ pair_s r ^ ")" | None -> "(norecv)")
    ^ " (params" ^ sp (List.map pair_s f.rf_params) ^ ") (results" ^ sp (List.map q f.rf_results) ^ ") (body" ^ body_s f.rf_body ^ "))"
let decl_kind = function RdConst _ -> "const" | RdFunc _ -> "func" | RdOpaque (k, _, _) -> str_of k

(* ---- parser ---- *)
let rec expr_p = function
  | A "nil" -> RxNil
  | A "true" -> RxBool true
  | A "false" -> RxBool false
  | A x -> RxVar (nm x)
  | L [ A "int"; A z ] -> RxInt (z_of_dec z)
  | L [ A "str"; Q s ] -> RxStr (nm s)
  | L [ A "."; e; A f ] -> RxSel (expr_p e, lookup "options field" f ofields)
  | L [ A "kind"; A "MessageKind" ] -> RxKind RkMessage
  | L [ A "kind"; A "GroupKind" ] -> RxKind RkGroup
  | L [ A "kind"; A k ] -> RxKind (RkScalar (lookup "kind" k kinds))
  | L [ A "max-int64" ] -> RxMaxInt64
  | L [ A "accepts-interface" ] -> RxAcceptsInterface
  | L [ A "no-value" ] -> RxNoValue
  | L [ A "not"; e ] -> RxNot (expr_p e)
  | L (A "fn" :: A f :: l) -> RxFn (lookup "function" f fns, List.map expr_p l)
  | L (A "m" :: A m :: r :: l) -> RxMeth (lookup "method" m meths, expr_p r, List.map expr_p l)
  | L (A "call" :: A f :: l) -> RxCall (nm f, None, List.map expr_p l)
  | L (A "mcall" :: A f :: r :: l) -> RxCall (nm f, Some (expr_p r), List.map expr_p l)
  | L [ A "index-ok"; m; k ] -> RxIndexOk (expr_p m, expr_p k)
  | L [ A "assert-type"; e; Q t ] -> RxAssertType (expr_p e, nm t)
  | L [ A op; a; b ] when List.mem_assoc op binops -> RxBin (List.assoc op binops, expr_p a, expr_p b)
  | _ -> bad "expression"
let names_p l = List.map (function A x -> nm x | _ -> bad "variable list") l
let rec stmt_p = function
  | L [ A ":="; L xs; e ] -> RsDefine (names_p xs, expr_p e)
  | L [ A "="; L xs; e ] -> RsAssign (names_p xs, expr_p e)
  | L [ A "var"; A x; Q t ] -> RsVar (nm x, nm t)
  | L [ A "expr"; e ] -> RsExpr (expr_p e)
  | L [ A "if"; L (A "init" :: i); c; L (A "then" :: a); L (A "else" :: b) ] ->
    RsIf (List.map stmt_p i, expr_p c, List.map stmt_p a, List.map stmt_p b)
  | L (A "switch" :: tag :: rest) ->
    let tag = (match tag with L [ A "tag"; e ] -> Some (expr_p e) | L [ A "notag" ] -> None | _ -> bad "switch tag") in
    let rec go = function
      | [ L (A "default" :: d) ] -> ([], List.map stmt_p d)
      | L (A "case" :: L es :: b) :: t -> let cs, d = go t in ((List.map expr_p es, List.map stmt_p b) :: cs, d)
      | _ -> bad "switch clause" in
    let cs, d = go rest in
    RsSwitch (tag, cs, d)
  | L (A "for" :: A i :: A n :: b) -> RsFor (nm i, nm n, List.map stmt_p b)
  | L (A "range" :: A x :: e :: b) -> RsRange (nm x, expr_p e, List.map stmt_p b)
  | L (A "return" :: l) -> RsReturn (List.map expr_p l)
  | L [ A "continue" ] -> RsContinue
  | L (A "return-custom" :: A t :: Q a :: Q r :: b) -> RsReturnCustom (nm t, nm a, nm r, List.map stmt_p b)
  | _ -> bad "statement"
let pair_p = function L [ A x; Q t ] -> (nm x, nm t) | _ -> bad "name with type"
let decl_p (s : string) : rdecl =
  match parse_sx s with
  | [ L [ A "const"; A x; e ] ] -> RdConst (nm x, expr_p e)
  | [ L [ A "opaque"; A k; A n; Q t ] ] -> RdOpaque (nm k, nm n, nm t)
  | [ L [ A "func"; A f; L (A "tparams" :: tps); recv; L (A "params" :: ps); L (A "results" :: rs); L (A "body" :: b) ] ] ->
    RdFunc { rf_name = nm f; rf_tparams = List.map pair_p tps;
             rf_recv = (match recv with L [ A "recv"; r ] -> Some (pair_p r) | L [ A "norecv" ] -> None | _ -> bad "receiver");
             rf_params = List.map pair_p ps;
             rf_results = List.map (function Q t -> nm t | _ -> bad "result type") rs;
             rf_body = List.map stmt_p b }
  | _ -> bad "declaration"

(* ---- where two printed declarations differ: the path (child indexes) to the first differing node, and both nodes ---- *)
let rec sx_s = function A a -> a | Q s -> quote s | L l -> "(" ^ String.concat " " (List.map sx_s l) ^ ")"
let clip160 s = if String.length s > 160 then String.sub s 0 160 ^ "..." else s
let head_of = function L (A h :: _) -> h | A a -> a | Q _ -> "\"\"" | L _ -> "()"
let rec first_diff (path : string) (a : sx) (b : sx) : string option =
  if a = b then None
  else match a, b with
    | L la, L lb when (match la, lb with A x :: _, A y :: _ -> x = y | _ -> true) ->
      let rec go i xs ys = match xs, ys with
        | x :: xs', y :: ys' -> (match first_diff (path ^ "/" ^ head_of a ^ "." ^ string_of_int i) x y with Some d -> Some d | None -> go (i + 1) xs' ys')
        | x :: _, [] -> Some ("at " ^ path ^ "/" ^ head_of a ^ "." ^ string_of_int i ^ ": canonical " ^ clip160 (sx_s x) ^ " | translated has nothing here")
        | [], y :: _ -> Some ("at " ^ path ^ "/" ^ head_of a ^ "." ^ string_of_int i ^ ": canonical has nothing here | translated " ^ clip160 (sx_s y))
        | [], [] -> None in
      go 0 la lb
    | _ -> Some ("at " ^ (if path = "" then "/" else path) ^ ": canonical " ^ clip160 (sx_s a) ^ " | translated " ^ clip160 (sx_s b))

(* ---- the translated declarations, in source order ---- *)
let defs : (string * rdecl) list ref = ref []
let program () : rdecl list = List.rev_map snd !defs
let canon_decl (name : string) : rdecl option = List.find_opt (fun d -> str_of (rdecl_name d) = name) canon_rapidproto

(* ---- runs ---- *)
(* the tape: a 62-bit linear congruential sequence, wide enough for every range the generator draws from *)
let tape_of_seed (seed : int) (len : int) : n list =
  let x = ref (seed land 0x3fffffffffffffff) in
  List.init len (fun _ ->
      x := (!x * 2862933555777941757 + 3037000493) land 0x3fffffffffffffff;
      n_of_int (!x lsr 7))

let out_s = function
  | Some (Ok v) -> "ok " ^ Rapid_eval.clip (Sexp.string_of_val v)
  | Some Err -> "err" | Some Panic -> "panic" | Some OutOfFuel -> "outoffuel" | None -> "stuck"

let rapidprog_eval (fn : string) (args : string list) : string =
  match fn, args with
  | "RAPIDPROG", [ "imports" ] -> String.concat " " (List.map str_of canon_rapidproto_imports)
  | "RAPIDPROG", [ "decls" ] -> String.concat " " (List.map (fun d -> decl_kind d ^ ":" ^ str_of (rdecl_name d)) canon_rapidproto)
  | "RAPIDPROG", [ name ] -> (match canon_decl name with Some d -> decl_s d | None -> "-")
  | "RAPIDPROG", [ name; "diff" ] ->
    (match List.assoc_opt name !defs, canon_decl name with
     | None, _ -> "no-translated-declaration"
     | _, None -> "no-canonical-declaration"
     | Some d, Some c ->
       (match parse_sx (decl_s c), parse_sx (decl_s d) with
        | [ a ], [ b ] -> (match first_diff "" a b with Some m -> m | None -> "none")
        | _ -> "unparsable"))
  | "RAPIDPROG", [ name; "eqb" ] ->
    (match List.assoc_opt name !defs, canon_decl name with
     | None, _ -> "no-translated-declaration"
     | _, None -> "no-canonical-declaration"
     | Some d, Some c -> if rdecl_eqb d c then "same" else "different")
  | "RAPIDPROGDEF", [ name; text ] ->
    let d = decl_p text in
    defs := (name, d) :: List.remove_assoc name !defs;
    (* the model's decidable equality and the comparison of the printed texts are the same judgement *)
    (match canon_decl name with
     | Some c -> Driver.law "rapidprog.eqb_is_text_equality" (rdecl_eqb d c = (text = decl_s c))
     | None -> ());
    if decl_s d <> text then "reprinted:" ^ decl_s d else "ok"
  | "RAPIDPROGRUN", [ sid; mid; opts; seed ] ->
    let sch = Ctx.schema sid in
    let ann = (try Hashtbl.find Rapid_eval.annots sid with Not_found -> failwith ("no RSCHEMA for " ^ sid)) in
    let m = nat_of_int (int_of_string mid) and o = Rapid_eval.parse_opts opts in
    let tape = tape_of_seed (int_of_string seed) 2000 in
    let g = gen code_variant o sch ann m tape in
    (* Properties/C18.v rapidprog_correct on this case: the canonical program interpreted IS the generator model *)
    Driver.law "C18.rapidprog_correct" (rp_generate o sch ann canon_rapidproto rp_fuel m tape = Some g);
    let t = rp_generate o sch ann (program ()) rp_fuel m tape in
    if t <> Some g then "differs-from-the-generator-model: interpreter " ^ out_s t ^ " model " ^ out_s (Some g)
    else (match g with
        | Ok v -> if rapid_in_range code_variant o sch ann m v then "ok" else "out-of-range " ^ Rapid_eval.clip (Sexp.string_of_val v)
        | Err -> "ok" (* a type URL the resolver does not know, or a codec error: the draw is abandoned *)
        | Panic -> "panic"
        | OutOfFuel -> "outoffuel")
  | ("RAPIDPROG" | "RAPIDPROGDEF" | "RAPIDPROGRUN"), _ -> failwith "malformed RAPIDPROG case"
  | _ -> raise Not_found

let () = Driver.register rapidprog_eval
